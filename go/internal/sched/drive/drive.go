// Package drive runs protocol cases (thread programs + schedule lines) on real code
// under the deterministic scheduler, enumerates / samples schedules, and parses the
// recorded step traces back into histories for the property oracles.  Shared by the
// two lock-free queues (C11 SyncList, C01 SyncRing).
//
// Protocol (see lean/Golib/Model/C11.lean): op lines are
//
//	step <tid>   thread <tid> performs the atomic operation it is parked at
//	drain        round-robin over the unfinished threads until all returned
//	final        observation of the quiescent object
//
// and a step is printed as `<access>[ ret <result>| panic] <sample>`.
package drive

import (
	"fmt"
	"strconv"
	"strings"

	"verifharness/internal/sched"
)

// Target is the object under test.
type Target interface {
	// FmtOp renders an operation the real code performed: kind, address class, value/ok.
	FmtOp(op *sched.Op) string
	// Call performs one call of a thread program on the real object (from the thread's
	// goroutine) and renders its result as "ret …".
	Call(call string) string
	// Sample is evaluated by the controller after every step (e.g. "len=3").
	Sample() string
	// Final is evaluated when every thread returned.
	Final() string
}

const DrainRounds = 400

type Exec struct {
	S       *sched.S
	T       Target
	progs   [][]string
	results [][]string
	Steps   int
	Hung    bool
}

// NewExec starts one logical thread per program; each runs up to its first atomic
// operation.  The caller must Close it.
func NewExec(t Target, progs [][]string) *Exec {
	e := &Exec{S: sched.New(), T: t, progs: progs, results: make([][]string, len(progs))}
	for i := range progs {
		i := i
		e.S.Go(func(th *sched.Thread) {
			for _, c := range e.progs[i] {
				dead := false
				var res string
				func() {
					defer func() {
						if r := recover(); r != nil {
							res = "panic"
							dead = true
						}
					}()
					res = e.T.Call(c)
				}()
				e.results[i] = append(e.results[i], res)
				if dead {
					return
				}
			}
		})
	}
	return e
}

func (e *Exec) Close() { e.S.Close() }

// sample / final observations are made by the controller on the real object; a panic
// there (possible once a defect has corrupted the object) is part of the observation.
func (e *Exec) sample() (s string) {
	defer func() {
		if r := recover(); r != nil {
			s = "sample-panic"
		}
	}()
	return e.T.Sample()
}

func (e *Exec) final() (s string) {
	defer func() {
		if r := recover(); r != nil {
			s = "final-panic"
		}
	}()
	return e.T.Final()
}

func (e *Exec) N() int { return len(e.progs) }

func (e *Exec) Done(tid int) bool {
	return tid < 0 || tid >= len(e.S.Threads) || e.S.Threads[tid].Done()
}

func (e *Exec) AllDone() bool {
	for i := range e.S.Threads {
		if !e.Done(i) {
			return false
		}
	}
	return true
}

// PendingYield reports whether thread tid is parked at a runtime.Gosched().
func (e *Exec) PendingYield(tid int) bool {
	if e.Done(tid) {
		return false
	}
	op := e.S.Threads[tid].Pending()
	return op != nil && op.Kind == sched.KYield
}

// Step performs one step of thread tid and renders it.
func (e *Exec) Step(tid int) string {
	if e.Done(tid) {
		return "idle " + e.sample()
	}
	before := len(e.results[tid])
	op, st := e.S.Step(tid)
	e.Steps++
	if st == sched.Hang {
		e.Hung = true
		return "hang"
	}
	s := e.T.FmtOp(op)
	for _, r := range e.results[tid][before:] {
		s += " " + r
	}
	return s + " " + e.sample()
}

// Drain is the round-robin completion used by the `drain` line (the Lean driver has
// the same definition): passes over the thread ids in order, one step for every
// unfinished thread, until a pass makes no step.
func (e *Exec) Drain() string {
	var parts []string
	for round := 0; round < DrainRounds; round++ {
		stepped := false
		for i := 0; i < e.N(); i++ {
			if e.Done(i) {
				continue
			}
			parts = append(parts, fmt.Sprintf("t%d %s", i, e.Step(i)))
			stepped = true
			if e.Hung {
				return "hang"
			}
		}
		if !stepped {
			if len(parts) == 0 {
				return "quiet"
			}
			return strings.Join(parts, " ; ")
		}
	}
	return "drain-timeout"
}

// Line executes one protocol line.
func (e *Exec) Line(line string) string {
	if e.Hung {
		return "hang"
	}
	t := strings.Fields(line)
	switch {
	case len(t) == 2 && t[0] == "step":
		tid, err := strconv.Atoi(t[1])
		if err != nil || tid < 0 {
			return "bad-op"
		}
		return e.Step(tid)
	case len(t) == 1 && t[0] == "drain":
		return e.Drain()
	case len(t) == 1 && t[0] == "final":
		if !e.AllDone() {
			return "busy"
		}
		return e.final()
	}
	if x, ok := e.T.(ExtraLines); ok {
		if out, handled := x.ExtraLine(t); handled {
			return out
		}
	}
	return "bad-op"
}

// ExtraLines is implemented by targets with protocol lines of their own
// (C01: `warp <k>`), executed by the controller between steps.
type ExtraLines interface {
	ExtraLine(toks []string) (out string, handled bool)
}

// Mark is a protocol line other than step/drain/final, with its place in the trace.
type Mark struct {
	Line      int
	AfterStep int // number of steps performed before it
	Toks      []string
	Out       string
}

// Marks lists the target-specific lines of a case with their positions.
func Marks(lines, out []string) []Mark {
	var ms []Mark
	for i := 1; i < len(lines) && i < len(out); i++ {
		t := strings.Fields(lines[i])
		if len(t) == 0 || t[0] == "step" || t[0] == "drain" || t[0] == "final" {
			continue
		}
		steps, _, _ := ParseTrace(lines[:i], out[:i])
		ms = append(ms, Mark{Line: i, AfterStep: len(steps), Toks: t, Out: out[i]})
	}
	return ms
}

// ParseProgs splits `T a b T c` into [[a b] [c]].
func ParseProgs(toks []string) ([][]string, bool) {
	var progs [][]string
	for _, t := range toks {
		if t == "T" {
			progs = append(progs, []string{})
			continue
		}
		if len(progs) == 0 {
			return nil, false
		}
		progs[len(progs)-1] = append(progs[len(progs)-1], t)
	}
	return progs, true
}

func FmtProgs(progs [][]string) string {
	var b strings.Builder
	for _, p := range progs {
		b.WriteString(" T")
		for _, c := range p {
			b.WriteString(" " + c)
		}
	}
	return b.String()
}

// ---------------------------------------------------------------- trace parsing

// StepRec is one step of a recorded trace.
type StepRec struct {
	Line   int    // index of the protocol line that produced it
	Tid    int    // thread
	Access string // e.g. "cas head 0->1 ok"
	Ret    string // "" or e.g. "pop 7 true", "push", "len 3", "panic"
	Sample string // e.g. "len=2"
}

// parseStep splits `<access>[ ret <result>| panic] <sample>` (sample = last token).
func parseStep(s string) (acc, ret, sample string) {
	s = strings.TrimSpace(s)
	if k := strings.LastIndexByte(s, ' '); k >= 0 {
		sample = s[k+1:]
		s = s[:k]
	}
	if k := strings.Index(s, " ret "); k >= 0 {
		return s[:k], s[k+5:], sample
	}
	if strings.HasSuffix(s, " panic") {
		return strings.TrimSuffix(s, " panic"), "panic", sample
	}
	return s, "", sample
}

// ParseTrace flattens the implementation's output into the global step sequence.
// final = the answer to a `final` line ("" if none / busy).
func ParseTrace(lines, out []string) (steps []StepRec, final string, anomalies []string) {
	for i := 1; i < len(lines) && i < len(out); i++ {
		t := strings.Fields(lines[i])
		o := out[i]
		switch {
		case len(t) == 2 && t[0] == "step":
			tid, _ := strconv.Atoi(t[1])
			if o == "hang" || o == "bad-op" || strings.HasPrefix(o, "harness") {
				anomalies = append(anomalies, o)
				continue
			}
			a, r, s := parseStep(o)
			if a == "idle" {
				continue
			}
			steps = append(steps, StepRec{Line: i, Tid: tid, Access: a, Ret: r, Sample: s})
		case len(t) == 1 && t[0] == "drain":
			if o == "quiet" {
				continue
			}
			if o == "hang" || o == "drain-timeout" || strings.HasPrefix(o, "harness") {
				anomalies = append(anomalies, o)
				continue
			}
			for _, p := range strings.Split(o, " ; ") {
				p = strings.TrimSpace(p)
				k := strings.IndexByte(p, ' ')
				if k < 2 || p[0] != 't' {
					anomalies = append(anomalies, "unparsable drain piece: "+p)
					continue
				}
				tid, err := strconv.Atoi(p[1:k])
				if err != nil {
					anomalies = append(anomalies, "unparsable drain piece: "+p)
					continue
				}
				a, r, s := parseStep(p[k+1:])
				steps = append(steps, StepRec{Line: i, Tid: tid, Access: a, Ret: r, Sample: s})
			}
		case len(t) == 1 && t[0] == "final":
			if strings.HasPrefix(o, "final ") {
				final = o
			}
			if o == "final-panic" {
				anomalies = append(anomalies, o)
			}
		}
	}
	return
}

// CallRec is one call of a thread program with its interval in global step indices.
type CallRec struct {
	Tid     int
	Call    string
	Ret     string // "" while pending
	Inv     int
	Resp    int
	Pending bool
	Started bool
}

// Calls reconstructs the history: the k-th call of a thread is invoked at the thread's
// first step after the previous call returned and responds at the step carrying `ret`.
func Calls(progs [][]string, steps []StepRec) []CallRec {
	var calls []CallRec
	cur := make([]int, len(progs)) // index into calls of the thread's open call, -1 none
	next := make([]int, len(progs))
	for i := range cur {
		cur[i] = -1
	}
	for k, st := range steps {
		if st.Tid < 0 || st.Tid >= len(progs) {
			continue
		}
		if cur[st.Tid] < 0 {
			if next[st.Tid] >= len(progs[st.Tid]) {
				continue
			}
			calls = append(calls, CallRec{Tid: st.Tid, Call: progs[st.Tid][next[st.Tid]], Inv: k, Pending: true, Started: true})
			cur[st.Tid] = len(calls) - 1
			next[st.Tid]++
		}
		if st.Ret != "" {
			c := &calls[cur[st.Tid]]
			c.Ret = st.Ret
			c.Resp = k
			c.Pending = false
			cur[st.Tid] = -1
		}
	}
	return calls
}

// Switches counts the context switches that happen while the thread switched away
// from is inside a call (used for the non-triviality rule).
func Switches(steps []StepRec) int {
	n := 0
	for k := 1; k < len(steps); k++ {
		if steps[k].Tid != steps[k-1].Tid && steps[k-1].Ret == "" {
			n++
		}
	}
	return n
}
