package transrt

import "verifharness/internal/core"

// Call runs the registered wrapper of the REAL function pkg:name on one argument line (for the
// property-specific grids that complement the generic trans-diff stream); ok = false when no
// wrapper is registered (the target is untranslatable now, or has no executable form).
func Call(pkg, name string, toks []string) (out string, ok bool) {
	e := reg[pkg+":"+name]
	if e == nil {
		return "", false
	}
	return core.Guard(func() string { return e.fn(toks) }), true
}
