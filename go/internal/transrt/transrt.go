// Package transrt is the Go side of the execution path of the go2lean translation
// (WAVE8_GUIDE.md): the generated wrappers (go/gen/trans/<pkg>/zz_trans_export.go) register
// the REAL functions of the tree under verification here, and the Extra `trans-diff` runs them
// and the definitions go2lean generated (through the oracle, header `@ Cxx trans <func>`) on
// generated arguments and diffs: a correspondence check OF THE TRANSLATOR.
package transrt

import (
	"encoding/hex"
	"errors"
	"fmt"
	"path/filepath"
	"regexp"
	"strconv"
	"strings"

	"verifharness/internal/core"
	"verifharness/internal/go2lean"
)

type entry struct {
	kinds []string
	fn    func([]string) string
}

var reg = map[string]*entry{}

// Register is called by the generated wrappers: pkg = directory of the package in the tree.
func Register(pkg, name string, kinds []string, fn func([]string) string) {
	reg[pkg+":"+name] = &entry{kinds, fn}
}

func Join(xs ...string) string { return strings.Join(xs, " ") }

func PUint(s string, bits int) (uint64, bool) {
	v, err := strconv.ParseUint(s, 10, bits)
	return v, err == nil
}
func PInt(s string, bits int) (int64, bool) {
	v, err := strconv.ParseInt(s, 10, bits)
	return v, err == nil
}
func PBool(s string) (bool, bool) { return s == "true", s == "true" || s == "false" }
func PBytes(s string) ([]byte, bool) {
	if s == "-" {
		return []byte{}, true
	}
	b, err := hex.DecodeString(s)
	return b, err == nil
}
func PUintList(s string, bits int) ([]uint64, bool) {
	if s == "-" {
		return nil, true
	}
	var out []uint64
	for _, t := range strings.Split(s, ",") {
		v, ok := PUint(t, bits)
		if !ok {
			return nil, false
		}
		out = append(out, v)
	}
	return out, true
}
func PIntList(s string, bits int) ([]int64, bool) {
	if s == "-" {
		return nil, true
	}
	var out []int64
	for _, t := range strings.Split(s, ",") {
		v, ok := PInt(t, bits)
		if !ok {
			return nil, false
		}
		out = append(out, v)
	}
	return out, true
}
func SUint(v uint64) string { return strconv.FormatUint(v, 10) }
func SInt(v int64) string   { return strconv.FormatInt(v, 10) }
func SBool(b bool) string {
	if b {
		return "true"
	}
	return "false"
}
func SBytes(b []byte) string {
	if len(b) == 0 {
		return "-"
	}
	return hex.EncodeToString(b)
}
func SList(n int, f func(int) string) string {
	if n == 0 {
		return "-"
	}
	xs := make([]string, n)
	for i := range xs {
		xs[i] = f(i)
	}
	return strings.Join(xs, ",")
}

// CmpMenu / SwapMenu: the fixed menus of callback values of the execution path; the same menus
// are GoSem.cmpMenuInt / GoSem.swapMenu on the Lean side.
func CmpMenu[T int | int8 | int16 | int32 | int64 | uint | uint8 | uint16 | uint32 | uint64](k int64) func(T, T) bool {
	switch k {
	case 0:
		return func(a, b T) bool { return a < b }
	case 1:
		return func(a, b T) bool { return a > b }
	case 2:
		return func(a, b T) bool { return a <= b }
	case 3:
		return func(a, b T) bool { return a == b }
	case 4:
		return func(a, b T) bool { return false }
	}
	return func(a, b T) bool { return true }
}

func SwapMenu[T any](k int64) func([]T, int, int) {
	switch k {
	case 0:
		return func(s []T, i, j int) { s[i], s[j] = s[j], s[i] }
	case 1:
		return func(s []T, i, j int) {}
	}
	return func(s []T, i, j int) { s[i] = s[j] }
}

// SErr prints an error result: `nil`, or `err:` + the comma-separated positions of ALL classes
// of the translated function that match it — a class that names a package-level error variable
// matches by errors.Is, a format string by the regular expression made from it (every verb = `.*`).
// The Lean side prints exactly one position; SameOut accepts it when it is in the set.
func SErr(err error, classes []string, sentinels map[string]error) string {
	if err == nil {
		return "nil"
	}
	var hit []string
	for i, c := range classes {
		if sv, ok := sentinels[c]; ok {
			if errors.Is(err, sv) {
				hit = append(hit, strconv.Itoa(i))
			}
			continue
		}
		if formatRegexp(c).MatchString(err.Error()) {
			hit = append(hit, strconv.Itoa(i))
		}
	}
	if len(hit) == 0 {
		return "err:?"
	}
	return "err:" + strings.Join(hit, ",")
}

var fmtRe = map[string]*regexp.Regexp{}
var verbRe = regexp.MustCompile(`%(%|[-+# 0]*(\[\d+\])?[\d*]*(\.[\d*]*)?(\[\d+\])?[a-zA-Z])`)

func formatRegexp(format string) *regexp.Regexp {
	if r, ok := fmtRe[format]; ok {
		return r
	}
	var b strings.Builder
	b.WriteString("(?s)^")
	last := 0
	for _, m := range verbRe.FindAllStringIndex(format, -1) {
		b.WriteString(regexp.QuoteMeta(format[last:m[0]]))
		if format[m[0]:m[1]] == "%%" {
			b.WriteString("%")
		} else {
			b.WriteString(".*")
		}
		last = m[1]
	}
	b.WriteString(regexp.QuoteMeta(format[last:]))
	b.WriteString("$")
	r := regexp.MustCompile(b.String())
	fmtRe[format] = r
	return r
}

// SameOut compares the output line of the real function with the one of the translated
// definition token by token; an `err:` token of the real side is a set of class positions.
func SameOut(impl, model string) bool {
	if impl == model {
		return true
	}
	a, b := strings.Fields(impl), strings.Fields(model)
	if len(a) != len(b) {
		return false
	}
	for i := range a {
		if a[i] == b[i] {
			continue
		}
		if !strings.HasPrefix(a[i], "err:") || !strings.HasPrefix(b[i], "err:") {
			return false
		}
		found := false
		for _, k := range strings.Split(a[i][4:], ",") {
			if k == b[i][4:] {
				found = true
			}
		}
		if !found {
			return false
		}
	}
	return true
}

// Source64 is a math/rand Source64 that always delivers the word k (extern `r.Uint64()`).
type Source64 uint64

func (s Source64) Uint64() uint64 { return uint64(s) }
func (s Source64) Int63() int64   { return int64(uint64(s) >> 1) }
func (s Source64) Seed(int64)     {}

// ---------------------------------------------------------------- argument generation

func boundaryU(bits int) []uint64 {
	max := ^uint64(0)
	if bits < 64 {
		max = (uint64(1) << bits) - 1
	}
	out := []uint64{0, 1, 2, 3, 7, 8, 255, 256, max, max - 1, max >> 1, (max >> 1) + 1, (max >> 1) + 2}
	for k := 0; k < bits; k++ {
		p := uint64(1) << k
		out = append(out, p, p-1, p+1)
	}
	var r []uint64
	for _, v := range out {
		r = append(r, v&max)
	}
	return r
}

func genScalar(r *core.Rand, kind string, i int) string {
	switch {
	case strings.HasPrefix(kind, "menu:cmp:"):
		return SInt(int64(r.Uint64() % 6))
	case strings.HasPrefix(kind, "menu:swap:"):
		if r.Uint64()%4 != 0 {
			return "0"
		}
		return SInt(int64(r.Uint64() % 3))
	case kind == "bool":
		if r.Uint64()&1 == 0 {
			return "true"
		}
		return "false"
	case kind == "int":
		b := []int64{0, 1, -1, 2, 3, 7, 8, 15, 16, 31, 32, 33, 63, 64, 65, 127, 128, 255, 256, 1000, -2, -64, 1 << 20, 1<<31 - 1, 1 << 31, 1 << 32}
		if i < len(b) {
			return SInt(b[i])
		}
		switch r.Uint64() % 4 {
		case 0:
			return SInt(int64(r.Uint64() % 70))
		case 1:
			return SInt(int64(r.Uint64()%600) - 300)
		case 2:
			return SInt(int64(r.Uint64() % (1 << 20)))
		}
		// `int` is translated as the unbounded Int (the one idealisation of go2lean): the
		// translator is compared with the real function where that is exact, i.e. on values
		// whose sums, differences and single products stay inside 64 bits (|x| < 2^31)
		return SInt(int64(r.Uint64()>>uint(33+r.Uint64()%31)) - 5)
	case strings.HasPrefix(kind, "u"):
		bits, _ := strconv.Atoi(kind[1:])
		b := boundaryU(bits)
		if i < len(b) {
			return SUint(b[i])
		}
		v := r.Uint64() >> uint(r.Uint64()%64)
		if bits < 64 {
			v &= (uint64(1) << bits) - 1
		}
		return SUint(v)
	case strings.HasPrefix(kind, "i"):
		bits, _ := strconv.Atoi(kind[1:])
		b := boundaryU(bits)
		var u uint64
		if i < len(b) {
			u = b[i]
		} else {
			u = r.Uint64() >> uint(r.Uint64()%64)
		}
		// reinterpret the low bits as signed
		sh := uint(64 - bits)
		return SInt(int64(u<<sh) >> sh)
	}
	return ""
}

func genArg(r *core.Rand, kind string, i int) string {
	switch {
	case kind == "bytes" || kind == "str":
		n := 0
		switch {
		case i == 0:
			n = 0
		case i < 40:
			n = i
		default:
			n = int(r.Uint64() % 70)
		}
		if n == 0 {
			return "-"
		}
		b := make([]byte, n)
		mode := r.Uint64() % 4
		for j := range b {
			switch mode {
			case 0:
				b[j] = byte(r.Uint64())
			case 1:
				b[j] = "0123456789abcdefABCDEFxyz-_ "[r.Uint64()%28]
			case 2:
				b[j] = byte(r.Uint64() % 20)
			default:
				b[j] = byte(n)
			}
		}
		return hex.EncodeToString(b)
	case strings.HasPrefix(kind, "slist:"):
		return genStructList(r, kind, i)
	case strings.HasPrefix(kind, "list:"):
		n := 0
		if i > 0 {
			n = int(r.Uint64() % 9)
		}
		if i > 0 && i < 6 {
			n = i
		}
		if n == 0 {
			return "-"
		}
		xs := make([]string, n)
		small := r.Uint64()%2 == 0
		for j := range xs {
			if small && (kind[5:] == "int" || strings.HasPrefix(kind[5:], "i") || strings.HasPrefix(kind[5:], "u")) {
				xs[j] = strconv.Itoa(int(r.Uint64() % 5))
			} else {
				xs[j] = genScalar(r, kind[5:], 1000)
			}
		}
		return strings.Join(xs, ",")
	}
	return genScalar(r, kind, i)
}

// Extra builds the `trans-diff` check of property id (nil when it has no targets).
func Extra(id string) *core.Extra {
	return &core.Extra{Name: "trans-diff", Run: func(ctx *core.Ctx) (int, string, []core.ExtraFailure) {
		tf, err := go2lean.LoadTargets(filepath.Join(ctx.VerifDir, "tools", "trans_targets.json"))
		if err != nil {
			return 0, "no targets file", nil
		}
		var fails []core.ExtraFailure
		var notes []string
		evals := 0
		for _, tg := range tf[id] {
			key := filepath.ToSlash(filepath.Dir(tg.File)) + ":" + tg.Name
			if tg.NoDiff {
				notes = append(notes, tg.Name+": no trans-diff ("+tg.Note+")")
				continue
			}
			e := reg[key]
			if e == nil {
				// no wrapper: untranslatable now (reported by the proof side) or no protocol form
				notes = append(notes, tg.Name+": no Go wrapper registered (untranslatable, or no executable form)")
				continue
			}
			n := 2000 * ctx.Escalate
			if ctx.Tier == "thorough" {
				n = 50000
			}
			lines := []string{fmt.Sprintf("@ %s trans %s", id, tg.Name)}
			for i := 0; i < n; i++ {
				args := make([]string, len(e.kinds))
				for j, k := range e.kinds {
					// boundary values per argument, the others random
					bi := i
					if len(e.kinds) > 1 && i%len(e.kinds) != j {
						bi = 100000
					}
					args[j] = genArg(ctx.Rand, k, bi)
					if j < len(tg.ArgMin) && tg.ArgMin[j] != nil {
						if w, err := strconv.ParseInt(args[j], 10, 64); err == nil && w < *tg.ArgMin[j] {
							span := uint64(1001)
							if j < len(tg.Limits) && tg.Limits[j] > 0 {
								span = tg.Limits[j] + 1
							}
							args[j] = SInt(*tg.ArgMin[j] + int64(uint64(-(w+1))%span))
						}
					}
					if j < len(tg.Limits) && tg.Limits[j] > 0 {
						if v, err := strconv.ParseUint(args[j], 10, 64); err == nil && v > tg.Limits[j] {
							args[j] = SUint(v % (tg.Limits[j] + 1))
						} else if w, err := strconv.ParseInt(args[j], 10, 64); err == nil && w < 0 && uint64(-w) > tg.Limits[j] {
							args[j] = SInt(-int64(uint64(-w) % (tg.Limits[j] + 1)))
						}
					}
				}
				lines = append(lines, strings.Join(args, " "))
			}
			c := core.Case{Lines: lines}
			impl := make([]string, len(lines))
			impl[0] = "ok"
			for i, l := range lines[1:] {
				toks := core.Toks(l)
				impl[i+1] = core.Guard(func() string { return e.fn(toks) })
			}
			model, err := core.RunOracle(ctx.VerifDir, []core.Case{c})
			if err != nil {
				fails = append(fails, core.ExtraFailure{Failure: core.Failure{Key: "trans-diff-oracle", Desc: "the oracle did not run the translated definitions: " + err.Error()}, NoInput: true})
				break
			}
			evals += n
			bad := 0
			for i := range lines {
				if !SameOut(impl[i], model[0][i]) {
					bad++
					if bad == 1 {
						fails = append(fails, core.ExtraFailure{
							Failure: core.Failure{Key: "trans-diff-" + tg.Name, Desc: fmt.Sprintf("the go2lean translation of %s disagrees with the real function on arguments `%s`: code=%q translated=%q", key, lines[i], impl[i], model[0][i])},
							Payload: map[string]any{"lines": []string{lines[0], lines[i]}, "impl_out": impl[i], "translated_out": model[0][i]},
							NoInput: true,
						})
					}
				}
			}
			notes = append(notes, fmt.Sprintf("%s: real function vs generated definition on %d argument tuples (boundary values first): %d differences", tg.Name, n, bad))
		}
		return evals, strings.Join(notes, "; "), fails
	}}
}

func init() {
	core.ExtraHooks = append(core.ExtraHooks, func(p *core.Prop, verif string) []core.Extra {
		tf, err := go2lean.LoadTargets(filepath.Join(verif, "tools", "trans_targets.json"))
		if err != nil || len(tf[p.ID]) == 0 {
			return nil
		}
		return []core.Extra{*Extra(p.ID)}
	})
}

// ---------------------------------------------------------------- slices of scalar structs (kind "slist:Name:f=code;…")

// PStructList splits `a/b,c/d` into items of nf fields (`-` = empty list).
func PStructList(s string, nf int) ([][]string, bool) {
	if s == "-" {
		return nil, true
	}
	var out [][]string
	for _, it := range strings.Split(s, ",") {
		fs := strings.Split(it, "/")
		if len(fs) != nf {
			return nil, false
		}
		out = append(out, fs)
	}
	return out, true
}

func JoinSlash(xs ...string) string { return strings.Join(xs, "/") }

func SetInt[T ~int | ~int8 | ~int16 | ~int32 | ~int64](p *T, s string) bool {
	v, err := strconv.ParseInt(s, 10, 64)
	if err != nil || int64(T(v)) != v {
		return false
	}
	*p = T(v)
	return true
}

func SetUint[T ~uint | ~uint8 | ~uint16 | ~uint32 | ~uint64 | ~uintptr](p *T, s string) bool {
	v, err := strconv.ParseUint(s, 10, 64)
	if err != nil || uint64(T(v)) != v {
		return false
	}
	*p = T(v)
	return true
}

func SetBool[T ~bool](p *T, s string) bool {
	if s != "true" && s != "false" {
		return false
	}
	*p = T(s == "true")
	return true
}

// genStructList: lengths 0..5 first, then up to 12 items; the fields of an item are drawn from a small
// range (so that equal / ordered / overlapping neighbours are frequent), from an increasing walk
// (sorted inputs), or from the boundary stream of the scalar kind.
func genStructList(r *core.Rand, kind string, i int) string {
	parts := strings.SplitN(kind, ":", 3)
	if len(parts) != 3 {
		return ""
	}
	var codes []string
	for _, f := range strings.Split(parts[2], ";") {
		kv := strings.SplitN(f, "=", 2)
		if len(kv) != 2 {
			return ""
		}
		codes = append(codes, kv[1])
	}
	n := 0
	switch {
	case i == 0:
		n = 0
	case i < 6:
		n = i
	default:
		n = int(r.Uint64() % 13)
	}
	if n == 0 {
		return "-"
	}
	mode := r.Uint64() % 4
	walk := int64(r.Uint64() % 3)
	items := make([]string, n)
	for j := range items {
		fs := make([]string, len(codes))
		for k, c := range codes {
			switch {
			case c == "bool":
				fs[k] = genScalar(r, c, 1000)
			case mode == 0:
				fs[k] = strconv.Itoa(int(r.Uint64() % 6))
			case mode == 1 || mode == 2:
				// increasing walk over the items; within an item later fields are not smaller
				if mode == 1 && k == 0 && walk > 0 && r.Uint64()%2 == 0 {
					walk -= int64(r.Uint64() % uint64(walk+1))
				}
				walk += int64(r.Uint64() % 4)
				fs[k] = strconv.FormatInt(walk, 10)
			default:
				fs[k] = genScalar(r, c, int(r.Uint64()%40))
			}
		}
		items[j] = strings.Join(fs, "/")
	}
	return strings.Join(items, ",")
}
