package go2lean

import (
	"encoding/json"
	"fmt"
	"os"
	"os/exec"
	"path/filepath"
	"strings"
	"testing"
)

// The tests translate the throw-away inputs under testdata/tmod (one targets file per group,
// testdata/*.json), run `lean` on the generated file (it must elaborate) and evaluate
// `runTrans` on a few argument lines whose outputs were worked out by hand from the Go semantics.
// A target with "reject" must be refused with a reason containing that text.

type testTarget struct {
	Target
	Evals  [][2]string `json:"evals"`
	Reject *string     `json:"reject"`
}

func leanDir(t *testing.T) string {
	d, err := filepath.Abs(filepath.Join("..", "..", "..", "lean"))
	if err != nil {
		t.Fatal(err)
	}
	if _, err := os.Stat(filepath.Join(d, "lakefile.lean")); err != nil {
		if _, err2 := os.Stat(filepath.Join(d, "lakefile.toml")); err2 != nil {
			t.Skip("no lean project next to the harness")
		}
	}
	if _, err := exec.LookPath("lake"); err != nil {
		t.Skip("lake not on PATH")
	}
	return d
}

func TestTranslateTestdata(t *testing.T) {
	files, _ := filepath.Glob(filepath.Join("testdata", "*.json"))
	if len(files) == 0 {
		t.Fatal("no testdata")
	}
	ld := leanDir(t)
	for _, f := range files {
		f := f
		t.Run(filepath.Base(f), func(t *testing.T) {
			b, err := os.ReadFile(f)
			if err != nil {
				t.Fatal(err)
			}
			var raw map[string][]testTarget
			if err := json.Unmarshal(b, &raw); err != nil {
				t.Fatal(err)
			}
			for id, tts := range raw {
				var targets []Target
				for _, tt := range tts {
					targets = append(targets, tt.Target)
				}
				res := Generate(filepath.Join("testdata", "tmod"), targets, id)
				byName := map[string]*FuncResult{}
				for _, fr := range res.Funcs {
					if fr.IsTarget {
						byName[fr.Target.Name] = fr
					}
				}
				var evals strings.Builder
				var wants []string
				for _, tt := range tts {
					fr := byName[tt.Name]
					if fr == nil {
						t.Errorf("%s: no result", tt.Name)
						continue
					}
					if tt.Reject != nil {
						if fr.OK {
							t.Errorf("%s: translated, but must be rejected (%q)", tt.Name, *tt.Reject)
						} else if !strings.Contains(fr.Reason, *tt.Reject) {
							t.Errorf("%s: rejected with %q, want a reason containing %q", tt.Name, fr.Reason, *tt.Reject)
						} else {
							t.Logf("%s: rejected as it must be: %s", tt.Name, fr.Reason)
						}
						continue
					}
					if !fr.OK {
						t.Errorf("%s: NOT translated: %s", tt.Name, fr.Reason)
						continue
					}
					for _, ev := range tt.Evals {
						var args []string
						for _, a := range strings.Fields(ev[0]) {
							args = append(args, fmt.Sprintf("%q", a))
						}
						fmt.Fprintf(&evals, "#eval IO.println (\"=> \" ++ Golib.Gen.Trans.%s.runTrans %q [%s])\n", id, tt.Name, strings.Join(args, ", "))
						wants = append(wants, fmt.Sprintf("%s(%s) = %s", tt.Name, ev[0], ev[1]))
					}
				}
				dir := filepath.Join(ld, ".lake", "go2lean-test")
				if err := os.MkdirAll(dir, 0o755); err != nil {
					t.Fatal(err)
				}
				out := filepath.Join(dir, "Trans"+id+".lean")
				if err := os.WriteFile(out, []byte(res.Lean+"\n"+evals.String()), 0o644); err != nil {
					t.Fatal(err)
				}
				cmd := exec.Command("lake", "env", "lean", out)
				cmd.Dir = ld
				ob, err := cmd.CombinedOutput()
				if err != nil {
					t.Fatalf("lean rejects the generated file %s: %v\n%s", out, err, ob)
				}
				var got []string
				for _, l := range strings.Split(string(ob), "\n") {
					if strings.HasPrefix(l, "=> ") {
						got = append(got, strings.TrimPrefix(l, "=> "))
					}
				}
				if len(got) != len(wants) {
					t.Fatalf("%d eval outputs, want %d\n%s", len(got), len(wants), ob)
				}
				for i, w := range wants {
					exp := w[strings.LastIndex(w, " = ")+3:]
					if got[i] != exp {
						t.Errorf("%s: translated definition gives %q", w, got[i])
					}
				}
			}
		})
	}
}
