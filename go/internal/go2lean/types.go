package go2lean

import (
	"fmt"
	"go/constant"
	"go/types"
	"math/big"
	"strings"
)

type kind int

const (
	kBV kind = iota
	kInt
	kBool
	kList
	kUnit
	kTParam
	kStruct
	kFunc // callback parameter
	kErr  // the predeclared type `error` (GoSem.Err)
	kOptFn // a function VALUE that may be nil (local `var f func(…)`, element of a `...func(…)` parameter): Option (args → res)
)

// ty is the Lean-side view of a Go type.
type ty struct {
	k      kind
	bits   int
	signed bool
	elem   *ty
	str    bool   // a Go string (List (BitVec 8))
	name   string // type parameter / structure name
	st     *structInfo
	// kFunc (callback parameter): parameter types, result (nil when fnMut)
	fnArgs []*ty
	fnRes  *ty
	fnMut  bool // func([]T, …) without results: may write the slice it is handed, may panic
	arrN    int  // > 0: a fixed-size array [arrN]T (a list of exactly that length, value semantics)
	capPair bool // a capacity-tracked local slice (capLocal): the Lean variable is (visible part, rest of the array)
}

type structInfo struct {
	tparams []string // generic struct: `structure Name (T : Type)`
	name   string
	fields []string
	ftypes []*ty
}

func (t *ty) lean() string {
	switch t.k {
	case kBV:
		return fmt.Sprintf("BitVec %d", t.bits)
	case kInt:
		return "Int"
	case kBool:
		return "Bool"
	case kList:
		if t.capPair {
			return "(List (" + t.elem.lean() + ") × List (" + t.elem.lean() + "))"
		}
		return "List (" + t.elem.lean() + ")"
	case kUnit:
		return "Unit"
	case kTParam, kStruct:
		return t.name
	case kErr:
		return "GoSem.Err"
	case kOptFn:
		f := *t
		f.k = kFunc
		return "Option (" + f.lean() + ")"
	case kFunc:
		var parts []string
		for _, a := range t.fnArgs {
			parts = append(parts, a.lean())
		}
		if t.fnMut {
			parts = append(parts, "Res ("+t.fnArgs[0].lean()+")")
		} else {
			parts = append(parts, t.fnRes.lean())
		}
		return strings.Join(parts, " → ")
	}
	return "?"
}

// leanArg is lean() parenthesised when it is an application.
func (t *ty) leanArg() string {
	s := t.lean()
	if strings.Contains(s, " ") {
		return "(" + s + ")"
	}
	return s
}

func (t *ty) zero() (string, bool) {
	switch t.k {
	case kBV:
		return fmt.Sprintf("0#%d", t.bits), true
	case kInt:
		return "(0 : Int)", true
	case kBool:
		return "false", true
	case kList:
		if t.arrN > 0 {
			z, ok := t.elem.zero()
			return fmt.Sprintf("(List.replicate %d %s : %s)", t.arrN, z, t.lean()), ok
		}
		return "([] : " + t.lean() + ")", true
	case kUnit:
		return "()", true
	case kTParam:
		return "(default : " + t.name + ")", true
	case kErr:
		return "GoSem.Err.nil", true
	case kOptFn:
		return "(none : " + t.lean() + ")", true
	case kStruct:
		var fs []string
		for i, f := range t.st.fields {
			z, ok := t.st.ftypes[i].zero()
			if !ok {
				return "", false
			}
			fs = append(fs, f+" := "+z)
		}
		return "({ " + strings.Join(fs, ", ") + " } : " + t.name + ")", true
	}
	return "", false
}

// code is the protocol kind of a value of this type (execution path).
func (t *ty) code() string {
	switch t.k {
	case kBV:
		if t.signed {
			return fmt.Sprintf("i%d", t.bits)
		}
		return fmt.Sprintf("u%d", t.bits)
	case kInt:
		return "int"
	case kBool:
		return "bool"
	case kUnit:
		return "unit"
	case kList:
		if t.arrN > 0 {
			return "" // no protocol form for a fixed-size array
		}
		if t.str {
			return "str"
		}
		if t.elem.k == kBV && t.elem.bits == 8 && !t.elem.signed {
			return "bytes"
		}
		if sc := structListCode(t.elem); sc != "" {
			return sc
		}
		c := t.elem.code()
		if strings.HasPrefix(c, "tparam:") {
			return "list:" + c
		}
		if c == "" || strings.Contains(c, ":") || c == "bytes" || c == "str" {
			return ""
		}
		return "list:" + c
	case kTParam:
		return "tparam:" + t.name
	case kErr:
		return "err"
	case kFunc:
		// execution path: a small fixed menu of callbacks selected by one integer token
		if !t.fnMut && len(t.fnArgs) == 2 && sameTy(t.fnArgs[0], t.fnArgs[1]) && t.fnRes.k == kBool {
			if c := t.fnArgs[0].code(); c != "" {
				return "menu:cmp:" + c
			}
		}
		if t.fnMut && len(t.fnArgs) == 3 && t.fnArgs[0].k == kList && t.fnArgs[1].k == kInt && t.fnArgs[2].k == kInt {
			if c := t.fnArgs[0].elem.code(); c != "" {
				return "menu:swap:" + c
			}
		}
	}
	return ""
}

func sameTy(a, b *ty) bool {
	if a.k != b.k {
		return false
	}
	switch a.k {
	case kBV:
		return a.bits == b.bits && a.signed == b.signed
	case kList:
		return sameTy(a.elem, b.elem)
	case kTParam, kStruct:
		return a.name == b.name
	}
	return true
}

var byteTy = &ty{k: kBV, bits: 8}

func (t *fn) goType(gt types.Type) (*ty, error) {
	switch u := gt.(type) {
	case *types.Basic:
		switch u.Kind() {
		case types.Bool, types.UntypedBool:
			return &ty{k: kBool}, nil
		case types.Int, types.UntypedInt:
			return &ty{k: kInt}, nil
		case types.Int8:
			return &ty{k: kBV, bits: 8, signed: true}, nil
		case types.Int16:
			return &ty{k: kBV, bits: 16, signed: true}, nil
		case types.Int32, types.UntypedRune:
			return &ty{k: kBV, bits: 32, signed: true}, nil
		case types.Int64:
			return &ty{k: kBV, bits: 64, signed: true}, nil
		case types.Uint8:
			return &ty{k: kBV, bits: 8}, nil
		case types.Uint16:
			return &ty{k: kBV, bits: 16}, nil
		case types.Uint32:
			return &ty{k: kBV, bits: 32}, nil
		case types.Uint64, types.Uint, types.Uintptr:
			return &ty{k: kBV, bits: 64}, nil
		case types.String, types.UntypedString:
			return &ty{k: kList, elem: byteTy, str: true}, nil
		}
		return nil, fmt.Errorf("type %s is outside the subset (floating point, complex, unsafe pointers are not translated)", u)
	case *types.Named:
		if u.Obj().Pkg() == nil && u.Obj().Name() == "error" {
			return &ty{k: kErr}, nil
		}
		if _, ok := u.Underlying().(*types.Struct); ok {
			return t.structType(u)
		}
		if _, ok := u.Underlying().(*types.Interface); ok {
			return nil, fmt.Errorf("interface type %s is outside the subset", u)
		}
		return t.goType(u.Underlying())
	case *types.Alias:
		return t.goType(types.Unalias(u))
	case *types.Slice:
		e, err := t.goType(u.Elem())
		if err != nil {
			return nil, err
		}
		return &ty{k: kList, elem: e}, nil
	case *types.TypeParam:
		if r := uniformTypeSet(t, u); r != nil {
			return r, nil
		}
		return &ty{k: kTParam, name: u.Obj().Name()}, nil
	case *types.Tuple:
		if u.Len() == 0 {
			return &ty{k: kUnit}, nil
		}
		return nil, fmt.Errorf("tuple type in value position")
	case *types.Pointer:
		return nil, fmt.Errorf("pointer type %s is outside the subset (only a pointer receiver is translated, by state passing)", u)
	case *types.Map:
		return nil, fmt.Errorf("map type %s is outside the subset", u)
	case *types.Chan:
		return nil, fmt.Errorf("channel type %s is outside the subset", u)
	case *types.Signature:
		// a function VALUE (not a direct callback parameter) may be nil: Option of a pure total function
		if ft, ferr := t.funcParamTy(u); ferr == nil && !ft.fnMut {
			ft.k = kOptFn
			return ft, nil
		}
		return nil, fmt.Errorf("function value of type %s is outside the subset", u)
	case *types.Interface:
		return nil, fmt.Errorf("interface type %s is outside the subset", u)
	case *types.Array:
		return t.arrayType(u)
	case *types.Struct:
		return nil, fmt.Errorf("anonymous struct type is outside the subset")
	}
	return nil, fmt.Errorf("type %s is outside the subset", gt)
}

// structType: a named struct all of whose fields are translatable becomes a Lean structure
// (declared once per generated file).
func (t *fn) structType(n *types.Named) (*ty, error) {
	name := n.Obj().Name()
	// a generic struct is translated when it is used at type PARAMETERS (Ring[T] inside the methods
	// of Ring[T] or inside a generic function): `structure Ring (T : Type)`
	var targs []string
	if n.TypeArgs() != nil {
		for i := 0; i < n.TypeArgs().Len(); i++ {
			tp, ok := n.TypeArgs().At(i).(*types.TypeParam)
			if !ok {
				return nil, fmt.Errorf("generic struct instantiated at a concrete type (%s) is outside the subset", n)
			}
			if uniformTypeSet(t, tp) != nil {
				return nil, fmt.Errorf("generic struct %s over an erased type parameter is outside the subset", n)
			}
			targs = append(targs, tp.Obj().Name())
		}
	} else if n.TypeParams() != nil && n.TypeParams().Len() > 0 {
		return nil, fmt.Errorf("uninstantiated generic struct %s", n)
	}
	full := name
	if len(targs) > 0 {
		full = name + " " + strings.Join(targs, " ")
	}
	if si, ok := t.g.structs[name]; ok {
		if si == nil {
			return nil, fmt.Errorf("recursive struct %s is outside the subset", name)
		}
		if strings.Join(si.tparams, " ") != strings.Join(targs, " ") {
			return nil, fmt.Errorf("generic struct %s used with differently named type parameters (%v vs %v): outside the subset", name, si.tparams, targs)
		}
		return &ty{k: kStruct, name: full, st: si}, nil
	}
	t.g.structs[name] = nil
	st := n.Underlying().(*types.Struct)
	si := &structInfo{name: name, tparams: targs}
	for i := 0; i < st.NumFields(); i++ {
		f := st.Field(i)
		if f.Embedded() {
			delete(t.g.structs, name)
			return nil, fmt.Errorf("struct %s has an embedded field: outside the subset", name)
		}
		ft, err := t.goType(f.Type())
		if fsig, isFn := f.Type().Underlying().(*types.Signature); isFn {
			// wave 9: a callback FIELD `cmp func(T, T) bool` — the same assumption as for a callback
			// parameter (pure and total); a mutating callback field stays outside the subset
			ft, err = t.funcParamTy(fsig)
			if err == nil && ft.fnMut {
				err = fmt.Errorf("callback field without results is outside the subset")
			}
		}
		if err != nil {
			delete(t.g.structs, name)
			return nil, fmt.Errorf("field %s.%s: %v", name, f.Name(), err)
		}
		si.fields = append(si.fields, leanIdent(f.Name()))
		si.ftypes = append(si.ftypes, ft)
	}
	t.g.structs[name] = si
	t.g.structOrder = append(t.g.structOrder, name)
	return &ty{k: kStruct, name: full, st: si}, nil
}

// lit renders a Go constant of the given type.
func lit(v constant.Value, t *ty) (string, error) {
	switch t.k {
	case kBool:
		if v.Kind() != constant.Bool {
			return "", fmt.Errorf("constant %s is not a bool", v)
		}
		if constant.BoolVal(v) {
			return "true", nil
		}
		return "false", nil
	case kInt, kBV:
		iv := constant.ToInt(v)
		if iv.Kind() != constant.Int {
			return "", fmt.Errorf("constant %s is not an integer", v)
		}
		b, ok := new(big.Int).SetString(iv.ExactString(), 10)
		if !ok {
			return "", fmt.Errorf("constant %s not representable", v)
		}
		if t.k == kInt {
			if b.Sign() < 0 {
				return fmt.Sprintf("(%s : Int)", b.String()), nil
			}
			return fmt.Sprintf("(%s : Int)", b.String()), nil
		}
		if b.Sign() < 0 {
			return fmt.Sprintf("(BitVec.ofInt %d (%s))", t.bits, b.String()), nil
		}
		return fmt.Sprintf("%s#%d", b.String(), t.bits), nil
	case kList:
		if t.str && v.Kind() == constant.String {
			s := constant.StringVal(v)
			var bs []string
			for i := 0; i < len(s); i++ {
				bs = append(bs, fmt.Sprintf("%d#8", s[i]))
			}
			return "([" + strings.Join(bs, ", ") + "] : List (BitVec 8))", nil
		}
	}
	return "", fmt.Errorf("constant %s of this type is outside the subset", v)
}

var leanReserved = map[string]bool{
	"fuel": true, "at": true, "end": true, "from": true, "fun": true, "do": true, "then": true, "else": true, "match": true,
	"open": true, "in": true, "have": true, "show": true, "by": true, "if": true, "let": true, "with": true, "where": true,
	"def": true, "theorem": true, "example": true, "instance": true, "structure": true, "inductive": true, "class": true,
	"namespace": true, "section": true, "variable": true, "universe": true, "import": true, "return": true, "for": true,
	"mut": true, "unless": true, "try": true, "catch": true, "finally": true, "calc": true, "this": true, "pure": true,
	"bind": true, "some": true, "none": true, "true": true, "false": true, "Type": true, "Prop": true, "Sort": true,
	"using": true, "deriving": true, "extends": true, "mutual": true, "private": true, "protected": true, "partial": true,
	"macro": true, "syntax": true, "notation": true, "infix": true, "prefix": true, "postfix": true, "abbrev": true,
	"opaque": true, "set_option": true, "attribute": true, "export": true, "local": true, "scoped": true, "nomatch": true,
	"nofun": true, "suffices": true, "obtain": true, "then_": true, "termination_by": true, "decreasing_by": true,
	"forall": true, "exists": true, "id": true, "ok": true, "panic": true,
}

func leanIdent(s string) string {
	if s == "_" {
		return "_"
	}
	if leanReserved[s] {
		return s + "'"
	}
	return s
}

// funcParamTy: the translation of a callback PARAMETER (function values are translated nowhere else).
//   func(A, B, …) R        ↦ `A → B → … → R`, ASSUMED pure and total (no panic, no effect, no retained argument)
//   func([]T, A, …) (none) ↦ `List T → A → … → Res (List T)`: may write the elements of the slice it is
//                            handed (state passing) and may panic; ASSUMED to have no other effect
func (t *fn) funcParamTy(sig *types.Signature) (*ty, error) {
	if sig.Variadic() || sig.Recv() != nil || sig.TypeParams() != nil && sig.TypeParams().Len() > 0 {
		return nil, fmt.Errorf("callback type %s is outside the subset", sig)
	}
	r := &ty{k: kFunc}
	for i := 0; i < sig.Params().Len(); i++ {
		at, err := t.goType(sig.Params().At(i).Type())
		if err != nil {
			return nil, fmt.Errorf("callback parameter %d: %v", i, err)
		}
		if at.k == kStruct || at.k == kErr {
			return nil, fmt.Errorf("callback with a struct/error parameter is outside the subset")
		}
		r.fnArgs = append(r.fnArgs, at)
	}
	if len(r.fnArgs) == 0 {
		return nil, fmt.Errorf("callback without parameters (it can only act through effects) is outside the subset")
	}
	switch sig.Results().Len() {
	case 1:
		rt, err := t.goType(sig.Results().At(0).Type())
		if err != nil {
			return nil, fmt.Errorf("callback result: %v", err)
		}
		if rt.k == kList && !rt.str || rt.k == kStruct || rt.k == kErr {
			return nil, fmt.Errorf("callback returning a slice/struct/error is outside the subset")
		}
		r.fnRes = rt
		return r, nil
	case 0:
		if r.fnArgs[0].k == kList && !r.fnArgs[0].str {
			for _, a := range r.fnArgs[1:] {
				if a.k == kList && !a.str {
					return nil, fmt.Errorf("callback without results taking two slices is outside the subset (aliasing)")
				}
			}
			r.fnMut = true
			return r, nil
		}
		return nil, fmt.Errorf("callback without results whose first parameter is not a slice (it can only act through effects) is outside the subset")
	}
	return nil, fmt.Errorf("callback with several results is outside the subset")
}

// structListCode: protocol kind of a slice of a non-generic struct whose fields are all scalars:
// "slist:Name:f1=code1;f2=code2" — one token, items separated by `,`, the fields of an item by `/`.
func structListCode(e *ty) string {
	if e == nil || e.k != kStruct || e.st == nil || len(e.st.tparams) > 0 || len(e.st.fields) == 0 {
		return ""
	}
	var fs []string
	for i, f := range e.st.fields {
		ft := e.st.ftypes[i]
		if ft.k != kInt && ft.k != kBool && ft.k != kBV {
			return ""
		}
		fs = append(fs, f+"="+ft.code())
	}
	return "slist:" + e.st.name + ":" + strings.Join(fs, ";")
}
