package go2lean

// Wave 9 (C04): the constructs the methods of heapz/slice.go need —
//   * a callback FIELD of a struct (types.go structType: same assumption as a callback parameter),
//   * a slice field of the pointer receiver handed to a callee that writes it (`up(s.Values, …)`),
//   * a declared, possibly instantiated generic function handed over as the mutating callback (`swap[T]`).
// Kept in a file of its own so that the shared files only carry the small call sites.

import (
	"fmt"
	"go/ast"
	"go/types"
	"strings"
)

// ---------------------------------------------------------------- wave 9 (C04): receiver field handed to a callee that writes it

// recvFieldArg: e is `r.f` with r the receiver of the translated method and f a direct slice field.
func (t *fn) recvFieldArg(e ast.Expr) (*ast.SelectorExpr, bool) {
	se, ok := ast.Unparen(e).(*ast.SelectorExpr)
	if !ok || t.recvObj == nil || t.recvTy == nil {
		return nil, false
	}
	id, ok := ast.Unparen(se.X).(*ast.Ident)
	if !ok || t.pkg.info.ObjectOf(id) != t.recvObj {
		return nil, false
	}
	sel := t.pkg.info.Selections[se]
	if sel == nil || sel.Kind() != types.FieldVal || len(sel.Index()) != 1 {
		return nil, false
	}
	return se, true
}

// funcValueArg: a declared (possibly instantiated generic) function of this module handed to a
// callee as its MUTATING callback parameter (`swap[T]` for `swap func([]T, int, int)`): the
// translation of that function has exactly the callback's Lean type `List T → … → Res (List T)` when
// its only in-out parameter is the first one and it has no results; everything else is rejected.
func (t *fn) funcValueArg(e ast.Expr, want *types.Signature) (string, bool) {
	fun := ast.Unparen(e)
	if ix, ok := fun.(*ast.IndexExpr); ok {
		fun = ast.Unparen(ix.X)
	}
	id, ok := fun.(*ast.Ident)
	if !ok {
		return "", false
	}
	o, ok := t.pkg.info.ObjectOf(id).(*types.Func)
	if !ok || o.Pkg() == nil || o.Type().(*types.Signature).Recv() != nil {
		return "", false
	}
	if !(o.Pkg().Path() == t.g.l.modPath || strings.HasPrefix(o.Pkg().Path(), t.g.l.modPath+"/")) {
		t.reject(e, "function value `%s`: not a function of this module", t.text(e))
	}
	ft, err := t.funcParamTy(want)
	if err != nil || !ft.fnMut {
		t.reject(e, "function value `%s` handed to a parameter that is not a mutating callback `func([]T, …)`: outside the subset", t.text(e))
	}
	dir := strings.TrimPrefix(strings.TrimPrefix(o.Pkg().Path(), t.g.l.modPath), "/")
	if dir == "" {
		dir = "."
	}
	dep := t.g.translate(dir, o.Name(), false)
	if dep == nil || !dep.OK || dep.Sig == nil {
		t.reject(e, "function value `%s`: the function is not translatable", t.text(e))
	}
	osig := o.Type().(*types.Signature)
	if len(dep.Sig.InOut) != 1 || dep.Sig.InOut[0] != 0 || osig.Results().Len() != 0 || len(dep.Sig.Externs) > 0 ||
		len(dep.Sig.Params) != len(ft.fnArgs) || len(dep.Sig.ErrClasses) > 0 {
		t.reject(e, "function value `%s`: its translation does not have the shape of the mutating callback (first parameter written, no results)", t.text(e))
	}
	// instantiation `f[A]`: the type parameters of f as Lean types at this use (Lean infers the implicit
	// type arguments of the generated definition; here only the agreement of the types is checked)
	subst := map[string]string{}
	if inst, ok := t.pkg.info.Instances[id]; ok && inst.TypeArgs != nil && osig.TypeParams() != nil {
		if len(dep.Sig.Erased) > 0 {
			t.reject(e, "function value `%s`: erased type parameter", t.text(e))
		}
		for i := 0; i < inst.TypeArgs.Len() && i < osig.TypeParams().Len(); i++ {
			at, err := t.goType(inst.TypeArgs.At(i))
			if err != nil {
				t.reject(e, "function value `%s`: type argument: %v", t.text(e), err)
			}
			subst[osig.TypeParams().At(i).Obj().Name()] = at.leanArg()
		}
	}
	for i, a := range ft.fnArgs {
		have := dep.Sig.Params[i].Lean
		for from, to := range subst {
			have = replaceIdent(have, from, to)
		}
		if strings.ReplaceAll(strings.ReplaceAll(have, "(", ""), ")", "") != strings.ReplaceAll(strings.ReplaceAll(a.lean(), "(", ""), ")", "") {
			t.reject(e, "function value `%s`: parameter %d has Lean type %s, the callback wants %s", t.text(e), i, have, a.lean())
		}
	}
	t.notes = append(t.notes, fmt.Sprintf("function value `%s` handed over as a mutating callback: it is the translated definition `%s` itself (its only written parameter is the slice, it has no results)", t.text(e), dep.LeanName))
	return dep.LeanName, true
}

// recvFieldInOutCall: `f(r.vals, a, b, …)` where the callee WRITES its slice parameter and the argument is
// a slice field of the (pointer) receiver: `let io ← f r.vals a b …; let r := { r with vals := io }`.
// No-alias precondition of the callee: the field is not given a second name in this method
// (checkRecvFieldUnaliased, as for `r.vals[i] = v`), the receiver is a pointer receiver (its own
// state-passing precondition covers the field), and no other argument is a slice or struct that
// mentions the receiver (scalar and callback arguments are values computed before the call).
func (t *fn) recvFieldInOutCall(x *ast.CallExpr, callee *types.Func, dep *FuncResult) ([]string, bool) {
	if len(dep.Sig.InOut) != 1 {
		return nil, false
	}
	ix := dep.Sig.InOut[0]
	fsel, ok := t.recvFieldArg(x.Args[ix])
	if !ok {
		return nil, false
	}
	if !t.recvPtr {
		t.reject(x, "argument `%s` of %s is written by the callee, but the receiver is a value receiver (the write would go to the caller's backing array)", t.text(x.Args[ix]), callee.Name())
	}
	if ft := t.tyOf(fsel); ft.k != kList || ft.str {
		t.reject(x, "argument `%s` of %s: not a slice field", t.text(x.Args[ix]), callee.Name())
	}
	t.checkRecvFieldUnaliased(fsel)
	t.noCond(x, callee.Name())
	t.notes = append(t.notes, fmt.Sprintf("receiver field `%s` handed to %s, which writes it: the field is rebound to the slice the callee returns (state passing); no other name for it exists in this method, and the pointer receiver's own precondition (nobody else holds its backing array) covers it", t.text(fsel), callee.Name()))
	sig := callee.Type().(*types.Signature)
	var args []string
	for j, a := range x.Args {
		if j != ix && t.mentions(a, t.recvObj) {
			if at := t.typeOf(a); at != nil {
				switch at.Underlying().(type) {
				case *types.Basic, *types.Signature:
				default:
					t.reject(x, "argument `%s` of %s mentions the receiver whose field `%s` the callee writes (aliasing)", t.text(a), callee.Name(), fsel.Sel.Name)
				}
			}
		}
		if _, isFn := sig.Params().At(j).Type().Underlying().(*types.Signature); isFn {
			if s, ok := t.funcValueArg(a, sig.Params().At(j).Type().Underlying().(*types.Signature)); ok {
				args = append(args, s)
				continue
			}
		}
		args = append(args, t.arg(a))
	}
	nres := sig.Results().Len()
	var names []string
	for i := 0; i < nres; i++ {
		names = append(names, t.fresh("r"))
	}
	io := t.fresh("io")
	pat := io
	if nres > 0 {
		pat = "(" + tuple(names) + ", " + io + ")"
	}
	t.emit(fmt.Sprintf("let %s ← %s %s", pat, dep.LeanName, strings.Join(args, " ")))
	for _, l := range t.assignTo(fsel, io) {
		t.emit(l)
	}
	for _, c := range dep.Sig.ErrClasses {
		t.errCls[c] = true
	}
	if nres == 0 {
		return []string{"()"}, true
	}
	return names, true
}

// hasFuncField (wave 9): the structure has a callback field.
func (si *structInfo) hasFuncField() bool {
	for _, ft := range si.ftypes {
		if ft.k == kFunc {
			return true
		}
	}
	return false
}
