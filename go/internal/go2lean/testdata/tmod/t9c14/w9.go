// Package t9c14: throw-away inputs for the wave-9 (C14) constructs of go2lean:
// nil slice VALUES, results that are views of a written parameter, key-only range over a written slice.
package t9c14

// nil as a slice value: return value, right-hand side, conversion.
func nilRet(s []int, k int) []int {
	if k == 0 {
		return nil
	}
	var r []int = nil
	r = append([]int(nil), s...)
	if k == 1 {
		r = nil
	}
	return r
}

// a comparison of a slice with nil observes the distinction the lists do not carry: rejected.
func nilCmp(s []int) bool {
	return s == nil
}

// the result is a view of the written parameter: content at the return statement + updated parameter.
func viewRet(s []int, k int) []int {
	s[0] = 7
	return s[:k]
}

func bump(s []int) int {
	s[0]++
	return s[0]
}

// a call in the return statement could write the array after the view was taken: stays rejected.
func viewRetCall(s []int) ([]int, int) {
	s[0] = 1
	return s[:1], bump(s)
}

// the returned value is not a plain view (an append may write into the parameter's spare capacity): stays rejected.
func viewRetAppend(s []int) []int {
	s[0] = 1
	return append(s[:1], 5)
}

// key-only range: the swap writes the ranged slice at other indices than the current one.
func rangeKeySwap(s []int) int {
	n := 0
	for i := range s {
		if s[i] > 0 {
			s[n], s[i] = s[i], s[n]
			n++
		}
	}
	return n
}

// with a value variable the same writes stay rejected (the element read is from the live array).
func rangeValSwap(s []int) int {
	n := 0
	for i, v := range s {
		if v > 0 {
			s[n], s[i] = s[i], s[n]
			n++
		}
	}
	return n
}

// a local map[K]struct{} used as a set: insert, comma-ok lookup, len
func setCount(s []int) int {
	m := make(map[int]struct{}, len(s))
	for i := range s {
		m[s[i]] = struct{}{}
	}
	n := 0
	for _, v := range s {
		if _, ok := m[v+1]; ok {
			n++
		}
	}
	return n*100 + len(m)
}

// generic key, no size hint, `!ok`
func setMissing[T comparable](s, t []T) int {
	m := make(map[T]struct{})
	for _, v := range t {
		m[v] = struct{}{}
	}
	n := 0
	for _, v := range s {
		if _, ok := m[v]; !ok {
			n++
		}
	}
	return n
}

// iteration order is observable: rejected
func setRange(s []int) int {
	m := make(map[int]struct{}, len(s))
	for _, v := range s {
		m[v] = struct{}{}
	}
	r := 0
	for k := range m {
		r = k
	}
	return r
}

// delete: rejected
func setDelete(s []int) int {
	m := make(map[int]struct{}, len(s))
	m[1] = struct{}{}
	delete(m, 1)
	return len(m)
}

// a second name for the same map (reference semantics): rejected
func setAlias(s []int) int {
	m := make(map[int]struct{}, len(s))
	m2 := m
	m2[1] = struct{}{}
	return len(m)
}

// a map with values: rejected
func setValue(s []int) int {
	m := make(map[int]int, len(s))
	m[1] = 2
	return len(m)
}

// reading the value: rejected
func setRead(s []int) int {
	m := make(map[int]struct{}, len(s))
	v := m[1]
	_ = v
	return len(m)
}

// a size hint whose evaluation could panic: rejected
func setHint(s []int, d int) int {
	m := make(map[int]struct{}, len(s)/d)
	return len(m)
}
