// Package t9g: wave-9 constructs — string(byte), assignment to a scalar by-value receiver,
// package-level arrays as explicit state (target option "globals"), several init functions.
package t9g

const digits = "0123456789"

var tab [4]byte

var other [4]byte

func init() {
	other[0] = 9
}

func init() {
	for i := range tab {
		tab[i] = 0xF0
	}
	for i := 0; i < 3; i++ {
		tab[digits[i]-'0'] = byte(i) + 1
	}
}

func byteStr(b byte) string {
	return string(b)
}

func digitStr(i int) string {
	return string(digits[i])
}

type num int64

func (f num) halve() num {
	f /= 2
	return f
}

func readTab(i int) byte {
	return tab[i] + byte(len(tab))
}

func readTabNoOption(i int) byte {
	return tab[i]
}

func sliceTab() []byte {
	return tab[1:]
}

func copyTab() byte {
	t := tab
	return t[0]
}
