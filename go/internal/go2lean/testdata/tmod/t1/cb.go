package t1

// throw-away inputs of the go2lean tests: callback parameters

func maxBy(s []int, less func(int, int) bool) int {
	m := s[0]
	for i := 1; i < len(s); i++ {
		if less(m, s[i]) {
			m = s[i]
		}
	}
	return m
}

func bubble(s []int, less func(int, int) bool, sw func([]int, int, int)) {
	for i := 0; i < len(s); i++ {
		for j := 0; j+1 < len(s)-i; j++ {
			if less(s[j+1], s[j]) {
				sw(s, j, j+1)
			}
		}
	}
}

func sortCopy(src []int, less func(int, int) bool, sw func([]int, int, int)) []int {
	d := make([]int, len(src))
	copy(d, src)
	bubble(d, less, sw)
	return d
}

// rejected: callback results that are slices
func badCb(s []int, f func([]int) []int) int { return len(f(s)) }

// rejected: the slice handed to the mutating callback is a read-only alias candidate
func badCb2(s []int, sw func([]int, int, int)) {
	q := s[1:]
	sw(q, 0, 1)
}
