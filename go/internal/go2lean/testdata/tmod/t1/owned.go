package t1

type cell struct {
	score int
	items []int
}

// in-place appends on owned arrays (tmp, the items of the cells of a make-d table)
func bufCells(n int, vs []int) []int {
	dp := make([]cell, n)
	var tmp []int
	for _, v := range vs {
		for i := n - 1; i >= 1; i-- {
			tmp = append(tmp[:0], dp[i-1].items...)
			tmp = append(tmp, v)
			dp[i].items = append(dp[i].items[:0], tmp...)
			dp[i].score = dp[i-1].score + v
		}
	}
	return dp[n-1].items
}

// a second name for a cell's array: outside the subset
func leakCell(n int, v int) []int {
	dp := make([]cell, n)
	dp[0].items = append(dp[0].items[:0], v)
	y := dp[0].items
	dp[0].items = append(dp[0].items[:0], v+1)
	return y
}

// source and destination rooted at the same table: outside the subset
func overlapCell(n int, v int) []int {
	dp := make([]cell, n)
	dp[0].items = append(dp[0].items, v)
	dp[1].items = append(dp[1].items[:0], dp[0].items...)
	return dp[1].items
}

// a variadic parameter is a slice parameter
func pickVar(k int, xs ...int) int {
	return xs[k] + len(xs)
}

// a function value that may be nil
func optCall(a, b int, fs ...func(int, int) bool) bool {
	var f func(int, int) bool
	if len(fs) > 0 {
		f = fs[0]
	}
	if f != nil {
		return f(a, b)
	}
	return false
}

func optCallNil(a, b int, fs ...func(int, int) bool) bool {
	var f func(int, int) bool
	if len(fs) > 1 {
		f = fs[1]
	}
	return f(a, b)
}
