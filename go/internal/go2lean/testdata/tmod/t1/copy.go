package t1

// throw-away inputs of the go2lean tests: copy(dst, src)

func copyWhole(src []int, n int) ([]int, int) {
	dst := make([]int, n)
	k := copy(dst, src)
	return dst, k
}

func copyWindow(src []int, n, a int) []int {
	dst := make([]int, n)
	copy(dst[a:], src)
	return dst
}

func copyTwo(src []int, n, h int) ([]int, int) {
	dst := make([]int, n)
	k := copy(dst, src[h:])
	copy(dst[k:], src[:h])
	return dst, k
}

func copyOverlap(n int) []int {
	x := make([]int, n)
	for i := 0; i < n; i++ {
		x[i] = i
	}
	copy(x[1:], x)
	return x
}

type box struct {
	vals []int
	n    int
}

func (b *box) regrow(c int) bool {
	nv := make([]int, c)
	if b.n == 0 {
		b.vals = nv
		return false
	}
	b.n = copy(nv, b.vals)
	b.vals = nv
	return true
}

// rejected: the local is used after it was handed to the receiver
func (b *box) badMove(c int) {
	nv := make([]int, c)
	b.vals = nv
	nv[0] = 1
}

// rejected: copy into a parameter that is also aliased by a local name
func badAlias(p []int) {
	q := p
	copy(q, p)
}
