package t1

// throw-away inputs of the go2lean tests (wave 9, C06): pointer-to-slice parameters, a receiver that
// is never mentioned, element-field writes, append with a spread argument

type span struct {
	lo int
	hi uint8
}

type holder struct {
	next *holder // a pointer field: the receiver type is outside the subset
	n    int
}

// drops every span with hi == 0, bumps lo of the others
func (h *holder) squeeze(sp *[]span) {
	xs := *sp
	for i := 0; i < len(xs); {
		if xs[i].hi == 0 {
			xs = append(xs[:i], xs[i+1:]...)
		} else {
			xs[i].lo = xs[i].lo + 1
			xs[i].hi += 1
			i++
		}
	}
	*sp = xs
}

// the receiver is used: stays rejected
func (h *holder) squeezeRecv(sp *[]span) {
	xs := *sp
	xs = append(xs[:0], xs[h.n:]...)
	*sp = xs
}

// an early return skips the final store: rejected
func (h *holder) squeezeRet(sp *[]span) {
	xs := *sp
	if len(xs) == 0 {
		return
	}
	xs[0].lo = 1
	*sp = xs
}

// a second read through the pointer: rejected
func (h *holder) squeezeTwice(sp *[]span) {
	xs := *sp
	xs[0].lo = len(*sp)
	*sp = xs
}

// the local gets another backing array: rejected
func (h *holder) squeezeOther(sp *[]span, other []span) {
	xs := *sp
	xs = other
	xs[0].lo = 1
	*sp = xs
}

func spread(a, b []int) []int {
	r := make([]int, 0)
	r = append(r, a...)
	r = append(r, b...)
	return r
}
