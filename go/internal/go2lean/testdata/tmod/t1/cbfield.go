package t1

// throw-away inputs of the go2lean tests (wave 9, C04): a callback FIELD, a receiver field handed to
// a callee that writes it, a declared (generic) function handed over as the mutating callback

type sorter struct {
	vals []int
	less func(int, int) bool
}

func swp[T any](s []T, i, j int) { s[i], s[j] = s[j], s[i] }

func (s *sorter) add(x int) {
	s.vals = append(s.vals, x)
	bubble(s.vals, s.less, swp[int])
}

func (s *sorter) top() (int, bool) {
	if len(s.vals) == 0 {
		return 0, false
	}
	return maxBy(s.vals, s.less), true
}

// rejected: value receiver — the callee would write the caller's backing array
func (s sorter) addVal(x int) {
	bubble(s.vals, s.less, swp[int])
}

// rejected: the field gets a second name
func (s *sorter) addAlias(x int) int {
	q := s.vals
	bubble(s.vals, s.less, swp[int])
	return q[0]
}

// rejected: a mutating callback field
type sorter2 struct {
	vals []int
	sw   func([]int, int, int)
}

func (s *sorter2) n() int { return len(s.vals) }

// rejected: a declared function handed to a PURE callback parameter
func lt(a, b int) bool { return a < b }
func (s *sorter) addLt() {
	bubble(s.vals, lt, swp[int])
}
