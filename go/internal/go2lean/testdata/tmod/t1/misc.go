package t1

// throw-away inputs of the go2lean tests: method call on a local struct variable, switch clauses
// with several conditions

type cnt struct {
	vals []int
	n    int
}

func (c *cnt) init(k int) {
	if k <= 0 {
		panic("k")
	}
	c.vals = make([]int, k)
	c.n = 0
}

func (c *cnt) add(v int) bool {
	if c.n >= len(c.vals) {
		return false
	}
	c.vals[c.n] = v
	c.n++
	return true
}

func (c cnt) size() int { return c.n }

func newCnt(k, v int) cnt {
	var c cnt
	c.init(k)
	if v > 0 {
		c.add(v)
	}
	ok := c.add(v + 1)
	if !ok || c.size() > k {
		panic("full")
	}
	return c
}

// rejected: the struct value gets a second name
func badCopy(k int) int {
	var c cnt
	c.init(k)
	d := c
	c.add(1)
	return d.n
}

func classify(s []int, i int) int {
	switch {
	case i < 0, s[i] == 0, s[i+1] == 0:
		return 0
	case s[i] > 5:
		return 1
	}
	return 2
}

func classifyTag(s []int, i, v int) int {
	switch v {
	case 1, s[i]:
		return 10
	case s[i+1], 7:
		return 20
	}
	return 30
}

// rejected: a state-passing call in the right operand of &&
func badCond(n int) []int {
	d := make([]int, n)
	if n > 1 && fill(d, 1) > 0 {
		return d
	}
	return d
}

// a state-passing call in a loop condition: the written slice is loop state
func condLoop(n int) []int {
	d := make([]int, n)
	k := 0
	for bump(d, k) < 3 {
		k++
	}
	return d
}

func bump(d []int, k int) int {
	d[0] += k
	return d[0]
}

func (c *cnt) adopt(v []int) { c.vals = v; c.n = len(v) }

// rejected: the local is written after a receiver-writing method may have kept it
func (c *cnt) badKeep(k int) {
	d := make([]int, k)
	c.adopt(d)
	d[0] = 7
}
