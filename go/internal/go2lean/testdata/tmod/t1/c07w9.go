package t1

// throw-away inputs of the go2lean tests (wave 9, C07): `v += copy(...)`, utf8.EncodeRune as a
// write-through like copy, utf16.DecodeRune

import (
	"unicode/utf16"
	"unicode/utf8"
)

// e += copy(dst[e:], src): the count is added after the copy; dst is in-out
func addCopy(dst, src []byte, e int) int {
	e += copy(dst[e:], src)
	e -= copy(dst, src[:1])
	return e
}

type cnt9 struct{ n int }

// an op-assignment from copy into something that is not a plain int variable
func (c *cnt9) badAddCopy(dst, src []byte) {
	c.n += copy(dst, src)
}

// the three statement forms of utf8.EncodeRune
func encAt(dst []byte, e int, r rune) int {
	e += utf8.EncodeRune(dst[e:], r)
	n := utf8.EncodeRune(dst[e:], 'A')
	utf8.EncodeRune(dst, 0x7f)
	return e + n
}

func badEncValue(dst []byte, r rune) int {
	return 1 + utf8.EncodeRune(dst, r)
}

func pairRune(a, b uint64) rune {
	return utf16.DecodeRune(rune(a), rune(b))
}
