package t1

// appendReuse: `x = append(x[:0], v)` overwrites x's array in place; y still refers to it.
// In Go the result is v; a value translation would answer 1: must be rejected.
func appendReuse(v int) int {
	x := []int{1, 2, 3}
	y := x
	x = append(x[:0], v)
	return y[0] + x[0]
}

// appendReuseOK: the same idiom without a second name is exact by value.
func appendReuseOK(v int) int {
	x := []int{1, 2, 3}
	x = append(x[:0], v)
	return x[0] + len(x)
}
