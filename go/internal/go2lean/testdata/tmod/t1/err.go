package t1

import (
	"encoding/hex"
	"errors"
	"fmt"
)

// throw-away inputs of the go2lean tests: error results

var errOdd = errors.New("odd")

func half(n int) (int, error) {
	if n < 0 {
		return 0, fmt.Errorf("negative: %d (%v)", n, "x")
	}
	if n%2 == 1 {
		return n / 2, errOdd
	}
	return n / 2, nil
}

func halfLen(s []byte) (int, error) {
	if len(s) > 4 {
		return 0, hex.ErrLength
	}
	h, err := half(len(s))
	if err != nil {
		return -1, err
	}
	return h, nil
}

func firstBad(s string) error {
	for i := 0; i < len(s); i++ {
		if s[i] > 'z' {
			return fmt.Errorf("bad byte %#U at %d", rune(s[i]), i)
		}
	}
	var e error
	return e
}

// rejected: comparison of two errors
func badCmp(a, b int) bool {
	_, e1 := half(a)
	_, e2 := half(b)
	return e1 == e2
}

// rejected: wrapping
func badWrap(a int) error {
	_, e := half(a)
	return fmt.Errorf("wrapped: %w", e)
}
