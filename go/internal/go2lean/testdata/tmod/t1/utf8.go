package t1

import (
	"strings"
	"unicode/utf8"
)

// range over a string decodes runes (offset, rune); utf8.RuneLen
func runeWidths(s string) int {
	n := 0
	for i, v := range s {
		n += i + utf8.RuneLen(v)
	}
	return n
}

func firstRune(s string) (int, int) {
	r, sz := utf8.DecodeRuneInString(s)
	return int(r), sz
}

// []rune(s) and string(runes): invalid bytes become U+FFFD
func roundTrip(s string) string {
	return string([]rune(s))
}

// string(b) of a byte is the UTF-8 encoding of the code point, not the one-byte string
func byteStr(b byte) string {
	return string(b)
}

func rep(s string, n int) string {
	if utf8.RuneCountInString(s) == 1 {
		return strings.Repeat(s, n)
	}
	return s
}
