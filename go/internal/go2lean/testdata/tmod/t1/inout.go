package t1

// throw-away inputs of the go2lean tests: written slice parameters (in-out)

func fill(dst []int, v int) int {
	for i := 0; i < len(dst); i++ {
		dst[i] = v + i
	}
	return len(dst)
}

func swap2(s []int, i, j int) {
	s[i], s[j] = s[j], s[i]
}

func useFill(n, v int) ([]int, int) {
	d := make([]int, n)
	k := fill(d, v)
	swap2(d, 0, n-1)
	return d, k
}

// passes its own in-out parameter on
func fillTwice(dst []int, v int) {
	fill(dst, v)
	swap2(dst, 0, 1)
}

func double(dst []int) {
	for i, b := range dst {
		dst[i] = b * 2
	}
}

// return inside a loop after a write: the written slice must come back
func firstNeg(dst []int) int {
	for i := 0; i < len(dst); i++ {
		if dst[i] < 0 {
			dst[i] = 0
			return i
		}
		dst[i]++
	}
	return -1
}

func enc(dst []byte, src string) int {
	j := 0
	for i := 0; i < len(src); i++ {
		dst[j] = src[i] >> 4
		dst[j+1] = src[i] & 15
		j += 2
	}
	return j
}

// rejected: the written parameter is passed together with a slice of itself
func badCall(d []int) {
	fill(d, len(d[1:]))
	swap2Alias(d, d[1:])
}

func swap2Alias(a, b []int) { a[0] = b[0] }

// rejected: argument is a read-only parameter of the caller that is not written here otherwise? no:
// it becomes in-out by the call; this one is fine.  Rejected is the reassigned one:
func badReassign(d []int) {
	d[0] = 1
	d = d[1:]
	d[0] = 2
}

// rejected: returns an alias of the written parameter
func badReturn(d []int) []int {
	d[0] = 1
	return d[:1]
}

// rejected: range with a write at another index
func badRange(d []int) {
	for i, b := range d {
		d[len(d)-1-i] = b
	}
}

// rejected: the local is written after a call returned a possible alias of it
func ident(s []int) []int { return s }

func badAliasCall(n int) []int {
	d := make([]int, n)
	x := ident(d)
	d[0] = 5
	return x
}
