package t9

import "crypto/md5"

// capacity-tracked local: `b = b[:k]` re-exposes what the array holds beyond the old length
func capGrow(src []byte, k int) []byte {
	b := make([]byte, 0, 8)
	b = b[:4]
	copy(b, src)
	b = b[:1]
	b = b[:k]
	out := make([]byte, k)
	copy(out, b)
	return out
}

// local fixed-size array: zero value, write through a window, element write, slice as copy source
func arrLocal(src []byte) []byte {
	var a [4]byte
	copy(a[1:], src)
	a[0] = 7
	out := make([]byte, 6)
	copy(out[1:], a[:3])
	return out
}

// a slice of an array kept in a variable aliases the array
func badArrAlias() byte {
	var a [4]byte
	s := a[:]
	s[0] = 1
	return a[0]
}

// array-typed parameter
func badArrParam(a [4]byte) byte {
	return a[0]
}

// extern function called in a loop, array result assigned to a local array
func chain(seed []byte, n int) []byte {
	buf := make([]byte, 0, 16+len(seed))
	var sum [16]byte
	for i := 0; i < n; i++ {
		buf = buf[:16+len(seed)]
		copy(buf, sum[:])
		copy(buf[16:], seed)
		sum = md5.Sum(buf)
	}
	out := make([]byte, 16)
	copy(out, sum[:])
	return out
}

// the same with a wrongly declared Lean type
func chainBadType(seed []byte) byte {
	s := md5.Sum(seed)
	return s[0]
}
