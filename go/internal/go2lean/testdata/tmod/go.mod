module example.com/tmod

go 1.23
