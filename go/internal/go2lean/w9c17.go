package go2lean

// wave 9, C17: unicode/utf8, range over a string, rune conversions (semantics: GoSem wrappers
// over the Utf8 prelude).  Dispatch: `call` (utf8Call), `convert`, `rangeStmt` in trans.go.

import (
	"fmt"
	"go/ast"
	"go/token"
)

// ---------------------------------------------------------------- unicode/utf8, range over a string

const strRangeTy = "List (Int × BitVec 32)"

func isRuneTy(e *ty) bool { return e != nil && e.k == kBV && e.bits == 32 && e.signed }

// utf8Call: the functions of unicode/utf8 (and strings.Repeat) that have an exact pure model in
// GoSem (through the Utf8 prelude); nil when `full` is not one of them.
func (t *fn) utf8Call(x *ast.CallExpr, full string) []string {
	one := func(f string) []string {
		t.noteInt(x)
		return []string{"(" + f + " " + t.ex(x.Args[0]) + ")"}
	}
	switch full {
	case "unicode/utf8.RuneCountInString", "unicode/utf8.RuneCount":
		return one("GoSem.utf8RuneCount")
	case "unicode/utf8.RuneLen":
		return one("GoSem.utf8RuneLen")
	case "unicode/utf8.ValidRune":
		return one("GoSem.utf8ValidRune")
	case "unicode/utf8.ValidString", "unicode/utf8.Valid":
		return one("GoSem.utf8Valid")
	case "unicode/utf8.DecodeRuneInString", "unicode/utf8.DecodeRune":
		d := t.fresh("dr")
		t.emit(fmt.Sprintf("let %s : BitVec 32 × Int := GoSem.utf8DecodeRune %s", d, t.ex(x.Args[0])))
		return []string{d + ".1", d + ".2"}
	case "strings.Repeat":
		t.notes = append(t.notes, "`strings.Repeat(s, n)`: GoSem.stringsRepeat panics on n < 0; the product len(s)*n is an unbounded Int, so the \"output length overflow\" panic of the real function (len(s)*n > MaxInt) is part of the int ↦ Int idealisation")
		r := t.fresh("r")
		a := t.ex(x.Args[0])
		t.emit(fmt.Sprintf("let %s ← GoSem.stringsRepeat %s %s", r, a, t.ex(x.Args[1])))
		return []string{r}
	}
	return nil
}

// strRangeHead: the head of an iteration of `for i, v := range s` (s a string): the pair at the
// hidden counter gives the byte offset and the rune.
func (t *fn) strRangeHead(x *ast.RangeStmt, elem string) []string {
	var hl []string
	ev := t.fresh("rv")
	hl = append(hl, fmt.Sprintf("let %s ← %s", ev, elem))
	bind := func(e ast.Expr, val string) {
		if e == nil {
			return
		}
		if id, ok := e.(*ast.Ident); ok && id.Name == "_" {
			return
		}
		if x.Tok == token.DEFINE {
			o := t.pkg.info.Defs[e.(*ast.Ident)]
			hl = append(hl, fmt.Sprintf("let %s : %s := %s", t.nameOf(o), t.varTy(o).lean(), val))
			return
		}
		hl = append(hl, t.assignTo(e, val)...)
	}
	bind(x.Key, ev+".1")
	bind(x.Value, ev+".2")
	return hl
}
