package go2lean

import (
	"fmt"
	"go/ast"
	"go/token"
	"go/types"
	"path/filepath"
	"sort"
	"strings"
)

// Result of translating the targets of one property.
type Result struct {
	ID    string
	Lean  string // content of lean/Golib/Gen/Trans<ID>.lean
	Funcs []*FuncResult
}

// Generate translates the targets of property id from the tree at repo.  It never fails:
// an untranslatable target becomes `def <f>_untranslatable : String := "<reason>"`.
func Generate(repo string, targets []Target, id string) *Result {
	g := &Generator{l: newLoader(repo), id: id, done: map[string]*FuncResult{}, inProgress: map[string]bool{},
		structs: map[string]*structInfo{}, targets: map[string]*Target{}}
	for i := range targets {
		tg := &targets[i]
		g.targets[filepath.ToSlash(filepath.Dir(tg.File))+":"+tg.Name] = tg
	}
	var tres []*FuncResult
	for i := range targets {
		tg := &targets[i]
		r := g.translate(filepath.ToSlash(filepath.Dir(tg.File)), tg.Name, true)
		r.IsTarget = true
		if r.OK && g.l.pkgs[filepath.ToSlash(filepath.Dir(tg.File))] != nil {
			// the function must live in the file the target names (a moved function is reported)
			pk := g.l.pkgs[filepath.ToSlash(filepath.Dir(tg.File))]
			if fd := pk.funcs[tg.Name]; fd != nil && g.l.fileOf(fd.Pos()) != filepath.Base(tg.File) {
				r.OK = false
				r.Reason = fmt.Sprintf("function %s is declared in %s, not in %s", tg.Name, g.l.fileOf(fd.Pos()), tg.File)
			}
		}
		tres = append(tres, r)
	}
	res := &Result{ID: id, Funcs: g.order}
	res.Lean = g.render(tres)
	return res
}

func (g *Generator) fail(key, lname string, tgt *Target, reason string) *FuncResult {
	r := &FuncResult{Key: key, LeanName: lname, Reason: reason}
	if tgt != nil {
		r.Target = *tgt
	}
	g.done[key] = r
	g.order = append(g.order, r)
	return r
}

func (g *Generator) translate(dir, name string, isTarget bool) (res *FuncResult) {
	key := dir + ":" + name
	if r, ok := g.done[key]; ok {
		return r
	}
	tgt := g.targets[key]
	lname := strings.ReplaceAll(strings.ReplaceAll(name, ".", "_"), "#", "_")
	if g.inProgress[key] {
		return &FuncResult{Key: key, LeanName: lname, Reason: "recursive function (outside the subset)"}
	}
	g.inProgress[key] = true
	defer delete(g.inProgress, key)
	for _, r := range g.done {
		if r.LeanName == lname && r.Key != key {
			return g.fail(key, lname, tgt, fmt.Sprintf("name clash: %s and %s both translate to %s", r.Key, key, lname))
		}
	}
	pkg, err := g.l.load(dir)
	if err != nil {
		return g.fail(key, lname, tgt, "cannot load package "+dir+": "+err.Error())
	}
	fd := pkg.funcs[name]
	if fd == nil {
		return g.fail(key, lname, tgt, fmt.Sprintf("function %s not found in package %s", name, dir))
	}
	if fd.Body == nil {
		return g.fail(key, lname, tgt, "function without a body (assembly / linkname)")
	}
	// type errors inside the function make the type information unreliable
	for _, te := range pkg.errs {
		if te.Pos >= fd.Pos() && te.Pos < fd.End() {
			return g.fail(key, lname, tgt, "type error inside the function: "+te.Msg)
		}
	}
	t := &fn{g: g, pkg: pkg, decl: fd, tgt: tgt, lname: lname, names: map[types.Object]string{}, used: map[string]bool{},
		intExprs: map[string]bool{}, externAt: map[ast.Expr]string{}, inoutSet: map[types.Object]bool{},
		funcPar: map[types.Object]*ty{}, errCls: map[string]bool{}}
	for k := range leanReserved {
		t.used[k] = true
	}
	t.used[lname] = true
	var out *FuncResult
	func() {
		defer func() {
			if r := recover(); r != nil {
				if rj, ok := r.(reject); ok {
					out = &FuncResult{Key: key, LeanName: lname, Reason: rj.msg}
					return
				}
				panic(r)
			}
		}()
		out = t.run()
	}()
	out.Key = key
	out.LeanName = lname
	if tgt != nil {
		out.Target = *tgt
	}
	out.Source = srcOf(g.l, pkg, fd)
	g.done[key] = out
	g.order = append(g.order, out)
	return out
}

func srcOf(l *loader, p *pkgInfo, fd *ast.FuncDecl) string {
	fn := l.fileOf(fd.Pos())
	src := p.srcs[fn]
	s := l.fset.Position(fd.Pos()).Offset
	e := l.fset.Position(fd.End()).Offset
	if s < 0 || e > len(src) || s > e {
		return ""
	}
	return string(src[s:e])
}

func (t *fn) run() *FuncResult {
	fd := t.decl
	obj := t.pkg.info.Defs[fd.Name]
	if obj == nil {
		t.reject(fd, "no type information for the function")
	}
	sig := obj.Type().(*types.Signature)
	out := &FuncResult{OK: true, Sig: &Sig{}}
	if sig.Variadic() {
		// `f(a, xs ...E)`: inside f, xs is an ordinary slice parameter of type []E (Go spec, "Passing
		// arguments to ... parameters"); the translated function takes that slice
		last := sig.Params().At(sig.Params().Len() - 1)
		if _, err := t.goType(last.Type()); err != nil {
			t.reject(fd, "variadic function is outside the subset (%v)", err)
		}
		t.notes = append(t.notes, fmt.Sprintf("variadic parameter `%s ...E` is the slice parameter `%s : []E` (a call `f(a, b)` passes the list [a, b], a call without them the empty list)", last.Name(), last.Name()))
	}
	// type parameters
	addTP := func(tps *types.TypeParamList) {
		if tps == nil {
			return
		}
		for i := 0; i < tps.Len(); i++ {
			tp := tps.At(i)
			n := tp.Obj().Name()
			out.Sig.TParams = append(out.Sig.TParams, n)
			if uniformTypeSet(t, tp) != nil {
				// every member of the type set translates to the same Lean type: no type variable
				out.Sig.Erased = append(out.Sig.Erased, n)
				continue
			}
			t.tparams = append(t.tparams, n)
			t.used[n] = true
			inst := "[BEq " + n + "]"
			cu := tp.Constraint().Underlying()
			if iface, ok := cu.(*types.Interface); ok {
				if iface.IsComparable() || iface.NumEmbeddeds() > 0 && !iface.Empty() {
					inst = "[DecidableEq " + n + "]"
				}
				if iface.Empty() && !iface.IsComparable() {
					inst = "" // `any`: no operation but copying
				}
				if iface.NumMethods() > 0 {
					t.reject(fd, "type parameter %s has a method constraint: outside the subset", n)
				}
			}
			t.tbinder += " {" + n + " : Type}"
			if inst != "" {
				t.tbinder += " " + inst
			}
			t.tbinder += " [Inhabited " + n + "]" // `var zero T`
		}
	}
	addTP(sig.RecvTypeParams())
	addTP(sig.TypeParams())
	// extern expressions
	if t.tgt != nil && len(t.tgt.Extern) > 0 {
		t.findExterns(out)
	}
	t.findExternFuncs(out, sig)
	var params []string
	// receiver
	if sig.Recv() != nil {
		rv := sig.Recv()
		rt := rv.Type()
		ptr := false
		if p, ok := rt.(*types.Pointer); ok {
			rt = p.Elem()
			ptr = true
		}
		rty, err := t.goType(rt)
		if err != nil && t.recvUnused(rv) {
			// the body never mentions the receiver: the method is a function of its parameters
			t.notes = append(t.notes, fmt.Sprintf("the receiver `%s` (type outside the subset) is never mentioned in the body: dropped, the method is translated as a function of its parameters", types.TypeString(rv.Type(), func(pk *types.Package) string { return pk.Name() })))
			out.Sig.RecvDropped = true
			goto params
		}
		if err != nil {
			t.reject(fd, "receiver: %v", err)
		}
		if rty.k != kStruct && ptr {
			t.reject(fd, "pointer receiver of a non-struct type is outside the subset")
		}
		t.recvObj = rv
		t.recvTy = rty
		name := rv.Name()
		if name == "" || name == "_" {
			name = "recv"
		}
		ln := leanIdent(name)
		t.names[rv] = ln
		t.used[ln] = true
		params = append(params, fmt.Sprintf("(%s : %s)", ln, rty.lean()))
		out.Sig.HasRecv, out.Sig.RecvPtr, out.Sig.RecvType = true, ptr, rty.lean()
		t.recvPtr = ptr
		out.Sig.Params = append(out.Sig.Params, Param{Name: ln, Code: structCode(rty), Lean: rty.lean()})
	}
params:
	// parameters
	for i := 0; i < sig.Params().Len(); i++ {
		p := sig.Params().At(i)
		pt, err := t.goType(p.Type())
		if pp, isPtr := p.Type().(*types.Pointer); isPtr && err != nil {
			if _, isSl := pp.Elem().Underlying().(*types.Slice); isSl {
				st, serr := t.goType(pp.Elem())
				if serr != nil {
					t.reject(fd, "parameter %s: %v", p.Name(), serr)
				}
				x, why := t.ptrSliceShape(p)
				if x == nil {
					t.reject(fd, "parameter %s: pointer to a slice is translated only when the body reads it once (`x := *%s`), stores it once as its last statement (`*%s = x`) and never returns early: %s", p.Name(), p.Name(), p.Name(), why)
				}
				if t.ptrSlice == nil {
					t.ptrSlice, t.ptrAlias = map[types.Object]*ty{}, map[types.Object]types.Object{}
				}
				t.ptrSlice[p], t.ptrAlias[x] = st, p
				pt, err = st, nil
			}
		}
		gp := Param{Name: p.Name(), GoType: types.TypeString(p.Type(), func(pk *types.Package) string { return pk.Name() })}
		if fsig, isFn := p.Type().Underlying().(*types.Signature); isFn {
			ft, ferr := t.funcParamTy(fsig)
			if ferr != nil {
				t.reject(fd, "parameter %s: %v", p.Name(), ferr)
			}
			pt, err = ft, nil
			t.funcPar[p] = ft
			if ft.fnMut {
				t.notes = append(t.notes, fmt.Sprintf("callback parameter `%s : %s`: it may write the elements of the slice it is handed (the call `%s(s, …)` is `let s ← %s s …`) and may panic; ASSUMED to have no other effect, not to keep the slice, and to leave its length alone", p.Name(), ft.lean(), p.Name(), p.Name()))
			} else {
				t.notes = append(t.notes, fmt.Sprintf("callback parameter `%s : %s`: ASSUMED pure and total (no panic, no effect, the result depends on the arguments only)", p.Name(), ft.lean()))
			}
		}
		if err != nil {
			// droppable when every use lies inside an extern expression
			if !t.onlyInExterns(p) {
				t.reject(fd, "parameter %s: %v", p.Name(), err)
			}
			out.Sig.Droppable = append(out.Sig.Droppable, p.Name())
			out.Sig.GoParams = append(out.Sig.GoParams, gp)
			continue
		}
		name := p.Name()
		if name == "" || name == "_" {
			name = fmt.Sprintf("a%d", i)
			t.used[name] = true
			t.names[p] = name
		}
		ln := t.nameOf(p)
		if name != p.Name() {
			ln = name
		}
		params = append(params, fmt.Sprintf("(%s : %s)", ln, pt.lean()))
		gp.Code = pt.code()
		if pt.k == kTParam {
			gp.Code = "tparam:" + pt.name
		}
		gp.Lean = pt.lean()
		out.Sig.GoParams = append(out.Sig.GoParams, gp)
		out.Sig.Params = append(out.Sig.Params, Param{Name: ln, Code: gp.Code, Lean: pt.lean(), GoType: gp.GoType})
	}
	for _, e := range out.Sig.Externs {
		params = append(params, fmt.Sprintf("(%s : %s)", e.Name, e.Lean))
		out.Sig.Params = append(out.Sig.Params, e)
	}
	globalParams := t.declareGlobals(out) // package-level arrays named in the option "globals"
	params = append(params, globalParams...)
	globalInOut := append([]*types.Var{}, t.inout...)
	t.inout = nil
	// results
	named := false
	for i := 0; i < sig.Results().Len(); i++ {
		r := sig.Results().At(i)
		rt, err := t.goType(r.Type())
		if err != nil {
			t.reject(fd, "result %d: %v", i, err)
		}
		t.resTy = append(t.resTy, rt)
		if r.Name() != "" && r.Name() != "_" {
			named = true
		}
	}
	var headLines []string
	if named {
		// named results are ordinary locals initialised to zero; a bare return is rejected
		for i := 0; i < sig.Results().Len(); i++ {
			r := sig.Results().At(i)
			if r.Name() == "" || r.Name() == "_" {
				continue
			}
			z, ok := t.resTy[i].zero()
			if !ok {
				t.reject(fd, "named result %s: no zero value", r.Name())
			}
			headLines = append(headLines, fmt.Sprintf("let %s : %s := %s", t.nameOf(r), t.resTy[i].lean(), z))
		}
	}
	// pointer receiver: decide up front whether the method writes it
	if t.recvObj != nil && out.Sig.RecvPtr {
		for _, o := range t.assignedOuter(fd.Body) {
			if o == t.recvObj {
				t.recvOut = true
			}
		}
	}
	if t.recvObj != nil && out.Sig.RecvPtr {
		// calls of other methods on the same receiver that write it
		ast.Inspect(fd.Body, func(m ast.Node) bool {
			ce, ok := m.(*ast.CallExpr)
			if !ok {
				return true
			}
			if dep := t.recvMethodDep(ce); dep != nil && dep.OK && dep.Sig.RecvOut {
				t.recvOut = true
			}
			for _, a := range t.writtenArgs(ce) {
				if _, ok := t.recvFieldArg(a); ok {
					t.recvOut = true // wave 9: `f(r.vals, …)` with f writing its slice parameter
				}
			}
			return true
		})
	}
	recvOut := t.recvOut
	// written slice parameters (in-out): decided up front as well
	t.findInOut(sig)
	t.addPtrSliceInOut(sig)
	nInOut := len(t.inout)
	for _, o := range t.inout {
		for i := 0; i < sig.Params().Len(); i++ {
			if sig.Params().At(i) == o {
				out.Sig.InOut = append(out.Sig.InOut, i)
			}
		}
		var others []string
		for i := 0; i < sig.Params().Len(); i++ {
			q := sig.Params().At(i)
			if q == o {
				continue
			}
			if _, known := t.names[q]; !known {
				continue
			}
			if qt, err := t.goType(q.Type()); err == nil && (qt.k == kList || qt.k == kStruct) {
				others = append(others, q.Name())
			}
		}
		if t.recvObj != nil {
			others = append(others, "the receiver "+t.names[t.recvObj])
		}
		pre := "no other parameter can refer to a backing array, so there is nothing to assume"
		if len(others) > 0 {
			pre = "PRECONDITION (established at every call site inside translated code, ASSUMED for outside callers): the backing array of `" + o.Name() +
				"` overlaps that of no other argument (" + strings.Join(others, ", ") + ")"
		}
		if st := t.ptrSlice[o]; st != nil {
			t.notes = append(t.notes, fmt.Sprintf("pointer-to-slice parameter `%s`: translated as an in-out list `%s : %s` (the value of `*%s` before the call; its value after the call is returned after the results; its length may change). The body reads `*%s` once into a local and stores the local back as its last statement, so the local is the only live name of the caller's slice in between. Slice bounds are checked against len (cap = len as everywhere): `x[:k]` with len < k <= cap panics here and not in Go; %s", o.Name(), o.Name(), st.lean(), o.Name(), o.Name(), pre))
			continue
		}
		t.notes = append(t.notes, fmt.Sprintf("in-out slice parameter `%s`: written by the function, so its final value is returned after the results (state passing; its length never changes); %s", o.Name(), pre))
	}
	t.inout = append(t.inout, globalInOut...)
	for _, o := range globalInOut {
		t.inoutSet[o] = true
	}
	retv := func(v string) []string {
		return []string{".ok " + parenIf(t.buildFull(v))}
	}
	c := &ctx{ret: retv, retFull: func(f string) []string { return []string{".ok " + parenIf(f)} }}
	var pre []string
	t.pre = &pre
	body := t.block(fd.Body.List, c, func() []string {
		if len(t.resTy) != 0 {
			return []string{".panic"} // unreachable in well-typed Go (missing return)
		}
		return retv("()")
	})
	if t.recvOut != recvOut || len(t.inout) != nInOut+len(globalInOut) {
		t.reject(fd, "internal: receiver mutation detected late")
	}
	for name, used := range t.externUsed() {
		if !used {
			t.reject(fd, "extern expression `%s` does not occur in the function", name)
		}
	}
	for name := range t.extFuncs {
		if !t.extFSeen[name] {
			t.reject(fd, "extern_func `%s` is not called in the function", name)
		}
	}
	resStr := t.fullResTy()
	for _, rt := range t.resTy {
		out.Sig.Results = append(out.Sig.Results, codeOrStruct(rt))
	}
	for _, o := range t.inout {
		out.Sig.Results = append(out.Sig.Results, codeOrStruct(t.varTy(o)))
	}
	if recvOut {
		out.Sig.Results = append(out.Sig.Results, structCode(t.recvTy))
		out.Sig.RecvOut = true
	}
	var b strings.Builder
	for _, ld := range t.loopDefs {
		b.WriteString(ld)
		b.WriteString("\n\n")
	}
	fmt.Fprintf(&b, "def %s%s %s : Res (%s) := do\n", t.lname, t.tbinder, strings.Join(params, " "), resStr)
	all := append(append([]string{}, headLines...), body...)
	for _, l := range indent(all) {
		b.WriteString(l)
		b.WriteString("\n")
	}
	out.Lean = b.String()
	for e := range t.intExprs {
		out.IntExprs = append(out.IntExprs, e)
	}
	sort.Strings(out.IntExprs)
	for c := range t.errCls {
		out.Sig.ErrClasses = append(out.Sig.ErrClasses, c)
	}
	sort.Strings(out.Sig.ErrClasses)
	out.Notes = t.notes
	return out
}

func (s *Sig) erased(tp string) bool {
	for _, e := range s.Erased {
		if e == tp {
			return true
		}
	}
	return false
}

// typeSetTypes lists the types of the union terms of a constraint (nil when it has none).
func typeSetTypes(it *types.Interface, depth int) []types.Type {
	var out []types.Type
	if depth > 5 {
		return nil
	}
	for i := 0; i < it.NumEmbeddeds(); i++ {
		switch e := it.EmbeddedType(i).(type) {
		case *types.Union:
			for j := 0; j < e.Len(); j++ {
				out = append(out, e.Term(j).Type())
			}
		default:
			if sub, ok := e.Underlying().(*types.Interface); ok {
				out = append(out, typeSetTypes(sub, depth+1)...)
			} else {
				out = append(out, e)
			}
		}
	}
	return out
}

// uniformTypeSet: when every member of the type set of tp translates to one and the same
// Lean type (e.g. `~string | ~[]byte` = List (BitVec 8)), that type; nil otherwise.
func uniformTypeSet(t *fn, tp *types.TypeParam) *ty {
	it, ok := tp.Constraint().Underlying().(*types.Interface)
	if !ok || it.NumMethods() > 0 {
		return nil
	}
	ts := typeSetTypes(it, 0)
	if len(ts) == 0 {
		return nil
	}
	var first *ty
	allStr := true
	for _, x := range ts {
		if _, isTP := x.(*types.TypeParam); isTP {
			return nil
		}
		r, err := t.goType(x)
		if err != nil {
			return nil
		}
		if first == nil {
			first = r
		} else if !sameTy(first, r) {
			return nil
		}
		if !r.str {
			allStr = false
		}
	}
	res := *first
	res.str = allStr && first.k == kList
	return &res
}

func codeOrStruct(t *ty) string {
	if t.k == kStruct {
		return structCode(t)
	}
	if t.k == kTParam {
		return "tparam:" + t.name
	}
	return t.code()
}

// structCode: "struct:Name:f1=code1;f2=code2" ("" when some field has no protocol kind).
func structCode(t *ty) string {
	if t == nil || t.k != kStruct {
		if t != nil {
			return t.code()
		}
		return ""
	}
	var fs []string
	for i, f := range t.st.fields {
		c := t.st.ftypes[i].code()
		if c == "" || strings.Contains(c, ";") {
			// (a field that is a slice of structs — "slist:…;…" — cannot be nested in a struct code: its
			// field separators would be read as the outer struct's; such a struct has no protocol form)
			return ""
		}
		fs = append(fs, f+"="+c)
	}
	return "struct:" + t.name + ":" + strings.Join(fs, ";")
}

func (t *fn) externUsed() map[string]bool { return t.extSeen }

// findExterns locates the extern expressions (by normalised source text).
func (t *fn) findExterns(out *FuncResult) {
	norm := func(s string) string { return strings.Join(strings.Fields(s), " ") }
	want := map[string]string{}
	var keys []string
	for k, v := range t.tgt.Extern {
		want[norm(k)] = v
		keys = append(keys, norm(k))
	}
	sort.Strings(keys)
	seen := map[string]bool{}
	for _, k := range keys {
		seen[k] = false
	}
	decl := map[string]Param{}
	for _, k := range keys {
		parts := strings.SplitN(want[k], ":", 2)
		if len(parts) != 2 {
			t.reject(t.decl, "extern option for `%s` must be \"name : LeanType\"", k)
		}
		p := Param{Name: strings.TrimSpace(parts[0]), Lean: strings.TrimSpace(parts[1])}
		switch p.Lean {
		case "BitVec 64":
			p.Code = "u64"
		case "BitVec 32":
			p.Code = "u32"
		case "BitVec 8":
			p.Code = "u8"
		case "Int":
			p.Code = "int"
		case "Bool":
			p.Code = "bool"
		}
		p.GoType = "extern:" + k
		decl[k] = p
		t.used[p.Name] = true
	}
	var loops []ast.Node
	var visit func(n ast.Node, inLoop bool)
	visit = func(n ast.Node, inLoop bool) {
		ast.Inspect(n, func(m ast.Node) bool {
			if m == nil {
				return false
			}
			switch s := m.(type) {
			case *ast.ForStmt:
				if m != n {
					visit(s, true)
					return false
				}
			case *ast.RangeStmt:
				if m != n {
					visit(s, true)
					return false
				}
			case *ast.FuncLit:
				return false
			}
			if e, ok := m.(ast.Expr); ok {
				k := norm(t.text(e))
				if _, isExt := want[k]; isExt {
					if _, isParen := e.(*ast.ParenExpr); isParen {
						return true
					}
					if inLoop {
						t.reject(e, "extern expression `%s` occurs inside a loop (it would be evaluated more than once)", k)
					}
					if seen[k] {
						t.reject(e, "extern expression `%s` occurs more than once", k)
					}
					// the declared Lean type must be the translation of the Go type of the expression
					et, err := t.goType(t.typeOf(e))
					if err != nil || et.lean() != decl[k].Lean {
						got := "untranslatable"
						if err == nil {
							got = et.lean()
						}
						t.reject(e, "extern `%s` is declared as %s but its Go type translates to %s", k, decl[k].Lean, got)
					}
					seen[k] = true
					t.externAt[e] = decl[k].Name
					return false
				}
			}
			return true
		})
	}
	_ = loops
	visit(t.decl.Body, false)
	t.extSeen = seen
	for _, k := range keys {
		out.Sig.Externs = append(out.Sig.Externs, decl[k])
	}
}

// onlyInExterns: every use of the parameter lies inside an extern-matched expression.
func (t *fn) onlyInExterns(p *types.Var) bool {
	ok := true
	ast.Inspect(t.decl.Body, func(m ast.Node) bool {
		id, isId := m.(*ast.Ident)
		if !isId || t.pkg.info.Uses[id] != p {
			return true
		}
		inside := false
		for e := range t.externAt {
			if id.Pos() >= e.Pos() && id.End() <= e.End() {
				inside = true
			}
		}
		if !inside {
			ok = false
		}
		return true
	})
	return ok
}

// ---------------------------------------------------------------- rendering

func (g *Generator) render(targets []*FuncResult) string {
	var b strings.Builder
	fmt.Fprintf(&b, "-- GENERATED by go2lean from the tree under verification on every run; do not edit.\n")
	fmt.Fprintf(&b, "-- property %s: translated Go functions (shallow embedding over Golib.GoSem).\n", g.id)
	b.WriteString("-- `int` is translated to the unbounded `Int` (the one idealisation, DESIGN §3.3); slices and strings\n")
	b.WriteString("-- are lists without aliasing and with cap = len; everything else follows Go (wrap-around, panics).\n")
	b.WriteString("import Golib.Prelude.GoSem\n")
	b.WriteString(extraLeanImports(targets))
	b.WriteString("\nset_option linter.unusedVariables false\n\n")
	fmt.Fprintf(&b, "namespace Golib.Gen.Trans.%s\nopen Golib.GoSem\n\n", g.id)
	// structures
	for _, n := range g.structOrder {
		si := g.structs[n]
		if si == nil {
			continue
		}
		hdr := si.name
		for _, tp := range si.tparams {
			hdr += " (" + tp + " : Type)"
		}
		if si.hasFuncField() {
			b.WriteString("-- callback field(s) of this structure: ASSUMED pure and total (no panic, no effect, the result depends on the arguments only), as for a callback parameter\n")
		}
		fmt.Fprintf(&b, "structure %s where\n", hdr)
		for i, f := range si.fields {
			fmt.Fprintf(&b, "  %s : %s\n", f, si.ftypes[i].lean())
		}
		if si.hasFuncField() {
			b.WriteString("\n") // wave 9: a callback field has neither Repr nor decidable equality
		} else {
			b.WriteString("deriving Repr, DecidableEq\n\n")
		}
	}
	for _, r := range g.order {
		if !r.OK {
			if r.IsTarget || g.targets[r.Key] != nil {
				fmt.Fprintf(&b, "/-- %s is NOT translated: the tie theorem about it cannot be checked. -/\n", r.Key)
				fmt.Fprintf(&b, "def %s_untranslatable : String := %q\n\n", r.LeanName, r.Reason)
			}
			continue
		}
		fmt.Fprintf(&b, "/- %s\n%s\n-/\n", r.Key, strings.ReplaceAll(strings.ReplaceAll(r.Source, "/-", "/ -"), "-/", "- /"))
		if len(r.IntExprs) > 0 {
			fmt.Fprintf(&b, "-- `int` expressions translated as unbounded Int: %s\n", strings.Join(r.IntExprs, " ; "))
		}
		for _, n := range r.Notes {
			fmt.Fprintf(&b, "-- %s\n", n)
		}
		b.WriteString(r.Lean)
		b.WriteString("\n")
	}
	// execution path
	b.WriteString("/-- Execution path of the oracle: `trans <func>` header, one argument line per call. -/\n")
	b.WriteString("def runTrans (f : String) (args : List String) : String :=\n  match f, args with\n")
	for _, r := range targets {
		if !r.OK {
			fmt.Fprintf(&b, "  | %q, _ => \"untranslatable\"\n", r.Target.Name)
			continue
		}
		if line := runTransCase(r); line != "" {
			b.WriteString(line)
		} else {
			fmt.Fprintf(&b, "  | %q, _ => \"no-exec\"\n", r.Target.Name)
		}
	}
	b.WriteString("  | _, _ => \"bad-op\"\n\n")
	fmt.Fprintf(&b, "end Golib.Gen.Trans.%s\n", g.id)
	return b.String()
}

// parser / printer terms per protocol kind
func parserFor(code string, inst map[string]string) string {
	switch {
	case code == "bool":
		return "GoSem.parseBool"
	case code == "int":
		return "GoSem.parseInt"
	case code == "bytes" || code == "str":
		return "GoSem.parseBytes"
	case strings.HasPrefix(code, "menu:cmp:"):
		if resolveCode(code[9:], inst) == "int" {
			return "(fun s => (GoSem.parseInt s).map GoSem.cmpMenuInt)"
		}
		return ""
	case strings.HasPrefix(code, "menu:swap:"):
		if lt := leanTypeOfCode(resolveCode(code[10:], inst)); lt != "" {
			return "(fun s => (GoSem.parseInt s).map (GoSem.swapMenu (α := " + lt + ")))"
		}
		return ""
	case strings.HasPrefix(code, "slist:"):
		return structListParser(code, inst)
	case strings.HasPrefix(code, "u"):
		return "GoSem.parseBV " + code[1:]
	case strings.HasPrefix(code, "i"):
		return "GoSem.parseSBV " + code[1:]
	case strings.HasPrefix(code, "list:"):
		p := parserFor(code[5:], inst)
		if p == "" {
			return ""
		}
		return "GoSem.parseList (" + p + ")"
	case strings.HasPrefix(code, "tparam:"):
		if it, ok := inst[code[7:]]; ok {
			return parserFor(goKindCode(it), inst)
		}
	}
	return ""
}

func printerFor(code string, inst map[string]string) string {
	switch {
	case code == "bool":
		return "GoSem.showBool"
	case code == "int":
		return "GoSem.showInt"
	case code == "unit":
		return "GoSem.showUnit"
	case code == "bytes" || code == "str":
		return "GoSem.showBytes"
	case strings.HasPrefix(code, "slist:"):
		return structListPrinter(code, inst)
	case strings.HasPrefix(code, "u"):
		return "GoSem.showBV"
	case strings.HasPrefix(code, "i"):
		return "GoSem.showSBV"
	case strings.HasPrefix(code, "list:"):
		p := printerFor(code[5:], inst)
		if p == "" {
			return ""
		}
		return "GoSem.showList " + p
	case strings.HasPrefix(code, "tparam:"):
		if it, ok := inst[code[7:]]; ok {
			return printerFor(goKindCode(it), inst)
		}
	}
	return ""
}

// resolveCode instantiates a `tparam:T` kind.
func resolveCode(code string, inst map[string]string) string {
	if strings.HasPrefix(code, "tparam:") {
		return goKindCode(inst[code[7:]])
	}
	return code
}

// goKindCode maps a Go basic type name (target option "inst") to a protocol kind.
func goKindCode(goType string) string {
	switch goType {
	case "int":
		return "int"
	case "bool":
		return "bool"
	case "string":
		return "str"
	case "byte", "uint8":
		return "u8"
	case "uint16":
		return "u16"
	case "uint32":
		return "u32"
	case "uint64", "uint":
		return "u64"
	case "int8":
		return "i8"
	case "int16":
		return "i16"
	case "int32", "rune":
		return "i32"
	case "int64":
		return "i64"
	}
	return ""
}

func leanTypeOfCode(code string) string {
	switch {
	case code == "int":
		return "Int"
	case code == "bool":
		return "Bool"
	case code == "str" || code == "bytes":
		return "List (BitVec 8)"
	case strings.HasPrefix(code, "u") || strings.HasPrefix(code, "i"):
		return "BitVec " + code[1:]
	}
	return ""
}

// structFields parses "struct:Name:f=code;…".
func structFields(code string) (name string, fields [][2]string, ok bool) {
	if !strings.HasPrefix(code, "struct:") {
		return "", nil, false
	}
	parts := strings.SplitN(code, ":", 3)
	if len(parts) != 3 {
		return "", nil, false
	}
	for _, f := range strings.Split(parts[2], ";") {
		kv := strings.SplitN(f, "=", 2)
		if len(kv) != 2 {
			return "", nil, false
		}
		fields = append(fields, [2]string{kv[0], kv[1]})
	}
	return parts[1], fields, true
}

// runTransCase renders the `runTrans` alternative of one target ("" = not executable).
// A struct parameter (receiver) takes one token per field; a struct result prints its fields
// separated by spaces.
func runTransCase(r *FuncResult) string {
	inst := r.Target.Inst
	var pats, binds, call []string
	k := 0
	for _, p := range r.Sig.Params {
		if p.Impl != "" {
			call = append(call, "("+p.Impl+")")
			continue
		}
		if sn, fields, ok := structFields(p.Code); ok {
			var fv []string
			for _, f := range fields {
				pr := parserFor(f[1], inst)
				if pr == "" {
					return ""
				}
				a := fmt.Sprintf("a%d", k)
				v := fmt.Sprintf("v%d", k)
				k++
				pats = append(pats, a)
				binds = append(binds, fmt.Sprintf("(%s %s)", pr, a))
				fv = append(fv, f[0]+" := "+v)
			}
			for tp, it := range inst {
				sn = replaceIdent(sn, tp, "("+leanTypeOfCode(goKindCode(it))+")")
			}
			call = append(call, "({ "+strings.Join(fv, ", ")+" } : "+sn+")")
			continue
		}
		pr := parserFor(p.Code, inst)
		if pr == "" {
			return ""
		}
		a := fmt.Sprintf("a%d", k)
		v := fmt.Sprintf("v%d", k)
		k++
		pats = append(pats, a)
		binds = append(binds, fmt.Sprintf("(%s %s)", pr, a))
		call = append(call, v)
	}
	// printer
	var shows []string
	for i, c := range r.Sig.Results {
		x := fmt.Sprintf("x%d", i)
		if _, fields, ok := structFields(c); ok {
			for _, f := range fields {
				if strings.HasPrefix(f[1], "menu:") {
					continue // wave 9: a callback field is not printed
				}
				pr := printerFor(f[1], inst)
				if pr == "" {
					return ""
				}
				shows = append(shows, fmt.Sprintf("%s %s.%s", pr, x, f[0]))
			}
			continue
		}
		if c == "err" {
			var qs []string
			for _, cl := range r.Sig.ErrClasses {
				q, _ := leanString(cl)
				qs = append(qs, q)
			}
			shows = append(shows, "GoSem.showErr ["+strings.Join(qs, ", ")+"] "+x)
			continue
		}
		pr := printerFor(c, inst)
		if pr == "" {
			return ""
		}
		shows = append(shows, pr+" "+x)
	}
	var xs []string
	for i := range r.Sig.Results {
		xs = append(xs, fmt.Sprintf("x%d", i))
	}
	show := "fun (_ : Unit) => \"ok\""
	if len(xs) > 0 {
		pat := tuple(xs)
		nouts := len(r.Sig.InOut)
		if r.Sig.RecvOut {
			nouts++
		}
		if nres := len(xs) - nouts; nouts > 0 && nres > 1 {
			pat = "(" + tuple(xs[:nres]) + ", " + strings.Join(xs[nres:], ", ") + ")"
		}
		show = "fun " + pat + " => \" \".intercalate [" + strings.Join(shows, ", ") + "]"
	}
	// explicit instantiation of type parameters
	fname := r.LeanName
	if len(r.Sig.TParams) > 0 {
		fname = "@" + fname
		for _, tp := range r.Sig.TParams {
			if r.Sig.erased(tp) {
				continue
			}
			it, ok := inst[tp]
			lt := leanTypeOfCode(goKindCode(it))
			if !ok || lt == "" {
				return ""
			}
			fname += " (" + lt + ")"
		}
		// instance arguments are synthesised
		fname = "(" + strings.Replace(fname, "@", "", 1) + ")"
		fname = strings.Trim(fname, "()")
		fname = r.LeanName
		for _, tp := range r.Sig.TParams {
			if r.Sig.erased(tp) {
				continue
			}
			fname += " (" + tp + " := " + leanTypeOfCode(goKindCode(inst[tp])) + ")"
		}
	}
	var b strings.Builder
	fmt.Fprintf(&b, "  | %q, [%s] =>\n", r.Target.Name, strings.Join(pats, ", "))
	if len(binds) == 0 {
		fmt.Fprintf(&b, "    GoSem.showRes (%s) (%s)\n", show, fname)
		return b.String()
	}
	fmt.Fprintf(&b, "    match %s with\n", strings.Join(binds, ", "))
	var somes, nones []string
	for i := range binds {
		somes = append(somes, fmt.Sprintf("some v%d", i))
		nones = append(nones, "_")
	}
	fmt.Fprintf(&b, "    | %s => GoSem.showRes (%s) (%s %s)\n", strings.Join(somes, ", "), show, fname, strings.Join(call, " "))
	fmt.Fprintf(&b, "    | %s => \"bad-op\"\n", strings.Join(nones, ", "))
	return b.String()
}

var _ = token.NoPos

// recvUnused: no identifier in the body refers to the receiver variable.
func (t *fn) recvUnused(rv *types.Var) bool {
	used := false
	ast.Inspect(t.decl.Body, func(m ast.Node) bool {
		if id, ok := m.(*ast.Ident); ok && t.pkg.info.ObjectOf(id) == types.Object(rv) {
			used = true
		}
		return !used
	})
	return !used
}

// addPtrSliceInOut: the accepted `*[]T` parameters are in-out parameters (kept in parameter order).
func (t *fn) addPtrSliceInOut(sig *types.Signature) {
	if len(t.ptrSlice) == 0 {
		return
	}
	var all []*types.Var
	for i := 0; i < sig.Params().Len(); i++ {
		p := sig.Params().At(i)
		if t.inoutSet[p] {
			all = append(all, p)
		} else if _, ok := t.ptrSlice[p]; ok {
			all = append(all, p)
			t.inoutSet[p] = true
		}
	}
	t.inout = all
}

// structListParser / structListPrinter: Lean terms for the kind "slist:Name:f=code;…" (see structListCode).
func structListParser(code string, inst map[string]string) string {
	name, fields, ok := structFields("struct:" + code[len("slist:"):])
	if !ok {
		return ""
	}
	var as, ps, vs, inits, nones []string
	for i, f := range fields {
		pr := parserFor(f[1], inst)
		if pr == "" {
			return ""
		}
		as = append(as, fmt.Sprintf("t%d", i))
		ps = append(ps, fmt.Sprintf("%s t%d", pr, i))
		vs = append(vs, fmt.Sprintf("some w%d", i))
		inits = append(inits, fmt.Sprintf("%s := w%d", f[0], i))
		nones = append(nones, "_")
	}
	return fmt.Sprintf("GoSem.parseList (fun s => match s.splitOn \"/\" with | [%s] => (match %s with | %s => some ({ %s } : %s) | %s => none) | _ => none)",
		strings.Join(as, ", "), strings.Join(ps, ", "), strings.Join(vs, ", "), strings.Join(inits, ", "), name, strings.Join(nones, ", "))
}

func structListPrinter(code string, inst map[string]string) string {
	_, fields, ok := structFields("struct:" + code[len("slist:"):])
	if !ok {
		return ""
	}
	var shows []string
	for _, f := range fields {
		pr := printerFor(f[1], inst)
		if pr == "" {
			return ""
		}
		shows = append(shows, fmt.Sprintf("%s x.%s", pr, f[0]))
	}
	return "GoSem.showList (fun x => \"/\".intercalate [" + strings.Join(shows, ", ") + "])"
}
