package go2lean

import (
	"bytes"
	"fmt"
	"go/ast"
	"go/constant"
	"go/printer"
	"go/token"
	"go/types"
	"sort"
	"strings"
)

// FuncResult is the outcome for one function.
type FuncResult struct {
	Target   Target
	Key      string // pkgdir:Name
	LeanName string
	OK       bool
	Reason   string
	Lean     string // the definitions (loops first)
	Sig      *Sig
	IntExprs []string
	Source   string
	IsTarget bool
	Notes    []string // assumptions / preconditions stated in the generated header
}

// Sig describes the translated function for the execution path.
type Sig struct {
	Params    []Param  // in Lean order (receiver first, then parameters, then extern parameters)
	Results   []string // protocol kinds of the results (the updated receiver last when RecvOut)
	RecvOut   bool
	RecvDropped bool // the receiver has an untranslatable type and is never mentioned in the body: the method is a function of its parameters
	TParams   []string // every Go type parameter (receiver's first)
	Erased    []string // type parameters whose type set is one Lean type: no Lean type variable
	GoParams  []Param // the Go parameters (without receiver/extern), for the shim
	HasRecv   bool
	RecvPtr   bool
	RecvType  string
	Externs   []Param
	Droppable []string // Go parameters dropped from the Lean signature
	// InOut: indices (into the Go parameter list) of the written slice parameters: the function
	// returns their final values after its results (before the updated receiver).
	InOut []int
	// ErrClasses: the error classes the function (and its callees) can produce, sorted.
	ErrClasses []string
}

type Param struct {
	Name   string
	Code   string // protocol kind
	Lean   string // Lean type
	GoType string
	Impl   string // extern_func with an extern_impl: the Lean term that instantiates it on the execution path
}

type reject struct{ msg string }

// Generator translates the targets of one property.
type Generator struct {
	l           *loader
	id          string
	done        map[string]*FuncResult
	order       []*FuncResult
	inProgress  map[string]bool
	structs     map[string]*structInfo
	structOrder []string
	targets     map[string]*Target // key -> target
	sentinels   map[string][3]string // error class -> import path, package name, variable name
}

type fn struct {
	g     *Generator
	pkg   *pkgInfo
	decl  *ast.FuncDecl
	tgt   *Target
	lname string
	capLoc   map[types.Object]int // capLocal memo: 1 yes, 2 no
	extFuncs map[string]Param     // extern_func: normalised callee text -> parameter
	extFSeen map[string]bool

	names    map[types.Object]string
	used     map[string]bool
	loopDefs []string
	loopN    int
	tmpN     int
	pre      *[]string
	intExprs map[string]bool
	externAt map[ast.Expr]string // extern-matched expression nodes -> parameter name
	tparams  []string
	tbinder  string
	resTy    []*ty
	recvObj  types.Object
	recvOut  bool
	recvTy   *ty
	loopDepth int
	extSeen   map[string]bool
	recvPtr   bool
	parents   map[ast.Node]ast.Node
	inout     []*types.Var          // written slice parameters (in-out, state passing), in parameter order
	inoutSet  map[types.Object]bool
	funcPar   map[types.Object]*ty  // callback parameters
	notes     []string
	errCls    map[string]bool
	structLocal map[types.Object]bool
	ownedChecked bool
	condDepth   int // > 0 while a conditionally evaluated operand (right side of && / ||, a later case expression) is translated
	ptrSlice    map[types.Object]*ty          // `p *[]T` parameters read once (`x := *p`) and stored once (`*p = x`): in-out lists
	ptrAlias    map[types.Object]types.Object // the local x of such a parameter -> the parameter
}

func (t *fn) reject(n ast.Node, format string, a ...any) {
	pos := ""
	if n != nil {
		p := t.g.l.fset.Position(n.Pos())
		pos = fmt.Sprintf("%s:%d: ", t.g.l.fileOf(n.Pos()), p.Line)
	}
	panic(reject{pos + fmt.Sprintf(format, a...)})
}

func (t *fn) text(n ast.Node) string {
	var b bytes.Buffer
	_ = printer.Fprint(&b, t.g.l.fset, n)
	return strings.Join(strings.Fields(b.String()), " ")
}

func (t *fn) typeOf(e ast.Expr) types.Type {
	tv, ok := t.pkg.info.Types[e]
	if !ok || tv.Type == nil {
		if id, ok := e.(*ast.Ident); ok {
			if o := t.pkg.info.ObjectOf(id); o != nil {
				return o.Type()
			}
		}
		t.reject(e, "no type information for `%s` (the package does not type-check here)", t.text(e))
	}
	return tv.Type
}

func (t *fn) tyOf(e ast.Expr) *ty {
	if gty := t.globalTyOf(e); gty != nil {
		return gty
	}
	gt := t.typeOf(e)
	r, err := t.goType(gt)
	if err != nil {
		t.reject(e, "`%s`: %v", t.text(e), err)
	}
	return r
}

func (t *fn) fresh(prefix string) string {
	for {
		t.tmpN++
		n := fmt.Sprintf("%s%d", prefix, t.tmpN)
		if !t.used[n] {
			t.used[n] = true
			return n
		}
	}
}

func (t *fn) nameOf(o types.Object) string {
	if n, ok := t.names[o]; ok {
		return n
	}
	base := leanIdent(o.Name())
	if base == "_" {
		return "_"
	}
	n := base
	for i := 1; t.used[n]; i++ {
		n = fmt.Sprintf("%s_%d", base, i)
	}
	t.used[n] = true
	t.names[o] = n
	return n
}

func (t *fn) emit(line string) { *t.pre = append(*t.pre, line) }

func indent(lines []string) []string {
	out := make([]string, len(lines))
	for i, l := range lines {
		out[i] = "  " + l
	}
	return out
}

func tuple(xs []string) string {
	switch len(xs) {
	case 0:
		return "()"
	case 1:
		return xs[0]
	}
	return "(" + strings.Join(xs, ", ") + ")"
}

func tupleTy(ts []*ty) string {
	switch len(ts) {
	case 0:
		return "Unit"
	case 1:
		return ts[0].lean()
	}
	var s []string
	for _, x := range ts {
		s = append(s, x.lean())
	}
	return strings.Join(s, " × ")
}

// ---------------------------------------------------------------- expressions

func (t *fn) noteInt(e ast.Expr) {
	if b, ok := t.typeOf(e).Underlying().(*types.Basic); ok && b.Kind() == types.Int {
		if tv := t.pkg.info.Types[e]; tv.Value == nil {
			t.intExprs[t.text(e)] = true
		}
	}
}

func (t *fn) ex(e ast.Expr) string {
	if name, ok := t.externAt[e]; ok {
		return name
	}
	if tv, ok := t.pkg.info.Types[e]; ok && tv.Value != nil {
		ty := t.tyOf(e)
		s, err := lit(tv.Value, ty)
		if err != nil {
			t.reject(e, "%v", err)
		}
		return s
	}
	switch x := e.(type) {
	case *ast.ParenExpr:
		return t.ex(x.X)
	case *ast.Ident:
		return t.ident(x)
	case *ast.UnaryExpr:
		return t.unary(x)
	case *ast.BinaryExpr:
		return t.binary(x)
	case *ast.CallExpr:
		r := t.call(x, 1)
		return r[0]
	case *ast.IndexExpr:
		return t.index(x)
	case *ast.SliceExpr:
		return t.sliceExpr(x)
	case *ast.SelectorExpr:
		return t.selector(x)
	case *ast.CompositeLit:
		return t.composite(x)
	case *ast.StarExpr:
		if n, ok := t.ptrSliceName(x.X); ok {
			return n
		}
		t.reject(e, "pointer dereference `%s` is outside the subset", t.text(e))
	case *ast.FuncLit:
		t.reject(e, "function literal (closure) is outside the subset")
	case *ast.TypeAssertExpr:
		t.reject(e, "type assertion is outside the subset (interfaces)")
	}
	t.reject(e, "expression `%s` (%T) is outside the subset", t.text(e), e)
	return ""
}

func (t *fn) ident(x *ast.Ident) string {
	o := t.pkg.info.ObjectOf(x)
	switch v := o.(type) {
	case *types.Var:
		if v.IsField() {
			t.reject(x, "bare field reference `%s`", x.Name)
		}
		if v.Parent() == v.Pkg().Scope() {
			if s, ok := t.sentinel(v); ok {
				return s
			}
			if fnGlobals[t][o] != nil {
				t.checkGlobalUse(x)
				return t.names[o]
			}
			t.reject(x, "package-level variable `%s` (mutable global state) is outside the subset", x.Name)
		}
		if _, known := t.names[o]; !known {
			t.reject(x, "variable `%s` is not in scope of the translation (untranslatable parameter used outside an extern expression?)", x.Name)
		}
		t.noteInt(x)
		if t.capLocal(o) {
			return t.names[o] + ".1"
		}
		return t.names[o]
	case *types.Nil:
		t.reject(x, "`nil` is outside the subset (slices are lists without a nil/empty distinction)")
	case *types.Const:
		t.reject(x, "constant `%s` without a value", x.Name)
	}
	t.reject(x, "identifier `%s` is outside the subset", x.Name)
	return ""
}

func (t *fn) unary(x *ast.UnaryExpr) string {
	ty := t.tyOf(x)
	a := t.ex(x.X)
	switch x.Op {
	case token.NOT:
		return "(!" + a + ")"
	case token.SUB:
		t.noteInt(x)
		if ty.k == kInt || ty.k == kBV {
			return "(-" + a + ")"
		}
	case token.ADD:
		return a
	case token.XOR:
		if ty.k == kBV {
			return "(~~~" + a + ")"
		}
		if ty.k == kInt {
			t.noteInt(x)
			return "(GoSem.intNot " + a + ")"
		}
	case token.AND:
		t.reject(x, "address-of `%s` is outside the subset", t.text(x))
	case token.ARROW:
		t.reject(x, "channel receive is outside the subset")
	}
	t.reject(x, "unary operator %s on `%s` is outside the subset", x.Op, t.text(x.X))
	return ""
}

// shiftCount renders the count of a shift as a Lean Nat term.
func (t *fn) shiftCount(c ast.Expr) string {
	if tv, ok := t.pkg.info.Types[c]; ok && tv.Value != nil {
		return "(" + tv.Value.ExactString() + " : Nat)"
	}
	cty := t.tyOf(c)
	cs := t.ex(c)
	switch {
	case cty.k == kBV && !cty.signed:
		return cs + ".toNat"
	case cty.k == kBV && cty.signed:
		n := t.fresh("sh")
		t.emit(fmt.Sprintf("let %s ← GoSem.shiftCount %s.toInt", n, cs))
		return n
	case cty.k == kInt:
		n := t.fresh("sh")
		t.emit(fmt.Sprintf("let %s ← GoSem.shiftCount %s", n, cs))
		return n
	}
	t.reject(c, "shift count `%s` has a type outside the subset", t.text(c))
	return ""
}

func isNonZeroConst(info *types.Info, e ast.Expr) bool {
	tv, ok := info.Types[e]
	if !ok || tv.Value == nil {
		return false
	}
	s := tv.Value.ExactString()
	return s != "0"
}

func (t *fn) binary(x *ast.BinaryExpr) string {
	switch x.Op {
	case token.LAND, token.LOR:
		a := t.ex(x.X)
		// the right operand is evaluated only when needed: its panicking parts must not be hoisted
		var sub []string
		save := t.pre
		t.pre = &sub
		t.condDepth++
		b := t.ex(x.Y)
		t.condDepth--
		t.pre = save
		if len(sub) == 0 {
			if x.Op == token.LAND {
				return "(" + a + " && " + b + ")"
			}
			return "(" + a + " || " + b + ")"
		}
		n := t.fresh("c")
		short := "false"
		cond := a
		if x.Op == token.LOR {
			short = "true"
			cond = "(!" + a + ")"
		}
		t.emit(fmt.Sprintf("let %s ← (if %s then (do", n, cond))
		for _, l := range sub {
			t.emit("    " + l)
		}
		t.emit(fmt.Sprintf("    pure %s) else pure %s)", b, short))
		return n
	case token.SHL, token.SHR:
		lt := t.tyOf(x)
		a := t.ex(x.X)
		c := t.shiftCount(x.Y)
		t.noteInt(x)
		switch {
		case lt.k == kBV && x.Op == token.SHL:
			return "(" + a + " <<< " + c + ")"
		case lt.k == kBV && !lt.signed:
			return "(" + a + " >>> " + c + ")"
		case lt.k == kBV && lt.signed:
			return "(BitVec.sshiftRight " + a + " " + c + ")"
		case lt.k == kInt && x.Op == token.SHL:
			return "(GoSem.intShl " + a + " " + c + ")"
		case lt.k == kInt:
			return "(GoSem.intShr " + a + " " + c + ")"
		}
		t.reject(x, "shift of `%s`: operand type outside the subset", t.text(x.X))
	}
	if x.Op == token.EQL || x.Op == token.NEQ {
		// `err == nil` / `err != nil`: the only comparisons of error values in the subset (two non-nil
		// errors compare by identity in Go, which the class model does not know)
		var other ast.Expr
		switch {
		case t.isNil(x.Y):
			other = x.X
		case t.isNil(x.X):
			other = x.Y
		}
		if other != nil {
			if t.isNil(other) {
				t.reject(x, "`nil == nil` is outside the subset")
			}
			if ot := t.tyOf(other); ot.k == kOptFn {
				if x.Op == token.NEQ {
					return "(Option.isSome " + t.ex(other) + ")"
				}
				return "(Option.isNone " + t.ex(other) + ")"
			}
			if ot := t.tyOf(other); ot.k != kErr {
				t.reject(x, "comparison `%s`: `nil` is in the subset only for `error` (slices are lists without a nil/empty distinction)", t.text(x))
			}
			op := " == "
			if x.Op == token.NEQ {
				op = " != "
			}
			return "(" + t.ex(other) + op + "GoSem.Err.nil)"
		}
		if t.tyOf(x.X).k == kErr || t.tyOf(x.Y).k == kErr {
			t.reject(x, "comparison `%s` of two error values (identity) is outside the subset; only comparisons with nil are translated", t.text(x))
		}
	}
	at := t.tyOf(x.X)
	bt := t.tyOf(x.Y)
	a := t.ex(x.X)
	b := t.ex(x.Y)
	switch x.Op {
	case token.EQL, token.NEQ:
		if at.k == kList && !at.str {
			t.reject(x, "comparison of slices is outside the subset")
		}
		if !sameTy(at, bt) {
			t.reject(x, "comparison `%s` between different translated types", t.text(x))
		}
		if x.Op == token.EQL {
			return "(" + a + " == " + b + ")"
		}
		return "(" + a + " != " + b + ")"
	case token.LSS, token.LEQ, token.GTR, token.GEQ:
		if !sameTy(at, bt) {
			t.reject(x, "comparison `%s` between different translated types", t.text(x))
		}
		switch {
		case at.k == kInt || (at.k == kBV && !at.signed):
			op := map[token.Token]string{token.LSS: "<", token.LEQ: "≤", token.GTR: ">", token.GEQ: "≥"}[x.Op]
			return "(decide (" + a + " " + op + " " + b + "))"
		case at.k == kBV && at.signed:
			switch x.Op {
			case token.LSS:
				return "(BitVec.slt " + a + " " + b + ")"
			case token.LEQ:
				return "(BitVec.sle " + a + " " + b + ")"
			case token.GTR:
				return "(BitVec.slt " + b + " " + a + ")"
			default:
				return "(BitVec.sle " + b + " " + a + ")"
			}
		}
		t.reject(x, "ordering comparison `%s` on this type is outside the subset", t.text(x))
	}
	rt := t.tyOf(x)
	t.noteInt(x)
	if !sameTy(at, bt) || !sameTy(at, rt) {
		t.reject(x, "operands of `%s` have different translated types", t.text(x))
	}
	hoist := func(f string) string {
		n := t.fresh("q")
		t.emit(fmt.Sprintf("let %s ← %s %s %s", n, f, a, b))
		return n
	}
	switch rt.k {
	case kBV:
		switch x.Op {
		case token.ADD:
			return "(" + a + " + " + b + ")"
		case token.SUB:
			return "(" + a + " - " + b + ")"
		case token.MUL:
			return "(" + a + " * " + b + ")"
		case token.AND:
			return "(" + a + " &&& " + b + ")"
		case token.OR:
			return "(" + a + " ||| " + b + ")"
		case token.XOR:
			return "(" + a + " ^^^ " + b + ")"
		case token.AND_NOT:
			return "(" + a + " &&& ~~~" + b + ")"
		case token.QUO:
			if isNonZeroConst(t.pkg.info, x.Y) {
				if rt.signed {
					return "(BitVec.sdiv " + a + " " + b + ")"
				}
				return "(" + a + " / " + b + ")"
			}
			if rt.signed {
				return hoist("GoSem.sdiv")
			}
			return hoist("GoSem.udiv")
		case token.REM:
			if isNonZeroConst(t.pkg.info, x.Y) {
				if rt.signed {
					return "(BitVec.srem " + a + " " + b + ")"
				}
				return "(" + a + " % " + b + ")"
			}
			if rt.signed {
				return hoist("GoSem.smod")
			}
			return hoist("GoSem.umod")
		}
	case kInt:
		switch x.Op {
		case token.ADD:
			return "(" + a + " + " + b + ")"
		case token.SUB:
			return "(" + a + " - " + b + ")"
		case token.MUL:
			return "(" + a + " * " + b + ")"
		case token.AND:
			return "(GoSem.intAnd " + a + " " + b + ")"
		case token.OR:
			return "(GoSem.intOr " + a + " " + b + ")"
		case token.XOR:
			return "(GoSem.intXor " + a + " " + b + ")"
		case token.AND_NOT:
			return "(GoSem.intAndNot " + a + " " + b + ")"
		case token.QUO:
			if isNonZeroConst(t.pkg.info, x.Y) {
				return "(Int.tdiv " + a + " " + b + ")"
			}
			return hoist("GoSem.intDiv")
		case token.REM:
			if isNonZeroConst(t.pkg.info, x.Y) {
				return "(Int.tmod " + a + " " + b + ")"
			}
			return hoist("GoSem.intMod")
		}
	case kList:
		if rt.str && x.Op == token.ADD {
			return "(" + a + " ++ " + b + ")"
		}
	}
	t.reject(x, "operator %s in `%s` is outside the subset for this type", x.Op, t.text(x))
	return ""
}

func (t *fn) convert(x *ast.CallExpr, dstT types.Type) string {
	if len(x.Args) != 1 {
		t.reject(x, "conversion with %d arguments", len(x.Args))
	}
	dst, err := t.goType(dstT)
	if err != nil {
		t.reject(x, "conversion `%s`: %v", t.text(x), err)
	}
	if t.isNil(x.Args[0]) && dst.k == kList && !dst.str {
		return t.nilSlice(x, dst)
	}
	src := t.tyOf(x.Args[0])
	a := t.ex(x.Args[0])
	t.noteInt(x)
	switch {
	case src.k == kBV && dst.k == kBV:
		if src.bits == dst.bits {
			return a
		}
		if src.signed {
			return fmt.Sprintf("(%s.signExtend %d)", a, dst.bits)
		}
		return fmt.Sprintf("(%s.setWidth %d)", a, dst.bits)
	case src.k == kInt && dst.k == kBV:
		return fmt.Sprintf("(BitVec.ofInt %d %s)", dst.bits, a)
	case src.k == kBV && dst.k == kInt:
		if src.signed || src.bits == 64 {
			return "(" + a + ".toInt)"
		}
		return "(Int.ofNat " + a + ".toNat)"
	case src.k == kInt && dst.k == kInt, src.k == kBool && dst.k == kBool:
		return a
	case src.k == kList && dst.k == kList && sameTy(src.elem, dst.elem) && src.elem.k == kBV && src.elem.bits == 8:
		return a // string <-> []byte: a copy; lists carry no aliasing
	case src.k == kTParam && dst.k == kTParam && src.name == dst.name:
		return a
	case src.k == kStruct && dst.k == kStruct && src.name == dst.name:
		return a
	case src.k == kList && src.str && dst.k == kList && !dst.str && isRuneTy(dst.elem):
		return "(GoSem.stringToRunes " + a + ")" // []rune(s): decoded by the Utf8 prelude
	case src.k == kList && !src.str && isRuneTy(src.elem) && dst.k == kList && dst.str:
		return "(GoSem.runesToString " + a + ")" // string(runes)
	case src.k == kBV && dst.k == kList && dst.str:
		// string(b) for an integer b: the UTF-8 encoding of the code point b (NOT the one-byte string)
		if src.signed {
			return "(GoSem.runeToString " + a + ".toInt)"
		}
		return "(GoSem.runeToString (Int.ofNat " + a + ".toNat))"
	}
	t.reject(x, "conversion `%s` is outside the subset", t.text(x))
	return ""
}

var bitsFuncs = map[string]string{
	"math/bits.Len64": "GoSem.bitsLen64", "math/bits.Len32": "GoSem.bitsLen32", "math/bits.Len8": "GoSem.bitsLen8",
	"math/bits.OnesCount64": "GoSem.bitsOnesCount64", "math/bits.OnesCount32": "GoSem.bitsOnesCount32",
	"math/bits.TrailingZeros64": "GoSem.bitsTrailingZeros64", "math/bits.TrailingZeros32": "GoSem.bitsTrailingZeros32",
}

// call translates a call; want = number of values expected (results are bound to fresh names
// when the callee can panic).  Returns the value terms.
func (t *fn) call(x *ast.CallExpr, want int) []string {
	if name, ok := t.externAt[x]; ok {
		return []string{name}
	}
	if r, ok := t.externFuncCall(x); ok {
		return []string{r}
	}
	if tv, ok := t.pkg.info.Types[x.Fun]; ok && tv.IsType() {
		return []string{t.convert(x, tv.Type)}
	}
	// builtins
	fun := ast.Unparen(x.Fun)
	if id, ok := fun.(*ast.Ident); ok && x.Ellipsis != token.NoPos {
		if b, ok := t.pkg.info.ObjectOf(id).(*types.Builtin); ok && b.Name() == "append" && len(x.Args) == 2 {
			lt := t.tyOf(x.Args[0])
			rt := t.tyOf(x.Args[1])
			if lt.k == kList && rt.k == kList && sameTy(lt.elem, rt.elem) {
				a := t.ex(x.Args[0])
				return []string{"(" + a + " ++ " + t.ex(x.Args[1]) + ")"}
			}
		}
	}
	if x.Ellipsis != token.NoPos {
		t.reject(x, "variadic spread call is outside the subset")
	}
	if id, ok := fun.(*ast.Ident); ok {
		if b, ok := t.pkg.info.ObjectOf(id).(*types.Builtin); ok {
			return []string{t.builtin(x, b.Name())}
		}
	}
	var callee *types.Func
	switch f := fun.(type) {
	case *ast.Ident:
		callee, _ = t.pkg.info.ObjectOf(f).(*types.Func)
	case *ast.SelectorExpr:
		callee, _ = t.pkg.info.ObjectOf(f.Sel).(*types.Func)
	case *ast.IndexExpr:
		if id, ok := f.X.(*ast.Ident); ok {
			callee, _ = t.pkg.info.ObjectOf(id).(*types.Func)
		}
	}
	if id, ok := fun.(*ast.Ident); ok {
		if v, ok := t.pkg.info.ObjectOf(id).(*types.Var); ok {
			if ft := t.funcPar[v]; ft != nil {
				return t.callbackCall(x, v, ft, want)
			}
			if _, known := t.names[v]; known && !v.IsField() {
				if vt, err := t.goType(v.Type()); err == nil && vt.k == kOptFn {
					return t.optFnCall(x, v, vt)
				}
			}
		}
	}
	if callee == nil {
		t.reject(x, "call of `%s`: not a declared function (function values, interface methods and closures are outside the subset)", t.text(x.Fun))
	}
	full := callee.FullName()
	if lf, ok := bitsFuncs[full]; ok {
		t.noteInt(x)
		return []string{"(" + lf + " " + t.ex(x.Args[0]) + ")"}
	}
	if r := t.utf8Call(x, full); r != nil {
		return r
	}
	switch full {
	case "fmt.Errorf", "errors.New":
		return []string{t.errorfCall(x, full)}
	case "encoding/hex.EncodedLen":
		t.noteInt(x)
		return []string{"(" + t.ex(x.Args[0]) + " * (2 : Int))"}
	case "encoding/hex.DecodedLen":
		t.noteInt(x)
		return []string{"(Int.tdiv " + t.ex(x.Args[0]) + " (2 : Int))"}
	}
	if r := t.escCodecCall(x, full); r != nil {
		return r
	}
	if callee.Pkg() == nil || !(callee.Pkg().Path() == t.g.l.modPath || strings.HasPrefix(callee.Pkg().Path(), t.g.l.modPath+"/")) {
		t.reject(x, "call of `%s`: no Go semantics for this function in GoSem (add an extern option or a GoSem definition)", full)
	}
	sig := callee.Type().(*types.Signature)
	if sig.Variadic() {
		t.reject(x, "call of the variadic function %s is outside the subset", callee.Name())
	}
	if sig.Recv() != nil {
		return t.recvMethodCall(x, callee)
	}
	dir := strings.TrimPrefix(strings.TrimPrefix(callee.Pkg().Path(), t.g.l.modPath), "/")
	if dir == "" {
		dir = "."
	}
	dep := t.g.translate(dir, callee.Name(), false)
	if !dep.OK {
		t.reject(x, "callee %s is not translatable: %s", callee.Name(), dep.Reason)
	}
	if len(dep.Sig.Externs) > 0 {
		t.reject(x, "callee %s takes extern parameters", callee.Name())
	}
	// in-out slice arguments: the no-alias precondition of the callee is established here — the
	// argument is a variable nobody else can refer to (a local created by make/append/literal in this
	// function, or an in-out parameter of this function, whose own precondition covers it) and it
	// does not occur in any other argument; the caller's variable is rebound to the returned slice.
	var outObjs []types.Object
	if outs, ok := t.recvFieldInOutCall(x, callee, dep); ok {
		return outs
	}
	for _, ix := range dep.Sig.InOut {
		id, ok := ast.Unparen(x.Args[ix]).(*ast.Ident)
		if !ok {
			t.reject(x, "argument `%s` of %s is written by the callee: only a plain variable is in the subset there", t.text(x.Args[ix]), callee.Name())
		}
		o := t.pkg.info.ObjectOf(id)
		if !t.inoutSet[o] && !t.freshLocal(o) {
			t.reject(x, "argument `%s` of %s is written by the callee, but it is neither a local created by make/append/literal here nor an in-out parameter (it may alias another slice)", id.Name, callee.Name())
		}
		for j, a := range x.Args {
			if j != ix && t.mentions(a, o) {
				t.reject(x, "argument `%s` of %s is written by the callee and occurs in another argument too (aliasing)", id.Name, callee.Name())
			}
		}
		outObjs = append(outObjs, o)
	}
	var args []string
	for _, a := range x.Args {
		args = append(args, t.arg(a))
	}
	nres := sig.Results().Len()
	var names []string
	for i := 0; i < nres; i++ {
		names = append(names, t.fresh("r"))
	}
	pat := tuple(names)
	if nres == 0 {
		pat = "_"
	}
	if len(outObjs) > 0 {
		t.noCond(x, callee.Name())
		var outs []string
		for range outObjs {
			outs = append(outs, t.fresh("io"))
		}
		if nres == 0 {
			pat = tuple(outs)
		} else {
			pat = "(" + pat + ", " + strings.Join(outs, ", ") + ")"
		}
		t.emit(fmt.Sprintf("let %s ← %s %s", pat, dep.LeanName, strings.Join(args, " ")))
		for i, o := range outObjs {
			t.emit(fmt.Sprintf("let %s : %s := %s", t.nameOf(o), t.varTy(o).lean(), outs[i]))
		}
	} else {
		t.emit(fmt.Sprintf("let %s ← %s %s", pat, dep.LeanName, strings.Join(args, " ")))
	}
	for _, c := range dep.Sig.ErrClasses {
		t.errCls[c] = true
	}
	if nres == 0 {
		return []string{"()"}
	}
	return names
}

// recvMethodDep: for a call `r.M(...)` where r is the receiver of the function being translated
// and M a method of the same type, the translation of M (nil when the call has another shape).
func (t *fn) recvMethodDep(x *ast.CallExpr) *FuncResult {
	se, ok := ast.Unparen(x.Fun).(*ast.SelectorExpr)
	if !ok || t.recvObj == nil {
		return nil
	}
	id, ok := ast.Unparen(se.X).(*ast.Ident)
	if !ok || t.pkg.info.ObjectOf(id) != t.recvObj {
		return nil
	}
	callee, _ := t.pkg.info.ObjectOf(se.Sel).(*types.Func)
	if callee == nil {
		return nil
	}
	sel := t.pkg.info.Selections[se]
	if sel == nil || sel.Kind() != types.MethodVal || len(sel.Index()) != 1 {
		return nil
	}
	rn := recvName(t.decl.Recv.List[0].Type)
	return t.g.translate(t.pkg.dir, rn+"."+callee.Name(), false)
}

// recvMethodCall: `r.M(args)` on the receiver itself — the callee is translated too and the
// receiver is threaded through it (state passing).
func (t *fn) recvMethodCall(x *ast.CallExpr, callee *types.Func) []string {
	dep := t.recvMethodDep(x)
	if dep == nil {
		if ldep, lo := t.localMethodDep(x); ldep != nil {
			return t.localMethodCall(x, callee, ldep, lo)
		}
		t.reject(x, "method call `%s`: only methods of the receiver of the translated method itself, or of a local struct variable declared `var v S` that has no second name (no copy, no field assignment, no slice field read), are in the subset", t.text(x.Fun))
	}
	if !dep.OK {
		t.reject(x, "callee %s is not translatable: %s", dep.Key, dep.Reason)
	}
	if len(dep.Sig.Externs) > 0 {
		t.reject(x, "callee %s takes extern parameters", dep.Key)
	}
	if len(dep.Sig.InOut) > 0 {
		t.reject(x, "callee %s writes a slice parameter (in-out): method calls of that shape are outside the subset", dep.Key)
	}
	for _, c := range dep.Sig.ErrClasses {
		t.errCls[c] = true
	}
	if dep.Sig.RecvPtr && !t.recvPtr && dep.Sig.RecvOut {
		t.reject(x, "a value-receiver method calls the pointer-receiver method %s that writes the receiver: outside the subset", dep.Key)
	}
	rn := t.names[t.recvObj]
	args := []string{rn}
	for _, a := range x.Args {
		args = append(args, t.arg(a))
	}
	sig := callee.Type().(*types.Signature)
	nres := sig.Results().Len()
	var names []string
	for i := 0; i < nres; i++ {
		names = append(names, t.fresh("r"))
	}
	pat := tuple(names)
	if nres == 0 {
		pat = "_"
	}
	if dep.Sig.RecvOut {
		t.noCond(x, dep.Key)
		if !t.recvOut {
			t.reject(x, "internal: receiver-writing callee found late")
		}
		nr := t.fresh("rc")
		if nres == 0 {
			pat = nr
		} else {
			pat = "(" + pat + ", " + nr + ")"
		}
		t.emit(fmt.Sprintf("let %s ← %s %s", pat, dep.LeanName, strings.Join(args, " ")))
		t.emit(fmt.Sprintf("let %s : %s := %s", rn, t.recvTy.lean(), nr))
	} else {
		t.emit(fmt.Sprintf("let %s ← %s %s", pat, dep.LeanName, strings.Join(args, " ")))
	}
	if nres == 0 {
		return []string{"()"}
	}
	return names
}

// arg renders an expression as an application argument.
func (t *fn) arg(e ast.Expr) string {
	s := t.ex(e)
	if strings.ContainsAny(s, " ") && !strings.HasPrefix(s, "(") {
		return "(" + s + ")"
	}
	return s
}

func (t *fn) builtin(x *ast.CallExpr, name string) string {
	switch name {
	case "len":
		if l, ok := t.setLen(x); ok {
			return l
		}
		at := t.tyOf(x.Args[0])
		if at.k != kList {
			t.reject(x, "len of `%s`: type outside the subset", t.text(x.Args[0]))
		}
		t.noteInt(x)
		return "(Int.ofNat " + t.arg(x.Args[0]) + ".length)"
	case "min", "max":
		rt := t.tyOf(x)
		if rt.k != kInt && !(rt.k == kBV && !rt.signed) {
			t.reject(x, "%s on this type is outside the subset", name)
		}
		acc := t.ex(x.Args[0])
		for _, a := range x.Args[1:] {
			acc = "(" + name + " " + acc + " " + t.arg(a) + ")"
		}
		return acc
	case "append":
		lt := t.tyOf(x.Args[0])
		if lt.k != kList {
			t.reject(x, "append to a non-slice")
		}
		// `append(x[:k], …)` on a local x overwrites x's array in place: exact by value only when no
		// second name still refers to that array (`y := x` before it would see the new elements in Go).
		if se, ok := ast.Unparen(x.Args[0]).(*ast.SliceExpr); ok {
			if id, ok2 := ast.Unparen(se.X).(*ast.Ident); ok2 {
				if o, isVar := t.pkg.info.ObjectOf(id).(*types.Var); isVar && !t.isParam(o) {
					if r := t.aliasReason(o); r != "" {
						t.reject(x, "`%s` overwrites the array of `%s` in place while `%s` makes another name refer to it (aliasing)", t.text(x), id.Name, r)
					}
				}
			}
		}
		s := t.ex(x.Args[0])
		if len(x.Args) == 1 {
			return s
		}
		if x.Ellipsis.IsValid() {
			return t.appendSpread(x, s)
		}
		var items []string
		for _, a := range x.Args[1:] {
			items = append(items, t.ex(a))
		}
		return "(" + s + " ++ [" + strings.Join(items, ", ") + "])"
	case "make":
		rt := t.tyOf(x)
		if rt.k != kList || len(x.Args) < 2 {
			t.reject(x, "`%s`: only make([]T, n) is in the subset", t.text(x))
		}
		if len(x.Args) == 3 {
			// make([]T, n, c): capacity does not exist in the list model
		}
		z, ok := rt.elem.zero()
		if !ok {
			t.reject(x, "make: no zero value for the element type")
		}
		nt := t.tyOf(x.Args[1])
		n := t.ex(x.Args[1])
		if nt.k == kBV {
			if nt.signed {
				n = n + ".toInt"
			} else {
				n = "(Int.ofNat " + n + ".toNat)"
			}
		}
		r := t.fresh("m")
		t.emit(fmt.Sprintf("let %s ← GoSem.makeSlice %s %s", r, z, n))
		return r
	case "copy":
		t.reject(x, "copy(...) is translated only as a statement or as the whole right-hand side of `n := copy(dst, src)` (it rebinds dst)")
	case "panic":
		t.reject(x, "panic(...) in expression position")
	}
	t.reject(x, "builtin %s is outside the subset", name)
	return ""
}

func (t *fn) indexTerm(e ast.Expr) (string, bool) {
	it := t.tyOf(e)
	i := t.ex(e)
	switch {
	case it.k == kInt:
		return i, true
	case it.k == kBV && !it.signed:
		return i + ".toNat", false
	case it.k == kBV && it.signed:
		return i + ".toInt", true
	}
	t.reject(e, "index `%s` has a type outside the subset", t.text(e))
	return "", false
}

func (t *fn) index(x *ast.IndexExpr) string {
	if _, ok := t.typeOf(x.X).Underlying().(*types.Signature); ok {
		t.reject(x, "explicit instantiation `%s` in value position", t.text(x))
	}
	st := t.tyOf(x.X)
	if st.k != kList {
		t.reject(x, "indexing `%s`: only slices and strings are in the subset (maps, arrays, pointers to arrays are not)", t.text(x.X))
	}
	s := t.arg(x.X)
	i, isInt := t.indexTerm(x.Index)
	n := t.fresh("e")
	if isInt {
		t.emit(fmt.Sprintf("let %s ← GoSem.idx %s %s", n, s, parenIf(i)))
	} else {
		t.emit(fmt.Sprintf("let %s ← GoSem.idxN %s %s", n, s, parenIf(i)))
	}
	return n
}

func parenIf(s string) string {
	if strings.ContainsAny(s, " ") && !(strings.HasPrefix(s, "(") && strings.HasSuffix(s, ")")) {
		return "(" + s + ")"
	}
	return s
}

func (t *fn) sliceExpr(x *ast.SliceExpr) string {
	if x.Slice3 {
		t.reject(x, "3-index slice expression is outside the subset (capacity is not modelled)")
	}
	st := t.tyOf(x.X)
	if st.k != kList {
		t.reject(x, "slicing `%s`: only slices and strings are in the subset", t.text(x.X))
	}
	if st.arrN > 0 {
		t.checkArraySlice(x)
	}
	s := t.arg(x.X)
	toInt := func(e ast.Expr) string {
		i, isInt := t.indexTerm(e)
		if isInt {
			return parenIf(i)
		}
		return "(Int.ofNat " + i + ")"
	}
	lo := "0"
	if x.Low != nil {
		lo = toInt(x.Low)
	}
	hi := "(Int.ofNat " + s + ".length)"
	if x.High != nil {
		hi = toInt(x.High)
	}
	n := t.fresh("s")
	t.emit(fmt.Sprintf("let %s ← GoSem.slice %s %s %s", n, s, lo, hi))
	return n
}

func (t *fn) selector(x *ast.SelectorExpr) string {
	sel := t.pkg.info.Selections[x]
	if sel == nil {
		if v, ok := t.pkg.info.ObjectOf(x.Sel).(*types.Var); ok {
			if s, ok := t.sentinel(v); ok {
				return s
			}
		}
		t.reject(x, "qualified identifier `%s` is outside the subset (package-level variable or function value)", t.text(x))
	}
	if sel.Kind() != types.FieldVal {
		t.reject(x, "method value `%s` is outside the subset", t.text(x))
	}
	if len(sel.Index()) != 1 {
		t.reject(x, "promoted field `%s` is outside the subset", t.text(x))
	}
	// base: a struct value or the (pointer) receiver
	base := ast.Unparen(x.X)
	id, ok := base.(*ast.Ident)
	if !ok {
		if inner, ok2 := base.(*ast.SelectorExpr); ok2 {
			bt := t.tyOf(inner)
			if bt.k == kStruct {
				return t.selector(inner) + "." + leanIdent(x.Sel.Name)
			}
		}
		if ix, ok2 := base.(*ast.IndexExpr); ok2 {
			if _, isPtr := t.typeOf(ix).Underlying().(*types.Pointer); !isPtr && t.tyOf(ix).k == kStruct {
				t.noteInt(x)
				return t.index(ix) + "." + leanIdent(x.Sel.Name)
			}
		}
		t.reject(x, "field access `%s`: base outside the subset", t.text(x))
	}
	o := t.pkg.info.ObjectOf(id)
	if o == t.recvObj && t.recvTy != nil {
		t.noteInt(x)
		return t.names[o] + "." + leanIdent(x.Sel.Name)
	}
	bt := t.tyOf(id)
	if bt.k != kStruct {
		t.reject(x, "field access `%s`: base is not a translated struct", t.text(x))
	}
	t.noteInt(x)
	return t.ident(id) + "." + leanIdent(x.Sel.Name)
}

func (t *fn) composite(x *ast.CompositeLit) string {
	ct := t.tyOf(x)
	switch ct.k {
	case kList:
		if ct.arrN > 0 && len(x.Elts) != ct.arrN {
			t.reject(x, "array literal with fewer elements than the array is outside the subset")
		}
		var items []string
		for _, el := range x.Elts {
			if _, ok := el.(*ast.KeyValueExpr); ok {
				t.reject(x, "keyed slice literal is outside the subset")
			}
			items = append(items, t.ex(el))
		}
		return "([" + strings.Join(items, ", ") + "] : " + ct.lean() + ")"
	case kStruct:
		vals := map[string]string{}
		for i, el := range x.Elts {
			if kv, ok := el.(*ast.KeyValueExpr); ok {
				vals[leanIdent(kv.Key.(*ast.Ident).Name)] = t.ex(kv.Value)
			} else {
				vals[ct.st.fields[i]] = t.ex(el)
			}
		}
		var fs []string
		for i, f := range ct.st.fields {
			v, ok := vals[f]
			if !ok {
				z, zok := ct.st.ftypes[i].zero()
				if !zok {
					t.reject(x, "no zero value for field %s", f)
				}
				v = z
			}
			fs = append(fs, f+" := "+v)
		}
		return "({ " + strings.Join(fs, ", ") + " } : " + ct.name + ")"
	}
	t.reject(x, "composite literal `%s` is outside the subset", t.text(x))
	return ""
}

// ---------------------------------------------------------------- statements

type ctx struct {
	ret  func(val string) []string // `return val` (val = the tupled results, without the in-out parameters/receiver)
	// retFull: return of a complete result (results, in-out parameters, receiver) that an inner loop
	// handed up as `.ret`
	retFull func(full string) []string
	brk     func() []string
	cont    func() []string
}

func (t *fn) withPre(f func() []string) []string {
	var pre []string
	save := t.pre
	t.pre = &pre
	tail := f()
	t.pre = save
	return append(pre, tail...)
}

func (t *fn) block(list []ast.Stmt, c *ctx, k func() []string) []string {
	if len(list) == 0 {
		return k()
	}
	return t.stmt(list[0], c, func() []string { return t.block(list[1:], c, k) })
}

func isPanicCall(info *types.Info, s ast.Stmt) bool {
	es, ok := s.(*ast.ExprStmt)
	if !ok {
		return false
	}
	ce, ok := es.X.(*ast.CallExpr)
	if !ok {
		return false
	}
	id, ok := ast.Unparen(ce.Fun).(*ast.Ident)
	if !ok {
		return false
	}
	b, ok := info.ObjectOf(id).(*types.Builtin)
	return ok && b.Name() == "panic"
}

// hasTerminator: does the statement list contain (outside nested function literals) a return,
// a panic call, or a break/continue that leaves the list?
func (t *fn) hasTerminator(list []ast.Stmt) bool {
	found := false
	var walk func(n ast.Node, inLoop bool)
	walk = func(n ast.Node, inLoop bool) {
		if n == nil || found {
			return
		}
		ast.Inspect(n, func(m ast.Node) bool {
			if found || m == nil {
				return false
			}
			switch s := m.(type) {
			case *ast.FuncLit:
				return false
			case *ast.ReturnStmt:
				found = true
			case *ast.BranchStmt:
				if !inLoop {
					found = true
				}
			case *ast.ExprStmt:
				if isPanicCall(t.pkg.info, s) {
					found = true
				}
			case *ast.ForStmt:
				if m != n {
					walk(s.Body, true)
					return false
				}
			case *ast.RangeStmt:
				if m != n {
					walk(s.Body, true)
					return false
				}
			case *ast.SwitchStmt:
				if m != n {
					// a break inside a switch leaves the switch only; returns still count
					walk(s.Body, true)
					return false
				}
			}
			return true
		})
	}
	for _, s := range list {
		walk(s, false)
	}
	return found
}

// assignedOuter: the local variables assigned in the nodes that are declared outside of them.
func (t *fn) assignedOuter(nodes ...ast.Node) []types.Object {
	set := map[types.Object]bool{}
	var lo, hi token.Pos
	for _, n := range nodes {
		if n == nil || isNilNode(n) {
			continue
		}
		if lo == 0 || n.Pos() < lo {
			lo = n.Pos()
		}
		if n.End() > hi {
			hi = n.End()
		}
	}
	mark := func(e ast.Expr) {
		for {
			switch x := ast.Unparen(e).(type) {
			case *ast.Ident:
				if x.Name == "_" {
					return
				}
				if v, ok := t.pkg.info.ObjectOf(x).(*types.Var); ok && !v.IsField() {
					set[v] = true
				}
				return
			case *ast.IndexExpr:
				e = x.X
			case *ast.SliceExpr:
				e = x.X
			case *ast.SelectorExpr:
				e = x.X
			case *ast.StarExpr:
				e = x.X
			default:
				return
			}
		}
	}
	for _, n := range nodes {
		if n == nil || isNilNode(n) {
			continue
		}
		ast.Inspect(n, func(m ast.Node) bool {
			switch s := m.(type) {
			case *ast.FuncLit:
				return false
			case *ast.AssignStmt:
				for _, l := range s.Lhs {
					mark(l)
				}
			case *ast.IncDecStmt:
				mark(s.X)
			case *ast.RangeStmt:
				if s.Tok == token.ASSIGN {
					if s.Key != nil {
						mark(s.Key)
					}
					if s.Value != nil {
						mark(s.Value)
					}
				}
			case *ast.CallExpr:
				// copy(dst, …) / copy(dst[a:b], …) mutates dst
				if t.isBuiltinCall(s, "copy") && len(s.Args) > 0 {
					mark(s.Args[0])
				}
				for _, a := range t.writtenArgs(s) {
					mark(a)
				}
				// v.M(...) on a local struct variable where M writes its receiver: v is assigned
				if dep, lo := t.localMethodDep(s); dep != nil && dep.OK && dep.Sig != nil && dep.Sig.RecvOut {
					set[lo] = true
				}
				// r.M(...) where M writes the receiver (state passing): r is assigned
				if dep := t.recvMethodDep(s); dep != nil && dep.OK && dep.Sig != nil && dep.Sig.RecvOut && t.recvObj != nil {
					set[t.recvObj] = true
				}
			}
			return true
		})
	}
	var out []types.Object
	for o := range set {
		if o.Pos() >= lo && o.Pos() < hi {
			continue // declared inside
		}
		out = append(out, o)
	}
	sort.Slice(out, func(i, j int) bool { return out[i].Pos() < out[j].Pos() })
	return out
}

func isNilNode(n ast.Node) bool {
	switch v := n.(type) {
	case *ast.BlockStmt:
		return v == nil
	case ast.Stmt:
		return v == nil
	case ast.Expr:
		return v == nil
	}
	return n == nil
}

// usedOuter: local variables referred to in the nodes, declared outside of them.
func (t *fn) usedOuter(lo, hi token.Pos, nodes ...ast.Node) []types.Object {
	set := map[types.Object]bool{}
	for _, n := range nodes {
		if n == nil || isNilNode(n) {
			continue
		}
		ast.Inspect(n, func(m ast.Node) bool {
			if id, ok := m.(*ast.Ident); ok {
				if v, ok := t.pkg.info.Uses[id].(*types.Var); ok && !v.IsField() && v.Pkg() != nil && (v.Parent() != v.Pkg().Scope() || fnGlobals[t][v] != nil) {
					if _, known := t.names[v]; known {
						set[v] = true
					}
				}
			}
			return true
		})
	}
	var out []types.Object
	for o := range set {
		if o.Pos() >= lo && o.Pos() < hi {
			continue
		}
		out = append(out, o)
	}
	sort.Slice(out, func(i, j int) bool { return out[i].Pos() < out[j].Pos() })
	return out
}

func (t *fn) varTy(o types.Object) *ty {
	if o == t.recvObj && t.recvTy != nil {
		return t.recvTy
	}
	if ft := t.funcPar[o]; ft != nil {
		return ft
	}
	if st := t.ptrSlice[o]; st != nil {
		return st
	}
	if gty := fnGlobals[t][o]; gty != nil {
		return gty
	}
	r, err := t.goType(o.Type())
	if err != nil {
		panic(reject{fmt.Sprintf("variable %s: %v", o.Name(), err)})
	}
	if t.capLocal(o) {
		c := *r
		c.capPair = true
		return &c
	}
	return r
}

func (t *fn) stmt(s ast.Stmt, c *ctx, k func() []string) []string {
	switch x := s.(type) {
	case *ast.EmptyStmt:
		return k()
	case *ast.BlockStmt:
		return t.block(x.List, c, k)
	case *ast.ReturnStmt:
		return t.withPre(func() []string {
			if len(x.Results) == 0 {
				if len(t.resTy) != 0 {
					t.reject(x, "bare return with named results is outside the subset")
				}
				return c.ret("()")
			}
			if len(x.Results) == 1 && len(t.resTy) > 1 {
				ce, ok := x.Results[0].(*ast.CallExpr)
				if !ok {
					t.reject(x, "return of a multi-value expression")
				}
				return c.ret(tuple(t.call(ce, len(t.resTy))))
			}
			var vs []string
			for i, r := range x.Results {
				if i < len(t.resTy) {
					vs = append(vs, t.exAs(r, t.resTy[i]))
				} else {
					vs = append(vs, t.ex(r))
				}
			}
			return c.ret(tuple(vs))
		})
	case *ast.ExprStmt:
		if isPanicCall(t.pkg.info, x) {
			return []string{".panic"}
		}
		ce, ok := x.X.(*ast.CallExpr)
		if !ok {
			t.reject(x, "expression statement `%s` is outside the subset", t.text(x))
		}
		if t.isBuiltinCall(ce, "copy") {
			return t.withPre(func() []string {
				t.copyCall(ce)
				return k()
			})
		}
		return t.withPre(func() []string {
			t.call(ce, 0)
			return k()
		})
	case *ast.IncDecStmt:
		return t.withPre(func() []string {
			ty := t.tyOf(x.X)
			one := "1"
			if ty.k == kBV {
				one = fmt.Sprintf("1#%d", ty.bits)
			}
			op := " + "
			if x.Tok == token.DEC {
				op = " - "
			}
			cur := t.ex(x.X)
			t.noteInt(x.X)
			lines := t.assignTo(x.X, "("+cur+op+one+")")
			return append(lines, k()...)
		})
	case *ast.AssignStmt:
		return t.withPre(func() []string {
			lines := t.assign(x)
			return append(lines, k()...)
		})
	case *ast.DeclStmt:
		gd, ok := x.Decl.(*ast.GenDecl)
		if !ok || gd.Tok == token.TYPE {
			t.reject(x, "local type declaration is outside the subset")
		}
		if gd.Tok == token.CONST {
			return k()
		}
		return t.withPre(func() []string {
			var lines []string
			for _, sp := range gd.Specs {
				vs := sp.(*ast.ValueSpec)
				if len(vs.Values) != 0 && len(vs.Values) != len(vs.Names) {
					t.reject(x, "var declaration from a multi-value expression is outside the subset")
				}
				var vals []string
				for i, n := range vs.Names {
					o := t.pkg.info.Defs[n]
					if o == nil {
						continue
					}
					vt := t.varTy(o)
					var v string
					if len(vs.Values) == 0 {
						z, ok := vt.zero()
						if !ok {
							t.reject(x, "no zero value for the type of %s", n.Name)
						}
						v = z
					} else {
						v = t.exAs(vs.Values[i], vt)
					}
					vals = append(vals, v)
				}
				for i, n := range vs.Names {
					o := t.pkg.info.Defs[n]
					if o == nil || n.Name == "_" {
						continue
					}
					vt := t.varTy(o)
					lines = append(lines, fmt.Sprintf("let %s : %s := %s", t.nameOf(o), vt.lean(), vals[i]))
				}
			}
			return append(lines, k()...)
		})
	case *ast.IfStmt:
		return t.ifStmt(x, c, k)
	case *ast.ForStmt:
		return t.forStmt(x, c, k)
	case *ast.RangeStmt:
		return t.rangeStmt(x, c, k)
	case *ast.SwitchStmt:
		return t.switchStmt(x, c, k)
	case *ast.BranchStmt:
		if x.Label != nil {
			t.reject(x, "labelled %s is outside the subset", x.Tok)
		}
		switch x.Tok {
		case token.BREAK:
			if c.brk == nil {
				t.reject(x, "break outside a loop")
			}
			return c.brk()
		case token.CONTINUE:
			if c.cont == nil {
				t.reject(x, "continue outside a loop")
			}
			return c.cont()
		}
		t.reject(x, "%s is outside the subset", x.Tok)
	case *ast.GoStmt:
		t.reject(x, "goroutines are outside the subset")
	case *ast.DeferStmt:
		t.reject(x, "defer is outside the subset")
	case *ast.SelectStmt, *ast.SendStmt:
		t.reject(x, "channel operations are outside the subset")
	case *ast.LabeledStmt:
		t.reject(x, "labelled statements are outside the subset")
	case *ast.TypeSwitchStmt:
		t.reject(x, "type switches are outside the subset (interfaces)")
	}
	t.reject(s, "statement %T is outside the subset", s)
	return nil
}

// assignTo produces the lines that store val into the place lhs.
func (t *fn) assignTo(lhs ast.Expr, val string) []string {
	switch l := ast.Unparen(lhs).(type) {
	case *ast.Ident:
		if l.Name == "_" {
			return []string{"let _ := " + val}
		}
		o := t.pkg.info.ObjectOf(l)
		v, ok := o.(*types.Var)
		if !ok {
			t.reject(lhs, "assignment to `%s`", l.Name)
		}
		if v.Parent() == v.Pkg().Scope() && !(fnGlobals[t][o] != nil && t.inoutSet[o]) {
			t.reject(lhs, "assignment to the package-level variable `%s` is outside the subset", l.Name)
		}
		if o == t.recvObj && !(!t.recvPtr && t.recvTy != nil && (t.recvTy.k == kBV || t.recvTy.k == kInt || t.recvTy.k == kBool)) {
			// (a by-value receiver of scalar type is a local copy: assigning it is `let` shadowing)
			t.reject(lhs, "assignment to the receiver variable itself is outside the subset")
		}
		vt := t.varTy(o)
		if vt.capPair {
			// a write through the capacity-tracked local: the visible part changes, the rest of the array stays
			return []string{fmt.Sprintf("let %s : %s := (%s, %s.2)", t.nameOf(o), vt.lean(), val, t.nameOf(o))}
		}
		return []string{fmt.Sprintf("let %s : %s := %s", t.nameOf(o), vt.lean(), val)}
	case *ast.IndexExpr:
		st := t.tyOf(l.X)
		if st.k != kList || st.str {
			t.reject(lhs, "indexed assignment `%s`: only slices are in the subset", t.text(lhs))
		}
		t.checkWritable(l.X)
		cur := t.ex(l.X)
		i, isInt := t.indexTerm(l.Index)
		n := t.fresh("w")
		f := "GoSem.setIdxN"
		if isInt {
			f = "GoSem.setIdx"
		}
		lines := []string{fmt.Sprintf("let %s ← %s %s %s %s", n, f, parenIf(cur), parenIf(i), parenIf(val))}
		return append(lines, t.assignTo(l.X, n)...)
	case *ast.SelectorExpr:
		sel := t.pkg.info.Selections[l]
		if sel == nil || sel.Kind() != types.FieldVal || len(sel.Index()) != 1 {
			t.reject(lhs, "assignment to `%s` is outside the subset", t.text(lhs))
		}
		if ix, isIx := ast.Unparen(l.X).(*ast.IndexExpr); isIx {
			return t.assignElemField(l, ix, val)
		}
		id, ok := ast.Unparen(l.X).(*ast.Ident)
		if !ok {
			t.reject(lhs, "assignment to the nested field `%s` is outside the subset", t.text(lhs))
		}
		o := t.pkg.info.ObjectOf(id)
		if o == t.recvObj && t.recvTy != nil {
			t.recvOut = true
			n := t.names[o]
			return []string{fmt.Sprintf("let %s : %s := { %s with %s := %s }", n, t.recvTy.lean(), n, leanIdent(l.Sel.Name), val)}
		}
		bt := t.tyOf(id)
		if bt.k != kStruct {
			t.reject(lhs, "assignment to `%s`: base is not a translated struct value", t.text(lhs))
		}
		if _, isPtr := o.Type().Underlying().(*types.Pointer); isPtr {
			t.reject(lhs, "assignment through the pointer `%s` is outside the subset", id.Name)
		}
		n := t.nameOf(o)
		return []string{fmt.Sprintf("let %s : %s := { %s with %s := %s }", n, bt.lean(), n, leanIdent(l.Sel.Name), val)}
	}
	if st, isStar := ast.Unparen(lhs).(*ast.StarExpr); isStar {
		if n, ok := t.ptrSliceName(st.X); ok {
			o := t.pkg.info.ObjectOf(ast.Unparen(st.X).(*ast.Ident))
			return []string{fmt.Sprintf("let %s : %s := %s", n, t.ptrSlice[o].lean(), val)}
		}
	}
	t.reject(lhs, "assignment to `%s` is outside the subset", t.text(lhs))
	return nil
}

// checkWritable enforces the no-aliasing rule for `a[i] = v`: `a` must be a local variable every
// definition of which is make/append/a literal/a conversion copy, or a field of the receiver.
func (t *fn) checkWritable(base ast.Expr) {
	switch b := ast.Unparen(base).(type) {
	case *ast.SelectorExpr:
		if id, ok := ast.Unparen(b.X).(*ast.Ident); ok && t.pkg.info.ObjectOf(id) == t.recvObj && t.recvTy != nil {
			// a field of the receiver: the receiver must not be copied from/into another live name
			t.checkRecvFieldUnaliased(b)
			return
		}
		t.reject(base, "write through `%s`: only locals created in this function and receiver fields may be written (aliasing)", t.text(base))
	case *ast.Ident:
		o := t.pkg.info.ObjectOf(b)
		if t.inoutSet[o] {
			return
		}
		if _, ok := t.ptrAlias[o]; ok {
			return
		}
		if !t.freshLocal(o) {
			t.reject(base, "write `%s[...] = ...`: `%s` is not a local created by make/append/literal in this function (it may alias the caller's slice)", b.Name, b.Name)
		}
		return
	}
	t.reject(base, "write through `%s` is outside the subset", t.text(base))
}

// freshLocal: every assignment to the local o in this function has a fresh right-hand side.
func (t *fn) freshLocal(o types.Object) bool {
	v, ok := o.(*types.Var)
	if !ok || v.IsField() {
		return false
	}
	// parameters alias the caller
	sig := t.pkg.info.Defs[t.decl.Name].Type().(*types.Signature)
	for i := 0; i < sig.Params().Len(); i++ {
		if sig.Params().At(i) == o {
			return false
		}
	}
	if sig.Recv() == o {
		return false
	}
	if t.capLocal(o) {
		return true
	}
	okAll := true
	seen := false
	freshRHS := func(e ast.Expr) bool {
		switch r := ast.Unparen(e).(type) {
		case *ast.CompositeLit:
			return true
		case *ast.CallExpr:
			if id, ok := ast.Unparen(r.Fun).(*ast.Ident); ok {
				if _, isB := t.pkg.info.ObjectOf(id).(*types.Builtin); isB {
					if id.Name == "make" {
						return true
					}
					if id.Name == "append" && len(r.Args) > 0 {
						// append(x, …) assigned back to x, x fresh so far; or append to a nil literal
						if a, ok := ast.Unparen(r.Args[0]).(*ast.Ident); ok && t.pkg.info.ObjectOf(a) == o {
							return true
						}
						return false
					}
				}
			}
			if tv, ok := t.pkg.info.Types[r.Fun]; ok && tv.IsType() && len(r.Args) == 1 {
				// []byte(string) copies
				if st, ok := t.typeOf(r.Args[0]).Underlying().(*types.Basic); ok && st.Info()&types.IsString != 0 {
					return true
				}
			}
		}
		return false
	}
	ast.Inspect(t.decl.Body, func(m ast.Node) bool {
		switch s := m.(type) {
		case *ast.AssignStmt:
			for i, l := range s.Lhs {
				id, ok := ast.Unparen(l).(*ast.Ident)
				if !ok || t.pkg.info.ObjectOf(id) != o {
					continue
				}
				seen = true
				if len(s.Rhs) != len(s.Lhs) || !freshRHS(s.Rhs[i]) {
					okAll = false
				}
			}
		case *ast.ValueSpec:
			for i, n := range s.Names {
				if t.pkg.info.Defs[n] != o {
					continue
				}
				seen = true
				if len(s.Values) == 0 {
					continue // zero value (nil slice): fresh
				}
				if len(s.Values) != len(s.Names) || !freshRHS(s.Values[i]) {
					okAll = false
				}
			}
		}
		return true
	})
	return seen && okAll && t.aliasReason(o) == ""
}

// aliasReason: "" when no second name for the backing array of the slice variable o is created in
// this function; otherwise the construct that creates one:
//   `y := o`, `y = o[a:b]`, `var y = o` (unless `r.f = o` hands o over to the receiver, movedAway),
//   o inside a composite literal, o (or a slice of it) passed to a call whose results can hold a slice.
func (t *fn) aliasReason(o types.Object) string {
	why := ""
	isO := func(e ast.Expr) bool {
		switch rr := ast.Unparen(e).(type) {
		case *ast.Ident:
			return t.pkg.info.ObjectOf(rr) == o
		case *ast.SliceExpr:
			if id, ok := ast.Unparen(rr.X).(*ast.Ident); ok && t.pkg.info.ObjectOf(id) == o {
				return true
			}
		}
		return false
	}
	ast.Inspect(t.decl.Body, func(m ast.Node) bool {
		if why != "" {
			return false
		}
		switch s := m.(type) {
		case *ast.AssignStmt:
			for _, r := range s.Rhs {
				if !isO(r) {
					continue
				}
				if _, isId := ast.Unparen(r).(*ast.Ident); isId && t.movedAway(s, o) {
					continue
				}
				why = t.text(s)
			}
		case *ast.ValueSpec:
			for _, r := range s.Values {
				if isO(r) {
					why = "var " + s.Names[0].Name + " = " + t.text(r)
				}
			}
		case *ast.CompositeLit:
			if t.mentions(s, o) {
				why = t.text(s)
			}
		case *ast.CallExpr:
			if tv, ok := t.pkg.info.Types[s.Fun]; ok && tv.IsType() {
				return true
			}
			if id, ok := ast.Unparen(s.Fun).(*ast.Ident); ok {
				if _, isB := t.pkg.info.ObjectOf(id).(*types.Builtin); isB {
					return true
				}
			}
			passed := false
			for _, a := range s.Args {
				if isO(a) {
					passed = true
				}
			}
			if !passed {
				return true
			}
			// a method that writes its receiver may store the argument in it (`b.vals = x`)
			if dep := t.recvMethodDep(s); dep != nil && dep.OK && dep.Sig != nil && dep.Sig.RecvOut {
				why = "the receiver-writing method called in " + t.text(s) + " may keep it"
			}
			if dep, _ := t.localMethodDep(s); dep != nil && dep.OK && dep.Sig != nil && dep.Sig.RecvOut {
				why = "the receiver-writing method called in " + t.text(s) + " may keep it"
			}
			if sig, ok := t.typeOf(s.Fun).Underlying().(*types.Signature); ok {
				for i := 0; i < sig.Results().Len(); i++ {
					rt, err := t.goType(sig.Results().At(i).Type())
					if err != nil || (rt.k == kList && !rt.str) || rt.k == kStruct {
						why = "the result of " + t.text(s) + " may alias it"
					}
				}
			}
		}
		return true
	})
	return why
}

// checkRecvFieldUnaliased: the slice field is never copied into another name in this function.
func (t *fn) checkRecvFieldUnaliased(f *ast.SelectorExpr) {
	name := f.Sel.Name
	bad := ""
	ast.Inspect(t.decl.Body, func(m ast.Node) bool {
		as, ok := m.(*ast.AssignStmt)
		if !ok {
			return true
		}
		for _, r := range as.Rhs {
			e := ast.Unparen(r)
			if se, ok := e.(*ast.SliceExpr); ok {
				e = ast.Unparen(se.X)
			}
			if s, ok := e.(*ast.SelectorExpr); ok && s.Sel.Name == name {
				if id, ok := ast.Unparen(s.X).(*ast.Ident); ok && t.pkg.info.ObjectOf(id) == t.recvObj {
					// `x := r.f` followed by writes is an alias — unless it is assigned straight back to the field
					if len(as.Lhs) == 1 {
						if ls, ok := ast.Unparen(as.Lhs[0]).(*ast.SelectorExpr); ok && ls.Sel.Name == name {
							continue
						}
					}
					bad = t.text(as)
				}
			}
		}
		return true
	})
	if bad != "" {
		t.reject(f, "the receiver field `%s` is written by index while `%s` makes another name refer to it (aliasing)", name, bad)
	}
}

func (t *fn) assign(x *ast.AssignStmt) []string {
	if l, ok := t.setStmt(x); ok {
		return l
	}
	// define: fresh objects get their names at this point
	if x.Tok != token.ASSIGN && x.Tok != token.DEFINE {
		// op=
		if len(x.Lhs) != 1 || len(x.Rhs) != 1 {
			t.reject(x, "malformed op-assignment")
		}
		opTok := map[token.Token]token.Token{
			token.ADD_ASSIGN: token.ADD, token.SUB_ASSIGN: token.SUB, token.MUL_ASSIGN: token.MUL, token.QUO_ASSIGN: token.QUO,
			token.REM_ASSIGN: token.REM, token.AND_ASSIGN: token.AND, token.OR_ASSIGN: token.OR, token.XOR_ASSIGN: token.XOR,
			token.SHL_ASSIGN: token.SHL, token.SHR_ASSIGN: token.SHR, token.AND_NOT_ASSIGN: token.AND_NOT,
		}[x.Tok]
		if ce, ok := ast.Unparen(x.Rhs[0]).(*ast.CallExpr); ok && t.isBuiltinCall(ce, "copy") {
			// `v += copy(dst, src)` (also -=) for a plain integer VARIABLE v: exactly `n := copy(dst, src); v = v + n`
			// — copy writes only elements of dst, never v, and the operands of copy read v before the store.
			id, isId := ast.Unparen(x.Lhs[0]).(*ast.Ident)
			if !isId || t.tyOf(x.Lhs[0]).k != kInt || (x.Tok != token.ADD_ASSIGN && x.Tok != token.SUB_ASSIGN) {
				t.reject(x, "`%s`: an op-assignment from copy(...) is translated only as `v += copy(…)`/`v -= copy(…)` for an int variable v", t.text(x))
			}
			v := t.copyCall(ce)
			op := " + "
			if x.Tok == token.SUB_ASSIGN {
				op = " - "
			}
			return t.assignTo(x.Lhs[0], "("+t.ex(id)+op+v+")")
		}
		be := &ast.BinaryExpr{X: x.Lhs[0], Op: opTok, Y: x.Rhs[0], OpPos: x.TokPos}
		// type information for the synthetic node: the type of the left operand
		t.pkg.info.Types[be] = types.TypeAndValue{Type: t.typeOf(x.Lhs[0])}
		v := t.binary(be)
		delete(t.pkg.info.Types, be)
		return t.assignTo(x.Lhs[0], v)
	}
	if len(x.Rhs) == 1 && len(x.Lhs) > 1 {
		ce, ok := ast.Unparen(x.Rhs[0]).(*ast.CallExpr)
		if !ok {
			t.reject(x, "multi-value assignment from `%s` (map index, type assertion, channel receive) is outside the subset", t.text(x.Rhs[0]))
		}
		vals := t.call(ce, len(x.Lhs))
		if len(vals) != len(x.Lhs) {
			t.reject(x, "assignment count mismatch")
		}
		var lines []string
		for i, l := range x.Lhs {
			lines = append(lines, t.assignTo(l, vals[i])...)
		}
		return lines
	}
	if len(x.Lhs) != len(x.Rhs) {
		t.reject(x, "assignment count mismatch")
	}
	if len(x.Lhs) == 1 {
		if lines, ok := t.capLocalAssign(x); ok {
			return lines
		}
		if ce, ok := ast.Unparen(x.Rhs[0]).(*ast.CallExpr); ok && t.isBuiltinCall(ce, "copy") {
			// `n := copy(dst, src)`: the copy first (it rebinds dst), then the count is stored
			v := t.copyCall(ce)
			return t.assignTo(x.Lhs[0], v)
		}
		if t.isNil(x.Rhs[0]) {
			return t.assignTo(x.Lhs[0], t.exAs(x.Rhs[0], t.tyOf(x.Lhs[0])))
		}
		v := t.ex(x.Rhs[0])
		return t.assignTo(x.Lhs[0], v)
	}
	// parallel assignment: evaluate every right-hand side first
	var lines []string
	var tmps []string
	for i, r := range x.Rhs {
		if t.isNil(r) {
			lt := t.tyOf(x.Lhs[i])
			n := t.fresh("p")
			lines = append(lines, fmt.Sprintf("let %s : %s := %s", n, lt.lean(), t.exAs(r, lt)))
			tmps = append(tmps, n)
			continue
		}
		v := t.ex(r)
		n := t.fresh("p")
		rt := t.tyOf(r)
		lines = append(lines, fmt.Sprintf("let %s : %s := %s", n, rt.lean(), v))
		tmps = append(tmps, n)
	}
	// flush preludes produced so far before the stores (index operands of the left sides are
	// evaluated by assignTo afterwards — Go evaluates them before; they are pure here)
	for i, l := range x.Lhs {
		lines = append(lines, t.assignTo(l, tmps[i])...)
	}
	return lines
}

func (t *fn) ifStmt(x *ast.IfStmt, c *ctx, k func() []string) []string {
	var out []string
	body := func() []string {
		return t.withPre(func() []string {
			cond := t.ex(x.Cond)
			var elseList []ast.Stmt
			if x.Else != nil {
				elseList = []ast.Stmt{x.Else}
			}
			if t.hasTerminator(x.Body.List) || t.hasTerminator(elseList) {
				lines := []string{"if " + cond + " then"}
				lines = append(lines, indent(t.block(x.Body.List, c, k))...)
				lines = append(lines, "else")
				lines = append(lines, indent(t.block(elseList, c, k))...)
				return lines
			}
			var nodes []ast.Node
			nodes = append(nodes, x.Body)
			if x.Else != nil {
				nodes = append(nodes, x.Else)
			}
			vars := t.assignedOuter(nodes...)
			var names []string
			for _, o := range vars {
				names = append(names, t.nameOf(o))
			}
			fin := func() []string { return []string{"pure " + tuple(names)} }
			lines := []string{fmt.Sprintf("let %s ← (", tuple(names))}
			inner := []string{"if " + cond + " then do"}
			inner = append(inner, indent(t.block(x.Body.List, c, fin))...)
			inner = append(inner, "else do")
			els := indent(t.block(elseList, c, fin))
			els[len(els)-1] += ")"
			inner = append(inner, els...)
			lines = append(lines, indent(inner)...)
			return append(lines, k()...)
		})
	}
	if x.Init != nil {
		out = t.stmt(x.Init, c, body)
	} else {
		out = body()
	}
	return out
}

func (t *fn) switchStmt(x *ast.SwitchStmt, c *ctx, k func() []string) []string {
	// switch = if-chain; `break` inside leaves the switch, fallthrough is rejected
	var tagName string
	var tagTy *ty
	run := func() []string {
		return t.withPre(func() []string {
			var lines []string
			if x.Tag != nil {
				tagTy = t.tyOf(x.Tag)
				v := t.ex(x.Tag)
				tagName = t.fresh("tag")
				lines = append(lines, fmt.Sprintf("let %s : %s := %s", tagName, tagTy.lean(), v))
			}
			var clauses []*ast.CaseClause
			var def *ast.CaseClause
			for _, s := range x.Body.List {
				cc := s.(*ast.CaseClause)
				for _, b := range cc.Body {
					if br, ok := b.(*ast.BranchStmt); ok && br.Tok == token.FALLTHROUGH {
						t.reject(br, "fallthrough is outside the subset")
					}
				}
				if cc.List == nil {
					def = cc
				} else {
					clauses = append(clauses, cc)
				}
			}
			// every clause continues with k (duplicated): a switch is a chain of terminal ifs
			c2 := &ctx{ret: c.ret, retFull: c.retFull, brk: k, cont: c.cont}
			var chain func(i int) []string
			chain = func(i int) []string {
				if i == len(clauses) {
					if def != nil {
						return t.block(def.Body, c2, k)
					}
					return k()
				}
				cc := clauses[i]
				return t.withPre(func() []string {
					// Go spec, "Expression switches": the case expressions are evaluated left-to-right and
					// top-to-bottom; the first one that matches selects its clause and the remaining ones are
					// not evaluated.  A clause `case e1, e2:` is therefore `e1 || e2` with short-circuit: the
					// bindings (index checks, calls) of e2 are made only when e1 did not match.
					var conds []string
					var subs [][]string
					anySub := false
					for ci, e := range cc.List {
						var sub []string
						save := t.pre
						t.pre = &sub
						if ci > 0 {
							t.condDepth++
						}
						v := t.ex(e)
						if ci > 0 {
							t.condDepth--
						}
						t.pre = save
						if x.Tag != nil {
							v = "(" + tagName + " == " + v + ")"
						}
						if len(sub) > 0 {
							anySub = true
						}
						subs = append(subs, sub)
						conds = append(conds, v)
					}
					cond := strings.Join(conds, " || ")
					if len(conds) > 1 {
						cond = "(" + cond + ")"
					}
					if anySub && len(conds) == 1 {
						// evaluated like the condition of an if/else-if chain: the bindings go in front of
						// this clause's `if`, inside the else branch of the previous clause
						for _, l := range subs[0] {
							t.emit(l)
						}
					} else if anySub {
						last := len(conds) - 1
						term, pre := conds[last], subs[last]
						for i := last - 1; i >= 0; i-- {
							if len(pre) == 0 {
								term, pre = "("+conds[i]+" || "+term+")", subs[i]
								continue
							}
							n := t.fresh("c")
							np := append([]string{}, subs[i]...)
							np = append(np, fmt.Sprintf("let %s ← (if (!%s) then (do", n, conds[i]))
							for _, l := range pre {
								np = append(np, "    "+l)
							}
							np = append(np, fmt.Sprintf("    pure %s) else pure true)", term))
							term, pre = n, np
						}
						for _, l := range pre {
							t.emit(l)
						}
						cond = term
					}
					ls := []string{"if " + cond + " then"}
					ls = append(ls, indent(t.block(cc.Body, c2, k))...)
					ls = append(ls, "else")
					ls = append(ls, indent(chain(i+1))...)
					return ls
				})
			}
			return append(lines, chain(0)...)
		})
	}
	if x.Init != nil {
		return t.stmt(x.Init, c, run)
	}
	return run()
}

func containsReturn(n ast.Node) bool {
	found := false
	ast.Inspect(n, func(m ast.Node) bool {
		switch m.(type) {
		case *ast.FuncLit:
			return false
		case *ast.ReturnStmt:
			found = true
		}
		return !found
	})
	return found
}

func (t *fn) fuelFor(n ast.Node) string {
	fs := []string(nil)
	if t.tgt != nil {
		fs = t.tgt.fuels()
	}
	if len(fs) == 0 {
		t.reject(n, "loop without a fuel bound (give \"fuel\" in tools/trans_targets.json)")
	}
	if len(fs) == 1 {
		return fs[0]
	}
	if t.loopN-1 < len(fs) {
		return fs[t.loopN-1]
	}
	t.reject(n, "no fuel bound for loop %d", t.loopN)
	return ""
}

// loop builds the fuel-recursive definition of one loop.
//   pre-body: condLines produce (cond term) evaluated at the top of every iteration;
//   body statements, then post.
func (t *fn) loop(node ast.Node, cond ast.Expr, bodyHead func(c *ctx, k func() []string) []string, body *ast.BlockStmt, post ast.Stmt,
	extraState []types.Object, c *ctx, k func() []string) []string {
	t.loopN++
	myN := t.loopN
	lname := fmt.Sprintf("%s_loop%d", t.lname, myN)
	ldef := lname
	lname += t.extFuncArgs() // extern function parameters are passed on to the loop (before the fuel)
	fuel := t.fuelFor(node)
	// state: assigned in body/post and declared outside the body
	var nodes []ast.Node
	nodes = append(nodes, body)
	if post != nil {
		nodes = append(nodes, post)
	}
	state := t.assignedOuter(nodes...)
	if cond != nil {
		// a state-passing call in the loop condition (`for r.Push(x) {`) writes its variable in every iteration
		have := map[types.Object]bool{}
		for _, o := range state {
			have[o] = true
		}
		for _, o := range t.assignedOuter(cond) {
			if !have[o] {
				state = append(state, o)
			}
		}
	}
	inState := map[types.Object]bool{}
	for _, o := range state {
		inState[o] = true
	}
	for _, o := range extraState {
		if !inState[o] {
			state = append(state, o)
			inState[o] = true
		}
	}
	sort.Slice(state, func(i, j int) bool { return state[i].Pos() < state[j].Pos() })
	for _, o := range state {
		if _, known := t.names[o]; !known {
			t.reject(node, "loop assigns `%s`, which is not a local of the translation", o.Name())
		}
	}
	var unodes []ast.Node
	unodes = append(unodes, body)
	if cond != nil {
		unodes = append(unodes, cond)
	}
	if post != nil {
		unodes = append(unodes, post)
	}
	var caps []types.Object
	for _, o := range t.usedOuter(body.Pos(), body.End(), unodes...) {
		if !inState[o] {
			caps = append(caps, o)
		}
	}
	hasRet := containsReturn(body)
	var stNames, stTys, capNames []string
	var stT []*ty
	for _, o := range state {
		stNames = append(stNames, t.nameOf(o))
		stT = append(stT, t.varTy(o))
		stTys = append(stTys, t.varTy(o).lean())
	}
	_ = stTys
	sigma := tupleTy(stT)
	rho := t.fullResTy()
	resT := sigma
	done := func(v string) string { return ".ok " + parenIf(v) }
	if hasRet {
		resT = "GoSem.Flow (" + rho + ") (" + sigma + ")"
		done = func(v string) string { return ".ok (.done " + parenIf(v) + ")" }
	}
	var params []string
	for _, o := range caps {
		capNames = append(capNames, t.nameOf(o))
		params = append(params, fmt.Sprintf("(%s : %s)", t.nameOf(o), t.varTy(o).lean()))
	}
	for i, o := range state {
		params = append(params, fmt.Sprintf("(%s : %s)", t.nameOf(o), stT[i].lean()))
	}
	recurse := func() []string {
		return []string{strings.TrimSpace(lname + " fuel " + strings.Join(append(append([]string{}, capNames...), stNames...), " "))}
	}
	exit := func() []string { return []string{done(tuple(stNames))} }
	// a `return` inside the loop hands the COMPLETE result up (results, then the current values of
	// the in-out parameters and of the receiver): they may have been written in this iteration
	lc := &ctx{
		ret: func(v string) []string {
			if !hasRet {
				return []string{".panic"} // unreachable: hasRet covers every return
			}
			return []string{".ok (.ret " + parenIf(t.buildFull(v)) + ")"}
		},
		retFull: func(f string) []string { return []string{".ok (.ret " + parenIf(f) + ")"} },
		brk:     exit,
	}
	next := func() []string {
		if post != nil {
			return t.stmt(post, &ctx{ret: lc.ret, retFull: lc.retFull}, recurse)
		}
		return recurse()
	}
	lc.cont = next
	t.loopDepth++
	iter := t.withPre(func() []string {
		run := func() []string {
			if bodyHead != nil {
				return bodyHead(lc, func() []string { return t.block(body.List, lc, next) })
			}
			return t.block(body.List, lc, next)
		}
		if cond == nil {
			return run()
		}
		cs := t.ex(cond)
		lines := []string{"if " + cs + " then"}
		lines = append(lines, indent(run())...)
		lines = append(lines, "else")
		lines = append(lines, indent(exit())...)
		return lines
	})
	t.loopDepth--
	var def []string
	def = append(def, fmt.Sprintf("def %s%s (fuel : Nat) %s : Res (%s) :=", ldef, t.tbinder+t.extFuncBinders(), strings.Join(params, " "), resT))
	def = append(def, "  match fuel with", "  | 0 => .fuel", "  | fuel + 1 => do")
	def = append(def, indent(indent(iter))...)
	t.loopDefs = append(t.loopDefs, strings.Join(def, "\n"))
	// call site
	callArgs := strings.TrimSpace(strings.Join(append(append([]string{}, capNames...), stNames...), " "))
	if !hasRet {
		lines := []string{fmt.Sprintf("let %s ← %s (%s) %s", tuple(stNames), lname, fuel, callArgs)}
		return append(lines, k()...)
	}
	r := t.fresh("fl")
	v := t.fresh("rv")
	lines := []string{fmt.Sprintf("let %s ← %s (%s) %s", r, lname, fuel, callArgs), "match " + r + " with"}
	lines = append(lines, "| .ret "+v+" =>")
	lines = append(lines, indent(c.retFull(v))...)
	lines = append(lines, "| .done "+tuple(stNames)+" =>")
	lines = append(lines, indent(k())...)
	return lines
}

func (t *fn) forStmt(x *ast.ForStmt, c *ctx, k func() []string) []string {
	run := func() []string {
		return t.loop(x, x.Cond, nil, x.Body, x.Post, nil, c, k)
	}
	if x.Init != nil {
		return t.stmt(x.Init, c, run)
	}
	return run()
}

func (t *fn) rangeStmt(x *ast.RangeStmt, c *ctx, k func() []string) []string {
	// desugared into an index loop over a hidden counter; the range expression is evaluated once
	xt := t.typeOf(x.X)
	return t.withPre(func() []string {
		var lines []string
		idx := t.fresh("ri")
		strRange := false
		var limit string // Int term
		var elemOf func(i string) []string
		switch u := xt.Underlying().(type) {
		case *types.Basic:
			if u.Info()&types.IsInteger != 0 {
				rt := t.tyOf(x.X)
				if rt.k != kInt {
					t.reject(x, "range over a fixed-width integer is outside the subset")
				}
				n := t.fresh("rn")
				lines = append(lines, fmt.Sprintf("let %s : Int := %s", n, t.ex(x.X)))
				limit = n
				if x.Value != nil {
					t.reject(x, "range over an integer with two variables")
				}
			} else if u.Info()&types.IsString != 0 {
				// `for i, v := range s`: a range over the list of (byte offset, rune) pairs that the Utf8
				// prelude decodes from s (evaluated once; strings are immutable)
				strRange = true
				sv := t.fresh("rs")
				lines = append(lines, fmt.Sprintf("let %s : %s := GoSem.strRange %s", sv, strRangeTy, t.ex(x.X)))
				limit = "(Int.ofNat " + sv + ".length)"
				elemOf = func(i string) []string {
					return []string{fmt.Sprintf("GoSem.idx %s %s", sv, i)}
				}
			} else {
				t.reject(x, "range over %s is outside the subset", xt)
			}
		case *types.Slice:
			st := t.tyOf(x.X)
			sv := t.fresh("rs")
			lines = append(lines, fmt.Sprintf("let %s : %s := %s", sv, st.lean(), t.ex(x.X)))
			limit = "(Int.ofNat " + sv + ".length)"
			// the body must not write the ranged slice through another name: the copy `sv` is what Go iterates
			// over for length, but element reads see writes made in the body; reject writes to it
			if id, ok := ast.Unparen(x.X).(*ast.Ident); ok {
				o := t.pkg.info.ObjectOf(id)
				for _, a := range t.assignedOuter(x.Body) {
					if a == o && !t.rangeNoValue(x) && !t.onlyCurrentIndexWrites(x, o) {
						t.reject(x, "the ranged slice `%s` is assigned in the loop body (other than `%s[<range index>] = …`): outside the subset", id.Name, id.Name)
					}
				}
			} else if _, ok := ast.Unparen(x.X).(*ast.SelectorExpr); ok {
				if t.recvOut || len(t.assignedOuter(x.Body)) > 0 {
					for _, a := range t.assignedOuter(x.Body) {
						if a == t.recvObj {
							t.reject(x, "the receiver is assigned while one of its fields is ranged over: outside the subset")
						}
					}
				}
			}
			elemOf = func(i string) []string {
				return []string{fmt.Sprintf("GoSem.idx %s %s", sv, i)}
			}
		case *types.Array:
			// `for i := range g` over a package-level array of the option "globals": the array is not
			// evaluated (no value variable), the bound is its constant length
			if t.globalTyOf(x.X) == nil || x.Value != nil {
				t.reject(x, "range over %s is outside the subset (maps, channels, arrays, functions)", xt)
			}
			limit = fmt.Sprintf("(%d : Int)", u.Len())
		default:
			t.reject(x, "range over %s is outside the subset (maps, channels, arrays, functions)", xt)
		}
		// hidden counter as a synthetic variable
		cnt := types.NewVar(x.Pos(), t.pkg.types, idx, types.Typ[types.Int])
		t.names[cnt] = idx
		lines = append(lines, fmt.Sprintf("let %s : Int := 0", idx))
		define := x.Tok == token.DEFINE
		head := func(lc *ctx, body func() []string) []string {
			var hl []string
			if strRange {
				return append(t.strRangeHead(x, elemOf(idx)[0]), body()...)
			}
			if x.Key != nil {
				if id, ok := x.Key.(*ast.Ident); !ok || id.Name != "_" {
					if define {
						o := t.pkg.info.Defs[x.Key.(*ast.Ident)]
						hl = append(hl, fmt.Sprintf("let %s : Int := %s", t.nameOf(o), idx))
					} else {
						hl = append(hl, t.assignTo(x.Key, idx)...)
					}
				}
			}
			if x.Value != nil {
				if id, ok := x.Value.(*ast.Ident); !ok || id.Name != "_" {
					ev := t.fresh("rv")
					hl = append(hl, fmt.Sprintf("let %s ← %s", ev, elemOf(idx)[0]))
					if define {
						o := t.pkg.info.Defs[x.Value.(*ast.Ident)]
						hl = append(hl, fmt.Sprintf("let %s : %s := %s", t.nameOf(o), t.varTy(o).lean(), ev))
					} else {
						hl = append(hl, t.assignTo(x.Value, ev)...)
					}
				}
			}
			return append(hl, body()...)
		}
		// synthetic condition and post on the hidden counter
		t.loopN++
		t.loopN--
		return append(lines, t.rangeLoop(x, idx, cnt, limit, head, c, k)...)
	})
}

// rangeLoop is loop() specialised to the hidden counter (condition `idx < limit`, post `idx+1`).
func (t *fn) rangeLoop(x *ast.RangeStmt, idx string, cnt *types.Var, limit string,
	head func(lc *ctx, body func() []string) []string, c *ctx, k func() []string) []string {
	t.loopN++
	lname := fmt.Sprintf("%s_loop%d", t.lname, t.loopN)
	ldef := lname
	lname += t.extFuncArgs()
	fuel := t.fuelFor(x)
	state := t.assignedOuter(x.Body)
	if x.Tok == token.ASSIGN {
		// `for i = range …` assigns outer variables
		state = t.assignedOuter(x)
	}
	inState := map[types.Object]bool{}
	for _, o := range state {
		inState[o] = true
		if _, known := t.names[o]; !known {
			t.reject(x, "loop assigns `%s`, which is not a local of the translation", o.Name())
		}
	}
	var caps []types.Object
	for _, o := range t.usedOuter(x.Body.Pos(), x.Body.End(), x.Body) {
		if !inState[o] {
			caps = append(caps, o)
		}
	}
	hasRet := containsReturn(x.Body)
	var stNames, capNames, params []string
	var stT []*ty
	// the limit / ranged value are captured by name
	extraCaps := []string{}
	for _, w := range strings.FieldsFunc(limit, func(r rune) bool { return r == '(' || r == ')' || r == ' ' || r == '.' }) {
		if strings.HasPrefix(w, "rn") || strings.HasPrefix(w, "rs") {
			extraCaps = append(extraCaps, w)
		}
	}
	for _, w := range extraCaps {
		ty := "Int"
		if strings.HasPrefix(w, "rs") {
			ty = t.tyOf(x.X).lean()
			if xt := t.tyOf(x.X); xt.k == kList && xt.str {
				ty = strRangeTy
			}
		}
		params = append(params, fmt.Sprintf("(%s : %s)", w, ty))
		capNames = append(capNames, w)
	}
	for _, o := range caps {
		capNames = append(capNames, t.nameOf(o))
		params = append(params, fmt.Sprintf("(%s : %s)", t.nameOf(o), t.varTy(o).lean()))
	}
	params = append(params, fmt.Sprintf("(%s : Int)", idx))
	stNames = append(stNames, idx)
	stT = append(stT, &ty{k: kInt})
	for _, o := range state {
		stNames = append(stNames, t.nameOf(o))
		stT = append(stT, t.varTy(o))
		params = append(params, fmt.Sprintf("(%s : %s)", t.nameOf(o), t.varTy(o).lean()))
	}
	// after the loop only the real state matters
	outNames := stNames[1:]
	outT := stT[1:]
	sigma := tupleTy(outT)
	rho := t.fullResTy()
	resT := sigma
	done := func(v string) string { return ".ok " + parenIf(v) }
	if hasRet {
		resT = "GoSem.Flow (" + rho + ") (" + sigma + ")"
		done = func(v string) string { return ".ok (.done " + parenIf(v) + ")" }
	}
	exit := func() []string { return []string{done(tuple(outNames))} }
	lc := &ctx{
		ret:     func(v string) []string { return []string{".ok (.ret " + parenIf(t.buildFull(v)) + ")"} },
		retFull: func(f string) []string { return []string{".ok (.ret " + parenIf(f) + ")"} },
		brk:     exit,
	}
	next := func() []string {
		args := append(append([]string{}, capNames...), "("+idx+" + 1)")
		args = append(args, outNames...)
		return []string{lname + " fuel " + strings.Join(args, " ")}
	}
	lc.cont = next
	t.loopDepth++
	iter := t.withPre(func() []string {
		lines := []string{"if (decide (" + idx + " < " + limit + ")) then"}
		lines = append(lines, indent(head(lc, func() []string { return t.block(x.Body.List, lc, next) }))...)
		lines = append(lines, "else")
		lines = append(lines, indent(exit())...)
		return lines
	})
	t.loopDepth--
	var def []string
	def = append(def, fmt.Sprintf("def %s%s (fuel : Nat) %s : Res (%s) :=", ldef, t.tbinder+t.extFuncBinders(), strings.Join(params, " "), resT))
	def = append(def, "  match fuel with", "  | 0 => .fuel", "  | fuel + 1 => do")
	def = append(def, indent(indent(iter))...)
	t.loopDefs = append(t.loopDefs, strings.Join(def, "\n"))
	callArgs := strings.Join(append(append([]string{}, capNames...), stNames...), " ")
	if !hasRet {
		lines := []string{fmt.Sprintf("let %s ← %s (%s) %s", tuple(outNames), lname, fuel, callArgs)}
		return append(lines, k()...)
	}
	r := t.fresh("fl")
	v := t.fresh("rv")
	lines := []string{fmt.Sprintf("let %s ← %s (%s) %s", r, lname, fuel, callArgs), "match " + r + " with"}
	lines = append(lines, "| .ret "+v+" =>")
	lines = append(lines, indent(c.retFull(v))...)
	lines = append(lines, "| .done "+tuple(outNames)+" =>")
	lines = append(lines, indent(k())...)
	return lines
}

// ---------------------------------------------------------------- copy, ownership moves

func (t *fn) isBuiltinCall(ce *ast.CallExpr, name string) bool {
	if name == "copy" && t.isEncodeRune(ce) {
		return true // utf8.EncodeRune(dst[a:], r) writes its first argument like copy: same statement forms, same checks
	}
	id, ok := ast.Unparen(ce.Fun).(*ast.Ident)
	if !ok || id.Name != name {
		return false
	}
	_, isB := t.pkg.info.ObjectOf(id).(*types.Builtin)
	return isB
}

// copyCall translates `copy(dst, src)`; the returned term is the number of elements copied.
//
// Evaluation order implemented (Go spec, "Order of evaluation" + "Appending to and copying
// slices"): the operands of dst (its index expressions, then the bounds check of `dst[a:b]` when
// src contains a call), then src, then the copy itself, which behaves like memmove: src is read as
// it was before the call (in the list model src is a value, so this holds by construction, also for
// `copy(x[1:], x)`).  The spec leaves the order of a slice-bounds panic relative to function calls
// in LATER operands open; both orders end in a non-ok outcome here.
// dst must be writable without aliasing: a local created in this function, an in-out parameter
// or a field of the receiver — or a slice expression `w[a:b]` / `w[a:]` / `w[:b]` of one of those
// (write-through into w; len w is unchanged).
func (t *fn) copyCall(x *ast.CallExpr) string {
	if len(x.Args) != 2 || x.Ellipsis != token.NoPos {
		t.reject(x, "malformed copy")
	}
	if t.isEncodeRune(x) {
		return t.encodeRuneCall(x)
	}
	dt := t.tyOf(x.Args[0])
	st := t.tyOf(x.Args[1])
	if dt.k != kList || dt.str || st.k != kList || !sameTy(dt.elem, st.elem) {
		t.reject(x, "copy(%s, %s): operand types outside the subset", t.text(x.Args[0]), t.text(x.Args[1]))
	}
	dst := ast.Unparen(x.Args[0])
	var window *ast.SliceExpr
	base := dst
	if se, ok := dst.(*ast.SliceExpr); ok {
		if se.Slice3 {
			t.reject(x, "3-index slice expression is outside the subset (capacity is not modelled)")
		}
		window = se
		base = ast.Unparen(se.X)
	}
	switch base.(type) {
	case *ast.Ident, *ast.SelectorExpr:
	default:
		t.reject(x, "copy into `%s`: the destination must be a variable, a receiver field or a slice expression of one", t.text(dst))
	}
	t.checkWritable(base)
	cur := t.arg(base)
	cp := ""
	if window == nil {
		src := t.arg(x.Args[1])
		cp = t.fresh("cp")
		t.emit(fmt.Sprintf("let %s := GoSem.copySlice %s %s", cp, cur, src))
	} else {
		toInt := func(e ast.Expr) string {
			i, isInt := t.indexTerm(e)
			if isInt {
				return parenIf(i)
			}
			return "(Int.ofNat " + i + ")"
		}
		lo := "0"
		if window.Low != nil {
			lo = toInt(window.Low)
		}
		hi := "(Int.ofNat " + cur + ".length)"
		if window.High != nil {
			hi = toInt(window.High)
		}
		hasCall := false
		ast.Inspect(x.Args[1], func(m ast.Node) bool {
			if ce, ok := m.(*ast.CallExpr); ok {
				if tv, ok := t.pkg.info.Types[ce.Fun]; !(ok && tv.IsType()) {
					if id, ok := ast.Unparen(ce.Fun).(*ast.Ident); ok {
						if _, isB := t.pkg.info.ObjectOf(id).(*types.Builtin); isB {
							return true
						}
					}
					hasCall = true
				}
			}
			return true
		})
		if hasCall {
			t.emit(fmt.Sprintf("let _ ← GoSem.slice %s %s %s", cur, lo, hi))
		}
		src := t.arg(x.Args[1])
		cp = t.fresh("cp")
		t.emit(fmt.Sprintf("let %s ← GoSem.copyAt %s %s %s %s", cp, cur, lo, hi, src))
	}
	for _, l := range t.assignTo(base, cp+".1") {
		t.emit(l)
	}
	t.noteInt(x)
	return cp + ".2"
}

// parentMap: child -> parent for the nodes of the function body.
func (t *fn) parentMap() map[ast.Node]ast.Node {
	if t.parents != nil {
		return t.parents
	}
	t.parents = map[ast.Node]ast.Node{}
	var stack []ast.Node
	ast.Inspect(t.decl.Body, func(n ast.Node) bool {
		if n == nil {
			stack = stack[:len(stack)-1]
			return true
		}
		if len(stack) > 0 {
			t.parents[n] = stack[len(stack)-1]
		}
		stack = append(stack, n)
		return true
	})
	return t.parents
}

func (t *fn) mentions(n ast.Node, o types.Object) bool {
	found := false
	ast.Inspect(n, func(m ast.Node) bool {
		if id, ok := m.(*ast.Ident); ok && t.pkg.info.ObjectOf(id) == o {
			found = true
		}
		return !found
	})
	return found
}

// movedAway: the statement `r.f = o` (r the receiver) hands the local slice o over to the receiver
// field: it is not an alias when o is dead afterwards — no statement that can run after the
// assignment mentions o.  Checked syntactically: walking outwards from the assignment, the rest of
// every enclosing statement list must not mention o; the walk stops at a list that ends in a
// `return`/`panic(...)` and contains no break/continue/goto after the assignment; crossing a loop
// rejects (the next iteration could use o again).
func (t *fn) movedAway(as *ast.AssignStmt, o types.Object) bool {
	if len(as.Lhs) != 1 || len(as.Rhs) != 1 || as.Tok != token.ASSIGN {
		return false
	}
	ls, ok := ast.Unparen(as.Lhs[0]).(*ast.SelectorExpr)
	if !ok || t.recvObj == nil || t.recvTy == nil {
		return false
	}
	if id, ok := ast.Unparen(ls.X).(*ast.Ident); !ok || t.pkg.info.ObjectOf(id) != t.recvObj {
		return false
	}
	par := t.parentMap()
	var cur ast.Node = as
	for {
		p := par[cur]
		if p == nil {
			return false
		}
		var list []ast.Stmt
		switch b := p.(type) {
		case *ast.BlockStmt:
			list = b.List
		case *ast.CaseClause:
			list = b.Body
		case *ast.ForStmt, *ast.RangeStmt, *ast.FuncLit, *ast.SelectStmt, *ast.CommClause, *ast.LabeledStmt:
			return false
		default:
			cur = p
			continue
		}
		idx := -1
		for i, st := range list {
			if st == cur {
				idx = i
			}
		}
		if idx < 0 {
			return false
		}
		rest := list[idx+1:]
		jumps := false
		for _, st := range rest {
			if t.mentions(st, o) {
				return false
			}
			ast.Inspect(st, func(m ast.Node) bool {
				if _, ok := m.(*ast.BranchStmt); ok {
					jumps = true
				}
				return true
			})
		}
		if len(rest) > 0 && !jumps {
			last := rest[len(rest)-1]
			if _, isRet := last.(*ast.ReturnStmt); isRet || isPanicCall(t.pkg.info, last) {
				return true
			}
		}
		if p == ast.Node(t.decl.Body) {
			return true // end of the function
		}
		cur = p
	}
}

// writtenArgs: the arguments of a call that the callee writes (in-out slice arguments).
func (t *fn) writtenArgs(ce *ast.CallExpr) []ast.Expr {
	fun := ast.Unparen(ce.Fun)
	if ix, ok := fun.(*ast.IndexExpr); ok {
		fun = ast.Unparen(ix.X)
	}
	id, ok := fun.(*ast.Ident)
	if !ok {
		return nil
	}
	switch o := t.pkg.info.ObjectOf(id).(type) {
	case *types.Var:
		if ft := t.funcPar[o]; ft != nil && ft.fnMut && len(ce.Args) > 0 {
			return []ast.Expr{ce.Args[0]}
		}
	case *types.Func:
		if o.Pkg() == nil || o.Type().(*types.Signature).Recv() != nil {
			return nil
		}
		if !(o.Pkg().Path() == t.g.l.modPath || strings.HasPrefix(o.Pkg().Path(), t.g.l.modPath+"/")) {
			return nil
		}
		dir := strings.TrimPrefix(strings.TrimPrefix(o.Pkg().Path(), t.g.l.modPath), "/")
		if dir == "" {
			dir = "."
		}
		dep := t.g.translate(dir, o.Name(), false)
		if dep == nil || !dep.OK || dep.Sig == nil {
			return nil
		}
		var out []ast.Expr
		for _, ix := range dep.Sig.InOut {
			if ix < len(ce.Args) {
				out = append(out, ce.Args[ix])
			}
		}
		return out
	}
	return nil
}

// outNames: the current names of what the function returns after its results.
func (t *fn) outNames() []string {
	var outs []string
	for _, o := range t.inout {
		outs = append(outs, t.names[o])
	}
	if t.recvOut {
		outs = append(outs, t.names[t.recvObj])
	}
	return outs
}

// buildFull: the complete return value for the tupled results v.
func (t *fn) buildFull(v string) string {
	outs := t.outNames()
	if len(outs) == 0 {
		return v
	}
	if len(t.resTy) == 0 {
		return tuple(outs)
	}
	return "(" + v + ", " + strings.Join(outs, ", ") + ")"
}

// fullResTy: the Lean type of the complete return value: `(A × B) × Out1 × … × Recv`.
func (t *fn) fullResTy() string {
	resStr := tupleTy(t.resTy)
	var outs []string
	for _, o := range t.inout {
		outs = append(outs, t.varTy(o).lean())
	}
	if t.recvOut {
		outs = append(outs, t.recvTy.lean())
	}
	if len(outs) == 0 {
		return resStr
	}
	if len(t.resTy) == 0 {
		return strings.Join(outs, " × ")
	}
	if len(t.resTy) > 1 {
		resStr = "(" + resStr + ")"
	}
	return resStr + " × " + strings.Join(outs, " × ")
}

// findInOut decides up front which slice parameters are WRITTEN (element assignment, copy
// destination, handed to a callee/callback that writes it): they become in-out parameters.
func (t *fn) findInOut(sig *types.Signature) {
	t.inoutSet = map[types.Object]bool{}
	for i := 0; i < sig.Params().Len(); i++ {
		p := sig.Params().At(i)
		if _, ok := p.Type().Underlying().(*types.Slice); !ok {
			continue
		}
		if _, known := t.names[p]; !known {
			continue
		}
		written, reassigned := false, ""
		isP := func(e ast.Expr) bool {
			id, ok := ast.Unparen(e).(*ast.Ident)
			return ok && t.pkg.info.ObjectOf(id) == types.Object(p)
		}
		lhs := func(e ast.Expr, n ast.Node) {
			if isP(e) {
				reassigned = t.text(n)
				return
			}
			for {
				switch x := ast.Unparen(e).(type) {
				case *ast.IndexExpr:
					if isP(x.X) {
						written = true
					}
					e = x.X
					continue
				}
				return
			}
		}
		ast.Inspect(t.decl.Body, func(m ast.Node) bool {
			switch s := m.(type) {
			case *ast.AssignStmt:
				if s.Tok == token.DEFINE {
					// a redeclaration in an inner scope is another object
				}
				for _, l := range s.Lhs {
					lhs(l, s)
				}
			case *ast.IncDecStmt:
				lhs(s.X, s)
			case *ast.RangeStmt:
				if s.Tok == token.ASSIGN {
					if s.Key != nil {
						lhs(s.Key, s)
					}
					if s.Value != nil {
						lhs(s.Value, s)
					}
				}
			case *ast.CallExpr:
				if t.isBuiltinCall(s, "copy") && len(s.Args) > 0 {
					d := ast.Unparen(s.Args[0])
					if se, ok := d.(*ast.SliceExpr); ok {
						d = se.X
					}
					if isP(d) {
						written = true
					}
				}
				for _, a := range t.writtenArgs(s) {
					if isP(a) {
						written = true
					}
				}
			}
			return true
		})
		if !written {
			continue
		}
		if reassigned != "" {
			t.reject(t.decl, "the slice parameter `%s` is written and also reassigned (`%s`): outside the subset (the caller sees the writes to the elements only)", p.Name(), reassigned)
		}
		if why := t.aliasReason(p); why != "" {
			t.reject(t.decl, "the slice parameter `%s` is written while `%s` makes another name refer to its backing array (aliasing)", p.Name(), why)
		}
		// no result may alias it
		ast.Inspect(t.decl.Body, func(m ast.Node) bool {
			if _, ok := m.(*ast.FuncLit); ok {
				return false
			}
			rs, ok := m.(*ast.ReturnStmt)
			if !ok {
				return true
			}
			for _, r := range rs.Results {
				rt, err := t.goType(t.typeOf(r))
				if t.mentions(r, p) && (err != nil || (rt.k == kList && !rt.str) || rt.k == kStruct) {
					if t.tgt != nil && t.tgt.ResultViews && err == nil && rt.k == kList && !rt.str && t.plainViewOf(r, p) && t.returnHasNoCall(rs) {
						t.noteAliasedResult(rs, p)
						continue
					}
					t.reject(rs, "`%s` returns a value that may alias the written slice parameter `%s`: outside the subset", t.text(rs), p.Name())
				}
			}
			return true
		})
		t.inout = append(t.inout, p)
		t.inoutSet[p] = true
	}
}


// onlyCurrentIndexWrites: in `for i, v := range a { … }` every write to `a` in the body is an
// element assignment `a[i] = …` / `a[i] op= …` / `a[i]++` at the CURRENT range index i, and i is
// not assigned in the body.  Then the element variable may be read from the snapshot of `a` taken
// before the loop: Go reads a[k] at the start of iteration k from the live array, but at that
// moment only elements with an index < k have been written (Go spec, "For statements with range
// clause": the range expression is evaluated once, its length is fixed, elements are read per
// iteration).  Other reads of `a` in the body go through the threaded variable and see the writes.
func (t *fn) onlyCurrentIndexWrites(x *ast.RangeStmt, o types.Object) bool {
	if x.Tok != token.DEFINE || x.Key == nil {
		return false
	}
	kid, ok := x.Key.(*ast.Ident)
	if !ok || kid.Name == "_" {
		return false
	}
	key := t.pkg.info.Defs[kid]
	if key == nil {
		return false
	}
	for _, a := range t.assignedOuter(x.Body) {
		if a == key {
			return false
		}
	}
	okAll := true
	isO := func(e ast.Expr) bool {
		id, ok := ast.Unparen(e).(*ast.Ident)
		return ok && t.pkg.info.ObjectOf(id) == o
	}
	// base variable of a place expression
	var baseIs func(e ast.Expr) bool
	baseIs = func(e ast.Expr) bool {
		switch v := ast.Unparen(e).(type) {
		case *ast.Ident:
			return t.pkg.info.ObjectOf(v) == o
		case *ast.IndexExpr:
			return baseIs(v.X)
		case *ast.SliceExpr:
			return baseIs(v.X)
		case *ast.SelectorExpr:
			return baseIs(v.X)
		}
		return false
	}
	lhs := func(e ast.Expr) {
		if !baseIs(e) {
			return
		}
		ie, ok := ast.Unparen(e).(*ast.IndexExpr)
		if !ok || !isO(ie.X) {
			okAll = false
			return
		}
		iid, ok := ast.Unparen(ie.Index).(*ast.Ident)
		if !ok || t.pkg.info.ObjectOf(iid) != key {
			okAll = false
		}
	}
	ast.Inspect(x.Body, func(m ast.Node) bool {
		switch s := m.(type) {
		case *ast.FuncLit:
			okAll = false
		case *ast.AssignStmt:
			for _, l := range s.Lhs {
				lhs(l)
			}
		case *ast.IncDecStmt:
			lhs(s.X)
		case *ast.RangeStmt:
			if s.Tok == token.ASSIGN {
				if s.Key != nil {
					lhs(s.Key)
				}
				if s.Value != nil {
					lhs(s.Value)
				}
			}
		case *ast.CallExpr:
			if t.isBuiltinCall(s, "copy") && len(s.Args) > 0 && baseIs(s.Args[0]) {
				okAll = false
			}
			for _, a := range t.writtenArgs(s) {
				if baseIs(a) {
					okAll = false
				}
			}
		}
		return true
	})
	return okAll
}

// callbackCall: a call of a callback parameter.  Arguments are evaluated left to right (Go spec,
// "Order of evaluation"), then the callback runs.
//   pure callback:      `cmp(a, b)`     ↦ the term `(cmp a b)` (no panic, no effect: ASSUMPTION in the header)
//   mutating callback:  `swap(s, i, j)` ↦ `let s ← swap s i j`, only as a statement; s must be a plain
//                       variable that nobody else refers to (in-out parameter or local created here)
//                       and must not occur in the other arguments.
func (t *fn) callbackCall(x *ast.CallExpr, v *types.Var, ft *ty, want int) []string {
	if len(x.Args) != len(ft.fnArgs) {
		t.reject(x, "call of the callback `%s` with a multi-value argument is outside the subset", v.Name())
	}
	name := t.names[v]
	if !ft.fnMut {
		args := []string{name}
		for _, a := range x.Args {
			args = append(args, t.arg(a))
		}
		return []string{"(" + strings.Join(args, " ") + ")"}
	}
	if want != 0 {
		t.reject(x, "internal: mutating callback in expression position")
	}
	id, ok := ast.Unparen(x.Args[0]).(*ast.Ident)
	if !ok {
		t.reject(x, "`%s`: the slice handed to the callback `%s` must be a plain variable", t.text(x.Args[0]), v.Name())
	}
	o := t.pkg.info.ObjectOf(id)
	if !t.inoutSet[o] && !t.freshLocal(o) {
		t.reject(x, "the slice `%s` handed to the callback `%s` is neither an in-out parameter nor a local created by make/append/literal here (it may alias another slice)", id.Name, v.Name())
	}
	for _, a := range x.Args[1:] {
		if t.mentions(a, o) {
			t.reject(x, "the slice `%s` handed to the callback `%s` occurs in another argument too", id.Name, v.Name())
		}
	}
	args := []string{name, t.nameOf(o)}
	for _, a := range x.Args[1:] {
		args = append(args, t.arg(a))
	}
	t.emit(fmt.Sprintf("let %s ← %s", t.nameOf(o), strings.Join(args, " ")))
	return []string{"()"}
}

// ---------------------------------------------------------------- error values (GoSem.Err)

func (t *fn) isNil(e ast.Expr) bool {
	id, ok := ast.Unparen(e).(*ast.Ident)
	if !ok {
		return false
	}
	_, isNil := t.pkg.info.ObjectOf(id).(*types.Nil)
	return isNil
}

// exAs: e where a value of type want is expected (`nil` has no type of its own).
func (t *fn) exAs(e ast.Expr, want *ty) string {
	if t.isNil(e) && want != nil && want.k == kList && !want.str {
		return t.nilSlice(e, want)
	}
	if t.isNil(e) {
		if want != nil && want.k == kErr {
			return "GoSem.Err.nil"
		}
		if want != nil && want.k == kOptFn {
			return "(none : " + want.lean() + ")"
		}
		t.reject(e, "`nil` is in the subset only as an `error` value (slices are lists without a nil/empty distinction)")
	}
	return t.ex(e)
}

func leanString(s string) (string, bool) {
	var b strings.Builder
	b.WriteByte('"')
	for _, r := range s {
		switch {
		case r == '"' || r == '\\':
			b.WriteByte('\\')
			b.WriteRune(r)
		case r >= 0x20 && r < 0x7f:
			b.WriteRune(r)
		case r <= 0xffff:
			fmt.Fprintf(&b, "\\u%04x", r)
		default:
			return "", false
		}
	}
	b.WriteByte('"')
	return b.String(), true
}

// sentinel: a package-level variable of type `error` (hex.ErrLength, io.EOF, the package's own
// `var ErrX = errors.New(…)`) is the class "<import path>.<Name>" without arguments.  ASSUMPTION
// (stated in the header): such variables are never reassigned.
func (t *fn) sentinel(v *types.Var) (string, bool) {
	if v.Pkg() == nil || v.Parent() != v.Pkg().Scope() {
		return "", false
	}
	if et, err := t.goType(v.Type()); err != nil || et.k != kErr {
		return "", false
	}
	cls := v.Pkg().Path() + "." + v.Name()
	q, ok := leanString(cls)
	if !ok {
		return "", false
	}
	if !t.errCls[cls] {
		t.notes = append(t.notes, fmt.Sprintf("error variable `%s`: translated as the class %s; ASSUMED never to be reassigned", cls, q))
	}
	t.errCls[cls] = true
	if t.g.sentinels == nil {
		t.g.sentinels = map[string][3]string{}
	}
	t.g.sentinels[cls] = [3]string{v.Pkg().Path(), v.Pkg().Name(), v.Name()}
	return "(GoSem.Err.mk " + q + " [])", true
}

// errorfCall: `fmt.Errorf("<constant format>", args…)` / `errors.New("<constant>")` ↦
// `GoSem.Err.mk "<format>" [integer arguments…]`.  The arguments are evaluated left to right
// (Go spec, "Order of evaluation"), so their panics happen as in Go; arguments of integer type are
// kept (as Int), all others are evaluated and dropped: the message text is not modelled.  `%w`
// (wrapping) and error-typed arguments are rejected.
func (t *fn) errorfCall(x *ast.CallExpr, full string) string {
	if len(x.Args) == 0 || x.Ellipsis != token.NoPos {
		t.reject(x, "malformed %s call", full)
	}
	tv, ok := t.pkg.info.Types[x.Args[0]]
	if !ok || tv.Value == nil || tv.Value.Kind() != constant.String {
		t.reject(x, "%s with a format that is not a constant string is outside the subset", full)
	}
	format := constant.StringVal(tv.Value)
	if full == "fmt.Errorf" && strings.Contains(strings.ReplaceAll(format, "%%", ""), "%w") {
		t.reject(x, "fmt.Errorf with %%w (error wrapping) is outside the subset")
	}
	q, ok := leanString(format)
	if !ok {
		t.reject(x, "format string with characters outside the BMP")
	}
	var ints []string
	for _, a := range x.Args[1:] {
		if t.isNil(a) {
			t.reject(x, "nil as an argument of %s is outside the subset", full)
		}
		at := t.tyOf(a)
		v := t.ex(a)
		switch {
		case at.k == kErr:
			t.reject(x, "an error value as an argument of %s is outside the subset", full)
		case at.k == kInt:
			ints = append(ints, v)
		case at.k == kBV && at.signed:
			ints = append(ints, "("+parenIf(v)+".toInt)")
		case at.k == kBV:
			ints = append(ints, "(Int.ofNat "+parenIf(v)+".toNat)")
		}
	}
	t.errCls[format] = true
	return "(GoSem.Err.mk " + q + " [" + strings.Join(ints, ", ") + "])"
}

// ---------------------------------------------------------------- method calls on a local struct variable

// localMethodDep: for `v.M(...)` where v is a LOCAL variable of a struct type of the module declared
// `var v S` (zero value) in this function: the translation of S.M and v.  The struct value must have
// no second name and no exposed slice: every occurrence of v in the function is the receiver of a
// method call, a whole-value operand of `return`, or a read of a field that is not a slice/struct
// (anything else — `w := v`, `v.f = …`, `&v`, passing v — is rejected: a copy of the struct would
// share the backing arrays of its slice fields).
func (t *fn) localMethodDep(x *ast.CallExpr) (*FuncResult, types.Object) {
	se, ok := ast.Unparen(x.Fun).(*ast.SelectorExpr)
	if !ok {
		return nil, nil
	}
	id, ok := ast.Unparen(se.X).(*ast.Ident)
	if !ok {
		return nil, nil
	}
	v, ok := t.pkg.info.ObjectOf(id).(*types.Var)
	if !ok || v == t.recvObj || v.IsField() || v.Pkg() == nil || v.Parent() == v.Pkg().Scope() {
		return nil, nil
	}
	callee, _ := t.pkg.info.ObjectOf(se.Sel).(*types.Func)
	sel := t.pkg.info.Selections[se]
	if callee == nil || sel == nil || sel.Kind() != types.MethodVal || len(sel.Index()) != 1 {
		return nil, nil
	}
	named, ok := types.Unalias(v.Type()).(*types.Named)
	if !ok {
		return nil, nil
	}
	if _, isStruct := named.Underlying().(*types.Struct); !isStruct {
		return nil, nil
	}
	np := named.Obj().Pkg()
	if np == nil || !(np.Path() == t.g.l.modPath || strings.HasPrefix(np.Path(), t.g.l.modPath+"/")) {
		return nil, nil
	}
	if !t.structLocalOK(v) {
		return nil, nil
	}
	dir := strings.TrimPrefix(strings.TrimPrefix(np.Path(), t.g.l.modPath), "/")
	if dir == "" {
		dir = "."
	}
	return t.g.translate(dir, named.Obj().Name()+"."+callee.Name(), false), v
}

func (t *fn) structLocalOK(v *types.Var) bool {
	if r, ok := t.structLocal[v]; ok {
		return r
	}
	if t.structLocal == nil {
		t.structLocal = map[types.Object]bool{}
	}
	declared := false
	ast.Inspect(t.decl.Body, func(m ast.Node) bool {
		if vs, ok := m.(*ast.ValueSpec); ok {
			for _, n := range vs.Names {
				if t.pkg.info.Defs[n] == types.Object(v) && len(vs.Values) == 0 {
					declared = true
				}
			}
		}
		return true
	})
	okAll := declared
	par := t.parentMap()
	ast.Inspect(t.decl.Body, func(m ast.Node) bool {
		id, ok := m.(*ast.Ident)
		if !ok || t.pkg.info.Uses[id] != types.Object(v) {
			return true
		}
		var p ast.Node = par[id]
		for {
			if pe, ok := p.(*ast.ParenExpr); ok {
				p = par[pe]
				continue
			}
			break
		}
		switch u := p.(type) {
		case *ast.SelectorExpr:
			sel := t.pkg.info.Selections[u]
			if sel == nil {
				okAll = false
				return true
			}
			switch sel.Kind() {
			case types.MethodVal:
				if ce, ok := par[u].(*ast.CallExpr); !ok || ast.Unparen(ce.Fun) != ast.Expr(u) {
					okAll = false // method value
				}
			case types.FieldVal:
				ft, err := t.goType(sel.Type())
				if err != nil || ft.k == kList && !ft.str || ft.k == kStruct {
					okAll = false
				}
				// a field of v must not be assigned or have its address taken
				switch pp := par[u].(type) {
				case *ast.AssignStmt:
					for _, l := range pp.Lhs {
						if ast.Unparen(l) == ast.Expr(u) {
							okAll = false
						}
					}
				case *ast.IncDecStmt, *ast.UnaryExpr:
					if ue, ok := pp.(*ast.UnaryExpr); !ok || ue.Op == token.AND {
						okAll = false
					}
				}
			default:
				okAll = false
			}
		case *ast.ReturnStmt:
			// moved out
		default:
			okAll = false
		}
		return true
	})
	t.structLocal[v] = okAll
	return okAll
}

// localMethodCall: `v.M(args)` on a local struct variable: M is translated as a helper definition
// and v is threaded through it when M writes its receiver (`let (q, rc) ← S_M v args; let v := rc`).
func (t *fn) localMethodCall(x *ast.CallExpr, callee *types.Func, dep *FuncResult, lo types.Object) []string {
	if !dep.OK {
		t.reject(x, "callee %s is not translatable: %s", dep.Key, dep.Reason)
	}
	if len(dep.Sig.Externs) > 0 {
		t.reject(x, "callee %s takes extern parameters", dep.Key)
	}
	if len(dep.Sig.InOut) > 0 {
		t.reject(x, "callee %s writes a slice parameter (in-out): method calls of that shape are outside the subset", dep.Key)
	}
	for _, c := range dep.Sig.ErrClasses {
		t.errCls[c] = true
	}
	vn := t.nameOf(lo)
	args := []string{vn}
	for _, a := range x.Args {
		if t.mentions(a, lo) {
			t.reject(x, "`%s` occurs in an argument of its own method call: outside the subset", lo.Name())
		}
		args = append(args, t.arg(a))
	}
	nres := callee.Type().(*types.Signature).Results().Len()
	var names []string
	for i := 0; i < nres; i++ {
		names = append(names, t.fresh("r"))
	}
	pat := tuple(names)
	if nres == 0 {
		pat = "_"
	}
	if dep.Sig.RecvOut {
		t.noCond(x, dep.Key)
		nr := t.fresh("rc")
		if nres == 0 {
			pat = nr
		} else {
			pat = "(" + pat + ", " + nr + ")"
		}
		t.emit(fmt.Sprintf("let %s ← %s %s", pat, dep.LeanName, strings.Join(args, " ")))
		t.emit(fmt.Sprintf("let %s : %s := %s", vn, t.varTy(lo).lean(), nr))
	} else {
		t.emit(fmt.Sprintf("let %s ← %s %s", pat, dep.LeanName, strings.Join(args, " ")))
	}
	if nres == 0 {
		return []string{"()"}
	}
	return names
}

// noCond: a call that rebinds a variable of the caller (in-out argument, written receiver) must
// stand where its bindings are made at statement level: inside the right operand of && / || or a
// later case expression they would be local to the nested block and the write would be lost.
func (t *fn) noCond(x *ast.CallExpr, callee string) {
	if t.condDepth > 0 {
		t.reject(x, "the call of %s writes a variable of the caller (state passing) inside a conditionally evaluated operand (right side of &&/||, later case expression): outside the subset", callee)
	}
}

// ---- wave 9 (C06): pointer-to-slice parameters, element-field writes, append with a spread argument ----

// ptrSliceName: e is the identifier of a `*[]T` parameter accepted by ptrSliceShape.
func (t *fn) ptrSliceName(e ast.Expr) (string, bool) {
	id, ok := ast.Unparen(e).(*ast.Ident)
	if !ok {
		return "", false
	}
	o := t.pkg.info.ObjectOf(id)
	if _, ok := t.ptrSlice[o]; !ok {
		return "", false
	}
	return t.nameOf(o), true
}

// ptrSliceShape accepts a parameter `p *[]T` (T translatable) that the function uses in exactly this way:
//   - one top-level statement `x := *p` (the only read through p),
//   - the LAST top-level statement of the body is `*p = x` (the only write through p),
//   - no other mention of p, no `return` anywhere (the store at the end is always reached unless the function panics),
//   - every other assignment to x is `x = append(x, …)` / `x = append(x[a:b], …)` and x gets no second name.
// Then `*p` is dead between the two statements and x is the only live name of the caller's slice: the parameter is an
// in-out LIST (its value before the call; its value after the call is returned), element writes through x are exact,
// and `append(x[:k], …)` — which overwrites x's own array past k — yields exactly the list `x[:k] ++ …` (Go's append
// copies with memmove semantics, so an overlapping `x[j:]...` argument is read as it was before the call).
// Returns the local x, or a reason.
func (t *fn) ptrSliceShape(p *types.Var) (types.Object, string) {
	body := t.decl.Body.List
	derefOf := func(e ast.Expr) bool {
		st, ok := ast.Unparen(e).(*ast.StarExpr)
		if !ok {
			return false
		}
		id, ok := ast.Unparen(st.X).(*ast.Ident)
		return ok && t.pkg.info.ObjectOf(id) == types.Object(p)
	}
	var x types.Object
	var first ast.Stmt
	for _, s := range body {
		as, ok := s.(*ast.AssignStmt)
		if ok && as.Tok == token.DEFINE && len(as.Lhs) == 1 && len(as.Rhs) == 1 && derefOf(as.Rhs[0]) {
			if id, ok := as.Lhs[0].(*ast.Ident); ok && id.Name != "_" {
				x, first = t.pkg.info.Defs[id], s
			}
			break
		}
	}
	if x == nil || len(body) < 2 {
		return nil, "no top-level `x := *" + p.Name() + "`"
	}
	last, ok := body[len(body)-1].(*ast.AssignStmt)
	if !ok || last.Tok != token.ASSIGN || len(last.Lhs) != 1 || len(last.Rhs) != 1 || !derefOf(last.Lhs[0]) {
		return nil, "the last statement is not `*" + p.Name() + " = x`"
	}
	if id, ok := ast.Unparen(last.Rhs[0]).(*ast.Ident); !ok || t.pkg.info.ObjectOf(id) != x {
		return nil, "the last statement does not store the local read from `*" + p.Name() + "`"
	}
	mentions, why := 0, ""
	ast.Inspect(t.decl.Body, func(m ast.Node) bool {
		switch s := m.(type) {
		case *ast.Ident:
			if t.pkg.info.ObjectOf(s) == types.Object(p) {
				mentions++
			}
		case *ast.ReturnStmt:
			why = "a return statement may skip the final store"
		case *ast.FuncLit:
			why = "function literal"
		case *ast.AssignStmt:
			if ast.Stmt(s) == first || s == last {
				return true
			}
			for i, l := range s.Lhs {
				id, ok := ast.Unparen(l).(*ast.Ident)
				if !ok || t.pkg.info.ObjectOf(id) != x {
					continue
				}
				good := false
				if len(s.Lhs) == len(s.Rhs) && s.Tok == token.ASSIGN {
					if ce, ok := ast.Unparen(s.Rhs[i]).(*ast.CallExpr); ok && t.isBuiltinCall(ce, "append") && len(ce.Args) > 0 {
						a0 := ast.Unparen(ce.Args[0])
						if se, ok := a0.(*ast.SliceExpr); ok && !se.Slice3 {
							a0 = ast.Unparen(se.X)
						}
						if id0, ok := a0.(*ast.Ident); ok && t.pkg.info.ObjectOf(id0) == x {
							good = true
						}
					}
				}
				if !good {
					why = "`" + t.text(s) + "` gives the local another backing array"
				}
			}
		}
		return true
	})
	if why != "" {
		return nil, why
	}
	if mentions != 2 {
		return nil, fmt.Sprintf("`%s` is mentioned %d times (only `x := *%s` and a final `*%s = x` are accepted)", p.Name(), mentions, p.Name(), p.Name())
	}
	if r := t.aliasReason(x); r != "" && r != t.text(last) {
		return nil, "`" + r + "` makes another name refer to the backing array"
	}
	return x, ""
}

// assignElemField: `a[i].f = v` on a slice of translated structs: read the element, update the field, store it back
// (the write rule of `a[i] = …` applies to a).
func (t *fn) assignElemFieldPlain(l *ast.SelectorExpr, ix *ast.IndexExpr, val string) []string {
	if _, isPtr := t.typeOf(ix).Underlying().(*types.Pointer); isPtr {
		t.reject(l, "assignment through the pointer element `%s` is outside the subset", t.text(ix))
	}
	et := t.tyOf(ix)
	st := t.tyOf(ix.X)
	if et.k != kStruct || st.k != kList || st.str {
		t.reject(l, "assignment to `%s`: the base is not an element of a slice of translated structs", t.text(l))
	}
	var lines []string
	old := t.pre
	var pre []string
	t.pre = &pre
	cur := t.index(ix)
	t.pre = old
	lines = append(lines, pre...)
	n := t.fresh("w")
	lines = append(lines, fmt.Sprintf("let %s : %s := { %s with %s := %s }", n, et.lean(), cur, leanIdent(l.Sel.Name), val))
	return append(lines, t.assignTo(ix, n)...)
}

// appendSpread: `append(s, xs...)` is `s ++ xs` (value of the result; who else sees the overwritten tail of s's array is
// the business of the aliasing rules: the result must be assigned to a name and s must not stay reachable otherwise).
func (t *fn) appendSpread(x *ast.CallExpr, s string) string {
	if len(x.Args) != 2 {
		t.reject(x, "malformed append with a spread argument")
	}
	at := t.tyOf(x.Args[1])
	if at.k != kList {
		t.reject(x, "append: spread argument `%s` has a type outside the subset", t.text(x.Args[1]))
	}
	return "(" + s + " ++ " + t.arg(x.Args[1]) + ")"
}

// optFnCall: a call through a local function variable that may be nil (kOptFn): the arguments are
// evaluated first, then a nil function panics; a non-nil one is a pure total Lean function.
func (t *fn) optFnCall(x *ast.CallExpr, v *types.Var, ft *ty) []string {
	if len(x.Args) != len(ft.fnArgs) {
		t.reject(x, "call of the function value `%s` with a multi-value argument is outside the subset", v.Name())
	}
	args := []string{"g"}
	for _, a := range x.Args {
		args = append(args, t.arg(a))
	}
	note := fmt.Sprintf("function value `%s : %s`: nil is `none` (calling it panics); a non-nil function is ASSUMED pure and total and not to keep or write the slices it is handed", v.Name(), ft.lean())
	seen := false
	for _, n := range t.notes {
		seen = seen || n == note
	}
	if !seen {
		t.notes = append(t.notes, note)
	}
	r := t.fresh("fv")
	t.emit(fmt.Sprintf("let %s ← (match %s with | some g => Res.ok (%s) | none => Res.panic)", r, t.names[v], strings.Join(args, " ")))
	return []string{r}
}

// assignElemField: `a[i].f = v` where a is a local slice of struct VALUES created by make in this
// function: read the element, replace the field, store the element back (index checked once more:
// same index, same panic). A slice-typed field makes the element own a backing array: the whole
// function must then follow the ownership discipline checked by checkOwnedAppends.
func (t *fn) assignElemFieldOwned(l *ast.SelectorExpr, ie *ast.IndexExpr, val string) []string {
	et := t.tyOf(ie)
	if _, isPtr := t.typeOf(ie).Underlying().(*types.Pointer); isPtr || et.k != kStruct {
		t.reject(l, "assignment to `%s`: the element is not a translated struct value", t.text(l))
	}
	id, ok := ast.Unparen(ie.X).(*ast.Ident)
	if !ok {
		t.reject(l, "assignment to `%s`: the indexed slice must be a plain local variable", t.text(l))
	}
	t.checkOwnedAppends(id)
	cur := t.ex(ie.X)
	i, isInt := t.indexTerm(ie.Index)
	rd, wr := "GoSem.idxN", "GoSem.setIdxN"
	if isInt {
		rd, wr = "GoSem.idx", "GoSem.setIdx"
	}
	e := t.fresh("e")
	w := t.fresh("w")
	lines := []string{
		fmt.Sprintf("let %s ← %s %s %s", e, rd, parenIf(cur), parenIf(i)),
		fmt.Sprintf("let %s ← %s %s %s { %s with %s := %s }", w, wr, parenIf(cur), parenIf(i), e, leanIdent(l.Sel.Name), val),
	}
	return append(lines, t.assignTo(ie.X, w)...)
}

// placeRoot: the variable a place expression (x, x[i], x.f, x[a:b] and their compositions) starts from.
func (t *fn) placeRoot(e ast.Expr) types.Object {
	for {
		switch x := ast.Unparen(e).(type) {
		case *ast.Ident:
			return t.pkg.info.ObjectOf(x)
		case *ast.IndexExpr:
			e = x.X
		case *ast.SelectorExpr:
			e = x.X
		case *ast.SliceExpr:
			e = x.X
		default:
			return nil
		}
	}
}

// checkOwnedAppends (run once per function that writes `a[i].f`): the ownership discipline under
// which `P = append(P[:k], ys...)` / `P = append(P, v)` has the value semantics "P becomes
// P[:k] ++ ys" although it writes P's array in place:
//   (1) a is a local that is assigned only by `make` (its elements start as zero values: nil slices);
//   (2) every append in the function is the whole right-hand side of `P = append(P or P[:k], …)` for the
//       same place P, P rooted at a local that is assigned only by make / `var` without value / such appends
//       (so P's array is P's own or a fresh one: no two places ever share an array);
//   (3) what is appended is not rooted at P's root variable (it cannot overlap P's array);
//   (4) no slice or struct value rooted at one of these locals is copied into another name (assignment,
//       var, composite literal, argument of a declared function); it may be read, handed to a callback
//       (ASSUMED not to keep or write it) and returned.
func (t *fn) checkOwnedAppends(a *ast.Ident) {
	if t.ownedChecked {
		return
	}
	t.ownedChecked = true
	info := t.pkg.info
	isAppend := func(e ast.Expr) *ast.CallExpr {
		ce, ok := ast.Unparen(e).(*ast.CallExpr)
		if ok && t.isBuiltinCall(ce, "append") {
			return ce
		}
		return nil
	}
	isMake := func(e ast.Expr) bool {
		ce, ok := ast.Unparen(e).(*ast.CallExpr)
		return ok && t.isBuiltinCall(ce, "make")
	}
	samePlace := func(p, q ast.Expr) bool {
		if se, ok := ast.Unparen(q).(*ast.SliceExpr); ok && !se.Slice3 {
			q = se.X
		}
		return t.text(ast.Unparen(p)) == t.text(ast.Unparen(q))
	}
	owners := map[types.Object]bool{info.ObjectOf(a): true}
	okAppend := map[*ast.CallExpr]bool{}
	ast.Inspect(t.decl.Body, func(m ast.Node) bool {
		as, ok := m.(*ast.AssignStmt)
		if !ok || len(as.Lhs) != len(as.Rhs) {
			return true
		}
		for i, r := range as.Rhs {
			ce := isAppend(r)
			if ce == nil {
				continue
			}
			if as.Tok != token.ASSIGN || len(ce.Args) == 0 || !samePlace(as.Lhs[i], ce.Args[0]) {
				t.reject(as, "`%s`: in a function that writes `%s[i].f` every append must have the form `P = append(P[:k], …)` for one place P (array ownership)", t.text(as), a.Name)
			}
			root := t.placeRoot(as.Lhs[i])
			if root == nil {
				t.reject(as, "`%s`: the appended place has no root variable", t.text(as))
			}
			if pt, ok := t.typeOf(as.Lhs[i]).Underlying().(*types.Slice); ok {
				_, isTP := pt.Elem().(*types.TypeParam)
				_, isBasic := pt.Elem().Underlying().(*types.Basic)
				if !isTP && !isBasic {
					t.reject(as, "`%s`: the elements appended may themselves refer to arrays (element type %s): outside the subset", t.text(as), pt.Elem())
				}
			}
			for _, arg := range ce.Args[1:] {
				at := t.typeOf(arg)
				_, isSl := at.Underlying().(*types.Slice)
				if isSl && t.placeRoot(arg) == root {
					t.reject(as, "`%s`: the appended slice is rooted at `%s` as well (it may overlap the array written in place)", t.text(as), root.Name())
				}
				if isSl && t.placeRoot(arg) == nil {
					t.reject(as, "`%s`: the appended slice is not a place expression", t.text(as))
				}
			}
			owners[root] = true
			okAppend[ce] = true
		}
		return true
	})
	sig := info.Defs[t.decl.Name].Type().(*types.Signature)
	for o := range owners {
		v, isVar := o.(*types.Var)
		if !isVar || v.IsField() || o == t.recvObj || v.Parent() == v.Pkg().Scope() {
			t.reject(a, "`%s`: owner of an array written in place must be a local variable", o.Name())
		}
		for i := 0; i < sig.Params().Len(); i++ {
			if sig.Params().At(i) == o {
				t.reject(a, "`%s`: a parameter may alias the caller's slices (array ownership)", o.Name())
			}
		}
	}
	carries := func(e ast.Expr) bool {
		// can a value of this type carry a reference to an array?
		switch t.typeOf(e).Underlying().(type) {
		case *types.Basic:
			return false
		case *types.TypeParam:
			return false
		}
		if tp, ok := t.typeOf(e).(*types.TypeParam); ok && tp != nil {
			return false
		}
		return true
	}
	leak := func(n ast.Node, e ast.Expr) {
		if isAppend(e) != nil || isMake(e) {
			return
		}
		if r := t.placeRoot(e); r != nil && owners[r] && carries(e) {
			t.reject(n, "`%s` copies `%s`, which refers to an array that is written in place, into another name (array ownership)", t.text(n), t.text(e))
		}
	}
	ast.Inspect(t.decl.Body, func(m ast.Node) bool {
		switch s := m.(type) {
		case *ast.AssignStmt:
			for i, l := range s.Lhs {
				r := t.placeRoot(l)
				if r == nil || !owners[r] {
					continue
				}
				// a write to an owner: the variable itself (make / append only) or a field of an element
				if len(s.Lhs) != len(s.Rhs) {
					t.reject(s, "`%s`: multi-value assignment to an array owner", t.text(s))
				}
				rhs := s.Rhs[i]
				if isMake(rhs) && ast.Unparen(l) != nil {
					if _, isId := ast.Unparen(l).(*ast.Ident); isId {
						continue
					}
				}
				if ce := isAppend(rhs); ce != nil && okAppend[ce] {
					continue
				}
				if !carries(rhs) && !carries(l) {
					continue
				}
				t.reject(s, "`%s`: an array owner is assigned something other than make / its own append (array ownership)", t.text(s))
			}
			for _, r := range s.Rhs {
				leak(s, r)
			}
		case *ast.ValueSpec:
			for _, r := range s.Values {
				leak(s, r)
			}
			for _, n := range s.Names {
				if owners[info.Defs[n]] && len(s.Values) != 0 {
					for _, r := range s.Values {
						if !isMake(r) {
							t.reject(s, "`var %s = %s`: an array owner must start as nil or from make", n.Name, t.text(r))
						}
					}
				}
			}
		case *ast.CompositeLit:
			for _, el := range s.Elts {
				if kv, ok := el.(*ast.KeyValueExpr); ok {
					el = kv.Value
				}
				leak(s, el)
			}
		case *ast.CallExpr:
			if ce := isAppend(s); ce != nil && !okAppend[ce] {
				t.reject(s, "`%s`: append outside the form `P = append(P[:k], …)` (array ownership)", t.text(s))
			}
			if id, ok := ast.Unparen(s.Fun).(*ast.Ident); ok {
				switch o := info.ObjectOf(id).(type) {
				case *types.Builtin:
					return true
				case *types.Var:
					if vt, err := t.goType(o.Type()); t.funcPar[o] != nil || err == nil && vt.k == kOptFn {
						return true // callback: ASSUMED not to keep or write its arguments (header note)
					}
				}
			}
			if tv, ok := info.Types[s.Fun]; ok && tv.IsType() {
				return true
			}
			for _, arg := range s.Args {
				leak(s, arg)
			}
		case *ast.RangeStmt:
			if s.Value != nil {
				if r := t.placeRoot(s.X); r != nil && owners[r] {
					if id, ok := s.Value.(*ast.Ident); !ok || id.Name != "_" {
						if vo := info.ObjectOf(s.Value.(*ast.Ident)); vo != nil && carries(s.Value) {
							t.reject(s, "range over `%s` copies its elements, which own arrays written in place (array ownership)", t.text(s.X))
						}
					}
				}
			}
		case *ast.UnaryExpr:
			if s.Op == token.AND {
				if r := t.placeRoot(s.X); r != nil && owners[r] {
					t.reject(s, "`%s`: address of an array owner", t.text(s))
				}
			}
		case *ast.FuncLit:
			t.reject(s, "function literal in a function with arrays written in place")
		}
		return true
	})
	var names []string
	for o := range owners {
		names = append(names, o.Name())
	}
	sort.Strings(names)
	t.notes = append(t.notes, fmt.Sprintf("in-place appends `P = append(P[:k], ys...)` are translated by value (P becomes P[:k] ++ ys): checked syntactically that every append has this form, that P is rooted at one of the locals {%s} (created by make / declared nil in this function, never copied into another name, elements never copied), and that ys is rooted at a different variable — so no two live slices share an array written in place", strings.Join(names, ", ")))
}

// assignElemField (integration of two wave-9 deliveries): an element struct that owns a backing array
// (a slice-typed field) goes through the ownership discipline (assignElemFieldOwned); an element struct
// of scalars only is read, updated and stored back (assignElemFieldPlain).
func (t *fn) assignElemField(l *ast.SelectorExpr, ix *ast.IndexExpr, val string) []string {
	et := t.tyOf(ix)
	if et.k == kStruct && et.st != nil {
		for _, ft := range et.st.ftypes {
			if ft != nil && ft.k == kList {
				return t.assignElemFieldOwned(l, ix, val)
			}
		}
	}
	return t.assignElemFieldPlain(l, ix, val)
}

// ---------------------------------------------------------------- unicode/utf8.EncodeRune, unicode/utf16.DecodeRune

// calleeFullName: the full name of the declared function a call refers to ("" when there is none).
func (t *fn) calleeFullName(ce *ast.CallExpr) string {
	se, ok := ast.Unparen(ce.Fun).(*ast.SelectorExpr)
	if !ok {
		return ""
	}
	f, _ := t.pkg.info.ObjectOf(se.Sel).(*types.Func)
	if f == nil {
		return ""
	}
	return f.FullName()
}

func (t *fn) isEncodeRune(ce *ast.CallExpr) bool {
	return t.calleeFullName(ce) == "unicode/utf8.EncodeRune"
}

// escCodecCall: standard-library functions with an exact GoSem definition that are used as VALUES.
func (t *fn) escCodecCall(x *ast.CallExpr, full string) []string {
	switch full {
	case "unicode/utf16.DecodeRune":
		return []string{"(GoSem.utf16DecodeRune " + t.arg(x.Args[0]) + " " + t.arg(x.Args[1]) + ")"}
	case "unicode/utf8.EncodeRune":
		t.reject(x, "utf8.EncodeRune(...) writes its first argument: it is translated only as a statement or as the whole right-hand side of `n := utf8.EncodeRune(dst[a:], r)` / `v += utf8.EncodeRune(dst[a:], r)`")
	}
	return nil
}

// encodeRuneCall translates `utf8.EncodeRune(dst[a:b], r)` (or `dst[a:]`, `dst`): like copy, a write-through into the
// window of a slice that is writable without aliasing; the returned term is the number of bytes written.
// GoSem.utf8EncodeRuneAt: the slice expression panics as usual; the encoding (1–4 bytes, U+FFFD for surrogates and
// values outside 0..0x10FFFF) is written at the start of the window when it fits, otherwise the call panics BEFORE
// writing anything (the library checks the last index first).
func (t *fn) encodeRuneCall(x *ast.CallExpr) string {
	dt := t.tyOf(x.Args[0])
	rt := t.tyOf(x.Args[1])
	if dt.k != kList || dt.str || dt.elem.k != kBV || dt.elem.bits != 8 || rt.k != kBV || rt.bits != 32 || !rt.signed {
		t.reject(x, "utf8.EncodeRune(%s, %s): operand types outside the subset", t.text(x.Args[0]), t.text(x.Args[1]))
	}
	dst := ast.Unparen(x.Args[0])
	var window *ast.SliceExpr
	base := dst
	if se, ok := dst.(*ast.SliceExpr); ok {
		if se.Slice3 {
			t.reject(x, "3-index slice expression is outside the subset (capacity is not modelled)")
		}
		window = se
		base = ast.Unparen(se.X)
	}
	switch base.(type) {
	case *ast.Ident, *ast.SelectorExpr:
	default:
		t.reject(x, "utf8.EncodeRune into `%s`: the destination must be a variable, a receiver field or a slice expression of one", t.text(dst))
	}
	t.checkWritable(base)
	cur := t.arg(base)
	toInt := func(e ast.Expr) string {
		i, isInt := t.indexTerm(e)
		if isInt {
			return parenIf(i)
		}
		return "(Int.ofNat " + i + ")"
	}
	lo := "0"
	hi := "(Int.ofNat " + cur + ".length)"
	if window != nil && window.Low != nil {
		lo = toInt(window.Low)
	}
	if window != nil && window.High != nil {
		hi = toInt(window.High)
	}
	r := t.arg(x.Args[1])
	cp := t.fresh("er")
	t.emit(fmt.Sprintf("let %s ← GoSem.utf8EncodeRuneAt %s %s %s %s", cp, cur, lo, hi, r))
	for _, l := range t.assignTo(base, cp+".1") {
		t.emit(l)
	}
	t.noteInt(x)
	return cp + ".2"
}

// ---- package-level fixed-size arrays as explicit state (target option "globals", wave 9) ----
//
// A package-level variable `var g [N]T` named in the target's "globals" becomes a parameter
// `g : List T` of the translated function (its value when the function is called; PRECONDITION
// `g.length = N`); when the function writes an element of it, it is in-out (its final value is
// returned after the results, like a written slice parameter).  A Go array is a VALUE: nothing
// can alias it unless it is sliced or its address is taken, so only `g[i]`, `g[i] = v`, `len(g)`
// and `range g` are accepted.

var fnGlobals = map[*fn]map[types.Object]*ty{}

func (t *fn) globalTyOf(e ast.Expr) *ty {
	if len(fnGlobals[t]) == 0 {
		return nil
	}
	id, ok := ast.Unparen(e).(*ast.Ident)
	if !ok {
		return nil
	}
	return fnGlobals[t][t.pkg.info.ObjectOf(id)]
}

// checkGlobalUse: the occurrence x of a global array is the base of an index expression, the
// argument of len, or the range expression of a `for … range` without a value variable.
func (t *fn) checkGlobalUse(x *ast.Ident) {
	if t.parents == nil {
		t.parents = t.parentMap()
	}
	var child ast.Node = x
	par := t.parents[child]
	for {
		if pe, ok := par.(*ast.ParenExpr); ok {
			child, par = pe, t.parents[pe]
			continue
		}
		break
	}
	switch p := par.(type) {
	case *ast.IndexExpr:
		if p.X == child {
			return
		}
	case *ast.CallExpr:
		if t.isBuiltinCall(p, "len") {
			return
		}
	case *ast.RangeStmt:
		if p.X == child && p.Value == nil {
			return
		}
	}
	t.reject(x, "package-level array `%s`: only `%s[i]`, `%s[i] = v`, `len(%s)` and `for i := range %s` are in the subset (a slice of it or its address would alias it)", x.Name, x.Name, x.Name, x.Name, x.Name)
}

// declareGlobals registers the globals of the target as parameters; it returns the Lean binders.
func (t *fn) declareGlobals(out *FuncResult) []string {
	if t.tgt == nil || len(t.tgt.Globals) == 0 {
		return nil
	}
	var params []string
	fnGlobals[t] = map[types.Object]*ty{}
	for _, name := range t.tgt.Globals {
		o, _ := t.pkg.types.Scope().Lookup(name).(*types.Var)
		if o == nil {
			t.reject(t.decl, "globals: `%s` is not a package-level variable", name)
		}
		at, ok := o.Type().Underlying().(*types.Array)
		if !ok {
			t.reject(t.decl, "globals: `%s` is not a fixed-size array (only arrays are values that nothing can alias)", name)
		}
		et, err := t.goType(at.Elem())
		if err != nil || !(et.k == kBV || et.k == kInt || et.k == kBool) {
			t.reject(t.decl, "globals: element type of `%s` is outside the subset", name)
		}
		gty := &ty{k: kList, elem: et}
		fnGlobals[t][o] = gty
		ln := leanIdent(name)
		if t.used[ln] {
			t.reject(t.decl, "globals: name clash on `%s`", name)
		}
		t.used[ln] = true
		t.names[o] = ln
		params = append(params, fmt.Sprintf("(%s : %s)", ln, gty.lean()))
		out.Sig.Params = append(out.Sig.Params, Param{Name: ln, Code: "", Lean: gty.lean()})
		written := false
		ast.Inspect(t.decl.Body, func(m ast.Node) bool {
			mark := func(e ast.Expr) {
				if ix, ok := ast.Unparen(e).(*ast.IndexExpr); ok {
					if id, ok := ast.Unparen(ix.X).(*ast.Ident); ok && t.pkg.info.ObjectOf(id) == types.Object(o) {
						written = true
					}
				}
			}
			switch s := m.(type) {
			case *ast.AssignStmt:
				for _, l := range s.Lhs {
					mark(l)
				}
			case *ast.IncDecStmt:
				mark(s.X)
			}
			return true
		})
		note := fmt.Sprintf("package-level array `%s [%d]%s` is the parameter `%s : %s`: its value when the function is called; PRECONDITION `%s.length = %d`", name, at.Len(), types.TypeString(at.Elem(), nil), ln, gty.lean(), ln, at.Len())
		if written {
			t.inout = append(t.inout, o)
			t.inoutSet[o] = true
			note += "; the function writes it, so its final value is returned after the results (state passing)"
		}
		t.notes = append(t.notes, note)
	}
	return params
}

// isParam: o is a parameter (or the receiver) of the function being translated.
func (t *fn) isParam(o *types.Var) bool {
	sig := t.pkg.info.Defs[t.decl.Name].Type().(*types.Signature)
	for i := 0; i < sig.Params().Len(); i++ {
		if sig.Params().At(i) == o {
			return true
		}
	}
	return sig.Recv() == o
}
