package go2lean

// Wave 9 (C09): extern FUNCTION parameters (`extern_func`), local fixed-size arrays, capacity-tracked
// local slices, execution-path instances of extern functions (`extern_impl`, `lean_imports`).

import (
	"fmt"
	"go/ast"
	"go/token"
	"go/types"
	"sort"
	"strings"
)

// ---- from gen.go
// extraLeanImports: the `lean_imports` of the targets (execution-path instances of extern functions).
func extraLeanImports(targets []*FuncResult) string {
	seen := map[string]bool{}
	var ms []string
	for _, r := range targets {
		for _, m := range r.Target.LeanImports {
			if !seen[m] {
				seen[m] = true
				ms = append(ms, m)
			}
		}
	}
	sort.Strings(ms)
	out := ""
	for _, m := range ms {
		out += "import " + m + "\n"
	}
	return out
}

// ---- from trans.go
// ---------------------------------------------------------------- wave 9 (C09): extern functions,
// local fixed-size arrays, capacity-tracked local slices

func normText(s string) string { return strings.Join(strings.Fields(s), " ") }

// findExternFuncs declares the function parameters of the `extern_func` option and rejects
// array-typed parameters/results of the translated function itself (only LOCAL arrays and array
// results of extern functions are in the subset).
func (t *fn) findExternFuncs(out *FuncResult, sig *types.Signature) {
	for i := 0; i < sig.Params().Len(); i++ {
		if _, ok := sig.Params().At(i).Type().Underlying().(*types.Array); ok {
			t.reject(t.decl, "array-typed parameter %s is outside the subset (only local arrays are translated)", sig.Params().At(i).Name())
		}
	}
	for i := 0; i < sig.Results().Len(); i++ {
		if _, ok := sig.Results().At(i).Type().Underlying().(*types.Array); ok {
			t.reject(t.decl, "array-typed result is outside the subset (only local arrays are translated)")
		}
	}
	if t.tgt == nil || len(t.tgt.ExternFunc) == 0 {
		return
	}
	t.extFuncs = map[string]Param{}
	t.extFSeen = map[string]bool{}
	var keys []string
	for k := range t.tgt.ExternFunc {
		keys = append(keys, k)
	}
	sort.Strings(keys)
	for _, k := range keys {
		parts := strings.SplitN(t.tgt.ExternFunc[k], ":", 2)
		if len(parts) != 2 {
			t.reject(t.decl, "extern_func option for `%s` must be \"name : LeanType\"", k)
		}
		p := Param{Name: strings.TrimSpace(parts[0]), Lean: strings.TrimSpace(parts[1]), GoType: "extern_func:" + normText(k)}
		p.Impl = strings.TrimSpace(t.tgt.ExternImpl[k])
		t.extFuncs[normText(k)] = p
		t.used[p.Name] = true
		out.Sig.Externs = append(out.Sig.Externs, p)
		t.notes = append(t.notes, fmt.Sprintf("extern function `%s` is the parameter `%s : %s`: ASSUMED pure and total (no panic, no effect, it does not keep or write its arguments, the result depends on the argument VALUES only); a result of array type [N]T is ASSUMED to have exactly N elements (a hypothesis of the tie theorems)", normText(k), p.Name, p.Lean))
	}
}

// externFuncCall: a call of a function named by the `extern_func` option.
func (t *fn) externFuncCall(x *ast.CallExpr) (string, bool) {
	if len(t.extFuncs) == 0 {
		return "", false
	}
	k := normText(t.text(x.Fun))
	p, ok := t.extFuncs[k]
	if !ok {
		return "", false
	}
	var callee *types.Func
	switch f := ast.Unparen(x.Fun).(type) {
	case *ast.Ident:
		callee, _ = t.pkg.info.ObjectOf(f).(*types.Func)
	case *ast.SelectorExpr:
		callee, _ = t.pkg.info.ObjectOf(f.Sel).(*types.Func)
	}
	if callee == nil || callee.Pkg() == nil {
		t.reject(x, "extern_func `%s` is not a declared function", k)
	}
	sig := callee.Type().(*types.Signature)
	if sig.Recv() != nil || sig.Variadic() || sig.Results().Len() != 1 || x.Ellipsis != token.NoPos {
		t.reject(x, "extern_func `%s`: only plain functions with one result are in the subset", k)
	}
	// the declared Lean type must be the translation of the Go signature
	var parts []string
	for i := 0; i < sig.Params().Len(); i++ {
		pt, err := t.goType(sig.Params().At(i).Type())
		if err != nil {
			t.reject(x, "extern_func `%s`: parameter %d: %v", k, i, err)
		}
		parts = append(parts, pt.lean())
	}
	rt, err := t.goType(sig.Results().At(0).Type())
	if err != nil {
		t.reject(x, "extern_func `%s`: result: %v", k, err)
	}
	if _, isSlice := sig.Results().At(0).Type().Underlying().(*types.Slice); isSlice {
		t.reject(x, "extern_func `%s` returns a slice (it may alias an argument): outside the subset", k)
	}
	parts = append(parts, rt.lean())
	if got := strings.Join(parts, " → "); got != p.Lean {
		t.reject(x, "extern_func `%s` is declared as %s but its Go signature translates to %s", k, p.Lean, got)
	}
	t.extFSeen[k] = true
	var args []string
	for _, a := range x.Args {
		args = append(args, t.arg(a))
	}
	return "(" + p.Name + " " + strings.Join(args, " ") + ")", true
}

func (t *fn) isExternFuncCall(ce *ast.CallExpr) bool {
	if len(t.extFuncs) == 0 {
		return false
	}
	_, ok := t.extFuncs[normText(t.text(ce.Fun))]
	return ok
}

// checkArraySlice: `a[i:j]` of a fixed-size array makes a slice that ALIASES the array variable; it
// is accepted only where the slice does not outlive the expression and is only read: as the
// source of copy, or as an argument of an extern function.
func (t *fn) checkArraySlice(x *ast.SliceExpr) {
	var par ast.Node = x
	for {
		par = t.parentMap()[par]
		if _, ok := par.(*ast.ParenExpr); !ok {
			break
		}
	}
	if ce, ok := par.(*ast.CallExpr); ok {
		if t.isBuiltinCall(ce, "copy") && len(ce.Args) == 2 && ast.Unparen(ce.Args[1]) == ast.Expr(x) {
			return
		}
		if t.isExternFuncCall(ce) {
			return
		}
	}
	t.reject(x, "slice `%s` of an array aliases the array: accepted only as the source of copy or as an argument of an extern function", t.text(x))
}

// capLocal: o is a local slice variable whose CAPACITY is tracked: it is declared once by
// `o := make([]T, n, c)`, every other assignment to it is the statement `o = o[:k]`, and every
// other use is one of: len(o), o[i] (read or write), copy with o / o[a:] as destination or
// source, an argument of an extern function.  No second name for its array can then exist, and no
// expression other than `o = o[:k]` can reach the array beyond len(o): the pair
// (visible part, rest of the array) is its exact value.
func (t *fn) capLocal(o types.Object) bool {
	if t.capLoc == nil {
		t.capLoc = map[types.Object]int{}
	}
	if r := t.capLoc[o]; r != 0 {
		return r == 1
	}
	t.capLoc[o] = 2
	v, ok := o.(*types.Var)
	if !ok || v.IsField() || v.Pkg() == nil || v.Parent() == v.Pkg().Scope() {
		return false
	}
	if _, isSlice := v.Type().Underlying().(*types.Slice); !isSlice {
		return false
	}
	pm := t.parentMap()
	up := func(n ast.Node) ast.Node {
		p := pm[n]
		for {
			if _, ok := p.(*ast.ParenExpr); !ok {
				return p
			}
			p = pm[p]
		}
	}
	isO := func(e ast.Expr) bool {
		id, ok := ast.Unparen(e).(*ast.Ident)
		return ok && t.pkg.info.ObjectOf(id) == o
	}
	selfReslice := func(as *ast.AssignStmt) bool {
		if as.Tok != token.ASSIGN || len(as.Lhs) != 1 || len(as.Rhs) != 1 || !isO(as.Lhs[0]) {
			return false
		}
		se, ok := ast.Unparen(as.Rhs[0]).(*ast.SliceExpr)
		return ok && !se.Slice3 && se.Low == nil && se.High != nil && isO(se.X)
	}
	decls, good := 0, true
	ast.Inspect(t.decl.Body, func(m ast.Node) bool {
		id, isId := m.(*ast.Ident)
		if !isId || t.pkg.info.ObjectOf(id) != o {
			return true
		}
		switch p := up(id).(type) {
		case *ast.AssignStmt:
			if p.Tok == token.DEFINE && len(p.Lhs) == 1 && len(p.Rhs) == 1 && isO(p.Lhs[0]) {
				if ce, ok := ast.Unparen(p.Rhs[0]).(*ast.CallExpr); ok && t.isBuiltinCall(ce, "make") && len(ce.Args) == 3 {
					decls++
					return true
				}
			}
			if selfReslice(p) {
				return true
			}
		case *ast.SliceExpr:
			if ast.Unparen(p.X) == ast.Expr(id) && !p.Slice3 {
				switch q := up(p).(type) {
				case *ast.AssignStmt:
					if selfReslice(q) {
						return true
					}
				case *ast.CallExpr:
					if p.High == nil && (t.isBuiltinCall(q, "copy") || t.isExternFuncCall(q)) {
						return true
					}
				}
			}
		case *ast.CallExpr:
			if ast.Unparen(p.Fun) != ast.Expr(id) && (t.isBuiltinCall(p, "len") || t.isBuiltinCall(p, "copy") || t.isExternFuncCall(p)) {
				return true
			}
		case *ast.IndexExpr:
			if ast.Unparen(p.X) == ast.Expr(id) {
				return true
			}
		}
		good = false
		return true
	})
	if good && decls == 1 {
		t.capLoc[o] = 1
		t.notes = append(t.notes, fmt.Sprintf("local slice `%s` (make with a capacity, resliced by `%s = %s[:k]` only): translated as the pair (visible part, rest of its array), so reslicing up to the capacity is exact", o.Name(), o.Name(), o.Name()))
		return true
	}
	return false
}

// capLocalAssign: the two assignment forms of a capacity-tracked local.
func (t *fn) capLocalAssign(x *ast.AssignStmt) ([]string, bool) {
	id, ok := ast.Unparen(x.Lhs[0]).(*ast.Ident)
	if !ok {
		return nil, false
	}
	o := t.pkg.info.ObjectOf(id)
	if o == nil || !t.capLocal(o) {
		return nil, false
	}
	toInt := func(e ast.Expr) string {
		i, isInt := t.indexTerm(e)
		if isInt {
			return parenIf(i)
		}
		return "(Int.ofNat " + i + ")"
	}
	vt := t.varTy(o)
	if x.Tok == token.DEFINE {
		ce := ast.Unparen(x.Rhs[0]).(*ast.CallExpr)
		z, ok := vt.elem.zero()
		if !ok {
			t.reject(x, "make: no zero value for the element type")
		}
		n := toInt(ce.Args[1])
		c := toInt(ce.Args[2])
		return []string{fmt.Sprintf("let %s ← GoSem.makeCap %s %s %s", t.nameOf(o), z, n, c)}, true
	}
	se := ast.Unparen(x.Rhs[0]).(*ast.SliceExpr)
	k := toInt(se.High)
	return []string{fmt.Sprintf("let %s ← GoSem.resliceTo %s %s", t.nameOf(o), t.nameOf(o), k)}, true
}

// extFuncBinders / extFuncArgs: the extern function parameters as binders / arguments of the loop functions.
func (t *fn) extFuncBinders() string {
	r := ""
	for _, k := range t.extFuncKeys() {
		r += " (" + t.extFuncs[k].Name + " : " + t.extFuncs[k].Lean + ")"
	}
	return r
}

func (t *fn) extFuncArgs() string {
	r := ""
	for _, k := range t.extFuncKeys() {
		r += " " + t.extFuncs[k].Name
	}
	return r
}

func (t *fn) extFuncKeys() []string {
	var keys []string
	for k := range t.extFuncs {
		keys = append(keys, k)
	}
	sort.Strings(keys)
	return keys
}

// ---- from types.go
// arrayType: a fixed-size array [N]T is a list of exactly N elements.  Arrays are VALUES in Go
// (assignment copies), so the list model is exact as long as no slice of the array outlives the
// expression it occurs in (sliceExpr accepts `a[i:j]` of an array only as the source of copy or
// as the argument of an extern function) and its address is not taken (`&` is outside the subset).
func (t *fn) arrayType(u *types.Array) (*ty, error) {
	e, err := t.goType(u.Elem())
	if err != nil {
		return nil, err
	}
	if u.Len() <= 0 || u.Len() > 1<<16 {
		return nil, fmt.Errorf("array type %s is outside the subset (length 0 or above 65536)", u)
	}
	return &ty{k: kList, elem: e, arrN: int(u.Len())}, nil
}
