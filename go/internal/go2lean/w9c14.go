package go2lean

// Wave 9 (C14): nil slice VALUES, results that are views of a written slice parameter (opt-in per
// target: "result_views"), key-only range over a slice the body writes.  Called from trans.go
// (convert, exAs, findInOut, the range statement).

import (
	"fmt"
	"go/ast"
	"go/types"
)

// ---------------------------------------------------------------- wave 9 (C14): nil slice values, results that are views of an in-out parameter

// nilSlice: `nil` where a value of a slice type is expected (return value, right-hand side,
// `[]T(nil)`).  Lists carry no nil/empty distinction (documented idealisation), and every
// operation of the subset (len, index, slice expression, range, append, copy) treats a nil slice
// exactly like an empty one (Go spec: "Length and capacity", "Appending to and copying slices");
// the only observer, a comparison of a slice with nil, stays rejected (binary()).
func (t *fn) nilSlice(e ast.Node, want *ty) string {
	note := "a nil SLICE value is translated as the empty list (idealisation: lists carry no nil/empty distinction; a comparison of a slice with nil stays outside the subset)"
	seen := false
	for _, n := range t.notes {
		if n == note {
			seen = true
		}
	}
	if !seen {
		t.notes = append(t.notes, note)
	}
	return "([] : " + want.lean() + ")"
}

// plainViewOf: r is `p` or a slice expression `p[a:b]` of the in-out parameter p whose bounds
// do not mention a slice: its CONTENT at the return statement is exact in the value model.
func (t *fn) plainViewOf(r ast.Expr, p *types.Var) bool {
	switch x := ast.Unparen(r).(type) {
	case *ast.Ident:
		return t.pkg.info.ObjectOf(x) == types.Object(p)
	case *ast.SliceExpr:
		id, ok := ast.Unparen(x.X).(*ast.Ident)
		return ok && t.pkg.info.ObjectOf(id) == types.Object(p) && !x.Slice3
	}
	return false
}

// returnHasNoCall: no result of the return statement contains a call other than len/cap/min/max or a
// conversion: nothing evaluated in the statement can write the array after a view of it was taken.
func (t *fn) returnHasNoCall(rs *ast.ReturnStmt) bool {
	ok := true
	for _, r := range rs.Results {
		ast.Inspect(r, func(m ast.Node) bool {
			ce, isCall := m.(*ast.CallExpr)
			if !isCall {
				return true
			}
			if tv, isT := t.pkg.info.Types[ce.Fun]; isT && tv.IsType() {
				return true
			}
			if id, isId := ast.Unparen(ce.Fun).(*ast.Ident); isId {
				if b, isB := t.pkg.info.ObjectOf(id).(*types.Builtin); isB {
					switch b.Name() {
					case "len", "cap", "min", "max":
						return true
					}
				}
			}
			ok = false
			return false
		})
	}
	return ok
}

func (t *fn) noteAliasedResult(rs *ast.ReturnStmt, p *types.Var) {
	note := fmt.Sprintf("a result is a view of the in-out parameter `%s` (`%s` / `%s[a:b]`): the translation returns the CONTENT of that view at the return statement next to the updated `%s`; that the two share memory AFTER the call (aliasing of results with arguments) is NOT represented", p.Name(), p.Name(), p.Name(), p.Name())
	for _, n := range t.notes {
		if n == note {
			return
		}
	}
	t.notes = append(t.notes, note)
}

// rangeNoValue: `for i := range s` / `for range s` / `for i, _ := range s`: Go evaluates the range
// expression once (only its length is used, Go spec "For statements with range clause") and reads no
// element, so the snapshot taken before the loop supplies the limit and every read of `s` in the body
// goes through the threaded variable and sees the writes: exact whatever the body assigns.
func (t *fn) rangeNoValue(x *ast.RangeStmt) bool {
	if x.Value == nil {
		return true
	}
	id, ok := x.Value.(*ast.Ident)
	return ok && id.Name == "_"
}
