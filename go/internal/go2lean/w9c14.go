package go2lean

// Wave 9 (C14): nil slice VALUES, results that are views of a written slice parameter (opt-in per
// target: "result_views"), key-only range over a slice the body writes.  Called from trans.go
// (convert, exAs, findInOut, the range statement).

import (
	"fmt"
	"go/ast"
	"go/token"
	"go/types"
)

// ---------------------------------------------------------------- wave 9 (C14): nil slice values, results that are views of an in-out parameter

// nilSlice: `nil` where a value of a slice type is expected (return value, right-hand side,
// `[]T(nil)`).  Lists carry no nil/empty distinction (documented idealisation), and every
// operation of the subset (len, index, slice expression, range, append, copy) treats a nil slice
// exactly like an empty one (Go spec: "Length and capacity", "Appending to and copying slices");
// the only observer, a comparison of a slice with nil, stays rejected (binary()).
func (t *fn) nilSlice(e ast.Node, want *ty) string {
	note := "a nil SLICE value is translated as the empty list (idealisation: lists carry no nil/empty distinction; a comparison of a slice with nil stays outside the subset)"
	seen := false
	for _, n := range t.notes {
		if n == note {
			seen = true
		}
	}
	if !seen {
		t.notes = append(t.notes, note)
	}
	return "([] : " + want.lean() + ")"
}

// plainViewOf: r is `p` or a slice expression `p[a:b]` of the in-out parameter p whose bounds
// do not mention a slice: its CONTENT at the return statement is exact in the value model.
func (t *fn) plainViewOf(r ast.Expr, p *types.Var) bool {
	switch x := ast.Unparen(r).(type) {
	case *ast.Ident:
		return t.pkg.info.ObjectOf(x) == types.Object(p)
	case *ast.SliceExpr:
		id, ok := ast.Unparen(x.X).(*ast.Ident)
		return ok && t.pkg.info.ObjectOf(id) == types.Object(p) && !x.Slice3
	}
	return false
}

// returnHasNoCall: no result of the return statement contains a call other than len/cap/min/max or a
// conversion: nothing evaluated in the statement can write the array after a view of it was taken.
func (t *fn) returnHasNoCall(rs *ast.ReturnStmt) bool {
	ok := true
	for _, r := range rs.Results {
		ast.Inspect(r, func(m ast.Node) bool {
			ce, isCall := m.(*ast.CallExpr)
			if !isCall {
				return true
			}
			if tv, isT := t.pkg.info.Types[ce.Fun]; isT && tv.IsType() {
				return true
			}
			if id, isId := ast.Unparen(ce.Fun).(*ast.Ident); isId {
				if b, isB := t.pkg.info.ObjectOf(id).(*types.Builtin); isB {
					switch b.Name() {
					case "len", "cap", "min", "max":
						return true
					}
				}
			}
			ok = false
			return false
		})
	}
	return ok
}

func (t *fn) noteAliasedResult(rs *ast.ReturnStmt, p *types.Var) {
	note := fmt.Sprintf("a result is a view of the in-out parameter `%s` (`%s` / `%s[a:b]`): the translation returns the CONTENT of that view at the return statement next to the updated `%s`; that the two share memory AFTER the call (aliasing of results with arguments) is NOT represented", p.Name(), p.Name(), p.Name(), p.Name())
	for _, n := range t.notes {
		if n == note {
			return
		}
	}
	t.notes = append(t.notes, note)
}

// rangeNoValue: `for i := range s` / `for range s` / `for i, _ := range s`: Go evaluates the range
// expression once (only its length is used, Go spec "For statements with range clause") and reads no
// element, so the snapshot taken before the loop supplies the limit and every read of `s` in the body
// goes through the threaded variable and sees the writes: exact whatever the body assigns.
func (t *fn) rangeNoValue(x *ast.RangeStmt) bool {
	if x.Value == nil {
		return true
	}
	id, ok := x.Value.(*ast.Ident)
	return ok && id.Name == "_"
}

// ---------------------------------------------------------------- map[K]struct{} used as a SET (wave 9, C14)
//
// A LOCAL variable `m := make(map[K]struct{}[, len(x)])` whose only uses are `m[k] = struct{}{}`,
// `_, ok := m[k]` and `len(m)` is translated as the list of its distinct keys (newest first):
// insert = cons unless present, lookup = membership, len = length.  Iteration order, the one thing a
// list has and a Go map has not, is not observable through these three operations, so the semantics
// is exact — PROVIDED `==` of the key type is an equivalence that Lean's equality models: ints,
// fixed-width integers, bools, strings, and type parameters (the translator's standing convention for
// `comparable` type parameters, as for `v == s[i]`; NOT true of an instantiation with floating-point
// or interface keys: NaN keys never compare equal, the generated header says so).
// Every other use of the variable (range, delete, passing it on, copying the reference, returning it,
// reading the value) stays rejected by the existing rules: its Go type is a map type, which
// goType refuses wherever an expression, parameter, result or assignment target is typed.

var setVarsOf = map[*fn]map[types.Object]bool{}

func (t *fn) setVar(e ast.Expr) (types.Object, bool) {
	id, ok := ast.Unparen(e).(*ast.Ident)
	if !ok {
		return nil, false
	}
	o := t.pkg.info.ObjectOf(id)
	return o, o != nil && setVarsOf[t][o]
}

func isEmptyStruct(tt types.Type) bool {
	s, ok := tt.Underlying().(*types.Struct)
	return ok && s.NumFields() == 0
}

// setStmt translates the three statement forms of a set-map; ok = false: x is none of them.
func (t *fn) setStmt(x *ast.AssignStmt) ([]string, bool) {
	// m := make(map[K]struct{}[, hint])
	if x.Tok == token.DEFINE && len(x.Lhs) == 1 && len(x.Rhs) == 1 {
		ce, isCall := ast.Unparen(x.Rhs[0]).(*ast.CallExpr)
		if !isCall || !t.isBuiltinCall(ce, "make") {
			return nil, false
		}
		mt, isMap := t.typeOf(ce).Underlying().(*types.Map)
		if !isMap {
			return nil, false
		}
		if !isEmptyStruct(mt.Elem()) {
			t.reject(x, "`%s`: only map[K]struct{} used as a set is in the subset", t.text(x))
		}
		kt, err := t.goType(mt.Key())
		if err != nil || !(kt.k == kInt || kt.k == kBV || kt.k == kBool || kt.k == kTParam || (kt.k == kList && kt.str)) {
			t.reject(x, "`%s`: the key type of a set-map must be an integer, bool, string or type-parameter type", t.text(x))
		}
		if len(ce.Args) > 2 {
			t.reject(x, "`%s`: make of a map with more than a size hint", t.text(x))
		}
		if len(ce.Args) == 2 {
			// the hint has no effect on the semantics (a negative hint does not panic for maps); its
			// EVALUATION must not panic either: len(<variable>) or a constant
			h := ast.Unparen(ce.Args[1])
			okHint := false
			if tv, has := t.pkg.info.Types[h]; has && tv.Value != nil {
				okHint = true
			}
			if hc, isC := h.(*ast.CallExpr); isC && t.isBuiltinCall(hc, "len") && len(hc.Args) == 1 {
				if _, isId := ast.Unparen(hc.Args[0]).(*ast.Ident); isId {
					okHint = true
				}
			}
			if !okHint {
				t.reject(x, "`%s`: the size hint of a set-map must be a constant or len(<variable>)", t.text(x))
			}
		}
		id, isId := x.Lhs[0].(*ast.Ident)
		if !isId || id.Name == "_" {
			t.reject(x, "`%s`: a set-map must be bound to a local variable", t.text(x))
		}
		o := t.pkg.info.Defs[id]
		if o == nil {
			t.reject(x, "`%s`: a set-map must be a NEW local variable", t.text(x))
		}
		if setVarsOf[t] == nil {
			setVarsOf[t] = map[types.Object]bool{}
		}
		setVarsOf[t][o] = true
		lt := &ty{k: kList, elem: kt}
		t.funcPar[o] = lt // varTy() consults this table first: the variable's Lean type
		note := fmt.Sprintf("map `%s` (%s) used as a SET: translated as the list of its distinct keys (insert = cons unless present, lookup = membership, len = length; iteration order is not observable through these); `==` of the key type is taken to be Lean's equality (not true of floating-point or interface keys: NaN)", id.Name, types.TypeString(mt, func(*types.Package) string { return "" }))
		t.notes = append(t.notes, note)
		return []string{fmt.Sprintf("let %s : %s := []", t.nameOf(o), lt.lean())}, true
	}
	// m[k] = struct{}{}
	if x.Tok == token.ASSIGN && len(x.Lhs) == 1 && len(x.Rhs) == 1 {
		ie, isIdx := ast.Unparen(x.Lhs[0]).(*ast.IndexExpr)
		if !isIdx {
			return nil, false
		}
		o, isSet := t.setVar(ie.X)
		if !isSet {
			return nil, false
		}
		cl, isLit := ast.Unparen(x.Rhs[0]).(*ast.CompositeLit)
		if !isLit || len(cl.Elts) != 0 || !isEmptyStruct(t.typeOf(cl)) {
			t.reject(x, "`%s`: a set-map is written only as m[k] = struct{}{}", t.text(x))
		}
		k := t.arg(ie.Index)
		m := t.nameOf(o)
		return []string{fmt.Sprintf("let %s : %s := (if %s.contains %s then %s else %s :: %s)", m, t.varTy(o).lean(), m, k, m, k, m)}, true
	}
	// _, ok := m[k]   /   _, ok = m[k]
	if (x.Tok == token.ASSIGN || x.Tok == token.DEFINE) && len(x.Lhs) == 2 && len(x.Rhs) == 1 {
		ie, isIdx := ast.Unparen(x.Rhs[0]).(*ast.IndexExpr)
		if !isIdx {
			return nil, false
		}
		o, isSet := t.setVar(ie.X)
		if !isSet {
			return nil, false
		}
		if id, isId := x.Lhs[0].(*ast.Ident); !isId || id.Name != "_" {
			t.reject(x, "`%s`: a set-map is read only as _, ok := m[k]", t.text(x))
		}
		k := t.arg(ie.Index)
		return t.assignTo(x.Lhs[1], fmt.Sprintf("(%s.contains %s)", t.nameOf(o), k)), true
	}
	return nil, false
}

// setLen: len(m) of a set-map.
func (t *fn) setLen(x *ast.CallExpr) (string, bool) {
	if len(x.Args) != 1 {
		return "", false
	}
	o, isSet := t.setVar(x.Args[0])
	if !isSet {
		return "", false
	}
	t.noteInt(x)
	return "(Int.ofNat " + t.nameOf(o) + ".length)", true
}
