// Package go2lean translates a subset of Go (functions of the library under
// verification) into total Lean 4 definitions over Golib.GoSem (shallow embedding).
// Soundness first: whatever is outside the subset is rejected with a reason.
package go2lean

import (
	"encoding/json"
	"fmt"
	"go/ast"
	"go/build"
	"go/importer"
	"go/parser"
	"go/token"
	"go/types"
	"os"
	"path/filepath"
	"sort"
	"strings"
)

// Target is one entry of tools/trans_targets.json.
type Target struct {
	File string `json:"file"` // relative to the tree, e.g. "ringz/sync.go"
	Name string `json:"name"` // "roundupPowOfTwo" or "Bits.Contains"
	// Fuel: Lean expression(s) over the parameters bounding the iterations of the
	// loops of the function, in source order (a single string = every loop).
	Fuel json.RawMessage `json:"fuel,omitempty"`
	// Extern: Go expression (source text) -> "name : LeanType": the expression becomes a
	// parameter of the translated function (random words, clocks).  It must occur exactly
	// once and outside every loop.
	Extern map[string]string `json:"extern,omitempty"`
	// ExternFunc: Go callee (source text of the called function, e.g. "md5.Sum") -> "name : LeanType":
	// a PURE function of the standard library becomes a function parameter of the translated function;
	// every call `md5.Sum(e)` is `(name e)`, any number of times, also inside loops.
	ExternFunc map[string]string `json:"extern_func,omitempty"`
	// ExternImpl: for the EXECUTION path only (trans-diff): callee -> Lean term (an executable
	// model of that standard-library function) passed for the extern function parameter by runTrans,
	// while the Go wrapper calls the real function; LeanImports: modules the term needs (core-only ones).
	ExternImpl  map[string]string `json:"extern_impl,omitempty"`
	LeanImports []string          `json:"lean_imports,omitempty"`
	// Theorem: the tie theorem in Props/<ID>.lean (drift exemption when it exists).
	Theorem string `json:"theorem,omitempty"`
	Model   string `json:"model,omitempty"` // the hand-written definition it is tied to (documentation)
	// Inst: instantiation of type parameters for the execution path (trans-diff), e.g. {"T": "int"}.
	Inst map[string]string `json:"inst,omitempty"`
	// Globals: package-level fixed-size arrays that become explicit state of the translated function
	// (a parameter; in-out when the function writes an element), e.g. ["decodeBase32Map"].
	Globals []string `json:"globals,omitempty"`
	// GoArgs: for the execution shim, a Go expression (over the extern parameter names) building a
	// Go parameter that the extern option dropped, e.g. {"r": "rand.New(transrt.Source64(k0))"};
	// GoImports: imports those expressions need.
	GoArgs    map[string]string `json:"go_args,omitempty"`
	GoImports []string          `json:"go_imports,omitempty"`
	// Limits: per protocol token of the execution path (receiver fields, parameters, externs, in
	// that order) an inclusive upper bound for generated integer arguments (0 = none): keeps
	// trans-diff away from arguments that make the real code allocate gigabytes.
	Limits []uint64 `json:"limits,omitempty"`
	// ArgMin: per protocol token an inclusive LOWER bound for generated signed integer arguments
	// (absent/null = none): a generated value below it is folded to min + |v| mod (limit+1) (limit
	// from Limits, 1000 when there is none).  For arguments the oracle cannot execute (a shift
	// count `uint(n)` for negative n is 2^64-|n|: Lean's Nat shift aborts).
	ArgMin []*int64 `json:"arg_min,omitempty"`
	// ResultViews: accept `return p` / `return p[a:b]` of a WRITTEN slice parameter p: the translation
	// returns the content of the view at the return statement next to the updated p; that result and
	// argument share memory after the call is not represented (the generated header says so).  Opt-in:
	// the property must cover that aliasing elsewhere (hand-written model, correspondence check).
	ResultViews bool `json:"result_views,omitempty"`
	// NoDiff: no trans-diff for this target (say why in Note).
	NoDiff bool   `json:"nodiff,omitempty"`
	Note   string `json:"note,omitempty"`
}

func (t Target) fuels() []string {
	if len(t.Fuel) == 0 {
		return nil
	}
	var s string
	if json.Unmarshal(t.Fuel, &s) == nil {
		return []string{s}
	}
	var ss []string
	if json.Unmarshal(t.Fuel, &ss) == nil {
		return ss
	}
	return nil
}

func (t Target) goArg(name string) (string, bool) {
	s, ok := t.GoArgs[name]
	return s, ok
}

// LeanName is the name of the generated definition: Recv_Method for methods.
func (t Target) LeanName() string {
	return strings.ReplaceAll(strings.ReplaceAll(t.Name, ".", "_"), "#", "_")
}

// TargetsFile maps a property id to its targets.
type TargetsFile map[string][]Target

func LoadTargets(path string) (TargetsFile, error) {
	b, err := os.ReadFile(path)
	if err != nil {
		return nil, err
	}
	var raw map[string]json.RawMessage
	if err := json.Unmarshal(b, &raw); err != nil {
		return nil, err
	}
	tf := TargetsFile{}
	for k, v := range raw {
		if strings.HasPrefix(k, "_") { // "_comment"
			continue
		}
		var ts []Target
		if err := json.Unmarshal(v, &ts); err != nil {
			return nil, fmt.Errorf("%s: %v", k, err)
		}
		tf[k] = ts
	}
	return tf, nil
}

func (tf TargetsFile) IDs() []string {
	var ids []string
	for k := range tf {
		ids = append(ids, k)
	}
	sort.Strings(ids)
	return ids
}

type pkgInfo struct {
	dir   string // relative to the tree
	path  string
	files []*ast.File
	names []string // file names, parallel to files
	srcs  map[string][]byte
	types *types.Package
	info  *types.Info
	errs  []types.Error
	funcs map[string]*ast.FuncDecl // "Name" or "Recv.Name"
}

type loader struct {
	repo    string
	modPath string
	fset    *token.FileSet
	pkgs    map[string]*pkgInfo
	loading map[string]bool
	std     types.Importer
}

func newLoader(repo string) *loader {
	l := &loader{repo: repo, fset: token.NewFileSet(), pkgs: map[string]*pkgInfo{}, loading: map[string]bool{}}
	l.modPath = "github.com/welllog/golib"
	if b, err := os.ReadFile(filepath.Join(repo, "go.mod")); err == nil {
		for _, ln := range strings.Split(string(b), "\n") {
			f := strings.Fields(ln)
			if len(f) >= 2 && f[0] == "module" {
				l.modPath = strings.Trim(f[1], `"`)
				break
			}
		}
	}
	l.std = importer.ForCompiler(l.fset, "source", nil)
	return l
}

// Import implements types.Importer: packages of the module are type-checked from the
// tree under verification, everything else from GOROOT sources (offline).
func (l *loader) Import(path string) (*types.Package, error) {
	if path == l.modPath || strings.HasPrefix(path, l.modPath+"/") {
		dir := strings.TrimPrefix(strings.TrimPrefix(path, l.modPath), "/")
		if dir == "" {
			dir = "."
		}
		p, err := l.load(dir)
		if err != nil {
			return nil, err
		}
		return p.types, nil
	}
	return l.std.Import(path)
}

func recvName(e ast.Expr) string {
	for {
		switch t := e.(type) {
		case *ast.StarExpr:
			e = t.X
		case *ast.IndexExpr:
			e = t.X
		case *ast.IndexListExpr:
			e = t.X
		case *ast.ParenExpr:
			e = t.X
		case *ast.Ident:
			return t.Name
		default:
			return ""
		}
	}
}

func (l *loader) load(dir string) (*pkgInfo, error) {
	if p, ok := l.pkgs[dir]; ok {
		return p, nil
	}
	if l.loading[dir] {
		return nil, fmt.Errorf("import cycle through %s", dir)
	}
	l.loading[dir] = true
	defer delete(l.loading, dir)
	abs := filepath.Join(l.repo, dir)
	ents, err := os.ReadDir(abs)
	if err != nil {
		return nil, err
	}
	p := &pkgInfo{dir: dir, srcs: map[string][]byte{}, funcs: map[string]*ast.FuncDecl{}}
	p.path = l.modPath
	if dir != "." {
		p.path = l.modPath + "/" + filepath.ToSlash(dir)
	}
	ctx := build.Default
	for _, e := range ents {
		n := e.Name()
		if e.IsDir() || !strings.HasSuffix(n, ".go") || strings.HasSuffix(n, "_test.go") {
			continue
		}
		if ok, err := ctx.MatchFile(abs, n); err != nil || !ok {
			continue
		}
		src, err := os.ReadFile(filepath.Join(abs, n))
		if err != nil {
			return nil, err
		}
		f, err := parser.ParseFile(l.fset, filepath.Join(abs, n), src, parser.ParseComments)
		if err != nil {
			return nil, fmt.Errorf("%s/%s does not parse: %v", dir, n, err)
		}
		p.files = append(p.files, f)
		p.names = append(p.names, n)
		p.srcs[n] = src
		for _, d := range f.Decls {
			if fd, ok := d.(*ast.FuncDecl); ok {
				k := fd.Name.Name
				if fd.Recv != nil && len(fd.Recv.List) > 0 {
					k = recvName(fd.Recv.List[0].Type) + "." + k
				}
				if k == "init" { // several per package: "init#0", "init#1", … in file order
					n := 0
					for p.funcs[fmt.Sprintf("init#%d", n)] != nil {
						n++
					}
					k = fmt.Sprintf("init#%d", n)
				}
				p.funcs[k] = fd
			}
		}
	}
	if len(p.files) == 0 {
		return nil, fmt.Errorf("no Go files in %s", dir)
	}
	p.info = &types.Info{
		Types:      map[ast.Expr]types.TypeAndValue{},
		Defs:       map[*ast.Ident]types.Object{},
		Uses:       map[*ast.Ident]types.Object{},
		Selections: map[*ast.SelectorExpr]*types.Selection{},
		Instances:  map[*ast.Ident]types.Instance{},
		Implicits:  map[ast.Node]types.Object{},
		Scopes:     map[ast.Node]*types.Scope{},
	}
	conf := types.Config{
		Importer:    l,
		FakeImportC: true,
		Error: func(err error) {
			if te, ok := err.(types.Error); ok {
				p.errs = append(p.errs, te)
			}
		},
	}
	tp, _ := conf.Check(p.path, l.fset, p.files, p.info) // permissive: errors are collected
	p.types = tp
	l.pkgs[dir] = p
	return p, nil
}

// fileOf returns the name of the file (within its package) a node belongs to.
func (l *loader) fileOf(pos token.Pos) string {
	return filepath.Base(l.fset.Position(pos).Filename)
}
