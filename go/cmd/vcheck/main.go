// vcheck runs one property check: ./check Cxx quick|thorough [--replay file]
package main

import (
	"os"

	"verifharness/internal/core"
	_ "verifharness/props/all"
)

func main() { os.Exit(core.Main(os.Args[1:])) }
