// go2lean translates the functions listed in tools/trans_targets.json from a tree of the
// library into Lean definitions (lean/Golib/Gen/Trans<ID>.lean) and, with -shim, generates the
// Go side of the execution path (copies of the packages with exported protocol wrappers).
//
//	go2lean -repo /repo -targets tools/trans_targets.json -id C10 -o lean/Golib/Gen/TransC10.lean
//	go2lean -repo /repo -targets tools/trans_targets.json -all -leandir lean/Golib/Gen
//	go2lean -repo /repo -targets tools/trans_targets.json -shim go/gen/trans
package main

import (
	"flag"
	"fmt"
	"os"
	"path/filepath"

	"verifharness/internal/go2lean"
)

func writeIfChanged(path string, content []byte) (bool, error) {
	old, err := os.ReadFile(path)
	if err == nil && string(old) == string(content) {
		return false, nil
	}
	if err := os.MkdirAll(filepath.Dir(path), 0o755); err != nil {
		return false, err
	}
	return true, os.WriteFile(path, content, 0o644)
}

func main() {
	repo := flag.String("repo", "/repo", "tree of the library")
	targets := flag.String("targets", "tools/trans_targets.json", "targets file")
	id := flag.String("id", "", "property id")
	out := flag.String("o", "", "output file (default stdout)")
	all := flag.Bool("all", false, "every property of the targets file (needs -leandir)")
	onlyMissing := flag.Bool("missing", false, "with -all: only write files that do not exist yet")
	leandir := flag.String("leandir", "", "directory of the Trans<ID>.lean files")
	shim := flag.String("shim", "", "generate the Go execution shim under this directory")
	verbose := flag.Bool("v", false, "report per function")
	flag.Parse()
	tf, err := go2lean.LoadTargets(*targets)
	if err != nil {
		fmt.Fprintln(os.Stderr, "go2lean:", err)
		os.Exit(2)
	}
	report := func(r *go2lean.Result) {
		for _, f := range r.Funcs {
			if f.OK {
				if *verbose {
					fmt.Fprintf(os.Stderr, "go2lean: %s %s: translated\n", r.ID, f.Key)
				}
			} else {
				fmt.Fprintf(os.Stderr, "go2lean: %s %s: NOT translated: %s\n", r.ID, f.Key, f.Reason)
			}
		}
	}
	switch {
	case *shim != "":
		if err := go2lean.GenShim(*repo, tf, *shim); err != nil {
			fmt.Fprintln(os.Stderr, "go2lean: shim:", err)
			os.Exit(1)
		}
	case *all:
		if *leandir == "" {
			fmt.Fprintln(os.Stderr, "go2lean: -all needs -leandir")
			os.Exit(2)
		}
		for _, k := range tf.IDs() {
			p := filepath.Join(*leandir, "Trans"+k+".lean")
			if *onlyMissing {
				if _, err := os.Stat(p); err == nil {
					continue
				}
			}
			r := go2lean.Generate(*repo, tf[k], k)
			report(r)
			if _, err := writeIfChanged(p, []byte(r.Lean)); err != nil {
				fmt.Fprintln(os.Stderr, "go2lean:", err)
				os.Exit(1)
			}
		}
	default:
		ts, ok := tf[*id]
		if !ok {
			fmt.Fprintf(os.Stderr, "go2lean: no targets for %q\n", *id)
			os.Exit(2)
		}
		r := go2lean.Generate(*repo, ts, *id)
		report(r)
		if *out == "" {
			fmt.Print(r.Lean)
			return
		}
		if _, err := writeIfChanged(*out, []byte(r.Lean)); err != nil {
			fmt.Fprintln(os.Stderr, "go2lean:", err)
			os.Exit(1)
		}
	}
}
