package c05

// Facts extractor of C05: regenerates lean/Golib/Gen/FactsC05.lean from algz/trie.go on
// every run. It extracts the expressions the Lean model (Golib/Model/C05Trie.lean) is
// built on — the repairs F3 (DFS depth in bytes) and F11 (an invalid byte is a private
// negative rune) among them — and Golib/Proof/C05Facts.lean proves by `decide` that each
// equals the literal the model mirrors. Targeted expressions only: reformatting,
// comments and the order of the functions in the file are not noticed.

import (
	"fmt"
	"go/ast"
	"go/token"
)

// X bundles source and writer; lookups panic with an error that Extract turns into the
// extractor error (→ `extractorOK := false`).
type X struct {
	S *Src
	W *FactsWriter
}

func (x X) Fail(format string, a ...any) { panic(fmt.Errorf(format, a...)) }

func (x X) One(fn, what string, pred func(ast.Node) bool) ast.Node {
	n, err := x.S.One(fn, what, pred)
	if err != nil {
		panic(err)
	}
	return n
}

func (x X) Find(fn, what string, want int, pred func(ast.Node) bool) []ast.Node {
	ns, err := x.S.Find(fn, what, want, pred)
	if err != nil {
		panic(err)
	}
	return ns
}

func (x X) Body(fn string) *ast.BlockStmt {
	b, err := x.S.Body(fn)
	if err != nil {
		panic(err)
	}
	return b
}

func (x X) Loops(fn, step string, want int) []*ast.ForStmt {
	ls, err := x.S.LoopsStepping(fn, step, want)
	if err != nil {
		panic(err)
	}
	return ls
}

// Stmts renders the direct statements of a block.
func (x X) Stmts(b *ast.BlockStmt) []string { return RenderList(x.S, b.List) }

// Head renders the first n direct statements of a block (fewer: error).
func (x X) Head(what string, b *ast.BlockStmt, n int) []string {
	if len(b.List) < n {
		x.Fail("%s: block has %d statements, expected at least %d", what, len(b.List), n)
	}
	return RenderList(x.S, b.List[:n])
}

// OnlyFor: the single `for` loop among the direct statements of a block.
func (x X) OnlyFor(what string, b *ast.BlockStmt) *ast.ForStmt {
	var out *ast.ForStmt
	for _, st := range b.List {
		if f, ok := st.(*ast.ForStmt); ok {
			if out != nil {
				x.Fail("%s: more than one top-level for loop", what)
			}
			out = f
		}
	}
	if out == nil {
		x.Fail("%s: no top-level for loop", what)
	}
	return out
}

// ForHeader renders `init; cond; post` of a for loop.
func (x X) ForHeader(f *ast.ForStmt) string {
	return x.S.Render(f.Init) + "; " + x.S.Render(f.Cond) + "; " + x.S.Render(f.Post)
}

// IfParts: condition, then-statements, else-statements (else-if is rendered whole).
func (x X) IfParts(n ast.Node) (cond string, then, els []string) {
	i, ok := n.(*ast.IfStmt)
	if !ok {
		x.Fail("not an if statement: %s", x.S.Render(n))
	}
	cond = x.S.Render(i.Cond)
	if i.Init != nil {
		cond = x.S.Render(i.Init) + "; " + cond
	}
	then = x.Stmts(i.Body)
	switch e := i.Else.(type) {
	case nil:
	case *ast.BlockStmt:
		els = x.Stmts(e)
	default:
		els = []string{x.S.Render(e)}
	}
	return
}

// Extract runs f and converts a lookup panic into an error.
func Extract(id string, repo string, f func(x X)) (content string, err error) {
	s, err := LoadSrc(repo)
	if err != nil {
		return "", err
	}
	w := NewFactsWriter(id, "algz/trie.go")
	defer func() {
		if r := recover(); r != nil {
			content, err = "", fmt.Errorf("extractor: %v", r)
		}
	}()
	f(X{S: s, W: w})
	return w.Done(id)
}

func facts(repo string) (string, error) {
	return Extract("C05", repo, func(x X) {
		EmitDecodeFacts(x)
		EmitBsearchFacts(x)
		emitInsertFacts(x)
		emitBuildFacts(x)
		EmitFindFacts(x)
		emitMatchFacts(x)
		emitSearchFacts(x)
		emitQueueFacts(x)
	})
}

// EmitDecodeFacts: decodeRune / runeLen / writeRune and who decodes how (F11).
func EmitDecodeFacts(x X) {
	s, w := x.S, x.W
	isCall := func(name string) func(*ast.FuncDecl, ast.Node) bool {
		return func(_ *ast.FuncDecl, n ast.Node) bool { return s.IsCallTo(n, name) }
	}
	w.Strs("decodeRuneCallers", "functions calling `decodeRune` (sorted)", s.FuncsWhere(isCall("decodeRune")))
	w.Strs("writeRuneCallers", "functions calling the helper `writeRune` (sorted)", s.FuncsWhere(isCall("writeRune")))
	w.Strs("runeLenCallers", "functions calling the helper `runeLen` (sorted)", s.FuncsWhere(isCall("runeLen")))
	w.Strs("bufWriteRuneCallers", "functions calling a method `.WriteRune` (sorted)",
		s.FuncsWhere(func(_ *ast.FuncDecl, n ast.Node) bool { return IsMethodCall(n, "WriteRune") }))
	w.Strs("stdDecodeCallers", "functions calling utf8.DecodeRune / DecodeRuneInString / DecodeLastRune… (sorted)",
		s.FuncsWhere(func(_ *ast.FuncDecl, n ast.Node) bool {
			c, ok := n.(*ast.CallExpr)
			if !ok {
				return false
			}
			f := s.Render(c.Fun)
			return len(f) > 11 && f[:11] == "utf8.Decode"
		}))
	w.Strs("rangeOverString", "functions that `range` over (or `[]rune`-convert) a string parameter (sorted)", s.RangesOverString())

	// decodeRune
	fd := s.Funcs["decodeRune"]
	if fd == nil {
		x.Fail("function decodeRune not found")
	}
	w.Str("decodeSig", "signature of decodeRune", s.Render(fd.Type))
	b := fd.Body
	if len(b.List) != 4 {
		x.Fail("decodeRune: %d top-level statements, expected 4", len(b.List))
	}
	c, t, e := x.IfParts(b.List[0])
	w.Str("decodeAsciiCond", "decodeRune: condition of the ASCII fast path", c)
	w.Strs("decodeAsciiThen", "decodeRune: the ASCII fast path", t)
	if e != nil {
		x.Fail("decodeRune: unexpected else of the fast path")
	}
	w.Str("decodeStd", "decodeRune: the standard decoding step", s.Render(b.List[1]))
	c, t, e = x.IfParts(b.List[2])
	w.Str("decodeInvalidCond", "decodeRune: condition of the invalid-byte branch (F11)", c)
	w.Strs("decodeInvalidThen", "decodeRune: what the invalid-byte branch returns (F11)", t)
	if e != nil {
		x.Fail("decodeRune: unexpected else of the invalid-byte branch")
	}
	w.Str("decodeRet", "decodeRune: final return", s.Render(b.List[3]))

	// runeLen: no text facts any more — its body is regenerated by go2lean on every run
	// (lean/Golib/Gen/TransC05.lean) and tied to the model by c05_trans_runeLen / c05_trans_runeLen_any.

	// writeRune
	b = x.Body("writeRune")
	if len(b.List) != 2 {
		x.Fail("writeRune: %d top-level statements, expected 2", len(b.List))
	}
	c, t, _ = x.IfParts(b.List[0])
	w.Str("writeRuneCond", "writeRune: condition", c)
	w.Strs("writeRuneThen", "writeRune: then-branch", t)
	w.Str("writeRuneElse", "writeRune: final statement", s.Render(b.List[1]))
}

// bsearch renders one of the two binary searches: prologue, loop header, loop body, epilogue.
func bsearch(x X, fn, pfx string) {
	s, w := x.S, x.W
	b := x.Body(fn)
	loop := x.OnlyFor(fn, b)
	var pre, post []string
	seen := false
	for _, st := range b.List {
		switch {
		case st == ast.Stmt(loop):
			seen = true
		case !seen:
			pre = append(pre, s.Render(st))
		default:
			post = append(post, s.Render(st))
		}
	}
	w.Strs(pfx+"Pre", fn+": statements before the loop (for `index`: bounds and the early-out)", pre)
	w.Str(pfx+"Loop", fn+": loop header `init; cond; post`", x.ForHeader(loop))
	if len(loop.Body.List) != 2 {
		x.Fail("%s: loop body has %d statements, expected 2", fn, len(loop.Body.List))
	}
	w.Str(pfx+"Mid", fn+": the midpoint", s.Render(loop.Body.List[0]))
	// flatten the if / else-if / else chain
	var conds, arms []string
	var cur ast.Stmt = loop.Body.List[1]
	for cur != nil {
		i, ok := cur.(*ast.IfStmt)
		if !ok {
			blk, ok := cur.(*ast.BlockStmt)
			if !ok {
				x.Fail("%s: unexpected else form", fn)
			}
			arms = append(arms, join(x.Stmts(blk)))
			break
		}
		if i.Init != nil {
			x.Fail("%s: if with init statement", fn)
		}
		conds = append(conds, s.Render(i.Cond))
		arms = append(arms, join(x.Stmts(i.Body)))
		cur = i.Else
	}
	w.Strs(pfx+"Conds", fn+": the comparisons of the if / else-if chain in the loop, in order", conds)
	w.Strs(pfx+"Arms", fn+": the branches of that chain (last = else), in order", arms)
	w.Strs(pfx+"Post", fn+": statements after the loop", post)
}

func join(xs []string) string {
	out := ""
	for i, v := range xs {
		if i > 0 {
			out += "; "
		}
		out += v
	}
	return out
}

// EmitBsearchFacts: `index` and `findChildIndex`.
func EmitBsearchFacts(x X) {
	bsearch(x, "*Trie.index", "index")
	bsearch(x, "*Trie.findChildIndex", "findChild")
}

func emitInsertFacts(x X) {
	s, w := x.S, x.W
	fn := "*Trie.Insert"
	b := x.Body(fn)
	loop := x.OnlyFor(fn, b)
	c, t, _ := x.IfParts(b.List[0])
	w.Str("insertGuard", "Insert: the empty-pattern guard", c+" → "+join(t))
	w.Str("insertLoop", "Insert: loop header", x.ForHeader(loop))
	w.Strs("insertHead", "Insert: first statements of the loop body (decode, advance i, THEN search: size = offset after the rune)", x.Head(fn, loop.Body, 3))
	if len(loop.Body.List) != 4 {
		x.Fail("%s: loop body has %d statements, expected 4", fn, len(loop.Body.List))
	}
	c, t, e := x.IfParts(loop.Body.List[3])
	w.Str("insertCond", "Insert: condition for creating a child", c)
	w.Strs("insertThen", "Insert: create + shift + store", t)
	w.Strs("insertElse", "Insert: descend into the existing child", e)
	w.Str("insertNewNode", "Insert: the node literal", s.Render(x.One(fn, "&trieNode{…}", func(n ast.Node) bool {
		u, ok := n.(*ast.UnaryExpr)
		return ok && u.Op == token.AND && s.IsLit(u.X, "trieNode")
	})))
	w.Str("insertEnd", "Insert: last statement", s.Render(b.List[len(b.List)-1]))
	w.Strs("isEndWriters", "functions assigning to a field `.isEnd` (sorted)", s.FuncsWhere(func(_ *ast.FuncDecl, n ast.Node) bool {
		a, ok := n.(*ast.AssignStmt)
		if !ok {
			return false
		}
		for _, l := range a.Lhs {
			if se, ok := l.(*ast.SelectorExpr); ok && se.Sel.Name == "isEnd" {
				return true
			}
		}
		return false
	}))
}

func emitBuildFacts(x X) {
	s, w := x.S, x.W
	fn := "*Trie.BuildFailureLinks"
	init := x.One(fn, "call of .Init", func(n ast.Node) bool { return IsMethodCall(n, "Init") }).(*ast.CallExpr)
	if len(init.Args) != 1 {
		x.Fail("%s: Init with %d arguments", fn, len(init.Args))
	}
	w.Nat("queueInitCap", "BuildFailureLinks: N of `queue.Init(N)`", s.Render(init.Args[0]))
	b := x.Body(fn)
	var seed *ast.RangeStmt
	var bfs *ast.ForStmt
	for _, st := range b.List {
		switch v := st.(type) {
		case *ast.RangeStmt:
			if seed != nil {
				x.Fail("%s: two top-level range loops", fn)
			}
			seed = v
		case *ast.ForStmt:
			if bfs != nil {
				x.Fail("%s: two top-level for loops", fn)
			}
			bfs = v
		}
	}
	if seed == nil || bfs == nil {
		x.Fail("%s: seed loop or BFS loop not found", fn)
	}
	w.Str("seedRange", "BuildFailureLinks: what the first loop ranges over", s.Render(seed.X))
	w.Strs("seedBody", "BuildFailureLinks: body of the first loop", x.Stmts(seed.Body))
	w.Str("bfsLoop", "BuildFailureLinks: header of the queue loop", x.ForHeader(bfs))
	if len(bfs.Body.List) != 2 {
		x.Fail("%s: queue loop body has %d statements, expected 2", fn, len(bfs.Body.List))
	}
	w.Str("bfsPop", "BuildFailureLinks: first statement of the queue loop", s.Render(bfs.Body.List[0]))
	kids, ok := bfs.Body.List[1].(*ast.RangeStmt)
	if !ok {
		x.Fail("%s: second statement of the queue loop is not a range loop", fn)
	}
	w.Str("bfsRange", "BuildFailureLinks: the inner range loop `key, value := range X`", s.Render(kids.Key)+", "+s.Render(kids.Value)+" := range "+s.Render(kids.X))
	walk := x.Loops(fn, "failNode = failNode.fail", 1)[0]
	w.Str("failInit", "BuildFailureLinks: where the walk starts", s.Render(x.One(fn, "failNode := …", func(n ast.Node) bool {
		a, ok := n.(*ast.AssignStmt)
		return ok && a.Tok == token.DEFINE && s.IsAssignTo(n, "failNode")
	})))
	w.Str("failWalkLoop", "BuildFailureLinks: header of the walk along the fail links", x.ForHeader(walk))
	w.Strs("failWalkBody", "BuildFailureLinks: body of the walk", x.Stmts(walk.Body))
	var after []string
	seen := false
	for _, st := range kids.Body.List {
		if st == ast.Stmt(walk) {
			seen = true
			continue
		}
		if seen {
			after = append(after, s.Render(st))
		}
	}
	w.Strs("failAssign", "BuildFailureLinks: statements after the walk (set child.fail, push)", after)
}

// EmitFindFacts: the automaton loop of `find` (shared by FindAll / Replace / ReplaceWithMask).
func EmitFindFacts(x X) {
	s, w := x.S, x.W
	fn := "*Trie.find"
	b := x.Body(fn)
	loop := x.OnlyFor(fn, b)
	w.Str("findLoop", "find: header of the text loop", x.ForHeader(loop))
	w.Strs("findHead", "find: first statements of the loop body (decode, advance i, index)", x.Head(fn, loop.Body, 3))
	fb := x.Loops(fn, "node = node.fail", 1)[0]
	w.Str("findFallbackCond", "find: condition of the fallback loop", s.Render(fb.Cond))
	w.Strs("findFallbackBody", "find: body of the fallback loop", x.Stmts(fb.Body))
	ow := x.Loops(fn, "tempNode = tempNode.fail", 1)[0]
	w.Str("findOutCond", "find: condition of the output walk", s.Render(ow.Cond))
	w.Strs("findOutBody", "find: body of the output walk", x.Stmts(ow.Body))
	w.Str("findScope", "find: the scope emitted for a node with isEnd", s.Render(x.One(fn, "scope literal", func(n ast.Node) bool { return s.IsLit(n, "scope") })))
	if len(loop.Body.List) != 5 {
		x.Fail("%s: loop body has %d statements, expected 5", fn, len(loop.Body.List))
	}
	c, t, e := x.IfParts(loop.Body.List[4])
	if len(t) != 3 || e != nil {
		x.Fail("%s: unexpected shape of the `if idx >= 0` statement", fn)
	}
	w.Str("findStepCond", "find: condition for taking the child", c)
	w.Strs("findStepHead", "find: first two statements of that branch", t[:2])
}

func emitMatchFacts(x X) {
	s, w := x.S, x.W
	fn := "*Trie.Match"
	b := x.Body(fn)
	loop := x.OnlyFor(fn, b)
	w.Str("matchLoop", "Match: header of the text loop", x.ForHeader(loop))
	w.Strs("matchHead", "Match: first statements of the loop body", x.Head(fn, loop.Body, 3))
	fb := x.Loops(fn, "node = node.fail", 1)[0]
	w.Str("matchFallbackCond", "Match: condition of the fallback loop", s.Render(fb.Cond))
	w.Strs("matchFallbackBody", "Match: body of the fallback loop", x.Stmts(fb.Body))
	ow := x.Loops(fn, "tempNode = tempNode.fail", 1)[0]
	w.Str("matchOutCond", "Match: condition of the output walk", s.Render(ow.Cond))
	w.Strs("matchOutBody", "Match: body of the output walk", x.Stmts(ow.Body))
	w.Str("matchRet", "Match: last statement", s.Render(b.List[len(b.List)-1]))
}

func emitSearchFacts(x X) {
	s, w := x.S, x.W
	for _, f := range []struct{ fn, sfx string }{{"*Trie.PrefixSearch", "Prefix"}, {"*Trie.FuzzySearch", "Fuzzy"}} {
		fn := f.fn
		back := x.One(fn, "back := …", func(n ast.Node) bool { return s.IsAssignTo(n, "back") }).(*ast.AssignStmt)
		w.Str("back"+f.sfx, fn+": RHS of `back :=` (F3: bytes, not runes)", s.Render(back.Rhs[0]))
		lits := x.Find(fn, "trieFrame literal", 2, func(n ast.Node) bool { return s.IsLit(n, "trieFrame") })
		var depths []string
		for _, l := range lits {
			cl := l.(*ast.CompositeLit)
			d := ""
			if len(cl.Elts) == 3 {
				if _, kv := cl.Elts[0].(*ast.KeyValueExpr); !kv {
					d = s.Render(cl.Elts[1])
				}
			}
			for _, e := range cl.Elts {
				if kv, ok := e.(*ast.KeyValueExpr); ok && s.Render(kv.Key) == "depth" {
					d = s.Render(kv.Value)
				}
			}
			if d == "" {
				x.Fail("%s: depth of %s not found", fn, s.Render(l))
			}
			depths = append(depths, d)
		}
		w.Strs("frameDepths"+f.sfx, fn+": depth field of the trieFrame pushes, in source order (initial push, child push)", depths)
		tr := x.One(fn, "call of .Truncate", func(n ast.Node) bool { return IsMethodCall(n, "Truncate") }).(*ast.CallExpr)
		w.Str("truncate"+f.sfx, fn+": the call of Truncate", s.Render(tr))
		wr := x.One(fn, "call of writeRune", func(n ast.Node) bool { return s.IsCallTo(n, "writeRune") })
		w.Str("write"+f.sfx, fn+": how a popped rune is written", s.Render(wr))
		dfs := x.One(fn, "for len(stack) > 0", func(n ast.Node) bool {
			l, ok := n.(*ast.ForStmt)
			return ok && l.Init == nil && l.Post == nil && s.Render(l.Cond) == "len(stack) > 0"
		}).(*ast.ForStmt)
		w.Strs("dfsHead"+f.sfx, fn+": first statements of the DFS loop (pop, write, collect)", x.Head(fn, dfs.Body, 5))
		if len(dfs.Body.List) != 7 {
			x.Fail("%s: DFS loop body has %d statements, expected 7", fn, len(dfs.Body.List))
		}
		c, t, _ := x.IfParts(dfs.Body.List[5])
		w.Str("leafCond"+f.sfx, fn+": the leaf test of the DFS loop", c)
		w.Strs("leafBody"+f.sfx, fn+": the leaf branch (break on empty stack, truncate, continue)", t)
		push, ok := dfs.Body.List[6].(*ast.RangeStmt)
		if !ok {
			x.Fail("%s: last statement of the DFS loop is not a range loop", fn)
		}
		w.Str("pushRange"+f.sfx, fn+": what the child push ranges over", s.Render(push.X))
	}
	// the key walks
	fn := "*Trie.PrefixSearch"
	walk := x.Find(fn, "for loops with a post-less three-clause header", 1, func(n ast.Node) bool {
		l, ok := n.(*ast.ForStmt)
		return ok && l.Init != nil
	})[0].(*ast.ForStmt)
	w.Str("prefixWalkLoop", "PrefixSearch: header of the key walk", x.ForHeader(walk))
	w.Strs("prefixWalkBody", "PrefixSearch: body of the key walk (no fallback)", x.Stmts(walk.Body))
	fn = "*Trie.FuzzySearch"
	loops := x.Loops(fn, "node = node.fail", 2)
	w.Str("fuzzyFallbackCond", "FuzzySearch: condition of the fallback loop", s.Render(loops[0].Cond))
	w.Strs("fuzzyFallbackBody", "FuzzySearch: body of the fallback loop", x.Stmts(loops[0].Body))
	w.Str("fuzzyOuterCond", "FuzzySearch: condition of the outer fail-chain loop", s.Render(loops[1].Cond))
	w.Strs("fuzzyOuterHead", "FuzzySearch: first statements of the outer loop", x.Head(fn, loops[1].Body, 3))
	n := len(loops[1].Body.List)
	w.Strs("fuzzyOuterTail", "FuzzySearch: last statements of the outer loop", RenderList(s, loops[1].Body.List[n-2:]))
	short := x.One(fn, "the leaf shortcut", func(n ast.Node) bool {
		i, ok := n.(*ast.IfStmt)
		return ok && len(FindIn(i.Cond, func(m ast.Node) bool { return s.Render(m) == "node.fail" })) > 0
	})
	c, t, _ := x.IfParts(short)
	w.Str("fuzzyShortCond", "FuzzySearch: condition of the leaf shortcut", c)
	w.Strs("fuzzyShortBody", "FuzzySearch: body of the leaf shortcut", t)
}

func emitQueueFacts(x X) {
	w := x.W
	for _, f := range []struct{ fn, name string }{
		{"*trieNodeQueue.Init", "queueInit"}, {"*trieNodeQueue.IsFull", "queueIsFull"},
		{"*trieNodeQueue.IsEmpty", "queueIsEmpty"}, {"*trieNodeQueue.Push", "queuePush"},
		{"*trieNodeQueue.Pop", "queuePop"},
	} {
		w.Strs(f.name, f.fn+": top-level statements", x.Stmts(x.Body(f.fn)))
	}
}
