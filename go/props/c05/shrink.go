package c05

import (
	"strings"
	"time"
	"unicode/utf8"

	"verifharness/internal/core"
)

// Shrinker returns a case minimiser for the trie protocols (used by C05 and C06):
// delete op lines, delete patterns, then delete single runes (an invalid byte counts
// as one rune) from patterns and from the hex arguments of the ops, as long as the
// same failure key is still reported.
func Shrinker() func(c core.Case, fails func(core.Case) bool) core.Case {
	return func(c core.Case, fails func(core.Case) bool) core.Case {
		budget := 4000
		// wall-clock bound as well: one evaluation of a big case (a trie of 10^5 nodes) takes
		// around a second, 4000 of them would hold the verdict back for an hour
		deadline := time.Now().Add(25 * time.Second)
		try := func(lines []string) bool {
			if budget <= 0 || time.Now().After(deadline) {
				budget = 0
				return false
			}
			budget--
			return fails(core.Case{Lines: lines, Seed: c.Seed, Tag: c.Tag})
		}
		cur := append([]string{}, c.Lines...)
		without := func(xs []string, i int) []string {
			out := append([]string{}, xs[:i]...)
			return append(out, xs[i+1:]...)
		}
		// hexArg: is token j of line i a hex byte string that may be shrunk / deleted?
		hexArg := func(i, j int, tk []string) bool {
			if i == 0 {
				return j >= 3
			}
			return j == 1 || (j == 2 && tk[0] == "replace")
		}
		for changed := true; changed && budget > 0; {
			changed = false
			// 1. op lines
			for i := len(cur) - 1; i >= 1 && len(cur) > 2; i-- {
				if t := without(cur, i); try(t) {
					cur = t
					changed = true
				}
			}
			// 2. patterns
			hdr := strings.Fields(cur[0])
			for j := len(hdr) - 1; j >= 3; j-- {
				t := append([]string{}, cur...)
				t[0] = strings.Join(without(hdr, j), " ")
				if try(t) {
					cur = t
					hdr = strings.Fields(cur[0])
					changed = true
				}
			}
			// 3. single runes of patterns and arguments
			for i := 0; i < len(cur); i++ {
				tk := strings.Fields(cur[i])
				for j := 0; j < len(tk); j++ {
					if !hexArg(i, j, tk) {
						continue
					}
					b, ok := Unhex(tk[j])
					if !ok {
						continue
					}
					for k := 0; k < len(b); {
						_, n := utf8.DecodeRune(b[k:])
						nb := append(append([]byte{}, b[:k]...), b[k+n:]...)
						if i == 0 && len(nb) == 0 {
							k += n
							continue // deleting a whole pattern is step 2
						}
						ntk := append([]string{}, tk...)
						ntk[j] = Hex(nb)
						t := append([]string{}, cur...)
						t[i] = strings.Join(ntk, " ")
						if try(t) {
							cur, tk, b = t, ntk, nb
							changed = true
						} else {
							k += n
						}
					}
				}
			}
		}
		return core.Case{Lines: cur, Seed: c.Seed, Tag: c.Tag}
	}
}
