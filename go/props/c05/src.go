package c05

// Source access for the Facts extractors of C05 and C06 (C06 imports this package):
// algz/trie.go parsed with go/parser; sub-expressions rendered with go/printer and
// whitespace-normalised, so that reformatting, comments and the order of the functions
// in the file do not matter. Every lookup states how many matches it expects; anything
// else is an error (the extractor then writes `extractorOK := false`).

import (
	"bytes"
	"fmt"
	"go/ast"
	"go/parser"
	"go/printer"
	"go/token"
	"path/filepath"
	"sort"
	"strings"
)

// Src is the parsed algz/trie.go.
type Src struct {
	fset  *token.FileSet
	File  *ast.File
	Funcs map[string]*ast.FuncDecl // "*Trie.Insert", "decodeRune", …
}

// LoadSrc parses <repo>/algz/trie.go.
func LoadSrc(repo string) (*Src, error) {
	fset := token.NewFileSet()
	f, err := parser.ParseFile(fset, filepath.Join(repo, "algz", "trie.go"), nil, 0)
	if err != nil {
		return nil, err
	}
	s := &Src{fset: fset, File: f, Funcs: map[string]*ast.FuncDecl{}}
	for _, d := range f.Decls {
		fd, ok := d.(*ast.FuncDecl)
		if !ok || fd.Body == nil {
			continue
		}
		name := fd.Name.Name
		if fd.Recv != nil && len(fd.Recv.List) == 1 {
			name = s.Render(fd.Recv.List[0].Type) + "." + name
		}
		if _, dup := s.Funcs[name]; dup {
			return nil, fmt.Errorf("function %s declared twice", name)
		}
		s.Funcs[name] = fd
	}
	return s, nil
}

// Render prints a node on one line with single spaces (comments are not printed).
func (s *Src) Render(n ast.Node) string {
	if n == nil {
		return ""
	}
	var buf bytes.Buffer
	_ = printer.Fprint(&buf, s.fset, n)
	return strings.Join(strings.Fields(buf.String()), " ")
}

// RenderList renders statements / expressions one by one.
func RenderList[T ast.Node](s *Src, xs []T) []string {
	out := make([]string, len(xs))
	for i, x := range xs {
		out[i] = s.Render(x)
	}
	return out
}

// Body returns the body of a function.
func (s *Src) Body(fn string) (*ast.BlockStmt, error) {
	fd, ok := s.Funcs[fn]
	if !ok {
		return nil, fmt.Errorf("function %s not found", fn)
	}
	return fd.Body, nil
}

// FindIn lists, in source order, the nodes below root that satisfy pred.
func FindIn(root ast.Node, pred func(ast.Node) bool) []ast.Node {
	var out []ast.Node
	ast.Inspect(root, func(n ast.Node) bool {
		if n != nil && pred(n) {
			out = append(out, n)
		}
		return true
	})
	return out
}

// Find lists the nodes of function fn that satisfy pred; want is the exact count.
func (s *Src) Find(fn, what string, want int, pred func(ast.Node) bool) ([]ast.Node, error) {
	b, err := s.Body(fn)
	if err != nil {
		return nil, err
	}
	ns := FindIn(b, pred)
	if len(ns) != want {
		return nil, fmt.Errorf("%s: %s found %d times, expected %d", fn, what, len(ns), want)
	}
	return ns, nil
}

// One is Find with want = 1.
func (s *Src) One(fn, what string, pred func(ast.Node) bool) (ast.Node, error) {
	ns, err := s.Find(fn, what, 1, pred)
	if err != nil {
		return nil, err
	}
	return ns[0], nil
}

// IsCallTo: n is a call whose function renders as name (`decodeRune`, `utf8.RuneLen`).
func (s *Src) IsCallTo(n ast.Node, name string) bool {
	c, ok := n.(*ast.CallExpr)
	return ok && s.Render(c.Fun) == name
}

// IsMethodCall: n is a call `<anything>.<sel>(…)`.
func IsMethodCall(n ast.Node, sel string) bool {
	c, ok := n.(*ast.CallExpr)
	if !ok {
		return false
	}
	se, ok := c.Fun.(*ast.SelectorExpr)
	return ok && se.Sel.Name == sel
}

// IsAssignTo: n is an assignment / short declaration whose only left side renders as lhs.
func (s *Src) IsAssignTo(n ast.Node, lhs string) bool {
	a, ok := n.(*ast.AssignStmt)
	return ok && len(a.Lhs) == 1 && len(a.Rhs) == 1 && s.Render(a.Lhs[0]) == lhs
}

// IsLit: n is a composite literal of the named type.
func (s *Src) IsLit(n ast.Node, typ string) bool {
	c, ok := n.(*ast.CompositeLit)
	return ok && c.Type != nil && s.Render(c.Type) == typ
}

// LoopsStepping lists the `for` loops of fn whose body has, as a direct statement, the
// assignment `step` (e.g. `node = node.fail`).
func (s *Src) LoopsStepping(fn, step string, want int) ([]*ast.ForStmt, error) {
	ns, err := s.Find(fn, "for loop containing `"+step+"`", want, func(n ast.Node) bool {
		f, ok := n.(*ast.ForStmt)
		if !ok {
			return false
		}
		for _, st := range f.Body.List {
			if s.Render(st) == step {
				return true
			}
		}
		return false
	})
	if err != nil {
		return nil, err
	}
	out := make([]*ast.ForStmt, len(ns))
	for i, n := range ns {
		out[i] = n.(*ast.ForStmt)
	}
	return out, nil
}

// FuncsWhere lists (sorted) the functions of the file whose body has a node satisfying pred.
func (s *Src) FuncsWhere(pred func(fd *ast.FuncDecl, n ast.Node) bool) []string {
	out := []string{}
	for name, fd := range s.Funcs {
		fd := fd
		if len(FindIn(fd.Body, func(n ast.Node) bool { return pred(fd, n) })) > 0 {
			out = append(out, name)
		}
	}
	sort.Strings(out)
	return out
}

// stringParams: names of the parameters of fd declared with type `string`.
func (s *Src) stringParams(fd *ast.FuncDecl) map[string]bool {
	ps := map[string]bool{}
	if fd.Type.Params == nil {
		return ps
	}
	for _, fl := range fd.Type.Params.List {
		if s.Render(fl.Type) != "string" {
			continue
		}
		for _, n := range fl.Names {
			ps[n.Name] = true
		}
	}
	return ps
}

// mentions: the expression contains an identifier of the set.
func mentions(e ast.Node, names map[string]bool) bool {
	return len(FindIn(e, func(n ast.Node) bool {
		id, ok := n.(*ast.Ident)
		return ok && names[id.Name]
	})) > 0
}

// RangesOverString lists the functions that `range` over an expression mentioning one of
// their string parameters, or convert one with `[]rune(…)` (both decode an invalid byte
// to U+FFFD, which is what the F11 repair removed).
func (s *Src) RangesOverString() []string {
	return s.FuncsWhere(func(fd *ast.FuncDecl, n ast.Node) bool {
		sp := s.stringParams(fd)
		switch x := n.(type) {
		case *ast.RangeStmt:
			return mentions(x.X, sp)
		case *ast.CallExpr:
			return s.Render(x.Fun) == "[]rune" && len(x.Args) == 1 && mentions(x.Args[0], sp)
		}
		return false
	})
}

// ---- writer for the generated Lean file

// FactsWriter accumulates `def`s of one generated facts file; the first error sticks.
type FactsWriter struct {
	sb  strings.Builder
	err error
}

func NewFactsWriter(id, from string) *FactsWriter {
	w := &FactsWriter{}
	fmt.Fprintf(&w.sb, "-- generated by vcheck (go/props/%s/facts.go) from %s on every run; do not edit\n", strings.ToLower(id), from)
	fmt.Fprintf(&w.sb, "namespace Golib.Gen.%s\n", id)
	w.sb.WriteString("def extractorOK : Bool := true\n")
	return w
}

// Fail records the first error.
func (w *FactsWriter) Fail(err error) {
	if w.err == nil && err != nil {
		w.err = err
	}
}

func (w *FactsWriter) Failed() bool { return w.err != nil }

func leanStr(s string) string {
	var sb strings.Builder
	sb.WriteByte('"')
	for _, r := range s {
		switch {
		case r == '"' || r == '\\':
			sb.WriteByte('\\')
			sb.WriteRune(r)
		case r == '\n':
			sb.WriteString("\\n")
		case r == '\t':
			sb.WriteString("\\t")
		case r < 0x20 || r == 0x7f:
			fmt.Fprintf(&sb, "\\x%02x", r)
		default:
			sb.WriteRune(r)
		}
	}
	sb.WriteByte('"')
	return sb.String()
}

func (w *FactsWriter) doc(doc string) {
	doc = strings.ReplaceAll(doc, "-/", "- /")
	fmt.Fprintf(&w.sb, "/-- %s -/\n", doc)
}

func (w *FactsWriter) Str(name, doc, val string) {
	w.doc(doc)
	fmt.Fprintf(&w.sb, "def %s : String := %s\n", name, leanStr(val))
}

func (w *FactsWriter) Strs(name, doc string, vals []string) {
	w.doc(doc)
	q := make([]string, len(vals))
	for i, v := range vals {
		q[i] = leanStr(v)
	}
	fmt.Fprintf(&w.sb, "def %s : List String := [%s]\n", name, strings.Join(q, ", "))
}

func (w *FactsWriter) Nat(name, doc, val string) {
	for _, c := range val {
		if c < '0' || c > '9' {
			w.Fail(fmt.Errorf("%s: %q is not a decimal literal", name, val))
			return
		}
	}
	if val == "" {
		w.Fail(fmt.Errorf("%s: empty literal", name))
		return
	}
	w.doc(doc)
	fmt.Fprintf(&w.sb, "def %s : Nat := %s\n", name, val)
}

func (w *FactsWriter) Bool(name, doc string, val bool) {
	w.doc(doc)
	fmt.Fprintf(&w.sb, "def %s : Bool := %v\n", name, val)
}

// Done returns the file content or the first error.
func (w *FactsWriter) Done(id string) (string, error) {
	if w.err != nil {
		return "", w.err
	}
	fmt.Fprintf(&w.sb, "end Golib.Gen.%s\n", id)
	return w.sb.String(), nil
}
