package c05

// Generators. A pattern / text / key is built as a sequence of "units" (a unit is
// one rune of the alphabet, or — in the malformed stream — a byte fragment), so
// that prefix / suffix / infix derivations stay aligned with what the code decodes.
// All randomness comes from the *core.Rand passed in.

import (
	"fmt"
	"strings"

	"verifharness/internal/core"
)

// Seq is a unit sequence.
type Seq []string

func (s Seq) Bytes() []byte { return []byte(strings.Join(s, "")) }

func (s Seq) Clone() Seq { return append(Seq{}, s...) }

// Unit picks one unit.
type Unit func(r *core.Rand) string

var alphabet = []string{"a", "b", "c", "é", "你", "😀"}

// MainUnit: the 6-rune alphabet {a,b,c,é,你,😀} (1,1,1,2,3,4 bytes), slightly biased
// to multi-byte runes.
func MainUnit(r *core.Rand) string {
	return alphabet[r.Pick(3, 3, 2, 3, 3, 2)]
}

// multi-byte only
func multiUnit(r *core.Rand) string { return alphabet[3+r.Intn(3)] }

var wideAlphabet = []string{"a", "b", "c", "d", "e", "f", "g", "h", "é", "ñ", "你", "好", "😀", "😁"}

var malFragments = []string{
	"\xff", "\xe4", "\xbd", "\xe4\xbd", "\xf0\x9f\x98", "\xc0\xaf", "\xed\xa0\x80", "\xef\xbf\xbd",
	"\xa0", "\xef\xbf", "\xef", "\xbf", "\xc3", "\xa9", "\xf0", "\x9f",
	// boundaries of the encoding: U+007F, stray 0x80, U+0080, U+07FF, U+0800, U+D7FF, U+E000,
	// U+FFFF, U+10000, U+10FFFF, one beyond (F4 90 80 80), overlong NUL, 0xFE
	"\x7f", "\x80", "\xc2\x80", "\xdf\xbf", "\xe0\xa0\x80", "\xed\x9f\xbf", "\xee\x80\x80",
	"\xef\xbf\xbf", "\xf0\x90\x80\x80", "\xf4\x8f\xbf\xbf", "\xf4\x90\x80\x80", "\xc0\x80", "\xfe", "\x00",
}

// MalUnit: invalid-UTF-8 fragments, genuine U+FFFD, and alphabet runes.
func MalUnit(r *core.Rand) string {
	switch r.Pick(45, 15, 40) {
	case 0:
		// the first 8 are the named fragments; the rest are pieces of alphabet runes
		if r.Chance(75) {
			return malFragments[r.Intn(8)]
		}
		return malFragments[r.Intn(len(malFragments))]
	case 1:
		return "\xef\xbf\xbd"
	default:
		return MainUnit(r)
	}
}

var rawBytes = []byte{0xff, 0xe4, 0xbd, 0xa0, 0xef, 0xbf, 0xbd, 0x61, 0x62, 0xc3, 0xa9, 0xf0, 0x9f, 0x98, 0x80, 0xed, 0xc0, 0xaf, 0x00, 0x7f, 0x80, 0xfe}

// RawUnit: a single byte from a small set (so that collisions happen), sometimes fully random.
func RawUnit(r *core.Rand) string {
	if r.Chance(15) {
		return string(r.Bytes(1))
	}
	return string([]byte{rawBytes[r.Intn(len(rawBytes))]})
}

func RandSeq(r *core.Rand, u Unit, lo, hi int) Seq {
	n := r.Range(lo, hi)
	s := make(Seq, n)
	for i := range s {
		s[i] = u(r)
	}
	return s
}

func otherUnit(r *core.Rand, u Unit, not string) string {
	for i := 0; i < 8; i++ {
		if x := u(r); x != not {
			return x
		}
	}
	return u(r)
}

// GenPatterns builds n patterns that share prefixes / suffixes / infixes.
// maxLen bounds the units per pattern.
func GenPatterns(r *core.Rand, u Unit, n, maxLen int) []Seq {
	pats := []Seq{RandSeq(r, u, 1, maxLen)}
	if r.Chance(30) && maxLen >= 3 {
		// a fan below a multi-byte rune: w·m·x, w·m·y, … (two or more children under m)
		w := RandSeq(r, u, 0, 1)
		m := u(r)
		for i := 0; i < 4 && len(m) == 1; i++ { // prefer a multi-byte unit
			m = u(r)
		}
		base := append(w.Clone(), m)
		pats[0] = append(base.Clone(), u(r))
		k := r.Range(1, 2)
		for i := 0; i < k && len(pats) < n; i++ {
			p := append(base.Clone(), otherUnit(r, u, pats[0][len(base)]))
			if r.Chance(40) {
				p = append(p, u(r))
			}
			pats = append(pats, p)
		}
	}
	for len(pats) < n {
		base := pats[r.Intn(len(pats))]
		var p Seq
		if len(base) == 0 {
			p = RandSeq(r, u, 1, maxLen)
		} else {
			switch r.Pick(14, 14, 8, 16, 22, 8, 14, 4) {
			case 0: // prefix of
				p = base[:r.Range(1, len(base))].Clone()
			case 1: // suffix of
				p = base[r.Intn(len(base)):].Clone()
			case 2: // infix of
				i := r.Intn(len(base))
				j := r.Range(i+1, len(base))
				p = base[i:j].Clone()
			case 3: // extension of
				if r.Chance(70) {
					p = append(base.Clone(), RandSeq(r, u, 1, 2)...)
				} else {
					p = append(RandSeq(r, u, 1, 2), base...)
				}
			case 4: // sibling: same prefix, different next unit (two children under one node)
				k := r.Intn(len(base))
				p = append(base[:k].Clone(), otherUnit(r, u, base[k]))
				if r.Chance(50) {
					p = append(p, RandSeq(r, u, 1, 2)...)
				}
			case 5: // exact duplicate
				p = base.Clone()
			case 6:
				p = RandSeq(r, u, 1, maxLen)
			case 7: // empty pattern (Insert ignores it)
				p = Seq{}
			}
		}
		if len(p) > maxLen {
			if r.Bool() {
				p = p[:maxLen]
			} else {
				p = p[len(p)-maxLen:]
			}
		}
		pats = append(pats, p)
	}
	return pats
}

func NonEmpty(pats []Seq) []Seq {
	var out []Seq
	for _, p := range pats {
		if len(p) > 0 {
			out = append(out, p)
		}
	}
	return out
}

func Fragment(r *core.Rand, p Seq) Seq {
	if len(p) == 0 {
		return p
	}
	switch r.Intn(3) {
	case 0:
		return p[:r.Range(1, len(p))]
	case 1:
		return p[r.Intn(len(p)):]
	default:
		i := r.Intn(len(p))
		return p[i:r.Range(i+1, len(p))]
	}
}

// GenText assembles a text of at most maxUnits units from patterns, pattern
// fragments and random units, so that occurrences overlap / nest / touch often.
func GenText(r *core.Rand, u Unit, pats []Seq, maxUnits int) Seq {
	return GenTextW(r, u, pats, maxUnits, 45, 30, 25)
}

// GenTextW: GenText with explicit weights for whole pattern / fragment / random unit.
func GenTextW(r *core.Rand, u Unit, pats []Seq, maxUnits, wPat, wFrag, wRand int) Seq {
	ne := NonEmpty(pats)
	target := r.Range(0, maxUnits)
	if r.Chance(60) && target < maxUnits/2 {
		target = r.Range(maxUnits/2, maxUnits)
	}
	var t Seq
	for len(t) < target {
		switch {
		case len(ne) == 0:
			t = append(t, u(r))
		default:
			switch r.Pick(wPat, wFrag, wRand) {
			case 0:
				t = append(t, ne[r.Intn(len(ne))]...)
			case 1:
				t = append(t, Fragment(r, ne[r.Intn(len(ne))])...)
			default:
				t = append(t, u(r))
			}
		}
	}
	if len(t) > maxUnits {
		if r.Bool() {
			t = t[:maxUnits]
		} else {
			t = t[len(t)-maxUnits:]
		}
	}
	return t
}

// GenPrefixKey: prefixes of patterns (empty key, proper prefix, whole pattern,
// pattern + extra unit, a prefix followed by a non-matching unit), random keys;
// with cut=true also byte cuts in the middle of a unit.
func GenPrefixKey(r *core.Rand, u Unit, pats []Seq, cut bool) []byte {
	ne := NonEmpty(pats)
	if len(ne) == 0 {
		return RandSeq(r, u, 0, 2).Bytes()
	}
	p := ne[r.Intn(len(ne))]
	// prefer patterns that have a multi-byte unit
	for i := 0; i < 2; i++ {
		if len(p.Bytes()) == len(p) {
			p = ne[r.Intn(len(ne))]
		}
	}
	cw := 0
	if cut {
		cw = 12
	}
	switch r.Pick(8, 42, 14, 9, 12, 8, cw) {
	case 0:
		return nil
	case 1:
		if len(p) == 1 {
			return p.Bytes()
		}
		return p[:r.Range(1, len(p)-1)].Bytes()
	case 2:
		return p.Bytes()
	case 3:
		return append(p.Clone(), u(r)).Bytes()
	case 4:
		k := r.Intn(len(p))
		return append(p[:k].Clone(), otherUnit(r, u, p[k])).Bytes()
	case 5:
		return RandSeq(r, u, 1, 3).Bytes()
	default:
		b := p.Bytes()
		return b[:r.Range(0, len(b))]
	}
}

// GenFuzzyKey: junk (random units / pattern fragments) followed by a pattern
// prefix / suffix / infix / whole pattern, so that the fallback along failure links
// and the outer fail-chain loop run.
func GenFuzzyKey(r *core.Rand, u Unit, pats []Seq) []byte {
	ne := NonEmpty(pats)
	if len(ne) == 0 {
		return RandSeq(r, u, 0, 3).Bytes()
	}
	var junk Seq
	for k := r.Range(0, 3); k > 0; k-- {
		if r.Chance(50) {
			junk = append(junk, u(r))
		} else {
			junk = append(junk, Fragment(r, ne[r.Intn(len(ne))])...)
		}
	}
	p := ne[r.Intn(len(ne))]
	switch r.Pick(5, 35, 22, 14, 10, 9, 5) {
	case 0:
		return nil
	case 1:
		return append(junk, p[:r.Range(1, len(p))]...).Bytes()
	case 2:
		return append(junk, p[r.Intn(len(p)):]...).Bytes()
	case 3:
		return append(junk, p...).Bytes()
	case 4:
		return append(junk, Fragment(r, p)...).Bytes()
	case 5:
		return RandSeq(r, u, 1, 4).Bytes()
	default:
		q := ne[r.Intn(len(ne))]
		return append(p[:r.Range(1, len(p))].Clone(), q[:r.Range(1, len(q))]...).Bytes()
	}
}

// GenWidePatterns: 12–40 short patterns so that the breadth-first queue of
// BuildFailureLinks (capacity 10, doubling) grows — with the 6-rune alphabet the
// growth happens after pops (head%cap != 0, wrapped copy); with the 14-rune
// alphabet more than 10 root children make it grow with head == 0 as well.
func GenWidePatterns(r *core.Rand) ([]Seq, Unit) {
	alpha := alphabet
	if r.Chance(45) {
		alpha = wideAlphabet
	}
	u := func(r *core.Rand) string { return alpha[r.Intn(len(alpha))] }
	total := r.Range(12, 40)
	perm := make([]int, len(alpha))
	for i := range perm {
		perm[i] = i
	}
	for i := len(perm) - 1; i > 0; i-- {
		j := r.Intn(i + 1)
		perm[i], perm[j] = perm[j], perm[i]
	}
	nf := r.Range(4, 6)
	if len(alpha) > 6 {
		nf = r.Range(6, len(alpha))
	}
	var pats []Seq
	for len(pats) < total {
		f := alpha[perm[r.Intn(nf)]]
		p := Seq{f}
		for k := r.Pick(1, 5, 4); k > 0; k-- {
			p = append(p, u(r))
		}
		pats = append(pats, p)
	}
	return pats, u
}

func SeqsBytes(pats []Seq) [][]byte {
	out := make([][]byte, len(pats))
	for i, p := range pats {
		out[i] = p.Bytes()
	}
	return out
}

// GenDeepPatterns: 20–60 short patterns (1–5 units) over a 2–3 letter alphabet: a
// bushy trie several levels deep, so that the breadth-first queue of BuildFailureLinks
// grows 10→20→40(→80) while it is wrapped (head%cap != 0) and nodes of three depths are
// queued at once; the order in which the ring is copied on growth then decides whether a
// node is processed before the shallower nodes its failure walk needs. Most patterns
// are suffixes / extensions of each other, so wrong failure links lose occurrences.
func GenDeepPatterns(r *core.Rand) ([]Seq, Unit) {
	var alpha []string
	switch r.Pick(45, 25, 20, 10) {
	case 0:
		alpha = []string{"a", "b", "c"}
	case 1:
		alpha = []string{"a", "b"}
	case 2:
		alpha = []string{"a", "b", alphabet[3+r.Intn(3)]}
	default:
		alpha = []string{"a", alphabet[3+r.Intn(3)], "c", "b"}
	}
	u := func(r *core.Rand) string { return alpha[r.Intn(len(alpha))] }
	total := r.Range(20, 60)
	maxLen := r.Range(3, 5)
	if r.Chance(12) {
		// big: three or four levels with more than 20 nodes each, so that after two
		// wrapped growths nodes of three depths are queued together
		total, maxLen = r.Range(60, 100), 6
	}
	var pats []Seq
	seen := map[string]bool{}
	for tries := 0; len(pats) < total && tries < 8*total; tries++ {
		var p Seq
		if len(pats) > 0 && r.Chance(35) {
			base := pats[r.Intn(len(pats))]
			switch r.Intn(3) {
			case 0: // proper suffix (the target of a failure link)
				p = base[r.Intn(len(base)):].Clone()
			case 1: // extension
				p = append(base.Clone(), u(r))
			default: // sibling
				p = append(base[:len(base)-1].Clone(), u(r))
			}
			if len(p) > maxLen {
				p = p[len(p)-maxLen:]
			}
		} else {
			p = RandSeq(r, u, 1, maxLen)
		}
		k := strings.Join(p, "")
		if seen[k] && !r.Chance(5) { // few duplicates: the point is many nodes
			continue
		}
		seen[k] = true
		pats = append(pats, p)
	}
	return pats, u
}

// Stream picks a generator stream: 0 main (~74%), 1 wide (~7%), 2 malformed (~12%), 3 deep (~7%).
func Stream(r *core.Rand) int { return r.Pick(74, 7, 12, 7) }

// GenTrie returns the patterns of one case, the unit picker for its texts and the tag.
func GenTrie(r *core.Rand) (pats []Seq, u Unit, tag string) {
	switch Stream(r) {
	case 0:
		return GenPatterns(r, MainUnit, r.Range(1, 6), 5), MainUnit, "main"
	case 1:
		pats, u = GenWidePatterns(r)
		return pats, u, "wide"
	case 3:
		pats, u = GenDeepPatterns(r)
		return pats, u, "deep"
	default:
		u = MalUnit
		if r.Chance(25) {
			u = RawUnit
		}
		return GenPatterns(r, u, r.Range(1, 6), 5), u, "malformed"
	}
}

func gen(r *core.Rand, tier string) core.Case {
	if r.Intn(1000) < LargeShare(tier) {
		return genLarge(r, tier)
	}
	if r.Chance(9) {
		return genHistory(r, tier)
	}
	pats, u, tag := GenTrie(r)
	lines := []string{Header("C05", SeqsBytes(pats))}
	// structural dump first (independent of the queries): 1 case in 3, 1 in 2 for the
	// many-pattern streams; the draw is made in any case so that the case stream does
	// not depend on whether the reflected layout is available
	pct := 33
	if tag != "main" && tag != "malformed" {
		pct = 50
	}
	if r.Chance(pct) && DumpAvailable() {
		lines = append(lines, "dump")
	}
	nops := r.Range(3, 8)
	for i := 0; i < nops; i++ {
		lines = append(lines, genQuery(r, u, pats, nil, tag == "malformed"))
	}
	return core.Case{Lines: lines, Tag: tag}
}

// genQuery: one query line; focus (may be nil) = texts worth asking about.
func genQuery(r *core.Rand, u Unit, pats, focus []Seq, cut bool) string {
	text := func() Seq {
		if len(focus) > 0 && r.Chance(55) {
			f := focus[r.Intn(len(focus))]
			return append(append(RandSeq(r, u, 0, 2), f...), RandSeq(r, u, 0, 2)...)
		}
		return GenText(r, u, pats, 12)
	}
	if r.Chance(6) {
		// the previous result (the last string of the last non-empty list) is fed back in
		return []string{"match", "findall", "prefix", "fuzzy"}[r.Pick(15, 35, 25, 25)] + " ^"
	}
	if r.Chance(3) {
		// an independent second trie (copy of the zero value) between two calls on this one
		p := RandSeq(r, u, 1, 3)
		return "sibling " + Hex(p.Bytes()) + " " + Hex(append(append(RandSeq(r, u, 0, 2), p...), p...).Bytes())
	}
	switch r.Pick(18, 34, 28, 20) {
	case 0:
		// sparser texts for Match so that `false` and "only a nested pattern occurs" are common
		if len(focus) == 0 && r.Bool() {
			return "match " + Hex(GenTextW(r, u, pats, 12, 8, 47, 45).Bytes())
		}
		return "match " + Hex(text().Bytes())
	case 1:
		return "findall " + Hex(text().Bytes())
	case 2:
		return "prefix " + Hex(GenPrefixKey(r, u, pats, cut))
	default:
		if len(focus) > 0 && r.Chance(40) {
			return "fuzzy " + Hex(focus[r.Intn(len(focus))].Bytes())
		}
		return "fuzzy " + Hex(GenFuzzyKey(r, u, pats))
	}
}

// genHistory: Insert…, Build, queries, then 1–3 more rounds of Insert…, Build, dump,
// queries on the same trie.
func genHistory(r *core.Rand, tier string) core.Case {
	pats, u, later := HistoryBase(r)
	lines := []string{Header("C05", SeqsBytes(pats))}
	if r.Chance(6) {
		// Insert… without BuildFailureLinks: queries meet nil failure links (outside the
		// property, not judged; a panic is recovered), then the first build comes late
		lines[0] = strings.Replace(lines[0], " trie", " raw", 1)
		for n := r.Range(1, 2); n > 0; n-- {
			lines = append(lines, genQuery(r, u, pats, nil, false))
		}
		lines = append(lines, "build")
	}
	if r.Chance(40) && DumpAvailable() {
		lines = append(lines, "dump")
	}
	for n := r.Range(0, 2); n > 0; n-- {
		lines = append(lines, genQuery(r, u, pats, nil, false))
	}
	rounds := r.Range(1, 2)
	if tier == "thorough" && r.Chance(30) {
		rounds = 3
	}
	for k := 0; k < rounds; k++ {
		newp, focus := NextRound(r, u, pats)
		if len(later) > 0 && (k == rounds-1 || r.Bool()) {
			newp, later = append(newp, later...), nil
		}
		for _, p := range newp {
			lines = append(lines, "insert "+Hex(p.Bytes()))
		}
		if len(newp) > 0 && r.Chance(25) {
			// queries before the rebuild: not judged; a panic is recovered and the build
			// that follows must leave the trie as good as freshly built
			all := append(append([]Seq{}, pats...), newp...)
			for n := r.Range(1, 2); n > 0; n-- {
				lines = append(lines, genQuery(r, u, all, focus, false))
			}
		}
		lines = append(lines, "build")
		pats = append(pats, newp...)
		if r.Chance(70) && DumpAvailable() {
			lines = append(lines, "dump")
		}
		for n := r.Range(2, 4); n > 0; n-- {
			lines = append(lines, genQuery(r, u, pats, focus, false))
		}
	}
	return core.Case{Lines: lines, Tag: "history"}
}

func hx(s string) string { return Hex([]byte(s)) }

func mk(pats []string, ops ...string) core.Case {
	bs := make([][]byte, len(pats))
	for i, p := range pats {
		bs[i] = []byte(p)
	}
	lines := []string{Header("C05", bs)}
	for _, o := range ops {
		t := strings.SplitN(o, " ", 2)
		lines = append(lines, fmt.Sprintf("%s %s", t[0], hx(t[1])))
	}
	return core.Case{Lines: lines}
}

// hist builds a history case: rounds[0] in the header, every later round as
// `insert`s + `build` + `dump`, followed by the given queries after every build.
func hist(id string, rounds [][]string, ops ...string) core.Case {
	bs := func(ps []string) [][]byte {
		out := make([][]byte, len(ps))
		for i, p := range ps {
			out[i] = []byte(p)
		}
		return out
	}
	lines := []string{Header(id, bs(rounds[0]))}
	add := func() {
		for _, o := range ops {
			t := strings.Fields(o)
			for j := 1; j < len(t); j++ {
				if !(t[0] == "mask" && j == 2) {
					t[j] = hx(t[j])
				}
			}
			lines = append(lines, strings.Join(t, " "))
		}
	}
	add()
	for _, rd := range rounds[1:] {
		for _, p := range rd {
			lines = append(lines, "insert "+hx(p))
		}
		lines = append(lines, "build")
		if id == "C05" {
			lines = append(lines, "dump")
		}
		add()
	}
	return core.Case{Lines: lines, Tag: "history"}
}

// HistoryCorpus: later patterns inside earlier ones (old nodes need new failure links),
// an empty first build, a rebuild with nothing new, a duplicate arriving later.
func HistoryCorpus(id string, ops ...string) []core.Case {
	return []core.Case{
		hist(id, [][]string{{"abcd", "xbcy"}, {"bc", "c"}}, ops...),
		hist(id, [][]string{{"ushers"}, {"she", "he"}, {"hers", "s"}}, ops...),
		hist(id, [][]string{{}, {"a你b", "你"}, {}, {"你b", "a你b"}}, ops...),
		hist(id, [][]string{{"a\xffb"}, {"\xff", "\xffb"}}, ops...),
	}
}

func corpus() []core.Case {
	var wide36, wide14 []string
	for _, a := range alphabet {
		for _, b := range alphabet {
			wide36 = append(wide36, a+b)
		}
	}
	for _, a := range wideAlphabet {
		wide14 = append(wide14, a+"x", a+"y")
	}
	cases := []core.Case{
		// F3: backtracking over a multi-byte rune in the DFS of PrefixSearch / FuzzySearch
		mk([]string{"你好", "你们"}, "prefix 你"),
		mk([]string{"你好", "你们"}, "fuzzy 你"),
		mk([]string{"你好", "你们", "你"}, "prefix ", "fuzzy x你", "prefix 你好"),
		mk([]string{"éa", "éb", "éc😀", "é"}, "prefix é", "fuzzy aé", "fuzzy é"),
		// F11: invalid bytes vs a genuine U+FFFD
		mk([]string{"\xef\xbf\xbd"}, "match \xff", "findall \xff", "prefix \xff"),
		mk([]string{"\xef\xbf\xbd"}, "findall \xff"),
		mk([]string{"\xef\xbf\xbd"}, "prefix \xff", "fuzzy \xff"),
		mk([]string{"\xff"}, "match \xef\xbf\xbd", "findall \xef\xbf\xbd", "prefix \xef\xbf\xbd", "fuzzy \xef\xbf\xbd", "match \xff", "findall a\xffb"),
		mk([]string{"a\xffb", "a\xfeb", "\xe4\xbd"}, "findall a\xfeb", "match a\xffb", "prefix a", "findall 你", "findall \xe4\xbd\xe4\xbd"),
		// nested / suffix patterns (classic Aho–Corasick example)
		mk([]string{"he", "she", "his", "hers"}, "findall ushers", "match ushers", "match hi", "prefix h", "prefix ", "fuzzy sh", "fuzzy ushe", "findall hishers"),
		mk([]string{"a", "ab", "bab", "bc", "bca", "c", "caa"}, "findall abccab", "findall babcaa", "fuzzy abc"),
		// duplicates, empty pattern, empty text / key
		mk([]string{"ab", "ab", "", "b", "ab"}, "findall abab", "prefix ", "prefix a", "fuzzy ", "match ", "findall ", "fuzzy b"),
		mk([]string{""}, "match a", "findall a", "prefix ", "prefix a", "fuzzy ", "fuzzy a"),
		mk(nil, "match abc", "findall abc", "prefix ", "fuzzy a"),
		// multi-byte overlaps
		mk([]string{"你😀", "😀é", "é你😀", "😀"}, "findall é你😀é", "match 你é", "prefix 😀", "fuzzy 你😀"),
		// wide sets: the BFS queue crosses capacity 10 and 20 (wrapped growth), and 10 with head==0
		mk(wide36, "findall abc你😀é", "prefix 你", "fuzzy b😀", "match cc"),
		mk(wide14, "findall axbyhx😁y", "prefix 好", "fuzzy dy", "match zz"),
	}
	// structural dumps (only when the reflected layout of algz.Trie is as expected)
	var abc39 []string
	for _, a := range []string{"a", "b", "c"} {
		abc39 = append(abc39, a)
		for _, b := range []string{"a", "b", "c"} {
			abc39 = append(abc39, a+b)
			for _, c := range []string{"a", "b", "c"} {
				abc39 = append(abc39, a+b+c)
			}
		}
	}
	var abc39len []string // the same set ordered by length (all 1, all 2, all 3)
	for l := 1; l <= 3; l++ {
		for _, p := range abc39 {
			if len(p) == l {
				abc39len = append(abc39len, p)
			}
		}
	}
	cases = append(cases,
		withDump(mk([]string{"he", "she", "his", "hers"}, "findall ushers")),
		withDump(mk([]string{"hers", "his", "she", "he", "he"}, "fuzzy she")),
		withDump(mk([]string{"你好", "你们"}, "prefix 你")),
		withDump(mk([]string{"a\xffb", "a\xef\xbf\xbdb", "\xffb", "\xef\xbf\xbd", "\xe4\xbd", "你"}, "findall a\xffb")),
		withDump(mk([]string{"c", "b", "a", "é", "ab", "aa", "😀a", "a😀"}, "match a")),
		withDump(mk([]string{"a", "ab", "bab", "bc", "bca", "c", "caa"}, "findall abccab")),
		withDump(mk([]string{"abcab", "bcabx", "cab", "abx"}, "fuzzy abcab")),
		withDump(mk([]string{""}, "match a")),
		withDump(mk(nil, "match a")),
		// the BFS queue grows (wrapped) once, twice, three times: fail links of deep nodes
		withDump(mk(wide36, "match cc")),
		withDump(mk(wide14, "match zz")),
		withDump(mk(abc39, "findall abcabc")),
		withDump(mk(abc39len, "findall cbacba")),
		// sparse deep sets over {a,b,c}: the queue grows twice while wrapped and nodes of depth ≥ 4
		// are popped late — a queue that hands the nodes out in a rotated order after a
		// wrapped growth leaves fail links of deep nodes at the root (seen only in the dump)
		withDump(mk(strings.Fields("ccba abbbb caa acc bbb abaaaa bcc aabac aabab baaa cbcb acb aca bba bca bab cab abbbc bcb cac abca"), "findall abaaaabac", "fuzzy abaaaa")),
		withDump(mk(strings.Fields("acabc aacb baa bac cab bba ccc acb abac abbb bca cca cba cbc ccb acaa bbb bcb bbc abbc bcc"), "findall acabcabbc", "fuzzy acabc")),
	)
	cases = append(cases, BigCorpus("C05", func(text []byte) []string {
		return []string{"match " + Hex(text), "findall " + Hex(text), "match " + Hex(text[200:300])}
	}))
	// histories: Insert…, Build, Insert…, Build
	cases = append(cases, HistoryCorpus("C05", "findall abcdushersa你b", "match xbc", "fuzzy abcd", "prefix a", "findall a\xffb")...)
	return cases
}
