package c05

// Helpers shared by the C05 and C06 packages (C06 imports this package): hex
// transport, naive byte-level occurrence scanning, UTF-8 predicates, and the
// naive trie-shape / queue simulation used only for classification labels.
// Nothing here touches algz.Trie or the Lean model.

import (
	"bytes"
	"encoding/hex"
	"sort"
	"strings"
	"unicode/utf8"
)

// Hex encodes bytes as lower-case hex, "-" for the empty string.
func Hex(b []byte) string {
	if len(b) == 0 {
		return "-"
	}
	return hex.EncodeToString(b)
}

// Unhex decodes Hex's format.
func Unhex(s string) ([]byte, bool) {
	if s == "-" {
		return []byte{}, true
	}
	b, err := hex.DecodeString(s)
	if err != nil {
		return nil, false
	}
	return b, true
}

// ShowList prints a []string as `[hex hex …]`.
func ShowList(xs []string) string {
	var sb strings.Builder
	sb.WriteByte('[')
	for i, x := range xs {
		if i > 0 {
			sb.WriteByte(' ')
		}
		sb.WriteString(Hex([]byte(x)))
	}
	sb.WriteByte(']')
	return sb.String()
}

// ParseList parses ShowList's format.
func ParseList(s string) ([][]byte, bool) {
	if len(s) < 2 || s[0] != '[' || s[len(s)-1] != ']' {
		return nil, false
	}
	var out [][]byte
	for _, f := range strings.Fields(s[1 : len(s)-1]) {
		b, ok := Unhex(f)
		if !ok {
			return nil, false
		}
		out = append(out, b)
	}
	return out, true
}

// HeaderPatterns returns the patterns of a header line `@ Cxx trie <hex>…` in
// insertion order (empty ones included).
func HeaderPatterns(line string) ([][]byte, bool) {
	t := strings.Fields(line)
	if len(t) < 3 || (t[2] != "trie" && t[2] != "raw") {
		return nil, false
	}
	var ps [][]byte
	for _, h := range t[3:] {
		b, ok := Unhex(h)
		if !ok {
			return nil, false
		}
		ps = append(ps, b)
	}
	return ps, true
}

// Header builds the header line.
func Header(id string, pats [][]byte) string {
	var sb strings.Builder
	sb.WriteString("@ " + id + " trie")
	for _, p := range pats {
		sb.WriteByte(' ')
		sb.WriteString(Hex(p))
	}
	return sb.String()
}

// HasInvalidByte: some position (in Go's decoding order) decodes as (RuneError, 1).
func HasInvalidByte(b []byte) bool {
	for i := 0; i < len(b); {
		r, n := utf8.DecodeRune(b[i:])
		if r == utf8.RuneError && n == 1 {
			return true
		}
		i += n
	}
	return false
}

// HasFFFD: contains a genuine (3-byte) U+FFFD.
func HasFFFD(b []byte) bool {
	for i := 0; i < len(b); {
		r, n := utf8.DecodeRune(b[i:])
		if r == utf8.RuneError && n == 3 {
			return true
		}
		i += n
	}
	return false
}

// PatSet is what the naive oracles know about a pattern set.
type PatSet struct {
	All      [][]byte // as inserted
	P        [][]byte // distinct non-empty, first-insertion order
	Valid    bool     // every pattern valid UTF-8
	AnyInval bool     // some pattern contains an invalid byte
	AnyFFFD  bool     // some pattern contains a genuine U+FFFD
	index    map[string]int
}

func NewPatSet(all [][]byte) *PatSet {
	ps := &PatSet{All: all, Valid: true, index: map[string]int{}}
	for _, p := range all {
		if len(p) == 0 {
			continue
		}
		if _, dup := ps.index[string(p)]; dup {
			continue
		}
		ps.index[string(p)] = len(ps.P)
		ps.P = append(ps.P, p)
		if HasInvalidByte(p) {
			ps.AnyInval = true
			ps.Valid = false
		}
		if HasFFFD(p) {
			ps.AnyFFFD = true
		}
	}
	return ps
}

// Has: s is one of the inserted non-empty patterns.
func (ps *PatSet) Has(s []byte) bool {
	_, ok := ps.index[string(s)]
	return ok
}

// Conflation: on this argument the (pre-F11) decoder can confuse an invalid byte
// with a genuine U+FFFD: some pattern holds an invalid byte, or the argument does
// and some pattern holds a genuine U+FFFD.
func (ps *PatSet) Conflation(arg []byte) bool {
	return ps.AnyInval || (ps.AnyFFFD && HasInvalidByte(arg))
}

// Occ is one occurrence of P[Pat] at text[Start:Stop].
type Occ struct{ Pat, Start, Stop int }

// Occurrences lists every (pattern, position) occurrence by naive byte scanning,
// ordered by end position ascending, longer pattern first.
func (ps *PatSet) Occurrences(text []byte) []Occ {
	var occ []Occ
	for end := 1; end <= len(text); end++ {
		first := len(occ)
		for k, p := range ps.P {
			if len(p) <= end && bytes.Equal(text[end-len(p):end], p) {
				o := Occ{k, end - len(p), end}
				// insertion by ascending start (= longer first) among those ending here
				i := len(occ)
				occ = append(occ, o)
				for i > first && occ[i-1].Start > o.Start {
					occ[i] = occ[i-1]
					i--
				}
				occ[i] = o
			}
		}
	}
	return occ
}

// CountOcc: number of positions where p occurs in text (overlapping included).
func CountOcc(text, p []byte) int {
	n := 0
	for i := 0; i+len(p) <= len(text); i++ {
		if bytes.Equal(text[i:i+len(p)], p) {
			n++
		}
	}
	return n
}

// AnyOccurs: some pattern is a byte substring of text.
func (ps *PatSet) AnyOccurs(text []byte) bool {
	for _, p := range ps.P {
		if bytes.Contains(text, p) {
			return true
		}
	}
	return false
}

// Covered is the coverage bitmap of text.
func (ps *PatSet) Covered(text []byte) []bool {
	cov := make([]bool, len(text))
	for _, p := range ps.P {
		for i := 0; i+len(p) <= len(text); i++ {
			if bytes.Equal(text[i:i+len(p)], p) {
				for j := i; j < i+len(p); j++ {
					cov[j] = true
				}
			}
		}
	}
	return cov
}

// OccShape summarises how the occurrences of a text relate.
type OccShape struct {
	N                                int
	Overlap, Nested, Touching, Inter bool // partial overlap / strict containment or shared end / a.stop==b.start / any two intersect
	StepBack                         bool // a scope reaches back over ≥2 already merged, disjoint predecessors (F4 situation)
	MergedRegions, MaxOccInRegion    int
}

func Shape(occ []Occ) OccShape {
	s := OccShape{N: len(occ)}
	for i := 0; i < len(occ); i++ {
		for j := i + 1; j < len(occ); j++ {
			a, b := occ[i], occ[j]
			if a.Stop == b.Start || b.Stop == a.Start {
				s.Touching = true
			}
			if a.Start < b.Stop && b.Start < a.Stop {
				s.Inter = true
				in := (a.Start <= b.Start && b.Stop <= a.Stop) || (b.Start <= a.Start && a.Stop <= b.Stop)
				if in {
					s.Nested = true
				} else {
					s.Overlap = true
				}
			}
		}
	}
	// stack merge in find order (end ascending): how many already merged, mutually
	// disjoint predecessors does a new scope swallow?
	type iv struct{ a, b, n int }
	var st []iv
	for _, o := range occ {
		cur := iv{o.Start, o.Stop, 1}
		pops := 0
		for len(st) > 0 && st[len(st)-1].b > cur.a {
			top := st[len(st)-1]
			st = st[:len(st)-1]
			if top.a < cur.a {
				cur.a = top.a
			}
			if top.b > cur.b {
				cur.b = top.b
			}
			cur.n += top.n
			pops++
		}
		if pops >= 2 {
			s.StepBack = true
		}
		st = append(st, cur)
	}
	s.MergedRegions = len(st)
	for _, v := range st {
		if v.n > s.MaxOccInRegion {
			s.MaxOccInRegion = v.n
		}
	}
	return s
}

// ---- naive trie shape, only for classification (queue growth labels)

type shapeNode struct {
	kids map[int32]*shapeNode
}

// symbols decodes like the repaired code: an invalid byte is its own symbol.
func symbols(b []byte) []int32 {
	var out []int32
	for i := 0; i < len(b); {
		r, n := utf8.DecodeRune(b[i:])
		if r == utf8.RuneError && n == 1 {
			out = append(out, -1-int32(b[i]))
		} else {
			out = append(out, r)
		}
		i += n
	}
	return out
}

// QueueGrowth simulates the breadth-first traversal of the trie of pats through a
// ring of initial capacity 10 that doubles when full, and reports how often it grew
// and how often it grew while head%cap != 0 (the wrapped copy branch).
func QueueGrowth(pats [][]byte) (grew, wrapped, unwrapped, nodes int) {
	if len(pats) <= 10 {
		// every queued node lies on the path of a different pattern: the queue never
		// holds more nodes than there are patterns, so it cannot outgrow capacity 10
		return
	}
	root := &shapeNode{kids: map[int32]*shapeNode{}}
	for _, p := range pats {
		n := root
		for _, s := range symbols(p) {
			c := n.kids[s]
			if c == nil {
				c = &shapeNode{kids: map[int32]*shapeNode{}}
				n.kids[s] = c
				nodes++
			}
			n = c
		}
	}
	sorted := func(n *shapeNode) []*shapeNode {
		ks := make([]int32, 0, len(n.kids))
		for k := range n.kids {
			ks = append(ks, k)
		}
		sort.Slice(ks, func(i, j int) bool { return ks[i] < ks[j] })
		out := make([]*shapeNode, len(ks))
		for i, k := range ks {
			out[i] = n.kids[k]
		}
		return out
	}
	capq, head, tail := 10, 0, 0
	var fifo []*shapeNode
	push := func(n *shapeNode) {
		if tail-head == capq {
			grew++
			if head%capq != 0 {
				wrapped++
			} else {
				unwrapped++
			}
			capq *= 2
			tail -= head
			head = 0
		}
		fifo = append(fifo, n)
		tail++
	}
	for _, c := range sorted(root) {
		push(c)
	}
	for len(fifo) > 0 {
		cur := fifo[0]
		fifo = fifo[1:]
		head++
		for _, c := range sorted(cur) {
			push(c)
		}
	}
	return
}

// QueueGrowthSmall is QueueGrowth, skipped (zeros) for big pattern sets.
func QueueGrowthSmall(pats [][]byte) (grew, wrapped, unwrapped, nodes int) {
	total := 0
	for _, p := range pats {
		total += len(p)
	}
	if total > 20000 {
		return
	}
	return QueueGrowth(pats)
}

func queueGrowthSmall(pats [][]byte) (int, int, int, int) { return QueueGrowthSmall(pats) }
