package c05

// Structural tie between the POINTER trie of algz.Trie and the LABEL trie of the Lean
// model, beyond query outputs: the op `dump` prints every node of the real trie
// (reached through the unexported fields by read-only reflection) in depth-first
// pre-order following each node's children slice IN ARRAY ORDER, one entry
//
//	<path>;<size>;<isEnd 0/1>;<failpath>
//
// per node, joined by `|`; path = the runes from the root as signed decimals joined by
// `,` (root `.`); failpath = path of the node the fail pointer points to (`nil` for a nil
// pointer, `?` for a pointer to no node of the trie). A node reached a second time
// (sharing or a cycle) is printed as `<path>;!shared` and not descended into.
// The Lean driver prints the same line from the model (Golib/Model/C05.lean `dumpLine`).
//
// checkDump is the independent oracle: it recomputes the expected structure from the
// patterns alone (prefix closure, byte lengths, whole-pattern marks, longest proper
// suffix that is a prefix — all by naive search), without trie and without model.

import (
	"fmt"
	"reflect"
	"sort"
	"strconv"
	"strings"
	"sync"
	"unicode/utf8"

	"github.com/welllog/golib/algz"

	"verifharness/internal/core"
)

var (
	dumpOnce sync.Once
	dumpOK   bool
	dumpWhy  string
)

// layoutOK: algz.Trie{root trieNode{children []childNode{val int32; node *trieNode};
// fail *trieNode; size int; isEnd bool}} — by field names and kinds.
func layoutOK() (bool, string) {
	tt := reflect.TypeOf(algz.Trie{})
	if tt.Kind() != reflect.Struct {
		return false, "Trie is not a struct"
	}
	rf, ok := tt.FieldByName("root")
	if !ok || rf.Type.Kind() != reflect.Struct {
		return false, "Trie.root missing or not a struct"
	}
	nt := rf.Type
	cf, ok := nt.FieldByName("children")
	if !ok || cf.Type.Kind() != reflect.Slice || cf.Type.Elem().Kind() != reflect.Struct {
		return false, "trieNode.children missing or not a slice of structs"
	}
	ct := cf.Type.Elem()
	vf, ok := ct.FieldByName("val")
	if !ok || vf.Type.Kind() != reflect.Int32 {
		return false, "childNode.val missing or not int32"
	}
	nf, ok := ct.FieldByName("node")
	if !ok || nf.Type.Kind() != reflect.Ptr || nf.Type.Elem() != nt {
		return false, "childNode.node missing or not *trieNode"
	}
	ff, ok := nt.FieldByName("fail")
	if !ok || ff.Type.Kind() != reflect.Ptr || ff.Type.Elem() != nt {
		return false, "trieNode.fail missing or not *trieNode"
	}
	sf, ok := nt.FieldByName("size")
	if !ok || sf.Type.Kind() != reflect.Int {
		return false, "trieNode.size missing or not int"
	}
	ef, ok := nt.FieldByName("isEnd")
	if !ok || ef.Type.Kind() != reflect.Bool {
		return false, "trieNode.isEnd missing or not bool"
	}
	fChildren, fFail, fSize, fIsEnd, fVal, fNode = cf.Index[0], ff.Index[0], sf.Index[0], ef.Index[0], vf.Index[0], nf.Index[0]
	return true, ""
}

// DumpAvailable: the reflected layout has the expected field names / types, and the
// walk works on an empty trie (a rename of a field is a harmless refactor: then no
// `dump` ops are generated and Classify reports `dump:unavailable`). Computed once.
func DumpAvailable() bool {
	dumpOnce.Do(func() {
		ok, why := layoutOK()
		if !ok {
			dumpWhy = why
			return
		}
		func() {
			defer func() {
				if r := recover(); r != nil {
					ok, why = false, fmt.Sprint("walk panicked: ", r)
				}
			}()
			var e algz.Trie
			if got := DumpTrie(&e); got != ".;0;0;nil" {
				ok, why = false, "empty trie dumps as "+got
			}
		}()
		dumpOK, dumpWhy = ok, why
	})
	return dumpOK
}

func pathStr(p []int32) string {
	if len(p) == 0 {
		return "."
	}
	var sb strings.Builder
	for i, r := range p {
		if i > 0 {
			sb.WriteByte(',')
		}
		sb.WriteString(strconv.FormatInt(int64(r), 10))
	}
	return sb.String()
}

// field indices of trieNode / childNode, filled in by layoutOK
var fChildren, fFail, fSize, fIsEnd, fVal, fNode int

// snapNode is one visited node of the real trie.
type snapNode struct {
	path  []int32
	addr  uintptr
	fail  uintptr
	size  int64
	isEnd bool
	raw   string // printed instead of the fields (sharing, nil child pointer)
}

// snapshot walks the real trie depth-first, children in array order.
func snapshot(t *algz.Trie) (ents []snapNode, byAddr map[uintptr]int) {
	byAddr = map[uintptr]int{}
	var walk func(n reflect.Value, addr uintptr, path []int32)
	walk = func(n reflect.Value, addr uintptr, path []int32) {
		if _, seen := byAddr[addr]; seen {
			ents = append(ents, snapNode{raw: pathStr(path) + ";!shared"})
			return
		}
		byAddr[addr] = len(ents)
		ents = append(ents, snapNode{path: path, addr: addr, size: n.Field(fSize).Int(), isEnd: n.Field(fIsEnd).Bool(), fail: n.Field(fFail).Pointer()})
		cs := n.Field(fChildren)
		for i := 0; i < cs.Len(); i++ {
			c := cs.Index(i)
			np := c.Field(fNode)
			child := append(path[:len(path):len(path)], int32(c.Field(fVal).Int()))
			if np.IsNil() {
				ents = append(ents, snapNode{raw: pathStr(child) + ";!nil-node"})
				continue
			}
			walk(np.Elem(), np.Pointer(), child)
		}
	}
	root := reflect.ValueOf(t).Elem().FieldByName("root")
	walk(root, root.UnsafeAddr(), nil)
	return
}

// DumpTrie prints the canonical structure line of the real trie.
func DumpTrie(t *algz.Trie) string {
	ents, byAddr := snapshot(t)
	var sb strings.Builder
	for i, e := range ents {
		if i > 0 {
			sb.WriteByte('|')
		}
		if e.raw != "" {
			sb.WriteString(e.raw)
			continue
		}
		fp := "nil"
		if e.fail != 0 {
			if k, ok := byAddr[e.fail]; ok {
				fp = pathStr(ents[k].path)
			} else {
				fp = "?"
			}
		}
		end := 0
		if e.isEnd {
			end = 1
		}
		fmt.Fprintf(&sb, "%s;%d;%d;%s", pathStr(e.path), e.size, end, fp)
	}
	return sb.String()
}

// DumpCompact prints the structure of the real trie in time and space linear in the number
// of nodes (op `dumpc`, used for big tries where the paths of `dump` would be quadratic):
// per node in depth-first pre-order (children in array order)
// `<last rune>;<size>;<isEnd>;<pre-order index of the fail target>`, root rune `.`, nil `nil`,
// a pointer to no node of the trie `?`, a node reached twice `!shared`.
func DumpCompact(t *algz.Trie) string {
	type cn struct {
		r     int32
		size  int64
		isEnd bool
		fail  uintptr
		raw   string
	}
	var ents []cn
	idx := map[uintptr]int{}
	type item struct {
		n    reflect.Value
		addr uintptr
		r    int32
	}
	root := reflect.ValueOf(t).Elem().FieldByName("root")
	stack := []item{{root, root.UnsafeAddr(), 0}}
	for len(stack) > 0 {
		it := stack[len(stack)-1]
		stack = stack[:len(stack)-1]
		if _, seen := idx[it.addr]; seen {
			ents = append(ents, cn{raw: "!shared"})
			continue
		}
		idx[it.addr] = len(ents)
		ents = append(ents, cn{r: it.r, size: it.n.Field(fSize).Int(), isEnd: it.n.Field(fIsEnd).Bool(), fail: it.n.Field(fFail).Pointer()})
		cs := it.n.Field(fChildren)
		for i := cs.Len() - 1; i >= 0; i-- { // pushed in reverse: popped in array order
			c := cs.Index(i)
			np := c.Field(fNode)
			if np.IsNil() {
				continue
			}
			stack = append(stack, item{np.Elem(), np.Pointer(), int32(c.Field(fVal).Int())})
		}
	}
	var sb strings.Builder
	for i, e := range ents {
		if i > 0 {
			sb.WriteByte('|')
		}
		if e.raw != "" {
			sb.WriteString(e.raw)
			continue
		}
		if i == 0 {
			sb.WriteByte('.')
		} else {
			sb.WriteString(strconv.FormatInt(int64(e.r), 10))
		}
		end := 0
		if e.isEnd {
			end = 1
		}
		fp := "nil"
		if e.fail != 0 {
			if k, ok := idx[e.fail]; ok {
				fp = strconv.Itoa(k)
			} else {
				fp = "?"
			}
		}
		fmt.Fprintf(&sb, ";%d;%d;%s", e.size, end, fp)
	}
	return sb.String()
}

// FailCycle returns the path of a node whose fail chain reaches neither the root nor a
// nil pointer within as many steps as the trie has nodes ("" = every chain ends).
// Every query of the real code that reaches such a node loops forever (and `find` grows
// its result without bound), so Impl does not run queries on such a trie: it answers
// `fail-cycle:<path>` and Check reports it with the case as replay.
func FailCycle(t *algz.Trie) string {
	if !DumpAvailable() {
		return ""
	}
	ents, byAddr := snapshot(t)
	rootAddr := ents[0].addr
	for _, e := range ents {
		if e.raw != "" || e.addr == rootAddr {
			continue
		}
		cur := e.fail
		ok := false
		for step := 0; step <= len(ents); step++ {
			if cur == 0 || cur == rootAddr {
				ok = true
				break
			}
			k, known := byAddr[cur]
			if !known {
				ok = true // points outside the trie: not a cycle inside it (dump prints `?`)
				break
			}
			cur = ents[k].fail
		}
		if !ok {
			return pathStr(e.path)
		}
	}
	return ""
}

// CycleWord is what Impl answers for a query on a trie with a cyclic fail chain.
const CycleWord = "fail-cycle:"

// ---- the independent oracle

// decodeSyms: the repaired decodeRune semantics, written out here on its own: ASCII byte;
// valid multi-byte rune; otherwise the private rune -1-b of width 1.
func decodeSyms(b []byte) []int32 {
	var out []int32
	for i := 0; i < len(b); {
		if b[i] < 0x80 {
			out = append(out, int32(b[i]))
			i++
			continue
		}
		r, n := utf8.DecodeRune(b[i:])
		if r == utf8.RuneError && n == 1 {
			out = append(out, -1-int32(b[i]))
			i++
			continue
		}
		out = append(out, r)
		i += n
	}
	return out
}

func symWidth(r int32) int {
	if r < 0 {
		return 1
	}
	return utf8.RuneLen(r)
}

func lessPath(a, b []int32) bool {
	for i := 0; i < len(a) && i < len(b); i++ {
		if a[i] != b[i] {
			return a[i] < b[i]
		}
	}
	return len(a) < len(b)
}

// ExpectedDump recomputes the structure line from the patterns alone.
func ExpectedDump(all [][]byte) (entries []string, nodes, nonRootFails int) {
	prefixes := map[string][]int32{".": nil}
	whole := map[string]bool{}
	for _, p := range all {
		if len(p) == 0 {
			continue
		}
		syms := decodeSyms(p)
		for k := 1; k <= len(syms); k++ {
			prefixes[pathStr(syms[:k])] = syms[:k]
		}
		whole[pathStr(syms)] = true
	}
	list := make([][]int32, 0, len(prefixes))
	for _, v := range prefixes {
		list = append(list, v)
	}
	// pre-order with ascending children = lexicographic order of the paths
	sort.Slice(list, func(i, j int) bool { return lessPath(list[i], list[j]) })
	for _, p := range list {
		size := 0
		for _, r := range p {
			size += symWidth(r)
		}
		fail := "nil"
		if len(p) > 0 {
			for k := 1; k <= len(p); k++ { // longest proper suffix first
				if _, ok := prefixes[pathStr(p[k:])]; ok {
					fail = pathStr(p[k:])
					if k < len(p) {
						nonRootFails++
					}
					break
				}
			}
		}
		end := 0
		if whole[pathStr(p)] {
			end = 1
		}
		entries = append(entries, fmt.Sprintf("%s;%d;%d;%s", pathStr(p), size, end, fail))
	}
	return entries, len(list), nonRootFails
}

// checkDump compares the implementation's dump line with ExpectedDump; key "" = holds.
// CheckDump is exported for the C06 package.
func CheckDump(all [][]byte, out string) (string, string) { return checkDump(all, out) }

func checkDump(all [][]byte, out string) (string, string) {
	if out == "panic" {
		return "panic", "dump panicked"
	}
	want, _, _ := ExpectedDump(all)
	got := strings.Split(out, "|")
	cut := func(e string) (string, string) { // (path;size;isEnd, fail)
		i := strings.LastIndexByte(e, ';')
		if i < 0 {
			return e, ""
		}
		return e[:i], e[i+1:]
	}
	if len(got) != len(want) {
		return "dump-structure", fmt.Sprintf("the trie of %s has %d node entries %q, the prefix closure of the patterns has %d: %q", showBs(all), len(got), out, len(want), strings.Join(want, "|"))
	}
	for i := range want {
		gs, _ := cut(got[i])
		ws, _ := cut(want[i])
		if gs != ws || strings.Count(got[i], ";") != 3 {
			return "dump-structure", fmt.Sprintf("node entry %d of the trie of %s is %q, expected %q (path;size;isEnd;fail in pre-order with ascending children); whole dump %q", i, showBs(all), got[i], want[i], out)
		}
	}
	for i := range want {
		_, gf := cut(got[i])
		_, wf := cut(want[i])
		if gf != wf {
			return "dump-fail", fmt.Sprintf("node %q of the trie of %s has fail → %q, the longest proper suffix that is a prefix of a pattern is %q; whole dump %q", strings.SplitN(want[i], ";", 2)[0], showBs(all), gf, wf, out)
		}
	}
	return "", ""
}

// withDump inserts a `dump` op right after the header of a corpus case (nothing when
// the reflected layout is not available).
func withDump(c core.Case) core.Case {
	if !DumpAvailable() {
		return c
	}
	lines := append([]string{c.Lines[0], "dump"}, c.Lines[1:]...)
	return core.Case{Lines: lines, Seed: c.Seed, Tag: c.Tag}
}
