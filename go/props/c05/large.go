package c05

// Large / magnitude stream (shared with C06): sizes that cross internal thresholds —
// child arrays of 16/17 … 255/256/257/300 entries (binary searches, sorted insert), patterns
// and keys of 13/14 … 255/256/257/1024 runes (buf.Grow(24), DFS stack of 32 frames, int32
// depths), texts of 255 … 4097 runes, 64 … 300 patterns (the BFS ring grows 10→20→…→640),
// and every length in a window. Few ops per case; the heaviest sizes only when tier ==
// "thorough" (which core also selects on anchor drift).

import (
	"verifharness/internal/core"
)

var thresholds = []int{13, 14, 16, 17, 24, 25, 31, 32, 33, 63, 64, 65, 127, 128, 129, 255, 256, 257}

func pickSize(r *core.Rand, tier string, quickMax, thoroughMax int) int {
	max := quickMax
	if tier == "thorough" {
		max = thoroughMax
	}
	var n int
	switch r.Pick(55, 30, 15) {
	case 0:
		n = thresholds[r.Intn(len(thresholds))]
	case 1:
		n = r.Range(0, 200) // every length in a window
	default:
		n = []int{300, 1023, 1024, 1025, 4095, 4096, 4097}[r.Intn(7)]
	}
	if n > max {
		n = max - r.Intn(3)
	}
	return n
}

// distinct runes: ASCII letters first, then CJK from U+4E00 (3 bytes), Latin-1 (2 bytes)
// and emoji (4 bytes) mixed in, so that child arrays hold runes of every width.
func manyRunes(n int) []string {
	out := make([]string, 0, n)
	for i := 0; len(out) < n; i++ {
		switch {
		case i < 26:
			out = append(out, string(rune('a'+i)))
		case i%7 == 3:
			out = append(out, string(rune(0xC0+i%0x140)))
		case i%11 == 5:
			out = append(out, string(rune(0x1F600+i)))
		default:
			out = append(out, string(rune(0x4E00+i)))
		}
	}
	seen := map[string]bool{}
	uniq := out[:0]
	for _, s := range out {
		if !seen[s] {
			seen[s] = true
			uniq = append(uniq, s)
		}
	}
	for i := 0; len(uniq) < n; i++ {
		uniq = append(uniq, string(rune(0x6000+i)))
	}
	return uniq
}

// GenLarge returns the patterns, the unit picker, texts worth querying and keys worth
// searching, and a label for the shape.
func GenLarge(r *core.Rand, tier string) (pats []Seq, u Unit, texts []Seq, keys []Seq, shape string) {
	if r.Chance(7) {
		// BIG: N patterns that are suffixes of one another (the N longest suffixes of a random
		// string), N around 255/256/257 and up: a trie of 30 000 – 120 000 nodes whose header holds
		// more than BigLimit pattern bytes. The Lean driver then runs ONLY the array-backed
		// pointer model (the label model cannot follow): `match` / `findall` / `dumpc`
		// (mask / replace in C06) are compared with it.
		n := []int{200, 255, 256, 257, 300}[r.Intn(5)]
		l := n + r.Range(60, 200)
		s := make(Seq, l)
		for i := range s {
			s[i] = []string{"a", "b", "c"}[r.Intn(3)]
		}
		for k := 0; k < n; k++ {
			pats = append(pats, s[k:].Clone())
		}
		for i := len(pats) - 1; i > 0; i-- {
			j := r.Intn(i + 1)
			pats[i], pats[j] = pats[j], pats[i]
		}
		u = func(r *core.Rand) string { return []string{"a", "b", "c"}[r.Intn(3)] }
		t := append(append(Seq{"z", "z"}, s...), "z")
		return pats, u, []Seq{t, s[l/3:].Clone()}, []Seq{{}}, "big-nested"
	}
	if r.Chance(9) {
		// a text (and results) beyond 64 KB: long runs of a filler that occurs in no pattern,
		// a few dozen occurrences in between (results ≥ 64 KB for Replace / ReplaceWithMask)
		u = MainUnit
		pats = GenPatterns(r, u, r.Range(1, 4), 3)
		ne := NonEmpty(pats)
		var t Seq
		size := 0
		for size < 65536+r.Intn(3000) {
			for k := r.Range(600, 2500); k > 0; k-- {
				t = append(t, "z")
				size++
			}
			if len(ne) > 0 {
				p := ne[r.Intn(len(ne))]
				t = append(t, p...)
				size += len(p.Bytes())
			}
			if r.Chance(30) {
				t = append(t, "é")
				size += 2
			}
		}
		return pats, u, []Seq{t}, []Seq{{}}, "huge-text"
	}
	switch r.Pick(28, 24, 24, 24) {
	case 0: // wide node: n children under the root (or under a one-rune prefix)
		n := pickSize(r, tier, 260, 300)
		if n < 2 {
			n = 17
		}
		runes := manyRunes(n)
		perm := make([]int, len(runes)) // insertion order is random: sorted insert with shifts
		for i := range perm {
			perm[i] = i
		}
		for i := len(perm) - 1; i > 0; i-- {
			j := r.Intn(i + 1)
			perm[i], perm[j] = perm[j], perm[i]
		}
		var pre Seq
		if r.Chance(40) {
			pre = Seq{runes[r.Intn(len(runes))]}
		}
		for _, i := range perm {
			p := append(pre.Clone(), runes[i])
			if r.Chance(10) {
				p = append(p, runes[r.Intn(len(runes))])
			}
			pats = append(pats, p)
		}
		u = func(r *core.Rand) string { return runes[r.Intn(len(runes))] }
		texts = []Seq{RandSeq(r, u, 10, 30), append(pre.Clone(), Seq{runes[0], runes[len(runes)-1], runes[len(runes)/2]}...)}
		keys = []Seq{pre, {}, {runes[len(runes)-1]}}
		shape = "wide-node"
	case 1: // long patterns sharing long prefixes; keys = long prefixes
		n := pickSize(r, tier, 260, 520)
		if n < 1 {
			n = 14
		}
		u = MainUnit
		if r.Bool() {
			u = func(r *core.Rand) string { return []string{"a", "b"}[r.Intn(2)] }
		}
		long := RandSeq(r, u, n, n)
		pats = []Seq{long}
		for k := r.Range(1, 4); k > 0; k-- {
			cut := r.Range(0, n-1)
			pats = append(pats, append(long[:cut].Clone(), RandSeq(r, u, 1, 3)...))
		}
		if n > 2 {
			pats = append(pats, long[n/2:].Clone(), long[1:n-1].Clone())
		}
		texts = []Seq{long, append(append(RandSeq(r, u, 0, 3), long...), RandSeq(r, u, 0, 3)...)}
		keys = []Seq{long[:n/2], long[:n-1], long, {}}
		shape = "long-pattern"
	case 2: // long text, few short patterns
		n := pickSize(r, tier, 1030, 4097)
		u = MainUnit
		pats = GenPatterns(r, u, r.Range(2, 6), 4)
		t := GenTextW(r, u, pats, n, 40, 30, 30)
		for len(t) < n {
			t = append(t, GenTextW(r, u, pats, n-len(t), 40, 30, 30)...)
		}
		texts = []Seq{t}
		keys = []Seq{{}}
		shape = "long-text"
	default: // many patterns: the ring of BuildFailureLinks grows again and again
		n := pickSize(r, tier, 130, 300)
		if n < 20 {
			n = 64 + n
		}
		alpha := []string{"a", "b", "c", "d"}[:r.Range(2, 4)]
		u = func(r *core.Rand) string { return alpha[r.Intn(len(alpha))] }
		seen := map[string]bool{}
		for tries := 0; len(pats) < n && tries < 20*n; tries++ {
			p := RandSeq(r, u, 2, 7)
			k := string(p.Bytes())
			if !seen[k] {
				seen[k] = true
				pats = append(pats, p)
			}
		}
		texts = []Seq{RandSeq(r, u, 20, 60)}
		keys = []Seq{{}, RandSeq(r, u, 1, 2)}
		shape = "many-patterns"
	}
	return
}

func genLarge(r *core.Rand, tier string) core.Case {
	pats, u, texts, keys, shape := GenLarge(r, tier)
	lines := []string{Header("C05", SeqsBytes(pats))}
	if shape == "big-nested" {
		if DumpAvailable() {
			lines = append(lines, "dumpc")
		}
		for _, t := range texts {
			lines = append(lines, "match "+Hex(t.Bytes()), "findall "+Hex(t.Bytes()))
		}
		return core.Case{Lines: lines, Tag: "large"}
	}
	if r.Chance(50) && DumpAvailable() {
		lines = append(lines, "dump")
	}
	for n := r.Range(2, 4); n > 0; n-- {
		t := texts[r.Intn(len(texts))]
		k := keys[r.Intn(len(keys))]
		switch r.Pick(20, 35, 30, 15) {
		case 0:
			lines = append(lines, "match "+Hex(t.Bytes()))
		case 1:
			lines = append(lines, "findall "+Hex(t.Bytes()))
		case 2:
			lines = append(lines, "prefix "+Hex(k.Bytes()))
		default:
			if r.Bool() {
				k = t
			}
			lines = append(lines, "fuzzy "+Hex(k.Bytes()))
		}
	}
	_ = u
	return core.Case{Lines: lines, Tag: "large"}
}

// LargeShare: per-mille of generated cases that belong to the large stream.
// BigLimit: headers with more pattern bytes run in the Lean driver's big mode
// (`bigLimit` in Golib/Model/C05.lean).
const BigLimit = 20000

func LargeShare(tier string) int {
	if tier == "thorough" {
		return 6
	}
	return 4
}

// BigCorpus is the fixed big case: the 256 longest suffixes of a 420-byte string over {a,b,c}
// produced by a small LCG (≈ 80 000 nodes; the BFS ring grows wrapped several times), with
// the compact structural dump and the given ops on the text zz·string·z.
func BigCorpus(id string, ops func(text []byte) []string) core.Case {
	x := uint32(12345)
	s := make([]byte, 420)
	for i := range s {
		x = x*1664525 + 1013904223
		s[i] = "abc"[(x>>16)%3]
	}
	var pats [][]byte
	for k := 0; k < 256; k++ {
		pats = append(pats, s[(k*97)%256:]) // a fixed non-monotone insertion order
	}
	lines := []string{Header(id, pats)}
	if DumpAvailable() {
		lines = append(lines, "dumpc")
	}
	text := append(append([]byte("zz"), s...), 'z')
	lines = append(lines, ops(text)...)
	return core.Case{Lines: lines, Tag: "large"}
}
