// Package c05: Trie multi-pattern queries are exact (algz/trie.go: Insert,
// BuildFailureLinks, Match, FindAll, PrefixSearch, FuzzySearch).
package c05

import (
	"bytes"
	"fmt"
	"sort"
	"strconv"
	"strings"
	"unicode/utf8"

	"github.com/welllog/golib/algz"

	"verifharness/internal/core"
)

func init() {
	core.Register(&core.Prop{
		ID:         "C05",
		Title:      "Trie multi-pattern queries are exact",
		Quick:      quickCases,
		Thorough:   thoroughCases,
		Gen:        gen,
		Corpus:     corpus,
		Impl:       impl,
		Check:      check,
		NonTrivial: nonTrivial,
		Rule: "one trie (1–6 patterns over {a,b,c,é,你,😀} sharing prefixes/suffixes/infixes, or 12–40 short patterns, or byte garbage) + 3–8 queries (match/findall/prefix/fuzzy), in about 1 case of 3 (1 of 2 for the many-pattern streams) preceded by a structural `dump` of all nodes (path, size, isEnd, fail target); 9 % histories (Insert…, Build, queries, then 1–3 rounds of insert… / build / dump / queries on the same trie, later patterns inside earlier ones) and 4 ‰ large cases (a node with up to 300 children, patterns/keys up to 260 runes, texts up to 1030 runes, up to 130 patterns; larger in thorough and on anchor drift); " +
			"non-trivial = at least one findall whose text holds ≥2 occurrences that overlap or nest (naive scan), or a prefix query returning ≥2 results; distinct by hash of the case lines",
		Classify: classify,
		Facts:    facts,
		Extras: []core.Extra{{
			Name: "exhaustive-ab",
			Run:  exhaustive,
		}, {
			Name: "queue-direct",
			Run:  queueDirect,
		}, {
			Name: "encodings",
			Run:  encodingsExtra,
		}, {
			Name: "nested",
			Run:  nestedExtra,
		}},
		Shrink:   Shrinker(),
		Parallel: true,
		Assumptions: []string{
			"Go int treated as unbounded (no text or pattern near 2^31 bytes; trieFrame.depth int32 does not wrap)",
			"fewer than 2^32 trie nodes (uint32 head/tail/cap of trieNodeQueue do not wrap)",
			"every checked query is made after a BuildFailureLinks that covers all inserted patterns (queries between an Insert and the next build meet nil failure links and are outside the property: they are run and compared with the model, not judged)",
			"a Trie is used through one value: a by-value copy of a Trie that already holds patterns is outside the property (the root node is embedded and the depth-1 failure links point at the ORIGINAL root, so a query on such a copy dereferences nil in the unchanged code as well); copies of the zero value are independent and are exercised (`sibling` op)",
			"results ledger: every returned string is kept alive with a deep copy and re-compared after every later call on the same and on a second trie; arguments are passed as windows of canary-framed arenas",
		},
		TrustedBase: []string{
			"property oracle: naive byte scanning with bytes.Equal / bytes.HasPrefix / bytes.Contains and unicode/utf8.DecodeRune (Go standard library)",
			"hex transport of byte strings between harness and Lean driver",
		},
	})
}

const (
	quickCases    = 10000
	thoroughCases = 420000
)

// RunTrie builds the trie of a header (tokens after `@ Cxx`): Insert in order
// (empty patterns included, Insert ignores them), then BuildFailureLinks.
func RunTrie(t *algz.Trie, hdr []string) string {
	if len(hdr) < 1 || (hdr[0] != "trie" && hdr[0] != "raw") {
		return "bad-op"
	}
	var pats [][]byte
	for _, h := range hdr[1:] {
		b, ok := Unhex(h)
		if !ok {
			return "bad-op"
		}
		pats = append(pats, b)
	}
	for _, p := range pats {
		t.Insert(string(p))
	}
	if hdr[0] == "trie" {
		t.BuildFailureLinks()
	}
	return "ok"
}

func stepOp(t *algz.Trie, tk []string) string {
	if o, ok := StepMut(t, tk); ok {
		return o
	}
	if len(tk) == 1 && tk[0] == "dump" {
		if !DumpAvailable() {
			return "dump-unavailable"
		}
		return DumpTrie(t)
	}
	if len(tk) != 2 {
		return "bad-op"
	}
	arg, ok := Unhex(tk[1])
	if !ok {
		return "bad-op"
	}
	s := string(arg)
	switch tk[0] {
	case "match":
		return strconv.FormatBool(t.Match(s))
	case "findall":
		return ShowList(t.FindAll(s))
	case "prefix":
		return ShowList(t.PrefixSearch(s))
	case "fuzzy":
		return ShowList(t.FuzzySearch(s))
	}
	return "bad-op"
}

// query answers one C05 query on the session's trie, entering every returned string
// into the results ledger.
func query(s *Session, tk []string) string {
	if len(tk) == 3 && tk[0] == "sibling" {
		pat, ok1 := s.Arg(tk[1])
		text, ok2 := s.Arg(tk[2])
		if !ok1 || !ok2 {
			return "bad-op"
		}
		r := s.Sibling(pat).FindAll(text)
		s.Keep(r...)
		return ShowList(r)
	}
	if len(tk) != 2 {
		return "bad-op"
	}
	arg, ok := s.Arg(tk[1])
	if !ok {
		return "bad-op"
	}
	list := func(r []string) string {
		s.Keep(r...)
		if len(r) > 0 {
			s.Last = r[len(r)-1]
		}
		return ShowList(r)
	}
	switch tk[0] {
	case "match":
		return strconv.FormatBool(s.T.Match(arg))
	case "findall":
		return list(s.T.FindAll(arg))
	case "prefix":
		return list(s.T.PrefixSearch(arg))
	case "fuzzy":
		return list(s.T.FuzzySearch(arg))
	}
	return "bad-op"
}

func impl(c core.Case) []string { return RunSession(c, query) }

// ---- the property's own predicate (naive byte scanning; no trie, no model)

func sortedCopy(xs [][]byte) []string {
	out := make([]string, len(xs))
	for i, x := range xs {
		out[i] = string(x)
	}
	sort.Strings(out)
	return out
}

func eqStrs(a, b []string) bool {
	if len(a) != len(b) {
		return false
	}
	for i := range a {
		if a[i] != b[i] {
			return false
		}
	}
	return true
}

func showBs(xs [][]byte) string {
	ss := make([]string, len(xs))
	for i, x := range xs {
		ss[i] = string(x)
	}
	return fmt.Sprintf("%q", ss)
}

// checkOp evaluates one query's output; (key, desc) with key "" = holds.
func checkOp(ps *PatSet, op string, arg []byte, out string) (string, string) {
	if out == "panic" {
		return "panic", fmt.Sprintf("%s(%q) panicked", op, arg)
	}
	switch op {
	case "match":
		if out != "true" && out != "false" {
			return "bad-output", "unparsable output " + out
		}
		got := out == "true"
		occurs := ps.AnyOccurs(arg)
		if got && !occurs {
			return "match-iff", fmt.Sprintf("Match(%q) = true but no pattern of %s is a byte substring", arg, showBs(ps.P))
		}
		if !got && occurs && ps.Valid {
			return "match-iff", fmt.Sprintf("Match(%q) = false but a pattern of %s occurs", arg, showBs(ps.P))
		}
	case "findall":
		got, ok := ParseList(out)
		if !ok {
			return "bad-output", "unparsable output " + out
		}
		if ps.Valid {
			var want [][]byte
			for _, o := range ps.Occurrences(arg) {
				want = append(want, ps.P[o.Pat])
			}
			if !eqStrs(sortedCopy(got), sortedCopy(want)) {
				return "findall-exact", fmt.Sprintf("FindAll(%q) = %s, the occurrences (pattern, position) of %s are %s", arg, showBs(got), showBs(ps.P), showBs(want))
			}
		} else {
			cnt := map[string]int{}
			for _, g := range got {
				if !ps.Has(g) {
					return "findall-exact", fmt.Sprintf("FindAll(%q) returned %q which is not an inserted pattern %s", arg, g, showBs(ps.P))
				}
				cnt[string(g)]++
			}
			for p, n := range cnt {
				if k := CountOcc(arg, []byte(p)); n > k {
					return "findall-exact", fmt.Sprintf("FindAll(%q) reports %q %d times, it occurs %d times", arg, p, n, k)
				}
			}
		}
	case "prefix":
		got, ok := ParseList(out)
		if !ok {
			return "bad-output", "unparsable output " + out
		}
		seen := map[string]bool{}
		for _, g := range got {
			if !ps.Has(g) {
				return "prefix-exact", fmt.Sprintf("PrefixSearch(%q) returned %q which is not an inserted pattern %s", arg, g, showBs(ps.P))
			}
			if !bytes.HasPrefix(g, arg) {
				return "prefix-exact", fmt.Sprintf("PrefixSearch(%q) returned %q which does not start with the key", arg, g)
			}
			if seen[string(g)] {
				return "prefix-exact", fmt.Sprintf("PrefixSearch(%q) returned %q twice", arg, g)
			}
			seen[string(g)] = true
		}
		if ps.Valid && utf8.Valid(arg) {
			var want [][]byte
			for _, p := range ps.P {
				if bytes.HasPrefix(p, arg) {
					want = append(want, p)
				}
			}
			if !eqStrs(sortedCopy(got), sortedCopy(want)) {
				return "prefix-exact", fmt.Sprintf("PrefixSearch(%q) = %s, the inserted patterns with that prefix are %s", arg, showBs(got), showBs(want))
			}
		}
	case "fuzzy":
		got, ok := ParseList(out)
		if !ok {
			return "bad-output", "unparsable output " + out
		}
		for _, g := range got {
			if !ps.Has(g) {
				return "fuzzy-sound", fmt.Sprintf("FuzzySearch(%q) returned %q which is not an inserted pattern %s", arg, g, showBs(ps.P))
			}
		}
	default:
		return "bad-output", "unknown op " + op
	}
	return "", ""
}

func check(c core.Case, out []string) *core.Failure {
	if f := Instability(c, out); f != nil {
		return f
	}
	c = Resolved(c, out, false)
	phases, ok := Phases(c)
	if !ok {
		return &core.Failure{Key: "bad-output", Desc: "bad header"}
	}
	all, ps := phases[0].All, phases[0].PS
	if out[0] != "ok" {
		key := "panic"
		if out[0] != "panic" {
			key = "bad-output"
		} else if ps.AnyInval {
			key = "fffd-conflation"
		}
		return &core.Failure{Key: key, Desc: fmt.Sprintf("Insert/BuildFailureLinks of %s answered %q", showBs(all), out[0])}
	}
	for i := 1; i < len(c.Lines); i++ {
		if out[i] == "dead" {
			continue
		}
		if strings.HasPrefix(out[i], CycleWord) {
			return &core.Failure{Key: "fail-cycle", Desc: fmt.Sprintf("after BuildFailureLinks of %s the fail chain of node %q never reaches the root (cycle): every query reaching that node does not terminate; op %d %q was not run", showBs(all), strings.TrimPrefix(out[i], CycleWord), i, c.Lines[i])}
		}
		tk := core.Toks(c.Lines[i])
		ph := phases[i]
		if ph.Mut {
			if out[i] != "ok" {
				key := "panic"
				if out[i] != "panic" {
					key = "bad-output"
				}
				return &core.Failure{Key: key, Desc: fmt.Sprintf("op %d %q (round %d, patterns so far %s) answered %q", i, c.Lines[i], ph.Round, showBs(ph.All), out[i])}
			}
			continue
		}
		if len(tk) == 3 && tk[0] == "sibling" {
			pat, ok1 := Unhex(tk[1])
			text, ok2 := Unhex(tk[2])
			if !ok1 || !ok2 {
				return &core.Failure{Key: "bad-output", Desc: "bad op line " + c.Lines[i]}
			}
			if key, desc := checkOp(NewPatSet([][]byte{pat}), "findall", text, out[i]); key != "" {
				return &core.Failure{Key: key, Desc: fmt.Sprintf("op %d %q (an independent second trie built from a copy of the zero value): %s", i, c.Lines[i], desc)}
			}
			continue
		}
		if ph.Dirty {
			continue // patterns inserted since the last build: outside the property
		}
		all, ps = ph.All, ph.PS
		if len(tk) == 1 && tk[0] == "dumpc" {
			// compact dump of a big trie: compared with the pointer model; the independent
			// part is only that the walk met no shared node and no stray fail pointer
			if strings.Contains(out[i], "!shared") || strings.Contains(out[i], ";?") {
				return &core.Failure{Key: "dump-structure", Desc: fmt.Sprintf("op %d dumpc: the pointer structure has a shared node or a fail pointer to no node of the trie", i)}
			}
			continue
		}
		if len(tk) == 1 && tk[0] == "dump" {
			if key, desc := checkDump(all, out[i]); key != "" {
				return &core.Failure{Key: key, Desc: fmt.Sprintf("op %d %q: %s", i, c.Lines[i], desc)}
			}
			continue
		}
		if len(tk) != 2 {
			return &core.Failure{Key: "bad-output", Desc: "bad op line " + c.Lines[i]}
		}
		arg, ok := Unhex(tk[1])
		if !ok {
			return &core.Failure{Key: "bad-output", Desc: "bad op line " + c.Lines[i]}
		}
		if key, desc := checkOp(ps, tk[0], arg, out[i]); key != "" {
			if ps.Conflation(arg) && key != "bad-output" {
				desc = "[" + key + " where an invalid byte and U+FFFD can be conflated] " + desc
				key = "fffd-conflation"
			}
			return &core.Failure{Key: key, Desc: fmt.Sprintf("op %d %q: %s", i, c.Lines[i], desc)}
		}
	}
	return nil
}

// ---- non-triviality and distribution labels

func nonTrivial(c core.Case, out []string) bool {
	c = Resolved(c, out, false)
	all, ok := HeaderPatterns(c.Lines[0])
	if !ok {
		return false
	}
	ps := NewPatSet(all)
	phases, ok := Phases(c)
	if !ok {
		return false
	}
	for i := 1; i < len(c.Lines); i++ {
		tk := core.Toks(c.Lines[i])
		if len(tk) != 2 || phases[i].Mut || phases[i].Dirty {
			continue
		}
		ps = phases[i].PS
		arg, _ := Unhex(tk[1])
		switch tk[0] {
		case "findall":
			if Shape(ps.Occurrences(arg)).Inter {
				return true
			}
		case "prefix":
			if got, ok := ParseList(out[i]); ok && len(got) >= 2 {
				return true
			}
		}
	}
	return false
}

// backtracksMultibyte: among the patterns below key two diverge and the one the
// depth-first search visits first (larger next byte: children are pushed in
// ascending order and popped from the end) continues with a multi-byte rune — the
// buffer is then truncated across a multi-byte rune (the F3 mechanism).
func backtracksMultibyte(res [][]byte, keyLen int) bool {
	for i := range res {
		for j := range res {
			p, q := res[i], res[j]
			l := 0
			for l < len(p) && l < len(q) && p[l] == q[l] {
				l++
			}
			if l < keyLen || l == len(p) || l == len(q) || p[l] < q[l] {
				continue
			}
			for _, b := range p[l:] {
				if b >= 0x80 {
					return true
				}
			}
			// the divergence may also lie inside a multi-byte rune's bytes
			if l > 0 && p[l]&0xc0 == 0x80 {
				return true
			}
		}
	}
	return false
}

func classify(c core.Case, out []string) []string {
	raw := c
	c = Resolved(c, out, false)
	all, ok := HeaderPatterns(c.Lines[0])
	if !ok {
		return nil
	}
	ps := NewPatSet(all)
	var ls []string
	if ps.AnyFFFD {
		ls = append(ls, "pattern:fffd")
	}
	if ps.AnyInval {
		ls = append(ls, "pattern:invalid-byte")
	}
	if len(ps.P) < len(all) {
		ls = append(ls, "pattern:duplicate-or-empty")
	}
	if g, w, u, _ := queueGrowthSmall(all); g > 0 {
		ls = append(ls, "queue:grew")
		if w >= 2 {
			ls = append(ls, "queue:grew-wrapped-twice")
		}
		if w > 0 {
			ls = append(ls, "queue:grew-wrapped")
		}
		if u > 0 {
			ls = append(ls, "queue:grew-unwrapped")
		}
		if g >= 2 {
			ls = append(ls, "queue:grew-twice")
		}
	}
	if out[0] == "panic" {
		ls = append(ls, "panic")
	}
	if !DumpAvailable() {
		ls = append(ls, "dump:unavailable")
	}
	phases, ok := Phases(c)
	if !ok {
		return ls
	}
	if strings.HasPrefix(c.Lines[0], "@ C05 raw") {
		ls = append(ls, "header:raw-no-build")
	}
	if last := phases[len(phases)-1]; last.Round > 0 {
		ls = append(ls, fmt.Sprintf("history:builds=%d", last.Round+1))
		if last.NewInsideOld {
			ls = append(ls, "history:new-pattern-inside-old-node")
		}
	}
	for _, l := range c.Lines[1:] {
		if l == "dumpc" {
			ls = append(ls, "big:pointer-model-only+dumpc")
		}
	}
	for i := 1; i < len(c.Lines); i++ {
		tk := core.Toks(c.Lines[i])
		if phases[i].Mut {
			if out[i] == "panic" {
				ls = append(ls, "panic")
			}
			continue
		}
		if strings.Contains(raw.Lines[i], " ^") {
			ls = append(ls, "feedback:result-as-next-argument")
		}
		if len(tk) == 3 && tk[0] == "sibling" {
			ls = append(ls, "sibling:second-trie")
			continue
		}
		if phases[i].Dirty {
			ls = append(ls, "history:query-before-rebuild")
			if out[i] == "panic" {
				ls = append(ls, "history:query-before-rebuild-panicked-recovered")
			}
			continue
		}
		all, ps = phases[i].All, phases[i].PS
		if phases[i].Round > 0 && out[i] != "dead" {
			ls = append(ls, "history:op-after-rebuild")
		}
		if len(tk) == 1 && tk[0] == "dump" && out[i] != "dead" && out[i] != "panic" {
			_, nodes, nonRoot := ExpectedDump(all)
			switch {
			case nodes >= 40:
				ls = append(ls, "dump:nodes>=40")
			case nodes >= 10:
				ls = append(ls, "dump:nodes>=10")
			default:
				ls = append(ls, "dump:nodes<10")
			}
			if nonRoot > 0 {
				ls = append(ls, "dump:fail-to-non-root")
			}
			if g, w, _, _ := queueGrowthSmall(all); g > 0 {
				ls = append(ls, "dump:queue-grew")
				if w > 0 {
					ls = append(ls, "dump:queue-grew-wrapped")
				}
			}
			if ps.AnyInval {
				ls = append(ls, "dump:invalid-byte-node")
			}
			continue
		}
		if len(tk) != 2 {
			continue
		}
		arg, _ := Unhex(tk[1])
		if out[i] == "panic" {
			ls = append(ls, "panic")
			continue
		}
		if out[i] == "dead" {
			continue
		}
		if HasInvalidByte(arg) {
			ls = append(ls, "text:invalid-utf8")
		}
		if ps.Conflation(arg) {
			ls = append(ls, "conflation-possible")
		}
		switch tk[0] {
		case "match":
			ls = append(ls, "match:"+out[i])
		case "findall":
			sh := Shape(ps.Occurrences(arg))
			switch {
			case sh.N == 0:
				ls = append(ls, "findall:none")
			case sh.N == 1:
				ls = append(ls, "findall:single")
			case !sh.Inter:
				ls = append(ls, "findall:disjoint")
			}
			if sh.Overlap {
				ls = append(ls, "findall:overlap")
			}
			if sh.Nested {
				ls = append(ls, "findall:nested")
			}
		case "prefix":
			got, _ := ParseList(out[i])
			switch {
			case len(got) == 0:
				ls = append(ls, "prefix:nil")
			case len(got) == 1:
				ls = append(ls, "prefix:single")
			default:
				ls = append(ls, "prefix:multi")
			}
			var below [][]byte
			for _, p := range ps.P {
				if bytes.HasPrefix(p, arg) {
					below = append(below, p)
				}
			}
			if backtracksMultibyte(below, len(arg)) {
				ls = append(ls, "prefix:multibyte-backtrack")
			}
		case "fuzzy":
			got, _ := ParseList(out[i])
			if len(got) == 0 {
				ls = append(ls, "fuzzy:nil")
			} else {
				ls = append(ls, "fuzzy:results")
			}
			// suffixes of the key that are prefixes of a pattern = the states on the fail chain
			n := 0
			whole := false
			for s := 0; s < len(arg); s++ {
				for _, p := range ps.P {
					if bytes.HasPrefix(p, arg[s:]) {
						n++
						if s == 0 {
							whole = true
						}
						break
					}
				}
			}
			if n > 0 && !whole {
				ls = append(ls, "fuzzy:fallback")
			}
			if n >= 2 {
				ls = append(ls, "fuzzy:fail-chain")
			}
		}
	}
	return ls
}

// ---- extra: exhaustive small scope over {a,b}, implementation vs the naive oracle

// ABPatterns lists all strings over {a,b} of length 1..maxLen.
func ABStrings(minLen, maxLen int) [][]byte {
	var out [][]byte
	for l := minLen; l <= maxLen; l++ {
		for v := 0; v < 1<<l; v++ {
			b := make([]byte, l)
			for i := range b {
				b[i] = 'a' + byte(v>>(l-1-i)&1)
			}
			out = append(out, b)
		}
	}
	return out
}

// Subsets calls f with every subset of xs of size 0..k (in index order).
func Subsets(xs [][]byte, k int, f func([][]byte)) {
	var rec func(from int, cur [][]byte)
	rec = func(from int, cur [][]byte) {
		f(cur)
		if len(cur) == k {
			return
		}
		for i := from; i < len(xs); i++ {
			rec(i+1, append(cur[:len(cur):len(cur)], xs[i]))
		}
	}
	rec(0, nil)
}

func exhaustive(ctx *core.Ctx) (int, string, []core.ExtraFailure) {
	maxPats, maxLen, maxText := 2, 2, 6
	if ctx.Tier == "thorough" {
		maxPats, maxLen, maxText = 3, 3, 8
	}
	pats := ABStrings(1, maxLen)
	texts := ABStrings(0, maxText)
	evals := 0
	sets := 0
	var fails []core.ExtraFailure
	seen := map[string]bool{}
	Subsets(pats, maxPats, func(set [][]byte) {
		sets++
		// also the reverse insertion order (node.size / isEnd are set at first insertion)
		for rev := 0; rev < 2; rev++ {
			order := append([][]byte{}, set...)
			if rev == 1 {
				if len(set) < 2 {
					break
				}
				for i, j := 0, len(order)-1; i < j; i, j = i+1, j-1 {
					order[i], order[j] = order[j], order[i]
				}
			}
			hdr := Header("C05", order)
			var t algz.Trie
			if o := core.Guard(func() string { return RunTrie(&t, core.Toks(hdr)[2:]) }); o != "ok" {
				if !seen["panic"] {
					seen["panic"] = true
					fails = append(fails, core.ExtraFailure{Failure: core.Failure{Key: "panic", Desc: "building the trie answered " + o}, Payload: []string{hdr}})
				}
				continue
			}
			ps := NewPatSet(order)
			if cyc := FailCycle(&t); cyc != "" {
				if !seen["fail-cycle"] {
					seen["fail-cycle"] = true
					fails = append(fails, core.ExtraFailure{Failure: core.Failure{Key: "fail-cycle", Desc: "the fail chain of node " + cyc + " never reaches the root"}, Payload: []string{hdr, "dump"}})
				}
				continue
			}
			if DumpAvailable() {
				evals++
				o := core.Guard(func() string { return stepOp(&t, []string{"dump"}) })
				if key, desc := checkDump(order, o); key != "" && !seen[key] {
					seen[key] = true
					fails = append(fails, core.ExtraFailure{Failure: core.Failure{Key: key, Desc: desc}, Payload: []string{hdr, "dump"}})
				}
			}
			for _, text := range texts {
				for _, op := range []string{"match", "findall"} {
					evals++
					tk := []string{op, Hex(text)}
					o := core.Guard(func() string { return stepOp(&t, tk) })
					if key, desc := checkOp(ps, op, text, o); key != "" {
						if !seen[key] {
							seen[key] = true
							fails = append(fails, core.ExtraFailure{Failure: core.Failure{Key: key, Desc: desc}, Payload: []string{hdr, op + " " + Hex(text)}})
						}
						if o == "panic" {
							// the trie is still usable (queries do not mutate it)
						}
					}
				}
			}
		}
	})
	note := fmt.Sprintf("all sets of ≤%d patterns of length 1–%d over {a,b} (%d sets, both insertion orders) × all texts of length ≤%d (%d): Match and FindAll against the naive scan, and the node structure (dump) against the prefix closure / longest-proper-suffix computed from the patterns; %d evaluations, %d failure kinds", maxPats, maxLen, sets, maxText, len(texts), evals, len(fails))
	return evals, note, fails
}
