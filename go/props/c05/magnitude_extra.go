package c05

// Two magnitude extras that need sizes the single-threaded Lean label model cannot follow;
// they compare the real code with the property's own predicate (naive byte scanning) only.
//
// "encodings": every way of spelling a scalar value v in 2, 3 and 4 UTF-8-shaped bytes
// (lead | continuation bits filled with v, canonical or not: overlong forms, surrogate
// halves, values beyond U+10FFFF). Against a trie holding the CANONICAL encodings of the
// valid runes of the same block, a text may match only where the bytes really occur:
// Match / FindAll of the spelled sequence must agree with bytes.Contains.
//
// "nested": N patterns ending at the same text position (the N longest suffixes of one
// random string), N around 255/256/257, 511/512/513, 1023/1024/1025 (thorough: 65535…):
// counters of simultaneous outputs must not wrap.

import (
	"bytes"
	"fmt"
	"unicode/utf8"

	"github.com/welllog/golib/algz"

	"verifharness/internal/core"
)

func spell(v uint32, n int) []byte {
	switch n {
	case 2:
		return []byte{0xC0 | byte(v>>6)&0x1F, 0x80 | byte(v)&0x3F}
	case 3:
		return []byte{0xE0 | byte(v>>12)&0x0F, 0x80 | byte(v>>6)&0x3F, 0x80 | byte(v)&0x3F}
	default:
		return []byte{0xF0 | byte(v>>18)&0x07, 0x80 | byte(v>>12)&0x3F, 0x80 | byte(v>>6)&0x3F, 0x80 | byte(v)&0x3F}
	}
}

func encodingsExtra(ctx *core.Ctx) (int, string, []core.ExtraFailure) {
	evals := 0
	var fails []core.ExtraFailure
	report := func(key, desc string, pats [][]byte, op string, text []byte) {
		for _, f := range fails {
			if f.Key == key {
				return
			}
		}
		if len(pats) > 6 {
			pats = pats[:6]
		}
		fails = append(fails, core.ExtraFailure{Failure: core.Failure{Key: key, Desc: desc}, Payload: []string{Header("C05", pats), op + " " + Hex(text)}})
	}
	// blocks of 1024 scalar values; 3-byte spellings cover 0..0xFFFF, 2-byte 0..0x7FF,
	// 4-byte 0..0x1FFFFF (sampled: the first and last two blocks of every 64K plane)
	maxV := uint32(0x200000)
	for base := uint32(0); base < maxV; base += 1024 {
		if ctx.Escalate <= 1 && ctx.Tier != "thorough" {
			// quick: the blocks at the edges of every lead-byte range (first and last 1024
			// values of every 4096 = one 3-byte lead byte; of every 64K plane for 4 bytes)
			// and everything below U+1000; all blocks in thorough and on drift
			off := base & 0xFFFF
			edge3 := base < 0x10000 && (base < 0x1000 || base&0xFFF == 0 || base&0xFFF == 0xC00 || (base >= 0xD000 && base < 0xE000))
			edge4 := base >= 0x10000 && (off == 0 || off == 0x10000-1024)
			if !edge3 && !edge4 {
				continue
			}
		}
		var t algz.Trie
		var pats [][]byte
		canon := map[uint32][]byte{}
		for v := base; v < base+1024; v++ {
			if v >= 0x80 && utf8.ValidRune(rune(v)) {
				c := utf8.AppendRune(nil, rune(v))
				canon[v] = c
				pats = append(pats, c)
				t.Insert(string(c))
			}
		}
		if len(pats) == 0 {
			// nothing valid in this block (surrogates / beyond U+10FFFF): a probe pattern
			// that must never match
			pats = append(pats, []byte("\xef\xbf\xbd"))
			t.Insert("\xef\xbf\xbd")
		}
		t.BuildFailureLinks()
		for v := base; v < base+1024; v++ {
			for n := 2; n <= 4; n++ {
				if (n == 2 && v >= 0x800) || (n == 3 && v >= 0x10000) {
					continue
				}
				text := append(append([]byte("a"), spell(v, n)...), 'z')
				want := false
				for _, p := range pats {
					if bytes.Contains(text, p) {
						want = true
						break
					}
				}
				evals++
				got := core.Guard(func() string { return fmt.Sprint(t.Match(string(text))) })
				if got != fmt.Sprint(want) {
					report("encoding-conflation", fmt.Sprintf("Match(%q) = %s with the canonical encodings of U+%04X..U+%04X as patterns; as bytes the text contains a pattern: %v (the %d-byte spelling of %#x is % x, canonical % x)", text, got, base, base+1023, want, n, v, spell(v, n), canon[v]), pats, "match", text)
				}
				evals++
				all := core.Guard(func() string { return ShowList(t.FindAll(string(text))) })
				if l, ok := ParseList(all); !ok || (len(l) > 0) != want {
					report("encoding-conflation", fmt.Sprintf("FindAll(%q) = %s; as bytes the text contains a pattern: %v (%d-byte spelling of %#x)", text, all, want, n, v), pats, "findall", text)
				} else {
					for _, w := range l {
						if !bytes.Contains(text, w) {
							report("encoding-conflation", fmt.Sprintf("FindAll(%q) returned %q which does not occur", text, w), pats, "findall", text)
						}
					}
				}
			}
		}
	}
	return evals, fmt.Sprintf("every 2-, 3- and (sampled) 4-byte spelling of a scalar value, canonical or not, against the canonical encodings of its 1024-block: Match/FindAll vs bytes.Contains; %d evaluations, %d failure kinds", evals, len(fails)), fails
}

func nestedExtra(ctx *core.Ctx) (int, string, []core.ExtraFailure) {
	sizes := []int{15, 16, 17, 127, 128, 129, 255, 256, 257, 511, 512, 513}
	if ctx.Tier == "thorough" || ctx.Escalate > 1 {
		sizes = append(sizes, 1023, 1024, 1025)
	}
	r := ctx.Rand
	evals := 0
	var fails []core.ExtraFailure
	for _, n := range sizes {
		for rep := 0; rep < 2; rep++ {
			l := n + r.Range(40, 90)
			s := make([]byte, l)
			for i := range s {
				s[i] = "abc"[r.Intn(3)]
			}
			var pats [][]byte
			for k := 0; k < n; k++ {
				pats = append(pats, s[k:])
			}
			for i := len(pats) - 1; i > 0; i-- { // insertion order is random
				j := r.Intn(i + 1)
				pats[i], pats[j] = pats[j], pats[i]
			}
			var t algz.Trie
			for _, p := range pats {
				t.Insert(string(p))
			}
			t.BuildFailureLinks()
			text := append(append([]byte("zz"), s...), 'z')
			want := 0
			for _, p := range pats {
				want += CountOcc(text, p)
			}
			evals += 2
			m := core.Guard(func() string { return fmt.Sprint(t.Match(string(text))) })
			fa := core.Guard(func() string { return fmt.Sprint(len(t.FindAll(string(text)))) })
			if m != "true" || fa != fmt.Sprint(want) {
				if len(fails) == 0 {
					hdr := Header("C05", pats)
					fails = append(fails, core.ExtraFailure{
						Failure: core.Failure{Key: "nested-magnitude", Desc: fmt.Sprintf("%d patterns = the %d longest suffixes of a %d-byte string, text = zz·string·z: Match = %s (an occurrence exists), FindAll returns %s entries, there are %d occurrences", n, n, l, m, fa, want)},
						Payload: []string{hdr, "match " + Hex(text), "findall " + Hex(text)},
					})
				}
			}
		}
	}
	return evals, fmt.Sprintf("N nested patterns ending at one text position (the N longest suffixes of a random string) for N in %v: Match and the number of FindAll entries vs naive counting; %d evaluations, %d failures", sizes, evals, len(fails)), fails
}
