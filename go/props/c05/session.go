package c05

// Session: how both trie properties (C05, C06) drive the real code for one case.
//
//   - results ledger: every string the library returns (the elements of FindAll /
//     PrefixSearch / FuzzySearch results, the results of Replace / ReplaceWithMask, also
//     those of the independent `sibling` trie) is kept ALIVE together with a deep copy
//     taken at return time, and all of them are re-compared after every later call on the
//     same and on the other trie: a result that changes afterwards (pooled or shared
//     backing memory) is reported in place of the answer of the call that changed it
//     (`unstable:…`);
//   - caller memory: every text / key / pattern / replacement is handed to the library as a
//     window of an arena with canary bytes before and after it; the arenas are re-checked
//     after every call (`arena:…` = the library wrote into caller memory);
//   - `^` as an argument is the LIVE previous result (not a copy): results are fed back in;
//   - a query on a dirty trie (patterns inserted since the last BuildFailureLinks) may
//     panic by design: the panic is recovered and the same trie is used on — after the
//     next build it must behave as freshly built; any other panic kills the case;
//   - header `raw` inserts without building.

import (
	"bytes"
	"fmt"
	"strings"
	"unsafe"

	"github.com/welllog/golib/algz"

	"verifharness/internal/core"
)

const (
	UnstableWord = "unstable:"
	ArenaWord    = "arena:"
	canaryLen    = 16
	canaryByte   = 0xA5
)

type ledgerEntry struct {
	line int
	live string
	copy string
}

type arena struct {
	line int
	mem  []byte
	want []byte
}

type Session struct {
	T      algz.Trie
	Dirty  bool
	Last   string // live previous result: what `^` stands for
	line   int
	cyc    string
	ledger []ledgerEntry
	arenas []arena
}

// Arg resolves an argument token: `^` = the live previous result, otherwise hex bytes
// placed in a fresh arena between canaries.
func (s *Session) Arg(tok string) (string, bool) {
	if tok == "^" {
		return s.Last, true
	}
	b, ok := Unhex(tok)
	if !ok {
		return "", false
	}
	mem := make([]byte, 2*canaryLen+len(b))
	for i := range mem {
		mem[i] = canaryByte
	}
	copy(mem[canaryLen:], b)
	s.arenas = append(s.arenas, arena{line: s.line, mem: mem, want: append([]byte(nil), mem...)})
	if len(b) == 0 {
		return "", true
	}
	return unsafe.String(&mem[canaryLen], len(b)), true
}

// Keep enters returned strings into the ledger.
func (s *Session) Keep(strs ...string) {
	for _, x := range strs {
		s.ledger = append(s.ledger, ledgerEntry{line: s.line, live: x, copy: strings.Clone(x)})
	}
}

// verify re-compares every earlier result and every arena; "" = all unchanged.
func (s *Session) verify() string {
	for i := range s.ledger {
		e := &s.ledger[i]
		if e.live != e.copy {
			m := fmt.Sprintf("%sline=%d:was=%s:now=%s", UnstableWord, e.line, Hex([]byte(e.copy)), Hex([]byte(e.live)))
			e.copy = strings.Clone(e.live) // report once
			return m
		}
	}
	for i := range s.arenas {
		a := &s.arenas[i]
		if !bytes.Equal(a.mem, a.want) {
			m := fmt.Sprintf("%sline=%d:was=%s:now=%s", ArenaWord, a.line, Hex(a.want), Hex(a.mem))
			a.want = append([]byte(nil), a.mem...)
			return m
		}
	}
	return ""
}

// QueryFn answers one non-mutating op of a property on the session's trie.
type QueryFn func(s *Session, tk []string) string

// Sibling returns an independent second trie: a by-value copy of a zero Trie (the only
// copy the type supports: a used Trie embeds its root node, to which the depth-1 failure
// links point), with one pattern inserted and built.
func (s *Session) Sibling(pat string) *algz.Trie {
	var zero algz.Trie
	t2 := zero
	t2.Insert(pat)
	t2.BuildFailureLinks()
	return &t2
}

func (s *Session) init(hdr []string) string {
	if len(hdr) < 1 || (hdr[0] != "trie" && hdr[0] != "raw") {
		return "bad-op"
	}
	var pats []string
	for _, h := range hdr[1:] {
		p, ok := s.Arg(h)
		if !ok || h == "^" {
			return "bad-op"
		}
		pats = append(pats, p)
	}
	for _, p := range pats {
		s.T.Insert(p)
	}
	if hdr[0] == "raw" {
		s.Dirty = true
		return "ok"
	}
	s.T.BuildFailureLinks()
	s.cyc = FailCycle(&s.T)
	return "ok"
}

func (s *Session) step(tk []string, q QueryFn) (out string, mut bool) {
	if len(tk) == 1 && tk[0] == "build" {
		s.T.BuildFailureLinks()
		s.Dirty = false
		s.cyc = FailCycle(&s.T)
		return "ok", true
	}
	if len(tk) == 2 && tk[0] == "insert" {
		p, ok := s.Arg(tk[1])
		if !ok {
			return "bad-op", false
		}
		s.T.Insert(p)
		s.Dirty = true
		return "ok", true
	}
	if len(tk) == 1 && tk[0] == "dump" {
		if !DumpAvailable() {
			return "dump-unavailable", false
		}
		return DumpTrie(&s.T), false
	}
	if len(tk) == 1 && tk[0] == "dumpc" {
		if !DumpAvailable() {
			return "dump-unavailable", false
		}
		return DumpCompact(&s.T), false
	}
	if s.cyc != "" && !s.Dirty && !(len(tk) == 3 && tk[0] == "sibling") && !(len(tk) == 1 && tk[0] == "dumpc") {
		// a query reaching that node would never return (and exhaust the memory)
		return CycleWord + s.cyc, false
	}
	return q(s, tk), false
}

// RunSession is Impl for the trie protocols.
func RunSession(c core.Case, q QueryFn) []string {
	s := &Session{}
	out := make([]string, 0, len(c.Lines))
	hdr := core.Toks(c.Lines[0])
	if len(hdr) >= 2 {
		hdr = hdr[2:]
	}
	o := core.Guard(func() string { return s.init(hdr) })
	out = append(out, o)
	dead := o == "panic"
	for i, l := range c.Lines[1:] {
		if dead {
			out = append(out, "dead")
			continue
		}
		s.line = i + 1
		tk := core.Toks(l)
		wasDirty := s.Dirty
		mut := len(tk) >= 1 && (tk[0] == "build" || tk[0] == "insert")
		o := core.Guard(func() string {
			r, _ := s.step(tk, q)
			return r
		})
		if o == "panic" {
			if mut || !wasDirty {
				dead = true
			}
			// else: a query before the rebuild panicked by design; recovered, trie used on
		}
		if !dead {
			if m := s.verify(); m != "" {
				o = m
			}
		}
		out = append(out, o)
	}
	return out
}

// Resolved returns the case with every `^` argument replaced by the hex of the result it
// stood for, computed from the implementation's own answers (c06 = the answers are result
// strings in hex; otherwise they are string lists and `^` is the last element of the last
// non-empty list).
func Resolved(c core.Case, out []string, c06 bool) core.Case {
	lines := append([]string{}, c.Lines...)
	last := "-"
	for i := 1; i < len(lines) && i < len(out); i++ {
		tk := core.Toks(lines[i])
		changed := false
		for j := 1; j < len(tk); j++ {
			if tk[j] == "^" {
				tk[j] = last
				changed = true
			}
		}
		if changed {
			lines[i] = strings.Join(tk, " ")
		}
		if len(tk) == 0 {
			continue
		}
		o := out[i]
		switch {
		case c06 && (tk[0] == "mask" || tk[0] == "replace"):
			if _, ok := Unhex(o); ok {
				last = o
			}
		case !c06 && (tk[0] == "findall" || tk[0] == "prefix" || tk[0] == "fuzzy"):
			if l, ok := ParseList(o); ok && len(l) > 0 {
				last = Hex(l[len(l)-1])
			}
		}
	}
	return core.Case{Lines: lines, Seed: c.Seed, Tag: c.Tag}
}

// Instability finds an `unstable:` / `arena:` answer.
func Instability(c core.Case, out []string) *core.Failure {
	for i, o := range out {
		if strings.HasPrefix(o, UnstableWord) {
			return &core.Failure{Key: "result-unstable", Desc: fmt.Sprintf("a string returned earlier (by the op of line %s) changed when op %d %q ran: returned strings must not share memory with later calls (%s)", strings.TrimPrefix(strings.SplitN(o, ":", 3)[1], "line="), i, c.Lines[i], o)}
		}
		if strings.HasPrefix(o, ArenaWord) {
			return &core.Failure{Key: "caller-memory", Desc: fmt.Sprintf("op %d %q wrote into caller memory (argument arena with canaries): %s", i, c.Lines[i], o)}
		}
	}
	return nil
}
