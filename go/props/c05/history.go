package c05

// History stream (shared with C06): the same trie goes through several rounds of
// Insert…, BuildFailureLinks, queries. The property quantifies over "after inserting
// any set of patterns and building failure links": a later build must be worth a first
// build over everything inserted so far (Lean: c05_rebuild_eq_build).

import (
	"bytes"

	"github.com/welllog/golib/algz"

	"verifharness/internal/core"
)

// ---- histories: Insert…, Build, queries, Insert…, Build, queries

// Phase describes, for one line of a case, the pattern set in force: the patterns of
// the header plus those of the `insert` ops up to the latest `build`.
type Phase struct {
	All   [][]byte // patterns covered by the latest build (insertion order, as given)
	PS    *PatSet
	Dirty bool // patterns were inserted after the latest build: queries are outside the property
	Mut   bool // the line itself is `insert` / `build`
	Round int  // number of `build` ops before this line (0 = only the header's build)
	// NewInsideOld: a pattern added after the first build occurs inside (not as a prefix
	// of) a pattern of an earlier round — old nodes need new failure links
	NewInsideOld bool
}

// Phases returns one Phase per line (index 0 = the header).
func Phases(c core.Case) ([]Phase, bool) {
	all, ok := HeaderPatterns(c.Lines[0])
	if !ok {
		return nil, false
	}
	out := make([]Phase, len(c.Lines))
	cur := Phase{All: all, PS: NewPatSet(all)}
	var pending [][]byte
	if h := core.Toks(c.Lines[0]); len(h) >= 3 && h[2] == "raw" {
		// inserted, not built: nothing is in force yet
		cur = Phase{PS: NewPatSet(nil), Dirty: true}
		pending = all
	}
	out[0] = cur
	for i := 1; i < len(c.Lines); i++ {
		tk := core.Toks(c.Lines[i])
		switch {
		case len(tk) == 2 && tk[0] == "insert":
			p, ok := Unhex(tk[1])
			if !ok {
				return nil, false
			}
			pending = append(pending, p)
			cur.Dirty = true
			out[i] = cur
			out[i].Mut = true
		case len(tk) == 1 && tk[0] == "build":
			if len(pending) > 0 {
				for _, p := range pending {
					for _, o := range cur.All {
						if len(p) > 0 && len(p) < len(o) && bytes.Contains(o[1:], p) {
							cur.NewInsideOld = true
						}
					}
				}
				na := append(append([][]byte{}, cur.All...), pending...)
				cur.All, cur.PS, pending = na, NewPatSet(na), nil
			}
			cur.Dirty = false
			cur.Round++
			out[i] = cur
			out[i].Mut = true
		default:
			out[i] = cur
		}
	}
	return out, true
}

// StepMut runs a state-changing op (`insert <hex>`, `build`) on the real trie.
func StepMut(t *algz.Trie, tk []string) (string, bool) {
	if len(tk) == 1 && tk[0] == "build" {
		t.BuildFailureLinks()
		return "ok", true
	}
	if len(tk) == 2 && tk[0] == "insert" {
		p, ok := Unhex(tk[1])
		if !ok {
			return "bad-op", true
		}
		t.Insert(string(p))
		return "ok", true
	}
	return "", false
}

// NextRound derives the patterns of a later round from those inserted so far, biased
// to what forces OLD nodes to get NEW failure links: a suffix of a proper prefix of an
// earlier pattern (an infix that does not start it), proper suffixes, plus duplicates,
// extensions, prefixes, siblings and fresh patterns. focus = earlier patterns that
// contain one of the new ones (texts to query afterwards).
func NextRound(r *core.Rand, u Unit, sofar []Seq) (newp []Seq, focus []Seq) {
	ne := NonEmpty(sofar)
	n := r.Pick(8, 30, 30, 20, 12) // 0..4 new patterns (0: a rebuild with nothing new)
	for k := 0; k < n; k++ {
		if len(ne) == 0 {
			newp = append(newp, RandSeq(r, u, 1, 3))
			continue
		}
		base := ne[r.Intn(len(ne))]
		for i := 0; i < 4 && len(base) < 3; i++ { // prefer a pattern with an inside
			base = ne[r.Intn(len(ne))]
		}
		var p Seq
		if r.Chance(4) {
			newp = append(newp, Seq{}) // Insert("") in a later round: a no-op
			continue
		}
		switch r.Pick(40, 15, 8, 10, 8, 9, 10) {
		case 0: // infix that does not start the pattern: base[i:j], i >= 1
			if len(base) >= 2 {
				i := r.Range(1, len(base)-1)
				j := r.Range(i+1, len(base))
				p = base[i:j].Clone()
				focus = append(focus, base)
			}
		case 1: // proper suffix
			if len(base) >= 2 {
				p = base[r.Range(1, len(base)-1):].Clone()
				focus = append(focus, base)
			}
		case 2:
			p = base.Clone()
		case 3:
			p = append(base.Clone(), RandSeq(r, u, 1, 2)...)
		case 4:
			p = base[:r.Range(1, len(base))].Clone()
		case 5: // sibling
			k := r.Intn(len(base))
			p = append(base[:k].Clone(), otherUnit(r, u, base[k]))
		default:
			p = RandSeq(r, u, 1, 4)
		}
		if p == nil {
			p = RandSeq(r, u, 1, 3)
		}
		newp = append(newp, p)
		ne = append(ne, p) // later patterns of the round may derive from earlier ones
	}
	return
}

// HistoryBase picks the patterns of round 0 for a history case.
func HistoryBase(r *core.Rand) ([]Seq, Unit, []Seq) {
	pats, u, _ := GenTrie(r)
	var later []Seq
	switch {
	case r.Chance(8):
		pats = nil // an empty trie is built first
	case len(pats) > 3 && r.Chance(35):
		k := r.Range(1, len(pats)-1)
		pats, later = pats[:k], pats[k:] // the tail arrives in a later round, unchanged
	}
	return pats, u, later
}
