// Package c07: backslash escape codecs of strz/enc.go (OctalFormat/OctalParse,
// HexFormat/HexParse, UnicodeFormat/UnicodeParse, Utf16Format/Utf16Parse and their
// ToString forms) round-trip and parse any input safely.
package c07

import (
	"bytes"
	"encoding/hex"
	"fmt"
	"strconv"
	"strings"
	"unicode/utf16"
	"unicode/utf8"

	"github.com/welllog/golib/strz"

	"verifharness/internal/core"
)

func init() {
	core.Register(&core.Prop{
		ID:         "C07",
		Title:      "Backslash escape codecs round-trip and parse any input safely",
		Quick:      10000,
		Thorough:   300000,
		Gen:        gen,
		Corpus:     corpus,
		Impl:       impl,
		Check:      check,
		NonTrivial: nonTrivial,
		Rule: "one codec (octal/hex/unicode/utf16) per case; ops format/formatstr/roundtrip on random bytes or UTF-8 " +
			"(all four length classes, surrogate boundary, invalid bytes), parse/parsestr/parsebytes on reference-formatted " +
			"output, on well-formed escapes embedded in text, and on every prefix of a malformed token stream; layout stream (tag layout): the same input parsed in place (dst == src), with dst starting k = 1..13, 64, len, len+1 bytes before src in one array, and with dst a window behind src in src's arena, canaries around every window, result compared with the two-buffer result; results ledger: every returned string/[]byte of a case is kept with an independent copy and re-compared after every later call; large stream (tag large): inputs of 1 KB-64 KB (thorough -256 KB) at sizes 1023..65537 around 1024/4096/8192/65536, long escape runs, an escape straddling offset 4096/65536/end, long malformed streams, Format of up to 64 KB incl. supplementary-rune runs that outgrow Utf16Format's capacity, parsen with dst = len, len+1 (len-1 up to 4 KB); " +
			"non-trivial = at least one Format of non-empty input or one Parse whose input contains a backslash; distinct by hash of the op list",
		Classify: classify,
		Parallel: true,
		Shrink:   shrink,
		Extras:   extras(),
		Assumptions: []string{
			"Go int treated as unbounded (no input near 2^63 bytes)",
			"strconv.AppendUint, unicode/utf8 and unicode/utf16 behave as modelled: unicode/utf8 compared with the Lean prelude exhaustively on every run (extra utf8-prelude-exhaustive-tie); AppendUint/utf16 compared through Format and Parse of every code point and every escape value (extra all-scalars-and-escapes)",
			"private parseUint/appendUint are only reachable through the exported codecs; they are tied through them",
		},
	})
}

var codecs = []string{"octal", "hex", "unicode", "utf16"}

type codecFns struct {
	format     func([]byte) []byte
	formatStr  func(string) string
	parse      func(dst, src []byte) int
	parseStr   func(string) string
	parseBytes func([]byte) string
	// the other instantiation of the two generic Format functions (string in / []byte in)
	formatS    func(string) []byte
	formatStrB func([]byte) string
}

func fns(k string) *codecFns {
	switch k {
	case "octal":
		return &codecFns{strz.OctalFormat[[]byte], strz.OctalFormatToString[string], strz.OctalParse, strz.OctalParseToString[string], strz.OctalParseToString[[]byte], strz.OctalFormat[string], strz.OctalFormatToString[[]byte]}
	case "hex":
		return &codecFns{strz.HexFormat[[]byte], strz.HexFormatToString[string], strz.HexParse, strz.HexParseToString[string], strz.HexParseToString[[]byte], strz.HexFormat[string], strz.HexFormatToString[[]byte]}
	case "unicode":
		return &codecFns{strz.UnicodeFormat[[]byte], strz.UnicodeFormatToString[string], strz.UnicodeParse, strz.UnicodeParseToString[string], strz.UnicodeParseToString[[]byte], strz.UnicodeFormat[string], strz.UnicodeFormatToString[[]byte]}
	case "utf16":
		return &codecFns{strz.Utf16Format[[]byte], strz.Utf16FormatToString[string], strz.Utf16Parse, strz.Utf16ParseToString[string], strz.Utf16ParseToString[[]byte], strz.Utf16Format[string], strz.Utf16FormatToString[[]byte]}
	}
	return nil
}

func hx(b []byte) string {
	if len(b) == 0 {
		return "-"
	}
	return hex.EncodeToString(b)
}

func unhx(s string) ([]byte, bool) {
	if s == "-" {
		return []byte{}, true
	}
	b, err := hex.DecodeString(s)
	if err != nil {
		return nil, false
	}
	// exact capacity: a slice expression beyond len must panic as in the model
	return b[:len(b):len(b)], true
}

// ---------------------------------------------------------------- implementation

// ledger: every result returned by the library in this case, kept as the returned value
// itself (string / []byte sharing whatever memory the library gave out) together with an
// independent copy; re-compared after every later call (results ledger, WAVE4 class 2).
type ledger struct {
	strs  []string
	bytes [][]byte
	cps   [][]byte
	cpb   [][]byte
}

func (l *ledger) addS(s string) string {
	l.strs = append(l.strs, s)
	l.cps = append(l.cps, []byte(strings.Clone(s)))
	return s
}

func (l *ledger) addB(b []byte) []byte {
	l.bytes = append(l.bytes, b)
	l.cpb = append(l.cpb, append([]byte{}, b...))
	return b
}

// changed reports the index of an earlier result that no longer equals its copy.
func (l *ledger) changed() int {
	for i, s := range l.strs {
		if s != string(l.cps[i]) {
			return i
		}
	}
	for i, b := range l.bytes {
		if !bytes.Equal(b, l.cpb[i]) {
			return len(l.strs) + i
		}
	}
	return -1
}

const canaryLen = 24

// arena lays out windows in one allocation, canaries (0xC5) before, between and behind.
func newArena(n int) []byte {
	a := make([]byte, n)
	for i := range a {
		a[i] = 0xC5
	}
	return a
}

func canaryOK(b []byte) bool {
	for _, c := range b {
		if c != 0xC5 {
			return false
		}
	}
	return true
}

func impl(c core.Case) []string {
	var f *codecFns
	led := &ledger{}
	var hdrCodec string
	step := implStep(&f, &hdrCodec, led)
	return core.RunOps(c,
		func(hdr []string) string {
			if len(hdr) != 1 {
				return "bad-op"
			}
			f = fns(hdr[0])
			if f == nil {
				return "bad-op"
			}
			hdrCodec = hdr[0]
			return "ok"
		},
		func(t []string) string {
			o := step(t)
			if o != "panic" && o != "bad-op" {
				if j := led.changed(); j >= 0 {
					return fmt.Sprintf("ledger-changed %d", j) // an EARLIER result changed during this call
				}
			}
			return o
		})
}

func implStep(fp **codecFns, kp *string, led *ledger) func(t []string) string {
	return (
		func(t []string) string {
			f := *fp
			hdrCodec := *kp
			if len(t) < 2 {
				return "bad-op"
			}
			in, ok := unhx(t[1])
			if !ok {
				return "bad-op"
			}
			keep := append([]byte{}, in...)
			var out string
			switch {
			case t[0] == "format" && len(t) == 2:
				o := led.addB(f.format(in))
				if o2 := led.addB(f.formatS(string(in))); !bytes.Equal(o, o2) {
					return "form-mismatch" // XxxFormat[[]byte] and XxxFormat[string] disagree
				}
				out = hx(o)
			case t[0] == "formatstr" && len(t) == 2:
				o := led.addS(f.formatStr(string(in)))
				if o2 := led.addS(f.formatStrB(in)); o != o2 {
					return "form-mismatch" // XxxFormatToString[string] and [[]byte] disagree
				}
				out = hx([]byte(o))
			case t[0] == "formatdig" && len(t) == 2:
				// huge input: the output is compared with the reference formatter here (the case
				// lines carry only its length and digest)
				o := f.format(in)
				if want := refFormat(hdrCodec, in); !bytes.Equal(o, want) {
					at := 0
					for at < len(o) && at < len(want) && o[at] == want[at] {
						at++
					}
					lo, hi := at-12, at+18
					if lo < 0 {
						lo = 0
					}
					clip := func(b []byte) []byte {
						if hi > len(b) {
							return b[lo:]
						}
						return b[lo:hi]
					}
					return fmt.Sprintf("ref-mismatch at=%d got=%q want=%q", at, clip(o), clip(want))
				}
				h := uint64(fnvBasis)
				for _, c := range o {
					h = mix(h, uint64(c))
				}
				out = fmt.Sprintf("%d %d", len(o), h)
			case t[0] == "parse" && len(t) == 3:
				n, err := strconv.Atoi(t[2])
				if err != nil || n < 0 {
					return "bad-op"
				}
				dst := make([]byte, n)
				k := f.parse(dst, in)
				out = fmt.Sprintf("%d %s", k, hx(dst))
			case t[0] == "parsen" && len(t) == 3:
				n, err := strconv.Atoi(t[2])
				if err != nil || n < 0 {
					return "bad-op"
				}
				dst := make([]byte, n)
				k := f.parse(dst, in)
				for _, b := range dst[k:] {
					if b != 0 {
						return "overrun" // wrote behind the returned length
					}
				}
				out = fmt.Sprintf("%d %s", k, hx(dst[:k]))
			case t[0] == "parsestr" && len(t) == 2:
				out = hx([]byte(led.addS(f.parseStr(string(in)))))
			case t[0] == "parsebytes" && len(t) == 2:
				out = hx([]byte(led.addS(f.parseBytes(in))))
			case t[0] == "roundtrip" && len(t) == 2:
				out = hx([]byte(led.addS(f.parseStr(led.addS(f.formatStr(string(in)))))))
			case t[0] == "parseip" && len(t) == 4:
				// ONE memory: dst = arena[c+0 : c+dl], src = arena[c+k : c+k+len], canaries around
				k, e1 := strconv.Atoi(t[2])
				dl, e2 := strconv.Atoi(t[3])
				if e1 != nil || e2 != nil || k < 0 || k > 65536 || dl < len(in) {
					return "bad-op"
				}
				span := k + len(in)
				if dl > span {
					span = dl
				}
				a := newArena(canaryLen + span + canaryLen)
				src := a[canaryLen+k : canaryLen+k+len(in) : canaryLen+k+len(in)]
				copy(src, in)
				dst := a[canaryLen : canaryLen+dl : canaryLen+dl]
				n := f.parse(dst, src)
				if !canaryOK(a[:canaryLen]) || !canaryOK(a[canaryLen+span:]) {
					return "canary" // wrote outside dst
				}
				got := append([]byte{}, dst[:n]...)
				// the same input parsed into a separate buffer
				fresh := make([]byte, len(in))
				m := f.parse(fresh, in)
				if n != m || !bytes.Equal(got, fresh[:m]) {
					return fmt.Sprintf("inplace-differs %d %s", m, hx(fresh[:m]))
				}
				out = fmt.Sprintf("%d %s", n, hx(got))
			case t[0] == "parsew" && len(t) == 4:
				// dst is a window of src's arena BEHIND src, `gap` bytes apart; canaries everywhere else
				dl, e1 := strconv.Atoi(t[2])
				gap, e2 := strconv.Atoi(t[3])
				if e1 != nil || e2 != nil || dl < 0 || gap < 0 || gap > 4096 {
					return "bad-op"
				}
				a := newArena(canaryLen + len(in) + gap + dl + canaryLen)
				src := a[canaryLen : canaryLen+len(in) : canaryLen+len(in)]
				copy(src, in)
				d0 := canaryLen + len(in) + gap
				dst := a[d0 : d0+dl : d0+dl]
				for i := range dst {
					dst[i] = 0
				}
				n := f.parse(dst, src)
				if !canaryOK(a[:canaryLen]) || !canaryOK(a[canaryLen+len(in):d0]) || !canaryOK(a[d0+dl:]) {
					return "canary"
				}
				if !bytes.Equal(src, in) {
					return "input-modified"
				}
				for _, b := range dst[n:] {
					if b != 0 {
						return "overrun"
					}
				}
				out = fmt.Sprintf("%d %s", n, hx(dst[:n]))
			default:
				return "bad-op"
			}
			if !bytes.Equal(keep, in) {
				return "input-modified"
			}
			return out
		})
}

// ---------------------------------------------------------------- independent references

// refFormat is the documented output format written with fmt / the standard library.
func refFormat(k string, b []byte) []byte {
	var sb strings.Builder
	switch k {
	case "octal":
		for _, c := range b {
			fmt.Fprintf(&sb, "\\%03o", c)
		}
	case "hex":
		for _, c := range b {
			fmt.Fprintf(&sb, "\\x%02X", c)
		}
	case "unicode":
		for _, r := range string(b) { // an invalid byte ranges as U+FFFD
			fmt.Fprintf(&sb, "\\U%08X", r)
		}
	case "utf16":
		for _, u := range utf16.Encode([]rune(string(b))) {
			fmt.Fprintf(&sb, "\\u%04X", u)
		}
	}
	return []byte(sb.String())
}

func isHex(c byte) bool {
	return '0' <= c && c <= '9' || 'a' <= c && c <= 'f' || 'A' <= c && c <= 'F'
}

func allHex(b []byte) bool {
	for _, c := range b {
		if !isHex(c) {
			return false
		}
	}
	return true
}

// escapeAt recognises a well-formed escape of codec k at the start of s and returns
// what it denotes. Surrogate code points written as \U0000D800 or unpaired \uD800 are
// not well-formed escapes.
func escapeAt(k string, s []byte) (den []byte, n int, ok bool) {
	if len(s) == 0 || s[0] != '\\' {
		return nil, 0, false
	}
	switch k {
	case "octal":
		if len(s) >= 4 && '0' <= s[1] && s[1] <= '3' && '0' <= s[2] && s[2] <= '7' && '0' <= s[3] && s[3] <= '7' {
			v, _ := strconv.ParseUint(string(s[1:4]), 8, 8)
			return []byte{byte(v)}, 4, true
		}
	case "hex":
		if len(s) >= 4 && s[1] == 'x' && allHex(s[2:4]) {
			v, _ := strconv.ParseUint(string(s[2:4]), 16, 8)
			return []byte{byte(v)}, 4, true
		}
	case "unicode":
		if len(s) >= 10 && s[1] == 'U' && allHex(s[2:10]) {
			v, _ := strconv.ParseUint(string(s[2:10]), 16, 32)
			if v <= utf8.MaxRune && !(0xd800 <= v && v <= 0xdfff) {
				return []byte(string(rune(v))), 10, true
			}
		}
	case "utf16":
		if len(s) >= 6 && s[1] == 'u' && allHex(s[2:6]) {
			v, _ := strconv.ParseUint(string(s[2:6]), 16, 16)
			if v < 0xd800 || v >= 0xe000 {
				return []byte(string(rune(v))), 6, true
			}
			if v < 0xdc00 && len(s) >= 12 && s[6] == '\\' && s[7] == 'u' && allHex(s[8:12]) {
				w, _ := strconv.ParseUint(string(s[8:12]), 16, 16)
				if 0xdc00 <= w && w < 0xe000 {
					r := utf16.DecodeRune(rune(v), rune(w))
					return []byte(string(r)), 12, true
				}
			}
		}
	}
	return nil, 0, false
}

// refParse: if s consists only of backslash-free text and well-formed escapes, what it
// denotes. ok=false: s contains a backslash that does not start a well-formed escape
// (the property then only demands safety).
func refParse(k string, s []byte) (out []byte, nesc int, ok bool) {
	for i := 0; i < len(s); {
		if s[i] != '\\' {
			out = append(out, s[i])
			i++
			continue
		}
		den, n, good := escapeAt(k, s[i:])
		if !good {
			return nil, 0, false
		}
		out = append(out, den...)
		nesc++
		i += n
	}
	return out, nesc, true
}

var escWidth = map[string]int{"octal": 4, "hex": 4, "unicode": 10, "utf16": 6}

// shapeOK: fixed-width upper-case escapes only.
func shapeOK(k string, out []byte) bool {
	w := escWidth[k]
	if len(out)%w != 0 {
		return false
	}
	for i := 0; i < len(out); i += w {
		e := out[i : i+w]
		if e[0] != '\\' {
			return false
		}
		ds := e[2:]
		switch k {
		case "octal":
			ds = e[1:]
		case "hex":
			if e[1] != 'x' {
				return false
			}
		case "unicode":
			if e[1] != 'U' {
				return false
			}
		case "utf16":
			if e[1] != 'u' {
				return false
			}
		}
		for _, c := range ds {
			if k == "octal" {
				if c < '0' || c > '7' {
					return false
				}
			} else if !('0' <= c && c <= '9' || 'A' <= c && c <= 'F') {
				return false
			}
		}
	}
	return true
}

// ---------------------------------------------------------------- property oracle

func check(c core.Case, out []string) *core.Failure {
	hdr := core.Toks(c.Lines[0])
	if len(hdr) != 3 {
		return nil
	}
	k := hdr[2]
	if fns(k) == nil {
		return nil
	}
	for i := 1; i < len(c.Lines); i++ {
		t := core.Toks(c.Lines[i])
		if len(t) < 2 || out[i] == "dead" || out[i] == "bad-op" {
			continue
		}
		in, ok := unhx(t[1])
		if !ok {
			continue
		}
		fail := func(key, format string, a ...any) *core.Failure {
			clip := func(x string) string {
				if len(x) > 160 {
					return x[:160] + fmt.Sprintf("… (%d chars)", len(x))
				}
				return x
			}
			return &core.Failure{Key: k + "-" + key, Desc: fmt.Sprintf("op %d %q -> %q: ", i, clip(c.Lines[i]), clip(out[i])) + fmt.Sprintf(format, a...)}
		}
		if out[i] == "input-modified" {
			return fail("input-modified", "the call wrote into its input")
		}
		if strings.HasPrefix(out[i], "ledger-changed") {
			return fail("result-changed", "a result returned by an EARLIER call of this case changed during this call (results must not share memory with later calls)")
		}
		if out[i] == "canary" {
			return fail("canary", "the call wrote outside its dst window")
		}
		if strings.HasPrefix(out[i], "inplace-differs") {
			return fail("inplace-differs", "parsing with dst and src in one array (dst starting %s bytes before src) differs from parsing into a fresh buffer: fresh = %s", t[2], strings.TrimPrefix(out[i], "inplace-differs "))
		}
		if strings.HasPrefix(out[i], "ref-mismatch") {
			return fail("format-ref", "Format of a %d-byte input differs from the documented format: %s", len(in), strings.TrimPrefix(out[i], "ref-mismatch "))
		}
		if out[i] == "form-mismatch" {
			return fail("form-mismatch", "the []byte and the string instantiation of the generic function return different results")
		}
		switch t[0] {
		case "format", "formatstr":
			if out[i] == "panic" {
				return fail("format-panic", "Format panicked")
			}
			got, _ := unhx(out[i])
			if !shapeOK(k, got) {
				return fail("format-shape", "output is not a sequence of fixed-width upper-case escapes")
			}
			if want := refFormat(k, in); !bytes.Equal(got, want) {
				return fail("format-ref", "documented format is %q", want)
			}
		case "roundtrip":
			if out[i] == "panic" {
				return fail("roundtrip-panic", "Parse(Format(s)) panicked")
			}
			got, _ := unhx(out[i])
			want := in
			if k == "unicode" || k == "utf16" {
				want = []byte(strings.ToValidUTF8(string(in), "�"))
				if !utf8.Valid(in) {
					// each invalid byte becomes one U+FFFD (ToValidUTF8 merges runs)
					want = want[:0]
					for _, r := range string(in) {
						want = utf8.AppendRune(want, r)
					}
				}
			}
			if !bytes.Equal(got, want) {
				return fail("roundtrip", "Parse(Format(%x)) = %x, want %x", in, got, want)
			}
		case "parse", "parsestr", "parsebytes", "parsen", "parseip", "parsew":
			dstlen := len(in)
			if out[i] == "overrun" {
				return fail("parse-overrun", "wrote into dst behind the returned length")
			}
			if t[0] == "parse" || t[0] == "parsen" {
				if len(t) != 3 {
					continue
				}
				dstlen, _ = strconv.Atoi(t[2])
			}
			if t[0] == "parsew" && len(t) == 4 {
				dstlen, _ = strconv.Atoi(t[2])
			}
			if dstlen < len(in) {
				continue // dst shorter than src is outside the contract; only the correspondence looks at it
			}
			if out[i] == "panic" {
				return fail("parse-panic", "Parse panicked on %q", in)
			}
			var got []byte
			if t[0] == "parsen" || t[0] == "parseip" || t[0] == "parsew" {
				f := strings.Fields(out[i])
				if len(f) != 2 {
					return fail("parse-output", "unexpected output")
				}
				n, _ := strconv.Atoi(f[0])
				got, _ = unhx(f[1])
				if n != len(got) || n > len(in) {
					return fail("parse-len", "returned %d, %d bytes, len(input) = %d", n, len(got), len(in))
				}
			} else if t[0] == "parse" {
				f := strings.Fields(out[i])
				if len(f) != 2 {
					return fail("parse-output", "unexpected output")
				}
				n, _ := strconv.Atoi(f[0])
				dst, _ := unhx(f[1])
				if n < 0 || n > len(in) {
					return fail("parse-len", "returned %d > len(input) = %d", n, len(in))
				}
				if n > len(dst) {
					return fail("parse-len", "returned %d > len(dst)", n)
				}
				got = dst[:n]
				// nothing is written behind the result (dst was zeroed)
				for _, b := range dst[n:] {
					if b != 0 {
						return fail("parse-overrun", "wrote into dst behind the returned length")
					}
				}
			} else {
				got, _ = unhx(out[i])
				if len(got) > len(in) {
					return fail("parse-len", "produced %d bytes > len(input) = %d", len(got), len(in))
				}
			}
			if bytes.IndexByte(in, '\\') < 0 && !bytes.Equal(got, in) {
				return fail("no-backslash-id", "input without backslash was changed to %q", got)
			}
			if want, _, ok := refParse(k, in); ok && !bytes.Equal(got, want) {
				return fail("wellformed-decode", "text with well-formed escapes denotes %q, got %q", want, got)
			}
		}
	}
	return nil
}

func nonTrivial(c core.Case, out []string) bool {
	for _, l := range c.Lines[1:] {
		t := core.Toks(l)
		if len(t) < 2 {
			continue
		}
		switch t[0] {
		case "format", "formatstr", "roundtrip":
			if t[1] != "-" {
				return true
			}
		default:
			if strings.Contains(t[1], "5c") {
				if b, ok := unhx(t[1]); ok && bytes.IndexByte(b, '\\') >= 0 {
					return true
				}
			}
		}
	}
	return false
}

func classify(c core.Case, out []string) []string {
	hdr := core.Toks(c.Lines[0])
	if len(hdr) != 3 {
		return nil
	}
	k := hdr[2]
	seen := map[string]bool{}
	add := func(l string) { seen[k+":"+l] = true }
	for i := 1; i < len(c.Lines); i++ {
		t := core.Toks(c.Lines[i])
		if len(t) < 2 {
			continue
		}
		in, ok := unhx(t[1])
		if !ok {
			continue
		}
		if out[i] == "panic" {
			add("panic")
			continue
		}
		switch t[0] {
		case "format", "formatstr", "roundtrip":
			if len(in) >= 1024 {
				add("large-format")
			}
			if k == "unicode" || k == "utf16" {
				for _, r := range string(in) {
					switch {
					case r == utf8.RuneError:
						add("fmt-FFFD")
					case r < 0x80:
						add("fmt-1byte")
					case r < 0x800:
						add("fmt-2byte")
					case r < 0x10000:
						add("fmt-3byte")
					default:
						add("fmt-4byte")
					}
				}
				if !utf8.Valid(in) {
					add("fmt-invalid-utf8")
				}
			} else if len(in) > 0 {
				add("fmt-bytes")
			}
		case "parse", "parsestr", "parsebytes", "parsen", "parseip", "parsew":
			if t[0] == "parseip" && len(t) == 4 {
				if t[2] == "0" {
					add("layout-in-place")
				} else {
					add("layout-dst-before-src-overlapping")
				}
			}
			if t[0] == "parsew" {
				add("layout-dst-window-behind-src")
			}
			if len(in) >= 1024 {
				add("large-parse")
				for _, th := range []int{4096, 65536} {
					if len(in) > th {
						add(fmt.Sprintf("large-parse>%d", th))
					}
				}
			}
			if (t[0] == "parse" || t[0] == "parsen") && len(t) == 3 {
				if n, _ := strconv.Atoi(t[2]); n < len(in) {
					add("short-dst-nopanic")
					continue
				}
			}
			if bytes.IndexByte(in, '\\') < 0 {
				add("parse-no-backslash")
				continue
			}
			if _, n, ok := refParse(k, in); ok {
				if n > 1 {
					add("parse-wellformed-multi")
				} else {
					add("parse-wellformed-one")
				}
				continue
			}
			var got []byte
			if t[0] == "parse" || t[0] == "parsen" || t[0] == "parseip" || t[0] == "parsew" {
				f := strings.Fields(out[i])
				if len(f) == 2 {
					n, _ := strconv.Atoi(f[0])
					d, _ := unhx(f[1])
					if n <= len(d) {
						got = d[:n]
					}
				}
			} else {
				got, _ = unhx(out[i])
			}
			if bytes.Equal(got, in) {
				add("parse-malformed-verbatim")
			} else {
				add("parse-malformed-partly-decoded")
			}
			if k == "utf16" {
				s := strings.ToLower(string(in))
				if strings.Contains(s, "\\ud8") || strings.Contains(s, "\\ud9") || strings.Contains(s, "\\uda") || strings.Contains(s, "\\udb") {
					add("parse-high-surrogate-unpaired")
				}
				if strings.Contains(s, "\\udc") || strings.Contains(s, "\\udd") || strings.Contains(s, "\\ude") || strings.Contains(s, "\\udf") {
					add("parse-low-surrogate-lone")
				}
			}
			if k == "unicode" && (strings.Contains(string(in), "\\U0011") || strings.Contains(string(in), "\\UFFFF")) {
				add("parse-out-of-range")
			}
			if k == "octal" && (strings.Contains(string(in), "\\7") || strings.Contains(string(in), "\\4")) {
				add("parse-out-of-range")
			}
		}
	}
	var ls []string
	for l := range seen {
		ls = append(ls, l)
	}
	return ls
}

// ---------------------------------------------------------------- generators

var boundaryRunes = []rune{0, 1, 0x2f, 0x30, 0x39, 0x41, 0x5c, 0x61, 0x7f, 0x80, 0xff, 0x7ff, 0x800, 0xfff, 0x1000,
	0xd7ff, 0xe000, 0xfffc, 0xfffd, 0xfffe, 0xffff, 0x10000, 0x10001, 0x103ff, 0x10400, 0x1f600, 0xfffff, 0x100000, 0x10fc00, 0x10ffff}

func randRune(r *core.Rand) rune {
	switch r.Pick(20, 20, 20, 20, 20) {
	case 0:
		return rune(r.Range(0, 0x7f))
	case 1:
		return rune(r.Range(0x80, 0x7ff))
	case 2:
		for {
			x := rune(r.Range(0x800, 0xffff))
			if x < 0xd800 || x > 0xdfff {
				return x
			}
		}
	case 3:
		return rune(r.Range(0x10000, 0x10ffff))
	}
	return boundaryRunes[r.Intn(len(boundaryRunes))]
}

// randData: random bytes for the byte codecs; UTF-8 (mostly valid) for the rune codecs.
func randData(r *core.Rand, k string, maxn int) []byte {
	n := r.Range(0, maxn)
	if k == "octal" || k == "hex" {
		b := r.Bytes(n)
		if r.Chance(30) {
			for i := range b {
				if r.Chance(40) {
					b[i] = []byte{0, 7, 8, 63, 64, 127, 128, 255, '\\', 'x', '0', '7'}[r.Intn(12)]
				}
			}
		}
		return b
	}
	var b []byte
	bad := r.Chance(25)
	for i := 0; i < n; i++ {
		if bad && r.Chance(30) {
			switch r.Pick(3, 2, 2, 2) {
			case 0:
				b = append(b, byte(r.Range(0x80, 0xff))) // stray continuation / invalid leader
			case 1:
				b = append(b, 0xed, 0xa0, 0x80) // encoded surrogate
			case 2:
				full := utf8.AppendRune(nil, randRune(r))
				b = append(b, full[:len(full)-1]...) // truncated sequence
			case 3:
				b = append(b, 0xc0, 0x80) // overlong
			}
			continue
		}
		b = utf8.AppendRune(b, randRune(r))
	}
	return b
}

var literalPool = []string{"", "a", "abc", "hello, world", "0", "12", "123", "1234", "xyz", "u", "U", "x", "D800", "héllo", "日本", "/", " ", "\x00", "\xff", "ux41", "U0000004"}

func randLiteral(r *core.Rand) []byte {
	if r.Chance(50) {
		return []byte(literalPool[r.Intn(len(literalPool))])
	}
	n := r.Range(0, 12)
	b := r.Bytes(n)
	for i := range b {
		if b[i] == '\\' {
			b[i] = '/'
		}
	}
	return b
}

func lowerHex(r *core.Rand, k string, b []byte) []byte {
	if k == "octal" {
		return b
	}
	o := append([]byte{}, b...)
	for i, c := range o {
		if 'A' <= c && c <= 'F' && r.Bool() {
			o[i] = c + 32
		}
	}
	return o
}

func malformedTokens(k string) []string {
	common := []string{"\\", "\\", "\\", "u", "U", "x", "0", "1", "3", "7", "8", "9", "a", "f", "A", "F", "g", "G", "z", "_", " ", "-", "+",
		"D800", "D83D", "DBFF", "DC00", "DE00", "DFFF", "D7FF", "E000", "00110000", "0010FFFF", "0000D800", "FFFFFFFF", "777", "400", "377", "378", "\x80", "\xff", "é"}
	switch k {
	case "octal":
		return append(common, "\\101", "\\000", "\\377", "\\400", "\\777", "\\08", "\\1\\1", "\\12", "\\\\101", "\\x41")
	case "hex":
		return append(common, "\\x41", "\\xff", "\\xFF", "\\x0g", "\\xg0", "\\X41", "\\x4", "\\x\\x41", "\\\\x41", "\\x_1")
	case "unicode":
		return append(common, "\\U00000041", "\\U0001F600", "\\U0010FFFF", "\\U00110000", "\\U0000D800", "\\U0000DFFF", "\\UFFFFFFFF", "\\U0000004", "\\U0000\\U00000041", "\\u0041", "\\U000000e9", "\\U0000FFFD", "\\U0000007F", "\\U00000080")
	default:
		return append(common, "\\u0041", "\\u00e9", "\\uFFFD", "\\uD83D", "\\uDE00", "\\uD83D\\uDE00", "\\uDE00\\uD83D", "\\uD800", "\\uDBFF\\uDFFF", "\\uD800\\u0041", "\\uD800\\uD800\\uDC00",
			"\\uD83D\\", "\\uD83D\\u", "\\uD83D\\uDE0", "\\uD83Dx\\uDE00", "\\uD83D\\uDE0g", "\\U0041", "\\u004", "\\u00\\u0041", "\\uD7FF", "\\uE000", "\\uDC00", "\\uDFFF\\uD800\\uDC00")
	}
}

func header(k string) string { return "@ C07 " + k }

// largeSizes: byte lengths around every plausible internal threshold.
var largeSizes = []int{1023, 1024, 1025, 2048, 4095, 4096, 4097, 8191, 8192, 8193, 16384, 32768, 65535, 65536, 65537}

// genLarge: inputs of 1 KB - 64 KB (thorough: up to 256 KB), few ops per case.
func genLarge(r *core.Rand, k, tier string) core.Case {
	lines := []string{header(k)}
	size := largeSizes[r.Intn(len(largeSizes))] // exact threshold sizes
	if r.Chance(25) {
		size = r.Range(1000, 70000)
	}
	if tier == "thorough" && r.Chance(30) {
		size = []int{131071, 131072, 131073, 262143, 262144, 262145, r.Range(70000, 262144)}[r.Intn(7)]
	}
	w := escWidth[k]
	if k == "utf16" && r.Bool() {
		w = 12
	}
	if r.Chance(35) {
		// Format / round trip of `size/8 .. size` input bytes: output buffers of 4x-10x that size;
		// for utf16 many supplementary runes so that the RuneCount*6 capacity is outgrown repeatedly
		n := size
		if n > 65537 {
			n = 65537
		}
		var b []byte
		if k == "octal" || k == "hex" {
			b = r.Bytes(n)
		} else {
			for len(b) < n {
				switch r.Pick(3, 2, 2, 6, 1) {
				case 0:
					b = append(b, byte(r.Range(0, 0x7f)))
				case 1:
					b = utf8.AppendRune(b, rune(r.Range(0x80, 0x7ff)))
				case 2:
					b = utf8.AppendRune(b, rune(r.Range(0xe000, 0xffff)))
				case 3:
					b = utf8.AppendRune(b, rune(r.Range(0x10000, 0x10ffff)))
				default:
					b = append(b, byte(r.Range(0x80, 0xff))) // invalid byte
				}
			}
		}
		d := hx(b)
		switch r.Pick(1, 1, 2) {
		case 0:
			lines = append(lines, "format "+d)
		case 1:
			lines = append(lines, "formatstr "+d)
		default:
			lines = append(lines, "roundtrip "+d, "format "+d)
		}
		return core.Case{Lines: lines, Tag: "large"}
	}
	// Parse of `size` bytes
	var s []byte
	switch r.Pick(4, 3, 3) {
	case 0: // one long run of escapes of one kind (optionally lower-case digits)
		for len(s) < size {
			s = append(s, lowerHex(r, k, refFormat(k, randData(r, k, 64)))...)
		}
	case 1: // literal text, then escapes placed so that one straddles offset 4096 / 65536 / size
		th := []int{4096, 65536, size}[r.Intn(3)]
		if th > size {
			th = 4096
		}
		lit := th - r.Range(0, w)
		if lit < 0 {
			lit = 0
		}
		for len(s) < lit {
			c := byte(r.Range(32, 126))
			if c == '\\' {
				c = '/'
			}
			s = append(s, c)
		}
		for len(s) < size {
			if r.Chance(70) {
				s = append(s, refFormat(k, randData(r, k, 8))...)
			} else {
				s = append(s, randLiteral(r)...)
			}
		}
	default: // long malformed token stream
		toks := malformedTokens(k)
		for len(s) < size {
			if r.Chance(20) {
				s = append(s, randLiteral(r)...)
			} else {
				s = append(s, toks[r.Intn(len(toks))]...)
			}
		}
	}
	// cut exactly at `size` (truncating the last escape at every residue) most of the time
	if len(s) > size && r.Chance(80) {
		s = s[:size]
	}
	h := hx(s)
	switch r.Pick(2, 2, 3, 3) {
	case 3: // destination layouts on a large input, then further calls while the long results are watched
		lines = append(lines, "parsestr "+h)
		lines = append(lines, layoutOps(r, s)...)
		lines = append(lines, "formatstr "+hx(randData(r, k, 400)), "parsestr "+hx(lowerHex(r, k, refFormat(k, randData(r, k, 300)))))
	case 0:
		lines = append(lines, "parsestr "+h)
	case 1:
		lines = append(lines, "parsebytes "+h)
	default:
		lines = append(lines, fmt.Sprintf("parsen %s %d", h, len(s)), fmt.Sprintf("parsen %s %d", h, len(s)+1))
		if len(s) <= 4096 {
			lines = append(lines, fmt.Sprintf("parsen %s %d", h, len(s)-1)) // one short: cursor model only
		}
	}
	return core.Case{Lines: lines, Tag: "large"}
}

// layoutOps: one parse input under every destination layout (WAVE4 class 6): in place, dst
// starting k bytes before src in the same array, dst a window behind src in src's arena.
func layoutOps(r *core.Rand, s []byte) []string {
	h := hx(s)
	n := len(s)
	ks := []int{0, 0, 1, 2, 3, 4, 5, 6, 7, 9, 10, 11, 12, 13, 64, n, n + 1}
	k := ks[r.Intn(len(ks))]
	dl := []int{n, n + k, n + 1}[r.Intn(3)]
	ops := []string{fmt.Sprintf("parseip %s 0 %d", h, n), fmt.Sprintf("parseip %s %d %d", h, k, dl)}
	if r.Bool() {
		ops = append(ops, fmt.Sprintf("parsew %s %d %d", h, n+r.Intn(2), []int{0, 1, 7, 64}[r.Intn(4)]))
	}
	return ops
}

func genLayout(r *core.Rand, k string) core.Case {
	lines := []string{header(k)}
	for j := r.Range(1, 3); j > 0; j-- {
		var s []byte
		switch r.Pick(3, 4, 3) {
		case 0: // formatted output (every escape decodes: the write cursor falls far behind)
			s = lowerHex(r, k, refFormat(k, randData(r, k, 12)))
		case 1: // escapes between literal runs: pending text is moved down after an earlier escape
			for p := r.Range(1, 5); p > 0; p-- {
				s = append(s, randLiteral(r)...)
				s = append(s, lowerHex(r, k, refFormat(k, randData(r, k, 2)))...)
			}
			s = append(s, randLiteral(r)...)
		default: // malformed tokens mixed with text
			toks := malformedTokens(k)
			for p := r.Range(1, 8); p > 0; p-- {
				if r.Chance(30) {
					s = append(s, randLiteral(r)...)
				} else {
					s = append(s, toks[r.Intn(len(toks))]...)
				}
			}
		}
		lines = append(lines, layoutOps(r, s)...)
		if r.Chance(40) { // something for the results ledger to watch
			lines = append(lines, "parsestr "+hx(s), "formatstr "+hx(randData(r, k, 8)))
		}
	}
	return core.Case{Lines: lines, Tag: "layout"}
}

func gen(r *core.Rand, tier string) core.Case {
	k := codecs[r.Intn(4)]
	// large stream: ~0.6 % of the cases (a few hundred in quick), 2 % in thorough
	if (tier == "thorough" && r.Chance(2)) || (tier != "thorough" && r.Intn(1000) < 12) {
		return genLarge(r, k, tier)
	}
	lines := []string{header(k)}
	if r.Chance(12) {
		return genLayout(r, k)
	}
	switch r.Pick(22, 22, 16, 32, 8) {
	case 0: // (i) Format of random data
		n := r.Range(2, 8)
		for j := 0; j < n; j++ {
			d := hx(randData(r, k, 24))
			switch r.Pick(1, 1, 2) {
			case 0:
				lines = append(lines, "format "+d)
			case 1:
				lines = append(lines, "formatstr "+d)
			default:
				lines = append(lines, "roundtrip "+d, "format "+d)
			}
		}
		return core.Case{Lines: lines, Tag: "format"}
	case 1: // (ii) Parse of (reference-)formatted output
		n := r.Range(2, 6)
		for j := 0; j < n; j++ {
			f := lowerHex(r, k, refFormat(k, randData(r, k, 12)))
			switch r.Pick(1, 1, 1) {
			case 0:
				lines = append(lines, fmt.Sprintf("parse %s %d", hx(f), len(f)+r.Pick(3, 1)*r.Range(0, 3)))
			case 1:
				lines = append(lines, "parsestr "+hx(f))
			default:
				lines = append(lines, "parsebytes "+hx(f))
			}
		}
		return core.Case{Lines: lines, Tag: "parse-formatted"}
	case 2: // well-formed escapes embedded in backslash-free text
		n := r.Range(2, 6)
		for j := 0; j < n; j++ {
			var s []byte
			parts := r.Range(1, 4)
			for p := 0; p < parts; p++ {
				s = append(s, randLiteral(r)...)
				s = append(s, lowerHex(r, k, refFormat(k, randData(r, k, 2)))...)
			}
			s = append(s, randLiteral(r)...)
			if r.Bool() {
				lines = append(lines, "parsestr "+hx(s))
			} else {
				lines = append(lines, fmt.Sprintf("parse %s %d", hx(s), len(s)))
			}
		}
		return core.Case{Lines: lines, Tag: "embedded"}
	case 3: // (iii) malformed token stream, truncated at every position
		toks := malformedTokens(k)
		var s []byte
		n := r.Range(1, 7)
		for j := 0; j < n; j++ {
			if r.Chance(15) {
				s = append(s, randLiteral(r)...)
			} else {
				s = append(s, toks[r.Intn(len(toks))]...)
			}
		}
		if len(s) > 48 {
			s = s[:48]
		}
		for p := len(s); p >= 0; p-- {
			if p%2 == 0 {
				lines = append(lines, "parsestr "+hx(s[:p]))
			} else {
				lines = append(lines, fmt.Sprintf("parse %s %d", hx(s[:p]), p))
			}
		}
		return core.Case{Lines: lines, Tag: "malformed"}
	default: // dst shorter than src (outside the contract): correspondence of copy/index semantics only
		toks := malformedTokens(k)
		var s []byte
		n := r.Range(1, 5)
		for j := 0; j < n; j++ {
			if r.Bool() {
				s = append(s, randLiteral(r)...)
			} else {
				s = append(s, toks[r.Intn(len(toks))]...)
			}
		}
		for j := 0; j < 3; j++ {
			lines = append(lines, fmt.Sprintf("parse %s %d", hx(s), r.Range(0, len(s))))
		}
		return core.Case{Lines: lines, Tag: "short-dst"}
	}
}

func corpus() []core.Case {
	mk := func(k string, ops ...string) core.Case { return core.Case{Lines: append([]string{header(k)}, ops...)} }
	h := func(s string) string { return hx([]byte(s)) }
	all := hx(func() []byte {
		b := make([]byte, 256)
		for i := range b {
			b[i] = byte(i)
		}
		return b
	}())
	bnd := func() string {
		var b []byte
		for _, r := range boundaryRunes {
			b = utf8.AppendRune(b, r)
		}
		return hx(b)
	}()
	ip := func(k string, texts ...string) core.Case {
		var ops []string
		for _, t := range texts {
			n := len(t)
			ops = append(ops, fmt.Sprintf("parseip %s 0 %d", h(t), n), fmt.Sprintf("parseip %s 3 %d", h(t), n+3),
				fmt.Sprintf("parseip %s 1 %d", h(t), n), fmt.Sprintf("parsew %s %d 0", h(t), n))
		}
		return mk(k, ops...)
	}
	return []core.Case{
		// in place (as strz/enc_test.go TestOctalParse does) and overlapping layouts: escape, text, escape
		ip("octal", "\\101hello\\102", "ab\\101cd\\102\\103ef", "\\101\\1\\102xyz\\103"),
		ip("hex", "\\x41hello\\x42", "ab\\x41cd\\x42\\x43ef", "\\x41\\x4\\x42xyz\\x43"),
		ip("unicode", "\\U00000041hello\\U0001F600", "ab\\U000000e9cd\\U00110000\\U00000042ef"),
		ip("utf16", "\\u0041hello\\uD83D\\uDE00", "ab\\uD83Dcd\\uD83D\\uDE00\\u0042ef\\uD800"),
		mk("octal", "format "+all, "roundtrip "+all, "formatstr -", "parsestr -", "parsestr "+h("\\101"), "parsestr "+h("\\10"), "parsestr "+h("\\777"),
			"parsestr "+h("\\400"), "parsestr "+h("\\377"), "parsestr "+h("ab\\101cd"), "parsestr "+h("\\1\\101"), "parsestr "+h("\\\\\\\\101"), "parse "+h("\\101\\102")+" 8", "parse "+h("abc\\101")+" 3"),
		mk("hex", "format "+all, "roundtrip "+all, "parsestr "+h("\\x41"), "parsestr "+h("\\xfF"), "parsestr "+h("\\x4"), "parsestr "+h("\\xg1"), "parsestr "+h("\\x1g"),
			"parsestr "+h("\\X41"), "parsestr "+h("\\\\x41"), "parsestr "+h("\\x\\x41"), "parsebytes "+h("ab\\x41cd\\x42"), "parse "+h("\\x41")+" 0"),
		mk("unicode", "format "+bnd, "roundtrip "+bnd, "format "+hx([]byte{0xff, 0xed, 0xa0, 0x80, 0xc0, 0x80, 0xe4, 0xb8}), "roundtrip "+hx([]byte{0xff, 'a', 0xe4, 0xb8}),
			"parsestr "+h("\\U0001F600"), "parsestr "+h("\\U0010FFFF"), "parsestr "+h("\\U00110000"), "parsestr "+h("\\UFFFFFFFF"), "parsestr "+h("\\U0000D800"),
			"parsestr "+h("\\U0000004"), "parsestr "+h("\\U0000\\U00000041"), "parsestr "+h("x\\U00000041y"), "parsestr "+h("\\U0000007f\\U00000080"),
			// magnitudes: 2^8, 2^16, 0x10FFFF±1, 2^31, 2^32-1, maximal leading zeros
			"parsestr "+h("\\U000000FF\\U00000100\\U0000FFFF\\U00010000\\U0010FFFE\\U0010FFFF\\U00110000\\U7FFFFFFF\\U80000000\\UFFFFFFFF\\U00000000\\U00000001"),
			"parsestr "+h("\\U0000d7ff\\U0000d800\\U0000dfff\\U0000e000\\U0000fffd")),
		mk("utf16", "format "+bnd, "roundtrip "+bnd, "format "+hx([]byte{0xff, 0xed, 0xa0, 0x80, 0xf0, 0x9f, 0x98}), "parsestr "+h("\\uD83D\\uDE00"), "parsestr "+h("\\uD83D"),
			"parsestr "+h("\\uDE00"), "parsestr "+h("\\uDE00\\uD83D"), "parsestr "+h("\\uD83D\\u0041"), "parsestr "+h("\\uD83Dx\\uDE00"), "parsestr "+h("\\uD83D\\uDE0"),
			"parsestr "+h("\\uD83D\\uDE0g"), "parsestr "+h("\\uD800\\uD800\\uDC00"), "parsestr "+h("a\\uD83D\\uD83D\\uDE00b"), "parsestr "+h("\\uD83D\\\\uDE00\\u0041"),
			"parsestr "+h("ab\\u00e9cd"), "parse "+h("abcdef\\uD83D\\uDE00")+" 18", "parse "+h("abcdefgh\\u0041")+" 5",
			"parsestr "+h("\\u0000\\u007F\\u0080\\u00FF\\u0100\\u07FF\\u0800\\uD7FF\\uE000\\uFFFF\\uDBFF\\uDFFF\\uD800\\uDC00")),
	}
}

// ---------------------------------------------------------------- shrinker

// shrink: delete op lines, then delta-debug the bytes of each remaining op's argument.
func shrink(c core.Case, fails func(core.Case) bool) core.Case {
	cur := c
	mk := func(lines []string) core.Case { return core.Case{Lines: lines, Seed: c.Seed, Tag: c.Tag} }
	budget := 1500
	// 1. single failing op line, if one is enough
	for i := 1; i < len(cur.Lines) && budget > 0; i++ {
		budget--
		if t := mk([]string{cur.Lines[0], cur.Lines[i]}); fails(t) {
			cur = t
			break
		}
	}
	// 2. otherwise drop lines one at a time
	for i := len(cur.Lines) - 1; i >= 1 && len(cur.Lines) > 2 && budget > 0; i-- {
		budget--
		nl := append(append([]string{}, cur.Lines[:i]...), cur.Lines[i+1:]...)
		if t := mk(nl); fails(t) {
			cur = t
		}
	}
	// 3. shrink the bytes
	for li := 1; li < len(cur.Lines); li++ {
		t := core.Toks(cur.Lines[li])
		if len(t) < 2 {
			continue
		}
		b, ok := unhx(t[1])
		if !ok {
			continue
		}
		full := len(t) == 3 && t[2] == strconv.Itoa(len(b))
		build := func(nb []byte) core.Case {
			nt := append([]string{}, t...)
			nt[1] = hx(nb)
			if full {
				nt[2] = strconv.Itoa(len(nb))
			}
			nl := append([]string{}, cur.Lines...)
			nl[li] = strings.Join(nt, " ")
			return mk(nl)
		}
		for chunk := (len(b) + 1) / 2; chunk >= 1 && budget > 0; {
			removed := false
			for i := 0; i+chunk <= len(b) && budget > 0; {
				budget--
				nb := append(append([]byte{}, b[:i]...), b[i+chunk:]...)
				if cand := build(nb); fails(cand) {
					b = nb
					cur = cand
					removed = true
				} else {
					i += chunk
				}
			}
			if chunk > 1 {
				chunk /= 2
			} else if !removed {
				break
			}
		}
	}
	return cur
}
