package c07

// Exhaustive extras of C07.
//
//   all-scalars-and-escapes   every code point 0..0x1100FF through UnicodeFormat/Utf16Format and
//                             back, and every escape value (\000..\777, \x00..\xFF upper and lower
//                             case, \U00000000..\U0011FFFF, \u0000..￿ upper and lower case)
//                             through the four parsers: real code vs independent reference, and
//                             real code vs the Lean model (one digest per range, see
//                             lean/Golib/Model/C07.lean `scalars` / `escapes`).
//   malformed-exhaustive      every string of <= 4 (thorough: <= 5) symbols over an 11-symbol
//                             alphabet per codec (backslash, marker letters, digits, bad digits,
//                             truncated and complete escapes, surrogate halves, out-of-range
//                             values): real code vs Lean model line by line + the property oracle.

import (
	"bytes"
	"fmt"
	"sort"
	"strconv"
	"strings"
	"sync"
	"unicode/utf8"

	"verifharness/internal/core"
	"verifharness/props/c17"
)

func extras() []core.Extra {
	return []core.Extra{
		// the shared unicode/utf8 model, exhaustively against the standard library: runs in every C17
		// check; here in thorough (and on drift, through Escalate) only, to keep quick short under load
		func() core.Extra { e := c17.Utf8TieExtra(); e.Tiers = []string{"thorough"}; return e }(),
		{Name: "all-scalars-and-escapes", Run: extraScalars},
		{Name: "malformed-exhaustive", Run: extraMalformed},
		{Name: "concurrent-use", Run: extraParallel},
		{Name: "huge-output", Run: extraHuge},
		{Name: "trans-diff-grammar", Run: extraTransGrammar},
	}
}

const fnvPrime = 1099511628211
const fnvBasis = 14695981039346656037

func mix(h uint64, x uint64) uint64 { return (h ^ x) * fnvPrime }

// mixBytes folds an output the way the Lean driver does; panicked = the call panicked.
func mixBytes(h uint64, b []byte, panicked bool) uint64 {
	if panicked {
		return mix(h, 4096)
	}
	h = mix(h, uint64(len(b)))
	for _, c := range b {
		h = mix(h, uint64(c))
	}
	return h
}

func guardBytes(f func() []byte) (out []byte, panicked bool) {
	defer func() {
		if recover() != nil {
			out, panicked = nil, true
		}
	}()
	return f(), false
}

var escFmt = map[string][2]string{ // upper, lower
	"octal":   {"\\%03o", "\\%03o"},
	"hex":     {"\\x%02X", "\\x%02x"},
	"unicode": {"\\U%08X", "\\U%08x"},
	"utf16":   {"\\u%04X", "\\u%04x"},
}

var escMod = map[string]uint64{"octal": 512, "hex": 256, "unicode": 1 << 32, "utf16": 1 << 16}

func escapeText(k string, lower bool, v uint64) []byte {
	i := 0
	if lower {
		i = 1
	}
	return []byte(fmt.Sprintf(escFmt[k][i], v%escMod[k]))
}

type digOp struct {
	k    string // codec
	line string
	want string
}

// scalarInput is `string(rune(r))` (U+FFFD for surrogates and values above U+10FFFF).
func scalarInput(r uint64) []byte { return utf8.AppendRune(nil, rune(r)) }

// evalRange runs the real code over a range op, returns the digest and the first
// violation of the property's own predicate (independent of the Lean model).
func evalRange(k, line string) (string, *core.ExtraFailure) {
	f := fns(k)
	t := strings.Fields(line)
	lo, _ := strconv.ParseUint(t[1], 10, 64)
	hi, _ := strconv.ParseUint(t[2], 10, 64)
	h := uint64(fnvBasis)
	var fail *core.ExtraFailure
	report := func(key, op string, in []byte, desc string) {
		if fail == nil {
			fail = &core.ExtraFailure{Failure: core.Failure{Key: k + "-" + key, Desc: fmt.Sprintf("%s %q: %s", op, in, desc)},
				Payload: map[string]any{"lines": []string{header(k), op + " " + hx(in)}}}
		}
	}
	switch t[0] {
	case "scalars":
		for r := lo; r <= hi; r++ {
			in := scalarInput(r)
			out, p := guardBytes(func() []byte { return f.format(in) })
			h = mixBytes(h, out, p)
			if p {
				h = mix(h, 4096)
				report("format-panic", "format", in, "Format panicked")
				continue
			}
			if want := refFormat(k, in); !bytes.Equal(out, want) {
				report("format-ref", "format", in, fmt.Sprintf("got %q, documented format is %q", out, want))
			}
			back, p2 := guardBytes(func() []byte { return []byte(f.parseBytes(out)) })
			h = mixBytes(h, back, p2)
			if p2 {
				report("roundtrip-panic", "roundtrip", in, "Parse(Format(s)) panicked")
			} else if !bytes.Equal(back, in) {
				report("roundtrip", "roundtrip", in, fmt.Sprintf("Parse(Format(s)) = %x", back))
			}
		}
	case "escapes":
		lower := t[3] == "lower"
		for v := lo; v <= hi; v++ {
			in := escapeText(k, lower, v)
			out, p := guardBytes(func() []byte { return []byte(f.parseStr(string(in))) })
			h = mixBytes(h, out, p)
			if p {
				report("parse-panic", "parsestr", in, "Parse panicked")
				continue
			}
			if len(out) > len(in) {
				report("parse-len", "parsestr", in, "more bytes than the input")
			}
			if want, _, ok := refParse(k, in); ok && !bytes.Equal(out, want) {
				report("wellformed-decode", "parsestr", in, fmt.Sprintf("denotes %q, got %q", want, out))
			}
		}
	}
	return strconv.FormatUint(h, 10), fail
}

// runDigests pipes the ops (grouped by codec header) through `workers` oracle processes.
func runDigests(verif string, ops []digOp, workers int) (bad []int, err error) {
	if len(ops) == 0 {
		return nil, nil
	}
	var mu sync.Mutex
	var wg sync.WaitGroup
	for w := 0; w < workers; w++ {
		wg.Add(1)
		go func(w int) {
			defer wg.Done()
			var cases []core.Case
			var idx []int
			for i := w; i < len(ops); i += workers {
				cases = append(cases, core.Case{Lines: []string{header(ops[i].k), ops[i].line}})
				idx = append(idx, i)
			}
			if len(cases) == 0 {
				return
			}
			outs, e := core.RunOracle(verif, cases)
			mu.Lock()
			defer mu.Unlock()
			if e != nil {
				err = e
				return
			}
			for j, i := range idx {
				if outs[j][1] != ops[i].want {
					bad = append(bad, i)
				}
			}
		}(w)
	}
	wg.Wait()
	sort.Ints(bad)
	return bad, err
}

func extraScalars(ctx *core.Ctx) (int, string, []core.ExtraFailure) {
	type rng struct {
		k, op  string
		lo, hi uint64
		suffix string
	}
	var rs []rng
	chunk := func(k, op string, lo, hi uint64, suffix string) {
		for a := lo; a <= hi; a += 0x4000 {
			b := a + 0x3fff
			if b > hi {
				b = hi
			}
			rs = append(rs, rng{k, op, a, b, suffix})
		}
	}
	for _, k := range []string{"unicode", "utf16"} {
		chunk(k, "scalars", 0, 0x1100ff, "")
	}
	chunk("octal", "scalars", 0, 0x2ff, "")
	chunk("hex", "scalars", 0, 0x2ff, "")
	chunk("octal", "escapes", 0, 511, " upper")
	chunk("hex", "escapes", 0, 255, " upper")
	chunk("hex", "escapes", 0, 255, " lower")
	chunk("utf16", "escapes", 0, 0xffff, " upper")
	chunk("utf16", "escapes", 0, 0xffff, " lower")
	chunk("unicode", "escapes", 0, 0x11ffff, " upper")
	chunk("unicode", "escapes", 0, 0x1ffff, " lower")
	chunk("unicode", "escapes", 0xf0000, 0x11ffff, " lower")
	if ctx.Tier == "thorough" {
		chunk("unicode", "escapes", 0x20000, 0xeffff, " lower")
		chunk("unicode", "escapes", 0xfffc0000, 0xffffffff, " upper")
		chunk("unicode", "escapes", 0x7ffe0000, 0x8001ffff, " upper")
	}
	if ctx.Tier != "thorough" && ctx.Escalate <= 1 {
		// quick: every range of the small value spaces, and a quarter of the big ones (which quarter
		// rotates with the seed; thorough and drift runs do all of them)
		var keep []rng
		for i, r := range rs {
			big := r.hi-r.lo >= 0x3fff && (r.k == "unicode" || (r.k == "utf16" && r.op == "scalars"))
			if !big || (uint64(i)+ctx.Seed)%4 == 0 || r.lo == 0 || (r.lo <= 0x10000 && r.hi >= 0xd800) || r.hi >= 0x10ffff {
				keep = append(keep, r)
			}
		}
		rs = keep
	}
	ops := make([]digOp, len(rs))
	evals := 0
	var fails []core.ExtraFailure
	var mu sync.Mutex
	var wg sync.WaitGroup
	sem := make(chan struct{}, 8)
	for i, r := range rs {
		evals += int(r.hi - r.lo + 1)
		wg.Add(1)
		sem <- struct{}{}
		go func(i int, r rng) {
			defer wg.Done()
			defer func() { <-sem }()
			line := fmt.Sprintf("%s %d %d%s", r.op, r.lo, r.hi, r.suffix)
			d, f := evalRange(r.k, line)
			mu.Lock()
			ops[i] = digOp{r.k, line, d}
			if f != nil && len(fails) < 3 {
				fails = append(fails, *f)
			}
			mu.Unlock()
		}(i, r)
	}
	wg.Wait()
	bad, err := runDigests(ctx.VerifDir, ops, 6)
	if err != nil {
		fails = append(fails, core.ExtraFailure{Failure: core.Failure{Key: "scalars-oracle", Desc: "oracle not runnable: " + err.Error()}, NoInput: true})
	}
	if len(bad) > 0 && len(fails) < 3 {
		// narrow the first differing range to one value
		op := ops[bad[0]]
		t := strings.Fields(op.line)
		lo, _ := strconv.ParseUint(t[1], 10, 64)
		hi, _ := strconv.ParseUint(t[2], 10, 64)
		suffix := ""
		if len(t) == 4 {
			suffix = " " + t[3]
		}
		var singles []digOp
		for v := lo; v <= hi; v++ {
			line := fmt.Sprintf("%s %d %d%s", t[0], v, v, suffix)
			d, _ := evalRange(op.k, line)
			singles = append(singles, digOp{op.k, line, d})
		}
		lines := []string{header(op.k), op.line}
		desc := fmt.Sprintf("codec %s: the Lean model and the real code differ somewhere in `%s`", op.k, op.line)
		if b2, e2 := runDigests(ctx.VerifDir, singles, 6); e2 == nil && len(b2) > 0 {
			v := lo + uint64(b2[0])
			if t[0] == "scalars" {
				in := scalarInput(v)
				lines = []string{header(op.k), "format " + hx(in), "roundtrip " + hx(in)}
				desc = fmt.Sprintf("codec %s: the Lean model and the real code differ on Format / Parse(Format) of U+%04X (bytes %x)", op.k, v, in)
			} else {
				in := escapeText(op.k, suffix == " lower", v)
				lines = []string{header(op.k), "parsestr " + hx(in)}
				desc = fmt.Sprintf("codec %s: the Lean model and the real code differ on Parse(%q)", op.k, in)
			}
		}
		fails = append(fails, core.ExtraFailure{Failure: core.Failure{Key: "scalars-model-mismatch", Desc: desc}, Payload: map[string]any{"lines": lines}, NoInput: true})
	}
	return evals, fmt.Sprintf("%d range digests: Format and Parse(Format) of every code point 0..0x1100FF (unicode, utf16; 0..0x2FF octal, hex), Parse of every escape value (\\000..\\777, \\x00..\\xFF, \\u0000..\\uFFFF both cases, \\U00000000..\\U0011FFFF upper case and most lower case) — real code vs reference formatter/decoder and vs the Lean model", len(ops)), fails
}

// ---------------------------------------------------------------- exhaustive malformed grammar

var malAlphabet = map[string][]string{
	"octal":   {"\\", "0", "1", "3", "4", "7", "8", "a", "\\10", "\\377", "\\4"},
	"hex":     {"\\", "x", "0", "9", "a", "F", "g", "X", "\\x4", "\\x41", "\\x"},
	"unicode": {"\\", "U", "0", "g", "\\U", "0000", "0010", "0011", "FFFF", "D800", "\\U0000"},
	"utf16":   {"\\", "u", "0", "g", "\\u", "D83D", "DE00", "0041", "\\uD83D", "\\uDE00", "x"},
}

func extraMalformed(ctx *core.Ctx) (int, string, []core.ExtraFailure) {
	maxSyms := 4
	if ctx.Tier == "thorough" {
		maxSyms = 5
	}
	var cases []core.Case
	total := 0
	for _, k := range codecs {
		al := malAlphabet[k]
		var lines []string
		flush := func() {
			if len(lines) > 0 {
				cases = append(cases, core.Case{Lines: append([]string{header(k)}, lines...), Tag: "malformed-exhaustive"})
				lines = nil
			}
		}
		var rec func(prefix []byte, depth int)
		rec = func(prefix []byte, depth int) {
			if total%2 == 0 {
				lines = append(lines, "parsestr "+hx(prefix))
			} else {
				lines = append(lines, fmt.Sprintf("parse %s %d", hx(prefix), len(prefix)))
			}
			total++
			if len(lines) >= 400 {
				flush()
			}
			if depth == 0 {
				return
			}
			for _, a := range al {
				rec(append(append([]byte{}, prefix...), a...), depth-1)
			}
		}
		rec(nil, maxSyms)
		flush()
	}
	outs := make([][]string, len(cases))
	var fails []core.ExtraFailure
	var mu sync.Mutex
	var wg sync.WaitGroup
	sem := make(chan struct{}, 8)
	for i := range cases {
		wg.Add(1)
		sem <- struct{}{}
		go func(i int) {
			defer wg.Done()
			defer func() { <-sem }()
			o := impl(cases[i])
			f := check(cases[i], o)
			mu.Lock()
			outs[i] = o
			if f != nil && len(fails) < 3 {
				fails = append(fails, core.ExtraFailure{Failure: *f, Payload: map[string]any{"lines": cases[i].Lines}})
			}
			mu.Unlock()
		}(i)
	}
	wg.Wait()
	// model vs code, in 6 oracle processes
	workers := 6
	var err error
	type mm struct {
		ci, li int
		model  string
	}
	var mms []mm
	for w := 0; w < workers; w++ {
		wg.Add(1)
		go func(w int) {
			defer wg.Done()
			var cs []core.Case
			var idx []int
			for i := w; i < len(cases); i += workers {
				cs = append(cs, cases[i])
				idx = append(idx, i)
			}
			if len(cs) == 0 {
				return
			}
			mo, e := core.RunOracle(ctx.VerifDir, cs)
			mu.Lock()
			defer mu.Unlock()
			if e != nil {
				err = e
				return
			}
			for j, i := range idx {
				for l := range mo[j] {
					if mo[j][l] != outs[i][l] {
						mms = append(mms, mm{i, l, mo[j][l]})
						break
					}
				}
			}
		}(w)
	}
	wg.Wait()
	if err != nil {
		fails = append(fails, core.ExtraFailure{Failure: core.Failure{Key: "malformed-oracle", Desc: "oracle not runnable: " + err.Error()}, NoInput: true})
	}
	sort.Slice(mms, func(a, b int) bool { return mms[a].ci < mms[b].ci })
	for _, m := range mms {
		if len(fails) >= 3 {
			break
		}
		c := cases[m.ci]
		fails = append(fails, core.ExtraFailure{
			Failure: core.Failure{Key: "malformed-model-mismatch", Desc: fmt.Sprintf("%s / %s: real code answers %q, Lean model %q", c.Lines[0], c.Lines[m.li], outs[m.ci][m.li], m.model)},
			Payload: map[string]any{"lines": []string{c.Lines[0], c.Lines[m.li]}}, NoInput: true})
	}
	return total, fmt.Sprintf("every string of <= %d symbols over an 11-symbol alphabet per codec (%d inputs): no panic, length bound, well-formed decoding, and line-by-line agreement with the Lean model", maxSyms, total), fails
}

// ---------------------------------------------------------------- outputs of several MiB

var growthCache sync.Map // initial capacity -> []int

// growthMarks: the output lengths at which `b = append(b, six bytes...)` re-allocates, for a
// buffer created with capacity cap0, measured on the Go runtime in use (not assumed).
func growthMarks(cap0, limit int) []int {
	if v, ok := growthCache.Load(cap0); ok {
		return v.([]int)
	}
	var marks []int
	b := make([]byte, 0, cap0)
	for len(b) < limit {
		old := cap(b)
		b = append(b, '\\', 'u', '0', '0', '0', '0')
		if cap(b) != old {
			marks = append(marks, len(b)-6)
		}
	}
	growthCache.Store(cap0, marks)
	return marks
}

// extraHuge: inputs whose OUTPUT crosses 1, 2, 4 MiB and every re-allocation point of an
// append-grown buffer (initial capacity 64 KiB, 1 MiB: the sizes a capacity hint is plausibly
// capped at) up to 8 MiB, with a supplementary rune (surrogate pair = two appends) placed at
// every escape position in a window of +-4 around the mark. Real code vs reference formatter
// (inside Impl) and vs the Lean model (length + digest).
func extraHuge(ctx *core.Ctx) (int, string, []core.ExtraFailure) {
	full := ctx.Tier == "thorough" || ctx.Escalate > 1
	limit := 1<<20 + 64
	if full {
		limit = 8 << 20
	}
	markSet := map[int]bool{1 << 20: true}
	if full {
		for _, m := range []int{2 << 20, 4 << 20} {
			markSet[m] = true
		}
		for _, c0 := range []int{1 << 16, 1 << 20} {
			for _, m := range growthMarks(c0, limit) {
				if m >= 1<<20 {
					markSet[m] = true
				}
			}
		}
	}
	var cases []core.Case
	total := 0
	for m := range markSet {
		for _, k := range []string{"utf16", "unicode"} {
			w := escWidth[k]
			ds := []int{-4, -3, -2, -1, 0, 1, 2, 3, 4}
			if k == "unicode" {
				ds = []int{-1, 0, 1} // UnicodeFormat allocates once; the marks matter for the append-grown Utf16Format
			}
			if !full {
				ds = []int{-2, -1, 0, 1}
				if k == "unicode" {
					ds = []int{-1}
				}
			}
			for _, d := range ds {
				n := m/w + d
				if n < 0 {
					continue
				}
				in := bytes.Repeat([]byte{'a'}, n)
				for i := 0; i < len(in); i += 97 {
					in[i] = byte('b' + i%23)
				}
				in = append(in, "\U0001F600z\U00010000\U0010FFFFé"...)
				cases = append(cases, core.Case{Lines: []string{header(k), "formatdig " + hx(in)}, Tag: "huge"})
				total++
			}
		}
	}
	sort.Slice(cases, func(a, b int) bool { return cases[a].Lines[1] < cases[b].Lines[1] })
	outs := make([][]string, len(cases))
	var fails []core.ExtraFailure
	var mu sync.Mutex
	var wg sync.WaitGroup
	sem := make(chan struct{}, 4)
	for i := range cases {
		wg.Add(1)
		sem <- struct{}{}
		go func(i int) {
			defer wg.Done()
			defer func() { <-sem }()
			o := impl(cases[i])
			f := check(cases[i], o)
			mu.Lock()
			outs[i] = o
			if f != nil && len(fails) < 3 {
				fails = append(fails, core.ExtraFailure{Failure: *f, Payload: map[string]any{"lines": cases[i].Lines}})
			}
			mu.Unlock()
		}(i)
	}
	wg.Wait()
	// Lean model, 4 processes
	workers := 4
	var oerr error
	for w := 0; w < workers; w++ {
		wg.Add(1)
		go func(w int) {
			defer wg.Done()
			var cs []core.Case
			var idx []int
			for i := w; i < len(cases); i += workers {
				cs = append(cs, cases[i])
				idx = append(idx, i)
			}
			if len(cs) == 0 {
				return
			}
			mo, e := core.RunOracle(ctx.VerifDir, cs)
			mu.Lock()
			defer mu.Unlock()
			if e != nil {
				oerr = e
				return
			}
			for j, i := range idx {
				if mo[j][1] != outs[i][1] && !strings.HasPrefix(outs[i][1], "ref-mismatch") && len(fails) < 3 {
					fails = append(fails, core.ExtraFailure{Failure: core.Failure{Key: "huge-model-mismatch", Desc: fmt.Sprintf("%s, %d-byte input: real code answers %q, Lean model %q", cases[i].Lines[0], (len(cases[i].Lines[1])-10)/2, outs[i][1], mo[j][1])},
						Payload: map[string]any{"lines": cases[i].Lines}, NoInput: true})
				}
			}
		}(w)
	}
	wg.Wait()
	if oerr != nil {
		fails = append(fails, core.ExtraFailure{Failure: core.Failure{Key: "huge-oracle", Desc: "oracle not runnable: " + oerr.Error()}, NoInput: true})
	}
	return total, fmt.Sprintf("%d inputs whose UnicodeFormat/Utf16Format output crosses %d mark(s) (1 MiB%s) with a supplementary rune at each escape position in a window around the mark (quick -2..+1, otherwise +-4): output vs reference formatter and vs the Lean model", total, len(markSet), map[bool]string{true: ", 2 MiB, 4 MiB and every append re-allocation point of 64 KiB / 1 MiB initial capacity up to 8 MiB", false: ""}[full]), fails
}
