// Command race: the concurrent Format/Parse workload of C07 for a -race build.
package main

import (
	"fmt"
	"os"
	"strconv"

	"verifharness/props/c07"
)

func main() {
	iters, seed := 1500, uint64(1)
	if len(os.Args) > 1 {
		iters, _ = strconv.Atoi(os.Args[1])
	}
	if len(os.Args) > 2 {
		seed, _ = strconv.ParseUint(os.Args[2], 10, 64)
	}
	n, fails := c07.ParallelRoundTrips(8, iters, seed)
	fmt.Println(n, "round trips,", len(fails), "wrong results")
}
