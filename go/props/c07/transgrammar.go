package c07

// trans-diff-grammar: the correspondence check OF THE TRANSLATOR for the escape parsers, on the inputs
// the property is about.  The generic `trans-diff` Extra (internal/transrt) feeds random byte strings to
// every go2lean target; a random string almost never contains a well-formed escape, so here the
// generated definitions `Golib.Gen.Trans.C07.<X>Parse` (executed by the oracle under `@ C07 trans
// <X>Parse`) are run against the real `strz.<X>Parse(dst, src)` on
//   * every string of <= 3 symbols of the malformed alphabet of the codec (backslash, marker letters,
//     digits, bad digits, truncated and complete escapes, out-of-range values),
//   * Format output of random data, of random literal/escape mixtures built from `malformedTokens`,
//     each TRUNCATED AT EVERY POSITION,
// with a destination as long as the source, longer (the tail must stay untouched) and TOO SHORT
// (len-1, half, 0: the translated definition must panic exactly where the code panics).
// Compared: the returned count and the whole `dst` afterwards, or `panic`.

import (
	"fmt"
	"path/filepath"
	"strings"

	"verifharness/internal/core"
	"verifharness/internal/go2lean"
	"verifharness/internal/transrt"
)

// transParsers: go2lean target name -> codec key, for the parsers that have a target (a target that
// is not in tools/trans_targets.json is skipped: nothing to execute).
var transParsers = []struct{ name, codec string }{
	{"OctalParse", "octal"}, {"HexParse", "hex"}, {"UnicodeParse", "unicode"}, {"Utf16Parse", "utf16"},
}

func transParseLine(k string, dst, src []byte) string {
	f := fns(k)
	return core.Guard(func() string {
		n := f.parse(dst, src)
		return transrt.Join(transrt.SInt(int64(n)), transrt.SBytes(dst))
	})
}

func extraTransGrammar(ctx *core.Ctx) (int, string, []core.ExtraFailure) {
	tf, err := go2lean.LoadTargets(filepath.Join(ctx.VerifDir, "tools", "trans_targets.json"))
	if err != nil {
		return 0, "no targets file", nil
	}
	have := map[string]bool{}
	for _, tg := range tf["C07"] {
		have[tg.Name] = true
	}
	r := ctx.Rand
	var fails []core.ExtraFailure
	var notes []string
	evals := 0
	for _, tp := range transParsers {
		if !have[tp.name] {
			continue
		}
		k := tp.codec
		var srcs [][]byte
		// (1) exhaustive short strings over the malformed alphabet
		al := malAlphabet[k]
		var rec func(prefix []byte, depth int)
		rec = func(prefix []byte, depth int) {
			srcs = append(srcs, prefix)
			if depth == 0 {
				return
			}
			for _, a := range al {
				rec(append(append([]byte{}, prefix...), a...), depth-1)
			}
		}
		rec(nil, 3)
		// (2) Format output and token mixtures, truncated at every position
		nmix := 60 * ctx.Escalate
		if ctx.Tier == "thorough" {
			nmix = 600
		}
		toks := malformedTokens(k)
		for i := 0; i < nmix; i++ {
			var s []byte
			switch i % 3 {
			case 0:
				s = lowerHex(r, k, fns(k).format(randData(r, k, 6)))
			case 1:
				for j, m := 0, r.Range(1, 6); j < m; j++ {
					s = append(s, toks[r.Intn(len(toks))]...)
				}
			default:
				s = append(s, randLiteral(r)...)
				s = append(s, lowerHex(r, k, fns(k).format(randData(r, k, 3)))...)
				s = append(s, toks[r.Intn(len(toks))]...)
				s = append(s, randLiteral(r)...)
			}
			if len(s) > 64 {
				s = s[:64]
			}
			for cut := 0; cut <= len(s); cut++ {
				srcs = append(srcs, append([]byte{}, s[:cut]...))
			}
		}
		lines := []string{fmt.Sprintf("@ C07 trans %s", tp.name)}
		var impl []string
		impl = append(impl, "ok")
		for i, s := range srcs {
			// destination lengths: exact always; one other shape per source, rotating
			dls := []int{len(s)}
			switch i % 4 {
			case 0:
				dls = append(dls, len(s)+3)
			case 1:
				if len(s) > 0 {
					dls = append(dls, len(s)-1)
				}
			case 2:
				dls = append(dls, len(s)/2)
			default:
				dls = append(dls, 0)
			}
			for _, dl := range dls {
				dst := make([]byte, dl)
				for j := range dst {
					dst[j] = 0xA0 + byte(j%16) // recognisable filler: an untouched tail must come back unchanged
				}
				lines = append(lines, hx(dst)+" "+hx(s))
				impl = append(impl, transParseLine(k, dst, append([]byte{}, s...)))
			}
		}
		model, err := core.RunOracle(ctx.VerifDir, []core.Case{{Lines: lines}})
		if err != nil {
			fails = append(fails, core.ExtraFailure{Failure: core.Failure{Key: "trans-diff-oracle", Desc: "the oracle did not run the translated parsers: " + err.Error()}, NoInput: true})
			break
		}
		bad, panics := 0, 0
		for i := range lines {
			if impl[i] == "panic" {
				panics++
			}
			if !transrt.SameOut(impl[i], model[0][i]) {
				bad++
				if bad == 1 {
					fails = append(fails, core.ExtraFailure{
						Failure: core.Failure{Key: "trans-diff-" + tp.name, Desc: fmt.Sprintf("the go2lean translation of strz:%s disagrees with the real function on `dst src` = `%s`: code=%q translated=%q", tp.name, lines[i], impl[i], model[0][i])},
						Payload: map[string]any{"lines": []string{lines[0], lines[i]}, "impl_out": impl[i], "translated_out": model[0][i]},
						NoInput: true,
					})
				}
			}
		}
		evals += len(lines) - 1
		notes = append(notes, fmt.Sprintf("%s: %d (dst, src) pairs from the escape grammar (every string of <= 3 symbols, truncation at every position; %d with a too short dst panic on both sides): %d differences", tp.name, len(lines)-1, panics, bad))
	}
	if len(notes) == 0 {
		return 0, "no parser among the go2lean targets", nil
	}
	return evals, strings.Join(notes, "; "), fails
}
