package c07

// Concurrent use of the stateless package-level functions is ordinary use (WAVE6 class 10):
// several goroutines format and parse DIFFERENT inputs at the same time; every result is
// compared with the reference formatter / the input (sound: a result is either right or wrong,
// no timing enters the verdict). Quick: in-process; thorough: the same workload in a binary
// built with -race (props/c07/race), a reported data race is a failure as well.

import (
	"bytes"
	"fmt"
	"os"
	"os/exec"
	"path/filepath"
	"strings"
	"sync"
	"time"

	"verifharness/internal/core"
)

// ParFailure is one wrong result seen under concurrent use.
type ParFailure struct {
	Codec string
	Input []byte
	Desc  string
}

// ParallelRoundTrips runs `workers` goroutines for `iters` iterations each.
func ParallelRoundTrips(workers, iters int, seed uint64) (evals int, fails []ParFailure) {
	var mu sync.Mutex
	var wg sync.WaitGroup
	start := make(chan struct{})
	for w := 0; w < workers; w++ {
		wg.Add(1)
		go func(w int) {
			defer wg.Done()
			r := core.NewRand(seed*7919 + uint64(w)*104729 + 1)
			<-start
			for it := 0; it < iters; it++ {
				k := codecs[(it+w)%4]
				f := fns(k)
				in := randData(r, k, 40)
				report := func(desc string) {
					mu.Lock()
					if len(fails) < 5 {
						fails = append(fails, ParFailure{k, append([]byte{}, in...), desc})
					}
					mu.Unlock()
				}
				var out []byte
				panicked := false
				func() {
					// a panic of the real code must become a reported failure, not the
					// death of the checking process
					defer func() {
						if rec := recover(); rec != nil {
							panicked = true
							report(fmt.Sprintf("Format panics: %v", rec))
						}
					}()
					if it%2 == 0 {
						out = f.format(in)
					} else {
						out = []byte(f.formatStr(string(in)))
					}
				}()
				if panicked {
					continue
				}
				if want := refFormat(k, in); !bytes.Equal(out, want) {
					report(fmt.Sprintf("Format = %q, documented format is %q", out, want))
					continue
				}
				var back []byte
				func() {
					defer func() {
						if rec := recover(); rec != nil {
							panicked = true
							report(fmt.Sprintf("Parse(Format(s)) panics: %v", rec))
						}
					}()
					back = []byte(f.parseBytes(out))
				}()
				if panicked {
					continue
				}
				want := in
				if k == "unicode" || k == "utf16" {
					want = want[:0:0]
					for _, c := range string(in) {
						want = append(want, string(c)...)
					}
				}
				if !bytes.Equal(back, want) {
					report(fmt.Sprintf("Parse(Format(s)) = %x, want %x", back, want))
				}
			}
		}(w)
	}
	close(start)
	wg.Wait()
	return workers * iters, fails
}

func extraParallel(ctx *core.Ctx) (int, string, []core.ExtraFailure) {
	iters := 2500 * ctx.Escalate
	if ctx.Tier == "thorough" {
		iters = 60000
	}
	evals, pf := ParallelRoundTrips(8, iters, ctx.Seed)
	var fails []core.ExtraFailure
	for _, f := range pf {
		fails = append(fails, core.ExtraFailure{
			Failure: core.Failure{Key: f.Codec + "-concurrent-use", Desc: fmt.Sprintf("8 goroutines formatting/parsing different inputs at the same time: codec %s, input %x: %s (package-level functions without documented state must be usable concurrently; the same call is right when made alone)", f.Codec, f.Input, f.Desc)},
			Payload: map[string]any{"lines": []string{header(f.Codec), "format " + hx(f.Input), "roundtrip " + hx(f.Input)}, "note": "observed under concurrent use of 8 goroutines"},
		})
		if len(fails) >= 3 {
			break
		}
	}
	note := fmt.Sprintf("8 goroutines x %d Format+Parse round trips on different inputs, every result compared with the reference", iters)
	if ctx.Tier == "thorough" || ctx.Escalate > 1 {
		races, err := raceRun(ctx, 1500)
		switch {
		case err != nil:
			note += "; -race run not possible: " + err.Error()
		case races != "":
			fails = append(fails, core.ExtraFailure{Failure: core.Failure{Key: "data-race", Desc: "the Go race detector reports a data race between concurrent Format/Parse calls on different inputs: " + firstLines(races, 12)}, Payload: map[string]any{"report": races}, NoInput: true})
		default:
			note += "; the same workload under -race: no report"
		}
	}
	return evals, note, fails
}

func firstLines(s string, n int) string {
	l := strings.Split(s, "\n")
	if len(l) > n {
		l = l[:n]
	}
	return strings.Join(l, " | ")
}

// raceRun builds props/c07/race with -race against the tree under verification and runs it.
func raceRun(ctx *core.Ctx, iters int) (string, error) {
	goDir := filepath.Join(ctx.VerifDir, "go")
	mod, err := os.ReadFile(filepath.Join(goDir, "go.mod"))
	if err != nil {
		return "", err
	}
	var h uint32 = 2166136261
	for i := 0; i < len(ctx.Repo); i++ {
		h = (h ^ uint32(ctx.Repo[i])) * 16777619
	}
	build := filepath.Join(goDir, ".build")
	_ = os.MkdirAll(build, 0o755)
	modfile := filepath.Join(build, fmt.Sprintf("c07race-%08x.mod", h))
	newMod := strings.Replace(string(mod), "=> /repo", "=> "+ctx.Repo, 1)
	if old, e := os.ReadFile(modfile); e != nil || string(old) != newMod {
		if e := os.WriteFile(modfile, []byte(newMod), 0o644); e != nil {
			return "", e
		}
	}
	if sum, e := os.ReadFile(filepath.Join(goDir, "go.sum")); e == nil {
		_ = os.WriteFile(strings.TrimSuffix(modfile, ".mod")+".sum", sum, 0o644)
	}
	bin := filepath.Join(build, fmt.Sprintf("c07race-%08x", h))
	cmd := exec.Command("go", "build", "-race", "-modfile="+modfile, "-o", bin, "./props/c07/race")
	cmd.Dir = goDir
	var bo bytes.Buffer
	cmd.Stdout, cmd.Stderr = &bo, &bo
	if e := cmd.Run(); e != nil {
		return "", fmt.Errorf("go build -race: %v: %s", e, firstLines(bo.String(), 5))
	}
	run := exec.Command(bin, fmt.Sprint(iters), fmt.Sprint(ctx.Seed))
	run.Env = append(os.Environ(), "GORACE=halt_on_error=0 exitcode=0")
	var so, se bytes.Buffer
	run.Stdout, run.Stderr = &so, &se
	if e := run.Start(); e != nil {
		return "", e
	}
	done := make(chan error, 1)
	go func() { done <- run.Wait() }()
	select {
	case <-done:
	case <-time.After(120 * time.Second):
		_ = run.Process.Kill()
		return "", fmt.Errorf("race run timed out")
	}
	if strings.Contains(se.String(), "DATA RACE") {
		r := se.String()
		if len(r) > 4000 {
			r = r[:4000]
		}
		return r, nil
	}
	return "", nil
}
