// Package c12: SafeKV is data-race free and every operation is atomic
// (mapz/safekv.go, mapz/iter.go, mapz/kv.go).
//
// Three parts:
//   - facts.go: go/ast extractor → lean/Golib/Gen/FactsC12.lean (lock/access event list
//     of every SafeKV method); Lean proves race freedom + atomicity generically for
//     bodies satisfying `bodyOK` and checks `bodyOK` on the regenerated lists.
//   - this file: sequential differential test of every method (real SafeKV[int,int]
//     vs the Lean bodies run uninterrupted) + an independent plain-map oracle.
//   - race.go + racer/: a `-race` build of a generated main package that runs every
//     pair of methods concurrently on shared keys, and linearizability checking of
//     recorded invoke/response histories (porcupine).
package c12

import (
	"fmt"
	"iter"
	"runtime"
	"sort"
	"strconv"
	"strings"
	"sync/atomic"
	"time"

	"github.com/welllog/golib/mapz"

	"verifharness/internal/core"
)

func init() {
	core.Register(&core.Prop{
		ID:       "C12",
		Title:    "SafeKV is data-race free and every operation is atomic",
		Quick:    4000,
		Thorough: 200000,
		Gen:      gen,
		Corpus:   corpus,
		Impl:     impl,
		Check:    check,
		Facts:    Facts,
		NonTrivial: func(c core.Case, out []string) bool {
			// at least one conditional write decided each way or a traversal of a non-empty map
			t, f, trav := false, false, false
			for i, l := range c.Lines[1:] {
				op := core.Toks(l)[0]
				o := out[i+1]
				if op == "setnx" || op == "setx" {
					if o == "true" {
						t = true
					} else {
						f = true
					}
				}
				if (op == "range" || op == "all" || op == "rangeseq" || op == "keys" || op == "values") && o != "[]" && !strings.HasPrefix(o, "n=0") {
					trav = true
				}
			}
			return (t && f) || trav
		},
		Rule:     "sequential op sequences over all 16 SafeKV methods (+ Map with 3 callbacks) on SafeKV[int,int], keys 0..5; non-trivial = SetNx/SetX decided both ways or a traversal of a non-empty map; distinct by hash of the op list. Concurrent part: see extras (race detector over all method pairs, linearizability of recorded histories)",
		Classify: classify,
		Parallel: true,
		Extras: []core.Extra{
			{Name: "extractor-selftest", Run: selfTestExtra},
			{Name: "race-detector+linearizability", Run: raceExtra},
		},
		Assumptions: []string{
			"sync.RWMutex provides writer-exclusive / reader-shared mutual exclusion and the happens-before edges of the Go memory model",
			"race freedom of the interleaving model implies race freedom of the compiled program (Go memory model, DRF-SC)",
			"user callbacks passed to Range/All/GetWithLock/Map do not re-enter the same SafeKV and do not retain the map beyond the call",
			"extractor (go/ast) classification of statements into lock/access events is trusted; what it cannot classify is emitted as `bad` (a failing obligation)",
		},
		TrustedBase: []string{
			"Go race detector (supporting evidence for the extracted facts) and porcupine v1.3.0 linearizability checker",
		},
	})
}

func corpus() []core.Case {
	return append(floatCorpus(), []core.Case{
		// iterator handles: obtained before Clear / Set / Map, ranged after; twice; after an early break; nested
		{Lines: []string{"@ C12 kv 0", "set 1 10", "set 2 20", "seq 0", "clear", "rangeseq 0 9", "set 3 30", "rangeseq 0 9", "rangeseq 0 9", "seq 1", "mapset 4 40", "rangeseq 1 1", "rangeseq 1 9", "nestseq 0", "del 3 4", "nestseq 1", "rangeseq 0 9", "clear", "set 5 50"}},
		{Lines: []string{"@ C12 kv 2", "seq 0", "rangeseq 0 3", "set 1 1", "set 2 2", "set 3 3", "rangeseq 0 2", "rangeseq 0 0", "keys", "values", "set 1 9", "del 2", "keys", "values", "clear", "keys", "mapset 7 7", "values", "nestseq 0"}},
		{Lines: []string{"@ C12 kv 0", "setnx 1 10", "setnx 1 11", "get 1", "setx 2 20", "has 2", "len", "setx 1 12", "get 1"}},
		{Lines: []string{"@ C12 kv 4", "set 1 10", "set 2 20", "set 3 30", "keys", "values", "range 9", "all 9", "range 2", "all 1", "len", "clear", "len", "keys", "range 3"}},
		{Lines: []string{"@ C12 kv 2", "set 1 10", "set 2 20", "getwithmap 1:0 5:55 2:7", "getwithlock 1", "getwithlock 9", "del 1 9 2", "len", "mapset 4 40", "maplen", "mapdel 4", "contains 4", "del"}},
	}...)
}

func gen(r *core.Rand, tier string) core.Case {
	if r.Chance(12) {
		return genFloat(r) // key types with a partial `==` (float64, struct with a float field)
	}
	lines := []string{fmt.Sprintf("@ C12 kv %d", r.Range(0, 8))}
	n := r.Range(1, 30)
	next := 1
	haveSeq := false
	key := func() int { return r.Range(0, 5) }
	for i := 0; i < n; i++ {
		switch r.Pick(10, 12, 10, 10, 6, 5, 3, 5, 4, 4, 5, 5, 3, 3, 3, 4, 2, 3, 2, 5) {
		case 0:
			lines = append(lines, fmt.Sprintf("get %d", key()))
		case 1:
			lines = append(lines, fmt.Sprintf("set %d %d", key(), next))
			next++
		case 2:
			lines = append(lines, fmt.Sprintf("setnx %d %d", key(), next))
			next++
		case 3:
			lines = append(lines, fmt.Sprintf("setx %d %d", key(), next))
			next++
		case 4:
			k := r.Range(0, 3)
			l := "del"
			for j := 0; j < k; j++ {
				l += fmt.Sprintf(" %d", key())
			}
			lines = append(lines, l)
		case 5:
			lines = append(lines, fmt.Sprintf("has %d", key()))
		case 6:
			lines = append(lines, fmt.Sprintf("contains %d", key()))
		case 7:
			lines = append(lines, "len")
		case 8:
			lines = append(lines, "keys")
		case 9:
			lines = append(lines, "values")
		case 10:
			lines = append(lines, fmt.Sprintf("range %d", r.Range(0, 7)))
		case 11:
			lines = append(lines, fmt.Sprintf("all %d", r.Range(0, 7)))
		case 12:
			lines = append(lines, "clear")
		case 13:
			lines = append(lines, fmt.Sprintf("mapset %d %d", key(), next))
			next++
		case 14:
			lines = append(lines, fmt.Sprintf("mapdel %d", key()))
		case 15:
			// distinct keys (the argument is a Go map)
			perm := []int{0, 1, 2, 3, 4, 5, 6}
			for j := len(perm) - 1; j > 0; j-- {
				k := r.Intn(j + 1)
				perm[j], perm[k] = perm[k], perm[j]
			}
			l := "getwithmap"
			for _, k := range perm[:r.Range(0, 4)] {
				l += fmt.Sprintf(" %d:%d", k, 1000+next)
				next++
			}
			lines = append(lines, l)
		case 16:
			lines = append(lines, "maplen")
		case 17:
			lines = append(lines, fmt.Sprintf("getwithlock %d", key()))
		case 18:
			lines = append(lines, fmt.Sprintf("seq %d", r.Range(0, 2)))
			haveSeq = true
		case 19:
			if !haveSeq {
				lines = append(lines, "seq 0")
				haveSeq = true
				continue
			}
			if r.Chance(25) {
				lines = append(lines, "nestseq 0")
			} else {
				lines = append(lines, fmt.Sprintf("rangeseq 0 %d", r.Range(0, 7)))
			}
		}
	}
	return core.Case{Lines: lines, Tag: "seq"}
}

type pair struct{ k, v int }

// opTimeout: a sequential SafeKV call is a handful of map operations; one that has not
// returned is examined with a goroutine dump, and given up after this long.
const opTimeout = 15 * time.Second

// proven lock leaks so far in this process: after a few, the first look at the dump
// comes earlier (the proof is the dump, not the elapsed time, so this only saves time
// on a tree where most cases deadlock).
var leaksSeen atomic.Int32

func goid() string {
	buf := make([]byte, 64)
	buf = buf[:runtime.Stack(buf, false)]
	f := strings.Fields(string(buf)) // "goroutine 123 [running]:"
	if len(f) >= 2 {
		return f[1]
	}
	return "?"
}

// parkedOnRWMutex: does the dump show goroutine `id` blocked inside sync.(*RWMutex)?
func parkedOnRWMutex(id string) bool {
	buf := make([]byte, 1<<20)
	for {
		n := runtime.Stack(buf, true)
		if n < len(buf) || len(buf) >= 256<<20 {
			buf = buf[:n]
			break
		}
		buf = make([]byte, 2*len(buf))
	}
	for _, g := range strings.Split(string(buf), "\n\n") {
		if strings.HasPrefix(g, "goroutine "+id+" [") {
			return strings.Contains(g, "sync.(*RWMutex)") && !strings.HasPrefix(g, "goroutine "+id+" [running")
		}
	}
	return false
}

// watchdogOp runs one sequential op in its own goroutine. If it does not return and
// the dump shows THAT goroutine parked on the RWMutex — nobody else uses this SafeKV,
// so nobody can ever release it — the answer is "deadlock" (an earlier call of the
// sequence left the lock held). Without that proof it keeps waiting, and answers
// "timeout" after opTimeout.
func watchdogOp(f func() string) string {
	ch := make(chan string, 1)
	idc := make(chan string, 1)
	go func() { idc <- goid(); ch <- watchdogFrame(f) }()
	first := time.Second
	if leaksSeen.Load() >= 3 {
		first = 30 * time.Millisecond
	}
	deadline := time.Now().Add(opTimeout)
	wait := first
	id := <-idc
	for {
		select {
		case o := <-ch:
			return o
		case <-time.After(wait):
		}
		if parkedOnRWMutex(id) {
			leaksSeen.Add(1)
			return "deadlock"
		}
		if time.Now().After(deadline) {
			return "timeout"
		}
		wait = time.Second
	}
}

//go:noinline
func watchdogFrame(f func() string) string { return core.Guard(f) }

func showPairs(ps []pair) string {
	sort.Slice(ps, func(i, j int) bool {
		if ps[i].k != ps[j].k {
			return ps[i].k < ps[j].k
		}
		return ps[i].v < ps[j].v
	})
	var sb strings.Builder
	sb.WriteByte('[')
	for i, p := range ps {
		if i > 0 {
			sb.WriteByte(' ')
		}
		fmt.Fprintf(&sb, "%d:%d", p.k, p.v)
	}
	sb.WriteByte(']')
	return sb.String()
}

func showInts(xs []int) string {
	sort.Ints(xs)
	var sb strings.Builder
	sb.WriteByte('[')
	for i, x := range xs {
		if i > 0 {
			sb.WriteByte(' ')
		}
		sb.WriteString(strconv.Itoa(x))
	}
	sb.WriteByte(']')
	return sb.String()
}

func atoi(s string) (int, bool) {
	v, err := strconv.Atoi(s)
	return v, err == nil
}

func parsePairs(ts []string) ([]pair, bool) {
	var ps []pair
	seen := map[int]bool{}
	for _, t := range ts {
		a, b, ok := strings.Cut(t, ":")
		if !ok {
			return nil, false
		}
		k, ok1 := atoi(a)
		v, ok2 := atoi(b)
		if !ok1 || !ok2 || seen[k] {
			return nil, false
		}
		seen[k] = true
		ps = append(ps, pair{k, v})
	}
	return ps, true
}

// traversal result: complete traversals print the sorted content; a partial one is
// self-checked against Get (sequential, so stable) and printed as "partial".
func showTraversal(s *mapz.SafeKV[int, int], len0 int, visited []pair) string {
	if len(visited) == len0 {
		return fmt.Sprintf("n=%d %s", len(visited), showPairs(visited))
	}
	seen := map[int]bool{}
	for _, p := range visited {
		v, ok := s.Get(p.k)
		if !ok || v != p.v || seen[p.k] {
			return fmt.Sprintf("n=%d partial-bad", len(visited))
		}
		seen[p.k] = true
	}
	return fmt.Sprintf("n=%d partial", len(visited))
}

// seqState: what a sequential case keeps besides the SafeKV — iterator handles obtained
// from All() and not (only) ranged at once, and the results ledger: every slice returned
// by Keys()/Values() together with an independent copy; a later call must not change an
// earlier result.
type seqState struct {
	slots  map[int]iter.Seq2[int, int]
	ledger []ledgerEntry
}

type ledgerEntry struct {
	op        string
	got, copy []int
}

func (st *seqState) record(op string, xs []int) {
	st.ledger = append(st.ledger, ledgerEntry{op: op, got: xs, copy: append([]int(nil), xs...)})
}

// ledgerOK re-compares every earlier result with its copy.
func (st *seqState) ledgerOK() (string, bool) {
	for i, e := range st.ledger {
		if len(e.got) != len(e.copy) {
			return fmt.Sprintf("result %d (%s) changed length", i, e.op), false
		}
		for j := range e.got {
			if e.got[j] != e.copy[j] {
				return fmt.Sprintf("result %d (%s) changed at index %d: %d -> %d", i, e.op, j, e.copy[j], e.got[j]), false
			}
		}
	}
	return "", true
}

func impl(c core.Case) []string {
	if isFloatCase(c) {
		return runFloat(c, false)
	}
	var s *mapz.SafeKV[int, int]
	st := &seqState{slots: map[int]iter.Seq2[int, int]{}}
	stuck := false
	return core.RunOps(c,
		func(hdr []string) string {
			if len(hdr) != 2 || hdr[0] != "kv" {
				return "bad-op"
			}
			n, ok := atoi(hdr[1])
			if !ok || n < 0 {
				return "bad-op"
			}
			s = mapz.NewSafeKV[int, int](n)
			return "ok"
		},
		func(t []string) string {
			if stuck {
				return "dead"
			}
			o := watchdogOp(func() string { return seqStep(s, st, t) })
			if o == "deadlock" || o == "timeout" {
				stuck = true
			}
			if why, ok := st.ledgerOK(); !ok {
				return "ledger-bad:" + strings.ReplaceAll(why, " ", "_")
			}
			return o
		})
}

// seqStep performs one op of a sequential case on the real SafeKV.
func seqStep(s *mapz.SafeKV[int, int], st *seqState, t []string) string {
	args := make([]int, 0, len(t))
	if t[0] != "getwithmap" {
		for _, a := range t[1:] {
			v, ok := atoi(a)
			if !ok {
				return "bad-op"
			}
			args = append(args, v)
		}
	}
	need := func(n int) bool { return len(args) == n }
	switch t[0] {
	case "get":
		if !need(1) {
			return "bad-op"
		}
		v, ok := s.Get(args[0])
		return fmt.Sprintf("%d %v", v, ok)
	case "getwithlock":
		if !need(1) {
			return "bad-op"
		}
		res := "notcalled"
		s.GetWithLock(args[0], func(v int) { res = fmt.Sprintf("called %d", v) })
		return res
	case "getwithmap":
		ps, ok := parsePairs(t[1:])
		if !ok {
			return "bad-op"
		}
		m := map[int]int{}
		for _, p := range ps {
			m[p.k] = p.v
		}
		s.GetWithMap(m)
		var out []pair
		for k, v := range m {
			out = append(out, pair{k, v})
		}
		return showPairs(out)
	case "set":
		if !need(2) {
			return "bad-op"
		}
		s.Set(args[0], args[1])
		return "ok"
	case "setnx":
		if !need(2) {
			return "bad-op"
		}
		return strconv.FormatBool(s.SetNx(args[0], args[1]))
	case "setx":
		if !need(2) {
			return "bad-op"
		}
		return strconv.FormatBool(s.SetX(args[0], args[1]))
	case "del":
		s.Delete(args...)
		return "ok"
	case "has":
		if !need(1) {
			return "bad-op"
		}
		return strconv.FormatBool(s.Has(args[0]))
	case "contains":
		if !need(1) {
			return "bad-op"
		}
		return strconv.FormatBool(s.Contains(args[0]))
	case "len":
		if !need(0) {
			return "bad-op"
		}
		return strconv.Itoa(s.Len())
	case "keys":
		if !need(0) {
			return "bad-op"
		}
		ks := s.Keys()
		st.record("keys", ks)
		return showInts(append([]int(nil), ks...))
	case "values":
		if !need(0) {
			return "bad-op"
		}
		vs := s.Values()
		st.record("values", vs)
		return showInts(append([]int(nil), vs...))
	case "range":
		if !need(1) || args[0] < 0 {
			return "bad-op"
		}
		len0 := s.Len()
		var vis []pair
		s.Range(func(k, v int) bool {
			vis = append(vis, pair{k, v})
			return len(vis) < args[0]
		})
		return showTraversal(s, len0, vis)
	case "all":
		if !need(1) || args[0] < 0 {
			return "bad-op"
		}
		len0 := s.Len()
		var vis []pair
		for k, v := range s.All() {
			vis = append(vis, pair{k, v})
			if len(vis) >= args[0] {
				break
			}
		}
		return showTraversal(s, len0, vis)
	case "seq":
		// obtain an iterator handle now, range it later
		if !need(1) || args[0] < 0 {
			return "bad-op"
		}
		st.slots[args[0]] = s.All()
		return "ok"
	case "rangeseq":
		if !need(2) || args[0] < 0 || args[1] < 0 {
			return "bad-op"
		}
		seq, ok := st.slots[args[0]]
		if !ok {
			return "bad-op"
		}
		len0 := s.Len()
		var vis []pair
		for k, v := range seq {
			vis = append(vis, pair{k, v})
			if len(vis) >= args[1] {
				break
			}
		}
		return showTraversal(s, len0, vis)
	case "nestseq":
		if !need(1) || args[0] < 0 {
			return "bad-op"
		}
		seq, ok := st.slots[args[0]]
		if !ok {
			return "bad-op"
		}
		outer, inner := 0, 0
		for range seq {
			outer++
			for range seq { // read lock taken again by the same goroutine: no writer exists here
				inner++
			}
		}
		return fmt.Sprintf("outer=%d inner=%d", outer, inner)
	case "clear":
		if !need(0) {
			return "bad-op"
		}
		s.Clear()
		return "ok"
	case "mapset":
		if !need(2) {
			return "bad-op"
		}
		s.Map(func(m mapz.KV[int, int]) { m[args[0]] = args[1] })
		return "ok"
	case "mapdel":
		if !need(1) {
			return "bad-op"
		}
		s.Map(func(m mapz.KV[int, int]) { delete(m, args[0]) })
		return "ok"
	case "maplen":
		if !need(0) {
			return "bad-op"
		}
		n := 0
		s.Map(func(m mapz.KV[int, int]) { n = len(m) })
		return strconv.Itoa(n)
	}
	return "bad-op"
}

// check: the property's sequential content against a plain Go map (independent of
// the Lean model): every method is the corresponding plain-map function.
func check(c core.Case, out []string) *core.Failure {
	if isFloatCase(c) {
		return checkFloat(c, out)
	}
	ref := map[int]int{}
	seqSlots := map[int]bool{}
	for i := 1; i < len(out) && i < len(c.Lines); i++ {
		if strings.HasPrefix(out[i], "ledger-bad:") {
			return &core.Failure{Key: "result-mutated", Desc: fmt.Sprintf("after op %d %q a slice returned by an EARLIER Keys()/Values() call has changed (%s): results share memory with the map or with each other", i, c.Lines[i], strings.TrimPrefix(out[i], "ledger-bad:"))}
		}
	}
	for i := 1; i < len(c.Lines); i++ {
		t := core.Toks(c.Lines[i])
		if i < len(out) && out[i] == "deadlock" {
			return &core.Failure{Key: "lock-leak", Desc: fmt.Sprintf("op %d %q never returns: its goroutine is parked on the RWMutex although this SafeKV is used by one goroutine only — an earlier call of this sequence returned with the lock held", i, c.Lines[i])}
		}
		if i < len(out) && out[i] == "timeout" {
			return &core.Failure{Key: "op-timeout", Desc: fmt.Sprintf("op %d %q did not return within %s (no deadlock proof in the goroutine dump)", i, c.Lines[i], opTimeout)}
		}
		var a []int
		if t[0] != "getwithmap" {
			for _, x := range t[1:] {
				v, _ := atoi(x)
				a = append(a, v)
			}
		}
		want := ""
		key := "seq-" + t[0]
		switch t[0] {
		case "get":
			v, ok := ref[a[0]]
			want = fmt.Sprintf("%d %v", v, ok)
		case "getwithlock":
			if v, ok := ref[a[0]]; ok {
				want = fmt.Sprintf("called %d", v)
			} else {
				want = "notcalled"
			}
		case "getwithmap":
			ps, _ := parsePairs(t[1:])
			for j := range ps {
				if v, ok := ref[ps[j].k]; ok {
					ps[j].v = v
				}
			}
			want = showPairs(ps)
		case "set", "mapset":
			ref[a[0]] = a[1]
			want = "ok"
		case "setnx":
			_, ok := ref[a[0]]
			if !ok {
				ref[a[0]] = a[1]
			}
			want = strconv.FormatBool(!ok)
		case "setx":
			_, ok := ref[a[0]]
			if ok {
				ref[a[0]] = a[1]
			}
			want = strconv.FormatBool(ok)
		case "del", "mapdel":
			for _, k := range a {
				delete(ref, k)
			}
			want = "ok"
		case "has", "contains":
			_, ok := ref[a[0]]
			want = strconv.FormatBool(ok)
		case "len", "maplen":
			want = strconv.Itoa(len(ref))
		case "keys":
			var ks []int
			for k := range ref {
				ks = append(ks, k)
			}
			want = showInts(ks)
		case "values":
			var vs []int
			for _, v := range ref {
				vs = append(vs, v)
			}
			want = showInts(vs)
		case "seq":
			want = "ok"
			seqSlots[a[0]] = true
		case "nestseq":
			if !seqSlots[a[0]] {
				continue
			}
			want = fmt.Sprintf("outer=%d inner=%d", len(ref), len(ref)*len(ref))
		case "range", "all", "rangeseq":
			if t[0] == "rangeseq" {
				if !seqSlots[a[0]] {
					continue
				}
				a = a[1:] // a handle carries no state: the CURRENT content is enumerated
			}
			lim := a[0]
			if lim < 1 {
				lim = 1
			}
			n := len(ref)
			if lim < n {
				n = lim
			}
			if n == len(ref) {
				var ps []pair
				for k, v := range ref {
					ps = append(ps, pair{k, v})
				}
				want = fmt.Sprintf("n=%d %s", n, showPairs(ps))
			} else {
				want = fmt.Sprintf("n=%d partial", n)
			}
		case "clear":
			ref = map[int]int{}
			want = "ok"
		default:
			continue
		}
		if out[i] != want {
			return &core.Failure{Key: key, Desc: fmt.Sprintf("op %d %q: SafeKV answered %q, a plain map holding %v answers %q", i, c.Lines[i], out[i], ref, want)}
		}
	}
	return nil
}

func classify(c core.Case, out []string) []string {
	var ls []string
	if isFloatCase(c) {
		ls = append(ls, "keytype="+core.Toks(c.Lines[0])[3])
		for _, l := range c.Lines[1:] {
			t := core.Toks(l)
			if len(t) >= 2 && strings.HasPrefix(t[1], "nan") {
				ls = append(ls, t[0]+"-nan-key")
			}
		}
		return ls
	}
	for i, l := range c.Lines[1:] {
		op := core.Toks(l)[0]
		o := out[i+1]
		switch op {
		case "setnx", "setx", "has", "contains":
			ls = append(ls, op+"-"+o)
		case "get":
			if strings.HasSuffix(o, "true") {
				ls = append(ls, "get-hit")
			} else {
				ls = append(ls, "get-miss")
			}
		case "rangeseq":
			if strings.HasSuffix(o, "partial") {
				ls = append(ls, "held-seq-partial")
			} else {
				ls = append(ls, "held-seq-complete")
			}
		case "range", "all":
			if strings.HasSuffix(o, "partial") {
				ls = append(ls, op+"-partial")
			} else {
				ls = append(ls, op+"-complete")
			}
		case "getwithlock":
			ls = append(ls, op+"-"+core.Toks(o)[0])
		default:
			ls = append(ls, op)
		}
	}
	return ls
}
