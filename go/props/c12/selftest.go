package c12

// Self-test of the extractor on synthetic SafeKV sources, run on every check: one
// construct per method (G.. = must pass the obligation, M.. = must fail it). It guards
// the claim "what the extractor does not understand becomes a failing obligation,
// never silence" against regressions of the extractor itself.

import (
	"fmt"
	"os"
	"path/filepath"
	"sort"
	"strings"

	"verifharness/internal/core"
)

const selfTestSrc = `package mapz

import "sync"

type KV[K comparable, V any] map[K]V

func (m KV[K, V]) Has(key K) bool { _, ok := m[key]; return ok }
func (m KV[K, V]) Set(key K, value V) { m[key] = value }
func (m KV[K, V]) Range(fn func(key K, value V) bool) {
	for k, v := range m {
		if !fn(k, v) {
			break
		}
	}
}
func (m KV[K, V]) Leak() map[K]V { return m }

type SafeKV[K comparable, V any] struct {
	entries KV[K, V]
	mu      sync.RWMutex
}

// G01 plain locked write (good)
func (s *SafeKV[K, V]) G01(key K, value V) {
	s.mu.Lock()
	s.entries[key] = value
	s.mu.Unlock()
}

// G02 early return BEFORE the lock is taken (good)
func (s *SafeKV[K, V]) G02(keys ...K) {
	if len(keys) == 0 {
		return
	}
	s.mu.Lock()
	for _, k := range keys {
		delete(s.entries, k)
	}
	s.mu.Unlock()
}

// G03 deferred release with an early return (good)
func (s *SafeKV[K, V]) G03(key K, value V) bool {
	s.mu.Lock()
	defer s.mu.Unlock()
	if _, ok := s.entries[key]; ok {
		return false
	}
	s.entries[key] = value
	return true
}

// G04 delegation to a writing KV method under the write lock (good)
func (s *SafeKV[K, V]) G04(key K, value V) {
	s.mu.Lock()
	s.entries.Set(key, value)
	s.mu.Unlock()
}

// M27 delegation to a writing KV method under the READ lock
func (s *SafeKV[K, V]) M27(key K, value V) {
	s.mu.RLock()
	s.entries.Set(key, value)
	s.mu.RUnlock()
}

// M28 KV method whose body lets the map escape
func (s *SafeKV[K, V]) M28() int {
	s.mu.RLock()
	n := len(s.entries.Leak())
	s.mu.RUnlock()
	return n
}

// M29 deferred release AND explicit release
func (s *SafeKV[K, V]) M29(key K) {
	s.mu.Lock()
	defer s.mu.Unlock()
	delete(s.entries, key)
	s.mu.Unlock()
}

// M30 deferred RUnlock for a write lock
func (s *SafeKV[K, V]) M30(key K) {
	s.mu.Lock()
	defer s.mu.RUnlock()
	delete(s.entries, key)
}

// M31 returned closure (iterator style) that reads without the lock
func (s *SafeKV[K, V]) M31() func(func(K, V) bool) {
	return func(yield func(K, V) bool) {
		for k, v := range s.entries {
			if !yield(k, v) {
				break
			}
		}
	}
}

// M33 helper that locks, called from a method (RWMutex is not reentrant)
func (s *SafeKV[K, V]) M33(key K) {
	s.mu.Lock()
	s.lockedHelper(key)
	s.mu.Unlock()
}

func (s *SafeKV[K, V]) lockedHelper(key K) {
	s.mu.Lock()
	delete(s.entries, key)
	s.mu.Unlock()
}

// M34 unexported helper handed out as a method value (escapes): stays an entry of its own
func (s *SafeKV[K, V]) M34() func(K) {
	return s.escapingHelper
}

func (s *SafeKV[K, V]) escapingHelper(key K) {
	delete(s.entries, key)
}

// M32 iterator style: early return inside the loop skips the release
func (s *SafeKV[K, V]) M32() func(func(K, V) bool) {
	return func(yield func(K, V) bool) {
		s.mu.RLock()
		for k, v := range s.entries {
			if !yield(k, v) {
				return
			}
		}
		s.mu.RUnlock()
	}
}

// M01 early return between Lock and Unlock (lock leaked)
func (s *SafeKV[K, V]) M01(key K, value V) bool {
	s.mu.Lock()
	if _, ok := s.entries[key]; ok {
		return false
	}
	s.entries[key] = value
	s.mu.Unlock()
	return true
}

// M02 defer unlock (harmless)
func (s *SafeKV[K, V]) M02(key K, value V) {
	s.mu.Lock()
	defer s.mu.Unlock()
	s.entries[key] = value
}

// M03 method value of the mutex
func (s *SafeKV[K, V]) M03(key K, value V) {
	f := s.mu.Lock
	f()
	s.entries[key] = value
	s.mu.Unlock()
}

// M04 closure capturing s.entries run after unlock
func (s *SafeKV[K, V]) M04(key K) func() V {
	s.mu.RLock()
	g := func() V { return s.entries[key] }
	s.mu.RUnlock()
	return g
}

// M05 helper method called under the lock
func (s *SafeKV[K, V]) M05(keys ...K) {
	s.mu.Lock()
	s.deleteKeys(keys...)
	s.mu.Unlock()
}

func (s *SafeKV[K, V]) deleteKeys(keys ...K) {
	for _, key := range keys {
		delete(s.entries, key)
	}
}

// M06 helper called OUTSIDE the lock
func (s *SafeKV[K, V]) M06(keys ...K) {
	s.deleteKeys(keys...)
}

// M07 goto over the unlock
func (s *SafeKV[K, V]) M07(key K) {
	s.mu.Lock()
	if len(s.entries) == 0 {
		goto end
	}
	delete(s.entries, key)
	s.mu.Unlock()
end:
}

// M08 KV method on the guarded field, read-named
func (s *SafeKV[K, V]) M08(key K) bool {
	s.mu.RLock()
	ok := s.entries.Has(key)
	s.mu.RUnlock()
	return ok
}

// M09 KV method Range with callback on guarded field
func (s *SafeKV[K, V]) M09(fn func(K, V) bool) {
	s.mu.RLock()
	s.entries.Range(fn)
	s.mu.RUnlock()
}

// M10 free function touching the fields, no lock
func Merge[K comparable, V any](dst *SafeKV[K, V], src map[K]V) {
	for k, v := range src {
		dst.entries[k] = v
	}
}

// M11 write under the read lock
func (s *SafeKV[K, V]) M11(key K, value V) {
	s.mu.RLock()
	s.entries[key] = value
	s.mu.RUnlock()
}

// M12 RLock / Unlock mismatch
func (s *SafeKV[K, V]) M12(key K) bool {
	s.mu.RLock()
	_, ok := s.entries[key]
	s.mu.Unlock()
	return ok
}

// M13 two sections: check then act
func (s *SafeKV[K, V]) M13(key K, value V) bool {
	s.mu.RLock()
	_, ok := s.entries[key]
	s.mu.RUnlock()
	if !ok {
		s.mu.Lock()
		s.entries[key] = value
		s.mu.Unlock()
	}
	return !ok
}

// M14 two top-level sections
func (s *SafeKV[K, V]) M14(key K, value V) bool {
	s.mu.RLock()
	_, ok := s.entries[key]
	s.mu.RUnlock()
	s.mu.Lock()
	s.entries[key] = value
	s.mu.Unlock()
	return !ok
}

// M15 return expression reads the map after unlock
func (s *SafeKV[K, V]) M15() int {
	s.mu.RLock()
	s.mu.RUnlock()
	return len(s.entries)
}

// M16 user callback gets map under RLock
func (s *SafeKV[K, V]) M16(fn func(KV[K, V])) {
	s.mu.RLock()
	fn(s.entries)
	s.mu.RUnlock()
}

// M17 the map escapes through the return value
func (s *SafeKV[K, V]) M17() KV[K, V] {
	s.mu.RLock()
	defer s.mu.RUnlock()
	return s.entries
}

// M18 go statement
func (s *SafeKV[K, V]) M18(key K) {
	s.mu.Lock()
	go delete(s.entries, key)
	s.mu.Unlock()
}

// M19 TryLock
func (s *SafeKV[K, V]) M19(key K) {
	if s.mu.TryLock() {
		delete(s.entries, key)
		s.mu.Unlock()
	}
}

// M20 panic between lock and unlock (explicit)
func (s *SafeKV[K, V]) M20(key K) {
	s.mu.Lock()
	if _, ok := s.entries[key]; !ok {
		panic("missing")
	}
	s.mu.Unlock()
}

// M21 pointer receiver alias copy
func (s *SafeKV[K, V]) M21() *SafeKV[K, V] {
	c := *s
	return &c
}

// M22 unlock in a closure called immediately
func (s *SafeKV[K, V]) M22(key K) {
	s.mu.Lock()
	func() { s.mu.Unlock() }()
	delete(s.entries, key)
}

// M23 switch with return under lock
func (s *SafeKV[K, V]) M23(key K) int {
	s.mu.RLock()
	switch {
	case len(s.entries) > 3:
		return 1
	}
	s.mu.RUnlock()
	return 0
}

// M24 early top-level return before the unlock
func (s *SafeKV[K, V]) M24(key K) int {
	s.mu.RLock()
	n := len(s.entries)
	return n
	s.mu.RUnlock()
	return 0
}

// M25 select / type switch touching receiver
func (s *SafeKV[K, V]) M25(ch chan int) {
	select {
	case ch <- len(s.entries):
	default:
	}
}

// M26 shadowed receiver name
func (s *SafeKV[K, V]) M26(o *SafeKV[K, V], key K) {
	s.mu.Lock()
	o.entries[key] = s.entries[key]
	s.mu.Unlock()
}
`

// methods of selfTestSrc that must satisfy the obligation (everything else named
// G../M.. and every helper / free function must fail it)
var selfTestGood = map[string]bool{"G01": true, "G02": true, "G03": true, "G04": true,
	"M02": true, "M05": true, "M08": true, "M09": true}

// goBodyOK mirrors Golib.C12.bodyOK (wellLocked ∧ at most one acquire).
func goBodyOK(evs []event) bool {
	acq := 0
	for _, e := range evs {
		if e.kind == "rlock" || e.kind == "lock" {
			acq++
		}
	}
	return goWellLocked(evs) && acq <= 1
}

func selfTestExtra(ctx *core.Ctx) (int, string, []core.ExtraFailure) {
	fail := func(desc string) (int, string, []core.ExtraFailure) {
		return 0, "extractor self-test failed", []core.ExtraFailure{{
			Failure: core.Failure{Key: "extractor-selftest", Desc: desc}, Payload: map[string]any{"detail": desc}, NoInput: true}}
	}
	dir, err := os.MkdirTemp("", "c12selftest")
	if err != nil {
		return fail(err.Error())
	}
	defer os.RemoveAll(dir)
	if err := os.MkdirAll(filepath.Join(dir, "mapz"), 0o755); err != nil {
		return fail(err.Error())
	}
	if err := os.WriteFile(filepath.Join(dir, "mapz", "safekv.go"), []byte(selfTestSrc), 0o644); err != nil {
		return fail(err.Error())
	}
	ms, err := extract(dir)
	if err != nil {
		return fail("extract on the synthetic source: " + err.Error())
	}
	var wrong []string
	seen := map[string]bool{}
	good, bad := 0, 0
	for _, m := range ms {
		seen[m.name] = true
		ok := goBodyOK(m.events)
		if ok != selfTestGood[m.name] {
			var ks []string
			for _, e := range m.events {
				ks = append(ks, e.kind)
			}
			wrong = append(wrong, fmt.Sprintf("%s: obligation %v, expected %v (events %v)", m.name, ok, selfTestGood[m.name], ks))
		}
		if ok {
			good++
		} else {
			bad++
		}
	}
	for n := range selfTestGood {
		if !seen[n] {
			wrong = append(wrong, n+": not extracted")
		}
	}
	for _, n := range []string{"func Merge", "escapingHelper", "M01", "M06", "M26", "M32", "M33"} {
		if !seen[n] {
			wrong = append(wrong, n+": not extracted")
		}
	}
	if len(wrong) > 0 {
		sort.Strings(wrong)
		return fail("the extractor classifies synthetic bodies wrongly: " + strings.Join(wrong, "; "))
	}
	return len(ms), fmt.Sprintf("extractor self-test: %d synthetic bodies, %d accepted / %d refused as expected", len(ms), good, bad), nil
}
