package c12

// The C12 facts extractor: for every method of mapz.SafeKV (all non-test files of
// <repo>/mapz, so `All` in iter.go is included) it emits the source-order list of
// events over
//   rlock runlock lock unlock | read write replace | callFn callFnMap | bad
// into lean/Golib/Gen/FactsC12.lean.  The Lean side proves, generically, that bodies
// satisfying `bodyOK` are race free and atomic, and checks `bodyOK` on THESE lists by
// `decide` on every run.
//
// The extractor only ever adds obligations: whatever it cannot classify becomes the
// event `bad`, which no well-locked body contains. In particular
//   * a call on the mutex that is not a top-level statement of the body (inside a
//     branch, loop, closure, expression), a deferred or `go` statement touching the
//     receiver, TryLock & co;
//   * the guarded field or the mutex escaping into a variable, an unknown function,
//     a closure (alias), `&s.entries`, `*s`, passing `s` along, calling another method
//     of the receiver;
//   * a value receiver (copies the mutex).
// Statements inside loops/branches are listed once, in evaluation order, between the
// surrounding lock events.

import (
	"fmt"
	"go/ast"
	"go/parser"
	"go/token"
	"os"
	"path/filepath"
	"sort"
	"strings"
)

type event struct {
	kind string // lean constructor name
	note string // for `bad`: why
	pos  token.Position
}

type method struct {
	name   string
	file   string
	line   int
	events []event
}

type walker struct {
	fset   *token.FileSet
	recv   string          // receiver identifier
	mu     string          // mutex field
	data   map[string]bool // guarded fields (every field that is not the mutex)
	fns    map[string]bool // identifiers of function-typed parameters (user callbacks)
	events []event
}

func (w *walker) emit(kind string, n ast.Node, note string) {
	w.events = append(w.events, event{kind: kind, note: note, pos: w.fset.Position(n.Pos())})
}

func (w *walker) bad(n ast.Node, why string) { w.emit("bad", n, why) }

// isRecvField reports whether e is `recv.<field>` and returns the field name.
func (w *walker) isRecvField(e ast.Expr) (string, bool) {
	e = unparen(e)
	s, ok := e.(*ast.SelectorExpr)
	if !ok {
		return "", false
	}
	id, ok := unparen(s.X).(*ast.Ident)
	if !ok || id.Name != w.recv || w.recv == "" {
		return "", false
	}
	return s.Sel.Name, true
}

func (w *walker) isData(e ast.Expr) bool {
	f, ok := w.isRecvField(e)
	return ok && w.data[f]
}

func (w *walker) isMu(e ast.Expr) bool {
	f, ok := w.isRecvField(e)
	return ok && f == w.mu
}

func unparen(e ast.Expr) ast.Expr {
	for {
		p, ok := e.(*ast.ParenExpr)
		if !ok {
			return e
		}
		e = p.X
	}
}

// muCall recognises the statement `recv.mu.<M>()`.
func (w *walker) muCall(s ast.Stmt) (string, bool) {
	es, ok := s.(*ast.ExprStmt)
	if !ok {
		return "", false
	}
	c, ok := es.X.(*ast.CallExpr)
	if !ok {
		return "", false
	}
	sel, ok := c.Fun.(*ast.SelectorExpr)
	if !ok || !w.isMu(sel.X) {
		return "", false
	}
	return sel.Sel.Name, true
}

func (w *walker) addFuncParams(ft *ast.FuncType) {
	if ft == nil || ft.Params == nil {
		return
	}
	for _, f := range ft.Params.List {
		if _, ok := f.Type.(*ast.FuncType); ok {
			for _, n := range f.Names {
				w.fns[n.Name] = true
			}
		}
	}
}

// top walks the top-level statements of a body.
func (w *walker) top(list []ast.Stmt) {
	for i, s := range list {
		if m, ok := w.muCall(s); ok {
			c := s.(*ast.ExprStmt).X.(*ast.CallExpr)
			if len(c.Args) != 0 {
				w.bad(s, "mutex call with arguments")
				continue
			}
			switch m {
			case "RLock":
				w.emit("rlock", s, "")
			case "RUnlock":
				w.emit("runlock", s, "")
			case "Lock":
				w.emit("lock", s, "")
			case "Unlock":
				w.emit("unlock", s, "")
			default:
				w.bad(s, "mutex method "+m+" is not modelled")
			}
			continue
		}
		// `return func(...) { body }` as the last statement (iter.Seq style): the
		// closure body is the body that runs; its statements are top-level.
		if r, ok := s.(*ast.ReturnStmt); ok && i == len(list)-1 && len(r.Results) == 1 {
			if fl, ok := r.Results[0].(*ast.FuncLit); ok {
				w.addFuncParams(fl.Type)
				w.top(fl.Body.List)
				continue
			}
		}
		w.stmt(s)
	}
}

func (w *walker) stmts(list []ast.Stmt) {
	for _, s := range list {
		w.stmt(s)
	}
}

// stmt walks a statement that is NOT a top-level mutex call, in evaluation order.
func (w *walker) stmt(s ast.Stmt) {
	switch s := s.(type) {
	case nil:
	case *ast.ExprStmt:
		w.expr(s.X)
	case *ast.AssignStmt:
		for _, r := range s.Rhs {
			w.expr(r)
		}
		for _, l := range s.Lhs {
			l = unparen(l)
			if ix, ok := l.(*ast.IndexExpr); ok && w.isData(ix.X) {
				w.expr(ix.Index)
				if s.Tok != token.ASSIGN && s.Tok != token.DEFINE {
					w.emit("read", l, "") // op-assignment reads first
				}
				w.emit("write", l, "")
				continue
			}
			if w.isData(l) {
				w.emit("replace", l, "")
				continue
			}
			w.expr(l)
		}
	case *ast.IncDecStmt:
		x := unparen(s.X)
		if ix, ok := x.(*ast.IndexExpr); ok && w.isData(ix.X) {
			w.expr(ix.Index)
			w.emit("read", x, "")
			w.emit("write", x, "")
			return
		}
		w.expr(s.X)
	case *ast.DeclStmt:
		if gd, ok := s.Decl.(*ast.GenDecl); ok {
			for _, sp := range gd.Specs {
				if vs, ok := sp.(*ast.ValueSpec); ok {
					for _, v := range vs.Values {
						w.expr(v)
					}
				}
			}
		}
	case *ast.BlockStmt:
		w.stmts(s.List)
	case *ast.IfStmt:
		w.stmt(s.Init)
		w.expr(s.Cond)
		w.stmt(s.Body)
		w.stmt(s.Else)
	case *ast.ForStmt:
		w.stmt(s.Init)
		if s.Cond != nil {
			w.expr(s.Cond)
		}
		w.stmt(s.Body)
		w.stmt(s.Post)
	case *ast.RangeStmt:
		if w.isData(s.X) {
			w.emit("read", s.X, "")
		} else {
			w.expr(s.X)
		}
		if s.Key != nil {
			w.lhsPlain(s.Key)
		}
		if s.Value != nil {
			w.lhsPlain(s.Value)
		}
		w.stmt(s.Body)
	case *ast.SwitchStmt:
		w.stmt(s.Init)
		if s.Tag != nil {
			w.expr(s.Tag)
		}
		w.stmt(s.Body)
	case *ast.CaseClause:
		for _, e := range s.List {
			w.expr(e)
		}
		w.stmts(s.Body)
	case *ast.ReturnStmt:
		for _, r := range s.Results {
			w.expr(r)
		}
	case *ast.BranchStmt, *ast.EmptyStmt:
	case *ast.LabeledStmt:
		w.stmt(s.Stmt)
	case *ast.DeferStmt:
		if w.mentionsRecv(s) {
			w.bad(s, "deferred statement touches the receiver")
		}
	case *ast.GoStmt:
		if w.mentionsRecv(s) {
			w.bad(s, "go statement touches the receiver")
		}
	default:
		// select, type switch, send … : not used by SafeKV; refuse if the receiver is involved
		if w.mentionsRecv(s) {
			w.bad(s, fmt.Sprintf("unmodelled statement %T touches the receiver", s))
		}
	}
}

// lhsPlain: a range key/value target; must not be the guarded state.
func (w *walker) lhsPlain(e ast.Expr) {
	if w.mentionsRecv(e) {
		w.bad(e, "range assigns into the receiver")
	}
}

func (w *walker) mentionsRecv(n ast.Node) bool {
	found := false
	ast.Inspect(n, func(x ast.Node) bool {
		if id, ok := x.(*ast.Ident); ok && id.Name == w.recv && w.recv != "" {
			found = true
		}
		return !found
	})
	return found
}

var kvReadMethods = map[string]bool{"Get": true, "Has": true, "Contains": true, "Len": true, "Keys": true, "Values": true}
var kvWriteMethods = map[string]bool{"Set": true, "SetNx": true, "SetX": true, "Delete": true}

// expr walks an expression in evaluation order.
func (w *walker) expr(e ast.Expr) {
	switch e := e.(type) {
	case nil:
	case *ast.ParenExpr:
		w.expr(e.X)
	case *ast.Ident:
		if e.Name == w.recv && w.recv != "" {
			w.bad(e, "receiver used as a value (escapes)")
		}
	case *ast.BasicLit:
	case *ast.SelectorExpr:
		if w.isData(e) {
			w.bad(e, "guarded field used as a value (alias)")
			return
		}
		if w.isMu(e) {
			w.bad(e, "mutex used as a value")
			return
		}
		w.expr(e.X)
	case *ast.IndexExpr:
		if w.isData(e.X) {
			w.expr(e.Index)
			w.emit("read", e, "")
			return
		}
		w.expr(e.X)
		w.expr(e.Index)
	case *ast.IndexListExpr:
		w.expr(e.X)
	case *ast.SliceExpr:
		w.expr(e.X)
		w.expr(e.Low)
		w.expr(e.High)
		w.expr(e.Max)
	case *ast.StarExpr:
		w.expr(e.X)
	case *ast.UnaryExpr:
		w.expr(e.X)
	case *ast.BinaryExpr:
		w.expr(e.X)
		w.expr(e.Y)
	case *ast.KeyValueExpr:
		w.expr(e.Key)
		w.expr(e.Value)
	case *ast.CompositeLit:
		for _, x := range e.Elts {
			w.expr(x)
		}
	case *ast.TypeAssertExpr:
		w.expr(e.X)
	case *ast.FuncLit:
		if w.mentionsRecv(e) {
			w.bad(e, "closure captures the receiver")
		}
	case *ast.CallExpr:
		w.call(e)
	case *ast.ArrayType, *ast.MapType, *ast.FuncType, *ast.ChanType, *ast.StructType, *ast.InterfaceType, *ast.Ellipsis:
		// type expressions (make([]K, …), conversions)
	default:
		if w.mentionsRecv(e) {
			w.bad(e, fmt.Sprintf("unmodelled expression %T touches the receiver", e))
		}
	}
}

func (w *walker) call(c *ast.CallExpr) {
	fun := unparen(c.Fun)
	// a call on the mutex that is not a top-level statement
	if sel, ok := fun.(*ast.SelectorExpr); ok && w.isMu(sel.X) {
		w.bad(c, "call "+sel.Sel.Name+" on the mutex is not a top-level statement of the body")
		return
	}
	// method of the map type called on the guarded field: s.entries.Get(k)
	if sel, ok := fun.(*ast.SelectorExpr); ok && w.isData(sel.X) {
		for _, a := range c.Args {
			w.expr(a)
		}
		switch {
		case kvReadMethods[sel.Sel.Name]:
			w.emit("read", c, "")
		case kvWriteMethods[sel.Sel.Name]:
			w.emit("write", c, "")
		default:
			w.bad(c, "method "+sel.Sel.Name+" on the guarded field is not classified")
		}
		return
	}
	// another method of the receiver
	if sel, ok := fun.(*ast.SelectorExpr); ok {
		if id, ok := unparen(sel.X).(*ast.Ident); ok && id.Name == w.recv && w.recv != "" {
			w.bad(c, "calls "+sel.Sel.Name+" on the receiver (nested locking is not modelled)")
			return
		}
	}
	if id, ok := fun.(*ast.Ident); ok {
		switch id.Name {
		case "len":
			if len(c.Args) == 1 && w.isData(c.Args[0]) {
				w.emit("read", c, "")
				return
			}
		case "delete", "clear":
			if len(c.Args) >= 1 && w.isData(c.Args[0]) {
				for _, a := range c.Args[1:] {
					w.expr(a)
				}
				w.emit("write", c, "")
				return
			}
		case "make", "append", "cap", "new", "copy", "min", "max", "panic", "print", "println":
			for _, a := range c.Args {
				w.expr(a)
			}
			return
		}
		if w.fns[id.Name] {
			// user callback: arguments first; the map passed along = read of the header + callFnMap
			withMap := false
			for _, a := range c.Args {
				if w.isData(a) {
					w.emit("read", a, "")
					withMap = true
				} else {
					w.expr(a)
				}
			}
			if withMap {
				w.emit("callFnMap", c, "")
			} else {
				w.emit("callFn", c, "")
			}
			return
		}
	}
	// any other function: the guarded field must not be handed to it
	w.expr(c.Fun)
	for _, a := range c.Args {
		if w.isData(a) {
			w.bad(a, "guarded field passed to a function that is not a user callback parameter (alias)")
		} else {
			w.expr(a)
		}
	}
}

func recvTypeName(e ast.Expr) (name string, ptr bool) {
	if s, ok := e.(*ast.StarExpr); ok {
		ptr = true
		e = s.X
	}
	switch t := e.(type) {
	case *ast.Ident:
		return t.Name, ptr
	case *ast.IndexExpr:
		if id, ok := t.X.(*ast.Ident); ok {
			return id.Name, ptr
		}
	case *ast.IndexListExpr:
		if id, ok := t.X.(*ast.Ident); ok {
			return id.Name, ptr
		}
	}
	return "", ptr
}

func extract(repo string) ([]method, error) {
	dir := filepath.Join(repo, "mapz")
	ents, err := os.ReadDir(dir)
	if err != nil {
		return nil, err
	}
	var names []string
	for _, e := range ents {
		n := e.Name()
		if strings.HasSuffix(n, ".go") && !strings.HasSuffix(n, "_test.go") {
			names = append(names, n)
		}
	}
	// safekv.go first (source order of the anchored file), then the others by name
	sort.Slice(names, func(i, j int) bool {
		a, b := names[i], names[j]
		if (a == "safekv.go") != (b == "safekv.go") {
			return a == "safekv.go"
		}
		return a < b
	})
	fset := token.NewFileSet()
	var files []*ast.File
	for _, n := range names {
		f, err := parser.ParseFile(fset, filepath.Join(dir, n), nil, parser.SkipObjectResolution)
		if err != nil {
			return nil, err
		}
		files = append(files, f)
	}
	// the struct: exactly one sync.RWMutex field; every other field is guarded state
	mu := ""
	data := map[string]bool{}
	found := false
	for _, f := range files {
		for _, d := range f.Decls {
			gd, ok := d.(*ast.GenDecl)
			if !ok {
				continue
			}
			for _, sp := range gd.Specs {
				ts, ok := sp.(*ast.TypeSpec)
				if !ok || ts.Name.Name != "SafeKV" {
					continue
				}
				st, ok := ts.Type.(*ast.StructType)
				if !ok {
					return nil, fmt.Errorf("SafeKV is not a struct")
				}
				found = true
				for _, fl := range st.Fields.List {
					isMu := false
					if sel, ok := fl.Type.(*ast.SelectorExpr); ok {
						if id, ok := sel.X.(*ast.Ident); ok && id.Name == "sync" && sel.Sel.Name == "RWMutex" {
							isMu = true
						}
					}
					if len(fl.Names) == 0 {
						return nil, fmt.Errorf("SafeKV has an embedded field (its methods are promoted): not modelled")
					}
					for _, n := range fl.Names {
						if isMu {
							if mu != "" {
								return nil, fmt.Errorf("SafeKV has more than one RWMutex")
							}
							mu = n.Name
						} else {
							data[n.Name] = true
						}
					}
				}
			}
		}
	}
	if !found {
		return nil, fmt.Errorf("type SafeKV not found in %s", dir)
	}
	if mu == "" {
		return nil, fmt.Errorf("SafeKV has no sync.RWMutex field")
	}
	var ms []method
	for _, f := range files {
		for _, d := range f.Decls {
			fd, ok := d.(*ast.FuncDecl)
			if !ok || fd.Recv == nil || len(fd.Recv.List) != 1 {
				continue
			}
			tn, ptr := recvTypeName(fd.Recv.List[0].Type)
			if tn != "SafeKV" {
				continue
			}
			pos := fset.Position(fd.Pos())
			m := method{name: fd.Name.Name, file: filepath.Base(pos.Filename), line: pos.Line}
			w := &walker{fset: fset, mu: mu, data: data, fns: map[string]bool{}}
			if len(fd.Recv.List[0].Names) == 1 {
				w.recv = fd.Recv.List[0].Names[0].Name
			}
			if !ptr {
				w.bad(fd, "value receiver copies the mutex")
			}
			w.addFuncParams(fd.Type)
			if fd.Body != nil {
				w.top(fd.Body.List)
			}
			m.events = w.events
			ms = append(ms, m)
		}
	}
	if len(ms) == 0 {
		return nil, fmt.Errorf("no SafeKV method found")
	}
	return ms, nil
}

// Facts renders lean/Golib/Gen/FactsC12.lean.
func Facts(repo string) (string, error) {
	ms, err := extract(repo)
	if err != nil {
		return "", err
	}
	var b strings.Builder
	b.WriteString("-- REGENERATED on every run by the C12 extractor (go/props/c12/facts.go) from mapz/*.go\n")
	b.WriteString("-- of the tree under verification; do not edit.  One entry per SafeKV method: the\n")
	b.WriteString("-- source-order events (see Golib/Model/C12Ev.lean).\n")
	b.WriteString("import Golib.Model.C12Ev\n\nnamespace Golib.Gen.C12\nopen Golib.C12\n\n")
	b.WriteString("def extractorOK : Bool := true\n\n")
	b.WriteString("def methods : List (String × List Ev) := [\n")
	for i, m := range ms {
		var evs []string
		for _, e := range m.events {
			evs = append(evs, "."+e.kind)
		}
		sep := ","
		if i == len(ms)-1 {
			sep = ""
		}
		fmt.Fprintf(&b, "  (%q, [%s])%s  -- %s:%d\n", m.name, strings.Join(evs, ", "), sep, m.file, m.line)
		for _, e := range m.events {
			if e.kind == "bad" {
				fmt.Fprintf(&b, "  --   bad at %s:%d: %s\n", filepath.Base(e.pos.Filename), e.pos.Line, e.note)
			}
		}
	}
	b.WriteString("]\n\nend Golib.Gen.C12\n")
	return b.String(), nil
}
