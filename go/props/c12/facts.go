package c12

// The C12 facts extractor: for every method of mapz.SafeKV (all non-test files of
// <repo>/mapz, so `All` in iter.go is included) it emits the source-order list of
// events over
//   rlock runlock lock unlock | read write replace | callFn callFnMap | bad
// into lean/Golib/Gen/FactsC12.lean.  The Lean side proves, generically, that bodies
// satisfying `bodyOK` are race free and atomic, and checks `bodyOK` on THESE lists by
// `decide` on every run.
//
// The extractor only ever adds obligations: whatever it cannot classify becomes the
// event `bad`, which no well-locked body contains. In particular
//   * a call on the mutex that is not a top-level statement of the body (inside a
//     branch, loop, closure, expression), a deferred or `go` statement touching the
//     receiver, TryLock & co;
//   * the guarded field or the mutex escaping into a variable, an unknown function,
//     a closure (alias), `&s.entries`, `*s`, passing `s` along, calling another method
//     of the receiver;
//   * a value receiver (copies the mutex).
// Statements inside loops/branches are listed once, in evaluation order, between the
// surrounding lock events.

import (
	"fmt"
	"go/ast"
	"go/parser"
	"go/token"
	"os"
	"path/filepath"
	"sort"
	"strings"
)

type event struct {
	kind string // lean constructor name
	note string // for `bad`: why
	pos  token.Position
}

type method struct {
	name   string
	file   string
	line   int
	events []event
	// deferred: some release of the body is a top-level `defer s.mu.Unlock()/RUnlock()`
	// (it also runs when a user callback panics); false = every release is an ordinary
	// statement, skipped by a panic that unwinds through the body
	deferred bool
}

type walker struct {
	fset   *token.FileSet
	recv   string          // receiver identifier
	mu     string          // mutex field
	data   map[string]bool // guarded fields (every field that is not the mutex)
	fns    map[string]bool // identifiers of function-typed parameters (user callbacks)
	events []event
	// kv: access class of every method of the guarded field's named type (derived
	// from its body in kv.go, see classifyFieldType): "read", "write", "bad";
	// kvFn: the method invokes a function-typed parameter.
	kv   map[string]string
	kvFn map[string]bool
	// lock bookkeeping for exits: number of top-level acquires not yet released by
	// a top-level release, pending deferred releases of the current body, and
	// whether the statement being walked is the final top-level statement.
	held     int
	deferred []string
	final    bool
	// helpers: unexported SafeKV methods whose every use in the package is a call on the
	// receiver from inside a SafeKV method; a call of one is walked in place (inlined).
	helpers   map[string]*ast.FuncDecl
	usedDefer bool     // a deferred release was seen
	inlining  []string // helpers being inlined (cycle guard; a `return` in them leaves the helper only)
}

func (w *walker) emit(kind string, n ast.Node, note string) {
	w.events = append(w.events, event{kind: kind, note: note, pos: w.fset.Position(n.Pos())})
}

func (w *walker) bad(n ast.Node, why string) { w.emit("bad", n, why) }

// isRecvField reports whether e is `recv.<field>` and returns the field name.
func (w *walker) isRecvField(e ast.Expr) (string, bool) {
	e = unparen(e)
	s, ok := e.(*ast.SelectorExpr)
	if !ok {
		return "", false
	}
	id, ok := unparen(s.X).(*ast.Ident)
	if !ok || id.Name != w.recv || w.recv == "" {
		return "", false
	}
	return s.Sel.Name, true
}

func (w *walker) isData(e ast.Expr) bool {
	f, ok := w.isRecvField(e)
	return ok && w.data[f]
}

func (w *walker) isMu(e ast.Expr) bool {
	f, ok := w.isRecvField(e)
	return ok && f == w.mu
}

func unparen(e ast.Expr) ast.Expr {
	for {
		p, ok := e.(*ast.ParenExpr)
		if !ok {
			return e
		}
		e = p.X
	}
}

// muCall recognises the statement `recv.mu.<M>()`.
func (w *walker) muCall(s ast.Stmt) (string, bool) {
	es, ok := s.(*ast.ExprStmt)
	if !ok {
		return "", false
	}
	c, ok := es.X.(*ast.CallExpr)
	if !ok {
		return "", false
	}
	sel, ok := c.Fun.(*ast.SelectorExpr)
	if !ok || !w.isMu(sel.X) {
		return "", false
	}
	return sel.Sel.Name, true
}

func (w *walker) addFuncParams(ft *ast.FuncType) {
	if ft == nil || ft.Params == nil {
		return
	}
	for _, f := range ft.Params.List {
		if _, ok := f.Type.(*ast.FuncType); ok {
			for _, n := range f.Names {
				w.fns[n.Name] = true
			}
		}
	}
}

// top walks the top-level statements of a body.
func (w *walker) top(list []ast.Stmt) {
	// the deferred releases of THIS body (a returned closure is a body of its own)
	outer := w.deferred
	w.deferred = nil
	defer func() {
		// `defer s.mu.Unlock()` as a top-level statement: the release happens when the
		// body is left, after everything else (LIFO among themselves)
		for i := len(w.deferred) - 1; i >= 0; i-- {
			w.events = append(w.events, event{kind: w.deferred[i]})
			w.held--
		}
		w.deferred = outer
	}()
	for i, s := range list {
		w.final = i == len(list)-1
		if d, ok := s.(*ast.DeferStmt); ok {
			if m, ok := w.muCall(&ast.ExprStmt{X: d.Call}); ok && len(d.Call.Args) == 0 && (m == "Unlock" || m == "RUnlock") {
				if m == "Unlock" {
					w.deferred = append(w.deferred, "unlock")
					w.usedDefer = true
				} else {
					w.deferred = append(w.deferred, "runlock")
					w.usedDefer = true
				}
				continue
			}
		}
		if m, ok := w.muCall(s); ok {
			c := s.(*ast.ExprStmt).X.(*ast.CallExpr)
			if len(c.Args) != 0 {
				w.bad(s, "mutex call with arguments")
				continue
			}
			switch m {
			case "RLock":
				w.emit("rlock", s, "")
				w.held++
			case "RUnlock":
				w.emit("runlock", s, "")
				w.held--
			case "Lock":
				w.emit("lock", s, "")
				w.held++
			case "Unlock":
				w.emit("unlock", s, "")
				w.held--
			default:
				w.bad(s, "mutex method "+m+" is not modelled")
			}
			continue
		}
		// `return func(...) { body }` as the last statement (iter.Seq style): the
		// closure body is the body that runs; its statements are top-level.
		if r, ok := s.(*ast.ReturnStmt); ok && i == len(list)-1 && len(r.Results) == 1 {
			if fl, ok := r.Results[0].(*ast.FuncLit); ok {
				w.addFuncParams(fl.Type)
				w.top(fl.Body.List)
				continue
			}
		}
		w.stmt(s)
	}
}

func (w *walker) stmts(list []ast.Stmt) {
	for _, s := range list {
		w.stmt(s)
	}
}

// stmt walks a statement that is NOT a top-level mutex call, in evaluation order.
func (w *walker) stmt(s ast.Stmt) {
	// only the final top-level statement itself is "final", not what it contains
	final := w.final
	if _, isRet := s.(*ast.ReturnStmt); !isRet {
		w.final = false
	}
	switch s := s.(type) {
	case nil:
	case *ast.ExprStmt:
		w.expr(s.X)
	case *ast.AssignStmt:
		for _, r := range s.Rhs {
			w.expr(r)
		}
		for _, l := range s.Lhs {
			l = unparen(l)
			if ix, ok := l.(*ast.IndexExpr); ok && w.isData(ix.X) {
				w.expr(ix.Index)
				if s.Tok != token.ASSIGN && s.Tok != token.DEFINE {
					w.emit("read", l, "") // op-assignment reads first
				}
				w.emit("write", l, "")
				continue
			}
			if w.isData(l) {
				w.emit("replace", l, "")
				continue
			}
			w.expr(l)
		}
	case *ast.IncDecStmt:
		x := unparen(s.X)
		if ix, ok := x.(*ast.IndexExpr); ok && w.isData(ix.X) {
			w.expr(ix.Index)
			w.emit("read", x, "")
			w.emit("write", x, "")
			return
		}
		w.expr(s.X)
	case *ast.DeclStmt:
		if gd, ok := s.Decl.(*ast.GenDecl); ok {
			for _, sp := range gd.Specs {
				if vs, ok := sp.(*ast.ValueSpec); ok {
					for _, v := range vs.Values {
						w.expr(v)
					}
				}
			}
		}
	case *ast.BlockStmt:
		w.stmts(s.List)
	case *ast.IfStmt:
		w.stmt(s.Init)
		w.expr(s.Cond)
		w.stmt(s.Body)
		w.stmt(s.Else)
	case *ast.ForStmt:
		w.stmt(s.Init)
		if s.Cond != nil {
			w.expr(s.Cond)
		}
		w.stmt(s.Body)
		w.stmt(s.Post)
	case *ast.RangeStmt:
		if w.isData(s.X) {
			w.emit("read", s.X, "")
		} else {
			w.expr(s.X)
		}
		if s.Key != nil {
			w.lhsPlain(s.Key)
		}
		if s.Value != nil {
			w.lhsPlain(s.Value)
		}
		w.stmt(s.Body)
	case *ast.SwitchStmt:
		w.stmt(s.Init)
		if s.Tag != nil {
			w.expr(s.Tag)
		}
		w.stmt(s.Body)
	case *ast.CaseClause:
		for _, e := range s.List {
			w.expr(e)
		}
		w.stmts(s.Body)
	case *ast.ReturnStmt:
		for _, r := range s.Results {
			w.expr(r)
		}
		if !final {
			w.exit(s, "return")
		}
	case *ast.BranchStmt:
		if s.Tok == token.GOTO {
			w.bad(s, "goto (may jump over a release)")
		}
	case *ast.EmptyStmt:
	case *ast.LabeledStmt:
		w.stmt(s.Stmt)
	case *ast.DeferStmt:
		if w.mentionsRecv(s) {
			w.bad(s, "deferred statement touches the receiver")
		}
	case *ast.GoStmt:
		if w.mentionsRecv(s) {
			w.bad(s, "go statement touches the receiver")
		}
	default:
		// select, type switch, send … : not used by SafeKV; refuse if the receiver is involved
		if w.mentionsRecv(s) {
			w.bad(s, fmt.Sprintf("unmodelled statement %T touches the receiver", s))
		}
	}
}

// exit: the body is left here (early return, explicit panic). With the lock held and
// no deferred release pending, the lock would stay held for ever.
func (w *walker) exit(n ast.Node, what string) {
	if what == "return" && len(w.inlining) > 0 {
		return // returns to the calling method, the body is not left
	}
	if w.held > len(w.deferred) {
		w.bad(n, what+" while the lock is held and no deferred release is pending (lock leaked)")
	}
}

// lhsPlain: a range key/value target; must not be the guarded state.
func (w *walker) lhsPlain(e ast.Expr) {
	if w.mentionsRecv(e) {
		w.bad(e, "range assigns into the receiver")
	}
}

func (w *walker) mentionsRecv(n ast.Node) bool {
	found := false
	ast.Inspect(n, func(x ast.Node) bool {
		if id, ok := x.(*ast.Ident); ok && id.Name == w.recv && w.recv != "" {
			found = true
		}
		return !found
	})
	return found
}

// expr walks an expression in evaluation order.
func (w *walker) expr(e ast.Expr) {
	switch e := e.(type) {
	case nil:
	case *ast.ParenExpr:
		w.expr(e.X)
	case *ast.Ident:
		if e.Name == w.recv && w.recv != "" {
			w.bad(e, "receiver used as a value (escapes)")
		}
	case *ast.BasicLit:
	case *ast.SelectorExpr:
		if w.isData(e) {
			w.bad(e, "guarded field used as a value (alias)")
			return
		}
		if w.isMu(e) {
			w.bad(e, "mutex used as a value")
			return
		}
		if w.data[e.Sel.Name] || e.Sel.Name == w.mu {
			w.bad(e, "field "+e.Sel.Name+" of a value other than the receiver (its lock is not the one held)")
			return
		}
		w.expr(e.X)
	case *ast.IndexExpr:
		if w.isData(e.X) {
			w.expr(e.Index)
			w.emit("read", e, "")
			return
		}
		w.expr(e.X)
		w.expr(e.Index)
	case *ast.IndexListExpr:
		w.expr(e.X)
	case *ast.SliceExpr:
		w.expr(e.X)
		w.expr(e.Low)
		w.expr(e.High)
		w.expr(e.Max)
	case *ast.StarExpr:
		w.expr(e.X)
	case *ast.UnaryExpr:
		w.expr(e.X)
	case *ast.BinaryExpr:
		w.expr(e.X)
		w.expr(e.Y)
	case *ast.KeyValueExpr:
		w.expr(e.Key)
		w.expr(e.Value)
	case *ast.CompositeLit:
		for _, x := range e.Elts {
			w.expr(x)
		}
	case *ast.TypeAssertExpr:
		w.expr(e.X)
	case *ast.FuncLit:
		if w.mentionsRecv(e) {
			w.bad(e, "closure captures the receiver")
		}
	case *ast.CallExpr:
		w.call(e)
	case *ast.ArrayType, *ast.MapType, *ast.FuncType, *ast.ChanType, *ast.StructType, *ast.InterfaceType, *ast.Ellipsis:
		// type expressions (make([]K, …), conversions)
	default:
		if w.mentionsRecv(e) {
			w.bad(e, fmt.Sprintf("unmodelled expression %T touches the receiver", e))
		}
	}
}

func (w *walker) call(c *ast.CallExpr) {
	fun := unparen(c.Fun)
	// a call on the mutex that is not a top-level statement
	if sel, ok := fun.(*ast.SelectorExpr); ok && w.isMu(sel.X) {
		w.bad(c, "call "+sel.Sel.Name+" on the mutex is not a top-level statement of the body")
		return
	}
	// method of the map type called on the guarded field: s.entries.Get(k)
	if sel, ok := fun.(*ast.SelectorExpr); ok && w.isData(sel.X) {
		for _, a := range c.Args {
			w.expr(a)
		}
		switch w.kv[sel.Sel.Name] {
		case "read":
			w.emit("read", c, "")
		case "write":
			w.emit("write", c, "")
		default:
			w.bad(c, "method "+sel.Sel.Name+" on the guarded field is not classified (not a method of its type, or its body does more than index/len/range/delete on the map)")
			return
		}
		if w.kvFn[sel.Sel.Name] {
			w.emit("callFn", c, "")
		}
		return
	}
	// another method of the receiver
	if sel, ok := fun.(*ast.SelectorExpr); ok {
		if id, ok := unparen(sel.X).(*ast.Ident); ok && id.Name == w.recv && w.recv != "" {
			if h := w.helpers[sel.Sel.Name]; h != nil && h.Body != nil && len(w.inlining) < 8 && !contains(w.inlining, sel.Sel.Name) {
				// unexported helper: arguments first, then its body in place, as nested
				// statements (a mutex call inside the helper is therefore refused)
				for _, a := range c.Args {
					w.expr(a)
				}
				savedRecv, savedFns, savedFinal := w.recv, w.fns, w.final
				w.recv = ""
				if len(h.Recv.List[0].Names) == 1 {
					w.recv = h.Recv.List[0].Names[0].Name
				}
				w.fns = map[string]bool{}
				w.addFuncParams(h.Type)
				w.inlining = append(w.inlining, sel.Sel.Name)
				w.final = false
				w.stmts(h.Body.List)
				w.inlining = w.inlining[:len(w.inlining)-1]
				w.recv, w.fns, w.final = savedRecv, savedFns, savedFinal
				return
			}
			w.bad(c, "calls "+sel.Sel.Name+" on the receiver (nested locking is not modelled)")
			return
		}
	}
	if id, ok := fun.(*ast.Ident); ok {
		switch id.Name {
		case "len":
			if len(c.Args) == 1 && w.isData(c.Args[0]) {
				w.emit("read", c, "")
				return
			}
		case "delete", "clear":
			if len(c.Args) >= 1 && w.isData(c.Args[0]) {
				for _, a := range c.Args[1:] {
					w.expr(a)
				}
				w.emit("write", c, "")
				return
			}
		case "make", "append", "cap", "new", "copy", "min", "max", "panic", "print", "println":
			for _, a := range c.Args {
				w.expr(a)
			}
			if id.Name == "panic" {
				w.exit(c, "panic")
			}
			return
		}
		if w.fns[id.Name] {
			// user callback: arguments first; the map passed along = read of the header + callFnMap
			withMap := false
			for _, a := range c.Args {
				if w.isData(a) {
					w.emit("read", a, "")
					withMap = true
				} else {
					w.expr(a)
				}
			}
			if withMap {
				w.emit("callFnMap", c, "")
			} else {
				w.emit("callFn", c, "")
			}
			return
		}
	}
	// any other function: the guarded field must not be handed to it
	w.expr(c.Fun)
	for _, a := range c.Args {
		if w.isData(a) {
			w.bad(a, "guarded field passed to a function that is not a user callback parameter (alias)")
		} else {
			w.expr(a)
		}
	}
}

func contains(xs []string, x string) bool {
	for _, y := range xs {
		if y == x {
			return true
		}
	}
	return false
}

// findHelpers: unexported pointer-receiver methods of SafeKV all of whose uses in the
// package are calls `recv.name(…)` on the receiver inside a SafeKV method body.
func findHelpers(files []*ast.File) map[string]*ast.FuncDecl {
	cands := map[string]*ast.FuncDecl{}
	isSafeKVMethod := func(fd *ast.FuncDecl) (string, bool) {
		if fd.Recv == nil || len(fd.Recv.List) != 1 {
			return "", false
		}
		tn, ptr := recvTypeName(fd.Recv.List[0].Type)
		if tn != "SafeKV" || !ptr || len(fd.Recv.List[0].Names) != 1 {
			return "", false
		}
		return fd.Recv.List[0].Names[0].Name, true
	}
	for _, f := range files {
		for _, d := range f.Decls {
			if fd, ok := d.(*ast.FuncDecl); ok {
				if _, ok := isSafeKVMethod(fd); ok && !ast.IsExported(fd.Name.Name) {
					cands[fd.Name.Name] = fd
				}
			}
		}
	}
	for _, f := range files {
		for _, d := range f.Decls {
			fd, ok := d.(*ast.FuncDecl)
			if !ok || fd.Body == nil {
				continue
			}
			recv, inMethod := isSafeKVMethod(fd)
			okCalls := map[*ast.SelectorExpr]bool{}
			ast.Inspect(fd.Body, func(x ast.Node) bool {
				if c, ok := x.(*ast.CallExpr); ok && inMethod {
					if se, ok := unparen(c.Fun).(*ast.SelectorExpr); ok {
						if id, ok := unparen(se.X).(*ast.Ident); ok && id.Name == recv {
							okCalls[se] = true
						}
					}
				}
				return true
			})
			ast.Inspect(fd.Body, func(x ast.Node) bool {
				if se, ok := x.(*ast.SelectorExpr); ok && cands[se.Sel.Name] != nil && !okCalls[se] {
					delete(cands, se.Sel.Name) // used some other way: stays a method of its own
				}
				return true
			})
		}
	}
	return cands
}

func recvTypeName(e ast.Expr) (name string, ptr bool) {
	if s, ok := e.(*ast.StarExpr); ok {
		ptr = true
		e = s.X
	}
	switch t := e.(type) {
	case *ast.Ident:
		return t.Name, ptr
	case *ast.IndexExpr:
		if id, ok := t.X.(*ast.Ident); ok {
			return id.Name, ptr
		}
	case *ast.IndexListExpr:
		if id, ok := t.X.(*ast.Ident); ok {
			return id.Name, ptr
		}
	}
	return "", ptr
}

func extract(repo string) ([]method, error) {
	dir := filepath.Join(repo, "mapz")
	ents, err := os.ReadDir(dir)
	if err != nil {
		return nil, err
	}
	var names []string
	for _, e := range ents {
		n := e.Name()
		if strings.HasSuffix(n, ".go") && !strings.HasSuffix(n, "_test.go") {
			names = append(names, n)
		}
	}
	// safekv.go first (source order of the anchored file), then the others by name
	sort.Slice(names, func(i, j int) bool {
		a, b := names[i], names[j]
		if (a == "safekv.go") != (b == "safekv.go") {
			return a == "safekv.go"
		}
		return a < b
	})
	fset := token.NewFileSet()
	var files []*ast.File
	for _, n := range names {
		f, err := parser.ParseFile(fset, filepath.Join(dir, n), nil, parser.SkipObjectResolution)
		if err != nil {
			return nil, err
		}
		files = append(files, f)
	}
	// the struct: exactly one sync.RWMutex field; every other field is guarded state
	mu := ""
	data := map[string]bool{}
	dataType := "" // named type of the guarded field (KV), "" if not a named type of this package
	found := false
	for _, f := range files {
		for _, d := range f.Decls {
			gd, ok := d.(*ast.GenDecl)
			if !ok {
				continue
			}
			for _, sp := range gd.Specs {
				ts, ok := sp.(*ast.TypeSpec)
				if !ok || ts.Name.Name != "SafeKV" {
					continue
				}
				st, ok := ts.Type.(*ast.StructType)
				if !ok {
					return nil, fmt.Errorf("SafeKV is not a struct")
				}
				found = true
				for _, fl := range st.Fields.List {
					isMu := false
					if sel, ok := fl.Type.(*ast.SelectorExpr); ok {
						if id, ok := sel.X.(*ast.Ident); ok && id.Name == "sync" && sel.Sel.Name == "RWMutex" {
							isMu = true
						}
					}
					if len(fl.Names) == 0 {
						return nil, fmt.Errorf("SafeKV has an embedded field (its methods are promoted): not modelled")
					}
					for _, n := range fl.Names {
						if isMu {
							if mu != "" {
								return nil, fmt.Errorf("SafeKV has more than one RWMutex")
							}
							mu = n.Name
						} else {
							data[n.Name] = true
							if tn, _ := recvTypeName(fl.Type); tn != "" {
								dataType = tn
							}
						}
					}
				}
			}
		}
	}
	if !found {
		return nil, fmt.Errorf("type SafeKV not found in %s", dir)
	}
	if mu == "" {
		return nil, fmt.Errorf("SafeKV has no sync.RWMutex field")
	}
	kv, kvFn := classifyFieldType(files, dataType)
	helpers := findHelpers(files)
	var ms []method
	for _, f := range files {
		for _, d := range f.Decls {
			fd, ok := d.(*ast.FuncDecl)
			if !ok {
				continue
			}
			tn, ptr := "", false
			if fd.Recv != nil && len(fd.Recv.List) == 1 {
				tn, ptr = recvTypeName(fd.Recv.List[0].Type)
			}
			if tn != "SafeKV" {
				// a function (or a method of another type) that reaches into the guarded
				// field or the mutex of some SafeKV value: outside every method body, so
				// no lock discipline can be established for it
				if fd.Body != nil {
					var hit *ast.SelectorExpr
					ast.Inspect(fd.Body, func(x ast.Node) bool {
						if se, ok := x.(*ast.SelectorExpr); ok && hit == nil && (data[se.Sel.Name] || se.Sel.Name == mu) {
							hit = se
						}
						return hit == nil
					})
					if hit != nil {
						pos := fset.Position(fd.Pos())
						ms = append(ms, method{name: "func " + fd.Name.Name, file: filepath.Base(pos.Filename), line: pos.Line,
							events: []event{{kind: "bad", note: "a function that is not a SafeKV method uses the field " + hit.Sel.Name, pos: fset.Position(hit.Pos())}}})
					}
				}
				continue
			}
			pos := fset.Position(fd.Pos())
			m := method{name: fd.Name.Name, file: filepath.Base(pos.Filename), line: pos.Line}
			if helpers[fd.Name.Name] != nil {
				continue // only reachable through its callers, where it is walked in place
			}
			w := &walker{fset: fset, mu: mu, data: data, fns: map[string]bool{}, kv: kv, kvFn: kvFn, helpers: helpers}
			if len(fd.Recv.List[0].Names) == 1 {
				w.recv = fd.Recv.List[0].Names[0].Name
			}
			if !ptr {
				w.bad(fd, "value receiver copies the mutex")
			}
			w.addFuncParams(fd.Type)
			if fd.Body != nil {
				w.top(fd.Body.List)
			}
			m.events = w.events
			m.deferred = w.usedDefer
			ms = append(ms, m)
		}
	}
	if len(ms) == 0 {
		return nil, fmt.Errorf("no SafeKV method found")
	}
	return ms, nil
}

// classifyFieldType derives, from the bodies in kv.go, how each method of the guarded
// field's named type (KV, a map type with value-receiver methods) accesses the map:
//
//	"read"   only m[k] (as a value), len(m), range m
//	"write"  also m[k] = …, m[k]++, delete(m, …), clear(m)
//	"bad"    the map is used in any other way (passed on, returned, re-assigned, captured
//	         by a closure, a call of another method on it)
//
// and whether the method invokes one of its function-typed parameters (then the
// delegating SafeKV method contains a user callback: event callFn).
func classifyFieldType(files []*ast.File, typeName string) (map[string]string, map[string]bool) {
	class := map[string]string{}
	callsFn := map[string]bool{}
	if typeName == "" {
		return class, callsFn
	}
	for _, f := range files {
		for _, d := range f.Decls {
			fd, ok := d.(*ast.FuncDecl)
			if !ok || fd.Recv == nil || len(fd.Recv.List) != 1 || fd.Body == nil {
				continue
			}
			tn, ptr := recvTypeName(fd.Recv.List[0].Type)
			if tn != typeName {
				continue
			}
			name := fd.Name.Name
			if ptr || len(fd.Recv.List[0].Names) != 1 {
				class[name] = "bad"
				continue
			}
			m := fd.Recv.List[0].Names[0].Name
			isM := func(e ast.Expr) (*ast.Ident, bool) {
				id, ok := unparen(e).(*ast.Ident)
				return id, ok && id.Name == m
			}
			fns := map[string]bool{}
			if fd.Type.Params != nil {
				for _, p := range fd.Type.Params.List {
					if _, ok := p.Type.(*ast.FuncType); ok {
						for _, n := range p.Names {
							fns[n.Name] = true
						}
					}
				}
			}
			accounted := map[*ast.Ident]bool{}
			kind := "read"
			ast.Inspect(fd.Body, func(x ast.Node) bool {
				switch x := x.(type) {
				case *ast.FuncLit:
					// a closure over the map outlives nothing we can see: refuse below
					// (any use of m inside stays unaccounted)
					return false
				case *ast.AssignStmt:
					for _, l := range x.Lhs {
						if ix, ok := unparen(l).(*ast.IndexExpr); ok {
							if id, ok := isM(ix.X); ok {
								accounted[id] = true
								kind = "write"
							}
						}
					}
				case *ast.IncDecStmt:
					if ix, ok := unparen(x.X).(*ast.IndexExpr); ok {
						if id, ok := isM(ix.X); ok {
							accounted[id] = true
							kind = "write"
						}
					}
				case *ast.IndexExpr:
					if id, ok := isM(x.X); ok {
						accounted[id] = true
					}
				case *ast.RangeStmt:
					if id, ok := isM(x.X); ok {
						accounted[id] = true
					}
				case *ast.CallExpr:
					if id, ok := unparen(x.Fun).(*ast.Ident); ok {
						switch id.Name {
						case "len":
							if len(x.Args) == 1 {
								if a, ok := isM(x.Args[0]); ok {
									accounted[a] = true
								}
							}
						case "delete", "clear":
							if len(x.Args) >= 1 {
								if a, ok := isM(x.Args[0]); ok {
									accounted[a] = true
									kind = "write"
								}
							}
						}
						if fns[id.Name] {
							callsFn[name] = true
						}
					}
				}
				return true
			})
			ast.Inspect(fd.Body, func(x ast.Node) bool {
				if id, ok := x.(*ast.Ident); ok && id.Name == m && !accounted[id] {
					kind = "bad"
				}
				return true
			})
			class[name] = kind
		}
	}
	return class, callsFn
}

// Facts renders lean/Golib/Gen/FactsC12.lean.
func Facts(repo string) (string, error) {
	ms, err := extract(repo)
	if err != nil {
		return "", err
	}
	var b strings.Builder
	b.WriteString("-- REGENERATED on every run by the C12 extractor (go/props/c12/facts.go) from mapz/*.go\n")
	b.WriteString("-- of the tree under verification; do not edit.  One entry per SafeKV method: the\n")
	b.WriteString("-- source-order events (see Golib/Model/C12Ev.lean).\n")
	b.WriteString("import Golib.Model.C12Ev\n\nnamespace Golib.Gen.C12\nopen Golib.C12\n\n")
	b.WriteString("def extractorOK : Bool := true\n\n")
	b.WriteString("def methods : List (String × List Ev) := [\n")
	for i, m := range ms {
		var evs []string
		for _, e := range m.events {
			evs = append(evs, "."+e.kind)
		}
		sep := ","
		if i == len(ms)-1 {
			sep = ""
		}
		fmt.Fprintf(&b, "  (%q, [%s])%s  -- %s:%d\n", m.name, strings.Join(evs, ", "), sep, m.file, m.line)
		for _, e := range m.events {
			if e.kind == "bad" {
				fmt.Fprintf(&b, "  --   bad at %s:%d: %s\n", filepath.Base(e.pos.Filename), e.pos.Line, e.note)
			}
		}
	}
	b.WriteString("]\n\n")
	b.WriteString("-- per method: is (one of) its release(s) a top-level `defer s.mu.Unlock()/RUnlock()`?\n")
	b.WriteString("def deferredRelease : List (String × Bool) := [\n")
	for i, m := range ms {
		sep := ","
		if i == len(ms)-1 {
			sep = ""
		}
		fmt.Fprintf(&b, "  (%q, %v)%s\n", m.name, m.deferred, sep)
	}
	b.WriteString("]\n\nend Golib.Gen.C12\n")
	return b.String(), nil
}
