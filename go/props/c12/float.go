package c12

// Wave 6, class 8 (type parameters): SafeKV instantiated with key types whose `==` is not
// reflexive — float64 (NaN, +0/-0) and struct{F float64; ID int}. Header `@ C12 fkv f64` /
// `@ C12 fkv struct`; key token `F` or `F/ID` with F = nan | -0 | integer. What the clauses
// mean there is Go map semantics (Golib/Model/C12PKV.lean, theorems c12_nan_key,
// c12_clear_empties): a NaN key is inserted anew by every Set, never found by
// Get/Has/Delete/SetX, counted by Len, reported by Keys/Range/All, removed by Clear.
//
// Three answers per op: the real SafeKV[K,int]; the Lean model over an association list
// with the partial equality `keq`; an independent oracle (check) = a slice of pairs searched
// with Go's own `==` on K (no map involved).

import (
	"fmt"
	"math"
	"sort"
	"strconv"
	"strings"

	"github.com/welllog/golib/mapz"

	"verifharness/internal/core"
)

type fsKey struct {
	F  float64
	ID int
}

func parseF(tok string) (float64, bool) {
	switch tok {
	case "nan":
		return math.NaN(), true
	case "-0":
		return math.Copysign(0, -1), true
	}
	n, err := strconv.Atoi(tok)
	if err != nil || strconv.Itoa(n) != tok {
		return 0, false
	}
	return float64(n), true
}

func showF(f float64) string {
	if f != f {
		return "nan"
	}
	return strconv.Itoa(int(f)) // -0 prints as 0: +0 and -0 are one key
}

func parseF64Key(tok string) (float64, bool) {
	if strings.Contains(tok, "/") {
		return 0, false
	}
	return parseF(tok)
}

func parseStructKey(tok string) (fsKey, bool) {
	a, b, ok := strings.Cut(tok, "/")
	if !ok {
		f, ok := parseF(tok)
		return fsKey{F: f}, ok
	}
	f, ok1 := parseF(a)
	id, err := strconv.Atoi(b)
	return fsKey{F: f, ID: id}, ok1 && err == nil && strconv.Itoa(id) == b
}

// kvLike: what the stream needs from a container (the real SafeKV and the reference).
type kvLike[K comparable] interface {
	Get(K) (int, bool)
	Has(K) bool
	Set(K, int)
	SetNx(K, int) bool
	SetX(K, int) bool
	Delete(...K)
	Len() int
	Keys() []K
	Values() []int
	Range(func(K, int) bool)
	Clear()
}

// refKV: association list searched with `==` on K — the property's reading of "a plain
// map" for key types with a partial equality, written without using a Go map.
type refKV[K comparable] struct {
	ks []K
	vs []int
}

func (r *refKV[K]) find(k K) int {
	for i := range r.ks {
		if r.ks[i] == k {
			return i
		}
	}
	return -1
}
func (r *refKV[K]) Get(k K) (int, bool) {
	if i := r.find(k); i >= 0 {
		return r.vs[i], true
	}
	return 0, false
}
func (r *refKV[K]) Has(k K) bool { return r.find(k) >= 0 }
func (r *refKV[K]) Set(k K, v int) {
	if i := r.find(k); i >= 0 {
		r.vs[i] = v
		return
	}
	r.ks, r.vs = append(r.ks, k), append(r.vs, v)
}
func (r *refKV[K]) SetNx(k K, v int) bool {
	if r.find(k) >= 0 {
		return false
	}
	r.Set(k, v)
	return true
}
func (r *refKV[K]) SetX(k K, v int) bool {
	if i := r.find(k); i >= 0 {
		r.vs[i] = v
		return true
	}
	return false
}
func (r *refKV[K]) Delete(keys ...K) {
	for _, k := range keys {
		if i := r.find(k); i >= 0 {
			r.ks = append(r.ks[:i], r.ks[i+1:]...)
			r.vs = append(r.vs[:i], r.vs[i+1:]...)
		}
	}
}
func (r *refKV[K]) Len() int      { return len(r.ks) }
func (r *refKV[K]) Keys() []K     { return append([]K(nil), r.ks...) }
func (r *refKV[K]) Values() []int { return append([]int(nil), r.vs...) }
func (r *refKV[K]) Range(fn func(K, int) bool) {
	for i := range r.ks {
		if !fn(r.ks[i], r.vs[i]) {
			return
		}
	}
}
func (r *refKV[K]) Clear() { r.ks, r.vs = nil, nil } // the property: Clear empties the map

func fstep[K comparable](s kvLike[K], all func() int, parse func(string) (K, bool), show func(K) string, t []string) string {
	key := func(i int) (K, bool) {
		var z K
		if i >= len(t) {
			return z, false
		}
		return parse(t[i])
	}
	val := func(i int) (int, bool) {
		if i >= len(t) {
			return 0, false
		}
		return atoi(t[i])
	}
	switch t[0] {
	case "get", "has":
		k, ok := key(1)
		if !ok || len(t) != 2 {
			return "bad-op"
		}
		if t[0] == "has" {
			return strconv.FormatBool(s.Has(k))
		}
		v, found := s.Get(k)
		return fmt.Sprintf("%d %v", v, found)
	case "set", "setnx", "setx":
		k, ok := key(1)
		v, ok2 := val(2)
		if !ok || !ok2 || len(t) != 3 {
			return "bad-op"
		}
		switch t[0] {
		case "set":
			s.Set(k, v)
			return "ok"
		case "setnx":
			return strconv.FormatBool(s.SetNx(k, v))
		}
		return strconv.FormatBool(s.SetX(k, v))
	case "del":
		var ks []K
		for i := 1; i < len(t); i++ {
			k, ok := key(i)
			if !ok {
				return "bad-op"
			}
			ks = append(ks, k)
		}
		s.Delete(ks...)
		return "ok"
	case "len":
		if len(t) != 1 {
			return "bad-op"
		}
		return strconv.Itoa(s.Len())
	case "keys":
		if len(t) != 1 {
			return "bad-op"
		}
		var out []string
		for _, k := range s.Keys() {
			out = append(out, show(k))
		}
		sort.Strings(out)
		return "[" + strings.Join(out, " ") + "]"
	case "values":
		if len(t) != 1 {
			return "bad-op"
		}
		return showInts(s.Values())
	case "rangecount":
		if len(t) != 1 {
			return "bad-op"
		}
		n := 0
		s.Range(func(K, int) bool { n++; return true })
		return strconv.Itoa(n)
	case "allcount":
		if len(t) != 1 {
			return "bad-op"
		}
		return strconv.Itoa(all())
	case "clear":
		if len(t) != 1 {
			return "bad-op"
		}
		s.Clear()
		return "ok"
	}
	return "bad-op"
}

func isFloatCase(c core.Case) bool {
	h := core.Toks(c.Lines[0])
	return len(h) >= 3 && h[2] == "fkv"
}

func runFloat(c core.Case, ref bool) []string {
	var step func(t []string) string
	return core.RunOps(c,
		func(hdr []string) string {
			if len(hdr) != 2 || hdr[0] != "fkv" {
				return "bad-op"
			}
			switch hdr[1] {
			case "f64":
				show := func(k float64) string { return showF(k) }
				if ref {
					r := &refKV[float64]{}
					step = func(t []string) string { return fstep[float64](r, r.Len, parseF64Key, show, t) }
				} else {
					s := mapz.NewSafeKV[float64, int](0)
					all := func() int {
						n := 0
						for range s.All() {
							n++
						}
						return n
					}
					step = func(t []string) string { return fstep[float64](s, all, parseF64Key, show, t) }
				}
			case "struct":
				show := func(k fsKey) string { return showF(k.F) + "/" + strconv.Itoa(k.ID) }
				if ref {
					r := &refKV[fsKey]{}
					step = func(t []string) string { return fstep[fsKey](r, r.Len, parseStructKey, show, t) }
				} else {
					s := mapz.NewSafeKV[fsKey, int](0)
					all := func() int {
						n := 0
						for range s.All() {
							n++
						}
						return n
					}
					step = func(t []string) string { return fstep[fsKey](s, all, parseStructKey, show, t) }
				}
			default:
				return "bad-op"
			}
			return "ok"
		},
		func(t []string) string {
			if step == nil {
				return "bad-op"
			}
			return step(t)
		})
}

func checkFloat(c core.Case, out []string) *core.Failure {
	want := runFloat(c, true)
	for i := 1; i < len(out) && i < len(want); i++ {
		if out[i] != want[i] {
			return &core.Failure{Key: "fkey-" + core.Toks(c.Lines[i])[0], Desc: fmt.Sprintf("%s, op %d %q: SafeKV answered %q; a plain map under Go's == on the key type (NaN != NaN, +0 == -0; Clear empties the map) answers %q", c.Lines[0], i, c.Lines[i], out[i], want[i])}
		}
	}
	return nil
}

func genFloat(r *core.Rand) core.Case {
	structKeys := r.Chance(40)
	hdr := "@ C12 fkv f64"
	if structKeys {
		hdr = "@ C12 fkv struct"
	}
	lines := []string{hdr}
	key := func() string {
		f := []string{"nan", "nan", "0", "-0", "1", "2", "-1"}[r.Intn(7)]
		if structKeys {
			return f + "/" + strconv.Itoa(r.Range(0, 1))
		}
		return f
	}
	next := 1
	n := r.Range(3, 24)
	for i := 0; i < n; i++ {
		switch r.Pick(20, 10, 8, 8, 8, 8, 8, 6, 5, 4, 4, 9) {
		case 0:
			lines = append(lines, fmt.Sprintf("set %s %d", key(), next))
			next++
		case 1:
			lines = append(lines, fmt.Sprintf("setnx %s %d", key(), next))
			next++
		case 2:
			lines = append(lines, fmt.Sprintf("setx %s %d", key(), next))
			next++
		case 3:
			lines = append(lines, "get "+key())
		case 4:
			lines = append(lines, "has "+key())
		case 5:
			l := "del"
			for j := r.Range(0, 3); j > 0; j-- {
				l += " " + key()
			}
			lines = append(lines, l)
		case 6:
			lines = append(lines, "len")
		case 7:
			lines = append(lines, "keys")
		case 8:
			lines = append(lines, "values")
		case 9:
			lines = append(lines, "rangecount")
		case 10:
			lines = append(lines, "allcount")
		case 11:
			lines = append(lines, "clear", "len")
		}
	}
	lines = append(lines, "clear", "len", "keys")
	return core.Case{Lines: lines, Tag: "fkeys"}
}

func floatCorpus() []core.Case {
	return []core.Case{
		{Lines: []string{"@ C12 fkv f64", "set nan 1", "set nan 2", "len", "get nan", "has nan", "setx nan 3", "setnx nan 4", "len", "del nan", "len", "keys", "values", "rangecount", "allcount", "clear", "len", "keys", "set nan 5", "len", "clear", "len"}, Tag: "fkeys"},
		{Lines: []string{"@ C12 fkv f64", "set 0 1", "set -0 2", "len", "get 0", "get -0", "keys", "setnx -0 3", "del -0", "len", "has 0"}, Tag: "fkeys"},
		{Lines: []string{"@ C12 fkv struct", "set nan/1 1", "set nan/1 2", "set 1/1 3", "set 1/0 4", "set -0/1 5", "set 0/1 6", "len", "keys", "get nan/1", "get 0/1", "del nan/1 1/1", "len", "clear", "len", "allcount"}, Tag: "fkeys"},
	}
}
