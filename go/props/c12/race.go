package c12

// The concurrent search of C12: builds go/props/c12/racer with `go build -race`
// against the tree under verification (own -modfile with the same replace directive
// the check uses, plus porcupine v1.3.0 from the module cache) and runs it:
//   * every pair of SafeKV methods concurrently under the race detector;
//   * recorded invoke/response histories checked for linearizability.
// A DATA RACE report or a non-linearizable history is a concrete failing input:
// replay = the two method names + seed + the race report (resp. the history).

import (
	"bytes"
	"crypto/sha256"
	"encoding/json"
	"fmt"
	"os"
	"os/exec"
	"path/filepath"
	"regexp"
	"sort"
	"strings"
	"time"

	"verifharness/internal/core"
)

func buildRacer(ctx *core.Ctx) (string, error) {
	goDir := filepath.Join(ctx.VerifDir, "go")
	bdir := filepath.Join(goDir, ".build")
	if err := os.MkdirAll(bdir, 0o755); err != nil {
		return "", err
	}
	h := sha256.Sum256([]byte(ctx.Repo))
	key := fmt.Sprintf("%x", h[:5])
	base, err := os.ReadFile(filepath.Join(goDir, "go.mod"))
	if err != nil {
		return "", err
	}
	mod := strings.Replace(string(base), "=> /repo", "=> "+ctx.Repo, 1)
	if !strings.Contains(mod, "anishathalye/porcupine") {
		mod += "\nrequire github.com/anishathalye/porcupine v1.3.0\n"
	}
	modfile := filepath.Join(bdir, "c12racer-"+key+".mod")
	mtmp := fmt.Sprintf("%s.tmp.%d", modfile, os.Getpid())
	if err := os.WriteFile(mtmp, []byte(mod), 0o644); err != nil {
		return "", err
	}
	if err := os.Rename(mtmp, modfile); err != nil {
		return "", err
	}
	bin := filepath.Join(bdir, "c12racer-"+key)
	// build under a private name, then rename (another check of the same copy may be
	// executing the installed binary)
	tmp := fmt.Sprintf("%s.tmp.%d", bin, os.Getpid())
	defer os.Remove(tmp)
	cmd := exec.Command("go", "build", "-race", "-modfile="+modfile, "-o", tmp, "./props/c12/racer")
	cmd.Dir = goDir
	cmd.Env = append(os.Environ(), "GOFLAGS=-mod=mod", "GOPROXY=off", "GOSUMDB=off", "GOTOOLCHAIN=local", "CGO_ENABLED=1")
	out, err := cmd.CombinedOutput()
	if err != nil {
		return "", fmt.Errorf("go build -race ./props/c12/racer: %v: %s", err, clipStr(string(out), 1500))
	}
	if err := os.Rename(tmp, bin); err != nil {
		return "", err
	}
	return bin, nil
}

func clipStr(s string, n int) string {
	if len(s) > n {
		return s[:n] + " …"
	}
	return s
}

func runRacer(bin string, timeout time.Duration, args ...string) (stdout, stderr string, err error) {
	cmd := exec.Command(bin, args...)
	// report every race, keep running, do not turn races into an exit code
	cmd.Env = append(os.Environ(), "GORACE=halt_on_error=0 exitcode=0 history_size=2")
	var so, se bytes.Buffer
	cmd.Stdout = &so
	cmd.Stderr = &se
	if err := cmd.Start(); err != nil {
		return "", "", err
	}
	done := make(chan error, 1)
	go func() { done <- cmd.Wait() }()
	select {
	case err = <-done:
	case <-time.After(timeout):
		_ = cmd.Process.Kill()
		<-done
		err = fmt.Errorf("racer timed out after %s", timeout)
	}
	return so.String(), se.String(), err
}

type raceReport struct {
	PairA, PairB string
	Seed         string
	Methods      []string // SafeKV methods named in the report's stacks
	Text         string
}

var safeKVFrame = regexp.MustCompile(`mapz\.\(\*SafeKV\[[^\]]*\]\)\.([A-Za-z0-9_]+)`)

// parseRaces splits the racer's stderr into reports, attributed to the pair whose
// PAIR marker precedes them.
func parseRaces(stderr string) []raceReport {
	var reps []raceReport
	a, b, seed := "", "", ""
	lines := strings.Split(stderr, "\n")
	for i := 0; i < len(lines); i++ {
		l := lines[i]
		if strings.HasPrefix(l, "PAIR ") {
			f := strings.Fields(l)
			if len(f) >= 4 {
				a, b, seed = f[1], f[2], strings.TrimPrefix(f[3], "seed=")
			}
			continue
		}
		if strings.HasPrefix(l, "WARNING: DATA RACE") {
			var txt []string
			j := i
			for ; j < len(lines); j++ {
				if strings.HasPrefix(lines[j], "==================") && j > i {
					break
				}
				if strings.HasPrefix(lines[j], "PAIR ") || strings.HasPrefix(lines[j], "ENDPAIR ") {
					continue
				}
				txt = append(txt, lines[j])
			}
			text := strings.Join(txt, "\n")
			seen := map[string]bool{}
			var ms []string
			for _, m := range safeKVFrame.FindAllStringSubmatch(text, -1) {
				name := strings.TrimSuffix(m[1], "-fm")
				if !seen[name] {
					seen[name] = true
					ms = append(ms, name)
				}
			}
			sort.Strings(ms)
			reps = append(reps, raceReport{PairA: a, PairB: b, Seed: seed, Methods: ms, Text: clipStr(text, 6000)})
			i = j
		}
	}
	return reps
}

// goWellLocked mirrors Golib.C12.wellLocked (only used to name the culprit in the
// failure key; the obligation itself is decided in Lean).
func goWellLocked(evs []event) bool {
	mode := "none"
	for _, e := range evs {
		switch e.kind {
		case "rlock":
			if mode != "none" {
				return false
			}
			mode = "r"
		case "lock":
			if mode != "none" {
				return false
			}
			mode = "w"
		case "runlock":
			if mode != "r" {
				return false
			}
			mode = "none"
		case "unlock":
			if mode != "w" {
				return false
			}
			mode = "none"
		case "read":
			if mode == "none" {
				return false
			}
		case "write", "replace", "callFnMap":
			if mode != "w" {
				return false
			}
		case "callFn":
		default:
			return false
		}
	}
	return mode == "none"
}

func raceExtra(ctx *core.Ctx) (int, string, []core.ExtraFailure) {
	var fails []core.ExtraFailure
	bin, err := buildRacer(ctx)
	if err != nil {
		// the racer no longer compiles against the tree (API change): the tie is broken
		return 0, "racer build failed", []core.ExtraFailure{{
			Failure: core.Failure{Key: "racer-build", Desc: err.Error()},
			Payload: map[string]any{"error": err.Error()}, NoInput: true}}
	}
	ill := map[string]bool{}
	if ms, err := extract(ctx.Repo); err == nil {
		for _, m := range ms {
			if !goWellLocked(m.events) {
				ill[m.name] = true
			}
		}
	}
	// quick on the blessed tree: a light share of every phase (idle ≈ 10 s for this Extra);
	// the heavy share runs in thorough and when the anchored source has drifted
	// (ctx.Escalate > 1), where a concrete replay is worth the time
	drift := ctx.Escalate > 1 && ctx.Tier != "thorough"
	perPair, minIters := "8ms", "150"
	histDur, minRounds := "1500ms", "300"
	if drift {
		perPair, minIters = "20ms", "300"
	}
	timeout := 100 * time.Second
	if ctx.Tier == "thorough" {
		perPair, minIters = "700ms", "5000"
		histDur, minRounds = "60s", "5000"
		timeout = 20 * time.Minute
	}
	if ctx.Escalate > 1 {
		histDur = "20s"
	}
	seed := fmt.Sprint(ctx.Seed)

	// ---- every method pair under the race detector
	so, se, err := runRacer(bin, timeout, "-mode", "pairs", "-seed", seed, "-perpair", perPair, "-miniters", minIters)
	evals := 0
	note := ""
	var pairs, iters int
	fmt.Sscanf(strings.TrimSpace(lastLineWith(so, "PAIRS ")), "PAIRS pairs=%d iters=%d", &pairs, &iters)
	evals += pairs
	reps := parseRaces(se)
	note += fmt.Sprintf("race detector: %d method pairs, %d calls, %d DATA RACE reports", pairs, iters, len(reps))
	if f, ok := stuckFailure(so, bin, seed); ok {
		return evals, note + "; a method pair deadlocked", append(fails, f)
	}
	if err != nil || pairs == 0 {
		fails = append(fails, core.ExtraFailure{
			Failure: core.Failure{Key: "racer-run", Desc: fmt.Sprintf("racer (pairs) did not complete: %v; stderr: %s", err, clipStr(se, 1500))},
			Payload: map[string]any{"stderr": clipStr(se, 4000), "seed": seed}, NoInput: len(reps) == 0 && !strings.Contains(se, "fatal error:")})
	}
	for _, r := range reps {
		key := raceKey(r, ill)
		fails = append(fails, core.ExtraFailure{
			Failure: core.Failure{Key: key, Desc: fmt.Sprintf("DATA RACE while %s and %s ran concurrently (SafeKV methods in the report: %v)", r.PairA, r.PairB, r.Methods)},
			Payload: map[string]any{
				"methods":     []string{r.PairA, r.PairB},
				"seed":        r.Seed,
				"race_report": r.Text,
				"rerun":       fmt.Sprintf("GORACE=halt_on_error=0 %s -mode pairs -pair %s,%s -seed %s", bin, r.PairA, r.PairB, r.Seed),
			}})
	}

	// ---- linearizability of recorded histories
	so, se2, err := runRacer(bin, timeout, "-mode", "hist", "-seed", seed, "-dur", histDur, "-minrounds", minRounds)
	var rounds, ops, illegal, unknown int
	fmt.Sscanf(strings.TrimSpace(lastLineWith(so, "HIST ")), "HIST rounds=%d ops=%d illegal=%d unknown=%d", &rounds, &ops, &illegal, &unknown)
	evals += rounds
	note += fmt.Sprintf("; histories: %d rounds, %d operations, %d not linearizable, %d undecided", rounds, ops, illegal, unknown)
	if f, ok := stuckFailure(so, bin, seed); ok {
		return evals, note + "; a history round deadlocked", append(fails, f)
	}
	if err != nil || rounds == 0 {
		fails = append(fails, core.ExtraFailure{
			Failure: core.Failure{Key: "racer-run", Desc: fmt.Sprintf("racer (hist) did not complete: %v; stderr: %s", err, clipStr(se2, 1500))},
			Payload: map[string]any{"stderr": clipStr(se2, 4000), "seed": seed,
				"rerun": fmt.Sprintf("%s -mode hist -seed %s", bin, seed)}, NoInput: !strings.Contains(se2, "fatal error:")})
	}
	for _, r := range parseRaces(se2) {
		fails = append(fails, core.ExtraFailure{
			Failure: core.Failure{Key: raceKey(r, ill), Desc: fmt.Sprintf("DATA RACE during the history run (SafeKV methods in the report: %v)", r.Methods)},
			Payload: map[string]any{"seed": seed, "race_report": r.Text}})
	}
	for _, l := range strings.Split(so, "\n") {
		if !strings.HasPrefix(l, "LIN ") {
			continue
		}
		var h struct {
			RoundSeed uint64 `json:"round_seed"`
			Scenario  int    `json:"scenario"`
			History   []struct {
				G  int `json:"g"`
				In struct {
					Op string `json:"op"`
				} `json:"in"`
			} `json:"history"`
		}
		raw := json.RawMessage(strings.TrimPrefix(l, "LIN "))
		_ = json.Unmarshal(raw, &h)
		seen := map[string]bool{}
		var opsIn []string
		for _, o := range h.History {
			if !seen[o.In.Op] {
				seen[o.In.Op] = true
				opsIn = append(opsIn, o.In.Op)
			}
		}
		sort.Strings(opsIn)
		fails = append(fails, core.ExtraFailure{
			Failure: core.Failure{Key: "not-linearizable", Desc: fmt.Sprintf("a recorded concurrent history over %v has no sequential explanation by a plain map (round seed %d)", opsIn, h.RoundSeed)},
			Payload: map[string]any{"seed": seed, "history": raw,
				"rerun": fmt.Sprintf("%s -mode hist -seed %s", bin, seed)}})
		break
	}
	// ---- the same with more goroutines (8 × 3 operations per round)
	{
		wideDur, wideRounds := "500ms", "60"
		if drift {
			wideDur, wideRounds = "3s", "300"
		}
		if ctx.Tier == "thorough" {
			wideDur, wideRounds = "30s", "3000"
		}
		so, se5, err := runRacer(bin, timeout, "-mode", "hist", "-seed", seed, "-dur", wideDur, "-minrounds", wideRounds, "-g", "8", "-m", "3")
		var r8, o8, i8, u8 int
		fmt.Sscanf(strings.TrimSpace(lastLineWith(so, "HIST ")), "HIST rounds=%d ops=%d illegal=%d unknown=%d", &r8, &o8, &i8, &u8)
		evals += r8
		note += fmt.Sprintf("; histories 8 goroutines × 3: %d rounds, %d not linearizable, %d undecided", r8, i8, u8)
		if f, ok := stuckFailure(so, bin, seed); ok {
			fails = append(fails, f)
		} else if err != nil || r8 == 0 {
			fails = append(fails, core.ExtraFailure{
				Failure: core.Failure{Key: "racer-run", Desc: fmt.Sprintf("racer (hist, 8 goroutines) did not complete: %v; stderr: %s", err, clipStr(se5, 1500))},
				Payload: map[string]any{"stderr": clipStr(se5, 4000), "seed": seed}, NoInput: !strings.Contains(se5, "fatal error:")})
		}
		for _, l := range strings.Split(so, "\n") {
			if strings.HasPrefix(l, "LIN ") {
				raw := json.RawMessage(strings.TrimPrefix(l, "LIN "))
				fails = append(fails, core.ExtraFailure{
					Failure: core.Failure{Key: "not-linearizable", Desc: "a recorded concurrent history of 8 goroutines has no sequential explanation by a plain map"},
					Payload: map[string]any{"seed": seed, "history": raw,
						"rerun": fmt.Sprintf("%s -mode hist -seed %s -g 8 -m 3", bin, seed)}})
				break
			}
		}
	}
	// ---- atomicity of the bulk operations (snapshot counts must be 0 or N)
	bulkDur, minCycles := "500ms", "25"
	if drift {
		bulkDur, minCycles = "1200ms", "40"
	}
	if ctx.Tier == "thorough" {
		bulkDur, minCycles = "20s", "2000"
	}
	// sizes: small (many cycles) and beyond internal batching thresholds — a single
	// Delete(keys...) / Map replace of 2 000, 6 000 and 262 144 keys must be ONE step too
	for _, n := range []string{"300", "1000", "2000", "6000", "262144"} {
		if (n == "6000" || n == "262144") && !drift && ctx.Tier != "thorough" {
			continue // the largest sizes: thorough tier and drifted trees only
		}
		bulkDur, minCycles := bulkDur, minCycles
		switch {
		case n == "262144" && ctx.Tier == "thorough":
			bulkDur, minCycles = "10s", "12"
		case n == "262144":
			bulkDur, minCycles = "500ms", "3"
		case (n == "2000" || n == "6000") && ctx.Tier != "thorough":
			bulkDur, minCycles = "400ms", "6"
		}
		if ctx.Escalate > 1 && ctx.Tier != "thorough" && n != "300" && n != "1000" {
			bulkDur = "3s"
		}
		so, se3, err := runRacer(bin, timeout, "-mode", "bulk", "-seed", seed, "-n", n, "-dur", bulkDur, "-mincycles", minCycles)
		var bn, cycles, obs, wits int
		fmt.Sscanf(strings.TrimSpace(lastLineWith(so, "BULKSTAT ")), "BULKSTAT n=%d cycles=%d observations=%d witnesses=%d", &bn, &cycles, &obs, &wits)
		evals += cycles
		note += fmt.Sprintf("; bulk N=%s: %d fill/empty cycles, %d snapshot counts, %d not in {0,N}", n, cycles, obs, wits)
		if f, ok := stuckFailure(so, bin, seed); ok {
			return evals, note + "; the bulk run deadlocked", append(fails, f)
		}
		if err != nil || cycles == 0 {
			fails = append(fails, core.ExtraFailure{
				Failure: core.Failure{Key: "racer-run", Desc: fmt.Sprintf("racer (bulk) did not complete: %v; stderr: %s", err, clipStr(se3, 1500))},
				Payload: map[string]any{"stderr": clipStr(se3, 4000), "seed": seed}, NoInput: !strings.Contains(se3, "fatal error:")})
		}
		for _, r := range parseRaces(se3) {
			fails = append(fails, core.ExtraFailure{
				Failure: core.Failure{Key: raceKey(r, ill), Desc: fmt.Sprintf("DATA RACE during the bulk run (SafeKV methods in the report: %v)", r.Methods)},
				Payload: map[string]any{"seed": seed, "race_report": r.Text}})
		}
		for _, l := range strings.Split(so, "\n") {
			if !strings.HasPrefix(l, "BULK ") {
				continue
			}
			var w struct {
				Observer string `json:"observer"`
				Writer   string `json:"writer_call_in_flight"`
				N        int    `json:"n"`
				Observed int    `json:"observed_count"`
			}
			raw := json.RawMessage(strings.TrimPrefix(l, "BULK "))
			_ = json.Unmarshal(raw, &w)
			wr := strings.TrimSuffix(strings.TrimSuffix(w.Writer, "(fill)"), "(empty)")
			fails = append(fails, core.ExtraFailure{
				Failure: core.Failure{Key: "not-atomic:" + wr, Desc: fmt.Sprintf("%s observed %d entries while the map only ever holds 0 or %d between calls (writer call in flight: %s): a bulk operation or the snapshot is not atomic", w.Observer, w.Observed, w.N, w.Writer)},
				Payload: map[string]any{"witness": raw, "methods": []string{w.Observer, w.Writer},
					"rerun": fmt.Sprintf("%s -mode bulk -seed %s -n %s", bin, seed, n)}})
		}
	}
	// ---- large snapshots: one generation and its size per traversal (sizes beyond
	// internal batching thresholds: 6000 / 12000 entries)
	genDur, genCycles := "800ms", "12"
	if ctx.Escalate > 1 {
		genDur, genCycles = "8s", "100" // the anchored source differs from the blessed tree
	}
	if ctx.Tier == "thorough" {
		genDur, genCycles = "30s", "1000"
	}
	{
		so, se4, err := runRacer(bin, timeout, "-mode", "gen", "-seed", seed, "-n", "6000", "-dur", genDur, "-mincycles", genCycles)
		var gn, cycles, obs, wits, minper int
		fmt.Sscanf(strings.TrimSpace(lastLineWith(so, "GENSTAT ")), "GENSTAT n=%d cycles=%d observations=%d witnesses=%d minperobserver=%d", &gn, &cycles, &obs, &wits, &minper)
		evals += obs
		note += fmt.Sprintf("; generations N=6000/12000: %d atomic generation changes, %d traversals (≥ %d per observer), %d inconsistent", cycles, obs, minper, wits)
		if f, ok := stuckFailure(so, bin, seed); ok {
			fails = append(fails, f)
		} else if err != nil || cycles == 0 {
			fails = append(fails, core.ExtraFailure{
				Failure: core.Failure{Key: "racer-run", Desc: fmt.Sprintf("racer (gen) did not complete: %v; stderr: %s", err, clipStr(se4, 1500))},
				Payload: map[string]any{"stderr": clipStr(se4, 4000), "seed": seed}, NoInput: !strings.Contains(se4, "fatal error:")})
		}
		for _, r := range parseRaces(se4) {
			fails = append(fails, core.ExtraFailure{
				Failure: core.Failure{Key: raceKey(r, ill), Desc: fmt.Sprintf("DATA RACE during the generation run (SafeKV methods in the report: %v)", r.Methods)},
				Payload: map[string]any{"seed": seed, "race_report": r.Text}})
		}
		for _, l := range strings.Split(so, "\n") {
			if !strings.HasPrefix(l, "GEN ") {
				continue
			}
			var w struct {
				Observer string `json:"observer"`
				N        int    `json:"n"`
				Gens     []int  `json:"generations_seen_in_one_traversal"`
				Count    int    `json:"entries_seen"`
			}
			raw := json.RawMessage(strings.TrimPrefix(l, "GEN "))
			_ = json.Unmarshal(raw, &w)
			fails = append(fails, core.ExtraFailure{
				Failure: core.Failure{Key: "not-atomic:" + w.Observer, Desc: fmt.Sprintf("one %s traversal saw generations %v and %d entries while the map only ever holds one generation g with %d (even g) or %d (odd g) entries between calls: the traversal is not one snapshot", w.Observer, w.Gens, w.Count, w.N, 2*w.N)},
				Payload: map[string]any{"witness": raw, "methods": []string{w.Observer, "Map"},
					"rerun": fmt.Sprintf("%s -mode gen -seed %s -n 6000", bin, seed)}})
		}
	}
	return evals, note, fails
}

// stuckFailure turns a STUCK line of the racer (calls that never returned, with the
// dump of the goroutines parked on the RWMutex) into a concrete failure.
func stuckFailure(stdout, bin, seed string) (core.ExtraFailure, bool) {
	l := lastLineWith(stdout, "STUCK ")
	if l == "" {
		return core.ExtraFailure{}, false
	}
	var w struct {
		Mode string `json:"mode"`
		What string `json:"what"`
	}
	raw := json.RawMessage(strings.TrimPrefix(l, "STUCK "))
	_ = json.Unmarshal(raw, &w)
	return core.ExtraFailure{
		Failure: core.Failure{Key: "deadlock", Desc: fmt.Sprintf("SafeKV calls never returned (%s %s): the goroutines are parked on the RWMutex although every caller was told to stop — a method leaves the lock held", w.Mode, clipStr(w.What, 300))},
		Payload: map[string]any{"witness": raw, "seed": seed,
			"rerun": stuckRerun(bin, w.Mode, w.What, seed)}}, true
}

func stuckRerun(bin, mode, what, seed string) string {
	if mode == "PAIR" {
		return fmt.Sprintf("%s -mode pairs -pair %s -seed %s", bin, strings.Join(strings.Fields(what), ","), seed)
	}
	return fmt.Sprintf("%s -mode %s -seed %s", bin, strings.ToLower(mode), seed)
}

// raceKey names the culprit: the ill-locked method(s) (per the extracted facts)
// among those in the report's stacks; all of them if none is ill-locked.
func raceKey(r raceReport, ill map[string]bool) string {
	cands := r.Methods
	if r.PairA != "" { // pairs mode: the two methods that were running
		cands = []string{r.PairA}
		if r.PairB != r.PairA {
			cands = append(cands, r.PairB)
		}
		sort.Strings(cands)
	}
	var culprits []string
	for _, m := range cands {
		if ill[m] {
			culprits = append(culprits, m)
		}
	}
	if len(culprits) == 0 {
		culprits = cands
	}
	return "race:" + strings.Join(culprits, "+")
}

func lastLineWith(s, prefix string) string {
	res := ""
	for _, l := range strings.Split(s, "\n") {
		if strings.HasPrefix(l, prefix) {
			res = l
		}
	}
	return res
}
