// Command racer is the concurrent half of the C12 check. It is built with
// `go build -race` by the C12 Extra (go/props/c12/race.go) against the tree under
// verification and run in two modes:
//
//	-mode pairs  every unordered pair of SafeKV methods (incl. a method with itself) runs
//	             concurrently on one SafeKV[int,int] with shared keys; the race detector
//	             prints its reports to stderr, where "PAIR a b" markers delimit the pairs.
//	-mode bulk   see runBulk; -mode gen: see runGen (large snapshots, 6000/12000 entries)
//	-mode hist   rounds of G goroutines × M operations on a fresh SafeKV; invocation and
//	             response order is recorded and each history is checked for
//	             linearizability against a plain map (porcupine).  Snapshot operations
//	             (Keys/Values/Range/All/GetWithMap/Len/Map) must return exactly the
//	             content of the map at one instant.
//
// stdout: machine-readable result lines (PAIRS …, HIST …, LIN {json}).
package main

import (
	"encoding/json"
	"flag"
	"fmt"
	"iter"
	"os"
	"runtime"
	"sort"
	"strings"
	"sync"
	"sync/atomic"
	"time"

	"github.com/anishathalye/porcupine"
	"github.com/welllog/golib/mapz"
)

type rng struct{ s uint64 }

func (r *rng) next() uint64 {
	r.s += 0x9e3779b97f4a7c15
	z := r.s
	z = (z ^ (z >> 30)) * 0xbf58476d1ce4e5b9
	z = (z ^ (z >> 27)) * 0x94d049bb133111eb
	return z ^ (z >> 31)
}
func (r *rng) intn(n int) int { return int(r.next() % uint64(n)) }

type kv = mapz.SafeKV[int, int]

// ---------------------------------------------------------------- pairs mode

type meth struct {
	name string
	call func(s *kv, i int)
}

var sink atomic.Int64

var heldSeq sync.Map // *kv -> iter.Seq2[int,int]

func methods() []meth {
	return []meth{
		{"Get", func(s *kv, i int) { v, _ := s.Get(i % 4); sink.Add(int64(v)) }},
		{"GetWithMap", func(s *kv, i int) { m := map[int]int{0: 0, 1: 0, 5: 0}; s.GetWithMap(m); sink.Add(int64(len(m))) }},
		{"GetWithLock", func(s *kv, i int) { s.GetWithLock(i%4, func(v int) { sink.Add(int64(v)) }) }},
		{"Set", func(s *kv, i int) { s.Set(i%4, i) }},
		{"SetNx", func(s *kv, i int) { s.SetNx(i%4, i) }},
		{"SetX", func(s *kv, i int) { s.SetX(i%4, i) }},
		{"Delete", func(s *kv, i int) { s.Delete(i%4, (i+1)%4) }},
		{"Has", func(s *kv, i int) { s.Has(i % 4) }},
		{"Contains", func(s *kv, i int) { s.Contains(i % 4) }},
		{"Len", func(s *kv, i int) { sink.Add(int64(s.Len())) }},
		{"Keys", func(s *kv, i int) { sink.Add(int64(len(s.Keys()))) }},
		{"Values", func(s *kv, i int) { sink.Add(int64(len(s.Values()))) }},
		{"Range", func(s *kv, i int) { s.Range(func(k, v int) bool { sink.Add(int64(v)); return true }) }},
		{"Clear", func(s *kv, i int) { s.Clear() }},
		{"Map", func(s *kv, i int) { s.Map(func(m mapz.KV[int, int]) { m[i%4] = i; delete(m, (i+2)%4) }) }},
		{"All", func(s *kv, i int) {
			for _, v := range s.All() {
				sink.Add(int64(v))
			}
		}},
		// an iterator handle obtained ONCE (when the pair starts) and ranged again and
		// again while the other side runs: All() must not have captured anything
		{"AllHeld", func(s *kv, i int) {
			h, ok := heldSeq.Load(s)
			if !ok {
				h, _ = heldSeq.LoadOrStore(s, s.All())
			}
			for _, v := range h.(iter.Seq2[int, int]) {
				sink.Add(int64(v))
			}
		}},
	}
}

func runPairs(only string, seed uint64, perPair time.Duration, minIters int) {
	ms := methods()
	pairs, iters := 0, 0
	for a := 0; a < len(ms); a++ {
		for b := a; b < len(ms); b++ {
			if only != "" && only != ms[a].name+","+ms[b].name && only != ms[b].name+","+ms[a].name {
				continue
			}
			fmt.Fprintf(os.Stderr, "PAIR %s %s seed=%d\n", ms[a].name, ms[b].name, seed)
			s := mapz.NewSafeKV[int, int](4)
			s.Set(0, 1)
			s.Set(1, 2)
			var stop atomic.Bool
			var wg sync.WaitGroup
			var cnt [2]atomic.Int64
			for g, m := range []meth{ms[a], ms[b]} {
				wg.Add(1)
				go func(g int, m meth) {
					defer wg.Done()
					i := int(seed%7) + g
					for !stop.Load() {
						m.call(s, i)
						i++
						cnt[g].Add(1)
					}
				}(g, m)
			}
			// a third goroutine keeps the map non-trivial for read/read and
			// conditional pairs; it uses only Set/Delete (themselves under test)
			deadline := time.Now().Add(perPair)
			hard := time.Now().Add(perPair * 50)
			for time.Now().Before(hard) {
				if time.Now().After(deadline) && cnt[0].Load() >= int64(minIters) && cnt[1].Load() >= int64(minIters) {
					break
				}
				time.Sleep(200 * time.Microsecond)
			}
			stop.Store(true)
			if !waitTimeout(&wg, 10*time.Second) {
				// both sides were told to stop and every call is a handful of map
				// operations: a call that does not return is blocked on the mutex
				stuck("PAIR", ms[a].name+" "+ms[b].name, seed)
			}
			pairs++
			iters += int(cnt[0].Load() + cnt[1].Load())
			fmt.Fprintf(os.Stderr, "ENDPAIR %s %s\n", ms[a].name, ms[b].name)
		}
	}
	fmt.Printf("PAIRS pairs=%d iters=%d\n", pairs, iters)
}

// waitTimeout waits for wg, at most d.
func waitTimeout(wg *sync.WaitGroup, d time.Duration) bool {
	done := make(chan struct{})
	go func() { wg.Wait(); close(done) }()
	select {
	case <-done:
		return true
	case <-time.After(d):
		return false
	}
}

// stuck reports calls that never return (with the goroutine dump as the proof: the
// goroutines are parked in sync.(*RWMutex) and nobody holds the lock any more) and
// ends the process; the harness turns it into a `deadlock` failure with this replay.
func stuck(mode, what string, seed uint64) {
	buf := make([]byte, 1<<20)
	buf = buf[:runtime.Stack(buf, true)]
	var blocked []string
	for _, g := range strings.Split(string(buf), "\n\n") {
		if strings.Contains(g, "sync.(*RWMutex)") && strings.Contains(g, "mapz.(*SafeKV") {
			if len(g) > 1500 {
				g = g[:1500]
			}
			blocked = append(blocked, g)
		}
	}
	b, _ := json.Marshal(map[string]any{"mode": mode, "what": what, "seed": seed, "blocked_goroutines": blocked})
	fmt.Printf("STUCK %s\n", b)
	os.Exit(3)
}

// ---------------------------------------------------------------- hist mode

const NK = 3

type state [NK]int32 // -1 = absent

type input struct {
	Op   string `json:"op"`
	K    int    `json:"k"`
	K2   int    `json:"k2"`
	V    int    `json:"v"`
	Args string `json:"args,omitempty"`
}

type opRec struct {
	G      int    `json:"g"`
	In     input  `json:"in"`
	Out    string `json:"out"`
	Call   int64  `json:"call"`
	Return int64  `json:"ret"`
}

func pairsStr(ps [][2]int) string {
	sort.Slice(ps, func(i, j int) bool {
		if ps[i][0] != ps[j][0] {
			return ps[i][0] < ps[j][0]
		}
		return ps[i][1] < ps[j][1]
	})
	var sb strings.Builder
	for _, p := range ps {
		fmt.Fprintf(&sb, "%d:%d ", p[0], p[1])
	}
	return sb.String()
}

func intsStr(xs []int) string {
	sort.Ints(xs)
	return fmt.Sprint(xs)
}

func (st state) pairs() [][2]int {
	var ps [][2]int
	for k, v := range st {
		if v >= 0 {
			ps = append(ps, [2]int{k, int(v)})
		}
	}
	return ps
}

func (st state) size() int {
	n := 0
	for _, v := range st {
		if v >= 0 {
			n++
		}
	}
	return n
}

// the sequential specification: a plain map
func step(stI interface{}, inI interface{}, outI interface{}) (bool, interface{}) {
	st := stI.(state)
	in := inI.(input)
	out := outI.(string)
	switch in.Op {
	case "get", "getwithlock":
		v := st[in.K]
		if v < 0 {
			return out == "0,false", st
		}
		return out == fmt.Sprintf("%d,true", v), st
	case "set", "mapset":
		st[in.K] = int32(in.V)
		return out == "", st
	case "setnx":
		if st[in.K] < 0 {
			st[in.K] = int32(in.V)
			return out == "true", st
		}
		return out == "false", st
	case "setx":
		if st[in.K] >= 0 {
			st[in.K] = int32(in.V)
			return out == "true", st
		}
		return out == "false", st
	case "del":
		st[in.K] = -1
		st[in.K2] = -1
		return out == "", st
	case "has", "contains":
		return out == fmt.Sprint(st[in.K] >= 0), st
	case "len", "maplen":
		return out == fmt.Sprint(st.size()), st
	case "keys":
		var ks []int
		for _, p := range st.pairs() {
			ks = append(ks, p[0])
		}
		return out == intsStr(ks), st
	case "values":
		var vs []int
		for _, p := range st.pairs() {
			vs = append(vs, p[1])
		}
		return out == intsStr(vs), st
	case "range", "all":
		return out == pairsStr(st.pairs()), st
	case "getwithmap":
		// the caller's map has every key 0..NK-1 with value 0 (0 is never stored)
		var ps [][2]int
		for k, v := range st {
			if v >= 0 {
				ps = append(ps, [2]int{k, int(v)})
			} else {
				ps = append(ps, [2]int{k, 0})
			}
		}
		return out == pairsStr(ps), st
	case "clear":
		return out == "", state{-1, -1, -1}
	}
	return false, st
}

var model = porcupine.Model{
	Init: func() interface{} { return state{-1, -1, -1} },
	Step: step,
	DescribeOperation: func(in, out interface{}) string {
		return fmt.Sprintf("%+v -> %q", in, out)
	},
}

func perform(s *kv, in input) string {
	switch in.Op {
	case "get":
		v, ok := s.Get(in.K)
		return fmt.Sprintf("%d,%v", v, ok)
	case "getwithlock":
		res := "0,false"
		s.GetWithLock(in.K, func(v int) { res = fmt.Sprintf("%d,true", v) })
		return res
	case "set":
		s.Set(in.K, in.V)
		return ""
	case "mapset":
		s.Map(func(m mapz.KV[int, int]) { m[in.K] = in.V })
		return ""
	case "setnx":
		return fmt.Sprint(s.SetNx(in.K, in.V))
	case "setx":
		return fmt.Sprint(s.SetX(in.K, in.V))
	case "del":
		s.Delete(in.K, in.K2)
		return ""
	case "has":
		return fmt.Sprint(s.Has(in.K))
	case "contains":
		return fmt.Sprint(s.Contains(in.K))
	case "len":
		return fmt.Sprint(s.Len())
	case "maplen":
		n := 0
		s.Map(func(m mapz.KV[int, int]) { n = len(m) })
		return fmt.Sprint(n)
	case "keys":
		return intsStr(s.Keys())
	case "values":
		return intsStr(s.Values())
	case "range":
		var ps [][2]int
		s.Range(func(k, v int) bool { ps = append(ps, [2]int{k, v}); return true })
		return pairsStr(ps)
	case "all":
		var ps [][2]int
		for k, v := range s.All() {
			ps = append(ps, [2]int{k, v})
		}
		return pairsStr(ps)
	case "getwithmap":
		m := map[int]int{}
		for k := 0; k < NK; k++ {
			m[k] = 0
		}
		s.GetWithMap(m)
		var ps [][2]int
		for k, v := range m {
			ps = append(ps, [2]int{k, v})
		}
		return pairsStr(ps)
	case "clear":
		s.Clear()
		return ""
	}
	panic("unknown op " + in.Op)
}

var opNames = []string{"get", "set", "setnx", "setx", "del", "has", "contains", "len", "keys", "values",
	"range", "all", "getwithmap", "getwithlock", "clear", "maplen", "mapset"}

func genOp(r *rng, scenario int, val *int) input {
	*val++
	in := input{K: r.intn(NK), K2: r.intn(NK), V: *val}
	switch scenario {
	case 1: // SetNx storm on one key, with deletes making it absent again
		in.K, in.K2 = 0, 0
		in.Op = []string{"setnx", "setnx", "setnx", "del", "get"}[r.intn(5)]
	case 2: // SetX must never create: SetX vs Delete vs Has/Len
		in.Op = []string{"setx", "setx", "del", "setnx", "has", "len", "keys"}[r.intn(7)]
	case 3: // snapshots against writers
		in.Op = []string{"set", "del", "clear", "keys", "values", "range", "all", "getwithmap", "len", "maplen", "mapset"}[r.intn(11)]
	default:
		in.Op = opNames[r.intn(len(opNames))]
	}
	return in
}

func runHist(seed uint64, dur time.Duration, minRounds, G, M int, maxReport int) {
	r := &rng{s: seed}
	rounds, ops, illegal, unknown := 0, 0, 0, 0
	deadline := time.Now().Add(dur)
	for rounds < minRounds || time.Now().Before(deadline) {
		rseed := r.next()
		rr := &rng{s: rseed}
		scenario := rr.intn(5)
		s := mapz.NewSafeKV[int, int](0)
		val := 0
		// scripts are generated up-front (deterministic in rseed)
		scripts := make([][]input, G)
		for g := range scripts {
			for j := 0; j < M; j++ {
				scripts[g] = append(scripts[g], genOp(rr, scenario, &val))
			}
		}
		var clock atomic.Int64
		recs := make([][]opRec, G)
		var start, wg sync.WaitGroup
		start.Add(1)
		for g := 0; g < G; g++ {
			wg.Add(1)
			go func(g int) {
				defer wg.Done()
				start.Wait()
				for _, in := range scripts[g] {
					c := clock.Add(1)
					out := perform(s, in)
					ret := clock.Add(1)
					recs[g] = append(recs[g], opRec{G: g, In: in, Out: out, Call: c, Return: ret})
				}
			}(g)
		}
		start.Done()
		if !waitTimeout(&wg, 10*time.Second) {
			b, _ := json.Marshal(scripts)
			stuck("HIST", fmt.Sprintf("round_seed=%d scripts=%s", rseed, b), seed)
		}
		var hist []porcupine.Operation
		var all []opRec
		for g := range recs {
			for _, o := range recs[g] {
				hist = append(hist, porcupine.Operation{ClientId: g, Input: o.In, Call: o.Call, Output: o.Out, Return: o.Return})
				all = append(all, o)
			}
		}
		res := porcupine.CheckOperationsTimeout(model, hist, 5*time.Second)
		rounds++
		ops += len(hist)
		switch res {
		case porcupine.Illegal:
			illegal++
			if illegal <= maxReport {
				sort.Slice(all, func(i, j int) bool { return all[i].Call < all[j].Call })
				b, _ := json.Marshal(map[string]any{"round_seed": rseed, "scenario": scenario, "goroutines": G, "history": all})
				fmt.Printf("LIN %s\n", b)
			}
		case porcupine.Unknown:
			unknown++
		}
	}
	fmt.Printf("HIST rounds=%d ops=%d illegal=%d unknown=%d\n", rounds, ops, illegal, unknown)
}

// ---------------------------------------------------------------- bulk mode
//
// Atomicity of the bulk operations. One writer moves the map between exactly two
// contents — empty and "keys 0..N-1" — and every move is ONE SafeKV call
// (Map-fill, Delete(all keys...), Clear, Map-empty). Observers take snapshots with
// Len / Keys / Values / Range / All / GetWithMap / Map and count: a count that is
// neither 0 nor N was taken from a state that no single call boundary produces,
// i.e. some bulk call (or the snapshot) is not atomic. Witness = observer method +
// writer call in flight + N + observed count. No timing is involved in the verdict.

type bulkWitness struct {
	Observer string `json:"observer"`
	Writer   string `json:"writer_call_in_flight"`
	N        int    `json:"n"`
	Observed int    `json:"observed_count"`
	Cycle    int64  `json:"writer_cycle"`
	Seed     uint64 `json:"seed"`
}

func runBulk(seed uint64, n int, dur time.Duration, minCycles int64) {
	s := mapz.NewSafeKV[int, int](0)
	keys := make([]int, n)
	for i := range keys {
		keys[i] = i
	}
	var inflight atomic.Value
	inflight.Store("none")
	var cycles, observations atomic.Int64
	var stop atomic.Bool
	var mu sync.Mutex
	seen := map[string]bool{}
	var wits []bulkWitness
	report := func(obs string, cnt int, before string) {
		w := before
		if w == "none" {
			w = inflight.Load().(string)
		}
		mu.Lock()
		if !seen[obs+"/"+w] && len(wits) < 8 {
			seen[obs+"/"+w] = true
			wits = append(wits, bulkWitness{Observer: obs, Writer: w, N: n, Observed: cnt, Cycle: cycles.Load(), Seed: seed})
		}
		mu.Unlock()
	}
	fill := func() {
		inflight.Store("Map(fill)")
		s.Map(func(m mapz.KV[int, int]) {
			for _, k := range keys {
				m[k] = k + 1
			}
		})
		inflight.Store("none")
	}
	var wg sync.WaitGroup
	wg.Add(1)
	go func() { // writer
		defer wg.Done()
		r := &rng{s: seed}
		for !stop.Load() {
			fill()
			switch r.intn(3) {
			case 0:
				inflight.Store("Delete")
				s.Delete(keys...)
			case 1:
				inflight.Store("Clear")
				s.Clear()
			case 2:
				inflight.Store("Map(empty)")
				s.Map(func(m mapz.KV[int, int]) {
					for k := range m {
						delete(m, k)
					}
				})
			}
			inflight.Store("none")
			cycles.Add(1)
		}
	}()
	observers := []struct {
		name string
		f    func() int
	}{
		{"Len", func() int { return s.Len() }},
		{"Keys", func() int { return len(s.Keys()) }},
		{"Values", func() int { return len(s.Values()) }},
		{"Range", func() int { c := 0; s.Range(func(int, int) bool { c++; return true }); return c }},
		{"All", func() int {
			c := 0
			for range s.All() {
				c++
			}
			return c
		}},
		{"GetWithMap", func() int {
			m := make(map[int]int, n)
			for _, k := range keys {
				m[k] = 0
			}
			s.GetWithMap(m)
			c := 0
			for _, v := range m {
				if v != 0 {
					c++
				}
			}
			return c
		}},
		{"Map(len)", func() int { c := 0; s.Map(func(m mapz.KV[int, int]) { c = len(m) }); return c }},
	}
	for _, o := range observers {
		wg.Add(1)
		o := o
		go func() {
			defer wg.Done()
			for !stop.Load() {
				before := inflight.Load().(string)
				c := o.f()
				observations.Add(1)
				if c != 0 && c != n {
					report(o.name, c, before)
				}
			}
		}()
	}
	deadline := time.Now().Add(dur)
	hard := time.Now().Add(dur * 20)
	for time.Now().Before(hard) {
		if time.Now().After(deadline) && cycles.Load() >= minCycles {
			break
		}
		time.Sleep(time.Millisecond)
	}
	stop.Store(true)
	if !waitTimeout(&wg, 10*time.Second) {
		stuck("BULK", "writer "+inflight.Load().(string), seed)
	}
	mu.Lock()
	for _, w := range wits {
		b, _ := json.Marshal(w)
		fmt.Printf("BULK %s\n", b)
	}
	mu.Unlock()
	fmt.Printf("BULKSTAT n=%d cycles=%d observations=%d witnesses=%d\n", n, cycles.Load(), observations.Load(), len(wits))
}

// ---------------------------------------------------------------- gen mode
//
// Large snapshots (sizes beyond any plausible internal batching threshold). The map is
// always exactly "keys 0..size(g)-1, every value = g" for a generation g, with
// size(g) = N for even g and 2N for odd g; the writer moves it from g to g+1 inside ONE
// Map call. An observer's traversal must see ONE generation and exactly size(g) entries.
// Observers stop at their first inconsistency (witness = observer, N, the generations
// and the count seen). No timing is involved in the verdict.

type genWitness struct {
	Observer string `json:"observer"`
	N        int    `json:"n"`
	Gens     []int  `json:"generations_seen_in_one_traversal"`
	Count    int    `json:"entries_seen"`
	Want     string `json:"expected"`
	Cycle    int64  `json:"writer_generation"`
	Seed     uint64 `json:"seed"`
}

func runGen(seed uint64, n int, dur time.Duration, minCycles int64) {
	size := func(g int) int {
		if g%2 == 0 {
			return n
		}
		return 2 * n
	}
	s := mapz.NewSafeKV[int, int](0)
	gen := 2
	s.Map(func(m mapz.KV[int, int]) {
		for k := 0; k < size(gen); k++ {
			m[k] = gen
		}
	})
	var cycles, observations atomic.Int64
	var stop atomic.Bool
	var mu sync.Mutex
	var wits []genWitness
	var wg sync.WaitGroup
	wg.Add(1)
	go func() { // writer: generation g -> g+1 in one call
		defer wg.Done()
		for !stop.Load() {
			gen++
			g := gen
			s.Map(func(m mapz.KV[int, int]) {
				sz := size(g)
				for k := 0; k < sz; k++ {
					m[k] = g
				}
				for k := sz; k < 2*n; k++ {
					delete(m, k)
				}
			})
			cycles.Add(1)
			runtime.Gosched()
		}
	}()
	// judge one traversal: values seen (nil = the observer cannot see values) and count
	perObs := map[string]*atomic.Int64{}
	for _, o := range []string{"All", "Range", "Keys", "Values", "GetWithMap", "Len"} {
		perObs[o] = new(atomic.Int64)
	}
	minPer := func() int64 {
		m := int64(1 << 62)
		for _, c := range perObs {
			if v := c.Load(); v < m {
				m = v
			}
		}
		return m
	}
	judge := func(obs string, gens map[int]int, count int) bool {
		observations.Add(1)
		perObs[obs].Add(1)
		ok := true
		var gs []int
		for g := range gens {
			gs = append(gs, g)
		}
		sort.Ints(gs)
		want := fmt.Sprintf("one generation g and size(g) entries (%d for even g, %d for odd g)", n, 2*n)
		switch {
		case gens == nil:
			ok = count == n || count == 2*n
		case len(gs) != 1:
			ok = false
		default:
			ok = count == size(gs[0])
		}
		if !ok {
			mu.Lock()
			wits = append(wits, genWitness{Observer: obs, N: n, Gens: gs, Count: count, Want: want, Cycle: cycles.Load(), Seed: seed})
			mu.Unlock()
		}
		return ok
	}
	observers := []struct {
		name string
		f    func() bool
	}{
		{"All", func() bool {
			gens := map[int]int{}
			c := 0
			for _, v := range s.All() {
				gens[v]++
				c++
			}
			return judge("All", gens, c)
		}},
		{"Range", func() bool {
			gens := map[int]int{}
			c := 0
			s.Range(func(_, v int) bool { gens[v]++; c++; return true })
			return judge("Range", gens, c)
		}},
		{"Keys", func() bool { return judge("Keys", nil, len(s.Keys())) }},
		{"Values", func() bool {
			gens := map[int]int{}
			vs := s.Values()
			for _, v := range vs {
				gens[v]++
			}
			return judge("Values", gens, len(vs))
		}},
		{"GetWithMap", func() bool {
			m := make(map[int]int, 2*n)
			for k := 0; k < 2*n; k++ {
				m[k] = 0
			}
			s.GetWithMap(m)
			gens := map[int]int{}
			c := 0
			for _, v := range m {
				if v != 0 {
					gens[v]++
					c++
				}
			}
			return judge("GetWithMap", gens, c)
		}},
		{"Len", func() bool { return judge("Len", nil, s.Len()) }},
	}
	for _, o := range observers {
		wg.Add(1)
		o := o
		go func() {
			defer wg.Done()
			for !stop.Load() {
				if !o.f() {
					return // stop at the first inconsistency
				}
			}
		}()
	}
	deadline := time.Now().Add(dur)
	hard := time.Now().Add(dur * 20)
	for time.Now().Before(hard) {
		mu.Lock()
		nw := len(wits)
		mu.Unlock()
		// every observer has completed several traversals against a moving writer
		// (an observer that found an inconsistency has stopped: do not wait for it)
		if time.Now().After(deadline) && cycles.Load() >= minCycles && (minPer() >= 5 || nw > 0) {
			break
		}
		time.Sleep(time.Millisecond)
	}
	stop.Store(true)
	if !waitTimeout(&wg, 20*time.Second) {
		stuck("GEN", "generation writer / observers", seed)
	}
	mu.Lock()
	for _, w := range wits {
		b, _ := json.Marshal(w)
		fmt.Printf("GEN %s\n", b)
	}
	mu.Unlock()
	fmt.Printf("GENSTAT n=%d cycles=%d observations=%d witnesses=%d minperobserver=%d\n", n, cycles.Load(), observations.Load(), len(wits), minPer())
}

func main() {
	mode := flag.String("mode", "pairs", "pairs | hist | bulk | gen")
	bulkN := flag.Int("n", 300, "bulk mode: number of keys")
	minCycles := flag.Int64("mincycles", 50, "bulk mode: minimum number of fill/empty cycles")
	seed := flag.Uint64("seed", 1, "seed")
	pair := flag.String("pair", "", "pairs mode: only this pair, e.g. Keys,Set")
	perPair := flag.Duration("perpair", 25*time.Millisecond, "pairs mode: minimum time per pair")
	minIters := flag.Int("miniters", 300, "pairs mode: minimum iterations of each side")
	dur := flag.Duration("dur", 2*time.Second, "hist mode: duration")
	minRounds := flag.Int("minrounds", 200, "hist mode: minimum number of rounds")
	G := flag.Int("g", 4, "hist mode: goroutines per round")
	M := flag.Int("m", 4, "hist mode: operations per goroutine")
	flag.Parse()
	switch *mode {
	case "pairs":
		runPairs(*pair, *seed, *perPair, *minIters)
	case "hist":
		runHist(*seed, *dur, *minRounds, *G, *M, 3)
	case "bulk":
		runBulk(*seed, *bulkN, *dur, *minCycles)
	case "gen":
		runGen(*seed, *bulkN, *dur, *minCycles)
	default:
		fmt.Fprintln(os.Stderr, "unknown mode")
		os.Exit(2)
	}
}
