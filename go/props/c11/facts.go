package c11

import (
	"fmt"
	"go/ast"
	"go/parser"
	"go/token"
	"path/filepath"
	"strings"
)

// facts regenerates lean/Golib/Gen/FactsC11.lean from listz/sync_list.go: the
// shared-memory accesses of Push, Pop and Len in SOURCE ORDER (calls into sync/atomic,
// runtime.Gosched, plain accesses to a node's `value`).  Golib/Proof/C11Facts.lean
// states, by `decide`, that this is the order of the model's program counters; a
// reordering in the source (e.g. undoing the F7 repair) breaks that obligation.
func facts(repo string) (string, error) {
	fset := token.NewFileSet()
	f, err := parser.ParseFile(fset, filepath.Join(repo, "listz", "sync_list.go"), nil, 0)
	if err != nil {
		return "", err
	}
	want := map[string]bool{"Push": true, "Pop": true, "Len": true, "PopWait": true}
	got := map[string][]string{}
	ctl := map[string][]string{}
	for _, d := range f.Decls {
		fd, ok := d.(*ast.FuncDecl)
		if !ok || fd.Recv == nil || !want[fd.Name.Name] || fd.Body == nil {
			continue
		}
		if !strings.Contains(exprString(fd.Recv.List[0].Type), "SyncList") {
			continue
		}
		if fd.Name.Name == "PopWait" {
			got[fd.Name.Name] = popWaitShape(fd)
			continue
		}
		got[fd.Name.Name] = accesses(fd.Body)
		ctl[fd.Name.Name] = ctlShape(fd.Body)
	}
	var b strings.Builder
	b.WriteString("-- generated on every run by go/props/c11 (Facts) from listz/sync_list.go; do not edit\n")
	b.WriteString("import Golib.Model.C11List\n\nnamespace Golib.Gen.C11\nopen Golib.C11\n\n")
	for _, name := range []string{"Push", "Pop", "Len"} {
		ops, ok := got[name]
		if !ok {
			return "", fmt.Errorf("method SyncList.%s not found", name)
		}
		fmt.Fprintf(&b, "/-- shared-memory accesses of `%s` in source order -/\ndef %sOps : List SrcOp :=\n  [%s]\n\n", name, strings.ToLower(name), strings.Join(ops, ", "))
	}
	for _, name := range []string{"Push", "Pop", "Len"} {
		fmt.Fprintf(&b, "/-- control skeleton of `%s`: loops, branches, returns, calls of anything that is not a\nsync/atomic operation, `runtime.Gosched` or a conversion -/\ndef %sCtl : List SrcOp :=\n  [%s]\n\n", name, strings.ToLower(name), strings.Join(ctl[name], ", "))
	}
	pw, ok := got["PopWait"]
	if !ok {
		return "", fmt.Errorf("method SyncList.PopWait not found")
	}
	fmt.Fprintf(&b, "/-- control skeleton of `PopWait` in source order: tests of the duration parameter, loops,\ncalls of `Pop`, `runtime.Gosched`, returns, the ticker -/\ndef popWaitOps : List SrcOp :=\n  [%s]\n\n", strings.Join(pw, ", "))
	b.WriteString("end Golib.Gen.C11\n")
	return b.String(), nil
}

func exprString(e ast.Expr) string {
	switch x := e.(type) {
	case *ast.Ident:
		return x.Name
	case *ast.StarExpr:
		return "*" + exprString(x.X)
	case *ast.IndexExpr:
		return exprString(x.X) + "[" + exprString(x.Index) + "]"
	case *ast.SelectorExpr:
		return exprString(x.X) + "." + x.Sel.Name
	case *ast.UnaryExpr:
		return x.Op.String() + exprString(x.X)
	case *ast.BasicLit:
		return x.Value
	case *ast.ParenExpr:
		return exprString(x.X)
	case *ast.BinaryExpr:
		return exprString(x.X) + " " + x.Op.String() + " " + exprString(x.Y)
	case *ast.CallExpr:
		var as []string
		for _, a := range x.Args {
			as = append(as, exprString(a))
		}
		return exprString(x.Fun) + "(" + strings.Join(as, ", ") + ")"
	}
	return "?"
}

// field = last selector of `&x.f`
func addrField(e ast.Expr) string {
	if u, ok := e.(*ast.UnaryExpr); ok && u.Op == token.AND {
		if s, ok := u.X.(*ast.SelectorExpr); ok {
			return s.Sel.Name
		}
	}
	return "?"
}

func accesses(body *ast.BlockStmt) []string {
	var ops []string
	other := func(s string) { ops = append(ops, fmt.Sprintf(".other %q", s)) }
	writes := map[*ast.SelectorExpr]bool{}
	ast.Inspect(body, func(n ast.Node) bool {
		switch x := n.(type) {
		case *ast.AssignStmt:
			for _, l := range x.Lhs {
				if s, ok := l.(*ast.SelectorExpr); ok && s.Sel.Name == "value" {
					writes[s] = true
				}
			}
		case *ast.CallExpr:
			sel, ok := x.Fun.(*ast.SelectorExpr)
			if !ok {
				return true
			}
			pkg, _ := sel.X.(*ast.Ident)
			if pkg == nil {
				return true
			}
			if pkg.Name == "runtime" && sel.Sel.Name == "Gosched" {
				ops = append(ops, ".gosched")
				return true
			}
			if pkg.Name != "atomic" {
				return true
			}
			fld := "?"
			if len(x.Args) > 0 {
				fld = addrField(x.Args[0])
			}
			key := sel.Sel.Name + " " + fld
			switch key {
			case "LoadPointer tail":
				ops = append(ops, ".loadTail")
			case "LoadPointer head":
				ops = append(ops, ".loadHead")
			case "LoadPointer next":
				ops = append(ops, ".loadNext")
			case "CompareAndSwapPointer next":
				ops = append(ops, ".casNext")
			case "CompareAndSwapPointer head":
				ops = append(ops, ".casHead")
			case "StorePointer tail":
				ops = append(ops, ".storeTail")
			case "LoadInt64 len":
				ops = append(ops, ".loadLen")
			case "AddInt64 len":
				d := "?"
				if len(x.Args) == 2 {
					d = exprString(x.Args[1])
				}
				switch d {
				case "1":
					ops = append(ops, ".addLen 1")
				case "-1":
					ops = append(ops, ".addLen (-1)")
				default:
					other("AddInt64 len " + d)
				}
			default:
				other(key)
			}
		case *ast.SelectorExpr:
			if x.Sel.Name == "value" {
				if writes[x] {
					ops = append(ops, ".writeVal")
				} else {
					ops = append(ops, ".readVal")
				}
			}
		}
		return true
	})
	return ops
}

// popWaitShape: the control skeleton of PopWait in source order.  The duration parameter
// is renamed to `d` so that a harmless renaming does not change the facts.
func popWaitShape(fd *ast.FuncDecl) []string {
	param := ""
	if fd.Type.Params != nil && len(fd.Type.Params.List) == 1 && len(fd.Type.Params.List[0].Names) == 1 {
		param = fd.Type.Params.List[0].Names[0].Name
	}
	recv := ""
	if len(fd.Recv.List[0].Names) == 1 {
		recv = fd.Recv.List[0].Names[0].Name
	}
	mentions := func(e ast.Expr) bool {
		found := false
		ast.Inspect(e, func(n ast.Node) bool {
			if id, ok := n.(*ast.Ident); ok && id.Name == param && param != "" {
				found = true
			}
			return true
		})
		return found
	}
	var ops []string
	ast.Inspect(fd.Body, func(n ast.Node) bool {
		switch x := n.(type) {
		case *ast.IfStmt:
			if mentions(x.Cond) {
				c := strings.ReplaceAll(" "+exprString(x.Cond)+" ", " "+param+" ", " d ")
				ops = append(ops, fmt.Sprintf(".cond %q", strings.TrimSpace(c)))
			}
		case *ast.ForStmt, *ast.RangeStmt:
			ops = append(ops, ".loop")
		case *ast.ReturnStmt:
			ops = append(ops, ".ret")
		case *ast.UnaryExpr:
			if x.Op == token.ARROW {
				ops = append(ops, fmt.Sprintf(".other %q", "recv "+exprString(x.X)))
			}
		case *ast.CallExpr:
			if sel, ok := x.Fun.(*ast.SelectorExpr); ok {
				if id, ok := sel.X.(*ast.Ident); ok {
					switch {
					case id.Name == recv && sel.Sel.Name == "Pop":
						ops = append(ops, ".callPop")
					case id.Name == recv && recv != "":
						// any other method of the list called from PopWait (the model has none)
						ops = append(ops, fmt.Sprintf(".other %q", "call "+sel.Sel.Name))
					case id.Name == "runtime" && sel.Sel.Name == "Gosched":
						ops = append(ops, ".gosched")
					case id.Name == "time" && sel.Sel.Name == "NewTicker":
						ops = append(ops, ".ticker")
					case id.Name == "atomic":
						ops = append(ops, fmt.Sprintf(".other %q", "atomic."+sel.Sel.Name))
					}
				}
			}
		}
		return true
	})
	return ops
}

// ctlShape: the control skeleton of a method body in source order — loops, branches,
// returns, and calls of anything that is not sync/atomic, runtime.Gosched or a type
// conversion (a helper such as `uniproc()`, `runtime.GOMAXPROCS`, a second loop walking the
// chain … all change it).  Conditions are not rendered, so renaming locals is harmless.
func ctlShape(body *ast.BlockStmt) []string {
	conv := map[string]bool{"int": true, "int64": true, "int32": true, "uint64": true, "uint32": true, "uintptr": true, "len": true}
	var ops []string
	ast.Inspect(body, func(n ast.Node) bool {
		switch x := n.(type) {
		case *ast.ForStmt, *ast.RangeStmt:
			ops = append(ops, ".loop")
		case *ast.IfStmt:
			ops = append(ops, ".cond \"if\"")
			if x.Else != nil {
				ops = append(ops, ".cond \"else\"")
			}
		case *ast.SwitchStmt, *ast.TypeSwitchStmt, *ast.SelectStmt, *ast.GoStmt, *ast.DeferStmt, *ast.BranchStmt:
			ops = append(ops, fmt.Sprintf(".other %q", fmt.Sprintf("%T", n)))
		case *ast.ReturnStmt:
			ops = append(ops, ".ret")
		case *ast.CallExpr:
			switch f := x.Fun.(type) {
			case *ast.Ident:
				if !conv[f.Name] {
					ops = append(ops, fmt.Sprintf(".other %q", "call "+f.Name))
				}
			case *ast.SelectorExpr:
				if id, ok := f.X.(*ast.Ident); ok {
					full := id.Name + "." + f.Sel.Name
					if id.Name != "atomic" && full != "runtime.Gosched" && full != "unsafe.Pointer" {
						ops = append(ops, fmt.Sprintf(".other %q", "call "+full))
					}
				}
			}
		}
		return true
	})
	return ops
}
