package c11

import (
	"fmt"
	"strings"

	"verifharness/internal/core"
	"verifharness/internal/sched/drive"
)

type config struct {
	ninit int
	progs [][]string
	bound int // preemption bound of the DFS (0 = default 3)
	max   int // cap on the number of schedules in the quick tier (0 = default)
	uni   bool // run with the runtime shim reporting GOMAXPROCS == 1 (header `list1`)
}

func (c config) header() string {
	kind := "list"
	if c.uni {
		kind = "list1"
	}
	return fmt.Sprintf("@ C11 %s %d%s", kind, c.ninit, drive.FmtProgs(c.progs))
}

func (c config) procs() int {
	if c.uni {
		return 1
	}
	return 8
}

func p(calls ...string) []string { return calls }

// DFS configurations: every schedule with ≤ 3 preemptions is executed.
var quickDFS = []config{
	{ninit: 0, progs: [][]string{p("u11"), p("o")}},
	{ninit: 0, progs: [][]string{p("u11"), p("o"), p("l")}},
	{ninit: 0, progs: [][]string{p("u11"), p("u21")}},
	{ninit: 1, progs: [][]string{p("o"), p("o")}},
	{ninit: 2, progs: [][]string{p("o"), p("o"), p("l")}},
	{ninit: 0, progs: [][]string{p("u11"), p("u21"), p("o")}},
	{ninit: 1, progs: [][]string{p("u11", "o"), p("o", "u21")}},
	{ninit: 0, progs: [][]string{p("u11", "u12"), p("o", "o")}},
	{ninit: 0, progs: [][]string{p("u11", "o"), p("u21", "o"), p("l", "l")}},
	{ninit: 1, progs: [][]string{p("u11", "o"), p("o", "u21"), p("o", "l")}},
	// PopWait: `w` = PopWait(-1) spins (Pop, Gosched) until a push is published,
	// `z` = PopWait(0) is one Pop.  Every `w` is guaranteed a value (see feasible).
	{ninit: 0, progs: [][]string{p("w"), p("u11")}},
	{ninit: 1, progs: [][]string{p("w"), p("u11"), p("o")}},
	{ninit: 1, progs: [][]string{p("z"), p("o"), p("u11")}},
	{ninit: 0, progs: [][]string{p("w", "w"), p("u11", "u12")}},
	{ninit: 3, progs: [][]string{p("w", "u11"), p("w", "z")}},
	// three-party windows: pusher A stalled between link and publication, pusher B
	// spinning / overtaking, popper C, Len observer
	{ninit: 0, progs: [][]string{p("u11"), p("u21"), p("o"), p("l")}, bound: 2, max: 1200},
	{ninit: 1, progs: [][]string{p("u11"), p("u21"), p("o", "l")}, max: 1200},
	{ninit: 0, progs: [][]string{p("u11"), p("u21"), p("w"), p("l")}, bound: 2, max: 1200},
	// timed PopWait (`t<k>`: deadline observed on the k-th tick) driven by the scheduler
	// through the time shim: the push lands before / on / after the deadline tick
	{ninit: 0, progs: [][]string{p("t1"), p("u11")}},
	{ninit: 0, progs: [][]string{p("t2"), p("u11", "u12")}, max: 1200},
	{ninit: 1, progs: [][]string{p("t1", "o"), p("o"), p("u11")}, max: 1200},
	{ninit: 0, progs: [][]string{p("t1", "l"), p("u11"), p("t2")}, max: 1200},
	// hidden input GOMAXPROCS == 1 (code that takes a single-P shortcut still has every
	// interleaving of its atomic steps: goroutines are preempted on one P too)
	{ninit: 2, progs: [][]string{p("o"), p("o")}, uni: true},
	{ninit: 2, progs: [][]string{p("o", "o"), p("o", "l")}, uni: true, max: 1200},
	{ninit: 1, progs: [][]string{p("u11", "o"), p("o", "u21")}, uni: true, max: 1200},
	// after a failure: Pop / PopWait(0) returning false (empty, lost CAS) followed by
	// ordinary calls in the same thread
	{ninit: 0, progs: [][]string{p("o", "u11", "o"), p("z", "u21", "l")}, max: 1200},
	// a Len() observer against COMPLETE Push+Pop pairs of another thread on a PRE-FILLED
	// list (k values stay poppable during the whole Len call; with more pairs than k a
	// Len() that subtracts what it does not add goes negative), pairs split over two
	// threads, and pop-then-push movers.  The scheduler parks a goroutine in front of every
	// atomic access, so a Len() made of several loads is cut between any two of them.
	{ninit: 2, progs: [][]string{p("l"), p("u21", "o")}},
	{ninit: 1, progs: [][]string{p("l", "l"), p("u21", "o", "u22", "o")}, max: 1500},
	{ninit: 2, progs: [][]string{p("l"), p("u21"), p("o")}, max: 1500},
	{ninit: 1, progs: [][]string{p("l", "l"), p("o", "u21", "o", "u22")}, max: 1500},
}

var thoroughDFS = []config{
	{ninit: 0, progs: [][]string{p("u11", "o"), p("u21", "o"), p("u31", "o")}},
	{ninit: 1, progs: [][]string{p("u11", "u12", "o"), p("o", "o", "u21"), p("l", "o", "l")}},
	{ninit: 0, progs: [][]string{p("u11"), p("u21"), p("o"), p("o")}},
	{ninit: 2, progs: [][]string{p("o", "u11"), p("o", "u21"), p("o", "l"), p("u41", "o")}},
	{ninit: 0, progs: [][]string{p("u11", "u12", "u13"), p("o", "o", "o"), p("o", "u31", "l"), p("l", "u41", "o")}},
	{ninit: 0, progs: [][]string{p("w", "z"), p("u11", "u12"), p("w", "l"), p("u41")}},
	{ninit: 1, progs: [][]string{p("o", "o", "u11"), p("o", "z", "o")}},
	{ninit: 0, progs: [][]string{p("u11"), p("u21"), p("o"), p("l")}},
	{ninit: 0, progs: [][]string{p("u11"), p("u21"), p("w"), p("l")}},
	{ninit: 1, progs: [][]string{p("w", "u11"), p("u21", "w"), p("o", "u31")}},
}

// feasible: every PopWait(-1) eventually finds a value under round-robin completion.
// Supply = initial values + the pushes that are not behind a `w` in their own thread
// (those complete whatever the poppers do); demand = every popping call.
func feasible(ninit int, progs [][]string) bool {
	supply, demand, waits := ninit, 0, 0
	defer func() { _ = waits }()
	for _, pr := range progs {
		for _, c := range pr {
			if c == "w" {
				waits++
			}
		}
	}
	if waits == 0 {
		return true
	}
	for _, pr := range progs {
		blocked := false
		for _, c := range pr {
			switch {
			case c == "w":
				blocked = true
				demand++
			case c == "o" || c == "z" || (len(c) > 1 && c[0] == 't'):
				demand++
			case strings.HasPrefix(c, "u") && !blocked:
				supply++
			}
		}
	}
	return demand <= supply
}

// makeFeasible turns blocking PopWaits into PopWait(0) (last first) until feasible.
func makeFeasible(ninit int, progs [][]string) {
	for t := len(progs) - 1; t >= 0; t-- {
		for k := len(progs[t]) - 1; k >= 0; k-- {
			if feasible(ninit, progs) {
				return
			}
			if progs[t][k] == "w" {
				progs[t][k] = "z"
			}
		}
	}
}

// the F7 witness (DESIGN §6): push links and publishes, a pop completes, Len() == -1
// on the code before the repair; on the repaired code the same schedule is harmless.
var f7Witness = core.Case{Tag: "corpus-F7", Lines: []string{
	"@ C11 list 0 T u7 T o T l",
	"step 0", "step 0", "step 0", "step 0",
	"step 1", "step 1", "step 1", "step 1", "step 1",
	"step 2", "drain", "final",
}}

// starvedPusher: pusher A (thread 0) is parked right after its link CAS (park = 3) or after
// its len increment (park = 4); pusher B (thread 1) then takes k steps alone — on the
// code as it is, k/3 fruitless (load tail, load next, Gosched) rounds; a Push that gives
// up waiting after some number of spins and overtakes A shows here; then A resumes, a
// popper, a Len and a third pusher run.  Under the deterministic scheduler "starved for
// hundreds of yields" is just a long schedule.
func starvedPusher(k, park int) core.Case {
	lines := []string{"@ C11 list 0 T u11 T u21 T o o l T u31"}
	for i := 0; i < park; i++ {
		lines = append(lines, "step 0")
	}
	for i := 0; i < k; i++ {
		lines = append(lines, "step 1")
	}
	for i := park; i < 5; i++ {
		lines = append(lines, "step 0")
	}
	lines = append(lines, "drain", "final")
	return core.Case{Tag: "starved-pusher", Lines: lines}
}

func corpus() []core.Case {
	cases := []core.Case{
		f7Witness,
		{Tag: "corpus", Lines: []string{"@ C11 list 0 T o", "step 0", "step 0", "step 0", "final"}},
		{Tag: "corpus", Lines: []string{"@ C11 list 2 T o o o T l", "drain", "final"}},
		// two pushers: the second spins (Gosched) until the first publishes the tail
		{Tag: "corpus", Lines: []string{"@ C11 list 0 T u5 T u6", "step 0", "step 0", "step 0", "step 1", "step 1", "step 1", "step 1", "step 1", "step 0", "step 0", "drain", "final"}},
		// schedule lines for finished / non-existent threads, pending calls at the end
		{Tag: "corpus", Lines: []string{"@ C11 list 1 T o T u9", "step 0", "step 5", "step 1", "step 0", "final", "step 0", "step 0", "step 0", "step 0", "final"}},
		// PopWait(-1) on an empty list spins (ld head, ld tail, Gosched) and stays pending
		{Tag: "corpus", Lines: []string{"@ C11 list 0 T w", "step 0", "step 0", "step 0", "step 0", "step 0", "step 0", "step 0", "final"}},
		// PopWait(-1) spins while the node is linked but not published, pops after the publication
		{Tag: "corpus", Lines: []string{"@ C11 list 0 T w T u5", "step 1", "step 1", "step 1", "step 0", "step 0", "step 0", "step 1", "step 0", "step 0", "step 1", "drain", "final"}},
		// PopWait(-1) loses the head CAS to a Pop and retries; PopWait(0) on an empty list returns false
		// (fully explicit schedule: with a `drain` the Pop and the PopWait(0) could starve the PopWait(-1))
		{Tag: "corpus", Lines: []string{"@ C11 list 2 T w T o T z", "step 0", "step 0", "step 0", "step 1", "step 1", "step 1", "step 1", "step 1",
			"step 0", "step 0", "step 0", "step 0", "step 0", "step 0", "step 0", "step 2", "step 2", "final"}},
	}
	cases = append(cases,
		// deadline-tick scenario of seed C11-C: PopWait(d>0) finds the list empty, the push is
		// published before the tick that observes the deadline: that tick's Pop succeeds and the
		// value must be returned with true (not reported as a timeout)
		core.Case{Tag: "corpus-timed", Lines: []string{"@ C11 list 0 T t1 T u7", "step 0", "step 0", "step 1", "step 1", "step 1", "step 1", "step 1",
			"step 0", "step 0", "step 0", "step 0", "step 0", "final"}},
		// … of seed C11-E: two values are pushed during the last poll interval; the deadline
		// tick takes the FRONT one; a following Pop gets the second
		core.Case{Tag: "corpus-timed", Lines: []string{"@ C11 list 0 T t1 o T u7 u8", "step 0", "step 0",
			"step 1", "step 1", "step 1", "step 1", "step 1", "step 1", "step 1", "step 1", "step 1", "step 1",
			"step 0", "step 0", "step 0", "step 0", "step 0", "step 0", "step 0", "step 0", "step 0", "step 0", "final"}},
		// the deadline tick finds the node linked but not yet published: times out, value stays
		core.Case{Tag: "corpus-timed", Lines: []string{"@ C11 list 0 T t1 T u7", "step 0", "step 0", "step 1", "step 1", "step 1", "step 1",
			"step 0", "step 0", "step 1", "final"}},
		// expiry on the 3rd tick with nothing ever pushed, then ordinary calls (class 3)
		core.Case{Tag: "corpus-timed", Lines: []string{"@ C11 list 0 T t3 u5 o l", "drain", "final"}},
	)
	// the witness of Golib/Findings/C11TwoCounter.lean (seed C11-K): the Len() caller performs
	// one access, the other thread completes Push+Pop (5+5 scheduled accesses), the caller
	// goes on.  On the code as it is Len() is ONE load (the first `step 0` returns, the last
	// one is an idle step); on a Len() made of two loads the pair falls between them.
	kw := func(ninit int) core.Case {
		lines := []string{fmt.Sprintf("@ C11 list %d T l T u7 o", ninit), "step 0"}
		for i := 0; i < 10; i++ {
			lines = append(lines, "step 1")
		}
		return core.Case{Tag: "corpus-len-window", Lines: append(lines, "step 0", "drain", "final")}
	}
	cases = append(cases, kw(1), kw(0), kw(3),
		// … and the caller parked IN FRONT of its Len() across two pairs
		core.Case{Tag: "corpus-len-window", Lines: []string{"@ C11 list 1 T l l T u7 o u8 o",
			"step 1", "step 1", "step 1", "step 1", "step 1", "step 1", "step 1", "step 1", "step 1", "step 1",
			"step 0", "step 1", "step 1", "step 1", "step 1", "step 1", "step 1", "step 1", "step 1", "step 1", "step 1",
			"step 0", "drain", "final"}})
	for _, k := range []int{30, 300, 765, 771, 774, 780, 900, 1600} {
		cases = append(cases, starvedPusher(k, 3), starvedPusher(k, 4))
	}
	for _, cfg := range append(append([]config{}, quickDFS...), thoroughDFS...) {
		if !feasible(cfg.ninit, cfg.progs) {
			panic("c11: DFS configuration with a PopWait(-1) that may block forever")
		}
	}
	tier := tierFromArgs()
	cfgs := quickDFS
	bound, maxDepth, maxSched := 3, 60, 12000
	if tier == "thorough" {
		cfgs = append(append([]config{}, quickDFS...), thoroughDFS...)
		maxSched = 50000
		maxDepth = 90
	}
	for _, cfg := range cfgs {
		hdr := cfg.header()
		b, m := bound, maxSched
		if cfg.bound > 0 {
			b = cfg.bound
		}
		if cfg.max > 0 && tier != "thorough" {
			m = cfg.max
		}
		drive.DFS(factory(cfg.ninit, cfg.progs, cfg.procs()), b, maxDepth, m, func(lines []string) bool {
			cases = append(cases, core.Case{Tag: "dfs", Lines: append([]string{hdr}, lines...)})
			return true
		})
	}
	return cases
}

// parkedWindow: one thread (the victim) is parked after `park` of its own atomic accesses
// — inside a call, or in front of the first access of one — while the other threads, one
// after the other in a random order, run `burst` steps each (whole calls: a Push is 5
// accesses, a Pop at most 5); then the victim resumes and everything is drained.  With a
// Len() observer as victim and Push/Pop movers on a pre-filled list these are the
// schedules on which a Len() composed of several atomic loads returns a mixture of two
// instants; with a pusher or popper as victim they are the long-stall windows (link CAS
// done / head loaded, then nothing for many operations of the others).
func parkedWindow(r *core.Rand, tier string) core.Case {
	cfg := config{ninit: r.Pick(2, 3, 3, 2, 1)}
	nmov := r.Range(1, 2)
	observer := r.Intn(4) != 0
	var victim []string
	if observer {
		for k, n := 0, r.Range(1, 2); k < n; k++ {
			victim = append(victim, "l")
		}
		if r.Intn(3) == 0 {
			victim = append([]string{[]string{"o", "u901", "z"}[r.Intn(3)]}, victim...)
		}
	} else {
		victim = []string{[]string{"o", "u901", "z", "t1"}[r.Intn(4)], "l"}
	}
	cfg.progs = append(cfg.progs, victim)
	for t := 1; t <= nmov; t++ {
		var prog []string
		pairs := r.Range(1, 3)
		if tier == "thorough" {
			pairs = r.Range(1, 5)
		}
		popFirst := r.Intn(3) == 0
		for k := 0; k < pairs; k++ {
			u := fmt.Sprintf("u%d", 100*t+k)
			switch {
			case nmov == 2 && r.Intn(3) == 0:
				// the pair is split: this thread only pushes or only pops
				if t == 1 {
					prog = append(prog, u)
				} else {
					prog = append(prog, "o")
				}
			case popFirst:
				prog = append(prog, "o", u)
			default:
				prog = append(prog, u, "o")
			}
		}
		if r.Intn(4) == 0 {
			prog = append(prog, "l")
		}
		cfg.progs = append(cfg.progs, prog)
	}
	cfg.uni = r.Intn(5) == 0
	e := factory(cfg.ninit, cfg.progs, cfg.procs())()
	defer e.Close()
	var lines []string
	step := func(t int) {
		e.Step(t)
		lines = append(lines, fmt.Sprintf("step %d", t))
	}
	// warm-up: the victim's leading call (if any) and a few steps of the movers
	for k, n := 0, r.Intn(4); k < n && !e.AllDone(); k++ {
		t := r.Intn(e.N())
		if !e.Done(t) {
			step(t)
		}
	}
	park := r.Pick(3, 4, 3, 2, 1, 1, 1) // 0: in front of the call's first access
	if !observer {
		park = r.Range(1, 5)
	} else if len(victim) > 0 && victim[0] != "l" {
		park += 5
	}
	for k := 0; k < park && !e.Done(0) && !e.Hung; k++ {
		step(0)
	}
	order := []int{1, 2}[:nmov]
	if nmov == 2 && r.Intn(2) == 0 {
		order[0], order[1] = order[1], order[0]
	}
	for round, rounds := 0, r.Range(1, 2); round < rounds; round++ {
		for _, t := range order {
			burst := r.Pick(1, 2, 3, 2) // whole calls
			for k := 0; k < 6*(burst+1) && !e.Done(t) && !e.Hung; k++ {
				step(t)
				if burst < 3 && r.Intn(12) == 0 {
					break
				}
			}
		}
		if r.Intn(2) == 0 && !e.Done(0) {
			step(0) // the victim's next access, then a further window
		}
	}
	lines = append(lines, "drain", "final")
	return core.Case{Tag: "parked-window", Lines: append([]string{cfg.header()}, lines...)}
}

func gen(r *core.Rand, tier string) core.Case {
	if r.Intn(60) == 0 {
		// long starvation of one pusher by a parked one (any threshold up to ~1300 spins)
		return starvedPusher(r.Range(6, 4000), r.Range(3, 4))
	}
	if r.Intn(8) == 0 {
		return parkedWindow(r, tier)
	}
	nthreads := r.Range(2, 4)
	maxOps := 3
	if tier == "thorough" {
		nthreads = r.Range(2, 5)
		maxOps = 4
	}
	cfg := config{ninit: r.Pick(5, 3, 2, 1)}
	total := 0
	for t := 0; t < nthreads; t++ {
		var prog []string
		n := r.Range(1, maxOps)
		for k := 0; k < n; k++ {
			switch r.Pick(45, 26, 11, 7, 6, 5) {
			case 0:
				prog = append(prog, fmt.Sprintf("u%d", 100*(t+1)+k))
			case 1:
				prog = append(prog, "o")
			case 2:
				prog = append(prog, "l")
			case 3:
				prog = append(prog, "w")
			case 4:
				prog = append(prog, "z")
			default:
				prog = append(prog, fmt.Sprintf("t%d", r.Range(1, 3)))
			}
		}
		total += n
		cfg.progs = append(cfg.progs, prog)
	}
	makeFeasible(cfg.ninit, cfg.progs)
	mode := r.Pick(30, 35, 35)
	cfg.uni = r.Intn(4) == 0
	lines := drive.Sample(factory(cfg.ninit, cfg.progs, cfg.procs()), r, mode, 10*total+12)
	tag := []string{"random-walk", "sticky-walk", "pct"}[mode]
	return core.Case{Tag: tag, Lines: append([]string{cfg.header()}, lines...)}
}

var raceExtra = core.Extra{
	Name: "race-detector stress of the unmodified listz package (real scheduler)",
	Run: func(ctx *core.Ctx) (int, string, []core.ExtraFailure) {
		ms := 2500
		if ctx.Tier == "thorough" {
			ms = 30000
		}
		sum, races, err := drive.RaceStress(ctx.VerifDir, ctx.Repo, "list", ms)
		if cr, ok := err.(*drive.Crash); ok {
			return 1, "stress program crashed", []core.ExtraFailure{{
				Failure: core.Failure{Key: "stress-crash", Desc: "concurrent Push/Pop/Len on the unmodified SyncList crashed under the real scheduler"},
				Payload: map[string]any{"program": "go/internal/sched/racestress list", "output": strings.Split(cr.Output, "\n")}}}
		}
		if err != nil {
			return 0, "could not run: " + err.Error(), []core.ExtraFailure{{
				Failure: core.Failure{Key: "race-run-failed", Desc: err.Error()}, NoInput: true, Payload: err.Error()}}
		}
		if races != "" {
			return 1, sum, []core.ExtraFailure{{
				Failure: core.Failure{Key: "data-race", Desc: "the Go race detector reports a data race in SyncList under concurrent Push/Pop/PopWait/Len"},
				Payload: map[string]any{"program": "go/internal/sched/racestress list", "report": strings.Split(races, "\n")}}}
		}
		return 1, fmt.Sprintf("%d ms, no race reported; %s", ms, sum), nil
	},
}

var uniprocExtra = core.Extra{
	Name: "single-P stress of the unmodified listz package (runtime.GOMAXPROCS(1), movers front-to-back, accounting)",
	Run: func(ctx *core.Ctx) (int, string, []core.ExtraFailure) {
		ms := 2000
		if ctx.Tier == "thorough" || ctx.Escalate > 1 {
			ms = 15000
		}
		sum, races, err := drive.RaceStress(ctx.VerifDir, ctx.Repo, "list1", ms)
		payload := func(extra any) map[string]any {
			return map[string]any{"program": "go/internal/sched/racestress list1 (GOMAXPROCS(1); 8 goroutines: if v, ok := l.Pop(); ok { l.Push(v) } on one list holding 1..64; then drain)", "result": extra}
		}
		if cr, ok := err.(*drive.Crash); ok {
			return 1, "stress program crashed", []core.ExtraFailure{{
				Failure: core.Failure{Key: "uniproc-crash", Desc: "Pop/Push movers on one SyncList crashed with GOMAXPROCS(1)"},
				Payload: payload(strings.Split(cr.Output, "\n"))}}
		}
		if err != nil {
			return 0, "could not run: " + err.Error(), []core.ExtraFailure{{
				Failure: core.Failure{Key: "race-run-failed", Desc: err.Error()}, NoInput: true, Payload: err.Error()}}
		}
		var fails []core.ExtraFailure
		if races != "" {
			fails = append(fails, core.ExtraFailure{
				Failure: core.Failure{Key: "data-race", Desc: "the Go race detector reports a data race in SyncList with GOMAXPROCS(1)"},
				Payload: payload(strings.Split(races, "\n"))})
		}
		var moved, flen, drained, bad, neg, want int
		if n, _ := fmt.Sscanf(sum, "moved=%d final-len=%d drained=%d accounting-violations=%d negative-len-samples=%d want=%d", &moved, &flen, &drained, &bad, &neg, &want); n != 6 {
			return 1, "unparsable summary: " + sum, []core.ExtraFailure{{
				Failure: core.Failure{Key: "race-run-failed", Desc: "unparsable summary " + sum}, NoInput: true, Payload: sum}}
		}
		// verdict independent of timing: values are only moved, never created or dropped
		if bad != 0 || drained != want || flen != want || neg != 0 {
			fails = append(fails, core.ExtraFailure{
				Failure: core.Failure{Key: "uniproc-accounting", Desc: fmt.Sprintf("with GOMAXPROCS(1), after only moving values from the front to the back of one list holding 1..%d: Len() == %d, %d values drained, %d values missing/duplicated/invented, %d negative Len() samples", want, flen, drained, bad, neg)},
				Payload: payload(sum)})
		}
		return 1, fmt.Sprintf("%d ms on one P, %s", ms, sum), fails
	},
}
