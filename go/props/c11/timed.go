package c11

import (
	"fmt"
	"sync"
	"sync/atomic"
	"time"

	"github.com/welllog/golib/listz"

	"verifharness/internal/core"
)

// timedExtra: PopWait with a POSITIVE duration on the unmodified package under the real
// clock.  The ticker path cannot be driven by the deterministic scheduler, but its
// conservation clause (Lean: c11_popwait_timed) has a verdict that does not depend on
// timing: in every round exactly one value is pushed onto an empty list while one
// PopWait(d) is running; when both have returned, either PopWait returned (v, true) with
// v the pushed value and the list is empty, or it returned false and the value is still
// in the list (Len() == 1, Pop returns it).  Anything else is a violation.  Timing only
// decides how often the interesting window — the Pop on the tick that also observes the
// deadline succeeds — is hit; the hit count is reported in the evidence.
//
// Rounds sweep d ∈ {15, 25, 35} ms and the push instant over [T-10ms, T+1ms] where
// T = the tick on which the deadline is observed (10 ms ticker); many rounds run in
// parallel on separate lists (they sleep, they do not compute).

type timedRound struct {
	DurMs      int     `json:"popwait_ms"`
	PushAtMs   float64 `json:"push_after_ms"`
	Value      int     `json:"pushed_value"`
	RetValue   int     `json:"popwait_value"`
	RetOK      bool    `json:"popwait_ok"`
	ElapsedMs  float64 `json:"popwait_elapsed_ms"`
	LenAfter   int     `json:"len_after"`
	PopAfter   int     `json:"pop_after_value"`
	PopAfterOK bool    `json:"pop_after_ok"`
}

// one round; returns the observation and "" or the violation key
func runTimedRound(durMs int, pushAt time.Duration, val int) (timedRound, string, string) {
	l := listz.NewSync[int]()
	d := time.Duration(durMs) * time.Millisecond
	r := timedRound{DurMs: durMs, PushAtMs: float64(pushAt) / 1e6, Value: val}
	var wg sync.WaitGroup
	wg.Add(2)
	start := time.Now()
	go func() {
		defer wg.Done()
		t0 := time.Now()
		r.RetValue, r.RetOK = l.PopWait(d)
		r.ElapsedMs = float64(time.Since(t0)) / 1e6
	}()
	go func() {
		defer wg.Done()
		// sleep most of the way, spin the rest for sub-millisecond placement
		if rest := pushAt - time.Since(start); rest > 1500*time.Microsecond {
			time.Sleep(rest - 1*time.Millisecond)
		}
		for time.Since(start) < pushAt {
		}
		l.Push(val)
	}()
	wg.Wait()
	r.LenAfter = l.Len()
	r.PopAfter, r.PopAfterOK = l.Pop()
	switch {
	case r.RetOK && r.RetValue != val:
		return r, "popwait-wrong-value", fmt.Sprintf("PopWait(%dms) returned (%d, true) but the only value ever pushed is %d", durMs, r.RetValue, val)
	case r.RetOK && (r.LenAfter != 0 || r.PopAfterOK):
		return r, "popwait-duplicated-value", fmt.Sprintf("PopWait(%dms) returned (%d, true) and afterwards Len() == %d, Pop() == (%d, %v): the single pushed value was delivered and is still stored", durMs, r.RetValue, r.LenAfter, r.PopAfter, r.PopAfterOK)
	case !r.RetOK && (r.LenAfter != 1 || !r.PopAfterOK || r.PopAfter != val):
		return r, "popwait-lost-value", fmt.Sprintf("PopWait(%dms) on an empty list returned false (timeout) while Push(%d) ran at +%.1fms; afterwards Len() == %d and Pop() == (%d, %v): the pushed value was neither delivered nor left in the list", durMs, val, r.PushAtMs, r.LenAfter, r.PopAfter, r.PopAfterOK)
	}
	return r, "", ""
}

var timedExtra = core.Extra{
	Name: "PopWait(d>0) conservation under the real clock (unmodified listz package)",
	Run: func(ctx *core.Ctx) (int, string, []core.ExtraFailure) {
		budget := 2500 * time.Millisecond
		par := 96
		if ctx.Tier == "thorough" {
			budget = 20 * time.Second
		}
		type job struct {
			dur    int
			pushAt time.Duration
		}
		var jobs []job
		for _, d := range []int{15, 25, 35} {
			tick := ((d + 9) / 10) * 10 // the tick on which elapsed >= d is observed
			for off := -100; off <= 10; off += 5 { // push at T-10.0 … T+1.0 ms, 0.5 ms steps
				jobs = append(jobs, job{d, time.Duration(tick)*time.Millisecond + time.Duration(off)*100*time.Microsecond})
			}
		}
		var (
			mu        sync.Mutex
			fails     []core.ExtraFailure
			seenKey   = map[string]bool{}
			rounds    atomic.Int64
			hits      atomic.Int64 // delivered by the Pop of the expiry tick (elapsed >= d and ok)
			timeouts  atomic.Int64
			delivered atomic.Int64
		)
		deadline := time.Now().Add(budget)
		var wg sync.WaitGroup
		next := atomic.Int64{}
		for w := 0; w < par; w++ {
			wg.Add(1)
			go func(w int) {
				defer wg.Done()
				for time.Now().Before(deadline) {
					k := int(next.Add(1) - 1)
					j := jobs[k%len(jobs)]
					r, key, desc := runTimedRound(j.dur, j.pushAt, 1000+k)
					rounds.Add(1)
					if r.RetOK {
						delivered.Add(1)
						if r.ElapsedMs >= float64(j.dur) {
							hits.Add(1)
						}
					} else {
						timeouts.Add(1)
					}
					if key != "" {
						mu.Lock()
						if !seenKey[key] {
							seenKey[key] = true
							fails = append(fails, core.ExtraFailure{
								Failure: core.Failure{Key: key, Desc: desc},
								Payload: map[string]any{
									"how":   "l := listz.NewSync[int](); go l.PopWait(popwait_ms * time.Millisecond); after push_after_ms: l.Push(pushed_value); when both returned: Len(), Pop()",
									"round": r,
								}})
						}
						mu.Unlock()
						if len(seenKey) > 0 && rounds.Load() > 200 {
							return
						}
					}
				}
			}(w)
		}
		wg.Wait()
		note := fmt.Sprintf("%d rounds (d in 15/25/35 ms, push swept over the last tick interval): %d delivered, %d timed out with the value still stored; deadline-tick window hit %d times (delivered with elapsed >= d); verdict independent of timing",
			rounds.Load(), delivered.Load(), timeouts.Load(), hits.Load())
		return int(rounds.Load()), note, fails
	},
}
