package c11

import (
	"fmt"
	"sync"
	"sync/atomic"
	"time"

	"github.com/welllog/golib/listz"

	"verifharness/internal/core"
)

// timedExtra: PopWait with a POSITIVE duration on the unmodified package under the real
// clock.  The ticker path cannot be driven by the deterministic scheduler, but its
// conservation AND order clauses (Lean: c11_popwait_timed, c11_lin_fifo) have a verdict
// that does not depend on timing: in every round ONE goroutine pushes 1–4 tagged values in
// order onto an empty list while ONE PopWait(d) is running; when both have returned the
// list is drained with Pop.  The pushes are sequential in one goroutine (their order is
// their real-time order) and there is a single popper, so the only legal outcome is
//     (value PopWait returned with true, if any) ++ drained  ==  pushed, in push order
// — a PopWait that times out has consumed nothing and has not rotated the queue — with
// Len() equal to the number of drained values, and ordinary calls afterwards behave as on
// a fresh list.  Timing only decides how often the interesting windows are hit (the Pop on
// the tick that also observes the deadline succeeds; … while further values are already
// queued behind it); the hit counts are reported in the evidence.
//
// Rounds sweep d ∈ {15, 25, 35} ms and the push instant over [T-10ms, T+1ms] where
// T = the tick on which the deadline is observed (10 ms ticker); many rounds run in
// parallel on separate lists (they sleep, they do not compute).

type timedRound struct {
	DurMs     int     `json:"popwait_ms"`
	PushAtMs  float64 `json:"push_after_ms"`
	Pushed    []int   `json:"pushed_values_in_order"`
	RetValue  int     `json:"popwait_value"`
	RetOK     bool    `json:"popwait_ok"`
	ElapsedMs float64 `json:"popwait_elapsed_ms"`
	LenAfter  int     `json:"len_after"`
	Drained   []int   `json:"drained_by_pop_after"`
	Fresh     string  `json:"push_len_pop_after_drain"`
}

func sameMultiset(a, b []int) bool {
	if len(a) != len(b) {
		return false
	}
	m := map[int]int{}
	for _, x := range a {
		m[x]++
	}
	for _, x := range b {
		m[x]--
	}
	for _, c := range m {
		if c != 0 {
			return false
		}
	}
	return true
}

// one round: PopWait(d) on an empty list while ONE goroutine pushes `vals` in order,
// starting at pushAt.  When both returned: Len(), drain with Pop, then Push/Len/Pop on
// the drained list (ordinary calls after an expiry behave as on a fresh list).
// Pushes come from one goroutine, so their order is their real-time order; there is one
// popper, so the only legal outcomes are  (value returned with true) ++ drained == vals.
func runTimedRound(durMs int, pushAt time.Duration, vals []int) (timedRound, string, string) {
	l := listz.NewSync[int]()
	d := time.Duration(durMs) * time.Millisecond
	r := timedRound{DurMs: durMs, PushAtMs: float64(pushAt) / 1e6, Pushed: vals}
	var wg sync.WaitGroup
	wg.Add(2)
	start := time.Now()
	go func() {
		defer wg.Done()
		t0 := time.Now()
		r.RetValue, r.RetOK = l.PopWait(d)
		r.ElapsedMs = float64(time.Since(t0)) / 1e6
	}()
	go func() {
		defer wg.Done()
		// sleep most of the way, spin the rest for sub-millisecond placement
		if rest := pushAt - time.Since(start); rest > 1500*time.Microsecond {
			time.Sleep(rest - 1*time.Millisecond)
		}
		for time.Since(start) < pushAt {
		}
		for _, v := range vals {
			l.Push(v)
		}
	}()
	wg.Wait()
	r.LenAfter = l.Len()
	r.Drained = []int{}
	for k := 0; k < len(vals)+4; k++ {
		v, ok := l.Pop()
		if !ok {
			break
		}
		r.Drained = append(r.Drained, v)
	}
	got := append([]int{}, r.Drained...)
	if r.RetOK {
		got = append([]int{r.RetValue}, got...)
	}
	what := fmt.Sprintf("PopWait(%dms) on an empty list returned (%d, %v) while one goroutine pushed %v starting at +%.1fms; afterwards Len() == %d and Pop drained %v", durMs, r.RetValue, r.RetOK, vals, r.PushAtMs, r.LenAfter, r.Drained)
	switch {
	case r.LenAfter != len(r.Drained):
		return r, "popwait-len-after", what + ": Len() differs from the number of stored values with no operation in flight"
	case len(got) < len(vals):
		return r, "popwait-lost-value", what + ": a pushed value was neither delivered nor left in the list"
	case len(got) > len(vals):
		return r, "popwait-duplicated-value", what + ": more values came out than were pushed"
	case !sameMultiset(got, vals):
		return r, "popwait-wrong-value", what + ": a value that was never pushed came out"
	}
	for k := range vals {
		if got[k] != vals[k] {
			return r, "popwait-order", what + fmt.Sprintf(": FIFO order broken — values came out as %v, pushed as %v (a PopWait that times out must not rotate the queue)", got, vals)
		}
	}
	// ordinary calls after the (possibly expired) PopWait: as on a fresh list
	l.Push(-7)
	n := l.Len()
	v, ok := l.Pop()
	_, ok2 := l.Pop()
	r.Fresh = fmt.Sprintf("Push(-7); Len()=%d; Pop()=(%d,%v); Pop() ok=%v", n, v, ok, ok2)
	if n != 1 || !ok || v != -7 || ok2 {
		return r, "popwait-after-expiry", what + "; then on the drained list " + r.Fresh
	}
	return r, "", ""
}

var timedExtra = core.Extra{
	Name: "PopWait(d>0) conservation and FIFO order under the real clock (unmodified listz package)",
	Run: func(ctx *core.Ctx) (int, string, []core.ExtraFailure) {
		budget := 2500 * time.Millisecond
		par := 96
		if ctx.Tier == "thorough" {
			budget = 20 * time.Second
		}
		type job struct {
			dur    int
			pushAt time.Duration
			n      int
		}
		var jobs []job
		for _, d := range []int{15, 25, 35} {
			tick := ((d + 9) / 10) * 10 // the tick on which elapsed >= d is observed
			for off := -100; off <= 10; off += 5 { // push at T-10.0 … T+1.0 ms, 0.5 ms steps
				for n := 1; n <= 4; n++ {
					jobs = append(jobs, job{d, time.Duration(tick)*time.Millisecond + time.Duration(off)*100*time.Microsecond, n})
				}
			}
		}
		var (
			mu        sync.Mutex
			fails     []core.ExtraFailure
			seenKey   = map[string]bool{}
			rounds    atomic.Int64
			hits      atomic.Int64 // delivered by the Pop of the expiry tick (elapsed >= d and ok)
			timeouts  atomic.Int64
			delivered atomic.Int64
			hitsMulti atomic.Int64 // … with further values already queued behind it (order window)
		)
		deadline := time.Now().Add(budget)
		var wg sync.WaitGroup
		next := atomic.Int64{}
		for w := 0; w < par; w++ {
			wg.Add(1)
			go func(w int) {
				defer wg.Done()
				for time.Now().Before(deadline) {
					k := int(next.Add(1) - 1)
					j := jobs[k%len(jobs)]
					vals := make([]int, j.n)
					for q := range vals {
						vals[q] = 10*(1000+k) + q
					}
					r, key, desc := runTimedRound(j.dur, j.pushAt, vals)
					rounds.Add(1)
					if r.RetOK {
						delivered.Add(1)
						if r.ElapsedMs >= float64(j.dur) {
							hits.Add(1)
							if j.n >= 2 && len(r.Drained) >= 1 {
								hitsMulti.Add(1)
							}
						}
					} else {
						timeouts.Add(1)
					}
					if key != "" {
						mu.Lock()
						if !seenKey[key] {
							seenKey[key] = true
							fails = append(fails, core.ExtraFailure{
								Failure: core.Failure{Key: key, Desc: desc},
								Payload: map[string]any{
									"how":   "l := listz.NewSync[int](); go l.PopWait(popwait_ms * time.Millisecond); after push_after_ms one goroutine does l.Push(v) for v in pushed_values_in_order; when both returned: Len(), Pop() until false",
									"round": r,
								}})
						}
						mu.Unlock()
						if len(seenKey) > 0 && rounds.Load() > 200 {
							return
						}
					}
				}
			}(w)
		}
		wg.Wait()
		note := fmt.Sprintf("%d rounds (d in 15/25/35 ms, 1-4 tagged values pushed by one goroutine, start swept over the last tick interval; check: returned value ++ drained == push order, Len, ordinary calls afterwards): %d delivered, %d timed out; deadline-tick window hit %d times (delivered with elapsed >= d), %d of them with more values queued behind (order window); verdict independent of timing",
			rounds.Load(), delivered.Load(), timeouts.Load(), hits.Load(), hitsMulti.Load())
		return int(rounds.Load()), note, fails
	},
}
