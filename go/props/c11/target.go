package c11

import (
	"fmt"
	"reflect"
	"strconv"
	"strings"
	"time"
	"unsafe"

	listz "verifharness/gen/synclistshim"
	"verifharness/internal/sched"
	"verifharness/internal/sched/drive"
)

// listTarget drives the shimmed copy of listz/sync_list.go (same code, atomics
// intercepted) and names addresses / node pointers the way the Lean model does:
// nodes are numbered in the order in which they are linked (0 = the dummy node).
type listTarget struct {
	l                  *listz.SyncList[int]
	headAddr, tailAddr unsafe.Pointer
	// every OTHER top-level field of the SyncList struct, by address range: the element
	// counter `len` of today's code, and whatever a changed tree keeps instead (two
	// monotonic counters `pushed`/`popped`, a striped counter, …).  An integer atomic on
	// such a field is rendered with the field's own name (`ld len=3`, `add pushed +1=4`):
	// on the unchanged tree that is exactly the model's `len` vocabulary, on a changed
	// tree the trace stays readable and the property oracle (which reads only head/tail
	// operations and the results of the calls) keeps working.
	base   uintptr
	fields []fieldSpan
	idx    map[unsafe.Pointer]int
	nodes  []unsafe.Pointer
	err    string
}

type fieldSpan struct {
	name     string
	off, end uintptr
}

func fieldAddr(v reflect.Value, name string) (unsafe.Pointer, bool) {
	f := v.FieldByName(name)
	if !f.IsValid() || !f.CanAddr() {
		return nil, false
	}
	return unsafe.Pointer(f.UnsafeAddr()), true
}

func newListTarget(ninit int) *listTarget {
	t := &listTarget{l: listz.NewSync[int](), idx: map[unsafe.Pointer]int{}}
	rv := reflect.ValueOf(t.l).Elem()
	var ok1, ok2 bool
	t.headAddr, ok1 = fieldAddr(rv, "head")
	t.tailAddr, ok2 = fieldAddr(rv, "tail")
	if !ok1 || !ok2 {
		t.err = "harness-error: SyncList no longer has fields head/tail"
		return t
	}
	t.base = rv.UnsafeAddr()
	for i := 0; i < rv.NumField(); i++ {
		f := rv.Type().Field(i)
		if f.Name == "head" || f.Name == "tail" || f.Type.Size() == 0 {
			continue
		}
		t.fields = append(t.fields, fieldSpan{name: f.Name, off: f.Offset, end: f.Offset + f.Type.Size()})
	}
	dummy := *(*unsafe.Pointer)(t.headAddr)
	t.idx[dummy] = 0
	t.nodes = append(t.nodes, dummy)
	if ninit > 0 {
		// the initial content is pushed by one scheduled thread so that the node
		// pointers are learnt from the link CASes
		s := sched.New()
		defer s.Close()
		s.Go(func(*sched.Thread) {
			for v := 1; v <= ninit; v++ {
				t.l.Push(v)
			}
		})
		for k := 0; k < 16*ninit+16 && !s.Threads[0].Done(); k++ {
			op, _ := s.Step(0)
			t.FmtOp(op)
		}
	}
	return t
}

func (t *listTarget) name(p unsafe.Pointer) string {
	if p == nil {
		return "nil"
	}
	if i, ok := t.idx[p]; ok {
		return strconv.Itoa(i)
	}
	return "new"
}

// nodeOf finds the node whose memory contains addr.
func (t *listTarget) nodeOf(addr unsafe.Pointer) (int, bool) {
	a := uintptr(addr)
	for i := len(t.nodes) - 1; i >= 0; i-- {
		p := uintptr(t.nodes[i])
		if a >= p && a < p+unsafe.Sizeof(struct {
			v int
			n unsafe.Pointer
		}{}) {
			return i, true
		}
	}
	return 0, false
}

// fieldOf names the top-level field of the SyncList struct (other than head/tail) whose
// memory contains addr.
func (t *listTarget) fieldOf(addr unsafe.Pointer) (string, bool) {
	a := uintptr(addr)
	if a < t.base {
		return "", false
	}
	off := a - t.base
	for _, f := range t.fields {
		if off >= f.off && off < f.end {
			return f.name, true
		}
	}
	return "", false
}

func okStr(b bool) string {
	if b {
		return "ok"
	}
	return "fail"
}

func (t *listTarget) FmtOp(op *sched.Op) string {
	if op == nil {
		return "idle"
	}
	if op.Kind == sched.KYield {
		return "yield"
	}
	var where string
	counter := ""
	switch op.Addr {
	case t.headAddr:
		where = "head"
	case t.tailAddr:
		where = "tail"
	default:
		if name, ok := t.fieldOf(op.Addr); ok {
			counter = name
			break
		}
		i, ok := t.nodeOf(op.Addr)
		if !ok {
			return fmt.Sprintf("?%s unknown-address", op.Kind)
		}
		where = fmt.Sprintf("next[%d]", i)
	}
	if counter != "" && op.Width == 0 {
		where, counter = counter, "" // a further pointer-valued field: rendered like head/tail
	}
	if counter != "" {
		// integer operands are shown as signed numbers of the operation's width
		sx := func(v uint64) int64 {
			if op.Width == 32 {
				return int64(int32(uint32(v)))
			}
			return int64(v)
		}
		switch op.Kind {
		case sched.KLoad:
			return fmt.Sprintf("ld %s=%d", counter, sx(op.Res))
		case sched.KAdd:
			d := sx(op.New)
			if d >= 0 {
				return fmt.Sprintf("add %s +%d=%d", counter, d, sx(op.Res))
			}
			return fmt.Sprintf("add %s %d=%d", counter, d, sx(op.Res))
		case sched.KStore:
			return fmt.Sprintf("st %s=%d", counter, sx(op.New))
		case sched.KCAS:
			return fmt.Sprintf("cas %s %d->%d %s", counter, sx(op.Old), sx(op.New), okStr(op.OK))
		case sched.KSwap:
			return fmt.Sprintf("swap %s=%d was %d", counter, sx(op.New), sx(op.Res))
		}
		return "?" + op.Kind.String() + " " + counter
	}
	switch op.Kind {
	case sched.KLoad:
		if strings.HasPrefix(where, "next") {
			return fmt.Sprintf("ld %s=%s", where, t.name(op.PRes))
		}
		return fmt.Sprintf("ld %s=%s", where, t.name(op.PRes))
	case sched.KStore:
		return fmt.Sprintf("st %s=%s", where, t.name(op.PNew))
	case sched.KCAS:
		if op.OK && strings.HasPrefix(where, "next") && op.PNew != nil {
			if _, known := t.idx[op.PNew]; !known {
				t.idx[op.PNew] = len(t.nodes)
				t.nodes = append(t.nodes, op.PNew)
			}
		}
		return fmt.Sprintf("cas %s %s->%s %s", where, t.name(op.POld), t.name(op.PNew), okStr(op.OK))
	case sched.KSwap:
		return fmt.Sprintf("swap %s=%s", where, t.name(op.PNew))
	}
	return "?" + op.Kind.String() + " " + where
}

func (t *listTarget) Call(c string) string {
	switch {
	case c == "o":
		v, ok := t.l.Pop()
		return fmt.Sprintf("ret pop %d %v", v, ok)
	case c == "l":
		return fmt.Sprintf("ret len %d", t.l.Len())
	case c == "w": // PopWait(d < 0): Pop in a Gosched loop until it succeeds
		v, ok := t.l.PopWait(-1)
		return fmt.Sprintf("ret pop %d %v", v, ok)
	case len(c) > 1 && c[0] == 't': // PopWait(d>0), deadline observed on its k-th tick
		k, err := strconv.Atoi(c[1:])
		if err != nil || k < 1 {
			return "bad-call"
		}
		// the scheduler's time shim: k-1 deadline tests say "not yet", the k-th "reached"
		sched.SetTicksSelf(k - 1)
		v, ok := t.l.PopWait(time.Hour)
		return fmt.Sprintf("ret pop %d %v", v, ok)
	case c == "z": // PopWait(0): a single Pop
		v, ok := t.l.PopWait(0)
		return fmt.Sprintf("ret pop %d %v", v, ok)
	case strings.HasPrefix(c, "u"):
		v, err := strconv.Atoi(c[1:])
		if err != nil {
			return "bad-call"
		}
		t.l.Push(v)
		return "ret push"
	}
	return "bad-call"
}

func (t *listTarget) Sample() string { return fmt.Sprintf("len=%d", t.l.Len()) }

func (t *listTarget) Final() string {
	n := t.l.Len()
	var vs []string
	for k := 0; k < 1000; k++ {
		v, ok := t.l.Pop()
		if !ok {
			break
		}
		vs = append(vs, strconv.Itoa(v))
	}
	return fmt.Sprintf("final len=%d [%s]", n, strings.Join(vs, " "))
}

// parseHeader: tokens after "@ C11": list <ninit> T … T …
func parseHeader(line string) (ninit int, progs [][]string, ok bool) {
	t := strings.Fields(line)
	if len(t) < 4 || t[0] != "@" || t[1] != "C11" || (t[2] != "list" && t[2] != "list1") {
		return 0, nil, false
	}
	n, err := strconv.Atoi(t[3])
	if err != nil || n < 0 || n > 64 {
		return 0, nil, false
	}
	progs, ok = drive.ParseProgs(t[4:])
	if !ok {
		return 0, nil, false
	}
	for _, p := range progs {
		for _, c := range p {
			if c == "o" || c == "l" || c == "w" || c == "z" {
				continue
			}
			if len(c) > 1 && c[0] == 't' {
				if k, err := strconv.Atoi(c[1:]); err == nil && k >= 1 && k <= 64 {
					continue
				}
				return 0, nil, false
			}
			if !strings.HasPrefix(c, "u") {
				return 0, nil, false
			}
			if _, err := strconv.Atoi(c[1:]); err != nil {
				return 0, nil, false
			}
		}
	}
	return n, progs, true
}

// headerProcs: `@ C11 list1 …` runs the case with the runtime shim reporting
// GOMAXPROCS == 1 (the model does not depend on it; code that does is driven through its
// single-P branch with every interleaving still possible), `list` with GOMAXPROCS == 8.
func headerProcs(line string) int {
	t := strings.Fields(line)
	if len(t) > 2 && t[2] == "list1" {
		return 1
	}
	return 8
}

func factory(ninit int, progs [][]string, procs int) drive.Factory {
	return func() *drive.Exec {
		e := drive.NewExec(newListTarget(ninit), progs)
		e.S.Procs = procs
		return e
	}
}
