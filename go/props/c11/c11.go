// Package c11: SyncList is a linearizable unbounded FIFO queue with a sane length
// (listz/sync_list.go), under every interleaving of its atomic steps.
//
// Tie: the real source file, with only its sync/atomic and runtime import paths
// redirected to scheduler shims (go/gen.sh), is executed step by step under a
// deterministic scheduler; the compiled Lean model (lean/Golib/Model/C11*.lean) is run
// on the same schedule and the step traces (thread, operation kind, address class,
// value/ok, results, len counter after every step) are diffed.
// Independent oracle: FIFO linearizability of the recorded history (package lin),
// Len() sampled after every step, every Len() CALL of a thread program judged against the
// poppable counts over the interval of the call (checkLenCalls; the Lean side of that rule is
// LenCallOK / c11_len_call_interval / c11_len_two_counter), justification of false returns.
package c11

import (
	"fmt"
	"os"
	"strconv"
	"strings"

	"verifharness/internal/core"
	"verifharness/internal/sched/drive"
	"verifharness/internal/sched/lin"
)

func init() {
	core.Register(&core.Prop{
		ID:       "C11",
		Title:    "SyncList is a linearizable unbounded FIFO queue with a sane length",
		Quick:    3000,
		Thorough: 50000,
		Gen:      gen,
		Corpus:   corpus,
		Impl:     impl,
		Check:    check,
		NonTrivial: func(c core.Case, out []string) bool {
			steps, _, _ := drive.ParseTrace(c.Lines, out)
			return drive.Switches(steps) > 0
		},
		Rule:     "a case = thread programs (Push/Pop/Len/PopWait(-1)/PopWait(0) calls) + a schedule of atomic steps executed on the real sync_list.go under the deterministic scheduler; non-trivial = at least one context switch while the thread switched away from is inside a call; distinct by hash of programs+schedule",
		Classify: classify,
		Facts:    facts,
		Extras:   []core.Extra{raceExtra, timedExtra, uniprocExtra},
		Parallel: false,
		Assumptions: []string{
			"sync/atomic operations are sequentially consistent and DRF-SC holds (Go memory model)",
			"a freshly allocated node is private to its allocating goroutine until the link CAS publishes it",
			"PopWait(d<0) (Pop in a Gosched loop) and PopWait(0) (one Pop) are modelled and scheduled; PopWait(d>0) is modelled with the timer as an input (ticks fire when the scheduler says, the deadline is observed on an environment-chosen tick) but NOT driven by the deterministic scheduler: its control skeleton is re-extracted on every run and its conservation clause is checked under the real clock (timing-independent verdict)",
			"Go int / int64 treated as unbounded",
		},
		TrustedBase: []string{
			"deterministic scheduler + sync/atomic and runtime shims (go/internal/sched), import-path rewrite of the scratch copy (go/gen.sh)",
			"queue linearizability checker go/internal/sched/lin (own, specialised)",
			"Go race detector (extra check on the unmodified package)",
		},
	})
}

func impl(c core.Case) []string {
	out := make([]string, len(c.Lines))
	ninit, progs, ok := parseHeader(c.Lines[0])
	if !ok {
		for i := range out {
			out[i] = "bad-op"
		}
		return out
	}
	tg := newListTarget(ninit)
	if tg.err != "" {
		for i := range out {
			out[i] = tg.err
		}
		return out
	}
	e := drive.NewExec(tg, progs)
	e.S.Procs = headerProcs(c.Lines[0])
	defer e.Close()
	out[0] = "ok"
	for i := 1; i < len(c.Lines); i++ {
		out[i] = e.Line(c.Lines[i])
	}
	return out
}

func sampleLen(s string) (int, bool) {
	if !strings.HasPrefix(s, "len=") {
		return 0, false
	}
	n, err := strconv.Atoi(s[4:])
	return n, err == nil
}

// ptrTrack follows the published head and tail (chain indices) through the operations the
// real code performed on the two pointer words, however it writes them: store, successful
// CAS, swap.  ok turns false (for the rest of the trace) when a written value cannot be
// named (nil, a node that is not linked yet): from then on the number of poppable values is
// not known to the oracle and the rules that need it are not applied.
type ptrTrack struct {
	head, tail int
	ok         bool
}

func (p *ptrTrack) apply(access string) {
	f := strings.Fields(access)
	if len(f) < 2 {
		return
	}
	set := func(word, val string) {
		v, err := strconv.Atoi(val)
		if err != nil {
			p.ok = false
			return
		}
		if word == "head" {
			p.head = v
		} else {
			p.tail = v
		}
	}
	switch f[0] {
	case "st", "swap":
		for _, w := range []string{"head", "tail"} {
			if strings.HasPrefix(f[1], w+"=") {
				set(w, strings.TrimPrefix(f[1], w+"="))
			}
		}
	case "cas":
		if (f[1] == "head" || f[1] == "tail") && len(f) == 4 && f[3] == "ok" {
			if ab := strings.Split(f[2], "->"); len(ab) == 2 {
				set(f[1], ab[1])
			}
		}
	}
}

func (p *ptrTrack) poppable() int { return p.tail - p.head }

// unknownCount marks an instant at which the poppable count is not known.
const unknownCount = -1 << 30

// check is the property's own predicate on what the real code did.
func check(c core.Case, out []string) *core.Failure {
	ninit, progs, ok := parseHeader(c.Lines[0])
	if !ok {
		return nil
	}
	steps, final, anomalies := drive.ParseTrace(c.Lines, out)
	for _, a := range anomalies {
		switch {
		case a == "drain-timeout":
			key := "push-stuck"
			if strings.Contains(c.Lines[0], " w") || strings.Contains(c.Lines[0], " z") || strings.Contains(c.Lines[0], " t") {
				key = "call-stuck" // a Push or a PopWait did not return
			}
			return &core.Failure{Key: key, Desc: "round-robin scheduling of all threads did not complete every call (a Push, or a PopWait(<0) for which the generator guarantees a value) within " + strconv.Itoa(drive.DrainRounds) + " rounds"}
		case a == "final-panic":
			return &core.Failure{Key: "panic", Desc: "popping the remaining values from the quiescent list panicked"}
		case a == "hang":
			return &core.Failure{Key: "hang", Desc: "a thread ran without reaching an atomic operation or returning"}
		case strings.HasPrefix(a, "harness"):
			return &core.Failure{Key: "harness", Desc: a}
		}
	}
	// 1. Len() after every step: never negative, never below the number of poppable
	//    values (published tail index − head index, read off the performed operations).
	for k, st := range steps {
		if n, ok := sampleLen(st.Sample); ok && n < 0 {
			return &core.Failure{Key: "len-negative", Desc: fmt.Sprintf("Len() == %d after step %d (thread %d: %s)", n, k, st.Tid, st.Access)}
		}
	}
	pt := ptrTrack{head: 0, tail: ninit, ok: true}
	// poppable[k+1] = number of values that can be popped right after step k
	// (poppable[0]: before the first step); unknownCount when not known
	poppable := make([]int, 1, len(steps)+1)
	poppable[0] = ninit
	for k, st := range steps {
		pt.apply(st.Access)
		tailIdx, headIdx := pt.tail, pt.head
		if !pt.ok {
			tailIdx, headIdx = 0, 1<<30 // no lower bound for Len() from here on
		}
		if pt.ok {
			poppable = append(poppable, pt.poppable())
		} else {
			poppable = append(poppable, unknownCount)
		}
		n, ok := sampleLen(st.Sample)
		if st.Sample == "sample-panic" {
			return &core.Failure{Key: "panic", Desc: fmt.Sprintf("Len() panicked after step %d", k)}
		}
		if !ok {
			return &core.Failure{Key: "harness", Desc: "step without a len sample: " + st.Sample}
		}
		if n < 0 {
			return &core.Failure{Key: "len-negative", Desc: fmt.Sprintf("Len() == %d after step %d (thread %d: %s)", n, k, st.Tid, st.Access)}
		}
		if n < tailIdx-headIdx {
			return &core.Failure{Key: "len-below-poppable", Desc: fmt.Sprintf("Len() == %d after step %d (thread %d: %s) while %d values can be popped", n, k, st.Tid, st.Access, tailIdx-headIdx)}
		}
		if st.Ret == "panic" {
			return &core.Failure{Key: "panic", Desc: fmt.Sprintf("thread %d panicked at step %d (%s)", st.Tid, k, st.Access)}
		}
		if strings.HasPrefix(st.Ret, "len ") {
			if v, err := strconv.Atoi(st.Ret[4:]); err == nil && v < 0 {
				return &core.Failure{Key: "len-negative", Desc: fmt.Sprintf("a Len() call of thread %d returned %d", st.Tid, v)}
			}
		}
	}
	// 1b. every Len() CALL of a thread program, judged against the interval of the call.
	//     A Len() made of several atomic accesses (two counters loaded one after the
	//     other, a walk along the chain, …) is preempted between them under the scheduler;
	//     the sample above (a Len() run by the controller between two steps) never is.
	calls := drive.Calls(progs, steps)
	if f := checkLenCalls(calls, poppable, ninit); f != nil {
		return f
	}
	// 2. history: FIFO linearizability, exactly-once, justified false returns
	var ops []lin.Op
	for _, cr := range calls {
		var o lin.Op
		o.Thread, o.Inv, o.Resp, o.Pending = cr.Tid, cr.Inv, cr.Resp, cr.Pending
		switch {
		case cr.Call == "l":
			continue
		case cr.Call == "o" || cr.Call == "w" || cr.Call == "z" || (len(cr.Call) > 1 && cr.Call[0] == 't'):
			o.Kind = lin.Pop
			if !cr.Pending {
				f := strings.Fields(cr.Ret) // pop <v> <ok>
				if len(f) != 3 || f[0] != "pop" {
					return &core.Failure{Key: "harness", Desc: "unparsable result " + cr.Ret}
				}
				o.Val, _ = strconv.Atoi(f[1])
				o.OK = f[2] == "true"
				if cr.Call == "w" && !o.OK {
					return &core.Failure{Key: "popwait-block-false", Desc: fmt.Sprintf("PopWait(-1) of thread %d returned false (it has to block until a value is popped)", cr.Tid)}
				}
			}
		default:
			o.Kind = lin.Push
			o.Val, _ = strconv.Atoi(cr.Call[1:])
			o.OK = true
			if !cr.Pending && cr.Ret != "push" {
				return &core.Failure{Key: "harness", Desc: "unparsable result " + cr.Ret}
			}
		}
		ops = append(ops, o)
	}
	sp := lin.Spec{}
	for v := 1; v <= ninit; v++ {
		sp.Init = append(sp.Init, v)
	}
	finalLen := -1
	if final != "" {
		// final len=<n> [v v v]
		f := strings.SplitN(final, " ", 3)
		if len(f) == 3 {
			finalLen, _ = strconv.Atoi(strings.TrimPrefix(f[1], "len="))
			body := strings.Trim(f[2], "[]")
			sp.FinalKnown = true
			sp.Final = []int{}
			for _, x := range strings.Fields(body) {
				v, _ := strconv.Atoi(x)
				sp.Final = append(sp.Final, v)
			}
		}
	}
	// pure linearizability of the successful operations first, then with the
	// false-return rule, so that the key says which clause failed
	var succ []lin.Op
	for _, o := range ops {
		if o.Pending || o.OK {
			succ = append(succ, o)
		}
	}
	if why := lin.Check(succ, sp); why != "" {
		return &core.Failure{Key: "not-linearizable", Desc: why}
	}
	if why := lin.Check(ops, sp); why != "" {
		return &core.Failure{Key: "false-unjustified", Desc: "a Pop returned false although the list was never empty during the call and nothing overlapped it: " + why}
	}
	// 3. quiescent: Len() equals the number of stored values
	if sp.FinalKnown && finalLen != len(sp.Final) {
		return &core.Failure{Key: "len-quiescent", Desc: fmt.Sprintf("no operation in flight: Len() == %d but %d values are stored %v", finalLen, len(sp.Final), sp.Final)}
	}
	return nil
}

// checkLenCalls: the Len clause for calls that overlap other operations.  A call occupies
// the instants from just before its first atomic access (it may have been invoked that
// late: the thread has done nothing observable before) to just after the access on which
// it returns.  The property allows a result r iff
//
//	r >= 0, and r >= the number of poppable values at SOME instant of the call
//	(equivalently r >= the minimum of that number over the call's instants),
//	and r == the number of stored values if no other call is in flight at any instant
//	of the call (then that number does not change during the call, and it is
//	initial + completed pushes − successful pops: read off the history, not the pointers).
//
// "Never less than the number of values that can currently be popped" cannot ask for more
// of a call that overlaps pushes and pops: whichever instant "currently" refers to lies
// inside the call.  It must not ask for less either: a result below the minimum is below
// the poppable count at EVERY instant of the call (seed C11-K: `pushed` loaded before
// `popped`, Push+Pop pairs completing in between are subtracted but not added).
// poppable[k+1] is the count right after global step k.
func checkLenCalls(calls []drive.CallRec, poppable []int, ninit int) *core.Failure {
	for ci, cr := range calls {
		if cr.Call != "l" || cr.Pending {
			continue
		}
		f := strings.Fields(cr.Ret) // len <n>
		if len(f) != 2 || f[0] != "len" {
			if cr.Ret == "panic" {
				continue // reported by the step loop
			}
			return &core.Failure{Key: "harness", Desc: "unparsable result " + cr.Ret}
		}
		r, err := strconv.Atoi(f[1])
		if err != nil {
			return &core.Failure{Key: "harness", Desc: "unparsable result " + cr.Ret}
		}
		if cr.Inv < 0 || cr.Resp+1 >= len(poppable) || cr.Inv > cr.Resp {
			return &core.Failure{Key: "harness", Desc: "Len() call with an impossible interval"}
		}
		if r < 0 {
			return &core.Failure{Key: "len-negative", Desc: fmt.Sprintf("a Len() call of thread %d returned %d (steps %d..%d)", cr.Tid, r, cr.Inv, cr.Resp)}
		}
		lo, hi, known := poppable[cr.Inv], poppable[cr.Inv], true
		for k := cr.Inv; k <= cr.Resp+1; k++ {
			if poppable[k] == unknownCount || poppable[k] < 0 {
				known = false // head/tail written in a way the oracle cannot follow
			}
			if poppable[k] < lo {
				lo = poppable[k]
			}
			if poppable[k] > hi {
				hi = poppable[k]
			}
		}
		if known && r < lo {
			return &core.Failure{Key: "len-call-below-poppable", Desc: fmt.Sprintf("a Len() call of thread %d (steps %d..%d) returned %d although at least %d values could be popped at every instant of the call (between %d and %d)", cr.Tid, cr.Inv, cr.Resp, r, lo, lo, hi)}
		}
		// no other call in flight at any instant of this call: every earlier call has
		// returned, so the number of stored values is a fact about the HISTORY alone
		// (initial + completed pushes − successful pops), whatever the pointers look like
		quiet, stored := true, ninit
		for cj, o := range calls {
			if cj == ci {
				continue
			}
			if o.Inv > cr.Resp {
				continue // invoked after this call returned
			}
			if o.Pending || o.Resp >= cr.Inv {
				if o.Tid != cr.Tid {
					quiet = false
					break
				}
				continue
			}
			switch {
			case strings.HasPrefix(o.Call, "u") && o.Ret == "push":
				stored++
			case strings.HasPrefix(o.Ret, "pop ") && strings.HasSuffix(o.Ret, " true"):
				stored--
			}
		}
		if quiet && r != stored {
			return &core.Failure{Key: "len-call-quiescent", Desc: fmt.Sprintf("a Len() call of thread %d (steps %d..%d) returned %d with no other operation in flight during the call while %d values are stored (initial %d + completed pushes - successful pops)", cr.Tid, cr.Inv, cr.Resp, r, stored, ninit)}
		}
	}
	return nil
}

func classify(c core.Case, out []string) []string {
	steps, final, _ := drive.ParseTrace(c.Lines, out)
	seen := map[string]bool{}
	_, progs, _ := parseHeader(c.Lines[0])
	next := make([]int, len(progs)) // index of the call each thread is executing
	for _, st := range steps {
		call := ""
		if st.Tid >= 0 && st.Tid < len(progs) && next[st.Tid] < len(progs[st.Tid]) {
			call = progs[st.Tid][next[st.Tid]]
			if st.Ret != "" {
				next[st.Tid]++
			}
		}
		if len(call) > 1 && call[0] == 't' {
			seen["call-PopWait(>0)"] = true
			if st.Ret == "pop 0 false" {
				seen["popwait-timed-expired"] = true
			}
			if strings.HasPrefix(st.Ret, "pop") && strings.HasSuffix(st.Ret, "true") {
				seen["popwait-timed-delivered"] = true
			}
		}
		switch call {
		case "w":
			seen["call-PopWait(<0)"] = true
			if st.Access == "yield" {
				seen["popwait-spin-gosched"] = true
			}
			if strings.HasPrefix(st.Access, "cas head") && strings.HasSuffix(st.Access, "fail") {
				seen["popwait-retry-after-lost-cas"] = true
			}
		case "z":
			seen["call-PopWait(0)"] = true
			if st.Ret == "pop 0 false" {
				seen["popwait0-false"] = true
			}
		}
		switch {
		case strings.HasPrefix(st.Access, "cas next") && strings.HasSuffix(st.Access, "fail"):
			seen["push-link-cas-lost"] = true
		case st.Access == "yield" && call != "w":
			seen["push-spin-gosched"] = true
		case strings.HasPrefix(st.Access, "cas head") && strings.HasSuffix(st.Access, "fail"):
			seen["pop-head-cas-lost"] = true
		case strings.HasPrefix(st.Access, "ld next") && !strings.HasSuffix(st.Access, "nil") && strings.Contains(st.Ret, ""):
			// a pusher seeing a linked-but-unpublished node is followed by a yield (counted there)
		}
		if st.Ret == "pop 0 false" {
			if strings.HasPrefix(st.Access, "ld tail") {
				seen["pop-false-head==tail"] = true
			}
		}
		if strings.HasPrefix(st.Ret, "pop") && strings.HasSuffix(st.Ret, "true") {
			seen["pop-ok"] = true
		}
	}
	if final == "" {
		seen["ends-with-pending-calls"] = true
	}
	// Len() calls and what the other threads completed while the caller was parked inside
	// (or right in front of) the call: the window in which a Len() composed of several
	// atomic loads is preempted
	lastStep := make([]int, len(progs))
	for i := range lastStep {
		lastStep[i] = -1
	}
	callAt := map[int]drive.CallRec{}
	for _, cr := range drive.Calls(progs, steps) {
		if cr.Call == "l" {
			callAt[cr.Inv] = cr
		}
	}
	pt := ptrTrack{ok: true}
	if n, _, ok := parseHeader(c.Lines[0]); ok {
		pt.tail = n
	}
	pop := make([]int, 0, len(steps)) // poppable count right after each step
	for _, st := range steps {
		pt.apply(st.Access)
		pop = append(pop, pt.poppable())
	}
	for k, st := range steps {
		if st.Tid < 0 || st.Tid >= len(lastStep) {
			continue
		}
		if cr, ok := callAt[k]; ok {
			seen["call-Len"] = true
			end := cr.Resp
			if cr.Pending {
				end = k
			}
			if end > cr.Inv {
				seen["len-call-of-several-accesses"] = true
			}
			pushes, pops, minPop := 0, 0, pop[k]
			for j := lastStep[st.Tid] + 1; j <= end && j < len(steps); j++ {
				if pop[j] < minPop {
					minPop = pop[j]
				}
				if steps[j].Tid == st.Tid {
					continue
				}
				if strings.HasPrefix(steps[j].Access, "st tail=") {
					pushes++
				}
				if strings.HasPrefix(steps[j].Access, "cas head ") && strings.HasSuffix(steps[j].Access, " ok") {
					pops++
				}
			}
			if pushes > 0 && pops > 0 {
				seen["len-caller-parked-across-push+pop"] = true
				if minPop > 0 {
					seen["len-caller-parked-across-push+pop-on-nonempty-list"] = true
				}
			}
		}
		lastStep[st.Tid] = k
	}
	var ls []string
	for k := range seen {
		ls = append(ls, k)
	}
	return ls
}

func tierFromArgs() string {
	for _, a := range os.Args[1:] {
		if a == "thorough" {
			return "thorough"
		}
	}
	if os.Getenv("VERIF_TIER") == "thorough" {
		return "thorough"
	}
	return "quick"
}
