package c18

import (
	"strings"

	"verifharness/internal/core"
)

// shrink: delete operation lines, then items (dp) / keys (map) / edges (graph) from the
// header, as long as the same failure persists.
func shrink(c core.Case, fails func(core.Case) bool) core.Case {
	cur := c
	try := func(lines []string) bool {
		t := core.Case{Lines: lines, Seed: c.Seed, Tag: c.Tag}
		if fails(t) {
			cur = t
			return true
		}
		return false
	}
	for changed := true; changed; {
		changed = false
		// operation lines
		for i := 1; i < len(cur.Lines) && len(cur.Lines) > 2; {
			nl := append(append([]string{}, cur.Lines[:i]...), cur.Lines[i+1:]...)
			if try(nl) {
				changed = true
			} else {
				i++
			}
		}
		hdr := core.Toks(cur.Lines[0])
		if len(hdr) < 3 {
			break
		}
		start, step := 3, 1
		switch hdr[2] {
		case "dp":
			step = 2
		case "graph":
			start = 4
		}
		for i := start; i+step <= len(hdr); {
			nh := append(append([]string{}, hdr[:i]...), hdr[i+step:]...)
			nl := append([]string{strings.Join(nh, " ")}, cur.Lines[1:]...)
			if try(nl) {
				hdr = nh
				changed = true
			} else {
				i += step
			}
		}
	}
	return cur
}
