// Package c18: Knapsack, FindDpSolvers/Best/BestAllowMinOverflow and maximal-clique
// enumeration are exact (algz/dp.go, algz/graph.go).
//
// Protocol (see lean/Golib/Model/C18.lean):
//
//	@ C18 dp w0 v0 w1 v1 …      knap W brk | solv max over brk seed
//	@ C18 map k0 k1 …           best m seed | besto m seed
//	@ C18 graph n a-b a>b …     cliques | bk p0 p1 … | bkx r… | p… | x…
//
// Go map iteration order is real randomness, so only order-independent observables
// are printed (keys ≤ max with their selections, the least key above max, Best /
// BestAllowMinOverflow at max; canonicalised cliques).  The Lean model takes the
// iteration order as an input (derived from `seed`) and its theorems say that these
// observables do not depend on it.  BronKerbosch is exported, so `bk`/`bkx` call it with
// a chosen order of P and compare the exact result list.
package c18

import (
	"fmt"
	"sort"
	"strconv"
	"strings"

	"github.com/welllog/golib/algz"

	"verifharness/internal/core"
)

type item struct{ id, w, v int }

func init() {
	core.Register(&core.Prop{
		ID:         "C18",
		Title:      "Knapsack, subset-sum solvers and maximal-clique enumeration are exact",
		Quick:      30000,
		Thorough:   150000,
		Gen:        gen,
		Corpus:     corpus,
		Impl:       impl,
		Check:      check,
		NonTrivial: nonTrivial,
		Rule: "dp cases: ≥ 3 items and at least one knap/solv op that did not panic; map cases: ≥ 2 keys and one query; " +
			"graph cases: ≥ 3 vertices, ≥ 1 edge and one query; distinct by hash of the case lines; " +
			"stream 'large' = 17..200 items / 33..120 vertices, judged by non-brute-force independent oracles (own DP table, reachable-total table, own pivoting Bron–Kerbosch + per-clique maximality); " +
			"stream 'sentinel' = arguments at the edge of int: 1..8 items of weight MaxInt, MaxInt-1, MaxInt-W, 1<<62, 1<<62±1, MaxInt/2+1, MaxInt/3+1 … (several per case, any position) among ordinary items, values / maxValue / map keys at the guard (total = MaxInt, limits MaxInt-2..MaxInt); the oracle never adds weights (room left, item by item)",
		Classify: classify,
		Shrink:   shrink,
		Parallel: true,
		Extras: []core.Extra{
			{Name: "all-graphs-small", Run: exhaustiveGraphs},
			{Name: "all-small-item-lists", Run: exhaustiveItems},
			{Name: "all-small-item-lists-with-sentinel-weights", Run: exhaustiveSentinel},
			{Name: "type-parameter-matrix", Run: typeMatrix},
		},
		Assumptions: []string{
			"Go int: the models compute in unbounded Int; the 64-bit twin (wrapping maxWeight+1, i-w, i--, Go panics) is proved equal to them for ALL 64-bit weights and limits < math.MaxInt, and for the value sums of Knapsack / FindDpSolvers under the guard 'sum of |values| < 2^63' (c18_knapsack_int64_weights, c18_knapsack_int64_exact, c18_solvers_int64_exact); beyond that guard Go wraps (not generated); math.MaxInt is the initial minDiff of Best (Best(MaxInt) never selects key 0)",
			"tie-breakers are pure functions of the two item lists (they do not modify or retain them)",
			"Go map iteration order is an input of the model (any permutation); the compared observables are the order-independent ones",
			"Knapsack's tmp / per-cell buffers and BronKerbosch's R array are modelled as values (private by construction); the pool of FindDpSolvers and the shared P/X array of GetMaximalCliques are modelled as explicit buffers",
		},
	})
}

/* ---------- tie-breakers (same definitions as Golib.C18.parseBrk) ---------- */

func idsOf(l []item) []int {
	r := make([]int, len(l))
	for i, x := range l {
		r[i] = x.id
	}
	return r
}

func hashIds(h int, l []int) int {
	for _, x := range l {
		h = (h*31 + x + 1) % 1000003
	}
	return h
}

func lexLt(a, b []int) bool {
	for i := 0; ; i++ {
		switch {
		case i == len(a) && i == len(b):
			return false
		case i == len(a):
			return true
		case i == len(b):
			return false
		case a[i] < b[i]:
			return true
		case b[i] < a[i]:
			return false
		}
	}
}

// parseBrk: ok=false → bad token; f == nil → no tie-breaker passed.
func parseBrk(s string) (f func(o, n []item) bool, ok bool) {
	switch {
	case s == "nil":
		return nil, true
	case s == "t":
		return func(o, n []item) bool { return true }, true
	case s == "f":
		return func(o, n []item) bool { return false }, true
	case s == "lt":
		return func(o, n []item) bool { return len(n) < len(o) }, true
	case s == "le":
		return func(o, n []item) bool { return len(n) <= len(o) }, true
	case s == "gt": // prefer MORE items at a value tie
		return func(o, n []item) bool { return len(n) > len(o) }, true
	case s == "ge":
		return func(o, n []item) bool { return len(n) >= len(o) }, true
	case s == "xel": // prefer the lexicographically LARGER id list
		return func(o, n []item) bool { return lexLt(idsOf(o), idsOf(n)) }, true
	case s == "lex":
		return func(o, n []item) bool { return lexLt(idsOf(n), idsOf(o)) }, true
	case strings.HasPrefix(s, "h"):
		k, err := strconv.Atoi(s[1:])
		if err != nil || k < 0 {
			return nil, false
		}
		return func(o, n []item) bool {
			return hashIds((hashIds(k, idsOf(o))*31+977)%1000003, idsOf(n))%2 == 0
		}, true
	}
	return nil, false
}

/* ---------- implementation adapter ---------- */

func parseItems(ts []string) ([]item, bool) {
	if len(ts)%2 != 0 {
		return nil, false
	}
	var items []item
	for i := 0; i < len(ts); i += 2 {
		w, e1 := strconv.Atoi(ts[i])
		v, e2 := strconv.Atoi(ts[i+1])
		if e1 != nil || e2 != nil {
			return nil, false
		}
		items = append(items, item{len(items), w, v})
	}
	return items, true
}

func showIDs(l []item) string { return fmt.Sprint(idsOf(l)) }

func showSel(l []item) string {
	if l == nil {
		return "nil"
	}
	return showIDs(l)
}

// itemWindow passes the items as a window of a larger arena: canary items in front, behind and
// in the spare capacity of the window; ok() tells whether the window and the canaries are
// untouched after the call.
func itemWindow(items []item) (in []item, ok func() bool) {
	const pad = 3
	canary := item{id: -7, w: -7, v: -7}
	arena := make([]item, pad+len(items)+pad)
	for i := range arena {
		arena[i] = canary
	}
	copy(arena[pad:], items)
	in = arena[pad : pad+len(items)] // cap reaches into the trailing canaries
	return in, func() bool {
		for i := 0; i < pad; i++ {
			if arena[i] != canary || arena[len(arena)-1-i] != canary {
				return false
			}
		}
		for i, x := range items {
			if arena[pad+i] != x {
				return false
			}
		}
		return true
	}
}

// inputTouched is set (never cleared) when a call modified its input window or a canary.
type inputFlag struct{ touched bool }

func runKnap(items []item, W int, brk func(o, n []item) bool, fl *inputFlag) []item {
	wf := func(x item) int { return x.w }
	vf := func(x item) int { return x.v }
	in, ok := itemWindow(items)
	defer func() {
		if !ok() {
			fl.touched = true
		}
	}()
	if brk == nil {
		return algz.Knapsack(W, in, wf, vf)
	}
	return algz.Knapsack(W, in, wf, vf, brk)
}

func runSolv(items []item, max int, over bool, brk func(o, n []item) bool, fl *inputFlag) algz.DpSolvers[item] {
	vf := func(x item) int { return x.v }
	in, ok := itemWindow(items)
	defer func() {
		if !ok() {
			fl.touched = true
		}
	}()
	if brk == nil {
		return algz.FindDpSolvers(max, in, vf, over)
	}
	return algz.FindDpSolvers(max, in, vf, over, brk)
}

// ledger: every slice the library returned in this case (Knapsack selection, every selection
// of a DpSolvers map, Best/BestAllowMinOverflow results, every clique) with a deep copy; after
// every later call all of them must be unchanged (no pooled or shared backing memory).
type ledger struct {
	line  int
	items []ledgerItems
	ints  []ledgerInts
}

type ledgerItems struct {
	line int
	got  []item
	copy []item
}

type ledgerInts struct {
	line int
	got  []int
	copy []int
}

func (l *ledger) keepItems(x []item) {
	l.items = append(l.items, ledgerItems{l.line, x, append([]item(nil), x...)})
}

func (l *ledger) keepInts(x []int) {
	l.ints = append(l.ints, ledgerInts{l.line, x, append([]int(nil), x...)})
}

func (l *ledger) keepMap(m algz.DpSolvers[item]) {
	for _, sel := range m {
		l.keepItems(sel)
	}
}

func (l *ledger) verify() string {
	for _, e := range l.items {
		if len(e.got) != len(e.copy) {
			return fmt.Sprintf("selection-returned-by-line-%d-changed", e.line)
		}
		for i := range e.got {
			if e.got[i] != e.copy[i] {
				return fmt.Sprintf("selection-returned-by-line-%d-changed", e.line)
			}
		}
	}
	for _, e := range l.ints {
		for i := range e.got {
			if e.got[i] != e.copy[i] {
				return fmt.Sprintf("slice-returned-by-line-%d-changed", e.line)
			}
		}
	}
	return ""
}

// solvLine prints the order-independent observables of a solver map.
func solvLine(m algz.DpSolvers[item], max int) string {
	var le []int
	ov, haveOv := 0, false
	for k := range m {
		if k <= max {
			le = append(le, k)
		} else if !haveOv || k < ov {
			ov, haveOv = k, true
		}
	}
	sort.Ints(le)
	var sb strings.Builder
	sb.WriteString("le ")
	for i, k := range le {
		if i > 0 {
			sb.WriteByte(' ')
		}
		fmt.Fprintf(&sb, "%d:%s", k, showIDs(m[k]))
	}
	sb.WriteString(" | ov ")
	if haveOv {
		fmt.Fprintf(&sb, "%d:%s", ov, showIDs(m[ov]))
	} else {
		sb.WriteString("none")
	}
	sb.WriteString(" | best " + showSel(m.Best(max)))
	sb.WriteString(" | besto " + showSel(m.BestAllowMinOverflow(max)))
	return sb.String()
}

type graphCase struct {
	n      int
	mode   int             // how the graph was built through the public API (see parseGraph)
	lenBad bool            // Graph.Len() differed from the number of vertices after building
	dir    map[[2]int]bool // final arc set
	asym   bool            // some arc has no reverse arc: not an undirected graph
	und    [][2]int
	arcs   [][2]int
	graph  *algz.Graph[int]
}

func parseGraph(ts []string) (*graphCase, bool) {
	if len(ts) < 1 {
		return nil, false
	}
	n, err := strconv.Atoi(ts[0])
	if err != nil || n < 0 {
		return nil, false
	}
	gc := &graphCase{n: n, graph: &algz.Graph[int]{}}
	// The same graph is built through the public API in one of four ways, chosen by a hash of
	// the header (so that a case replays identically and the Lean model, which only sees the
	// resulting graph, is unaffected):
	//   0: AddNode for every vertex, then the edges;
	//   1: Init(n), the edges, then AddNode for every vertex (must keep the neighbours);
	//   2: zero-value Graph, the edges only (lazyInit / node creation inside AddEdge),
	//      AddNode only for the isolated vertices;
	//   3: like 2, every undirected edge as two AddEdge calls (second direction first), and
	//      every edge added a second time at the end (duplicate edges are idempotent).
	mode := 0
	for _, t := range ts {
		for i := 0; i < len(t); i++ {
			mode = (mode*31 + int(t[i])) % 1000003
		}
		mode = (mode*31 + 7) % 1000003
	}
	mode %= 4
	gc.mode = mode
	switch mode {
	case 0:
		for i := 0; i < n; i++ {
			gc.graph.AddNode(i)
		}
	case 1:
		gc.graph.Init(n)
	}
	type edgeTok struct {
		a, b int
		und  bool
	}
	var added []edgeTok
	for _, t := range ts[1:] {
		sep := "-"
		if strings.Contains(t, ">") {
			sep = ">"
		}
		ab := strings.Split(t, sep)
		if len(ab) != 2 {
			return nil, false
		}
		a, e1 := strconv.Atoi(ab[0])
		b, e2 := strconv.Atoi(ab[1])
		if e1 != nil || e2 != nil || a < 0 || b < 0 || a >= n || b >= n || a == b {
			return nil, false
		}
		if sep == "-" {
			gc.und = append(gc.und, [2]int{a, b})
			if mode == 3 {
				gc.graph.AddEdge(b, a)
				gc.graph.AddEdge(a, b)
			} else {
				gc.graph.AddUndirectedEdge(a, b)
			}
		} else {
			gc.arcs = append(gc.arcs, [2]int{a, b})
			gc.graph.AddEdge(a, b)
		}
		added = append(added, edgeTok{a, b, sep == "-"})
	}
	if mode == 3 {
		for i := len(added) - 1; i >= 0; i-- {
			if e := added[i]; e.und {
				gc.graph.AddUndirectedEdge(e.b, e.a)
			} else {
				gc.graph.AddEdge(e.a, e.b)
			}
		}
	}
	switch mode {
	case 1:
		for i := n - 1; i >= 0; i-- {
			gc.graph.AddNode(i)
		}
	case 2, 3:
		// only the vertices that no AddEdge call created: isolated ones and pure arc targets
		for i := 0; i < n; i++ {
			if _, ok := gc.graph.Nodes[i]; !ok {
				gc.graph.AddNode(i)
			}
		}
	}
	if gc.graph.Len() != n {
		gc.lenBad = true
	}
	// The property is about undirected graphs: a case is judged iff the FINAL arc set (all
	// `a-b` and `a>b` tokens together, in whatever order and mixture they were added) is
	// symmetric; one-way arcs left over make it a malformed case (correspondence only).
	dir := map[[2]int]bool{}
	for _, e := range gc.und {
		dir[[2]int{e[0], e[1]}] = true
		dir[[2]int{e[1], e[0]}] = true
	}
	for _, e := range gc.arcs {
		dir[e] = true
	}
	for e := range dir {
		if !dir[[2]int{e[1], e[0]}] {
			gc.asym = true
		}
	}
	gc.dir = dir
	return gc, true
}

func canonCliques(cs [][]int) [][]int {
	out := make([][]int, len(cs))
	for i, c := range cs {
		d := append([]int{}, c...)
		sort.Ints(d)
		out[i] = d
	}
	sort.SliceStable(out, func(i, j int) bool { return lexLt(out[i], out[j]) })
	return out
}

func showCliques(cs [][]int) string {
	parts := make([]string, len(cs))
	for i, c := range cs {
		if c == nil {
			c = []int{}
		}
		parts[i] = fmt.Sprint(c)
	}
	return "[" + strings.Join(parts, " ") + "]"
}

func atoiAll(ts []string, lim int) ([]int, bool) {
	r := make([]int, 0, len(ts))
	for _, t := range ts {
		v, err := strconv.Atoi(t)
		if err != nil || v < 0 || v >= lim {
			return nil, false
		}
		r = append(r, v)
	}
	return r, true
}

func splitBar(ts []string) [][]string {
	groups := [][]string{{}}
	for _, t := range ts {
		if t == "|" {
			groups = append(groups, []string{})
		} else {
			groups[len(groups)-1] = append(groups[len(groups)-1], t)
		}
	}
	return groups
}

func impl(c core.Case) []string {
	var kind string
	var items []item
	var keys []int
	var gc *graphCase
	lg := &ledger{}
	fl := &inputFlag{}
	var hist *algz.Graph[int] // `graphh` cases: ONE Graph value through Init / rebuild rounds
	return core.RunOps(c,
		func(hdr []string) string {
			if len(hdr) == 0 {
				return "bad-op"
			}
			kind = hdr[0]
			switch kind {
			case "dp":
				var ok bool
				if items, ok = parseItems(hdr[1:]); !ok {
					kind = ""
					return "bad-op"
				}
			case "map":
				seen := map[int]bool{}
				for _, t := range hdr[1:] {
					k, err := strconv.Atoi(t)
					if err != nil || seen[k] {
						kind = ""
						return "bad-op"
					}
					seen[k] = true
					keys = append(keys, k)
				}
			case "graphh":
				if len(hdr) != 1 {
					kind = ""
					return "bad-op"
				}
				hist = &algz.Graph[int]{}
			case "graph":
				var ok bool
				if gc, ok = parseGraph(hdr[1:]); !ok {
					kind = ""
					return "bad-op"
				}
			default:
				kind = ""
				return "bad-op"
			}
			return "ok"
		},
		func(t []string) string {
			lg.line++
			var o string
			if kind == "graphh" {
				o = histStep(hist, lg, t)
			} else {
				o = implStep(kind, items, keys, gc, lg, fl, t)
			}
			// results ledger: everything returned by EARLIER calls of this case is unchanged;
			// input windows: no call wrote into its input or into the memory around it
			if msg := lg.verify(); msg != "" {
				o += " LEDGER:" + msg
			} else if fl.touched {
				o += " LEDGER:input-items-or-memory-around-them-modified"
			}
			return o
		})
}

// implStep runs one operation line.
func implStep(kind string, items []item, keys []int, gc *graphCase, lg *ledger, fl *inputFlag, t []string) string {
	if len(t) == 0 {
		return "bad-op"
	}
	switch {
	case kind == "dp" && t[0] == "knap" && len(t) == 3:
		W, err := strconv.Atoi(t[1])
		brk, ok := parseBrk(t[2])
		if err != nil || !ok {
			return "bad-op"
		}
		sel := runKnap(items, W, brk, fl)
		lg.keepItems(sel)
		return showIDs(sel)
	case kind == "dp" && t[0] == "knapv" && len(t) == 3:
		// value + validity only (limits beyond what the table model can execute)
		W, err := strconv.Atoi(t[1])
		brk, ok := parseBrk(t[2])
		if err != nil || !ok {
			return "bad-op"
		}
		sel := runKnap(items, W, brk, fl)
		lg.keepItems(sel)
		ids := idsOf(sel)
		valid := "true"
		tv := 0
		if !validSelection(ids, len(items)) {
			valid = "false:not-a-sub-selection:" + strings.ReplaceAll(fmt.Sprint(ids), " ", ",")
		} else {
			for _, id := range ids {
				tv += items[id].v
			}
			neg := false
			for _, x := range items {
				neg = neg || x.w < 0
			}
			// no sum of weights is formed (weights may be as large as math.MaxInt)
			if _, ok := fitsLimit(items, func(i int) bool { return contains(ids, i) }, W); !ok && !neg {
				valid = "false:weight-exceeds-limit"
			}
		}
		return fmt.Sprintf("value=%d valid=%s", tv, valid)
	case kind == "dp" && t[0] == "solv" && len(t) == 5:
		max, e1 := strconv.Atoi(t[1])
		over, e2 := strconv.Atoi(t[2])
		brk, ok := parseBrk(t[3])
		seed, e3 := strconv.Atoi(t[4])
		if e1 != nil || e2 != nil || e3 != nil || !ok || over < 0 || over > 1 || seed < 0 {
			return "bad-op"
		}
		m := runSolv(items, max, over == 1, brk, fl)
		lg.keepMap(m)
		return solvLine(m, max)
	case kind == "map" && (t[0] == "best" || t[0] == "besto") && len(t) == 3:
		m, e1 := strconv.Atoi(t[1])
		seed, e2 := strconv.Atoi(t[2])
		if e1 != nil || e2 != nil || seed < 0 {
			return "bad-op"
		}
		var s algz.DpSolvers[int] // no keys and an odd seed: the nil map
		if len(keys) > 0 || seed%2 == 0 {
			s = algz.DpSolvers[int]{}
		}
		for _, k := range keys {
			s[k] = []int{k}
		}
		var r []int
		if t[0] == "best" {
			r = s.Best(m)
		} else {
			r = s.BestAllowMinOverflow(m)
		}
		if r == nil {
			return "nil"
		}
		lg.keepInts(r)
		return fmt.Sprint(r)
	case kind == "graph" && t[0] == "cliques" && len(t) == 1:
		cs := gc.graph.GetMaximalCliques()
		for _, c := range cs {
			lg.keepInts(c)
		}
		return showCliques(canonCliques(cs))
	case kind == "graph" && t[0] == "bk":
		ps, ok := atoiAll(t[1:], gc.n)
		if !ok {
			return "bad-op"
		}
		// exactly what GetMaximalCliques does, with the order of P chosen
		cliques := make([][]int, 0, 2)
		R := make([]int, 0, gc.n)
		P := make([]int, 0, gc.n)
		P = append(P, ps...)
		gc.graph.BronKerbosch(R, P, P[:0], &cliques)
		for _, c := range cliques {
			lg.keepInts(c)
		}
		return showCliques(cliques) + " arr=" + fmt.Sprint(P)
	case kind == "graph" && t[0] == "bkx":
		g := splitBar(t[1:])
		if len(g) != 3 {
			return "bad-op"
		}
		R, ok1 := atoiAll(g[0], gc.n)
		P, ok2 := atoiAll(g[1], gc.n)
		X, ok3 := atoiAll(g[2], gc.n)
		if !ok1 || !ok2 || !ok3 {
			return "bad-op"
		}
		// R with spare capacity (as in GetMaximalCliques), so that append(R, v) writes in
		// place at every depth; P and X with spare capacity too (X = append(X, v) in place).
		// The visible parts of the caller's R and P must be unchanged afterwards.
		R = append(make([]int, 0, len(R)+gc.n+1), R...)
		P = append(make([]int, 0, len(P)+2), P...)
		X = append(make([]int, 0, len(X)+len(P)+1), X...)
		r0, p0 := fmt.Sprint(R), fmt.Sprint(P)
		cliques := make([][]int, 0, 2)
		gc.graph.BronKerbosch(R, P, X, &cliques)
		for _, c := range cliques {
			lg.keepInts(c)
		}
		if fmt.Sprint(R) != r0 || fmt.Sprint(P) != p0 {
			return showCliques(cliques) + " caller-slices-modified R=" + fmt.Sprint(R) + " P=" + fmt.Sprint(P)
		}
		return showCliques(cliques)
	}
	return "bad-op"
}

// histStep: one operation of a `graphh` case on the single Graph value g.
func histStep(g *algz.Graph[int], lg *ledger, t []string) string {
	if len(t) == 0 {
		return "bad-op"
	}
	num := func(i int) (int, bool) {
		v, err := strconv.Atoi(t[i])
		return v, err == nil && v >= 0
	}
	switch {
	case t[0] == "init" && len(t) == 2:
		c, ok := num(1)
		if !ok {
			return "bad-op"
		}
		g.Init(c)
		return "ok"
	case t[0] == "node" && len(t) == 2:
		v, ok := num(1)
		if !ok {
			return "bad-op"
		}
		g.AddNode(v)
		return "ok"
	case (t[0] == "und" || t[0] == "arc") && len(t) == 3:
		a, ok1 := num(1)
		b, ok2 := num(2)
		if !ok1 || !ok2 || a == b {
			return "bad-op"
		}
		if t[0] == "und" {
			g.AddUndirectedEdge(a, b)
		} else {
			g.AddEdge(a, b)
		}
		return "ok"
	case (t[0] == "cnode") && len(t) == 2:
		// the same graph through a by-value copy of the struct: the copy shares the exported Nodes map
		v, ok := num(1)
		if !ok {
			return "bad-op"
		}
		if g.Nodes == nil {
			g.AddNode(v) // a copy of the zero value has its own map: nothing shared yet
			return "ok"
		}
		h := *g
		h.AddNode(v)
		return "ok"
	case (t[0] == "cund" || t[0] == "carc") && len(t) == 3:
		a, ok1 := num(1)
		b, ok2 := num(2)
		if !ok1 || !ok2 || a == b {
			return "bad-op"
		}
		if g.Nodes == nil {
			g.Init(0)
		}
		if t[0] == "cund" {
			func(h algz.Graph[int]) { h.AddUndirectedEdge(a, b) }(*g) // a helper taking the Graph by value
		} else {
			h := *g
			h.AddEdge(a, b)
		}
		return "ok"
	case t[0] == "mnode" && len(t) == 2:
		// direct writes to the exported map
		v, ok := num(1)
		if !ok {
			return "bad-op"
		}
		if g.Nodes == nil {
			g.Nodes = map[int]map[int]struct{}{}
		}
		if _, in := g.Nodes[v]; !in {
			g.Nodes[v] = map[int]struct{}{}
		}
		return "ok"
	case t[0] == "marc" && len(t) == 3:
		a, ok1 := num(1)
		b, ok2 := num(2)
		if !ok1 || !ok2 || a == b {
			return "bad-op"
		}
		if g.Nodes == nil {
			g.Nodes = map[int]map[int]struct{}{}
		}
		if g.Nodes[a] == nil {
			g.Nodes[a] = map[int]struct{}{}
		}
		g.Nodes[a][b] = struct{}{}
		return "ok"
	case t[0] == "mdel" && len(t) == 2:
		v, ok := num(1)
		if !ok {
			return "bad-op"
		}
		delete(g.Nodes, v)
		for _, ns := range g.Nodes {
			delete(ns, v)
		}
		return "ok"
	case t[0] == "len" && len(t) == 1:
		return strconv.Itoa(g.Len())
	case t[0] == "paths" && len(t) == 1:
		// a policy that accepts nothing: GetPaths only walks the node list
		ps := g.GetPaths(func([]int, int, algz.Relationship[int]) bool { return false })
		if len(ps) != 0 {
			return fmt.Sprintf("paths-returned-%d", len(ps))
		}
		return "ok"
	case t[0] == "cliques" && len(t) == 1:
		cs := g.GetMaximalCliques()
		for _, c := range cs {
			lg.keepInts(c)
		}
		return showCliques(canonCliques(cs))
	}
	return "bad-op"
}
