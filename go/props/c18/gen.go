package c18

import (
	"fmt"
	"math"
	"strings"
	"sync"

	"github.com/welllog/golib/algz"

	"verifharness/internal/core"
)

var brkToks = []string{"nil", "t", "f", "lt", "le", "lex", "gt", "ge", "xel"}

func genBrk(r *core.Rand) string {
	switch r.Pick(30, 40, 30) {
	case 0:
		return "nil"
	case 1:
		return fmt.Sprintf("h%d", r.Intn(1000))
	}
	return brkToks[1+r.Intn(len(brkToks)-1)]
}

func genDp(r *core.Rand) core.Case {
	n := r.Range(0, 9)
	if r.Chance(50) {
		n = r.Range(4, 9)
	}
	wLo, wHi, vLo, vHi := 0, 5, 1, 5
	tag := "dp"
	switch r.Pick(50, 12, 10, 6, 6, 6, 10) {
	case 1: // very many ties
		wHi, vHi = 2, 2
		wLo = 1
	case 2: // equal weight = value (subset-sum flavour)
		tag = "dp-w=v"
	case 3: // items heavier than the limit
		wHi = 16
	case 4: // malformed: negative weights / values (knap only)
		tag = "dp-malformed-neg"
		wLo, vLo = -2, -2
	case 5: // malformed: zero values
		tag = "dp-malformed-zero"
		vLo = 0
		vHi = 3
	case 6: // sparse totals: many limits are not attainable, overshoot matters
		tag = "dp-sparse"
		vLo, vHi = 3, 9
	}
	var sb strings.Builder
	sb.WriteString("@ C18 dp")
	for i := 0; i < n; i++ {
		w := r.Range(wLo, wHi)
		v := r.Range(vLo, vHi)
		if tag == "dp-w=v" {
			w = r.Range(1, 5)
			v = w
		}
		fmt.Fprintf(&sb, " %d %d", w, v)
	}
	lines := []string{sb.String()}
	ops := r.Range(1, 4)
	for i := 0; i < ops; i++ {
		if tag == "dp-malformed-neg" || r.Chance(45) {
			W := r.Range(0, 14)
			if tag == "dp-malformed-neg" && r.Chance(25) {
				W = r.Range(-3, -1)
			}
			lines = append(lines, fmt.Sprintf("knap %d %s", W, genBrk(r)))
		} else {
			max := r.Range(0, 14)
			if r.Chance(10) {
				max = r.Range(15, 46)
			}
			if tag == "dp-malformed-zero" && r.Chance(10) {
				max = r.Range(-2, -1)
			}
			lines = append(lines, fmt.Sprintf("solv %d %d %s %d", max, r.Intn(2), genBrk(r), r.Intn(100000)))
		}
	}
	return core.Case{Lines: lines, Tag: tag}
}

func genMap(r *core.Rand) core.Case {
	n := r.Range(0, 8)
	used := map[int]bool{}
	var sb strings.Builder
	sb.WriteString("@ C18 map")
	for i := 0; i < n; i++ {
		k := r.Range(-3, 20)
		if used[k] {
			continue
		}
		used[k] = true
		fmt.Fprintf(&sb, " %d", k)
	}
	lines := []string{sb.String()}
	for i, ops := 0, r.Range(1, 6); i < ops; i++ {
		op := "best"
		if r.Bool() {
			op = "besto"
		}
		lines = append(lines, fmt.Sprintf("%s %d %d", op, r.Range(-5, 22), r.Intn(100000)))
	}
	return core.Case{Lines: lines, Tag: "map"}
}

func shuffle(r *core.Rand, xs []int) {
	for i := len(xs) - 1; i > 0; i-- {
		j := r.Intn(i + 1)
		xs[i], xs[j] = xs[j], xs[i]
	}
}

func joinInts(xs []int) string {
	s := make([]string, len(xs))
	for i, x := range xs {
		s[i] = fmt.Sprint(x)
	}
	return strings.Join(s, " ")
}

func genGraph(r *core.Rand) core.Case {
	n := r.Range(0, 8)
	if r.Chance(60) {
		n = r.Range(4, 8)
	}
	pct := []int{0, 15, 35, 50, 70, 90, 100}[r.Intn(7)]
	malformed := r.Chance(6)
	mixed := !malformed && r.Chance(25)
	var late []string
	a := make(adj, n)
	for i := range a {
		a[i] = make([]bool, n)
	}
	var sb strings.Builder
	fmt.Fprintf(&sb, "@ C18 graph %d", n)
	for i := 0; i < n; i++ {
		for j := i + 1; j < n; j++ {
			if !r.Chance(pct) {
				continue
			}
			if malformed && r.Chance(30) {
				if r.Bool() {
					fmt.Fprintf(&sb, " %d>%d", i, j)
				} else {
					fmt.Fprintf(&sb, " %d>%d", j, i)
				}
				continue
			}
			a[i][j], a[j][i] = true, true
			x, y := i, j
			if r.Bool() {
				x, y = j, i
			}
			if !mixed || r.Chance(50) {
				fmt.Fprintf(&sb, " %d-%d", x, y)
				continue
			}
			// the same undirected edge through a mixture of AddEdge / AddUndirectedEdge calls
			switch r.Intn(6) {
			case 0:
				fmt.Fprintf(&sb, " %d>%d %d>%d", x, y, y, x)
			case 1:
				fmt.Fprintf(&sb, " %d>%d %d-%d", x, y, x, y)
			case 2:
				fmt.Fprintf(&sb, " %d>%d %d-%d", x, y, y, x)
			case 3:
				fmt.Fprintf(&sb, " %d-%d %d>%d", x, y, x, y)
			case 4:
				fmt.Fprintf(&sb, " %d>%d %d>%d %d-%d", x, y, y, x, x, y)
			default:
				late = append(late, fmt.Sprintf("%d>%d", y, x)) // the reverse arc comes much later
				fmt.Fprintf(&sb, " %d>%d", x, y)
			}
		}
	}
	for i := len(late) - 1; i >= 0; i-- {
		sb.WriteString(" " + late[i])
	}
	// duplicate edges (either orientation): the adjacency maps make them idempotent
	if r.Chance(20) {
		for k := r.Range(1, 3); k > 0; k-- {
			i, j := r.Intn(max(n, 1)), r.Intn(max(n, 1))
			if i < n && j < n && i != j && a[i][j] {
				fmt.Fprintf(&sb, " %d-%d", i, j)
			}
		}
	}
	lines := []string{sb.String()}
	tag := "graph"
	if malformed {
		tag = "graph-malformed-arcs"
	}
	for i, ops := 0, r.Range(1, 4); i < ops; i++ {
		op := r.Pick(30, 40, 30)
		if malformed && op == 0 {
			op = 1 // with one-way arcs the result depends on the (random) map order: explicit order only
		}
		switch op {
		case 0:
			lines = append(lines, "cliques")
		case 1:
			ps := make([]int, n)
			for k := range ps {
				ps[k] = k
			}
			shuffle(r, ps)
			if r.Chance(10) && n > 0 {
				ps = ps[:r.Intn(n)]
			}
			lines = append(lines, strings.TrimSpace("bk "+joinInts(ps)))
		case 2:
			// a state of the recursion: R a clique, P ∪ X its common neighbours
			var R []int
			order := make([]int, n)
			for k := range order {
				order[k] = k
			}
			shuffle(r, order)
			want := r.Intn(3)
			for _, v := range order {
				if len(R) >= want {
					break
				}
				ok := true
				for _, u := range R {
					if !a[v][u] {
						ok = false
					}
				}
				if ok {
					R = append(R, v)
				}
			}
			var P, X []int
			for _, v := range order {
				inR, all := false, true
				for _, u := range R {
					if u == v {
						inR = true
					}
					if !a[v][u] {
						all = false
					}
				}
				if inR || !all {
					if !(r.Chance(3) && !inR) { // rarely break the precondition
						continue
					}
				}
				if r.Chance(65) {
					P = append(P, v)
				} else {
					X = append(X, v)
				}
			}
			lines = append(lines, fmt.Sprintf("bkx %s | %s | %s", joinInts(R), joinInts(P), joinInts(X)))
		}
	}
	return core.Case{Lines: lines, Tag: tag}
}

/* ---------- large stream: sizes beyond every brute-force oracle ----------

Item lists of 17..200 (Knapsack) / 17..60 (FindDpSolvers) items and graphs on 33..120
vertices; the independent oracle for these sizes is not brute force but an own dynamic
programme / subset-sum table / Bron–Kerbosch with pivoting (check.go, "large" section).
Thresholds crossed: 16/17 items in one table cell, 32/33 and 64/65 candidates, > 62 vertices
(no machine-word bit masks anywhere on the path). */

func genLargeKnap(r *core.Rand) core.Case {
	n := r.Range(17, 40)
	if r.Chance(12) {
		n = r.Range(41, 200)
	}
	if r.Chance(20) {
		n = []int{17, 18, 19, 31, 32, 33, 34, 63, 64, 65, 66}[r.Intn(11)]
	}
	mode := r.Pick(40, 25, 20, 15)
	var sb strings.Builder
	sb.WriteString("@ C18 dp")
	sumW := 0
	for i := 0; i < n; i++ {
		w, v := 1, 1
		switch mode {
		case 0: // unit weights: cell i holds up to i items
			v = r.Range(1, 3)
			if r.Chance(50) {
				v = 1
			}
		case 1: // small weights incl. zero
			w, v = r.Range(0, 3), r.Range(1, 5)
		case 2: // weights 1..2, all values equal: very many ties
			w, v = r.Range(1, 2), 2
		default: // a few heavy items among unit ones
			if r.Chance(15) {
				w, v = r.Range(5, 30), r.Range(5, 40)
			}
		}
		sumW += w
		fmt.Fprintf(&sb, " %d %d", w, v)
	}
	lines := []string{sb.String()}
	for i, ops := 0, r.Range(1, 2); i < ops; i++ {
		var W int
		switch r.Pick(35, 25, 20, 20) {
		case 0:
			W = n + r.Range(-2, 4)
		case 1:
			W = sumW + r.Range(-3, 1)
		case 2:
			W = r.Range(16, 40)
		default:
			W = r.Range(0, sumW+2)
		}
		if W < 0 {
			W = 0
		}
		if W > 260 {
			W = 260
		}
		lines = append(lines, fmt.Sprintf("knap %d %s", W, genBrk(r)))
	}
	return core.Case{Lines: lines, Tag: "large"}
}

func genLargeSolv(r *core.Rand) core.Case {
	n := r.Range(17, 36)
	if r.Chance(20) {
		n = r.Range(37, 60)
	}
	vHi := r.Range(1, 4)
	var sb strings.Builder
	sb.WriteString("@ C18 dp")
	sum := 0
	for i := 0; i < n; i++ {
		v := r.Range(1, vHi)
		if r.Chance(5) {
			v = r.Range(7, 19)
		}
		sum += v
		fmt.Fprintf(&sb, " %d %d", r.Range(0, 3), v)
	}
	lines := []string{sb.String()}
	for i, ops := 0, r.Range(1, 2); i < ops; i++ {
		var max int
		switch r.Pick(40, 30, 30) {
		case 0:
			max = r.Range(16, 40)
		case 1:
			max = sum + r.Range(-3, 2)
		default:
			max = r.Range(0, sum)
		}
		if max < 0 {
			max = 0
		}
		if max > 120 {
			max = 120 - r.Intn(5)
		}
		lines = append(lines, fmt.Sprintf("solv %d %d %s %d", max, r.Intn(2), genBrk(r), r.Intn(100000)))
	}
	return core.Case{Lines: lines, Tag: "large"}
}

func genLargeGraph(r *core.Rand) core.Case {
	n := r.Range(33, 70)
	if r.Chance(25) {
		n = r.Range(71, 120)
	}
	if r.Chance(20) {
		n = []int{33, 34, 63, 64, 65, 66}[r.Intn(6)]
	}
	type pair struct{ a, b int }
	seen := map[pair]bool{}
	var sb strings.Builder
	fmt.Fprintf(&sb, "@ C18 graph %d", n)
	edge := func(a, b int) {
		if a == b {
			return
		}
		if a > b {
			a, b = b, a
		}
		if seen[pair{a, b}] {
			return
		}
		seen[pair{a, b}] = true
		if r.Bool() {
			a, b = b, a
		}
		fmt.Fprintf(&sb, " %d-%d", a, b)
	}
	// vertex labels are shuffled so that structure and numbering are unrelated
	lab := make([]int, n)
	for i := range lab {
		lab[i] = i
	}
	shuffle(r, lab)
	switch r.Pick(15, 15, 30, 25, 15) {
	case 0: // path
		for i := 0; i+1 < n; i++ {
			edge(lab[i], lab[i+1])
		}
	case 1: // cycle (+ a few chords)
		for i := 0; i < n; i++ {
			edge(lab[i], lab[(i+1)%n])
		}
		for k := r.Intn(4); k > 0; k-- {
			edge(r.Intn(n), r.Intn(n))
		}
	case 2: // sparse random, average degree 1..4
		m := n * r.Range(1, 4) / 2
		for k := 0; k < m; k++ {
			edge(r.Intn(n), r.Intn(n))
		}
	case 3: // union of small cliques (+ a few bridges), some isolated vertices left over
		i := 0
		for i < n {
			sz := r.Range(1, 7)
			if i+sz > n {
				sz = n - i
			}
			for a := i; a < i+sz; a++ {
				for b := a + 1; b < i+sz; b++ {
					edge(lab[a], lab[b])
				}
			}
			i += sz
		}
		for k := r.Intn(6); k > 0; k-- {
			edge(r.Intn(n), r.Intn(n))
		}
	default: // a hub adjacent to many vertices + a sparse rest
		hub := r.Intn(n)
		for v := 0; v < n; v++ {
			if r.Chance(80) {
				edge(hub, v)
			}
		}
		for k := r.Intn(n / 2); k > 0; k-- {
			edge(r.Intn(n), r.Intn(n))
		}
	}
	lines := []string{sb.String()}
	for i, ops := 0, r.Range(1, 2); i < ops; i++ {
		if r.Chance(25) {
			// a state of the recursion on the large graph: R a clique of 0..3 vertices grown
			// greedily, P ∪ X its common neighbours (split at random, in random order)
			adjv := func(a, b int) bool {
				if a > b {
					a, b = b, a
				}
				return seen[pair{a, b}]
			}
			order := make([]int, n)
			for k := range order {
				order[k] = k
			}
			shuffle(r, order)
			var R []int
			want := r.Intn(4)
			for _, v := range order {
				if len(R) >= want {
					break
				}
				ok := true
				for _, u := range R {
					if !adjv(v, u) {
						ok = false
					}
				}
				if ok && (len(R) > 0 || r.Chance(60)) {
					R = append(R, v)
				}
			}
			var P, X []int
			for _, v := range order {
				inR, all := false, true
				for _, u := range R {
					if u == v {
						inR = true
					}
					if !adjv(v, u) {
						all = false
					}
				}
				if inR || !all {
					continue
				}
				if r.Chance(75) {
					P = append(P, v)
				} else {
					X = append(X, v)
				}
			}
			lines = append(lines, fmt.Sprintf("bkx %s | %s | %s", joinInts(R), joinInts(P), joinInts(X)))
		} else if r.Chance(40) {
			lines = append(lines, "cliques")
		} else {
			ps := make([]int, n)
			for k := range ps {
				ps[k] = k
			}
			shuffle(r, ps)
			lines = append(lines, "bk "+joinInts(ps))
		}
	}
	return core.Case{Lines: lines, Tag: "large"}
}

func genLarge(r *core.Rand) core.Case {
	switch r.Pick(40, 25, 35) {
	case 0:
		return genLargeKnap(r)
	case 1:
		return genLargeSolv(r)
	}
	return genLargeGraph(r)
}

/* ---------- magnitude: huge limits, few heavy items (value-only lines) ---------- */

// genHugeLimit: ≤ 10 items with weights around 2^19 / 2^20 (and a few small ones); the limit
// is the total weight of a chosen subset (hit exactly by construction), or one more / less.
// Limits stay below 2^21 + 2^17: the code under test allocates a table of limit+1 cells.
func genHugeLimit(r *core.Rand) core.Case {
	n := r.Range(2, 8)
	heavy := []int{1 << 19, 1<<19 + 1, 1<<20 - 1, 1 << 20, 1<<20 + 1, 3 << 18, 1 << 18, 1<<20 - 7}
	ws := make([]int, n)
	var sb strings.Builder
	sb.WriteString("@ C18 dp")
	for i := range ws {
		switch r.Pick(50, 30, 20) {
		case 0:
			ws[i] = heavy[r.Intn(len(heavy))]
		case 1:
			ws[i] = r.Range(1, 1<<20)
		default:
			ws[i] = r.Range(0, 9)
		}
		fmt.Fprintf(&sb, " %d %d", ws[i], r.Range(1, 9))
	}
	lines := []string{sb.String()}
	for i, ops := 0, r.Range(1, 2); i < ops; i++ {
		tot := 0
		for k := 0; k < 64 && (tot <= 1<<20 || r.Chance(50)); k++ {
			if j := r.Intn(n); tot+ws[j] < 1<<21+1<<17 {
				tot += ws[j] // with repetition: the limit need not be a subset sum every time
			}
		}
		if r.Chance(70) {
			// an exact subset sum
			tot = 0
			for j := range ws {
				if r.Bool() && tot+ws[j] < 1<<21+1<<17 {
					tot += ws[j]
				}
			}
		}
		W := tot + []int{0, 0, 0, 1, -1}[r.Intn(5)]
		if W < 0 {
			W = 0
		}
		lines = append(lines, fmt.Sprintf("knapv %d %s", W, genBrk(r)))
	}
	return core.Case{Lines: lines, Tag: "magnitude"}
}

/* ---------- sentinel: arguments at the edge of int ----------

Go `int` is 64 bits.  The code under test never ADDS weights (it compares `i >= w` and forms
`i-w` only when `i >= w`), so it is exact for arbitrarily large weights; a change that sums
weights (a "remaining weight" bound, `i+w`, a total-weight shortcut) wraps past 2^63 as soon as
the item list carries weights like math.MaxInt ("cannot be packed") or 1<<62.  Values ARE summed
(`dp[i-w].score + value`, `currentValue + value`): they stay under the guard "sum of all values
< 2^63" (c18_int64_guard), right up to it. */

// sentinelWeights: weights no limit the table can be allocated for will ever reach; pairs and
// triples of them wrap an int sum to something small or negative (MaxInt+MaxInt = -2,
// 4·(1<<62) = 0, (1<<62)+(1<<62) = MinInt, (MaxInt/2+1)·2 = MinInt, 3·(MaxInt/3+1) = 2 …).
var sentinelWeights = []int{
	math.MaxInt, math.MaxInt, math.MaxInt - 1, math.MaxInt - 2, 1 << 62, 1 << 62, 1<<62 + 1, 1<<62 - 1,
	math.MaxInt/2 + 1, math.MaxInt / 2, math.MaxInt/3 + 1, 1 << 61, 3 << 61, 1<<63 - 1<<32, 1<<32 + 1, 1<<32 - 1, 1 << 32,
}

// pickSentinel: a sentinel weight; sometimes relative to the limit (MaxInt-W, MaxInt-W+1: `W + w`
// is exactly MaxInt / wraps by one) or to the number of items.
func pickSentinel(r *core.Rand, W, n int) int {
	switch r.Pick(70, 15, 8, 7) {
	case 1:
		w := math.MaxInt - W // W + w is exactly MaxInt …
		if d := r.Range(-1, 1); d > 0 && W >= 1 {
			w++ // … or wraps by one
		} else if d < 0 {
			w--
		}
		return w
	case 2:
		return math.MaxInt - n
	case 3:
		return math.MaxInt - r.Intn(4)
	}
	return sentinelWeights[r.Intn(len(sentinelWeights))]
}

// genSentinelKnap: 2..8 ordinary items (some heavier than the limit, zero weights, ties) with
// 1..6 sentinel-weight items inserted at random positions (front, middle, back; often the same
// sentinel several times, so that partial sums wrap and un-wrap while the items are processed);
// limits as in the ordinary stream.  Values are small, sometimes one value near the guard.
func genSentinelKnap(r *core.Rand, large bool) core.Case {
	nOrd := r.Range(2, 8)
	if large {
		nOrd = r.Range(17, 40)
	}
	nSen := r.Range(2, 5)
	switch r.Pick(15, 70, 15) {
	case 0:
		nSen = 1
	case 2:
		nSen = r.Range(4, 8) // four 1<<62 sum to 0, eight to 0 again
	}
	W := r.Range(0, 14)
	if large {
		W = nOrd + r.Range(-3, 6)
	}
	type wv struct{ w, v int }
	var its []wv
	wHi := []int{3, 5, 9, 16}[r.Intn(4)]
	unit := large && r.Chance(50)
	for i := 0; i < nOrd; i++ {
		w, v := r.Range(0, wHi), r.Range(1, 6)
		if unit {
			w, v = 1, r.Range(1, 2)
		}
		its = append(its, wv{w, v})
	}
	same := r.Chance(50)
	first := pickSentinel(r, W, nOrd+nSen)
	bigV := r.Chance(8)
	for k := 0; k < nSen; k++ {
		w := first
		if !same && k > 0 {
			w = pickSentinel(r, W, nOrd+nSen)
		}
		v := r.Range(1, 9) // a tempting value on an item that can never be packed
		if bigV && k == 0 {
			v = math.MaxInt - 6*(nOrd+8) - 9*nSen // the sum of all values stays < 2^63
		}
		pos := r.Intn(len(its) + 1)
		switch r.Pick(60, 20, 20) {
		case 1:
			pos = 0
		case 2:
			pos = len(its)
		}
		its = append(its[:pos], append([]wv{{w, v}}, its[pos:]...)...)
	}
	var sb strings.Builder
	sb.WriteString("@ C18 dp")
	for _, x := range its {
		fmt.Fprintf(&sb, " %d %d", x.w, x.v)
	}
	lines := []string{sb.String()}
	for i, ops := 0, r.Range(1, 3); i < ops; i++ {
		switch {
		case i > 0 && r.Chance(15) && !bigV:
			lines = append(lines, fmt.Sprintf("solv %d %d %s %d", r.Range(0, 20), r.Intn(2), genBrk(r), r.Intn(100000)))
		case !large && r.Chance(15):
			lines = append(lines, fmt.Sprintf("knapv %d %s", W, genBrk(r)))
		default:
			lines = append(lines, fmt.Sprintf("knap %d %s", W, genBrk(r)))
		}
		if r.Chance(50) {
			W = r.Range(0, 14)
			if large {
				W = nOrd + r.Range(-3, 6)
			}
		}
	}
	tag := "sentinel"
	if large {
		tag = "large"
	}
	return core.Case{Lines: lines, Tag: tag}
}

// genSentinelSolv: subset-sum solvers with values at the edge of int, under the guard "sum of all
// values ≤ MaxInt": one or two huge values (1<<62, MaxInt - rest, MaxInt/2 …) among small ones,
// and limits around every huge value, around the total, at MaxInt-1 and MaxInt.
func genSentinelSolv(r *core.Rand) core.Case {
	n := r.Range(1, 7)
	vs := make([]int, n)
	small := 0
	for i := range vs {
		vs[i] = r.Range(1, 6)
		small += vs[i]
	}
	var hugeVals []int
	switch r.Pick(30, 20, 20, 15, 15) {
	case 0: // one value so that the total is exactly MaxInt, or just below
		hugeVals = []int{math.MaxInt - small - r.Intn(3)}
	case 1: // 2^62 and 2^62 - small - 1: total 2^63 - 1
		hugeVals = []int{1 << 62, 1<<62 - small - 1 - r.Intn(2)}
	case 2: // two equal halves
		h := (math.MaxInt - small) / 2
		hugeVals = []int{h, h - r.Intn(2)}
	case 3: // three thirds
		h := (math.MaxInt - small) / 3
		hugeVals = []int{h, h, h - r.Intn(3)}
	default: // one moderate sentinel
		hugeVals = []int{[]int{1 << 62, 1<<62 + 1, 1 << 61, 1<<32 + 1, math.MaxInt / 2}[r.Intn(5)]}
	}
	for _, h := range hugeVals {
		pos := r.Intn(len(vs) + 1)
		vs = append(vs[:pos], append([]int{h}, vs[pos:]...)...)
	}
	total := small
	for _, h := range hugeVals {
		total += h // ≤ MaxInt by construction
	}
	var sb strings.Builder
	sb.WriteString("@ C18 dp")
	for _, v := range vs {
		w := r.Range(0, 5)
		if r.Chance(20) {
			w = sentinelWeights[r.Intn(len(sentinelWeights))]
		}
		fmt.Fprintf(&sb, " %d %d", w, v)
	}
	lines := []string{sb.String()}
	clampAdd := func(a, d int) int { // a + d without leaving [0, MaxInt]
		if d > 0 && a > math.MaxInt-d {
			return math.MaxInt
		}
		if a+d < 0 {
			return 0
		}
		return a + d
	}
	for i, ops := 0, r.Range(1, 3); i < ops; i++ {
		var max int
		switch r.Pick(30, 25, 15, 10, 20) {
		case 0:
			max = clampAdd(hugeVals[r.Intn(len(hugeVals))], r.Range(-2, small+1))
		case 1:
			max = clampAdd(total, r.Range(-3, 2))
		case 2:
			max = math.MaxInt - r.Intn(3)
		case 3:
			max = r.Range(0, small+1)
		default: // the total of a random sub-selection, ± 1
			t := 0
			for _, v := range vs {
				if r.Bool() {
					t += v
				}
			}
			max = clampAdd(t, r.Range(-1, 1))
		}
		if r.Chance(25) {
			lines = append(lines, fmt.Sprintf("knap %d %s", r.Range(0, 12), genBrk(r)))
		}
		lines = append(lines, fmt.Sprintf("solv %d %d %s %d", max, r.Intn(2), genBrk(r), r.Intn(100000)))
	}
	return core.Case{Lines: lines, Tag: "sentinel"}
}

// genSentinelMap: Best / BestAllowMinOverflow on keys and queries at the edge of int (keys ≥ 0 as
// in every map FindDpSolvers returns for the property's positive values; `maxValue - key` then fits).
func genSentinelMap(r *core.Rand) core.Case {
	pool := []int{0, 1, 2, 1 << 62, 1<<62 + 1, 1<<62 - 1, math.MaxInt, math.MaxInt - 1, math.MaxInt - 2, math.MaxInt / 2, 1<<32 + 1, 7}
	used := map[int]bool{}
	var sb strings.Builder
	sb.WriteString("@ C18 map")
	for i, n := 0, r.Range(1, 6); i < n; i++ {
		k := pool[r.Intn(len(pool))]
		if used[k] {
			continue
		}
		used[k] = true
		fmt.Fprintf(&sb, " %d", k)
	}
	lines := []string{sb.String()}
	for i, ops := 0, r.Range(1, 5); i < ops; i++ {
		q := pool[r.Intn(len(pool))]
		if q < math.MaxInt && r.Chance(30) {
			q++
		}
		if q == math.MaxInt && used[0] {
			q-- // Best(MaxInt) never selects key 0 (diff == initial minDiff): see c18_best_spec's guard
		}
		op := "best"
		if r.Bool() {
			op = "besto"
		}
		lines = append(lines, fmt.Sprintf("%s %d %d", op, q, r.Intn(100000)))
	}
	return core.Case{Lines: lines, Tag: "sentinel"}
}

func genSentinel(r *core.Rand) core.Case {
	switch r.Pick(60, 6, 26, 8) {
	case 1:
		return genSentinelKnap(r, true)
	case 2:
		return genSentinelSolv(r)
	case 3:
		return genSentinelMap(r)
	}
	return genSentinelKnap(r, false)
}

/* ---------- history: ONE Graph value through build / query / Init / rebuild rounds ---------- */

func genGraphHistory(r *core.Rand) core.Case {
	lines := []string{"@ C18 graphh"}
	rounds := r.Range(2, 3)
	prevN := 0
	for round := 0; round < rounds; round++ {
		// labels of each round from a disjoint range (or, sometimes, the same labels again)
		base := round * 100
		if round > 0 && r.Chance(20) {
			base = (round - 1) * 100
		}
		n := r.Range(1, 7)
		if round > 0 && r.Chance(60) {
			n = prevN // same number of nodes, different labels
		}
		prevN = n
		if round > 0 || r.Chance(40) {
			lines = append(lines, fmt.Sprintf("init %d", r.Range(0, 8)))
		}
		label := func(i int) int { return base + i*3 + 1 }
		isolatedFirst := r.Bool()
		if isolatedFirst {
			for i := 0; i < n; i++ {
				lines = append(lines, fmt.Sprintf("node %d", label(i)))
			}
		}
		pct := []int{20, 50, 80}[r.Intn(3)]
		for i := 0; i < n; i++ {
			for j := i + 1; j < n; j++ {
				if !r.Chance(pct) {
					continue
				}
				a, b := label(i), label(j)
				if r.Bool() {
					a, b = b, a
				}
				switch r.Intn(4) {
				case 0:
					lines = append(lines, fmt.Sprintf("arc %d %d", a, b), fmt.Sprintf("arc %d %d", b, a))
				case 1:
					lines = append(lines, fmt.Sprintf("arc %d %d", a, b), fmt.Sprintf("und %d %d", a, b))
				default:
					lines = append(lines, fmt.Sprintf("und %d %d", a, b))
				}
			}
			if r.Chance(15) {
				lines = append(lines, []string{"cliques", "paths", "len"}[r.Intn(3)]) // a query in the middle of building
			}
		}
		if !isolatedFirst {
			for i := 0; i < n; i++ {
				lines = append(lines, fmt.Sprintf("node %d", label(i)))
			}
		}
		for k := r.Range(1, 3); k > 0; k-- {
			lines = append(lines, []string{"cliques", "cliques", "paths", "len"}[r.Intn(4)])
		}
		lines = append(lines, "cliques")
		// query → a change of the SAME graph that does not go through the methods of this value (a by-value
		// copy of the struct, which shares the exported Nodes map; direct writes to that map) → query
		for k := r.Range(0, 2); k > 0; k-- {
			i, j := r.Intn(n), r.Intn(n)
			a, b := label(i), label(j)
			fresh := base + 90 + r.Intn(9)
			if i == j || r.Chance(25) {
				b = fresh
			}
			switch r.Intn(7) {
			case 0:
				lines = append(lines, fmt.Sprintf("cund %d %d", a, b))
			case 1:
				lines = append(lines, fmt.Sprintf("carc %d %d", a, b), fmt.Sprintf("carc %d %d", b, a))
			case 2:
				lines = append(lines, fmt.Sprintf("cnode %d", fresh))
			case 3:
				lines = append(lines, fmt.Sprintf("marc %d %d", a, b), fmt.Sprintf("marc %d %d", b, a), fmt.Sprintf("mnode %d", b))
			case 4:
				lines = append(lines, fmt.Sprintf("mnode %d", fresh))
			case 5:
				lines = append(lines, fmt.Sprintf("mdel %d", a))
			default:
				lines = append(lines, fmt.Sprintf("cund %d %d", a, b), fmt.Sprintf("mdel %d", label(r.Intn(n))))
			}
			lines = append(lines, []string{"cliques", "cliques", "paths", "len"}[r.Intn(4)], "cliques")
		}
	}
	return core.Case{Lines: lines, Tag: "history"}
}

func gen(r *core.Rand, tier string) core.Case {
	if r.Chance(4) {
		return genGraphHistory(r)
	}
	if r.Chance(5) {
		return genSentinel(r)
	}
	if (tier == "thorough" && r.Chance(10) && r.Chance(2)) || (tier != "thorough" && r.Chance(10) && r.Chance(1)) {
		return genHugeLimit(r)
	}
	// light share in quick (≈ 450 of 30000 cases), heavier in thorough / on anchor drift
	if (tier == "thorough" && r.Chance(2)) || (tier != "thorough" && r.Chance(15) && r.Chance(10)) {
		return genLarge(r)
	}
	switch r.Pick(62, 8, 30) {
	case 0:
		return genDp(r)
	case 1:
		return genMap(r)
	}
	return genGraph(r)
}

func largePathCase(n int, cycle bool) core.Case {
	var sb strings.Builder
	fmt.Fprintf(&sb, "@ C18 graph %d", n)
	for i := 0; i+1 < n; i++ {
		fmt.Fprintf(&sb, " %d-%d", i, i+1)
	}
	if cycle {
		fmt.Fprintf(&sb, " %d-0", n-1)
	}
	ps := make([]int, n)
	qs := make([]int, n)
	for k := range ps {
		ps[k] = k
		qs[k] = (k*7 + 3) % n // 7 is coprime to 33 and 40
	}
	return core.Case{Tag: "large", Lines: []string{sb.String(), "cliques", "bk " + joinInts(ps), "bk " + joinInts(qs)}}
}

func largeTrianglesCase(n int) core.Case {
	var sb strings.Builder
	fmt.Fprintf(&sb, "@ C18 graph %d", n)
	for i := 0; i+2 < n-4; i += 3 {
		fmt.Fprintf(&sb, " %d-%d %d-%d %d-%d", i, i+1, i+1, i+2, i, i+2)
	}
	ps := make([]int, n)
	for k := range ps {
		ps[k] = n - 1 - k
	}
	return core.Case{Tag: "large", Lines: []string{sb.String(), "cliques", "bk " + joinInts(ps)}}
}

func corpus() []core.Case {
	return []core.Case{
		// empty input, zero limit, items heavier than the limit, zero-weight items
		{Lines: []string{"@ C18 dp", "knap 0 nil", "knap 5 t", "solv 0 0 nil 1", "solv 3 1 t 2"}},
		{Lines: []string{"@ C18 dp 0 3 0 2 7 9", "knap 0 nil", "knap 6 h3", "knap 7 f"}},
		{Lines: []string{"@ C18 dp 2 3 3 4 4 5 5 6", "knap 5 nil", "knap 5 t", "knap 5 lt", "knap 9 lex", "knap 14 h7"}},
		// many equal sums: ties in every cell; pool recycling with an accepting breaker
		{Lines: []string{"@ C18 dp 1 1 1 1 1 1 1 1 2 2 2 2", "knap 4 t", "knap 4 f", "solv 4 0 t 5", "solv 4 1 t 6", "solv 4 1 f 7", "solv 4 1 h11 8", "solv 9 1 lt 9"}},
		// overshoot bookkeeping: candidates 12 and 11 above max 10 in one pass
		{Lines: []string{"@ C18 dp 0 5 0 6 0 7", "solv 10 1 nil 1", "solv 10 1 nil 2", "solv 10 0 nil 3", "solv 4 1 t 4", "solv 18 1 nil 5", "solv 17 1 nil 6"}},
		// malformed: negative limit, negative weight (panic), values ≤ 0
		{Lines: []string{"@ C18 dp 1 2 3 4", "knap -1 nil"}},
		{Lines: []string{"@ C18 dp 1 2 -1 4", "knap 3 nil"}},
		{Lines: []string{"@ C18 dp 1 0 2 -3 1 2", "knap 3 t"}},
		{Lines: []string{"@ C18 map 8 12", "best 10 1", "besto 10 1", "besto 10 2", "best 7 3", "besto 13 4", "besto 12 5", "best 8 6"}},
		{Lines: []string{"@ C18 map", "best 0 1", "besto 0 1"}},
		{Lines: []string{"@ C18 map -3 0 4 9 20", "best -4 1", "besto -4 1", "best 5 2", "besto 5 2", "besto 21 3", "best 21 3"}},
		// graphs: empty, single vertex, triangle + pendant, two components, complete, C5
		{Lines: []string{"@ C18 graph 0", "cliques", "bk", "bkx | |"}},
		{Lines: []string{"@ C18 graph 1", "cliques", "bk 0"}},
		{Lines: []string{"@ C18 graph 4 0-1 1-2 0-2 2-3", "cliques", "bk 0 1 2 3", "bk 3 2 1 0", "bk 2 0 3 1", "bkx 2 | 0 1 3 |", "bkx 2 | 1 3 | 0"}},
		{Lines: []string{"@ C18 graph 6 0-1 1-2 2-0 3-4", "cliques", "bk 5 4 3 2 1 0"}},
		{Lines: []string{"@ C18 graph 5 0-1 0-2 0-3 0-4 1-2 1-3 1-4 2-3 2-4 3-4", "cliques", "bk 4 2 0 1 3"}},
		{Lines: []string{"@ C18 graph 5 0-1 1-2 2-3 3-4 4-0", "cliques", "bk 0 2 4 1 3", "bkx 0 | 1 | 4", "bkx 0 | 4 1 |"}},
		{Lines: []string{"@ C18 graph 4 0>1 1-2 3>2", "bk 0 1 2 3", "bk 3 1 0 2"}},
		// the same undirected graph through mixed AddEdge / AddUndirectedEdge orders on one pair
		{Lines: []string{"@ C18 graph 3 0>1 0-1 1-2", "cliques", "bk 0 1 2", "bk 2 1 0"}},
		{Lines: []string{"@ C18 graph 3 1>0 0-1 1-2", "cliques", "bk 1 0 2"}},
		{Lines: []string{"@ C18 graph 3 0-1 0>1 1>0 2>1 1>2", "cliques", "bk 2 0 1"}},
		{Lines: []string{"@ C18 graph 4 0>1 2>3 1-2 3>2 1>0 0-3 3>0", "cliques", "bk 3 2 1 0"}},
		{Lines: []string{"@ C18 graph 2 0>1 0-1", "cliques"}},
		{Lines: []string{"@ C18 graph 2 0>1 1-0", "cliques"}},
		// ties where the LONGER candidate must replace (prefer-more / lexicographically larger)
		{Lines: []string{"@ C18 dp 2 2 1 1 1 1 3 3 1 1 2 2", "knap 5 gt", "knap 6 ge", "knap 7 xel", "knap 4 gt", "knap 9 t", "solv 6 1 gt 3", "solv 5 0 xel 4"}},
		{Lines: []string{"@ C18 dp 4 4 1 1 1 1 1 1 1 1 2 2 2 2", "knap 4 gt", "knap 8 gt", "knap 6 ge", "knap 12 gt"}},
		// duplicate edges in both orientations; only isolated vertices; one edge + isolated vertices
		{Lines: []string{"@ C18 graph 4 0-1 1-0 0-1 2-3 3-2", "cliques", "bk 3 2 1 0"}},
		{Lines: []string{"@ C18 graph 3", "cliques", "bk 2 0 1", "bkx | 0 1 2 |", "bkx 1 | |"}},
		{Lines: []string{"@ C18 graph 5 1-3", "cliques", "bk 4 3 2 1 0", "bk 1 3 0 2 4"}},
		{Lines: []string{"@ C18 graph 5 1-3 3-1", "cliques"}},
		{Lines: []string{"@ C18 graph 5 3-1 1-3 1-3", "cliques"}},
		{Lines: []string{"@ C18 graph 2 0-1", "cliques", "bk 0 1", "bk 1 0", "bk 1", "bk"}},
		// Best / BestAllowMinOverflow on the empty and on the nil map (odd seed)
		{Lines: []string{"@ C18 map", "best 0 2", "besto 0 3", "best -1 5", "besto 7 4", "best 7 7"}},
		// limit 0 with zero-weight items; empty item list with every limit form; maxValue 0
		{Lines: []string{"@ C18 dp 0 1 0 2 1 5 0 1", "knap 0 nil", "knap 0 t", "knap 0 f", "knap 1 lex", "knap 1 nil", "solv 0 0 nil 1", "solv 0 1 nil 2", "solv 0 1 t 3"}},
		{Lines: []string{"@ C18 dp 2 2 0 3 2 2 0 1", "knap 2 nil", "knap 3 h5", "knap 4 le", "knap 1 f"}},
		{Lines: []string{"@ C18 dp", "knap 0 f", "knap 14 nil", "solv 0 1 nil 3", "solv 0 0 f 4", "solv 9 1 lex 5"}},
		// magnitude: values at the int64 guard (2^62 + (2^62 - 2) + 1 = 2^63 - 1: every total is still a Go
		// int); limits and maxValue around 2^62 and at math.MaxInt - 1
		{Tag: "magnitude", Lines: []string{"@ C18 dp 1 4611686018427387904 1 4611686018427387902 2 1",
			"knap 0 nil", "knap 1 nil", "knap 2 t", "knap 3 gt", "knap 4 h3",
			"solv 4611686018427387903 0 nil 1", "solv 4611686018427387903 1 nil 2", "solv 4611686018427387904 1 t 3",
			"solv 9223372036854775806 1 nil 4", "solv 9223372036854775805 0 h7 5", "solv 0 1 nil 6"}},
		{Tag: "magnitude", Lines: []string{"@ C18 dp 0 9223372036854775806 3 1", "knap 0 nil", "knap 3 nil", "knap 2 f",
			"solv 9223372036854775806 1 nil 1", "solv 9223372036854775805 1 nil 2", "solv 1 1 nil 3"}},
		{Tag: "magnitude", Lines: []string{"@ C18 dp 2 3074457345618258602 2 3074457345618258602 2 3074457345618258602 1 1",
			"knap 4 nil", "knap 6 lex", "knap 7 ge", "solv 6148914691236517204 1 nil 1", "solv 6148914691236517205 1 t 2", "solv 9223372036854775806 0 nil 3"}},
		// magnitude: limits just above 2^20 hit exactly by a subset (value-only lines)
		{Tag: "magnitude", Lines: []string{"@ C18 dp 1048576 7 524288 6 1 5 524288 4", "knapv 1048577 nil", "knapv 1048576 nil", "knapv 1572864 t", "knapv 1572865 gt", "knapv 1048575 nil", "knapv 2097153 nil"}},
		{Tag: "magnitude", Lines: []string{"@ C18 dp 1048577 3 1048576 2 1 2", "knapv 1048577 nil", "knapv 1048578 lex", "knapv 2097154 nil", "knapv 2097153 f"}},
		// sentinel weights (items that can never be packed: MaxInt, 1<<62 …) among ordinary items, in
		// front / in the middle / at the end: any SUM of weights wraps (MaxInt+MaxInt = -2, 4·2^62 = 0),
		// the code under test only compares and subtracts
		{Tag: "sentinel", Lines: []string{"@ C18 dp 4 5 9223372036854775807 1 9223372036854775807 1 6 6", "knap 10 nil", "knap 10 t", "knap 9 nil", "knap 0 nil", "knapv 10 nil"}},
		{Tag: "sentinel", Lines: []string{"@ C18 dp 4611686018427387904 3 4 5 4611686018427387904 3 3 4 4611686018427387904 3 3 4 4611686018427387904 3", "knap 10 nil", "knap 7 ge", "knap 6 lex", "knapv 9 nil"}},
		{Tag: "sentinel", Lines: []string{"@ C18 dp 9223372036854775806 9 1 1 4611686018427387905 2 2 2 9223372036854775797 7 0 1 2 3", "knap 10 nil", "knap 3 h5", "knap 5 gt", "solv 6 1 nil 3"}},
		{Tag: "sentinel", Lines: []string{"@ C18 dp 2 2 3 3 4611686018427387904 1 4611686018427387904 1", "knap 5 nil", "knap 4 nil"}},
		{Tag: "sentinel", Lines: []string{"@ C18 dp 4611686018427387904 1 4611686018427387904 1 2 2 3 3", "knap 5 nil", "knap 5 le"}},
		// subset sums at the guard: the total of all values is exactly MaxInt; limits at MaxInt, MaxInt-1,
		// around the huge value
		{Tag: "sentinel", Lines: []string{"@ C18 dp 0 9223372036854775800 1 3 2 4", "solv 9223372036854775807 0 nil 1", "solv 9223372036854775807 1 t 2", "solv 9223372036854775806 1 nil 3",
			"solv 9223372036854775800 1 nil 4", "solv 9223372036854775799 1 nil 5", "solv 9223372036854775803 0 h3 6", "solv 5 1 nil 7", "knap 3 nil"}},
		{Tag: "sentinel", Lines: []string{"@ C18 dp", "solv 9223372036854775807 0 nil 1", "solv 9223372036854775807 1 nil 2", "solv 9223372036854775806 1 nil 3"}},
		{Tag: "sentinel", Lines: []string{"@ C18 map 0 4611686018427387904 9223372036854775807", "best 9223372036854775806 1", "besto 9223372036854775806 2", "best 4611686018427387903 3",
			"besto 4611686018427387905 4", "best 9223372036854775807 5", "besto 1 6"}},
		// history on one Graph value: query, Init, rebuild with the same number of nodes and other labels
		{Tag: "history", Lines: []string{"@ C18 graphh", "und 1 2", "und 2 3", "cliques", "paths", "init 4", "len", "cliques", "und 101 102", "node 103", "cliques", "len", "init 0", "node 7", "node 8", "node 9", "cliques", "und 7 9", "cliques"}},
		{Tag: "history", Lines: []string{"@ C18 graphh", "und 1 2", "node 3", "cliques", "cund 2 3", "cliques", "cund 1 3", "cliques", "mdel 2", "cliques", "marc 3 4", "marc 4 3", "mnode 4", "cliques", "cnode 5", "len", "cliques", "carc 5 1", "carc 1 5", "cliques", "init 0", "mnode 7", "cliques"}},
		{Tag: "history", Lines: []string{"@ C18 graphh", "node 1", "node 2", "paths", "init 2", "node 11", "node 12", "und 11 12", "cliques", "paths", "init 2", "arc 21 22", "und 21 22", "cliques"}},
		// large: 18 / 33 unit-weight items with limits around the item count (a cell that is not
		// the last one holds ≥ 17 items), 20 two-valued items for the solvers, a path and a cycle
		// on 33 / 40 vertices, 12 triangles + 4 isolated vertices on 40 vertices
		{Tag: "large", Lines: []string{"@ C18 dp" + strings.Repeat(" 1 1", 18), "knap 18 nil", "knap 21 nil", "knap 17 t", "knap 19 h3"}},
		{Tag: "large", Lines: []string{"@ C18 dp" + strings.Repeat(" 1 2 1 1 0 1", 11), "knap 33 nil", "knap 36 lt", "knap 20 f"}},
		{Tag: "large", Lines: []string{"@ C18 dp" + strings.Repeat(" 0 1 0 2", 10), "solv 17 0 nil 1", "solv 17 1 t 2", "solv 29 1 nil 3", "solv 30 1 h5 4", "solv 31 1 lt 5"}},
		largePathCase(33, false), largePathCase(40, true), largeTrianglesCase(40),
		// minimised witnesses of mutants killed during development (aliasing of a table cell
		// with tmp; a recycled slice still referenced by a cell; X passed on unintersected)
		{Lines: []string{"@ C18 dp 3 5 2 4 4 4 3 3", "knap 9 le"}},
		{Lines: []string{"@ C18 dp 1 3 4 4 2 3 2 4", "solv 14 0 h562 60793"}},
		{Lines: []string{"@ C18 dp 4 2 2 3 5 2", "solv 11 1 lt 28120"}},
		{Lines: []string{"@ C18 graph 5 2-4 3-4", "bk 4 2 0 1 3"}},
	}
}

/* ---------- extras: exhaustive enumerations on the implementation ---------- */

// exhaustiveGraphs: every simple undirected graph on ≤ 5 (quick) / ≤ 6 (thorough)
// vertices: GetMaximalCliques (random map order) and BronKerbosch with a rotated order
// against brute force.
func exhaustiveGraphs(ctx *core.Ctx) (int, string, []core.ExtraFailure) {
	maxN := 5
	if ctx.Tier == "thorough" {
		maxN = 6
	}
	evals := 0
	var fails []core.ExtraFailure
	for n := 0; n <= maxN && len(fails) == 0; n++ {
		var pairs [][2]int
		for i := 0; i < n; i++ {
			for j := i + 1; j < n; j++ {
				pairs = append(pairs, [2]int{i, j})
			}
		}
		for em := 0; em < 1<<len(pairs) && len(fails) == 0; em++ {
			var sb strings.Builder
			fmt.Fprintf(&sb, "@ C18 graph %d", n)
			for k, p := range pairs {
				if em>>k&1 == 1 {
					fmt.Fprintf(&sb, " %d-%d", p[0], p[1])
				}
			}
			ps := make([]int, n)
			for k := range ps {
				ps[k] = (k + em) % max(n, 1)
			}
			c := core.Case{Lines: []string{sb.String(), "cliques", strings.TrimSpace("bk " + joinInts(ps))}}
			out := impl(c)
			evals++
			if f := check(c, out); f != nil {
				fails = append(fails, core.ExtraFailure{Failure: *f, Payload: c})
			}
		}
	}
	return evals, fmt.Sprintf("all simple undirected graphs on ≤ %d vertices: GetMaximalCliques and BronKerbosch (rotated vertex order) = brute-force maximal cliques, each once", maxN), fails
}

// exhaustiveItems: every item list over a small alphabet with every limit, all
// tie-breaker kinds: Knapsack and FindDpSolvers against brute force.
func exhaustiveItems(ctx *core.Ctx) (int, string, []core.ExtraFailure) {
	maxN, alpha := 4, [][2]int{{0, 1}, {1, 1}, {1, 2}, {2, 2}, {2, 3}, {3, 1}}
	if ctx.Tier == "thorough" {
		maxN = 5
	}
	brks := []string{"nil", "t", "f", "h1", "lt", "gt"}
	// one goroutine per first item (the enumeration is otherwise serial and dominates the wall
	// time of a quick run on a busy machine)
	var mu sync.Mutex
	evals := 0
	var fails []core.ExtraFailure
	failed := func() bool { mu.Lock(); defer mu.Unlock(); return len(fails) > 0 }
	// visit evaluates one item list; walk visits it and everything below it
	visit := func(cur []int) bool {
		if failed() {
			return false
		}
		var sb strings.Builder
		sb.WriteString("@ C18 dp")
		tot := 0
		for _, a := range cur {
			fmt.Fprintf(&sb, " %d %d", alpha[a][0], alpha[a][1])
			tot += alpha[a][1]
		}
		lines := []string{sb.String()}
		for _, b := range brks {
			for W := 0; W <= 4; W += 2 {
				lines = append(lines, fmt.Sprintf("knap %d %s", W+len(cur)%2, b))
			}
			for m := 0; m <= tot+1 && m <= 7; m += 2 {
				lines = append(lines, fmt.Sprintf("solv %d %d %s 0", m+len(cur)%2, (m/2+len(cur))%2, b))
			}
		}
		c := core.Case{Lines: lines}
		out := impl(c)
		f := check(c, out)
		mu.Lock()
		evals += len(lines) - 1
		if f != nil && len(fails) == 0 {
			fails = append(fails, core.ExtraFailure{Failure: *f, Payload: c})
		}
		mu.Unlock()
		return f == nil
	}
	var walk func(cur []int)
	walk = func(cur []int) {
		if !visit(cur) {
			return
		}
		if len(cur) < maxN {
			for a := range alpha {
				walk(append(append([]int{}, cur...), a))
			}
		}
	}
	var wg sync.WaitGroup
	if visit(nil) {
		for a := range alpha {
			if !visit([]int{a}) {
				continue
			}
			for b := range alpha {
				wg.Add(1)
				go func(a, b int) { defer wg.Done(); walk([]int{a, b}) }(a, b)
			}
		}
	}
	wg.Wait()
	return evals, fmt.Sprintf("every item list of length ≤ %d over %d (weight,value) pairs, limits 0..8, 5 tie-breakers: Knapsack and FindDpSolvers/Best/BestAllowMinOverflow = brute force over all subsets", maxN, len(alpha)), fails
}

// exhaustiveSentinel: every item list of length ≤ 5 (quick) / ≤ 6 (thorough) over three ordinary
// (weight,value) pairs and three unpackable ones (weight MaxInt, 1<<62, MaxInt/2+1) — every
// interleaving of ordinary and sentinel items — with the limits 0..5: Knapsack (no breaker /
// accepting breaker) against brute force that never adds weights.
func exhaustiveSentinel(ctx *core.Ctx) (int, string, []core.ExtraFailure) {
	maxN := 5
	if ctx.Tier == "thorough" {
		maxN = 6
	}
	alpha := [][2]int{{1, 1}, {2, 3}, {3, 2}, {math.MaxInt, 1}, {1 << 62, 2}, {math.MaxInt/2 + 1, 3}}
	evals := 0
	var fails []core.ExtraFailure
	var walk func(cur []int)
	walk = func(cur []int) {
		if len(fails) > 0 {
			return
		}
		nSen := 0
		for _, a := range cur {
			if a >= 3 {
				nSen++
			}
		}
		if nSen > 0 && nSen < len(cur) { // at least one sentinel and one ordinary item
			var sb strings.Builder
			sb.WriteString("@ C18 dp")
			for _, a := range cur {
				fmt.Fprintf(&sb, " %d %d", alpha[a][0], alpha[a][1])
			}
			lines := []string{sb.String()}
			for W := len(cur) % 2; W <= 5; W += 2 {
				lines = append(lines, fmt.Sprintf("knap %d nil", W), fmt.Sprintf("knap %d t", W+1))
			}
			c := core.Case{Lines: lines, Tag: "sentinel"}
			out := impl(c)
			evals += len(lines) - 1
			if f := check(c, out); f != nil {
				fails = append(fails, core.ExtraFailure{Failure: *f, Payload: c})
				return
			}
		}
		if len(cur) < maxN {
			for a := range alpha {
				walk(append(append([]int{}, cur...), a))
			}
		}
	}
	walk(nil)
	return evals, fmt.Sprintf("every item list of length ≤ %d over 3 ordinary and 3 unpackable (weight MaxInt, 1<<62, MaxInt/2+1) items with ≥ 1 of each kind, limits 0..6: Knapsack = brute force over all subsets (weights never added)", maxN), fails
}

var _ = algz.DpSolvers[int]{}
