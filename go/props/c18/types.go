package c18

// Class 8 (type parameters).  The generic APIs of the property are
//
//	Knapsack[T any], FindDpSolvers[T any], DpSolvers[T].Best / BestAllowMinOverflow   (items of any type:
//	    the code never compares items, it only calls weightFunc / valueFunc and copies them)
//	Graph[T comparable] (AddNode, AddEdge, AddUndirectedEdge, GetMaximalCliques, BronKerbosch)   (node ids are map keys)
//
// The correspondence stream instantiates them with a struct item type and int node ids.  This
// Extra instantiates them with a matrix of types and judges every result with the same
// independent oracles (own DP table / reachable-total table / own pivoting Bron–Kerbosch), after
// mapping the returned values back to item / vertex indices:
//
//	items:  int, string, float64, float64 = NaN (all items indistinguishable), a struct with a float
//	        and a string field, `any` holding int / string / []byte (an uncomparable dynamic type),
//	        struct{} and [0]int (zero-size: all items indistinguishable), pointers, func values.
//	        "Each item at most once" is judged by index where the values identify the item, and by
//	        count (no more items than were passed in) where they are indistinguishable.
//	nodes:  int, string, float64 (finite), struct{int; float64}, [2]int, *int, `any` holding
//	        int / string / [2]int / float64, bool (≤ 2 vertices).
//	        A NaN node id is outside the property: `g.Nodes[NaN]` can never be found again (Go map
//	        semantics: NaN != NaN), so such calls do not describe a graph on identifiable vertices;
//	        an uncomparable dynamic type behind `any` panics at the map insertion (Go semantics).

import (
	"fmt"
	"math"
	"sort"

	"github.com/welllog/golib/algz"

	"verifharness/internal/core"
)

type fs struct {
	f float64
	s string
}

type nodeKey struct {
	a int
	f float64
}

// runItems runs Knapsack and FindDpSolvers on items of type T and judges the results.
// idx maps a value back to its index (only called when distinct is true).
func runItems[T any](typ string, ws, vs []int, W, maxV int, mk func(i int) T, idx func(T) int, distinct bool, brk func(o, n []T) bool) string {
	n := len(ws)
	items := make([]T, n)
	for i := range items {
		items[i] = mk(i)
	}
	w := func(x T) int {
		if distinct {
			return ws[idx(x)]
		}
		return ws[0]
	}
	v := func(x T) int {
		if distinct {
			return vs[idx(x)]
		}
		return vs[0]
	}
	its := make([]item, n)
	for i := range its {
		its[i] = item{i, ws[i], vs[i]}
	}
	judge := func(what string, sel []T, limit int, useW bool) (int, string) {
		if len(sel) > n {
			return 0, fmt.Sprintf("%s[%s]: %d items returned, %d passed in", what, typ, len(sel), n)
		}
		seen := map[int]bool{}
		tw, tv := 0, 0
		for _, x := range sel {
			if distinct {
				i := idx(x)
				if i < 0 || i >= n {
					return 0, fmt.Sprintf("%s[%s]: a returned value is none of the items", what, typ)
				}
				if seen[i] {
					return 0, fmt.Sprintf("%s[%s]: item %d used twice", what, typ, i)
				}
				seen[i] = true
			}
			tw += w(x)
			tv += v(x)
		}
		if useW && tw > limit {
			return 0, fmt.Sprintf("%s[%s]: weight %d > limit %d", what, typ, tw, limit)
		}
		return tv, ""
	}
	var sel []T
	if brk == nil {
		sel = algz.Knapsack(W, append([]T(nil), items...), w, v)
	} else {
		sel = algz.Knapsack(W, append([]T(nil), items...), w, v, brk)
	}
	tv, msg := judge("Knapsack", sel, W, true)
	if msg != "" {
		return msg
	}
	if opt := knapOptimumDP(its, W); tv != opt {
		return fmt.Sprintf("Knapsack[%s]: value %d, optimum %d (weights %v values %v limit %d)", typ, tv, opt, ws, vs, W)
	}
	for _, over := range []bool{false, true} {
		var m algz.DpSolvers[T]
		if brk == nil {
			m = algz.FindDpSolvers(maxV, append([]T(nil), items...), v, over)
		} else {
			m = algz.FindDpSolvers(maxV, append([]T(nil), items...), v, over, brk)
		}
		att := attainable(its)
		least, have := 0, false
		for t := range att {
			if t <= maxV {
				if _, ok := m[t]; !ok {
					return fmt.Sprintf("FindDpSolvers[%s]: total %d ≤ %d attainable but not a key (values %v)", typ, t, maxV, vs)
				}
			} else if !have || t < least {
				least, have = t, true
			}
		}
		for k, s := range m {
			tv, msg := judge("FindDpSolvers", s, 0, false)
			if msg != "" {
				return msg
			}
			if tv != k {
				return fmt.Sprintf("FindDpSolvers[%s]: key %d holds a selection with total %d", typ, k, tv)
			}
			if k > maxV && !over {
				return fmt.Sprintf("FindDpSolvers[%s]: key %d > max %d without overflow", typ, k, maxV)
			}
		}
		if over && have {
			if _, ok := m[least]; !ok {
				return fmt.Sprintf("FindDpSolvers[%s]: least total %d above %d is not a key", typ, least, maxV)
			}
		}
		bt, _ := judge("Best", m.Best(maxV), 0, false)
		want := 0
		for t := range att {
			if t <= maxV && t > want {
				want = t
			}
		}
		if bt != want {
			return fmt.Sprintf("Best[%s](%d): total %d, want %d", typ, maxV, bt, want)
		}
		if over {
			bo, _ := judge("BestAllowMinOverflow", m.BestAllowMinOverflow(maxV), 0, false)
			wo := want
			if att[maxV] {
				wo = maxV
			} else if have {
				wo = least
			}
			if bo != wo {
				return fmt.Sprintf("BestAllowMinOverflow[%s](%d): total %d, want %d", typ, maxV, bo, wo)
			}
		}
	}
	return ""
}

// runGraph builds the graph with node ids of type T and compares GetMaximalCliques with the oracle.
func runGraph[T comparable](typ string, n int, edges [][2]int, mk func(i int) T) string {
	g := &algz.Graph[T]{}
	ids := make([]T, n)
	back := make(map[T]int, n)
	for i := range ids {
		ids[i] = mk(i)
		if _, dup := back[ids[i]]; dup {
			return fmt.Sprintf("harness: node ids of type %s are not distinct", typ)
		}
		back[ids[i]] = i
	}
	a := make(adj, n)
	for i := range a {
		a[i] = make([]bool, n)
	}
	for k, e := range edges {
		a[e[0]][e[1]], a[e[1]][e[0]] = true, true
		switch k % 3 {
		case 0:
			g.AddUndirectedEdge(ids[e[0]], ids[e[1]])
		case 1:
			g.AddEdge(ids[e[1]], ids[e[0]])
			g.AddEdge(ids[e[0]], ids[e[1]])
		default:
			g.AddEdge(ids[e[0]], ids[e[1]])
			g.AddUndirectedEdge(ids[e[0]], ids[e[1]])
		}
	}
	for i := range ids {
		g.AddNode(ids[i])
	}
	var got [][]int
	for _, c := range g.GetMaximalCliques() {
		var d []int
		for _, x := range c {
			i, ok := back[x]
			if !ok {
				return fmt.Sprintf("GetMaximalCliques[%s]: a reported vertex is none of the nodes", typ)
			}
			d = append(d, i)
		}
		sort.Ints(d)
		got = append(got, d)
	}
	if f := compareCliquesLarge(got, a, fmt.Sprintf("Graph[%s] n=%d edges=%v", typ, n, edges)); f != nil {
		return f.Desc
	}
	return ""
}

func typeMatrix(ctx *core.Ctx) (int, string, []core.ExtraFailure) {
	r := core.NewRand(ctx.Seed ^ 0x7c18)
	rounds := 60
	if ctx.Tier == "thorough" {
		rounds = 600
	}
	rounds *= ctx.Escalate
	evals := 0
	var fails []core.ExtraFailure
	report := func(msg string, payload map[string]any) {
		if msg != "" && len(fails) == 0 {
			fails = append(fails, core.ExtraFailure{Failure: core.Failure{Key: "type-parameter", Desc: msg}, Payload: payload})
		}
	}
	ptrs := make([]*int, 64)
	for i := range ptrs {
		v := i
		ptrs[i] = &v
	}
	funcs := make([]func() int, 64)
	for i := range funcs {
		i := i
		funcs[i] = func() int { return i }
	}
	for round := 0; round < rounds && len(fails) == 0; round++ {
		n := r.Range(0, 9)
		if round%10 == 0 {
			n = r.Range(17, 24) // more than 16 items in one selection
		}
		ws, vs := make([]int, n), make([]int, n)
		uw, uv := r.Range(0, 3), r.Range(1, 4)
		for i := range ws {
			ws[i], vs[i] = r.Range(0, 4), r.Range(1, 5)
			if n > 16 {
				ws[i] = 1
			}
		}
		uws, uvs := make([]int, n), make([]int, n)
		for i := range uws {
			uws[i], uvs[i] = uw, uv
		}
		W, maxV := r.Range(0, 12), r.Range(0, 14)
		if n > 16 {
			W = n + r.Range(-2, 2)
		}
		pay := map[string]any{"weights": ws, "values": vs, "limit": W, "maxValue": maxV, "uniform_weight": uw, "uniform_value": uv}
		accept := round%3 == 1
		report(runItems("int", ws, vs, W, maxV, func(i int) int { return i }, func(x int) int { return x }, true, pickBrk[int](accept)), pay)
		report(runItems("string", ws, vs, W, maxV, func(i int) string { return fmt.Sprintf("item-%03d", i) }, func(x string) int {
			var i int
			fmt.Sscanf(x, "item-%d", &i)
			return i
		}, true, pickBrk[string](accept)), pay)
		report(runItems("float64", ws, vs, W, maxV, func(i int) float64 { return float64(i) + 0.25 }, func(x float64) int { return int(x) }, true, pickBrk[float64](accept)), pay)
		report(runItems("float64(NaN)", uws, uvs, W, maxV, func(int) float64 { return math.NaN() }, nil, false, pickBrk[float64](accept)), pay)
		report(runItems("struct{float64;string}", ws, vs, W, maxV, func(i int) fs { return fs{float64(i) / 2, fmt.Sprint(i)} }, func(x fs) int { return int(x.f * 2) }, true, pickBrk[fs](accept)), pay)
		report(runItems("any(int|string|[]byte)", ws, vs, W, maxV, func(i int) any {
			switch i % 3 {
			case 0:
				return i
			case 1:
				return fmt.Sprint(i)
			}
			return []byte{byte(i)}
		}, func(x any) int {
			switch y := x.(type) {
			case int:
				return y
			case string:
				var i int
				fmt.Sscan(y, &i)
				return i
			case []byte:
				return int(y[0])
			}
			return -1
		}, true, pickBrk[any](accept)), pay)
		report(runItems("struct{}", uws, uvs, W, maxV, func(int) struct{} { return struct{}{} }, nil, false, pickBrk[struct{}](accept)), pay)
		report(runItems("[0]int", uws, uvs, W, maxV, func(int) [0]int { return [0]int{} }, nil, false, pickBrk[[0]int](accept)), pay)
		report(runItems("*int", ws, vs, W, maxV, func(i int) *int { return ptrs[i] }, func(x *int) int { return *x }, true, pickBrk[*int](accept)), pay)
		report(runItems("func() int", ws, vs, W, maxV, func(i int) func() int { return funcs[i] }, func(x func() int) int { return x() }, true, pickBrk[func() int](accept)), pay)
		evals += 10

		// graphs
		gn := r.Range(0, 8)
		if round%10 == 0 {
			gn = r.Range(33, 40)
		}
		var edges [][2]int
		pct := []int{10, 30, 50, 80}[r.Intn(4)]
		if gn > 16 {
			pct = 6
		}
		for i := 0; i < gn; i++ {
			for j := i + 1; j < gn; j++ {
				if r.Chance(pct) {
					edges = append(edges, [2]int{i, j})
				}
			}
		}
		gp := map[string]any{"vertices": gn, "edges": edges}
		report(runGraph("int", gn, edges, func(i int) int { return i*7 - 3 }), gp)
		report(runGraph("string", gn, edges, func(i int) string { return fmt.Sprintf("v%d", i) }), gp)
		report(runGraph("float64", gn, edges, func(i int) float64 { return float64(i) - 0.5 }), gp)
		report(runGraph("struct{int;float64}", gn, edges, func(i int) nodeKey { return nodeKey{i % 2, float64(i / 2)} }), gp)
		report(runGraph("[2]int", gn, edges, func(i int) [2]int { return [2]int{i / 3, i % 3} }), gp)
		report(runGraph("*int", gn, edges, func(i int) *int { return ptrs[i] }), gp)
		report(runGraph("any(int|string|[2]int|float64)", gn, edges, func(i int) any {
			switch i % 4 {
			case 0:
				return i
			case 1:
				return fmt.Sprint(i)
			case 2:
				return [2]int{i, i}
			}
			return float64(i) + 0.5
		}), gp)
		if gn <= 2 {
			report(runGraph("bool", gn, edges, func(i int) bool { return i == 1 }), gp)
		}
		evals += 7
	}
	return evals, fmt.Sprintf("%d instantiations: Knapsack/FindDpSolvers/Best over 10 item types (int, string, float64, NaN, struct, any incl. []byte, struct{}, [0]int, pointer, func) and GetMaximalCliques over 8 node-id types, judged by the independent oracles", evals), fails
}

// pickBrk: nil, or a tie-breaker that prefers the longer selection (generic in the item type).
func pickBrk[T any](accept bool) func(o, n []T) bool {
	if !accept {
		return nil
	}
	return func(o, n []T) bool { return len(n) >= len(o) }
}
