package c18

import (
	"fmt"
	"math"
	"sort"
	"strconv"
	"strings"

	"github.com/welllog/golib/algz"

	"verifharness/internal/core"
)

/* ---------- independent oracle: brute force over all subsets ---------- */

func fail(key, format string, a ...any) *core.Failure {
	return &core.Failure{Key: key, Desc: fmt.Sprintf(format, a...)}
}

// parseIDs parses "[1 2 3]".
func parseIDs(s string) ([]int, bool) {
	s = strings.TrimSpace(s)
	if len(s) < 2 || s[0] != '[' || s[len(s)-1] != ']' {
		return nil, false
	}
	r := []int{}
	for _, f := range strings.Fields(s[1 : len(s)-1]) {
		v, err := strconv.Atoi(f)
		if err != nil {
			return nil, false
		}
		r = append(r, v)
	}
	return r, true
}

// parseCliques parses "[[0 1] [2]]".
func parseCliques(s string) ([][]int, bool) {
	s = strings.TrimSpace(s)
	if len(s) < 2 || s[0] != '[' || s[len(s)-1] != ']' {
		return nil, false
	}
	s = s[1 : len(s)-1]
	var out [][]int
	for len(s) > 0 {
		s = strings.TrimLeft(s, " ")
		if s == "" {
			break
		}
		j := strings.IndexByte(s, ']')
		if s[0] != '[' || j < 0 {
			return nil, false
		}
		c, ok := parseIDs(s[:j+1])
		if !ok {
			return nil, false
		}
		out = append(out, c)
		s = s[j+1:]
	}
	return out, true
}

// validSelection: ids strictly increasing (every item at most once, in item order) and in range.
func validSelection(ids []int, n int) bool {
	for i, id := range ids {
		if id < 0 || id >= n || (i > 0 && ids[i-1] >= id) {
			return false
		}
	}
	return true
}

func checkKnap(items []item, W int, out string, line string) *core.Failure {
	for _, x := range items {
		if x.w < 0 {
			return nil // outside the domain (the correspondence check covers the panic)
		}
	}
	if W < 0 {
		return nil
	}
	sel, ok := parseIDs(out)
	if !ok {
		return fail("knapsack-output", "%q: Knapsack answered %q on a valid input", line, out)
	}
	if !validSelection(sel, len(items)) {
		return fail("knapsack-invalid", "%q: selection %v is not a sub-selection using each item at most once", line, sel)
	}
	// weights are never added up here: every weight is compared with the room that is left and
	// subtracted from it (non-negative weights ≤ room), so weights like math.MaxInt cannot wrap
	// the oracle's own arithmetic
	tv := 0
	for _, id := range sel {
		tv += items[id].v
	}
	if used, ok := fitsLimit(items, func(i int) bool { return contains(sel, i) }, W); !ok {
		return fail("knapsack-overweight", "%q: selection %v exceeds the limit %d (the items before the first one that no longer fits weigh %d)", line, sel, W, used)
	}
	best, bestMask := 0, 0
	if len(items) > bruteMaxItems {
		best = knapOptimumDP(items, W)
	} else {
		for mask := 0; mask < 1<<len(items); mask++ {
			v := 0
			for i := range items {
				if mask>>i&1 == 1 {
					v += items[i].v
				}
			}
			if v <= best {
				continue
			}
			if _, ok := fitsLimit(items, func(i int) bool { return mask>>i&1 == 1 }, W); ok {
				best, bestMask = v, mask
			}
		}
	}
	if tv != best {
		return fail("knapsack-suboptimal", "%q: selection %v has value %d, but the optimum within the limit is %d (subset mask %b; 0 = found by the dynamic-programming oracle)", line, sel, tv, best, bestMask)
	}
	return nil
}

func contains(ids []int, i int) bool {
	for _, id := range ids {
		if id == i {
			return true
		}
	}
	return false
}

// fitsLimit: do the chosen items (non-negative weights) fit into W?  The room left is reduced
// item by item; no sum of weights is formed.  used = the weight packed before the first misfit.
func fitsLimit(items []item, chosen func(i int) bool, W int) (used int, ok bool) {
	room := W
	for i := range items {
		if !chosen(i) {
			continue
		}
		if items[i].w > room {
			return W - room, false
		}
		room -= items[i].w
	}
	return W - room, true
}

// bruteMaxItems: above this size the oracles are not brute force over 2^n subsets but an own
// dynamic programme (optimum value) / reachable-total table (attainable totals).
const bruteMaxItems = 16

// knapOptimumDP: the optimum value of the 0-1 knapsack by the textbook two-dimensional table
// opt[i][c] = best value using the first i items with capacity c (forward recurrence, no
// in-place update, no item lists) — independent of the code under test and of the Lean model.
func knapOptimumDP(items []item, W int) int {
	prev := make([]int, W+1)
	for _, x := range items {
		cur := make([]int, W+1)
		for c := 0; c <= W; c++ {
			cur[c] = prev[c]
			if x.w <= c && prev[c-x.w]+x.v > cur[c] {
				cur[c] = prev[c-x.w] + x.v
			}
		}
		prev = cur
	}
	return prev[W]
}

// checkKnapValue: value-only lines (huge limits, ≤ 16 items): the optimum by brute force over all
// subsets (independent of the size of the limit) and the validity flag computed by the harness.
func checkKnapValue(items []item, W int, out string, line string) *core.Failure {
	for _, x := range items {
		if x.w < 0 {
			return nil
		}
	}
	if W < 0 || len(items) > bruteMaxItems {
		return nil
	}
	var got int
	var valid string
	if n, _ := fmt.Sscanf(out, "value=%d valid=%s", &got, &valid); n != 2 {
		return fail("knapsack-output", "%q: Knapsack answered %q on a valid input", line, out)
	}
	if valid != "true" {
		return fail("knapsack-invalid", "%q: the returned selection is invalid: %s", line, valid)
	}
	best, bestMask := 0, 0
	for mask := 0; mask < 1<<len(items); mask++ {
		v := 0
		for i := range items {
			if mask>>i&1 == 1 {
				v += items[i].v
			}
		}
		if v <= best {
			continue
		}
		if _, ok := fitsLimit(items, func(i int) bool { return mask>>i&1 == 1 }, W); ok {
			best, bestMask = v, mask
		}
	}
	if got != best {
		return fail("knapsack-suboptimal", "%q: the selection has value %d, but subset mask %b has value %d within the limit", line, got, bestMask, best)
	}
	return nil
}

// checkHistory: `graphh` cases. The operations are replayed on an own map-of-sets; a `cliques`
// answer is judged when the CURRENT arc set is symmetric and every arc ends in a node.
func checkHistory(c core.Case, out []string) *core.Failure {
	nodes := map[int]bool{}
	arcs := map[[2]int]bool{}
	for i := 1; i < len(c.Lines) && i < len(out); i++ {
		t := core.Toks(c.Lines[i])
		if len(t) == 0 || out[i] == "bad-op" || out[i] == "dead" {
			continue
		}
		line := fmt.Sprintf("%s … / line %d %q", c.Lines[0], i, c.Lines[i])
		if out[i] == "panic" {
			return fail("graph-history-panic", "%s panicked", line)
		}
		if j := strings.Index(out[i], " LEDGER:"); j >= 0 {
			return fail("result-or-input-changed-later", "%s: %s", line, out[i][j+8:])
		}
		atoi := func(s string) int { v, _ := strconv.Atoi(s); return v }
		switch t[0] {
		case "init":
			nodes, arcs = map[int]bool{}, map[[2]int]bool{}
		case "node", "cnode", "mnode":
			nodes[atoi(t[1])] = true
		case "mdel":
			v := atoi(t[1])
			delete(nodes, v)
			for e := range arcs {
				if e[0] == v || e[1] == v {
					delete(arcs, e)
				}
			}
		case "und", "cund":
			a, b := atoi(t[1]), atoi(t[2])
			nodes[a], nodes[b] = true, true
			arcs[[2]int{a, b}], arcs[[2]int{b, a}] = true, true
		case "arc", "carc", "marc":
			a, b := atoi(t[1]), atoi(t[2])
			nodes[a] = true
			arcs[[2]int{a, b}] = true
		case "len":
			if out[i] != strconv.Itoa(len(nodes)) {
				return fail("graph-len", "%s: Len() = %s, the graph has %d nodes", line, out[i], len(nodes))
			}
		case "paths":
			if out[i] != "ok" {
				return fail("graph-history-paths", "%s: %s", line, out[i])
			}
		case "cliques":
			okG := true
			for e := range arcs {
				if !arcs[[2]int{e[1], e[0]}] || !nodes[e[1]] {
					okG = false
				}
			}
			if !okG {
				continue
			}
			var labels []int
			for v := range nodes {
				labels = append(labels, v)
			}
			sort.Ints(labels)
			pos := map[int]int{}
			for k, v := range labels {
				pos[v] = k
			}
			a := make(adj, len(labels))
			for k := range a {
				a[k] = make([]bool, len(labels))
			}
			for e := range arcs {
				a[pos[e[0]]][pos[e[1]]] = true
			}
			got, ok := parseCliques(out[i])
			if !ok {
				return fail("cliques-output", "%s: GetMaximalCliques answered %q", line, out[i])
			}
			var mapped [][]int
			for _, cl := range got {
				var d []int
				for _, v := range cl {
					k, in := pos[v]
					if !in {
						return fail("cliques-not-maximal-clique", "%s: the reported clique %v contains %d, which is not a node of the graph as it is now (nodes %v)", line, cl, v, labels)
					}
					d = append(d, k)
				}
				mapped = append(mapped, d)
			}
			if f := compareCliquesLarge(mapped, a, line+fmt.Sprintf(" (vertex k = label %v[k])", labels)); f != nil {
				return f
			}
		}
	}
	return nil
}

// attainable returns the set of subset totals of the values.
func attainable(items []item) map[int]bool {
	a := map[int]bool{}
	if len(items) > bruteMaxItems {
		// reachable-total table (values are positive here: checkSolv filters the domain)
		total := 0
		for _, x := range items {
			total += x.v
		}
		reach := make([]bool, total+1)
		reach[0] = true
		for _, x := range items {
			for t := total; t >= x.v; t-- {
				if reach[t-x.v] {
					reach[t] = true
				}
			}
		}
		for t, ok := range reach {
			if ok {
				a[t] = true
			}
		}
		return a
	}
	for mask := 0; mask < 1<<len(items); mask++ {
		t := 0
		for i := range items {
			if mask>>i&1 == 1 {
				t += items[i].v
			}
		}
		a[t] = true
	}
	return a
}

// bruteBest / bruteBestO: the specification of Best / BestAllowMinOverflow on a key set.
func bruteBest(keys []int, m int) (int, bool) {
	r, ok := 0, false
	for _, k := range keys {
		if k <= m && (!ok || k > r) {
			r, ok = k, true
		}
	}
	return r, ok
}

func bruteBestO(keys []int, m int) (int, bool) {
	for _, k := range keys {
		if k == m {
			return k, true
		}
	}
	r, ok := 0, false
	for _, k := range keys {
		if k > m && (!ok || k < r) {
			r, ok = k, true
		}
	}
	if ok {
		return r, true
	}
	return bruteBest(keys, m)
}

func sumSel(items []item, l []item) (int, []int) {
	t := 0
	for _, x := range l {
		t += x.v
	}
	return t, idsOf(l)
}

// checkSolvMap evaluates the property on one returned map (any iteration order).
func checkSolvMap(items []item, max int, over bool, m algz.DpSolvers[item], line string) *core.Failure {
	att := attainable(items)
	maxTotal := 0
	for _, x := range items {
		maxTotal += x.v
	}
	var keys []int
	for k, sel := range m {
		keys = append(keys, k)
		t, ids := sumSel(items, sel)
		if !validSelection(ids, len(items)) {
			return fail("solvers-invalid-selection", "%q: key %d holds %v: not a selection using each item at most once", line, k, ids)
		}
		for j, x := range sel {
			if x != items[ids[j]] {
				return fail("solvers-invalid-selection", "%q: key %d holds a corrupted item %+v", line, k, x)
			}
		}
		if t != k {
			return fail("solvers-wrong-sum", "%q: key %d holds selection %v with total %d", line, k, ids, t)
		}
		if k > max && !over {
			return fail("solvers-unexpected-overflow", "%q: key %d > max %d although overflow is not allowed", line, k, max)
		}
	}
	sort.Ints(keys)
	for t := range att {
		if t <= max {
			if _, ok := m[t]; !ok {
				return fail("solvers-incomplete", "%q: total %d ≤ %d is attainable but is not a key (keys %v)", line, t, max, keys)
			}
		}
	}
	least, have := 0, false
	for t := range att {
		if t > max && (!have || t < least) {
			least, have = t, true
		}
	}
	if over && have {
		if _, ok := m[least]; !ok {
			return fail("solvers-overflow-missing", "%q: least attainable total above %d is %d but it is not a key (keys %v)", line, max, least, keys)
		}
	}
	// Best / BestAllowMinOverflow against their specification on the returned key set
	// queries: every q in -1..total+1 for small totals; for totals near the int64 guard only the
	// neighbourhood of every key (no q+1 beyond math.MaxInt)
	var queries []int
	if maxTotal <= 4096 {
		for q := -1; q <= maxTotal+1; q++ {
			queries = append(queries, q)
		}
	} else {
		queries = append(queries, -1, 0, 1, max)
		for _, k := range keys {
			queries = append(queries, k-1, k)
			if k < math.MaxInt {
				queries = append(queries, k+1)
			}
		}
	}
	for _, q := range queries {
		got := m.Best(q)
		want, ok := bruteBest(keys, q)
		// q = math.MaxInt and the only key ≤ q is 0: the code answers nil (maxValue - 0 is not below the
		// initial minDiff = MaxInt); key 0 holds the empty selection, and nil IS the empty selection
		nilIsEmpty := func() bool { return q == math.MaxInt && ok && want == 0 && got == nil && len(m[0]) == 0 }
		if nilIsEmpty() {
			ok = false
		}
		if (got == nil) != !ok || (ok && fmt.Sprint(idsOf(got)) != fmt.Sprint(idsOf(m[want]))) {
			return fail("best-wrong", "%q: Best(%d) = %s on keys %v, want the selection of key %d (exists=%v)", line, q, showSel(got), keys, want, ok)
		}
		got = m.BestAllowMinOverflow(q)
		want, ok = bruteBestO(keys, q)
		if nilIsEmpty() {
			ok = false
		}
		if (got == nil) != !ok || (ok && fmt.Sprint(idsOf(got)) != fmt.Sprint(idsOf(m[want]))) {
			return fail("bestoverflow-wrong", "%q: BestAllowMinOverflow(%d) = %s on keys %v, want the selection of key %d (exists=%v)", line, q, showSel(got), keys, want, ok)
		}
	}
	// the statement of the property about Best / BestAllowMinOverflow at max
	if t, _ := sumSel(items, m.Best(max)); true {
		want := 0
		for a := range att {
			if a <= max && a > want {
				want = a
			}
		}
		if t != want {
			return fail("best-wrong", "%q: Best(%d) has total %d, largest attainable total ≤ max is %d", line, max, t, want)
		}
	}
	if over {
		t, _ := sumSel(items, m.BestAllowMinOverflow(max))
		switch {
		case att[max] && t != max:
			return fail("bestoverflow-wrong", "%q: %d is attainable but BestAllowMinOverflow gives total %d", line, max, t)
		case !att[max] && have && t != least:
			return fail("bestoverflow-wrong", "%q: BestAllowMinOverflow(%d) gives total %d, smallest overshoot is %d", line, max, t, least)
		}
	}
	return nil
}

func checkSolv(items []item, max int, over bool, brkTok string, out string, line string) *core.Failure {
	for _, x := range items {
		if x.v <= 0 {
			return nil // outside the domain
		}
	}
	if max < 0 {
		return nil
	}
	if !strings.HasPrefix(out, "le ") {
		return fail("solvers-output", "%q: FindDpSolvers answered %q on a valid input", line, out)
	}
	brk, _ := parseBrk(brkTok)
	// the real code again, twice: fresh map iteration orders
	for rep := 0; rep < 2; rep++ {
		var m algz.DpSolvers[item]
		if r := core.Guard(func() string { m = runSolv(items, max, over, brk, &inputFlag{}); return "" }); r == "panic" {
			return fail("solvers-panic", "%q: FindDpSolvers panicked", line)
		}
		if f := checkSolvMap(items, max, over, m, line); f != nil {
			return f
		}
		if l := solvLine(m, max); l != out {
			return fail("solvers-order-dependent", "%q: two runs differ in the order-independent observables:\n  %s\n  %s", line, out, l)
		}
	}
	return nil
}

/* ---------- graphs ---------- */

type adj [][]bool

func (gc *graphCase) adjacency() adj {
	a := make(adj, gc.n)
	for i := range a {
		a[i] = make([]bool, gc.n)
	}
	for e := range gc.dir {
		a[e[0]][e[1]] = true
	}
	return a
}

// bruteMaximalCliques enumerates all vertex subsets (as bit masks) that are maximal cliques
// C with req ⊆ C ⊆ allowed ∪ req, maximal among *all* vertices.
func bruteMaximalCliques(a adj) []int {
	n := len(a)
	isClique := func(mask int) bool {
		for i := 0; i < n; i++ {
			if mask>>i&1 == 0 {
				continue
			}
			for j := i + 1; j < n; j++ {
				if mask>>j&1 == 1 && !a[i][j] {
					return false
				}
			}
		}
		return true
	}
	var out []int
	for mask := 0; mask < 1<<n; mask++ {
		if !isClique(mask) {
			continue
		}
		maximal := true
		for v := 0; v < n && maximal; v++ {
			if mask>>v&1 == 0 && isClique(mask|1<<v) {
				maximal = false
			}
		}
		if maximal {
			out = append(out, mask)
		}
	}
	return out
}

/* ---------- large graphs: no bit masks, no enumeration of vertex subsets ---------- */

const bruteMaxVertices = 16

// pivotMaximalCliques: an own Bron–Kerbosch with Tomita pivoting on copied sets (not the code
// under test: that one has no pivot, shares arrays and walks P in place).
func pivotMaximalCliques(a adj) [][]int {
	n := len(a)
	var out [][]int
	filter := func(s []int, v int) []int {
		var r []int
		for _, u := range s {
			if a[v][u] {
				r = append(r, u)
			}
		}
		return r
	}
	var rec func(R, P, X []int)
	rec = func(R, P, X []int) {
		if len(P) == 0 {
			if len(X) == 0 {
				c := append([]int{}, R...)
				sort.Ints(c)
				out = append(out, c)
			}
			return
		}
		// pivot: the vertex of P ∪ X with the most neighbours in P
		pivot, bestCnt := -1, -1
		for _, set := range [][]int{P, X} {
			for _, u := range set {
				cnt := 0
				for _, w := range P {
					if a[u][w] {
						cnt++
					}
				}
				if cnt > bestCnt {
					pivot, bestCnt = u, cnt
				}
			}
		}
		P = append([]int{}, P...)
		X = append([]int{}, X...)
		var cand []int
		for _, v := range P {
			if !a[pivot][v] {
				cand = append(cand, v)
			}
		}
		for _, v := range cand {
			rec(append(append([]int{}, R...), v), filter(P, v), filter(X, v))
			for i, u := range P {
				if u == v {
					P = append(P[:i], P[i+1:]...)
					break
				}
			}
			X = append(X, v)
		}
	}
	all := make([]int, n)
	for i := range all {
		all[i] = i
	}
	rec(nil, all, nil)
	return out
}

// compareCliquesLarge: every reported list is duplicate-free, a clique, maximal (checked
// directly on the adjacency matrix), reported once; and the number of reported cliques is the
// number of maximal cliques found by the independent enumeration (so none is missing), each
// of which is among the reported ones.
func compareCliquesLarge(got [][]int, a adj, line string) *core.Failure {
	n := len(a)
	seen := map[string]bool{}
	for _, c := range got {
		in := make([]bool, n)
		for _, v := range c {
			if v < 0 || v >= n {
				return fail("cliques-output", "%q: vertex %d out of range", line, v)
			}
			if in[v] {
				return fail("cliques-repeated-vertex", "%q: clique %v repeats a vertex", line, c)
			}
			in[v] = true
		}
		for i, u := range c {
			for _, w := range c[i+1:] {
				if !a[u][w] {
					return fail("cliques-not-maximal-clique", "%q: %v is reported but %d and %d are not adjacent", line, c, u, w)
				}
			}
		}
		for v := 0; v < n; v++ {
			if in[v] {
				continue
			}
			all := true
			for _, u := range c {
				if !a[v][u] {
					all = false
					break
				}
			}
			if all {
				return fail("cliques-not-maximal-clique", "%q: %v is reported but is not maximal: vertex %d is adjacent to all of it", line, c, v)
			}
		}
		d := append([]int{}, c...)
		sort.Ints(d)
		k := fmt.Sprint(d)
		if seen[k] {
			return fail("cliques-duplicate", "%q: clique %v reported twice", line, d)
		}
		seen[k] = true
	}
	want := pivotMaximalCliques(a)
	for _, w := range want {
		if !seen[fmt.Sprint(w)] {
			return fail("cliques-missing", "%q: maximal clique %v is not reported (%d reported, %d exist)", line, w, len(got), len(want))
		}
	}
	if len(want) != len(got) {
		return fail("cliques-missing", "%q: %d cliques reported, %d maximal cliques exist", line, len(got), len(want))
	}
	return nil
}

func checkLargeGraphOp(gc *graphCase, a adj, t []string, out, line string) *core.Failure {
	switch t[0] {
	case "cliques":
		got, ok := parseCliques(out)
		if !ok {
			return fail("cliques-output", "%q: GetMaximalCliques answered %q", line, out)
		}
		if f := compareCliquesLarge(got, a, line); f != nil {
			return f
		}
		if again := showCliques(canonCliques(gc.graph.GetMaximalCliques())); again != out {
			return fail("cliques-order-dependent", "%q: two runs differ", line)
		}
	case "bk":
		ps, _ := atoiAll(t[1:], gc.n)
		i := strings.Index(out, " arr=")
		if i < 0 {
			return fail("cliques-output", "%q: BronKerbosch answered %q", line, out)
		}
		got, ok := parseCliques(out[:i])
		if !ok {
			return fail("cliques-output", "%q: BronKerbosch answered %q", line, out)
		}
		if out[i+5:] != fmt.Sprint(ps) {
			return fail("cliques-top-array-modified", "%q: the array shared by P and X was changed: %s", line, out[i+5:])
		}
		// only a permutation of all vertices is the top-level call of the property
		if len(ps) != gc.n {
			return nil
		}
		in := make([]bool, gc.n)
		for _, v := range ps {
			if in[v] {
				return nil
			}
			in[v] = true
		}
		return compareCliquesLarge(got, a, line)
	case "bkx":
		g := splitBar(t[1:])
		if len(g) != 3 {
			return nil
		}
		R, _ := atoiAll(g[0], gc.n)
		P, _ := atoiAll(g[1], gc.n)
		X, _ := atoiAll(g[2], gc.n)
		// precondition of the invariant: R, P, X duplicate-free and pairwise disjoint, R a clique,
		// P ∪ X = the common neighbours of R (otherwise the call is outside the property)
		where := make([]byte, gc.n) // 'r', 'p', 'x'
		for _, grp := range []struct {
			tag byte
			vs  []int
		}{{'r', R}, {'p', P}, {'x', X}} {
			for _, v := range grp.vs {
				if where[v] != 0 {
					return nil
				}
				where[v] = grp.tag
			}
		}
		for i, r := range R {
			for _, s := range R[i+1:] {
				if !a[r][s] {
					return nil
				}
			}
		}
		for v := 0; v < gc.n; v++ {
			if where[v] == 'r' {
				continue
			}
			all := true
			for _, r := range R {
				if !a[v][r] {
					all = false
					break
				}
			}
			if all != (where[v] == 'p' || where[v] == 'x') {
				return nil
			}
		}
		got, ok := parseCliques(out)
		if !ok {
			return fail("cliques-output", "%q: BronKerbosch answered %q", line, out)
		}
		// expected: the maximal cliques C of the whole graph with R ⊆ C ⊆ R ∪ P
		want := map[string]bool{}
		for _, c := range pivotMaximalCliques(a) {
			okc, nr := true, 0
			for _, v := range c {
				switch where[v] {
				case 'r':
					nr++
				case 'p':
				default:
					okc = false
				}
			}
			if okc && nr == len(R) {
				want[fmt.Sprint(c)] = true
			}
		}
		seen := map[string]bool{}
		for _, c := range got {
			d := append([]int{}, c...)
			sort.Ints(d)
			for i := 1; i < len(d); i++ {
				if d[i] == d[i-1] {
					return fail("cliques-repeated-vertex", "%q: clique %v repeats a vertex", line, c)
				}
			}
			k := fmt.Sprint(d)
			if seen[k] {
				return fail("cliques-duplicate", "%q: clique %v reported twice", line, d)
			}
			seen[k] = true
			if !want[k] {
				return fail("cliques-not-maximal-clique", "%q: %v is reported but is not a maximal clique C with R ⊆ C ⊆ R ∪ P", line, d)
			}
		}
		for k := range want {
			if !seen[k] {
				return fail("cliques-missing", "%q: maximal clique %s with R ⊆ C ⊆ R ∪ P is not reported (%d reported, %d exist)", line, k, len(got), len(want))
			}
		}
	}
	return nil
}

func maskOf(c []int) (int, bool) {
	m := 0
	for _, v := range c {
		if m>>v&1 == 1 {
			return 0, false
		}
		m |= 1 << v
	}
	return m, true
}

// compareCliques: got must be exactly the wanted masks, each once.
func compareCliques(got [][]int, want []int, line string) *core.Failure {
	seen := map[int]bool{}
	wantSet := map[int]bool{}
	for _, w := range want {
		wantSet[w] = true
	}
	for _, c := range got {
		m, ok := maskOf(c)
		if !ok {
			return fail("cliques-repeated-vertex", "%q: clique %v repeats a vertex", line, c)
		}
		if seen[m] {
			return fail("cliques-duplicate", "%q: clique %v reported twice", line, c)
		}
		seen[m] = true
		if !wantSet[m] {
			return fail("cliques-not-maximal-clique", "%q: %v is reported but is not a maximal clique", line, c)
		}
	}
	for _, w := range want {
		if !seen[w] {
			return fail("cliques-missing", "%q: maximal clique with vertex mask %b is not reported (got %v)", line, w, got)
		}
	}
	return nil
}

func checkGraphOp(gc *graphCase, t []string, out, line string) *core.Failure {
	if gc.asym {
		return nil // the final arc set is not symmetric: not an undirected graph, outside the domain
	}
	a := gc.adjacency()
	if gc.n > bruteMaxVertices {
		return checkLargeGraphOp(gc, a, t, out, line)
	}
	switch t[0] {
	case "cliques":
		got, ok := parseCliques(out)
		if !ok {
			return fail("cliques-output", "%q: GetMaximalCliques answered %q", line, out)
		}
		if f := compareCliques(got, bruteMaximalCliques(a), line); f != nil {
			return f
		}
		// run again (fresh map order) and compare
		if again := showCliques(canonCliques(gc.graph.GetMaximalCliques())); again != out {
			return fail("cliques-order-dependent", "%q: two runs differ: %s vs %s", line, out, again)
		}
	case "bk":
		ps, _ := atoiAll(t[1:], gc.n)
		i := strings.Index(out, " arr=")
		if i < 0 {
			return fail("cliques-output", "%q: BronKerbosch answered %q", line, out)
		}
		got, ok := parseCliques(out[:i])
		if !ok {
			return fail("cliques-output", "%q: BronKerbosch answered %q", line, out)
		}
		if out[i+5:] != fmt.Sprint(ps) {
			return fail("cliques-top-array-modified", "%q: the array shared by P and X was changed: %s", line, out[i+5:])
		}
		if m, ok := maskOf(ps); ok && m == 1<<gc.n-1 {
			return compareCliques(got, bruteMaximalCliques(a), line)
		}
	case "bkx":
		g := splitBar(t[1:])
		R, _ := atoiAll(g[0], gc.n)
		P, _ := atoiAll(g[1], gc.n)
		X, _ := atoiAll(g[2], gc.n)
		rm, ok1 := maskOf(R)
		pm, ok2 := maskOf(P)
		xm, ok3 := maskOf(X)
		if !ok1 || !ok2 || !ok3 || pm&xm != 0 {
			return nil
		}
		// precondition of the invariant: R clique, P ∪ X = common neighbours of R
		common := 0
		for v := 0; v < gc.n; v++ {
			if rm>>v&1 == 1 {
				continue
			}
			all := true
			for _, r := range R {
				if !a[v][r] {
					all = false
				}
			}
			if all {
				common |= 1 << v
			}
		}
		for i, r := range R {
			for _, s := range R[i+1:] {
				if !a[r][s] {
					return nil
				}
			}
		}
		if common != pm|xm {
			return nil
		}
		got, ok := parseCliques(out)
		if !ok {
			return fail("cliques-output", "%q: BronKerbosch answered %q", line, out)
		}
		var want []int
		for _, c := range bruteMaximalCliques(a) {
			if c&rm == rm && c&^(rm|pm) == 0 {
				want = append(want, c)
			}
		}
		return compareCliques(got, want, line)
	}
	return nil
}

func check(c core.Case, out []string) *core.Failure {
	hdr := core.Toks(c.Lines[0])
	if len(hdr) >= 3 && hdr[2] == "graph" && out[0] == "panic" {
		return fail("graph-build-panic", "%q: building the graph through AddNode/AddEdge/AddUndirectedEdge/Init panicked", c.Lines[0])
	}
	if len(hdr) < 3 || out[0] != "ok" {
		return nil
	}
	for i := 1; i < len(out) && i < len(c.Lines); i++ {
		if j := strings.Index(out[i], " LEDGER:"); j >= 0 {
			return fail("result-or-input-changed-later", "%q / %q: %s (a slice returned by an earlier call, or the caller's input, changed during this call)", c.Lines[0], c.Lines[i], out[i][j+8:])
		}
	}
	switch hdr[2] {
	case "dp":
		items, ok := parseItems(hdr[3:])
		if !ok {
			return nil
		}
		for i := 1; i < len(c.Lines); i++ {
			t := core.Toks(c.Lines[i])
			if out[i] == "dead" || out[i] == "bad-op" || len(t) == 0 {
				continue
			}
			var f *core.Failure
			switch t[0] {
			case "knapv":
				W, _ := strconv.Atoi(t[1])
				f = checkKnapValue(items, W, out[i], c.Lines[0]+" / "+c.Lines[i])
			case "knap":
				W, _ := strconv.Atoi(t[1])
				f = checkKnap(items, W, out[i], c.Lines[0]+" / "+c.Lines[i])
			case "solv":
				max, _ := strconv.Atoi(t[1])
				f = checkSolv(items, max, t[2] == "1", t[3], out[i], c.Lines[0]+" / "+c.Lines[i])
			}
			if f != nil {
				return f
			}
		}
	case "map":
		var keys []int
		for _, t := range hdr[3:] {
			k, _ := strconv.Atoi(t)
			keys = append(keys, k)
		}
		for i := 1; i < len(c.Lines); i++ {
			t := core.Toks(c.Lines[i])
			if len(t) != 3 || out[i] == "bad-op" || out[i] == "dead" {
				continue
			}
			m, _ := strconv.Atoi(t[1])
			var want int
			var ok bool
			if t[0] == "best" {
				want, ok = bruteBest(keys, m)
			} else {
				want, ok = bruteBestO(keys, m)
			}
			ws := "nil"
			if ok {
				ws = fmt.Sprintf("[%d]", want)
			}
			if out[i] != ws {
				key := "best-wrong"
				if t[0] == "besto" {
					key = "bestoverflow-wrong"
				}
				return fail(key, "%q / %q: answered %s, specification gives %s", c.Lines[0], c.Lines[i], out[i], ws)
			}
		}
	case "graphh":
		return checkHistory(c, out)
	case "graph":
		gc, ok := parseGraph(hdr[3:])
		if !ok {
			return nil
		}
		for i := 1; i < len(c.Lines); i++ {
			t := core.Toks(c.Lines[i])
			if len(t) == 0 || out[i] == "bad-op" || out[i] == "dead" {
				continue
			}
			if out[i] == "panic" {
				return fail("cliques-panic", "%q / %q panicked", c.Lines[0], c.Lines[i])
			}
			if gc.lenBad {
				return fail("graph-len", "%q: Graph.Len() = %d after adding %d vertices (build mode %d)", c.Lines[0], gc.graph.Len(), gc.n, gc.mode)
			}
			if f := checkGraphOp(gc, t, out[i], c.Lines[0]+" / "+c.Lines[i]); f != nil {
				return f
			}
		}
	}
	return nil
}

/* ---------- evidence helpers ---------- */

func nonTrivial(c core.Case, out []string) bool {
	hdr := core.Toks(c.Lines[0])
	if len(hdr) < 3 || len(c.Lines) < 2 || out[0] != "ok" {
		return false
	}
	live := false
	for _, o := range out[1:] {
		if o != "panic" && o != "dead" && o != "bad-op" {
			live = true
		}
	}
	switch hdr[2] {
	case "dp":
		return live && len(hdr)-3 >= 6
	case "map":
		return live && len(hdr)-3 >= 2
	case "graphh":
		return live && len(c.Lines) >= 6
	case "graph":
		n, _ := strconv.Atoi(hdr[3])
		return live && n >= 3 && len(hdr) > 4
	}
	return false
}

func classify(c core.Case, out []string) []string {
	hdr := core.Toks(c.Lines[0])
	if len(hdr) < 3 {
		return nil
	}
	ls := []string{"kind:" + hdr[2]}
	if hdr[2] == "dp" {
		if items, ok := parseItems(hdr[3:]); ok {
			nw, nv := 0, 0
			for _, x := range items {
				if x.w >= 1<<61 {
					nw++
				}
				if x.v >= 1<<61 {
					nv++
				}
			}
			switch {
			case nw >= 4:
				ls = append(ls, "dp:≥4-sentinel-weights(≥2^61)")
			case nw >= 2:
				ls = append(ls, "dp:2-3-sentinel-weights(≥2^61)")
			case nw == 1:
				ls = append(ls, "dp:1-sentinel-weight(≥2^61)")
			}
			if nv > 0 {
				ls = append(ls, "dp:value≥2^61(under-the-guard)")
			}
		}
	}
	for i, l := range c.Lines[1:] {
		t := core.Toks(l)
		o := out[i+1]
		if len(t) == 0 {
			continue
		}
		if o == "panic" {
			ls = append(ls, t[0]+":panic")
			continue
		}
		if o == "dead" || o == "bad-op" {
			continue
		}
		switch t[0] {
		case "knap":
			ls = append(ls, "knap")
			if sel, ok := parseIDs(o); ok {
				switch {
				case len(sel) >= 65:
					ls = append(ls, "knap:selection≥65-items")
				case len(sel) >= 33:
					ls = append(ls, "knap:selection≥33-items")
				case len(sel) >= 17:
					ls = append(ls, "knap:selection≥17-items")
				}
			}
			if t[2] != "nil" {
				ls = append(ls, "knap:tie-breaker")
			}
			if o == "[]" {
				ls = append(ls, "knap:empty-selection")
			}
		case "solv":
			ls = append(ls, "solv:over="+t[2])
			if mx, err := strconv.Atoi(t[1]); err == nil && mx >= 1<<61 {
				ls = append(ls, "solv:maxValue≥2^61")
				if mx >= math.MaxInt-1 {
					ls = append(ls, "solv:maxValue≥MaxInt-1")
				}
			}
			if len(hdr)-3 >= 34 {
				ls = append(ls, "solv:≥17-items")
			}
			if t[3] != "nil" {
				ls = append(ls, "solv:tie-breaker")
			}
			if t[2] == "1" && strings.Contains(o, "| ov none") {
				ls = append(ls, "solv:no-overshoot-exists")
			}
			if t[2] == "1" && !strings.Contains(o, "| ov none") {
				ls = append(ls, "solv:overshoot-key")
			}
			bi := strings.Index(o, "| best ")
			bo := strings.Index(o, "| besto ")
			if bi >= 0 && bo > bi && o[bi+7:bo-1] == o[bo+8:] {
				ls = append(ls, "solv:best=besto")
			} else {
				ls = append(ls, "solv:besto-overshoots")
			}
		case "best", "besto":
			if o == "nil" {
				ls = append(ls, t[0]+":nil")
			} else if o == "["+t[1]+"]" {
				ls = append(ls, t[0]+":exact")
			} else {
				k, _ := strconv.Atoi(strings.Trim(o, "[]"))
				m, _ := strconv.Atoi(t[1])
				if k > m {
					ls = append(ls, t[0]+":above")
				} else {
					ls = append(ls, t[0]+":below")
				}
			}
		case "cliques", "bk", "bkx":
			ls = append(ls, t[0])
			if cs, ok := parseCliques(strings.Split(o, " arr=")[0]); ok {
				switch {
				case len(cs) == 0:
					ls = append(ls, t[0]+":no-clique")
				case len(cs) == 1:
					ls = append(ls, t[0]+":one-clique")
				case len(cs) >= 5:
					ls = append(ls, t[0]+":≥5-cliques")
				default:
					ls = append(ls, t[0]+":2-4-cliques")
				}
			}
		}
	}
	if hdr[2] == "graph" && len(hdr) > 3 && out[0] == "ok" {
		if gc, ok := parseGraph(hdr[3:]); ok {
			ls = append(ls, fmt.Sprintf("graph:build-mode-%d", gc.mode))
			seen := map[string]bool{}
			for _, e := range hdr[4:] {
				k := e
				if ab := strings.Split(e, "-"); len(ab) == 2 && ab[0] > ab[1] {
					k = ab[1] + "-" + ab[0]
				}
				if seen[k] {
					ls = append(ls, "graph:duplicate-edge")
					break
				}
				seen[k] = true
			}
			iso := 0
			a := gc.adjacency()
			for i := range a {
				deg := 0
				for j := range a[i] {
					if a[i][j] {
						deg++
					}
				}
				if deg == 0 {
					iso++
				}
			}
			if iso > 0 && !gc.asym {
				ls = append(ls, "graph:isolated-vertex")
			}
			if gc.n == 0 {
				ls = append(ls, "graph:empty")
			}
			switch {
			case gc.n >= 65:
				ls = append(ls, "graph:≥65-vertices")
			case gc.n >= 33:
				ls = append(ls, "graph:33..64-vertices")
			}
		}
	}
	if hdr[2] == "map" && len(hdr) == 3 {
		ls = append(ls, "map:empty")
	}
	if hdr[2] == "graph" && len(hdr) > 3 {
		for _, e := range hdr[4:] {
			if strings.Contains(e, ">") {
				if gc, ok := parseGraph(hdr[3:]); ok && !gc.asym {
					ls = append(ls, "graph:mixed-AddEdge/AddUndirectedEdge(symmetric)")
				} else {
					ls = append(ls, "graph:directed-arc(malformed)")
				}
				break
			}
		}
	}
	return ls
}
