// Package c06: Trie Replace / ReplaceWithMask are total and rewrite exactly the
// matched regions (algz/trie.go: find, mergeScopes, Replace, ReplaceWithMask).
package c06

import (
	"bytes"
	"fmt"
	"strconv"
	"strings"
	"unicode/utf8"

	"github.com/welllog/golib/algz"

	"verifharness/internal/core"
	"verifharness/props/c05"
)

func init() {
	core.Register(&core.Prop{
		ID:         "C06",
		Title:      "Trie Replace/ReplaceWithMask are total and rewrite exactly the matched regions",
		Quick:      quickCases,
		Thorough:   thoroughCases,
		Gen:        gen,
		Corpus:     corpus,
		Impl:       impl,
		Check:      check,
		NonTrivial: nonTrivial,
		Rule: "one trie (pattern sets over {a,b,c,é,你,😀} biased to a long pattern that contains several disjoint short ones, touching / nested / chained occurrences; or 12–40 short patterns; or byte garbage) + 3–8 mask/replace calls; 9 % histories (Insert…, Build, calls, then 1–3 rounds of insert… / build / dump / calls on the same trie) and 4 ‰ large cases (texts up to 1030 runes, up to 130 patterns, wide nodes, long patterns; larger in thorough and on anchor drift); " +
			"non-trivial = at least one call whose text holds two occurrences that overlap (naive scan); distinct by hash of the case lines",
		Classify: classify,
		Facts:    facts,
		Extras: []core.Extra{{
			Name: "exhaustive-ab",
			Run:  exhaustive,
		}},
		Shrink:   c05.Shrinker(),
		Parallel: true,
		Assumptions: []string{
			"Go int treated as unbounded (no text near 2^31 bytes)",
			"fewer than 2^32 trie nodes (uint32 head/tail/cap of trieNodeQueue do not wrap)",
			"every call is made after BuildFailureLinks",
			"a Trie is used through one value: a by-value copy of a Trie that already holds patterns is outside the property (the root node is embedded and the depth-1 failure links point at the ORIGINAL root, so a query on such a copy dereferences nil in the unchanged code as well); copies of the zero value are independent and are exercised (`sibling` op)",
			"results ledger: every returned string is kept alive with a deep copy and re-compared after every later call on the same and on a second trie; arguments are passed as windows of canary-framed arenas",
		},
		TrustedBase: []string{
			"property oracle: coverage bitmap by naive byte scanning (bytes.Equal), unicode/utf8.DecodeRune / AppendRune / RuneCount (Go standard library)",
			"hex transport of byte strings between harness and Lean driver",
		},
	})
}

const (
	quickCases    = 10000
	thoroughCases = 420000
)

func stepOp(t *algz.Trie, tk []string) string {
	if o, ok := c05.StepMut(t, tk); ok {
		return o
	}
	if len(tk) == 1 && tk[0] == "dump" {
		if !c05.DumpAvailable() {
			return "dump-unavailable"
		}
		return c05.DumpTrie(t)
	}
	if len(tk) != 3 {
		return "bad-op"
	}
	text, ok := c05.Unhex(tk[1])
	if !ok {
		return "bad-op"
	}
	switch tk[0] {
	case "mask":
		m, err := strconv.ParseInt(tk[2], 10, 32)
		if err != nil {
			return "bad-op"
		}
		return c05.Hex([]byte(t.ReplaceWithMask(string(text), rune(m))))
	case "replace":
		repl, ok := c05.Unhex(tk[2])
		if !ok {
			return "bad-op"
		}
		return c05.Hex([]byte(t.Replace(string(text), string(repl))))
	}
	return "bad-op"
}

// query answers one C06 call on the session's trie; every returned string goes into the
// results ledger and becomes the live `^` of the following calls.
func query(s *c05.Session, tk []string) string {
	if len(tk) != 3 {
		return "bad-op"
	}
	text, ok := s.Arg(tk[1])
	if !ok {
		return "bad-op"
	}
	switch tk[0] {
	case "sibling": // tk[1] = pattern, tk[2] = text
		x, ok := s.Arg(tk[2])
		if !ok {
			return "bad-op"
		}
		r := s.Sibling(text).Replace(x, "#")
		s.Keep(r)
		return c05.Hex([]byte(r))
	case "mask":
		m, err := strconv.ParseInt(tk[2], 10, 32)
		if err != nil {
			return "bad-op"
		}
		r := s.T.ReplaceWithMask(text, rune(m))
		s.Keep(r)
		s.Last = r
		return c05.Hex([]byte(r))
	case "replace":
		repl, ok := s.Arg(tk[2])
		if !ok {
			return "bad-op"
		}
		r := s.T.Replace(text, repl)
		s.Keep(r)
		s.Last = r
		return c05.Hex([]byte(r))
	}
	return "bad-op"
}

func impl(c core.Case) []string { return c05.RunSession(c, query) }

// ---- the property's own predicate: coverage bitmap by naive scanning

// expectMask: walk the text rune by rune as `range` does; a rune with a covered byte
// becomes the mask rune (an invalid mask is written as U+FFFD), others are copied.
func expectMask(ps *c05.PatSet, text []byte, mask rune) []byte {
	cov := ps.Covered(text)
	var exp []byte
	for i := 0; i < len(text); {
		_, n := utf8.DecodeRune(text[i:])
		hit := false
		for j := i; j < i+n; j++ {
			if cov[j] {
				hit = true
			}
		}
		if hit {
			exp = utf8.AppendRune(exp, mask)
		} else {
			exp = append(exp, text[i:i+n]...)
		}
		i += n
	}
	return exp
}

type region struct{ start, stop, occ int }

// split returns the uncovered segments U0..Un and the maximal covered regions R1..Rn
// between them, each with the number of (pattern, position) occurrences inside it.
func split(ps *c05.PatSet, text []byte) (segs [][]byte, regs []region) {
	cov := ps.Covered(text)
	var cur []byte
	for i := 0; i < len(text); {
		if !cov[i] {
			cur = append(cur, text[i])
			i++
			continue
		}
		j := i
		for j < len(text) && cov[j] {
			j++
		}
		segs = append(segs, cur)
		cur = nil
		regs = append(regs, region{start: i, stop: j})
		i = j
	}
	segs = append(segs, cur)
	for _, o := range ps.Occurrences(text) {
		for k := range regs {
			if regs[k].start <= o.Start && o.Stop <= regs[k].stop {
				regs[k].occ++
			}
		}
	}
	return
}

// replaceOK: out = U0·repl^k1·U1·…·repl^kn·Un with 1 ≤ kj ≤ occ(region j).
func replaceOK(segs [][]byte, regs []region, repl, out []byte) bool {
	type key struct{ pos, j int }
	memo := map[key]bool{}
	var parse func(pos, j int) bool
	parse = func(pos, j int) bool {
		k := key{pos, j}
		if v, ok := memo[k]; ok {
			return v
		}
		res := false
		if bytes.HasPrefix(out[pos:], segs[j]) {
			p := pos + len(segs[j])
			if j == len(regs) {
				res = p == len(out)
			} else {
				for n := 1; n <= regs[j].occ; n++ {
					if !bytes.HasPrefix(out[p:], repl) {
						break
					}
					p += len(repl)
					if parse(p, j+1) {
						res = true
						break
					}
					if len(repl) == 0 {
						break
					}
				}
			}
		}
		memo[k] = res
		return res
	}
	return parse(0, 0)
}

func showSegs(segs [][]byte, regs []region) string {
	s := ""
	for j, u := range segs {
		s += fmt.Sprintf("%q", u)
		if j < len(regs) {
			s += fmt.Sprintf(" <region [%d,%d) with %d occurrence(s)> ", regs[j].start, regs[j].stop, regs[j].occ)
		}
	}
	return s
}

// checkOp evaluates one call's output; key "" = holds.
func checkOp(ps *c05.PatSet, tk []string, out string) (string, string) {
	text, _ := c05.Unhex(tk[1])
	if out == "panic" {
		return "panic", fmt.Sprintf("%s on text %q with patterns %q panicked", tk[0], text, ps.P)
	}
	got, ok := c05.Unhex(out)
	if !ok {
		return "bad-output", "unparsable output " + out
	}
	if !ps.Valid {
		return "", "" // patterns that are not valid UTF-8: only totality is required
	}
	switch tk[0] {
	case "mask":
		m, err := strconv.ParseInt(tk[2], 10, 32)
		if err != nil {
			return "bad-output", "bad op line"
		}
		exp := expectMask(ps, text, rune(m))
		if !bytes.Equal(got, exp) {
			return "mask-exact", fmt.Sprintf("ReplaceWithMask(%q, %d) = %q, masking every rune that has a byte inside an occurrence of %q gives %q", text, m, got, ps.P, exp)
		}
		if utf8.RuneCount(got) != utf8.RuneCount(text) {
			return "mask-exact", fmt.Sprintf("ReplaceWithMask(%q, %d) = %q changes the rune count", text, m, got)
		}
	case "replace":
		repl, ok := c05.Unhex(tk[2])
		if !ok {
			return "bad-output", "bad op line"
		}
		segs, regs := split(ps, text)
		if !replaceOK(segs, regs, repl, got) {
			return "replace-exact", fmt.Sprintf("Replace(%q, %q) = %q with patterns %q; required shape: %s", text, repl, got, ps.P, showSegs(segs, regs))
		}
	default:
		return "bad-output", "unknown op " + tk[0]
	}
	return "", ""
}

func check(c core.Case, out []string) *core.Failure {
	if f := c05.Instability(c, out); f != nil {
		return f
	}
	c = c05.Resolved(c, out, true)
	phases, ok := c05.Phases(c)
	if !ok {
		return &core.Failure{Key: "bad-output", Desc: "bad header"}
	}
	all, ps := phases[0].All, phases[0].PS
	if out[0] != "ok" {
		key := "panic"
		if out[0] != "panic" {
			key = "bad-output"
		} else if ps.AnyInval {
			key = "fffd-conflation"
		}
		return &core.Failure{Key: key, Desc: fmt.Sprintf("Insert/BuildFailureLinks of %q answered %q", all, out[0])}
	}
	for i := 1; i < len(c.Lines); i++ {
		if out[i] == "dead" {
			continue
		}
		if strings.HasPrefix(out[i], c05.CycleWord) {
			return &core.Failure{Key: "fail-cycle", Desc: fmt.Sprintf("after BuildFailureLinks of %q the fail chain of node %q never reaches the root (cycle): find does not terminate on a text reaching it; op %d %q was not run", all, strings.TrimPrefix(out[i], c05.CycleWord), i, c.Lines[i])}
		}
		tk := core.Toks(c.Lines[i])
		ph := phases[i]
		if ph.Mut {
			if out[i] != "ok" {
				key := "panic"
				if out[i] != "panic" {
					key = "bad-output"
				}
				return &core.Failure{Key: key, Desc: fmt.Sprintf("op %d %q (round %d, patterns so far %q) answered %q", i, c.Lines[i], ph.Round, ph.All, out[i])}
			}
			continue
		}
		if len(tk) == 3 && tk[0] == "sibling" {
			pat, ok1 := c05.Unhex(tk[1])
			text, ok2 := c05.Unhex(tk[2])
			if !ok1 || !ok2 {
				return &core.Failure{Key: "bad-output", Desc: "bad op line " + c.Lines[i]}
			}
			if key, desc := checkOp(c05.NewPatSet([][]byte{pat}), []string{"replace", tk[2], "23"}, out[i]); key != "" {
				return &core.Failure{Key: key, Desc: fmt.Sprintf("op %d %q (an independent second trie built from a copy of the zero value): %s", i, c.Lines[i], desc)}
			}
			_ = text
			continue
		}
		if ph.Dirty {
			continue // patterns inserted since the last build: outside the property
		}
		all, ps = ph.All, ph.PS
		if len(tk) == 1 && tk[0] == "dumpc" {
			// compact dump of a big trie: compared with the pointer model; the independent
			// part is only that the walk met no shared node and no stray fail pointer
			if strings.Contains(out[i], "!shared") || strings.Contains(out[i], ";?") {
				return &core.Failure{Key: "dump-structure", Desc: fmt.Sprintf("op %d dumpc: the pointer structure has a shared node or a fail pointer to no node of the trie", i)}
			}
			continue
		}
		if len(tk) == 1 && tk[0] == "dump" {
			if key, desc := c05.CheckDump(all, out[i]); key != "" {
				return &core.Failure{Key: key, Desc: fmt.Sprintf("op %d %q: %s", i, c.Lines[i], desc)}
			}
			continue
		}
		if len(tk) != 3 {
			return &core.Failure{Key: "bad-output", Desc: "bad op line " + c.Lines[i]}
		}
		text, ok := c05.Unhex(tk[1])
		if !ok {
			return &core.Failure{Key: "bad-output", Desc: "bad op line " + c.Lines[i]}
		}
		if key, desc := checkOp(ps, tk, out[i]); key != "" {
			if ps.Conflation(text) && key != "bad-output" {
				desc = "[" + key + " where an invalid byte and U+FFFD can be conflated] " + desc
				key = "fffd-conflation"
			}
			return &core.Failure{Key: key, Desc: fmt.Sprintf("op %d %q: %s", i, c.Lines[i], desc)}
		}
	}
	return nil
}

// ---- non-triviality and distribution labels

func nonTrivial(c core.Case, out []string) bool {
	c = c05.Resolved(c, out, true)
	all, ok := c05.HeaderPatterns(c.Lines[0])
	if !ok {
		return false
	}
	ps := c05.NewPatSet(all)
	phases, ok := c05.Phases(c)
	if !ok {
		return false
	}
	for i := 1; i < len(c.Lines); i++ {
		tk := core.Toks(c.Lines[i])
		if len(tk) != 3 || phases[i].Mut || phases[i].Dirty {
			continue
		}
		ps = phases[i].PS
		text, _ := c05.Unhex(tk[1])
		if c05.Shape(ps.Occurrences(text)).Inter {
			return true
		}
	}
	return false
}

func classify(c core.Case, out []string) []string {
	raw := c
	c = c05.Resolved(c, out, true)
	all, ok := c05.HeaderPatterns(c.Lines[0])
	if !ok {
		return nil
	}
	ps := c05.NewPatSet(all)
	var ls []string
	if ps.AnyFFFD {
		ls = append(ls, "pattern:fffd")
	}
	if ps.AnyInval {
		ls = append(ls, "pattern:invalid-byte")
	}
	if len(ps.P) < len(all) {
		ls = append(ls, "pattern:duplicate-or-empty")
	}
	if g, w, _, _ := c05.QueueGrowthSmall(all); g > 0 {
		ls = append(ls, "queue:grew")
		if w >= 2 {
			ls = append(ls, "queue:grew-wrapped-twice")
		}
		if w > 0 {
			ls = append(ls, "queue:grew-wrapped")
		}
	}
	if out[0] == "panic" {
		ls = append(ls, "panic")
	}
	phases, ok := c05.Phases(c)
	if !ok {
		return ls
	}
	if last := phases[len(phases)-1]; last.Round > 0 {
		ls = append(ls, fmt.Sprintf("history:builds=%d", last.Round+1))
		if last.NewInsideOld {
			ls = append(ls, "history:new-pattern-inside-old-node")
		}
	}
	for _, l := range c.Lines[1:] {
		if l == "dumpc" {
			ls = append(ls, "big:pointer-model-only+dumpc")
		}
	}
	for i := 1; i < len(c.Lines); i++ {
		tk := core.Toks(c.Lines[i])
		if strings.Contains(raw.Lines[i], " ^") {
			ls = append(ls, "feedback:result-as-next-argument")
		}
		if len(tk) == 3 && tk[0] == "sibling" {
			ls = append(ls, "sibling:second-trie")
			continue
		}
		if !phases[i].Mut && phases[i].Dirty {
			ls = append(ls, "history:call-before-rebuild")
			if out[i] == "panic" {
				ls = append(ls, "history:call-before-rebuild-panicked-recovered")
			}
		}
		if phases[i].Mut || phases[i].Dirty {
			continue
		}
		ps = phases[i].PS
		if len(tk) == 3 && len(out[i]) >= 2048 && out[i] != "dead" {
			ls = append(ls, "result>=1KB")
		}
		if len(tk) == 3 && len(out[i]) >= 131072 {
			ls = append(ls, "result>=64KB")
		}
		if phases[i].Round > 0 && out[i] != "dead" {
			ls = append(ls, "history:op-after-rebuild")
		}
		if len(tk) == 1 && tk[0] == "dump" {
			ls = append(ls, "dump")
			continue
		}
		if len(tk) != 3 || out[i] == "dead" {
			continue
		}
		if out[i] == "panic" {
			ls = append(ls, "panic")
		}
		text, _ := c05.Unhex(tk[1])
		if c05.HasInvalidByte(text) {
			ls = append(ls, "text:invalid-utf8")
		}
		if ps.Conflation(text) {
			ls = append(ls, "conflation-possible")
		}
		sh := c05.Shape(ps.Occurrences(text))
		switch {
		case sh.N == 0:
			ls = append(ls, "merge:no-occurrence")
		case sh.N == 1:
			ls = append(ls, "merge:single")
		case !sh.Inter && !sh.Touching:
			ls = append(ls, "merge:disjoint")
		}
		if sh.Overlap {
			ls = append(ls, "merge:overlap")
		}
		if sh.Nested {
			ls = append(ls, "merge:nested")
		}
		if sh.Touching {
			ls = append(ls, "merge:touching")
		}
		if sh.StepBack {
			ls = append(ls, "merge:stepback-needed")
		}
		if sh.MergedRegions >= 2 {
			ls = append(ls, "merge:several-regions")
		}
		switch tk[0] {
		case "mask":
			m, _ := strconv.ParseInt(tk[2], 10, 32)
			switch {
			case !utf8.ValidRune(rune(m)):
				ls = append(ls, "mask:invalid-rune")
			case m >= 0x80:
				ls = append(ls, "mask:multibyte")
			default:
				ls = append(ls, "mask:ascii")
			}
			if sh.N > 0 && len(text) != utf8.RuneCount(text) {
				ls = append(ls, "mask:over-multibyte-text")
			}
		case "replace":
			if tk[2] == "-" {
				ls = append(ls, "replace:empty-repl")
			} else {
				ls = append(ls, "replace:repl")
			}
			if sh.MaxOccInRegion >= 2 {
				ls = append(ls, "replace:region-with-several-occurrences")
			}
		}
	}
	return ls
}

// ---- extra: exhaustive small scope over {a,b}, implementation vs the naive oracle

func exhaustive(ctx *core.Ctx) (int, string, []core.ExtraFailure) {
	// the F4 situation needs a pattern of length ≥ 3 over two disjoint shorter ones, so
	// the quick scope already takes ≤3 patterns of length ≤3 (texts ≤ 6)
	maxPats, maxLen, maxText := 3, 3, 5
	if ctx.Tier == "thorough" || ctx.Escalate > 1 {
		maxPats, maxLen, maxText = 3, 3, 8
	}
	pats := c05.ABStrings(1, maxLen)
	texts := c05.ABStrings(0, maxText)
	ops := [][2]string{{"replace", "-"}, {"replace", c05.Hex([]byte("#"))}, {"replace", c05.Hex([]byte("a"))}, {"mask", "42"}, {"mask", "233"}}
	evals, sets := 0, 0
	var fails []core.ExtraFailure
	seen := map[string]bool{}
	c05.Subsets(pats, maxPats, func(set [][]byte) {
		sets++
		hdr := c05.Header("C06", set)
		var t algz.Trie
		if o := core.Guard(func() string { return c05.RunTrie(&t, core.Toks(hdr)[2:]) }); o != "ok" {
			if !seen["panic"] {
				seen["panic"] = true
				fails = append(fails, core.ExtraFailure{Failure: core.Failure{Key: "panic", Desc: "building the trie answered " + o}, Payload: []string{hdr}})
			}
			return
		}
		ps := c05.NewPatSet(set)
		if cyc := c05.FailCycle(&t); cyc != "" {
			if !seen["fail-cycle"] {
				seen["fail-cycle"] = true
				fails = append(fails, core.ExtraFailure{Failure: core.Failure{Key: "fail-cycle", Desc: "the fail chain of node " + cyc + " never reaches the root"}, Payload: []string{hdr}})
			}
			return
		}
		for _, text := range texts {
			for _, op := range ops {
				evals++
				tk := []string{op[0], c05.Hex(text), op[1]}
				o := core.Guard(func() string { return stepOp(&t, tk) })
				if key, desc := checkOp(ps, tk, o); key != "" && !seen[key] {
					seen[key] = true
					fails = append(fails, core.ExtraFailure{Failure: core.Failure{Key: key, Desc: desc}, Payload: []string{hdr, tk[0] + " " + tk[1] + " " + tk[2]}})
				}
			}
		}
	})
	note := fmt.Sprintf("all sets of ≤%d patterns of length 1–%d over {a,b} (%d sets) × all texts of length ≤%d (%d) × {Replace \"\", \"#\", \"a\"; ReplaceWithMask '*', 'é'} against the coverage-bitmap oracle; %d evaluations, %d failure kinds", maxPats, maxLen, sets, maxText, len(texts), evals, len(fails))
	return evals, note, fails
}
