package c06

// Generators for C06: the C05 pattern / text streams, with the main stream biased
// to the shapes mergeScopes has to get right: a long occurrence that ends late and
// starts before several earlier, mutually disjoint occurrences (F4), touching
// occurrences, nested ones, chains of overlaps, duplicates.

import (
	"fmt"
	"strings"

	"verifharness/internal/core"
	"verifharness/props/c05"
)

var masks = []int32{'*', 'é', '你', 0xFFFD, -1, 0xD800, '😀',
	// magnitudes: width boundaries of EncodeRune, the surrogate range, the top of Unicode, int32 extremes
	0, 0x7F, 0x80, 0x7FF, 0x800, 0xD7FF, 0xDFFF, 0xE000, 0xFFFF, 0x10000, 0x10FFFF, 0x110000, 2147483647, -2147483648}

func shuffle(r *core.Rand, xs []c05.Seq) {
	for i := len(xs) - 1; i > 0; i-- {
		j := r.Intn(i + 1)
		xs[i], xs[j] = xs[j], xs[i]
	}
}

func cat(parts ...c05.Seq) c05.Seq {
	var out c05.Seq
	for _, p := range parts {
		out = append(out, p...)
	}
	return out
}

// shaped returns a pattern set and "focus" texts built for one merge shape.
func shaped(r *core.Rand, u c05.Unit) (pats []c05.Seq, focus []c05.Seq, tag string) {
	switch r.Pick(50, 12, 10, 12, 16) {
	case 0:
		// late long occurrence: L = u0 x1 u1 x2 … xk uk over k disjoint short patterns
		k := r.Range(2, 4)
		var xs []c05.Seq
		var L c05.Seq
		if !r.Chance(65) {
			L = append(L, c05.RandSeq(r, u, 1, 2)...) // u0 often empty
		}
		for i := 0; i < k; i++ {
			x := c05.RandSeq(r, u, 1, 2)
			xs = append(xs, x)
			L = append(L, x...)
			if i < k-1 {
				L = append(L, c05.RandSeq(r, u, 0, 2)...)
			} else if r.Chance(70) {
				L = append(L, c05.RandSeq(r, u, 1, 2)...) // uk: L ends after the last x
			}
		}
		pats = append(pats, xs...)
		pats = append(pats, L)
		switch r.Intn(4) {
		case 0: // a second long pattern that reaches even further back / forward
			pats = append(pats, cat(c05.RandSeq(r, u, 0, 1), L, c05.RandSeq(r, u, 0, 1)))
		case 1: // a pattern overlapping L's tail
			pats = append(pats, cat(L[len(L)/2:], c05.RandSeq(r, u, 1, 2)))
		case 2:
			pats = append(pats, c05.RandSeq(r, u, 1, 3))
		}
		if r.Chance(15) {
			pats = append(pats, pats[r.Intn(len(pats))].Clone()) // duplicate
		}
		shuffle(r, pats)
		focus = append(focus, L, cat(c05.RandSeq(r, u, 0, 2), L, c05.RandSeq(r, u, 0, 2)), cat(xs[0], L, xs[len(xs)-1]), cat(L, L))
		return pats, focus, "main"
	case 1:
		// touching: p·q (ab, cd in abcd)
		p, q := c05.RandSeq(r, u, 1, 3), c05.RandSeq(r, u, 1, 3)
		pats = []c05.Seq{p, q}
		if r.Bool() {
			pats = append(pats, c05.RandSeq(r, u, 1, 2))
		}
		focus = append(focus, cat(p, q), cat(q, p, q), cat(p, p, c05.RandSeq(r, u, 0, 1), q))
		return pats, focus, "main"
	case 2:
		// nested: p = a·x·b with x (and sometimes a prefix / suffix of p) also a pattern
		x := c05.RandSeq(r, u, 1, 2)
		p := cat(c05.RandSeq(r, u, 0, 2), x, c05.RandSeq(r, u, 0, 2))
		pats = []c05.Seq{p, x}
		if r.Bool() {
			pats = append(pats, p[:r.Range(1, len(p))].Clone())
		}
		if r.Bool() {
			pats = append(pats, p[r.Intn(len(p)):].Clone())
		}
		shuffle(r, pats)
		focus = append(focus, p, cat(c05.RandSeq(r, u, 0, 2), p, x), cat(x, p, c05.RandSeq(r, u, 0, 2)))
		return pats, focus, "main"
	case 3:
		// chain of overlaps: ab, bc, cd in abcd
		n := r.Range(3, 7)
		s := c05.RandSeq(r, u, n, n)
		w := r.Range(2, 3)
		for i := 0; i+w <= n; i += r.Range(1, w-1+0) {
			pats = append(pats, s[i:i+w].Clone())
			if r.Chance(25) {
				i++ // a gap: the chain breaks into two regions
			}
		}
		shuffle(r, pats)
		focus = append(focus, s, cat(s, s), cat(c05.RandSeq(r, u, 0, 2), s, c05.RandSeq(r, u, 0, 2)))
		return pats, focus, "main"
	default:
		pats = c05.GenPatterns(r, u, r.Range(1, 6), 5)
		return pats, nil, "main"
	}
}

func genOp(r *core.Rand, u c05.Unit, pats, focus []c05.Seq) string {
	var text c05.Seq
	if len(focus) > 0 && r.Chance(65) {
		text = focus[r.Intn(len(focus))]
		if r.Chance(25) {
			text = cat(text, c05.GenText(r, u, pats, 4))
		}
	} else {
		text = c05.GenText(r, u, pats, 12)
	}
	tb := text.Bytes()
	th := c05.Hex(tb)
	if r.Chance(8) {
		th = "^" // the previous result is the next text (chained calls)
	}
	if r.Chance(3) {
		p := c05.RandSeq(r, u, 1, 3)
		return "sibling " + c05.Hex(p.Bytes()) + " " + c05.Hex(cat(c05.RandSeq(r, u, 0, 2), p, text[:min(len(text), 4)], p).Bytes())
	}
	if r.Bool() {
		return fmt.Sprintf("mask %s %d", th, masks[r.Intn(len(masks))])
	}
	var repl []byte
	switch r.Pick(20, 25, 15, 15, 15, 10) {
	case 0:
	case 1:
		repl = []byte("#")
	case 2:
		repl = []byte("<>")
	case 3:
		repl = []byte("é")
	case 4:
		if ne := c05.NonEmpty(pats); len(ne) > 0 {
			repl = ne[r.Intn(len(ne))].Bytes()
		}
	default:
		if len(text) > 0 {
			repl = []byte(text[r.Intn(len(text))])
		}
	}
	if th != "^" && r.Chance(3) {
		return fmt.Sprintf("replace %s ^", th) // the previous result as the replacement
	}
	return fmt.Sprintf("replace %s %s", th, c05.Hex(repl))
}

// genHistory: Insert…, Build, calls, then 1–3 more rounds of Insert…, Build, dump, calls
// on the same trie; the later patterns lie inside earlier ones (old nodes need new
// failure links) and the texts are the earlier patterns that contain them.
func genHistory(r *core.Rand, tier string) core.Case {
	pats, u, later := c05.HistoryBase(r)
	var focus []c05.Seq
	if r.Chance(45) {
		u = c05.MainUnit
		pats, focus, _ = shaped(r, u)
		later = nil
		if len(pats) > 2 && r.Bool() { // the short patterns arrive after the long one was built
			k := r.Range(1, len(pats)-1)
			pats, later = pats[:k], pats[k:]
		}
	}
	lines := []string{c05.Header("C06", c05.SeqsBytes(pats))}
	if r.Chance(6) {
		lines[0] = strings.Replace(lines[0], " trie", " raw", 1) // inserted, not built
		for n := r.Range(1, 2); n > 0; n-- {
			lines = append(lines, genOp(r, u, pats, focus))
		}
		lines = append(lines, "build")
	}
	for n := r.Range(0, 2); n > 0; n-- {
		lines = append(lines, genOp(r, u, pats, focus))
	}
	rounds := r.Range(1, 2)
	if tier == "thorough" && r.Chance(30) {
		rounds = 3
	}
	for k := 0; k < rounds; k++ {
		newp, f2 := c05.NextRound(r, u, pats)
		if len(later) > 0 && (k == rounds-1 || r.Bool()) {
			newp, later = append(newp, later...), nil
		}
		for _, p := range newp {
			lines = append(lines, "insert "+c05.Hex(p.Bytes()))
		}
		if len(newp) > 0 && r.Chance(25) {
			// calls before the rebuild: not judged; a panic is recovered
			all := append(append([]c05.Seq{}, pats...), newp...)
			for n := r.Range(1, 2); n > 0; n-- {
				lines = append(lines, genOp(r, u, all, f2))
			}
		}
		lines = append(lines, "build")
		pats = append(pats, newp...)
		if r.Chance(50) && c05.DumpAvailable() {
			lines = append(lines, "dump")
		}
		fs := append(append([]c05.Seq{}, f2...), focus...)
		for n := r.Range(2, 4); n > 0; n-- {
			lines = append(lines, genOp(r, u, pats, fs))
		}
	}
	return core.Case{Lines: lines, Tag: "history"}
}

// genLarge: the C05 large / magnitude shapes (wide nodes, long patterns, long texts, many
// patterns) under Replace / ReplaceWithMask.
func genLarge(r *core.Rand, tier string) core.Case {
	pats, u, texts, _, shape := c05.GenLarge(r, tier)
	lines := []string{c05.Header("C06", c05.SeqsBytes(pats))}
	if shape == "big-nested" && c05.DumpAvailable() {
		lines = append(lines, "dumpc")
	}
	for n := r.Range(2, 3); n > 0; n-- {
		lines = append(lines, genOp(r, u, pats, texts))
	}
	return core.Case{Lines: lines, Tag: "large"}
}

func gen(r *core.Rand, tier string) core.Case {
	if r.Intn(1000) < c05.LargeShare(tier) {
		return genLarge(r, tier)
	}
	if r.Chance(9) {
		return genHistory(r, tier)
	}
	var pats, focus []c05.Seq
	var u c05.Unit
	var tag string
	if c05.Stream(r) == 0 {
		u = c05.MainUnit
		pats, focus, tag = shaped(r, u)
	} else {
		for {
			pats, u, tag = c05.GenTrie(r)
			if tag != "main" {
				break
			}
		}
		if tag == "malformed" && r.Chance(40) {
			// the merge shapes over byte garbage
			pats, focus, _ = shaped(r, u)
		}
	}
	lines := []string{c05.Header("C06", c05.SeqsBytes(pats))}
	for n := r.Range(3, 8); n > 0; n-- {
		lines = append(lines, genOp(r, u, pats, focus))
	}
	return core.Case{Lines: lines, Tag: tag}
}

func mk(pats []string, ops ...string) core.Case {
	bs := make([][]byte, len(pats))
	for i, p := range pats {
		bs[i] = []byte(p)
	}
	lines := []string{c05.Header("C06", bs)}
	for _, o := range ops {
		t := strings.SplitN(o, "|", 3) // op|text|arg
		if t[0] == "mask" {
			lines = append(lines, fmt.Sprintf("mask %s %s", c05.Hex([]byte(t[1])), t[2]))
		} else {
			lines = append(lines, fmt.Sprintf("replace %s %s", c05.Hex([]byte(t[1])), c05.Hex([]byte(t[2]))))
		}
	}
	return core.Case{Lines: lines}
}

func corpus() []core.Case {
	big := c05.BigCorpus("C06", func(text []byte) []string {
		return []string{"mask " + c05.Hex(text) + " 42", "replace " + c05.Hex(text) + " " + c05.Hex([]byte("#")), "replace ^ -"}
	})
	return append(append([]core.Case{big}, c05.HistoryCorpus("C06", "mask abce 42", "replace xabcdushers #", "mask a你b\xffb 233", "replace a\xffb <>")...), []core.Case{
		// F4: a, c, abcde on abcde: scopes [0,1) [2,3) [0,5)
		mk([]string{"a", "c", "abcde"}, "replace|abcde|*"),
		mk([]string{"a", "c", "abcde"}, "mask|abcde|42"),
		mk([]string{"a", "c", "e", "abcdefg"}, "replace|xabcdefgx|#", "mask|abcdefgabcdefg|233", "replace|abcdefg|"),
		mk([]string{"你", "😀", "你é😀a"}, "replace|你é😀a|<>", "mask|b你é😀ab|20320"),
		// touching, nested, chains, duplicates
		mk([]string{"ab", "cd"}, "replace|abcd|#", "mask|abcd|42", "replace|xabcdx|", "replace|cdab|ab"),
		mk([]string{"abcd", "bc", "b", "abcd"}, "replace|abcd|#", "mask|xabcdx|-1", "replace|bcabcdb|é"),
		mk([]string{"ab", "bc", "cd"}, "replace|abcd|#", "mask|abcd|42", "replace|abcdabxcd|a"),
		mk([]string{"he", "she", "his", "hers"}, "replace|ushers|*", "mask|ushers hishe|42"),
		// multi-byte mask over multi-byte text; invalid masks
		mk([]string{"你好", "好é"}, "mask|a你好éb|128512", "mask|你好é|233", "mask|你好|55296", "mask|你好|-1", "mask|你好|65533", "replace|你好é你|é"),
		// empty pattern / text / no pattern
		mk([]string{""}, "replace|abc|#", "mask|abc|42"),
		mk(nil, "replace||#", "mask||42"),
		mk([]string{"a"}, "replace||#", "mask||42", "replace|aaa|", "replace|aaa|a", "mask|aaa|97"),
		// invalid UTF-8 text with valid patterns; F11 shapes
		mk([]string{"a", "你"}, "mask|\xffa\xe4\xbd你\xe4|42", "replace|\xffa\xe4\xbd你\xe4|#"),
		mk([]string{"\xef\xbf\xbd"}, "replace|\xff|#"),
		mk([]string{"\xef\xbf\xbd"}, "mask|\xff|42"),
		mk([]string{"\xff", "a\xffb"}, "replace|\xef\xbf\xbd|#", "mask|a\xffb\xff|42", "replace|xa\xffb|"),
	}...)
}
