package c06

// Facts extractor of C06: regenerates lean/Golib/Gen/FactsC06.lean from algz/trie.go on
// every run: the re-assembly loops of Replace / ReplaceWithMask, and — because both sit on `find` —
// the decoder and the automaton loop of `find` (shared with the C05 extractor).
// (mergeScopes itself is translated by go2lean and tied by c06_trans_mergeScopes since wave 9: no text facts.)
// Golib/Proof/C06Facts.lean compares each with the literal the model
// (Golib/Model/C06Replace.lean) mirrors.

import (
	"go/ast"

	"verifharness/props/c05"
)

func facts(repo string) (string, error) {
	return c05.Extract("C06", repo, func(x c05.X) {
		emitReplace(x, "*Trie.Replace", "repl")
		emitReplace(x, "*Trie.ReplaceWithMask", "mask")
		c05.EmitDecodeFacts(x)
		c05.EmitFindFacts(x)
	})
}

func emitReplace(x c05.X, fn, sfx string) {
	s, w := x.S, x.W
	b := x.Body(fn)
	list := c05.RenderList(s, b.List)
	// t.find(text, &scopes) immediately followed by t.mergeScopes(&scopes)
	k := -1
	for i, st := range list {
		if st == "t.find(text, &scopes)" {
			if k >= 0 {
				x.Fail("%s: find called twice", fn)
			}
			k = i
		}
	}
	if k < 0 {
		x.Fail("%s: call of t.find(text, &scopes) not found at top level", fn)
	}
	w.Strs("head_"+sfx, fn+": statements up to the merge (declare, find, THEN mergeScopes)", list[:min(k+2, len(list))])
	calls := x.Find(fn, "call of mergeScopes", 1, func(n ast.Node) bool { return c05.IsMethodCall(n, "mergeScopes") })
	_ = calls
	var loop *ast.RangeStmt
	li := -1
	for i, st := range b.List {
		if r, ok := st.(*ast.RangeStmt); ok {
			if loop != nil {
				x.Fail("%s: two top-level range loops", fn)
			}
			loop, li = r, i
		}
	}
	if loop == nil {
		x.Fail("%s: range loop over the scopes not found", fn)
	}
	w.Str("begin_"+sfx, fn+": the declaration right before the loop", list[li-1])
	w.Str("range_"+sfx, fn+": the loop header `key, value := range X`", s.Render(loop.Key)+", "+s.Render(loop.Value)+" := range "+s.Render(loop.X))
	w.Strs("body_"+sfx, fn+": the loop body (copy text[begin:start], write the replacement, begin = stop)", x.Stmts(loop.Body))
	w.Strs("tail_"+sfx, fn+": the statements after the loop", list[li+1:])
}
