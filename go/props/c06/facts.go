package c06

// Facts extractor of C06: regenerates lean/Golib/Gen/FactsC06.lean from algz/trie.go on
// every run: the statements of mergeScopes (with the F4 repair: step back after a merge),
// the re-assembly loops of Replace / ReplaceWithMask, and — because both sit on `find` —
// the decoder and the automaton loop of `find` (shared with the C05 extractor).
// Golib/Proof/C06Facts.lean compares each with the literal the model
// (Golib/Model/C06Replace.lean) mirrors.

import (
	"go/ast"

	"verifharness/props/c05"
)

func facts(repo string) (string, error) {
	return c05.Extract("C06", repo, func(x c05.X) {
		emitMerge(x)
		emitReplace(x, "*Trie.Replace", "repl")
		emitReplace(x, "*Trie.ReplaceWithMask", "mask")
		c05.EmitDecodeFacts(x)
		c05.EmitFindFacts(x)
	})
}

func emitMerge(x c05.X) {
	s, w := x.S, x.W
	fn := "*Trie.mergeScopes"
	b := x.Body(fn)
	if len(b.List) != 3 {
		x.Fail("%s: %d top-level statements, expected 3", fn, len(b.List))
	}
	loop := x.OnlyFor(fn, b)
	w.Str("mergePrologue", "mergeScopes: first statement", s.Render(b.List[0]))
	w.Str("mergeEpilogue", "mergeScopes: last statement", s.Render(b.List[2]))
	w.Str("mergeLoop", "mergeScopes: loop header `init; cond; post` (no post: i moves in the body)", x.ForHeader(loop))
	if len(loop.Body.List) != 1 {
		x.Fail("%s: loop body has %d statements, expected 1", fn, len(loop.Body.List))
	}
	ifs, ok := loop.Body.List[0].(*ast.IfStmt)
	if !ok {
		x.Fail("%s: loop body is not an if statement", fn)
	}
	c, _, e := x.IfParts(ifs)
	w.Str("mergeOverlapCond", "mergeScopes: the overlap test (strict)", c)
	w.Strs("mergeElse", "mergeScopes: the no-overlap branch", e)
	then := ifs.Body.List
	if len(then) < 3 {
		x.Fail("%s: overlap branch has %d statements, expected at least 3", fn, len(then))
	}
	c1, t1, e1 := x.IfParts(then[0])
	c2, t2, e2 := x.IfParts(then[1])
	if e1 != nil || e2 != nil {
		x.Fail("%s: hull updates with else branches", fn)
	}
	w.Str("hullStopCond", "mergeScopes: condition of the first hull update", c1)
	w.Strs("hullStopThen", "mergeScopes: the first hull update", t1)
	w.Str("hullStartCond", "mergeScopes: condition of the second hull update", c2)
	w.Strs("hullStartThen", "mergeScopes: the second hull update", t2)
	w.Str("mergeDelete", "mergeScopes: the deletion of scopes[i+1]", s.Render(then[2]))
	w.Strs("mergeAfterDelete", "mergeScopes: the statements after the deletion inside the overlap branch (F4: step back)", c05.RenderList(s, then[3:]))
	stepBack := len(then) == 4 && s.Render(then[3]) == "if i > 0 { i-- }"
	w.Bool("stepBack", "mergeScopes: the statement right after the deletion is `if i > 0 { i-- }` and nothing follows it (model: `mergeLoop true`)", stepBack)
}

func emitReplace(x c05.X, fn, sfx string) {
	s, w := x.S, x.W
	b := x.Body(fn)
	list := c05.RenderList(s, b.List)
	// t.find(text, &scopes) immediately followed by t.mergeScopes(&scopes)
	k := -1
	for i, st := range list {
		if st == "t.find(text, &scopes)" {
			if k >= 0 {
				x.Fail("%s: find called twice", fn)
			}
			k = i
		}
	}
	if k < 0 {
		x.Fail("%s: call of t.find(text, &scopes) not found at top level", fn)
	}
	w.Strs("head_"+sfx, fn+": statements up to the merge (declare, find, THEN mergeScopes)", list[:min(k+2, len(list))])
	calls := x.Find(fn, "call of mergeScopes", 1, func(n ast.Node) bool { return c05.IsMethodCall(n, "mergeScopes") })
	_ = calls
	var loop *ast.RangeStmt
	li := -1
	for i, st := range b.List {
		if r, ok := st.(*ast.RangeStmt); ok {
			if loop != nil {
				x.Fail("%s: two top-level range loops", fn)
			}
			loop, li = r, i
		}
	}
	if loop == nil {
		x.Fail("%s: range loop over the scopes not found", fn)
	}
	w.Str("begin_"+sfx, fn+": the declaration right before the loop", list[li-1])
	w.Str("range_"+sfx, fn+": the loop header `key, value := range X`", s.Render(loop.Key)+", "+s.Render(loop.Value)+" := range "+s.Render(loop.X))
	w.Strs("body_"+sfx, fn+": the loop body (copy text[begin:start], write the replacement, begin = stop)", x.Stmts(loop.Body))
	w.Strs("tail_"+sfx, fn+": the statements after the loop", list[li+1:])
}
