package c16

// onescount (wave 7): the one stdlib function the C16 model takes on trust — the model's `popcount`
// is "number of set bit positions" — is compared with math/bits.OnesCount64 on structured words
// (single bits, runs, complements, byte patterns) and random ones.

import (
	"fmt"
	"math/bits"

	"verifharness/internal/core"
)

func naiveCount(w uint64) int {
	n := 0
	for j := 0; j < 64; j++ {
		if w&(1<<uint(j)) != 0 {
			n++
		}
	}
	return n
}

func extraOnesCount(ctx *core.Ctx) (int, string, []core.ExtraFailure) {
	var ws []uint64
	for i := 0; i < 64; i++ {
		one := uint64(1) << uint(i)
		ws = append(ws, one, ^one, one-1, ^(one - 1), one|1, one|1<<63)
		for j := i; j < 64; j += 7 {
			ws = append(ws, one|uint64(1)<<uint(j), (uint64(1)<<uint(j)-1)&^(one-1))
		}
	}
	for _, b := range []uint64{0x00, 0xff, 0x55, 0xaa, 0x0f, 0xf0, 0x80, 0x01} {
		ws = append(ws, b*0x0101010101010101)
	}
	n := 20000
	if ctx.Tier == "thorough" {
		n = 2000000
	}
	for i := 0; i < n; i++ {
		ws = append(ws, ctx.Rand.Uint64())
	}
	for _, w := range ws {
		if bits.OnesCount64(w) != naiveCount(w) {
			return len(ws), "", []core.ExtraFailure{{Failure: core.Failure{Key: "onescount", Desc: fmt.Sprintf("bits.OnesCount64(%#x) = %d, the word has %d set bits", w, bits.OnesCount64(w), naiveCount(w))}, Payload: map[string]any{"word": w}}}
		}
	}
	return len(ws), fmt.Sprintf("%d words: math/bits.OnesCount64 = number of set bit positions (the model's popcount)", len(ws)), nil
}
