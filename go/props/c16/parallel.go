package c16

// parallel-objects (wave 6, class 10): independent cases — each with its own registers, i.e. its
// own Bits / Bitmap / dsz.Bits objects — run on separate goroutines at the same time; every output
// must equal the output of the same case run alone (package-level scratch state shared between
// objects would show). Concurrent use of ONE object is outside the (sequential) property.

import (
	"fmt"
	"slices"
	"sync"

	"verifharness/internal/core"
)

func extraParallel(ctx *core.Ctx) (int, string, []core.ExtraFailure) {
	r := ctx.Rand
	n := 64
	if ctx.Tier == "thorough" || ctx.Escalate > 1 {
		n = 512
	}
	cases := make([]core.Case, n)
	for i := range cases {
		cases[i] = gen(r, "quick")
	}
	alone := make([][]string, n)
	for i, c := range cases {
		alone[i] = impl(c)
	}
	rounds, evals := 4, 0
	var fails []core.ExtraFailure
	for round := 0; round < rounds && len(fails) == 0; round++ {
		together := make([][]string, n)
		var wg sync.WaitGroup
		start := make(chan struct{})
		for i := range cases {
			wg.Add(1)
			go func(i int) {
				defer wg.Done()
				<-start
				together[i] = impl(cases[i])
			}(i)
		}
		close(start)
		wg.Wait()
		for i := range cases {
			evals++
			if !slices.Equal(alone[i], together[i]) {
				fails = append(fails, core.ExtraFailure{
					Failure: core.Failure{Key: "objects-not-independent", Desc: fmt.Sprintf("case %d gives different answers when %d other independent cases (own registers, one goroutine each) run at the same time", i, n-1)},
					Payload: map[string]any{"lines": cases[i].Lines, "alone": alone[i], "in_parallel": together[i]},
				})
				break
			}
		}
	}
	return evals, fmt.Sprintf("%d independent cases (up to 4 registers each), %d rounds, one goroutine per case, each output equal to the case run alone", n, rounds), fails
}
