// Package c16: setz.Bits / setz.Bitmap / dsz.Bits are sets of unsigned integers
// (setz/bits.go, setz/iter.go, dsz/bits.go).
package c16

import (
	"fmt"
	"reflect"
	"sort"
	"strconv"
	"strings"

	"github.com/welllog/golib/dsz"
	"github.com/welllog/golib/setz"

	"verifharness/internal/core"
)

func init() {
	core.Register(&core.Prop{
		ID:         "C16",
		Title:      "Bits / Bitmap / dsz.Bits behave as sets of unsigned integers, incl. bulk operations",
		Quick:      20000,
		Thorough:   560000,
		Gen:        gen,
		Corpus:     corpus,
		Impl:       impl,
		Check:      check,
		NonTrivial: nonTrivial,
		Rule: "op sequences on up to 4 registers (setz.Bits, setz.Bitmap, dsz.Bits) over values 0..260 (+boundaries 63/64/65/127/128…, rare huge values for Contains/Remove): add/remove/contains/grow/len/cap/clone, diff/intersect/merge between registers of any two word lengths (incl. self), resumable iterators interleaved with mutations, Range/All with early stop, `layout` (word counts and overlapping backing arrays of the private word slices, read by reflection, compared with the one-memory model); " +
			"stream `large` (≈ 0.7 % of the cases): registers of 7…65 words (multiples of 8 and ±1; up to 1096 words = values up to 70000 in a smaller share) filled completely / all but one / with ~1000 strided elements / only in the last block by the bulk element ops addn/removen, then Diff/Intersect/Merge between them with Len/blen/Cap before and after, iterators, Range/All with early stop, Contains at the edges, Clone + layout; String() of all three types; `reseq`: one All() value ranged with an early stop, Add(n), the same value ranged again; " +
			"non-trivial = at least one bulk operation, or an enumeration (iterator / Range / All) that crosses a word boundary, in a sequence of ≥ 6 ops; distinct by hash of the op list",
		Classify: classify,
		Parallel: true,
		Extras:   []core.Extra{{Name: "parallel-objects", Run: extraParallel}, {Name: "huge-bitmaps", Run: extraHuge}, {Name: "onescount", Run: extraOnesCount}},
		Assumptions: []string{
			"math/bits.OnesCount64 = number of set bits (modelled as popcount)",
			"Go int treated as unbounded (word counts far below 2^57)",
			"values > 700 are only used with Contains/Remove (Add/Grow of a huge value allocates num/64 words by design)",
		},
	})
}

// ---------------------------------------------------------------- registers

type reg struct {
	kind string
	bits *setz.Bits
	bm   *setz.Bitmap
	d    *dsz.Bits
}

func (r *reg) bitmap() *setz.Bitmap {
	switch r.kind {
	case "bits":
		return &r.bits.Bitmap
	case "bitmap":
		return r.bm
	}
	return nil
}

// setHeader reads the slice header (data pointer, len, cap) of the private `set []uint64`
// field of a register by reflection; ok=false when the field layout is not the expected one
// (then `layout` ops are never generated: see layoutOK).
func (r *reg) setHeader() (ptr uintptr, l, c int, ok bool) {
	defer func() {
		if recover() != nil {
			ok = false
		}
	}()
	var v reflect.Value
	switch r.kind {
	case "bits":
		v = reflect.ValueOf(r.bits).Elem().FieldByName("Bitmap").FieldByName("set")
	case "bitmap":
		v = reflect.ValueOf(r.bm).Elem().FieldByName("set")
	default:
		v = reflect.ValueOf(r.d).Elem().FieldByName("set")
	}
	if !v.IsValid() || v.Kind() != reflect.Slice || v.Type().Elem().Kind() != reflect.Uint64 {
		return 0, 0, 0, false
	}
	return v.Pointer(), v.Len(), v.Cap(), true
}

// layoutOK: the private word slices can be inspected (false after a rename of the fields;
// the layout observation is then simply not part of the generated cases).
var layoutOK = func() bool {
	for _, r := range []*reg{{kind: "bits", bits: &setz.Bits{}}, {kind: "bitmap", bm: &setz.Bitmap{}}, {kind: "dsz", d: &dsz.Bits{}}} {
		if _, _, _, ok := r.setHeader(); !ok {
			return false
		}
	}
	return true
}()

// showLayout: word count of every register and the pairs i<j of registers whose backing
// arrays [ptr, ptr+8*cap) share a cell.
func showLayout(regs []*reg) string {
	type hd struct {
		p    uintptr
		l, c int
	}
	hs := make([]hd, len(regs))
	lens := make([]uint, len(regs))
	for i, r := range regs {
		p, l, c, ok := r.setHeader()
		if !ok {
			return "layout-unavailable"
		}
		hs[i] = hd{p, l, c}
		lens[i] = uint(l)
	}
	var pairs []uint
	for i := range hs {
		for j := i + 1; j < len(hs); j++ {
			a, b := hs[i], hs[j]
			if a.c != 0 && b.c != 0 && a.p < b.p+8*uintptr(b.c) && b.p < a.p+8*uintptr(a.c) {
				pairs = append(pairs, uint(i), uint(j))
			}
		}
	}
	return "lens " + showUints(lens) + " overlap " + showUints(pairs)
}

type iterator interface {
	Next() bool
	Value() uint
}

func showUints(xs []uint) string {
	var sb strings.Builder
	sb.WriteByte('[')
	for i, x := range xs {
		if i > 0 {
			sb.WriteByte(' ')
		}
		sb.WriteString(strconv.FormatUint(uint64(x), 10))
	}
	sb.WriteByte(']')
	return sb.String()
}

func impl(c core.Case) []string {
	var regs []*reg
	iters := make([]iterator, 2)
	getReg := func(s string) *reg {
		i, err := strconv.Atoi(s)
		if err != nil || i < 0 || i >= len(regs) {
			return nil
		}
		return regs[i]
	}
	return core.RunOps(c,
		func(hdr []string) string {
			if len(hdr) == 0 || len(hdr) > 4 {
				return "bad-op"
			}
			for _, k := range hdr {
				switch k {
				case "bits":
					regs = append(regs, &reg{kind: k, bits: &setz.Bits{}})
				case "bitmap":
					regs = append(regs, &reg{kind: k, bm: &setz.Bitmap{}})
				case "dsz":
					regs = append(regs, &reg{kind: k, d: &dsz.Bits{}})
				default:
					return "bad-op"
				}
			}
			return "ok"
		},
		func(t []string) string {
			switch t[0] {
			case "layout":
				if len(t) != 1 {
					return "bad-op"
				}
				return showLayout(regs)
			case "caps": // real cap() of every private word slice (reflection), compared with the heap model
				if len(t) != 1 {
					return "bad-op"
				}
				cs := make([]uint, len(regs))
				for i, r := range regs {
					_, _, c, ok := r.setHeader()
					if !ok {
						return "caps-unavailable"
					}
					cs[i] = uint(c)
				}
				return "caps " + showUints(cs)
			case "addn", "removen": // count element operations on start, start+d, …; answer = number of `true`
				if len(t) != 5 {
					return "bad-op"
				}
				r := getReg(t[1])
				a, e1 := strconv.ParseUint(t[2], 10, 32)
				d, e2 := strconv.ParseUint(t[3], 10, 32)
				cnt, e3 := strconv.ParseUint(t[4], 10, 32)
				if r == nil || e1 != nil || e2 != nil || e3 != nil || cnt == 0 {
					return "bad-op"
				}
				hits := 0
				for j := uint64(0); j < cnt; j++ {
					n := uint(a + j*d)
					var ch bool
					switch t[0] + ":" + r.kind {
					case "addn:bits":
						ch = r.bits.Add(n)
					case "addn:bitmap":
						ch = r.bm.Add(n)
					case "addn:dsz":
						r.d.Add(n)
					case "removen:bits":
						ch = r.bits.Remove(n)
					case "removen:bitmap":
						ch = r.bm.Remove(n)
					case "removen:dsz":
						r.d.Remove(n)
					}
					if ch {
						hits++
					}
				}
				return strconv.Itoa(hits)
			case "add", "remove", "contains", "grow":
				if len(t) != 3 {
					return "bad-op"
				}
				r := getReg(t[1])
				n64, err := strconv.ParseUint(t[2], 10, 64)
				if r == nil || err != nil {
					return "bad-op"
				}
				n := uint(n64)
				switch t[0] + ":" + r.kind {
				case "add:bits":
					return strconv.FormatBool(r.bits.Add(n))
				case "add:bitmap":
					return strconv.FormatBool(r.bm.Add(n))
				case "add:dsz":
					r.d.Add(n)
					return "ok"
				case "remove:bits":
					return strconv.FormatBool(r.bits.Remove(n))
				case "remove:bitmap":
					return strconv.FormatBool(r.bm.Remove(n))
				case "remove:dsz":
					r.d.Remove(n)
					return "ok"
				case "contains:bits":
					return strconv.FormatBool(r.bits.Contains(n))
				case "contains:bitmap":
					return strconv.FormatBool(r.bm.Contains(n))
				case "contains:dsz":
					return strconv.FormatBool(r.d.Contains(n))
				case "grow:bits":
					r.bits.Grow(n)
					return "ok"
				case "grow:bitmap":
					r.bm.Grow(n)
					return "ok"
				case "grow:dsz":
					r.d.Grow(n)
					return "ok"
				}
				return "bad-op"
			case "reseq": // one All() value: ranged (stop a), Add(n), the SAME value ranged again (stop b)
				if len(t) != 5 {
					return "bad-op"
				}
				r := getReg(t[1])
				a, e1 := strconv.ParseInt(t[2], 10, 64)
				n64, e2 := strconv.ParseUint(t[3], 10, 32)
				b, e3 := strconv.ParseInt(t[4], 10, 64)
				if r == nil || r.kind != "bits" || e1 != nil || e2 != nil || e3 != nil {
					return "bad-op"
				}
				seq := r.bits.All()
				collect := func(stop int64) string {
					var vs []uint
					seq(func(v uint) bool {
						vs = append(vs, v)
						return !(stop >= 0 && uint64(v) == uint64(stop))
					})
					return showUints(vs)
				}
				l1 := collect(a)
				fl := strconv.FormatBool(r.bits.Add(uint(n64)))
				return l1 + " ; " + fl + " ; " + collect(b)
			case "string":
				if len(t) != 2 {
					return "bad-op"
				}
				r := getReg(t[1])
				if r == nil {
					return "bad-op"
				}
				var str string
				switch r.kind {
				case "bits":
					str = r.bits.String()
				case "bitmap":
					str = r.bm.String()
				default:
					str = r.d.String()
				}
				return strings.ReplaceAll(str, "\n", "|")
			case "len", "blen", "cap", "iterall":
				if len(t) != 2 {
					return "bad-op"
				}
				r := getReg(t[1])
				if r == nil {
					return "bad-op"
				}
				switch t[0] + ":" + r.kind {
				case "len:bits":
					return strconv.Itoa(r.bits.Len())
				case "len:bitmap":
					return strconv.Itoa(r.bm.Len())
				case "len:dsz":
					return strconv.Itoa(r.d.Len())
				case "blen:bits":
					return strconv.Itoa(r.bits.Bitmap.Len())
				case "blen:bitmap":
					return strconv.Itoa(r.bm.Len())
				case "cap:bits":
					return strconv.Itoa(r.bits.Cap())
				case "cap:bitmap":
					return strconv.Itoa(r.bm.Cap())
				case "cap:dsz":
					return strconv.Itoa(r.d.Cap())
				case "iterall:bits", "iterall:bitmap", "iterall:dsz":
					var it iterator
					switch r.kind {
					case "bits":
						x := r.bits.Iter()
						it = &x
					case "bitmap":
						x := r.bm.Iter()
						it = &x
					default:
						x := r.d.Iter()
						it = &x
					}
					var vs []uint
					for it.Next() {
						vs = append(vs, it.Value())
						if len(vs) > 1<<20 {
							panic("iterator does not terminate")
						}
					}
					return showUints(vs)
				}
				return "bad-op"
			case "clone":
				if len(t) != 3 {
					return "bad-op"
				}
				d, s := getReg(t[1]), getReg(t[2])
				if d == nil || s == nil || d.kind != "bitmap" || s.bitmap() == nil {
					return "bad-op"
				}
				*d.bm = s.bitmap().Clone()
				return "ok"
			case "diff", "intersect", "merge":
				if len(t) != 3 {
					return "bad-op"
				}
				a, b := getReg(t[1]), getReg(t[2])
				if a == nil || b == nil || a.bitmap() == nil || b.bitmap() == nil {
					return "bad-op"
				}
				if a.kind == "bits" {
					var other setz.Bits
					if b.kind == "bits" {
						other = *b.bits
					} else {
						other = setz.Bits{Bitmap: *b.bm}
					}
					switch t[0] {
					case "diff":
						a.bits.Diff(other)
					case "intersect":
						a.bits.Intersect(other)
					default:
						a.bits.Merge(other)
					}
				} else {
					other := *b.bitmap()
					switch t[0] {
					case "diff":
						a.bm.Diff(other)
					case "intersect":
						a.bm.Intersect(other)
					default:
						a.bm.Merge(other)
					}
				}
				return "ok"
			case "iter":
				if len(t) != 3 {
					return "bad-op"
				}
				k, err := strconv.Atoi(t[1])
				r := getReg(t[2])
				if err != nil || k < 0 || k >= len(iters) || r == nil {
					return "bad-op"
				}
				switch r.kind {
				case "bits":
					x := r.bits.Iter()
					iters[k] = &x
				case "bitmap":
					x := r.bm.Iter()
					iters[k] = &x
				default:
					x := r.d.Iter()
					iters[k] = &x
				}
				return "ok"
			case "next", "value":
				if len(t) != 2 {
					return "bad-op"
				}
				k, err := strconv.Atoi(t[1])
				if err != nil || k < 0 || k >= len(iters) || iters[k] == nil {
					return "bad-op"
				}
				if t[0] == "next" {
					return strconv.FormatBool(iters[k].Next())
				}
				return strconv.FormatUint(uint64(iters[k].Value()), 10)
			case "range", "all":
				if len(t) != 3 {
					return "bad-op"
				}
				r := getReg(t[1])
				stop, err := strconv.ParseInt(t[2], 10, 64)
				if r == nil || err != nil {
					return "bad-op"
				}
				var vs []uint
				fn := func(v uint) bool {
					vs = append(vs, v)
					return !(stop >= 0 && uint64(v) == uint64(stop))
				}
				switch t[0] + ":" + r.kind {
				case "range:bits":
					r.bits.Range(fn)
				case "range:bitmap":
					r.bm.Range(fn)
				case "all:bits":
					r.bits.All()(fn)
				default:
					return "bad-op"
				}
				return showUints(vs)
			}
			return "bad-op"
		})
}

// ---------------------------------------------------------------- generator

var boundaries = []int{0, 1, 62, 63, 64, 65, 126, 127, 128, 129, 190, 191, 192, 193, 254, 255, 256, 257, 260, 319, 320}

// genHit prefers values that were probably added before (Remove / Contains hits).
func genHit(r *core.Rand, pool []int) int {
	if r.Chance(60) {
		return pool[r.Intn(len(pool))]
	}
	return genVal(r, pool)
}

func genVal(r *core.Rand, pool []int) int {
	switch r.Pick(45, 25, 27, 3) {
	case 0:
		return pool[r.Intn(len(pool))]
	case 1:
		return boundaries[r.Intn(len(boundaries))]
	case 2:
		return r.Range(0, 260)
	}
	return r.Range(261, 700)
}

var hugeVals = []string{"18446744073709551615", "9223372036854775808", "4294967296", "18446744073709551552", "1000000"}

var kindSets = [][]string{
	{"bits", "bits", "bitmap"},
	{"bits", "bits", "bits", "bitmap"},
	{"bitmap", "bitmap", "bitmap"},
	{"bits", "bitmap", "bits", "bitmap"},
	{"dsz", "dsz"},
	{"dsz"},
	{"bits", "dsz", "bitmap"},
	{"bitmap", "bits"},
}

// genLarge: registers with many words — word counts that are multiples of 8 (and ±1), hundreds
// of words, values up to 70000 — filled completely, almost completely or with ~1000 strided
// elements by the bulk element ops `addn`/`removen`, then bulk operations between them and
// every observation (Len/blen/Cap, Iter, Range/All with early stop, Contains at the edges).
func genLarge(r *core.Rand, tier string) core.Case {
	kinds := [][]string{
		{"bits", "bits", "bitmap"}, {"bitmap", "bitmap"}, {"bits", "bitmap", "bits"}, {"bits", "dsz", "bitmap"}, {"dsz"}, {"bits", "bits"},
	}[r.Pick(30, 15, 20, 15, 5, 15)]
	lines := []string{"@ C16 " + strings.Join(kinds, " ")}
	emit := func(f string, a ...any) { lines = append(lines, fmt.Sprintf(f, a...)) }
	nr := len(kinds)
	words := func() int {
		w := []int{8, 8, 16, 16, 24, 32, 40, 64, 7, 9, 15, 17, 31, 33, 63, 65}
		if tier == "thorough" {
			w = append(w, 128, 256, 512, 1024, 1094, 1096)
		}
		switch r.Pick(88, 8, 4) {
		case 1:
			return []int{128, 256, 264}[r.Intn(3)]
		case 2:
			return []int{1024, 1094, 1096}[r.Intn(3)] // values up to 70000
		}
		return w[r.Intn(len(w))]
	}
	wl := make([]int, nr)
	same := r.Chance(45)
	w0 := words()
	for i := 0; i < nr; i++ {
		w := w0
		if !same {
			w = words()
		}
		wl[i] = w
		bitsN := w * 64
		if r.Chance(60) {
			emit("grow %d %d", i, bitsN-1-r.Intn(64)) // one allocation of exactly w words
		}
		limit := 4096 // elements per addn in the light (quick) share
		if tier == "thorough" {
			limit = 20000
		}
		switch r.Pick(34, 14, 30, 10, 12) {
		case 0: // completely full
			if bitsN <= limit {
				emit("addn %d 0 1 %d", i, bitsN)
			} else {
				emit("grow %d %d", i, bitsN-1)
				emit("addn %d %d 1 1000", i, bitsN-1000)
			}
		case 1: // full but for one or two numbers
			if bitsN <= limit {
				emit("addn %d 0 1 %d", i, bitsN)
				emit("remove %d %d", i, []int{0, 63, 64, bitsN - 1, bitsN - 64, bitsN / 2}[r.Intn(6)])
			} else {
				emit("addn %d %d 1 1000", i, bitsN-1000)
			}
		case 2: // ~1000 strided elements
			step := []int{1, 2, 3, 7, 63, 64, 65}[r.Intn(7)]
			cnt := 1000
			if cnt*step > bitsN {
				cnt = bitsN / step
			}
			if cnt < 1 {
				cnt = 1
			}
			start := 0
			if bitsN-cnt*step > 0 && r.Bool() {
				start = bitsN - cnt*step
			}
			emit("addn %d %d %d %d", i, start, step, cnt)
			emit("add %d %d", i, bitsN-1)
		case 3: // last block only (the words behind the last multiple of 8)
			lo := (w &^ 7) * 64
			if lo >= bitsN {
				lo = bitsN - 512
			}
			if lo < 0 {
				lo = 0
			}
			emit("addn %d %d 1 %d", i, lo, bitsN-lo)
		default: // empty, but grown
			emit("grow %d %d", i, bitsN-1)
		}
		emit("len %d", i)
		if kinds[i] != "dsz" {
			emit("blen %d", i)
		}
		emit("cap %d", i)
	}
	isSet := func(i int) bool { return kinds[i] != "dsz" }
	n := r.Range(3, 8)
	for k := 0; k < n; k++ {
		x := r.Intn(nr)
		bitsN := wl[x] * 64
		switch r.Pick(34, 10, 10, 8, 8, 8, 6, 8, 8) {
		case 0:
			a, b := r.Intn(nr), r.Intn(nr)
			if !isSet(a) || !isSet(b) {
				continue
			}
			emit("%s %d %d", []string{"diff", "intersect", "merge"}[r.Intn(3)], a, b)
			if r.Chance(50) { // half of the bulk results are used further before anyone asks for Len
				emit("len %d", a)
				emit("blen %d", a)
				emit("len %d", b)
			}
			if wl[b] > wl[a] {
				wl[a] = wl[b]
			}
		case 1:
			emit("removen %d %d %d %d", x, []int{0, 1, 63, bitsN / 2}[r.Intn(4)], []int{1, 2, 64, 65}[r.Intn(4)], []int{1, 64, 500, 1000}[r.Intn(4)])
			emit("len %d", x)
		case 2:
			emit("addn %d %d %d %d", x, []int{0, 1, bitsN / 2}[r.Intn(3)], []int{1, 3, 64}[r.Intn(3)], []int{64, 512, 1000}[r.Intn(3)])
			emit("len %d", x)
		case 3:
			if wl[x] <= 72 {
				emit("iterall %d", x)
			} else {
				emit("iter 0 %d", x)
				emit("next 0")
				emit("value 0")
				emit("next 0")
				emit("value 0")
			}
		case 4:
			if isSet(x) {
				op := "range"
				if kinds[x] == "bits" && r.Bool() {
					op = "all"
				}
				stop := []int{-1, 63, 64, 511, 512, bitsN - 1, bitsN / 2}[r.Intn(7)]
				if wl[x] > 72 && stop < 0 {
					stop = 512
				}
				emit("%s %d %d", op, x, stop)
			}
		case 5:
			emit("contains %d %d", x, []int{0, 511, 512, bitsN - 1, bitsN, bitsN + 63}[r.Intn(6)])
		case 6:
			emit("%s %d %d", []string{"add", "remove"}[r.Intn(2)], x, []int{0, 511, 512, 513, bitsN - 1, bitsN}[r.Intn(6)])
			emit("len %d", x)
		case 7:
			var ds []int
			for j, kd := range kinds {
				if kd == "bitmap" {
					ds = append(ds, j)
				}
			}
			if len(ds) > 0 && isSet(x) {
				d := ds[r.Intn(len(ds))]
				emit("clone %d %d", d, x)
				wl[d] = wl[x]
				emit("len %d", d)
				if layoutOK {
					emit("layout")
				}
			}
		default:
			emit("len %d", x)
			emit("cap %d", x)
		}
	}
	for i := 0; i < nr; i++ {
		emit("len %d", i)
	}
	if layoutOK {
		emit("caps")
	}
	return core.Case{Lines: lines, Tag: "large"}
}

func gen(r *core.Rand, tier string) core.Case {
	// large stream: ≈ 0.7 % of a quick run, 0.3 % of the far larger thorough budget (with tier == "thorough" — also used on anchor drift — the
	// larger budget gives proportionally more of them and the bigger size classes are added)
	share := 7
	if tier == "thorough" {
		share = 3 // 800 000 cases: ≈ 2 400 large ones with the bigger size classes
	}
	if r.Intn(1000) < share {
		return genLarge(r, tier)
	}
	kinds := kindSets[r.Pick(24, 12, 18, 14, 10, 6, 6, 10)]
	lines := []string{"@ C16 " + strings.Join(kinds, " ")}
	nr := len(kinds)
	pool := make([]int, r.Range(3, 10))
	for i := range pool {
		if r.Chance(50) {
			pool[i] = boundaries[r.Intn(len(boundaries))]
		} else {
			pool[i] = r.Range(0, 260)
		}
	}
	emit := func(f string, a ...any) { lines = append(lines, fmt.Sprintf(f, a...)) }
	// preamble: give every register a chosen word length 0..5 and some content
	if r.Chance(80) {
		for i := 0; i < nr; i++ {
			wl := r.Range(0, 5)
			if wl == 0 {
				continue
			}
			if r.Bool() {
				emit("grow %d %d", i, wl*64-1-r.Intn(64))
			}
			k := r.Range(0, 6)
			for j := 0; j < k; j++ {
				v := genHit(r, pool)
				if v >= wl*64 {
					v = v % (wl * 64)
				}
				emit("add %d %d", i, v)
			}
			if r.Chance(30) {
				emit("add %d %d", i, wl*64-1)
			}
		}
	}
	if r.Chance(70) {
		emit("iter 0 %d", r.Intn(nr))
		emit("iter 1 %d", r.Intn(nr))
	}
	n := r.Range(3, 45)
	isSet := func(i int) bool { return kinds[i] != "dsz" }
	pickSet := func() int {
		for t := 0; t < 8; t++ {
			i := r.Intn(nr)
			if isSet(i) {
				return i
			}
		}
		return -1
	}
	for i := 0; i < n; i++ {
		x := r.Intn(nr)
		switch r.Pick(20, 12, 8, 3, 6, 3, 3, 4, 16, 3, 8, 2, 5, 4, 3) {
		case 0:
			emit("add %d %d", x, genVal(r, pool))
		case 1:
			if r.Chance(4) {
				emit("remove %d %s", x, hugeVals[r.Intn(len(hugeVals))])
			} else {
				emit("remove %d %d", x, genHit(r, pool))
			}
		case 2:
			if r.Chance(6) {
				emit("contains %d %s", x, hugeVals[r.Intn(len(hugeVals))])
			} else {
				emit("contains %d %d", x, genHit(r, pool))
			}
		case 3:
			emit("grow %d %d", x, genVal(r, pool))
			if r.Chance(50) {
				emit("cap %d", x)
			}
		case 4:
			emit("len %d", x)
		case 5:
			if kinds[x] != "dsz" {
				emit("blen %d", x)
			}
		case 6:
			emit("cap %d", x)
		case 7: // clone into a bitmap register
			var ds []int
			for j, k := range kinds {
				if k == "bitmap" {
					ds = append(ds, j)
				}
			}
			s := pickSet()
			if len(ds) > 0 && s >= 0 {
				emit("clone %d %d", ds[r.Intn(len(ds))], s)
				if layoutOK && r.Chance(35) {
					emit("layout")
				}
			}
		case 8: // bulk
			a, b := pickSet(), pickSet()
			if a < 0 {
				continue
			}
			if !r.Chance(6) { // mostly distinct operands
				for t := 0; t < 4 && a == b; t++ {
					b = pickSet()
				}
			}
			emit("%s %d %d", []string{"diff", "intersect", "merge"}[r.Intn(3)], a, b)
			if r.Chance(60) {
				emit("len %d", a)
			}
			if r.Chance(25) {
				emit("iterall %d", b)
			}
			if layoutOK && r.Chance(25) {
				emit("layout")
			}
			if layoutOK && r.Chance(15) {
				emit("caps")
			}
		case 9:
			emit("iter %d %d", r.Intn(2), x)
		case 10:
			emit("next %d", r.Intn(2))
			if r.Chance(70) {
				emit("value %d", lastIter(lines))
			}
		case 11:
			emit("value %d", r.Intn(2))
		case 12:
			if r.Chance(30) {
				emit("string %d", x)
			} else {
				emit("iterall %d", x)
			}
		case 13, 14:
			op := "range"
			if kinds[x] == "bits" && r.Bool() {
				op = "all"
			}
			if kinds[x] == "dsz" {
				emit("iterall %d", x)
				continue
			}
			stop := -1
			if r.Chance(50) {
				stop = genVal(r, pool)
			}
			if op == "all" && r.Chance(35) {
				stop2 := -1
				if r.Chance(30) {
					stop2 = genHit(r, pool)
				}
				emit("reseq %d %d %d %d", x, stop, genVal(r, pool), stop2)
				continue
			}
			emit("%s %d %d", op, x, stop)
		}
	}
	// a burst of iterator steps at the end so iterators get drained across word boundaries
	if r.Chance(40) {
		k := r.Intn(2)
		emit("iter %d %d", k, r.Intn(nr))
		m := r.Range(1, 12)
		for j := 0; j < m; j++ {
			emit("next %d", k)
			emit("value %d", k)
			if r.Chance(10) {
				emit("add %d %d", r.Intn(nr), genVal(r, pool))
			}
		}
	}
	if layoutOK && r.Chance(30) {
		emit("layout")
	}
	if layoutOK && r.Chance(40) {
		emit("caps")
	}
	return core.Case{Lines: lines, Tag: strings.Join(kinds, "+")}
}

func lastIter(lines []string) int {
	t := core.Toks(lines[len(lines)-1])
	k, _ := strconv.Atoi(t[1])
	return k
}

func corpus() []core.Case {
	var cs []core.Case
	// every ordered pair of word lengths (a,b) ∈ 0..4² × {diff, intersect, merge} × {Bits, Bitmap}
	for _, kind := range []string{"bits", "bitmap"} {
		for a := 0; a <= 4; a++ {
			for b := 0; b <= 4; b++ {
				for _, op := range []string{"diff", "intersect", "merge"} {
					lines := []string{fmt.Sprintf("@ C16 %s %s", kind, kind)}
					for w := 0; w < a; w++ {
						lines = append(lines, fmt.Sprintf("add 0 %d", w*64), fmt.Sprintf("add 0 %d", w*64+63), fmt.Sprintf("add 0 %d", w*64+7))
					}
					for w := 0; w < b; w++ {
						lines = append(lines, fmt.Sprintf("add 1 %d", w*64+63), fmt.Sprintf("add 1 %d", w*64+1), fmt.Sprintf("add 1 %d", w*64+7))
					}
					lines = append(lines, fmt.Sprintf("%s 0 1", op), "len 0", "blen 0", "cap 0", "iterall 0", "range 0 -1", "len 1", "cap 1", "iterall 1")
					cs = append(cs, core.Case{Lines: lines, Tag: "corpus-pairs"})
				}
			}
		}
	}
	cs = append(cs,
		core.Case{Tag: "corpus", Lines: []string{"@ C16 bits", "add 0 63", "add 0 64", "add 0 65", "add 0 127", "add 0 128", "iter 0 0", "next 0", "value 0", "next 0", "value 0", "next 0", "value 0", "next 0", "value 0", "next 0", "value 0", "next 0", "value 0", "next 0", "all 0 -1", "all 0 64", "len 0"}},
		core.Case{Tag: "corpus", Lines: []string{"@ C16 dsz", "add 0 63", "add 0 63", "add 0 64", "remove 0 63", "remove 0 63", "remove 0 6400", "len 0", "cap 0", "iterall 0", "contains 0 64", "contains 0 18446744073709551615"}},
		core.Case{Tag: "corpus", Lines: []string{"@ C16 bitmap bitmap", "value 0", "iter 0 0", "value 0", "next 0", "value 0", "add 0 0", "next 0", "value 0", "grow 0 200", "cap 0", "next 0", "value 0", "add 0 255", "next 0", "value 0", "clone 1 0", "add 1 5", "contains 0 5", "remove 0 255", "contains 1 255", "merge 0 0", "diff 0 0", "len 0"}},
		core.Case{Tag: "corpus", Lines: []string{"@ C16 bits bits", "add 0 1", "add 0 300", "add 1 1", "intersect 0 1", "len 0", "cap 0", "merge 1 0", "cap 1", "len 1", "diff 1 0", "len 1", "iterall 1"}},
	)
	if layoutOK {
		cs = append(cs,
			// Merge into an empty receiver, then element ops on both sides (sharing would show),
			// Intersect with a shorter operand followed by re-growth inside the old capacity
			core.Case{Tag: "corpus-layout", Lines: []string{"@ C16 bits bits bitmap", "add 1 3", "add 1 63", "add 1 64", "add 1 129", "merge 0 1", "layout", "remove 0 63", "add 0 70", "iterall 1", "len 1", "add 1 5", "iterall 0", "len 0", "clone 2 0", "layout", "add 2 200", "remove 0 3", "iterall 2", "iterall 0", "layout"}},
			core.Case{Tag: "corpus-layout", Lines: []string{"@ C16 bits bits", "add 0 1", "add 0 63", "add 0 64", "add 0 65", "add 0 130", "add 0 192", "add 0 200", "add 0 255", "add 1 1", "add 1 63", "intersect 0 1", "len 0", "cap 0", "layout", "add 0 192", "len 0", "iterall 0", "range 0 -1", "grow 0 255", "iterall 0", "len 0", "layout"}},
			core.Case{Tag: "corpus-layout", Lines: []string{"@ C16 bitmap bitmap", "add 0 300", "remove 0 300", "merge 0 1", "merge 1 0", "layout", "add 1 5", "contains 0 5", "diff 0 0", "merge 0 0", "intersect 1 1", "layout", "clone 1 1", "layout", "clone 0 1", "add 0 9", "iterall 1", "layout"}},
		)
	}
	return cs
}

// ---------------------------------------------------------------- independent oracle

func clip(s string) string {
	if len(s) > 240 {
		return s[:120] + " … " + s[len(s)-100:]
	}
	return s
}

type oset map[uint64]bool

func (s oset) sorted() []uint64 {
	xs := make([]uint64, 0, len(s))
	for k := range s {
		xs = append(xs, k)
	}
	sort.Slice(xs, func(i, j int) bool { return xs[i] < xs[j] })
	return xs
}

func show64(xs []uint64) string {
	ss := make([]string, len(xs))
	for i, x := range xs {
		ss[i] = strconv.FormatUint(x, 10)
	}
	return "[" + strings.Join(ss, " ") + "]"
}

type oiter struct {
	reg   int
	dirty bool
	last  int64 // last value returned, -1 before the first
	valid bool  // last Next returned true
	set   bool
}

// check replays the case on plain map[uint]bool sets (independent of the Lean model).
func check(c core.Case, out []string) *core.Failure {
	kinds := core.Toks(c.Lines[0])[2:]
	if out[0] != "ok" {
		return nil
	}
	sets := make([]oset, len(kinds))
	lastCap := make([]int, len(kinds))
	minCap := make([]int, len(kinds))
	for i := range sets {
		sets[i] = oset{}
	}
	var its [2]oiter
	touch := func(r int) {
		for k := range its {
			if its[k].set && its[k].reg == r {
				its[k].dirty = true
			}
		}
	}
	for i := 1; i < len(c.Lines); i++ {
		t := core.Toks(c.Lines[i])
		o := out[i]
		fail := func(key, want string) *core.Failure {
			var st []string
			for j, s := range sets {
				if len(s) > 48 {
					xs := s.sorted()
					st = append(st, fmt.Sprintf("r%d(%s)=%d members %s…%s", j, kinds[j], len(xs), show64(xs[:6]), show64(xs[len(xs)-6:])))
					continue
				}
				st = append(st, fmt.Sprintf("r%d(%s)=%s", j, kinds[j], show64(s.sorted())))
			}
			return &core.Failure{Key: key, Desc: fmt.Sprintf("op %d %q: implementation answered %q, a mathematical set answers %q; sets before the op: %s", i, c.Lines[i], clip(o), clip(want), strings.Join(st, " "))}
		}
		if o == "panic" || o == "dead" {
			return fail("panic", "no panic")
		}
		if o == "bad-op" {
			continue
		}
		if t[0] == "caps" {
			continue // representation only: compared with the one-memory model by the correspondence check
		}
		if t[0] == "layout" {
			// an observation of the representation (slice headers), not of the set: compared with
			// the one-memory model by the correspondence check only
			continue
		}
		ri, _ := strconv.Atoi(t[1])
		switch t[0] {
		case "addn", "removen":
			a, _ := strconv.ParseUint(t[2], 10, 32)
			d, _ := strconv.ParseUint(t[3], 10, 32)
			cnt, _ := strconv.ParseUint(t[4], 10, 32)
			s := sets[ri]
			hits := 0
			for j := uint64(0); j < cnt; j++ {
				n := a + j*d
				if t[0] == "addn" {
					if !s[n] {
						hits++
						s[n] = true
					}
					if int(n)+1 > minCap[ri] {
						minCap[ri] = int(n) + 1
					}
				} else if s[n] {
					hits++
					delete(s, n)
				}
			}
			if hits > 0 {
				touch(ri)
			}
			if kinds[ri] == "dsz" {
				hits = 0
			}
			if want := strconv.Itoa(hits); o != want {
				return fail(t[0]+"-flag", want+" operations that changed membership")
			}
		case "add", "remove", "contains", "grow":
			n, _ := strconv.ParseUint(t[2], 10, 64)
			s := sets[ri]
			var want string
			switch t[0] {
			case "add":
				want = strconv.FormatBool(!s[n])
				if !s[n] {
					touch(ri)
				}
				s[n] = true
				if kinds[ri] == "dsz" {
					want = "ok"
				}
			case "remove":
				want = strconv.FormatBool(s[n])
				if s[n] {
					touch(ri)
				}
				delete(s, n)
				if kinds[ri] == "dsz" {
					want = "ok"
				}
			case "contains":
				want = strconv.FormatBool(s[n])
			case "grow":
				want = "ok"
			}
			if (t[0] == "add" || t[0] == "grow") && int(n)+1 > minCap[ri] {
				minCap[ri] = int(n) + 1 // Grow(n) / Add(n) make room for n: Cap() > n from now on
			}
			if o != want {
				return fail(t[0]+"-flag", want)
			}
		case "len", "blen":
			if want := strconv.Itoa(len(sets[ri])); o != want {
				if t[0] == "len" && kinds[ri] != "bitmap" {
					return fail("len-cache", want)
				}
				return fail("len-count", want)
			}
		case "cap":
			cp, err := strconv.Atoi(o)
			mx := -1
			for k := range sets[ri] {
				if int(k) > mx {
					mx = int(k)
				}
			}
			if err != nil || cp%64 != 0 || cp <= mx || cp < 0 {
				return fail("cap", fmt.Sprintf("a multiple of 64 above the largest member %d", mx))
			}
			if cp < minCap[ri] {
				return fail("cap-after-grow", fmt.Sprintf("at least %d (room was made by an earlier Grow/Add and capacity never shrinks)", minCap[ri]))
			}
			lastCap[ri] = cp
		case "clone":
			si, _ := strconv.Atoi(t[2])
			n := oset{}
			for k := range sets[si] {
				n[k] = true
			}
			sets[ri] = n
			minCap[ri] = minCap[si]
			touch(ri)
		case "diff", "intersect", "merge":
			bi, _ := strconv.Atoi(t[2])
			a, b := sets[ri], sets[bi]
			n := oset{}
			switch t[0] {
			case "diff":
				for k := range a {
					if !b[k] {
						n[k] = true
					}
				}
			case "intersect":
				for k := range a {
					if b[k] {
						n[k] = true
					}
				}
			default:
				for k := range a {
					n[k] = true
				}
				for k := range b {
					n[k] = true
				}
				if minCap[bi] > minCap[ri] {
					minCap[ri] = minCap[bi]
				}
			}
			sets[ri] = n
			touch(ri)
		case "iter":
			k := ri
			r2, _ := strconv.Atoi(t[2])
			its[k] = oiter{reg: r2, last: -1, set: true}
		case "next":
			it := &its[ri]
			if !it.set || it.dirty {
				it.valid = false
				continue
			}
			var want string
			found := false
			for _, m := range sets[it.reg].sorted() {
				if int64(m) > it.last {
					it.last = int64(m)
					found = true
					break
				}
			}
			it.valid = found
			want = strconv.FormatBool(found)
			if o != want {
				return fail("iter", want)
			}
		case "value":
			it := &its[ri]
			if !it.set || it.dirty || !it.valid {
				continue
			}
			if want := strconv.FormatInt(it.last, 10); o != want {
				return fail("iter", want)
			}
		case "iterall":
			if want := show64(sets[ri].sorted()); o != want {
				return fail("iter", want)
			}
		case "reseq":
			stopA, _ := strconv.ParseInt(t[2], 10, 64)
			n, _ := strconv.ParseUint(t[3], 10, 64)
			stopB, _ := strconv.ParseInt(t[4], 10, 64)
			upto := func(stop int64) string {
				var w []uint64
				for _, m := range sets[ri].sorted() {
					w = append(w, m)
					if stop >= 0 && m == uint64(stop) {
						break
					}
				}
				return show64(w)
			}
			want := upto(stopA) + " ; " + strconv.FormatBool(!sets[ri][n])
			if !sets[ri][n] {
				touch(ri)
			}
			sets[ri][n] = true
			if int(n)+1 > minCap[ri] {
				minCap[ri] = int(n) + 1
			}
			want += " ; " + upto(stopB)
			if o != want {
				return fail("seq-reuse", want+" (a Seq value ranged again enumerates the current content)")
			}
		case "string":
			want := "{" + strings.Trim(show64(sets[ri].sorted()), "[]") + "}"
			if kinds[ri] == "dsz" {
				want += fmt.Sprintf("|Length: %d", len(sets[ri]))
			}
			if o != want {
				return fail("string", want)
			}
		case "range", "all":
			stop, _ := strconv.ParseInt(t[2], 10, 64)
			var w []uint64
			for _, m := range sets[ri].sorted() {
				w = append(w, m)
				if stop >= 0 && m == uint64(stop) {
					break
				}
			}
			if want := show64(w); o != want {
				return fail("range", want)
			}
		}
	}
	return nil
}

// ---------------------------------------------------------------- evidence helpers

func sizeClass(n int) string {
	switch {
	case n < 8:
		return "<8"
	case n < 64:
		return "8..63"
	case n < 512:
		return "64..511"
	case n < 4096:
		return "512..4095"
	}
	return ">=4096"
}

func crossesWord(list string) bool {
	f := strings.Fields(strings.Trim(list, "[]"))
	if len(f) < 2 {
		return false
	}
	a, _ := strconv.Atoi(f[0])
	b, _ := strconv.Atoi(f[len(f)-1])
	return a/64 != b/64
}

func nonTrivial(c core.Case, out []string) bool {
	if len(c.Lines) < 7 {
		return false
	}
	for i, l := range c.Lines[1:] {
		t := core.Toks(l)
		o := out[i+1]
		switch t[0] {
		case "diff", "intersect", "merge":
			if o == "ok" {
				return true
			}
		case "iterall", "range", "all":
			if crossesWord(o) {
				return true
			}
		}
	}
	return false
}

// historyLabels replays the case on plain sets and reports the histories in which sharing or stale
// words would show: a bulk operation with an EMPTY operand / receiver, followed by Grow/Add inside
// the old allocation or by element operations on either operand.
func historyLabels(c core.Case, out []string) []string {
	kinds := core.Toks(c.Lines[0])[2:]
	nr := len(kinds)
	sets := make([]map[uint64]bool, nr)
	words := make([]int, nr)      // current word count
	cutFrom := make([]int, nr)    // word count before an Intersect with an empty operand (0 = none pending)
	mergedInto := make([]int, nr) // receiver r was empty when `merge r b` ran: b+1 (0 = none)
	unseen := make([]bool, nr)    // register holds a bulk result nobody has called Len() on yet
	for i := range sets {
		sets[i] = map[uint64]bool{}
	}
	var ls []string
	for i, l := range c.Lines[1:] {
		t := core.Toks(l)
		o := out[i+1]
		if o == "bad-op" || o == "dead" || o == "panic" || len(t) < 2 {
			continue
		}
		r, err := strconv.Atoi(t[1])
		if err != nil || r < 0 || r >= nr {
			continue
		}
		elem := func(op string, n uint64) {
			w := int(n/64) + 1
			if op == "add" || op == "grow" {
				if cutFrom[r] > 0 && w <= cutFrom[r] {
					ls = append(ls, op+" inside the old allocation after intersect with an EMPTY operand")
					cutFrom[r] = 0
				}
				if w > words[r] {
					words[r] = w
				}
			}
			if op != "grow" {
				if mergedInto[r] > 0 {
					ls = append(ls, op+" on the receiver after merge into an EMPTY receiver")
				}
				for a := range mergedInto {
					if mergedInto[a] == r+1 && a != r {
						ls = append(ls, op+" on the other operand after merge into an EMPTY receiver")
					}
				}
			}
			switch op {
			case "add":
				sets[r][n] = true
			case "remove":
				delete(sets[r], n)
			}
		}
		switch t[0] {
		case "reseq":
			n, _ := strconv.ParseUint(t[3], 10, 64)
			elem("add", n)
		case "add", "remove", "grow":
			n, _ := strconv.ParseUint(t[2], 10, 64)
			elem(t[0], n)
		case "addn", "removen":
			a, _ := strconv.ParseUint(t[2], 10, 32)
			d, _ := strconv.ParseUint(t[3], 10, 32)
			cnt, _ := strconv.ParseUint(t[4], 10, 32)
			for j := uint64(0); j < cnt; j++ {
				elem(strings.TrimSuffix(t[0], "n"), a+j*d)
			}
		case "clone":
			b, _ := strconv.Atoi(t[2])
			n := map[uint64]bool{}
			for k := range sets[b] {
				n[k] = true
			}
			sets[r], words[r], cutFrom[r], mergedInto[r] = n, words[b], 0, 0
		case "len":
			unseen[r] = false
		case "diff", "intersect", "merge":
			b, _ := strconv.Atoi(t[2])
			if b < 0 || b >= nr || b == r {
				continue
			}
			if unseen[b] {
				ls = append(ls, "bulk operand is itself a bulk result nobody has asked for Len yet")
			}
			unseen[r] = true
			if len(sets[b]) == 0 {
				ls = append(ls, t[0]+" with an EMPTY other operand ("+kinds[r]+")")
			}
			if len(sets[r]) == 0 {
				ls = append(ls, t[0]+" into an EMPTY receiver ("+kinds[r]+")")
			}
			switch t[0] {
			case "diff":
				for k := range sets[b] {
					delete(sets[r], k)
				}
			case "intersect":
				if len(sets[b]) == 0 && len(sets[r]) > 0 {
					cutFrom[r] = words[r]
				}
				for k := range sets[r] {
					if !sets[b][k] {
						delete(sets[r], k)
					}
				}
			default:
				if len(sets[r]) == 0 && words[r] <= words[b] && len(sets[b]) > 0 {
					mergedInto[r] = b + 1
				}
				for k := range sets[b] {
					sets[r][k] = true
				}
				if words[b] > words[r] {
					words[r] = words[b]
				}
			}
		}
	}
	return ls
}

func classify(c core.Case, out []string) []string {
	ls0 := historyLabels(c, out)
	ls1 := classify1(c, out)
	return append(ls1, ls0...)
}

func classify1(c core.Case, out []string) []string {
	kinds := core.Toks(c.Lines[0])[2:]
	wl := make([]int, len(kinds)) // word lengths, tracked from the ops
	var ls []string
	var lastNextVal [2]int
	var itReg [2]int
	mutatedSinceIter := [2]bool{}
	for i, l := range c.Lines[1:] {
		t := core.Toks(l)
		o := out[i+1]
		if o == "bad-op" || o == "dead" {
			continue
		}
		if o == "panic" {
			ls = append(ls, "panic")
			continue
		}
		if t[0] == "caps" {
			ls = append(ls, "caps compared")
			continue
		}
		if t[0] == "layout" {
			if strings.HasSuffix(o, "overlap []") {
				ls = append(ls, "layout-disjoint")
			} else {
				ls = append(ls, "layout-OVERLAP")
			}
			continue
		}
		r, _ := strconv.Atoi(t[1])
		switch t[0] {
		case "addn", "removen":
			a, _ := strconv.Atoi(t[2])
			d, _ := strconv.Atoi(t[3])
			cnt, _ := strconv.Atoi(t[4])
			if t[0] == "addn" {
				if w := (a+(cnt-1)*d)/64 + 1; w > wl[r] {
					wl[r] = w
				}
				if a == 0 && d == 1 && cnt == wl[r]*64 {
					ls = append(ls, "addn fills every bit of the register")
				}
			}
			ls = append(ls, fmt.Sprintf("%s of %s elements", t[0], sizeClass(cnt)))
			for k := range itReg {
				if itReg[k] == r {
					mutatedSinceIter[k] = true
				}
			}
		case "len", "blen":
			if wl[r] >= 8 {
				if wl[r]%8 == 0 {
					ls = append(ls, "len with word count multiple of 8")
				}
				if o == strconv.Itoa(wl[r]*64) {
					ls = append(ls, "len of a completely full set")
				}
				ls = append(ls, "len with "+sizeClass(wl[r])+" words")
			}
		case "add", "grow":
			n, _ := strconv.Atoi(t[2])
			w := n/64 + 1
			switch {
			case w > wl[r]:
				ls = append(ls, t[0]+"-grows-words")
				wl[r] = w
			case t[0] == "add" && o == "false":
				ls = append(ls, "add-duplicate")
			case t[0] == "add":
				ls = append(ls, "add-in-capacity")
			default:
				ls = append(ls, "grow-noop")
			}
			if n%64 == 63 || n%64 == 0 {
				ls = append(ls, t[0]+"-at-word-boundary")
			}
			for k := range itReg {
				if itReg[k] == r {
					mutatedSinceIter[k] = true
				}
			}
		case "remove", "contains":
			n, err := strconv.ParseUint(t[2], 10, 64)
			switch {
			case err == nil && n/64 >= uint64(wl[r]):
				ls = append(ls, t[0]+"-beyond-cap")
			case o == "true":
				ls = append(ls, t[0]+"-hit")
			default:
				ls = append(ls, t[0]+"-miss")
			}
		case "clone":
			s, _ := strconv.Atoi(t[2])
			wl[r] = wl[s]
			ls = append(ls, "clone")
		case "diff", "intersect", "merge":
			b, _ := strconv.Atoi(t[2])
			rel := "="
			if wl[r] < wl[b] {
				rel = "<"
			} else if wl[r] > wl[b] {
				rel = ">"
			}
			if wl[r] >= 8 || wl[b] >= 8 {
				ls = append(ls, fmt.Sprintf("bulk on %s x %s words", sizeClass(wl[r]), sizeClass(wl[b])))
			}
			if r == b {
				ls = append(ls, t[0]+" self")
			} else {
				ls = append(ls, fmt.Sprintf("%s words(a)%swords(b)", t[0], rel))
				ls = append(ls, fmt.Sprintf("bulk a=%s b=%s", kinds[r], kinds[b]))
			}
			if t[0] == "merge" && wl[b] > wl[r] {
				wl[r] = wl[b]
			}
		case "iter":
			k := r
			itReg[k], _ = strconv.Atoi(t[2])
			mutatedSinceIter[k] = false
			lastNextVal[k] = -1
		case "next":
			if mutatedSinceIter[r] {
				ls = append(ls, "next-after-mutation")
			}
			if o == "false" {
				ls = append(ls, "next-exhausted")
			}
		case "value":
			v, _ := strconv.Atoi(o)
			if lastNextVal[r] >= 0 && v/64 != lastNextVal[r]/64 {
				ls = append(ls, "iterator-crosses-word")
			}
			lastNextVal[r] = v
		case "reseq":
			ls = append(ls, "All() value ranged twice with an Add in between")
			if n, _ := strconv.Atoi(t[3]); n/64+1 > wl[r] {
				wl[r] = n/64 + 1
				ls = append(ls, "All() value re-ranged after the words grew")
			}
		case "string":
			ls = append(ls, "string "+kinds[r])
		case "iterall":
			if crossesWord(o) {
				ls = append(ls, "iterall-crosses-word")
			}
		case "range", "all":
			if t[2] != "-1" && strings.HasSuffix(o, " "+t[2]+"]") || o == "["+t[2]+"]" {
				ls = append(ls, t[0]+"-stopped-early")
			} else {
				ls = append(ls, t[0]+"-complete")
			}
		}
	}
	return ls
}
