package c16

// huge-bitmaps (wave 6 addendum): bulk operations between operands of 2^18 + {0,1,3,5,7} words
// (2 MiB of words each; values ≥ 16 777 216), members placed in the LAST common words, in the
// first and a middle word and behind the common part, with GOMAXPROCS left as it is and set to
// 3, 5, 7, 2, 1 for some cases. At this size the list-based Lean model is out of reach: the
// verdict comes from the closed-form set algebra on the (small) explicit member sets — the
// same statements c16_bulk / c16_bank_history prove for every word count.

import (
	"fmt"
	"runtime"
	"slices"
	"sort"

	"github.com/welllog/golib/setz"

	"verifharness/internal/core"
)

func sortedKeys(m map[uint]bool) []uint {
	r := make([]uint, 0, len(m))
	for k := range m {
		r = append(r, k)
	}
	sort.Slice(r, func(i, j int) bool { return r[i] < r[j] })
	return r
}

func rangeAll(b *setz.Bitmap) []uint {
	var r []uint
	b.Range(func(v uint) bool { r = append(r, v); return true })
	return r
}

func extraHuge(ctx *core.Ctx) (int, string, []core.ExtraFailure) {
	r := ctx.Rand
	n := 8
	if ctx.Tier == "thorough" || ctx.Escalate > 1 {
		n = 60
	}
	oldProcs := runtime.GOMAXPROCS(0)
	defer runtime.GOMAXPROCS(oldProcs)
	var fails []core.ExtraFailure
	evals := 0
	const base = 1 << 18
	for it := 0; it < n && len(fails) == 0; it++ {
		wa := base + []int{0, 1, 3, 5, 7, 8, 13}[r.Intn(7)]
		wb := wa
		switch r.Pick(50, 25, 25) {
		case 1:
			wb = wa + []int{1, 7, 64}[r.Intn(3)]
		case 2:
			wb = base + []int{0, 1, 3, 5, 7}[r.Intn(5)]
		}
		procs := []int{oldProcs, oldProcs, 3, 5, 7, 2, 1, 8}[r.Intn(8)]
		runtime.GOMAXPROCS(procs)
		common := min(wa, wb)
		place := func(w int) map[uint]bool { // members of an operand with w words
			m := map[uint]bool{}
			add := func(word, bit int) {
				if word >= 0 && word < w {
					m[uint(word*64+bit)] = true
				}
			}
			for k := 1; k <= 8; k++ { // the last 8 common words: the tail a split must not drop
				if r.Chance(80) {
					add(common-k, r.Intn(64))
					add(common-k, 63)
				}
			}
			add(0, r.Intn(64))
			add(common/2, r.Intn(64))
			add(common/3, 0)
			for k := 0; k < 3; k++ {
				add(r.Intn(w), r.Intn(64))
			}
			add(w-1, r.Intn(64)) // behind the common part when this operand is the longer one
			return m
		}
		A, B := place(wa), place(wb)
		// make the two sets overlap in the tail
		for k := range A {
			if int(k/64) >= common-8 && r.Chance(50) {
				B[k] = true
			}
		}
		op := []string{"diff", "intersect", "merge"}[r.Intn(3)]
		useBits := r.Bool()
		var a, b setz.Bits
		a.Grow(uint(wa*64 - 1))
		b.Grow(uint(wb*64 - 1))
		for k := range A {
			a.Add(k)
		}
		for k := range B {
			b.Add(k)
		}
		want := map[uint]bool{}
		switch op {
		case "diff":
			for k := range A {
				if !B[k] {
					want[k] = true
				}
			}
		case "intersect":
			for k := range A {
				if B[k] {
					want[k] = true
				}
			}
		default:
			for k := range A {
				want[k] = true
			}
			for k := range B {
				want[k] = true
			}
		}
		if useBits {
			switch op {
			case "diff":
				a.Diff(b)
			case "intersect":
				a.Intersect(b)
			default:
				a.Merge(b)
			}
		} else {
			switch op {
			case "diff":
				a.Bitmap.Diff(b.Bitmap)
			case "intersect":
				a.Bitmap.Intersect(b.Bitmap)
			default:
				a.Bitmap.Merge(b.Bitmap)
			}
		}
		evals++
		got, gotB := rangeAll(&a.Bitmap), rangeAll(&b.Bitmap)
		wantL, wantB := sortedKeys(want), sortedKeys(B)
		desc := fmt.Sprintf("%s between operands of %d and %d words (2^18%+d / 2^18%+d), GOMAXPROCS=%d, via %s", op, wa, wb, wa-base, wb-base, procs, map[bool]string{true: "setz.Bits", false: "setz.Bitmap"}[useBits])
		payload := map[string]any{"op": op, "words_a": wa, "words_b": wb, "gomaxprocs": procs, "bits": useBits, "A": sortedKeys(A), "B": wantB}
		bad := func(key, what string) {
			fails = append(fails, core.ExtraFailure{Failure: core.Failure{Key: key, Desc: desc + ": " + what}, Payload: payload})
		}
		switch {
		case !slices.Equal(got, wantL):
			bad("huge-bulk", fmt.Sprintf("members afterwards %v, the set operation gives %v", clipU(got), clipU(wantL)))
		case !slices.Equal(gotB, wantB):
			bad("huge-other-touched", "the other operand changed")
		case a.Bitmap.Len() != len(want):
			bad("huge-len", fmt.Sprintf("Bitmap.Len() = %d, cardinality %d", a.Bitmap.Len(), len(want)))
		case useBits && a.Len() != len(want):
			bad("len-cache", fmt.Sprintf("Bits.Len() = %d, cardinality %d", a.Len(), len(want)))
		case a.Cap() != max(wa, map[bool]int{true: wb, false: wa}[op == "merge"])*64:
			bad("huge-cap", fmt.Sprintf("Cap() = %d", a.Cap()))
		}
	}
	return evals, fmt.Sprintf("%d bulk operations between operands of 2^18 + {0..13} words with members in the last common words, GOMAXPROCS in {default, 1, 2, 3, 5, 7, 8}; judged by the set algebra on the explicit member sets (no Lean model at this size)", evals), fails
}

func clipU(xs []uint) string {
	if len(xs) > 24 {
		return fmt.Sprintf("%v … %v (%d)", xs[:10], xs[len(xs)-10:], len(xs))
	}
	return fmt.Sprint(xs)
}
