package c03

import (
	"bytes"
	"fmt"
	"go/ast"
	"go/parser"
	"go/printer"
	"go/token"
	"path/filepath"
	"regexp"
	"strings"
)

// facts regenerates lean/Golib/Gen/FactsC03.lean from setz/roaring_bitmap.go, setz/iter.go
// and setz/bits.go: the constants and statement shapes that the hand-written Lean model
// copies from the source text.  A shape that is not found is emitted as `false` / 0 so that
// `c03_facts` no longer decides (the intended alarm); only an unparsable file is an error.
func facts(repo string) (string, error) {
	fset := token.NewFileSet()
	render := func(n ast.Node) string {
		if n == nil {
			return ""
		}
		var buf bytes.Buffer
		_ = printer.Fprint(&buf, fset, n)
		return strings.Join(strings.Fields(buf.String()), " ")
	}
	decls := map[string]*ast.FuncDecl{}
	bodies := map[string]string{}
	bufLen := "0"
	load := func(name string) error {
		f, err := parser.ParseFile(fset, filepath.Join(repo, "setz", name), nil, 0)
		if err != nil {
			return err
		}
		for _, d := range f.Decls {
			switch d := d.(type) {
			case *ast.FuncDecl:
				if d.Body == nil {
					continue
				}
				n := d.Name.Name
				if d.Recv != nil && len(d.Recv.List) == 1 {
					n = render(d.Recv.List[0].Type) + "." + n
				}
				decls[n] = d
				bodies[n] = render(d.Body)
			case *ast.GenDecl:
				for _, s := range d.Specs {
					ts, ok := s.(*ast.TypeSpec)
					if !ok || ts.Name.Name != "RoaringBitmap" {
						continue
					}
					st, ok := ts.Type.(*ast.StructType)
					if !ok {
						continue
					}
					for _, fl := range st.Fields.List {
						for _, n := range fl.Names {
							if n.Name == "buf" {
								if at, ok := fl.Type.(*ast.ArrayType); ok && at.Len != nil {
									if s := render(at.Len); regexp.MustCompile(`^\d+$`).MatchString(s) {
										bufLen = s
									}
								}
							}
						}
					}
				}
			}
		}
		return nil
	}
	for _, n := range []string{"roaring_bitmap.go", "iter.go", "bits.go"} {
		if err := load(n); err != nil {
			return "", err
		}
	}
	// num: the single capture of pat in the body of fn, "0" when absent or ambiguous.
	num := func(fn, pat string) string {
		m := regexp.MustCompile(pat).FindAllStringSubmatch(bodies[fn], -1)
		if len(m) != 1 {
			return "0"
		}
		return m[0][1]
	}
	has := func(fn, lit string) bool { return strings.Count(bodies[fn], lit) == 1 }

	thr := num("*arrayContainer.Add", `if len\(ac\.values\) < (\d+) \{`)
	card := num("*arrayContainer.Add", `newContainer\.length = (\d+)`)
	words := num("*arrayContainer.Add", `\*\(\*\[(\d+)\]uint64\)\(unsafe\.Pointer\(&ac\.values\[0\]\)\)`)
	next := bodies["*RoaringBitmapIter.Next"]
	reset := strings.Contains(next, "i.node = i.node.Next() i.iter = nil }")

	// (a) All's yield function = Range's body modulo the callback's name
	allEq := false
	if rd, ad := decls["*RoaringBitmap.Range"], decls["*RoaringBitmap.All"]; rd != nil && ad != nil {
		cbName := func(ft *ast.FuncType) string {
			if ft == nil || ft.Params == nil || len(ft.Params.List) != 1 || len(ft.Params.List[0].Names) != 1 {
				return ""
			}
			return ft.Params.List[0].Names[0].Name
		}
		rename := func(body *ast.BlockStmt, from string) string {
			s := render(body)
			return regexp.MustCompile(`\b`+regexp.QuoteMeta(from)+`\(`).ReplaceAllString(s, "CALLBACK(")
		}
		if len(ad.Body.List) == 1 {
			if rs, ok := ad.Body.List[0].(*ast.ReturnStmt); ok && len(rs.Results) == 1 {
				if fl, ok := rs.Results[0].(*ast.FuncLit); ok {
					rn, an := cbName(rd.Type), cbName(fl.Type)
					if rn != "" && an != "" {
						allEq = rename(rd.Body, rn) == rename(fl.Body, an)
					}
				}
			}
		}
	}

	// (b) Remove: `ok = c.Remove(low)` then `if ok { r.len--; if c.Len() == 0 { r.containers.Remove(high) } }`
	removeGuard := strings.Contains(bodies["*RoaringBitmap.Remove"],
		"ok = c.Remove(low) if ok { r.len-- if c.Len() == 0 { r.containers.Remove(high) } } return ok }") &&
		has("*RoaringBitmap.Remove", "r.containers.Remove(")

	// (c) arrayContainer.Add: search, then the duplicate test, then the threshold test
	dupFirst := false
	if d := decls["*arrayContainer.Add"]; d != nil {
		iDup, iThr := -1, -1
		for i, st := range d.Body.List {
			if is, ok := st.(*ast.IfStmt); ok && is.Init == nil {
				switch c := render(is.Cond); {
				case c == "pos < len(ac.values) && ac.values[pos] == x" && render(is.Body) == "{ return ac, false }":
					iDup = i
				case strings.HasPrefix(c, "len(ac.values) < "):
					iThr = i
				}
			}
		}
		dupFirst = iDup == 1 && iThr == 2 && render(d.Body.List[0]) == "pos := search(ac.values, x)"
	}
	//     the word loop of Range (All is tied to it by allBodyEqRange)
	rangeInner := num("*RoaringBitmap.Range", `for j := 0; j < (\d+); j\+\+ \{`)
	rangeShape := has("*RoaringBitmap.Range", "for i := 0; i < len(bc.Bitmap.set); i++ { for j := 0; j < ") &&
		has("*RoaringBitmap.Range", "if bc.Bitmap.set[i]&(1<<j) != 0 { if !fn(uint32(high)<<16 | uint32(i<<6+j)) { return } }") &&
		has("*RoaringBitmap.Range", "if c.Type() == 1 { ac := c.(*arrayContainer) for _, low := range ac.values { if !fn(uint32(high)<<16 | uint32(low)) { return } } } else {") &&
		bodies["*arrayContainer.Type"] == "{ return 1 }" && bodies["*bitmapContainer.Type"] == "{ return 2 }"

	// (d) other constants the model copies
	arrIterStart := "0"
	if m := regexp.MustCompile(`^\{ return &arrayContainerIter\{c: ac, i: (-?\d+)\} \}$`).FindStringSubmatch(bodies["*arrayContainer.Iter"]); m != nil {
		arrIterStart = m[1]
	}
	arrIterNext := bodies["*arrayContainerIter.Next"] == "{ if i.i < len(i.c.values)-1 { i.i++ return true } return false }" &&
		bodies["*arrayContainerIter.Value"] == "{ return i.c.values[i.i] }"
	bitmapIterNext := bodies["*BitmapIter.Next"] == "{ if bi.read { bi.read = false bi.j++ } for bi.i < len(bi.bm.set) { for bi.j < 64 { if bi.bm.set[bi.i]&(1<<bi.j) != 0 { bi.read = true return true } bi.j++ } bi.i++ bi.j = 0 } return false }" &&
		bodies["*BitmapIter.Value"] == "{ return uint(bi.i<<6 + bi.j) }" &&
		bodies["*bitmapContainerIter.Value"] == "{ return uint16((*BitmapIter)(i).Value()) }"
	iterValue := bodies["*RoaringBitmapIter.Value"] == "{ return uint32(i.node.Key())<<16 | uint32(i.iter.Value()) }"
	split := true
	for _, fn := range []string{"*RoaringBitmap.Add", "*RoaringBitmap.Remove", "*RoaringBitmap.Contains"} {
		split = split && strings.HasPrefix(bodies[fn], "{ high := uint16(num >> 16) low := uint16(num) ")
	}
	// (the text fact bitSplitShape about Bitmap.Add/Remove/Contains/add is retired: since wave 9 those four
	// functions are regenerated by go2lean and tied by c03_trans_Bitmap_{Add,Remove,Contains,add})
	cachedLen := bodies["*Bits.Add"] == "{ if b.Bitmap.Add(num) { b.length++ return true } return false }" &&
		bodies["*Bits.Remove"] == "{ if b.Bitmap.Remove(num) { b.length-- return true } return false }" &&
		bodies["*Bits.Len"] == "{ return b.length }" &&
		bodies["*bitmapContainer.Add"] == "{ return b, (*Bits)(b).Add(uint(x)) }" &&
		bodies["*bitmapContainer.Remove"] == "{ return (*Bits)(b).Remove(uint(x)) }" &&
		bodies["*bitmapContainer.Len"] == "{ return (*Bits)(b).Len() }"
	// setZero: `for i := 0; i < N; i += S` with b.set[i], b.set[i+1] … b.set[i+S-1] = 0
	setZero := "0"
	if m := regexp.MustCompile(`^\{ for i := 0; i < (\d+); i \+= (\d+) \{ (.*) \} \}$`).FindStringSubmatch(bodies["*bitmapContainer.setZero"]); m != nil {
		var want strings.Builder
		var s int
		fmt.Sscanf(m[2], "%d", &s)
		for k := 0; k < s && s <= 4096; k++ {
			if k == 0 {
				want.WriteString("b.set[i] = 0")
			} else {
				fmt.Fprintf(&want, " b.set[i+%d] = 0", k)
			}
		}
		var n int
		fmt.Sscanf(m[1], "%d", &n)
		if s > 0 && m[3] == want.String() && n%s == 0 {
			setZero = m[1]
		}
	}
	searchBody := bodies["search"] == "{ low, high := 0, len(values) for low < high { mid := int(uint(low+high) >> 1) if values[mid] < x { low = mid + 1 } else { high = mid } } return low }"

	var b strings.Builder
	b.WriteString("-- generated by vcheck from setz/roaring_bitmap.go, setz/iter.go, setz/bits.go on every run; do not edit\n")
	b.WriteString("namespace Golib.Gen.C03\n")
	b.WriteString("def extractorOK : Bool := true\n")
	fmt.Fprintf(&b, "/-- `if len(ac.values) < N` in arrayContainer.Add -/\ndef threshold : Nat := %s\n", thr)
	fmt.Fprintf(&b, "/-- `buf [N]uint16` -/\ndef bufLen : Nat := %s\n", bufLen)
	fmt.Fprintf(&b, "/-- `*(*[N]uint64)(unsafe.Pointer(&ac.values[0]))` -/\ndef words : Nat := %s\n", words)
	fmt.Fprintf(&b, "/-- `newContainer.length = N` -/\ndef convertedLen : Nat := %s\n", card)
	fmt.Fprintf(&b, "/-- `i.iter = nil` directly after `i.node = i.node.Next()` at the end of the loop body of Next -/\ndef iterReset : Bool := %v\n", reset)
	fmt.Fprintf(&b, "/-- the function returned by RoaringBitmap.All (setz/iter.go) has the body of Range modulo the callback's name -/\ndef allBodyEqRange : Bool := %v\n", allEq)
	fmt.Fprintf(&b, "/-- Remove: `ok = c.Remove(low); if ok { r.len--; if c.Len() == 0 { r.containers.Remove(high) } }; return ok`, the only call of containers.Remove -/\ndef removeGuard : Bool := %v\n", removeGuard)
	fmt.Fprintf(&b, "/-- arrayContainer.Add: `pos := search(…)`, then the duplicate test returning `ac, false`, then the `len(ac.values) < N` test -/\ndef addDupBeforeThreshold : Bool := %v\n", dupFirst)
	fmt.Fprintf(&b, "/-- `for j := 0; j < N; j++` in Range -/\ndef rangeInnerBound : Nat := %s\n", rangeInner)
	fmt.Fprintf(&b, "/-- Range: `c.Type() == 1` selects the array loop over ac.values (Type() = 1 / 2), else `for i < len(set)`, `set[i]&(1<<j) != 0`, value `uint32(high)<<16 | uint32(i<<6+j)` -/\ndef rangeShape : Bool := %v\n", rangeShape)
	fmt.Fprintf(&b, "/-- `&arrayContainerIter{c: ac, i: N}` -/\ndef arrIterStart : Int := %s\n", arrIterStart)
	fmt.Fprintf(&b, "/-- arrayContainerIter.Next / Value as modelled (`i.i < len(i.c.values)-1`, `values[i.i]`) -/\ndef arrIterShape : Bool := %v\n", arrIterNext)
	fmt.Fprintf(&b, "/-- BitmapIter.Next (read flag, `bi.j < 64`, `bi.i++; bi.j = 0`) / Value (`bi.i<<6 + bi.j`, truncated to uint16) as modelled -/\ndef bitmapIterShape : Bool := %v\n", bitmapIterNext)
	fmt.Fprintf(&b, "/-- RoaringBitmapIter.Value = `uint32(i.node.Key())<<16 | uint32(i.iter.Value())` -/\ndef iterValueShape : Bool := %v\n", iterValue)
	fmt.Fprintf(&b, "/-- Add/Remove/Contains start with `high := uint16(num >> 16); low := uint16(num)` -/\ndef splitShape : Bool := %v\n", split)
	fmt.Fprintf(&b, "/-- Bits.Add/Remove/Len keep the cached length (`length++` / `length--` exactly when the Bitmap answers true); bitmapContainer delegates to them -/\ndef cachedLenShape : Bool := %v\n", cachedLen)
	fmt.Fprintf(&b, "/-- setZero: `for i := 0; i < N; i += S` assigning b.set[i] … b.set[i+S-1] = 0, S | N (0: shape not found) -/\ndef setZeroWords : Nat := %s\n", setZero)
	fmt.Fprintf(&b, "/-- `search` is the loop the model's searchLoop mirrors -/\ndef searchShape : Bool := %v\n", searchBody)
	fmt.Fprintf(&b, "def iterNextBody : String := %q\n", next)
	b.WriteString("end Golib.Gen.C03\n")
	return b.String(), nil
}
