package c03

import (
	"fmt"
	"runtime"
	"slices"
	"sync"
	"time"

	"verifharness/internal/core"
)

// Wave 6, class 10: several RoaringBitmaps used alternately on one goroutine (stream
// `multi`, op `obj k`), and one RoaringBitmap per goroutine, never shared, run in parallel
// and judged afterwards (Extra `parallel-confined`).

// multiGen drives 2–4 per-object generator states that write into one line list.
type multiGen struct {
	r    *core.Rand
	subs []*genState
	cur  int
	out  []string
}

// on switches to object k (emitting `obj k` when it is not current) and runs f on its state.
func (m *multiGen) on(k int, f func(g *genState)) {
	if k != m.cur {
		m.out = append(m.out, fmt.Sprintf("obj %d", k))
		m.cur = k
	}
	g := m.subs[k]
	f(g)
	m.out = append(m.out, g.lines...)
	g.lines = g.lines[:0]
}

func genMulti(r *core.Rand, thorough bool) core.Case {
	n := r.Range(2, 4)
	m := &multiGen{r: r, out: []string{"@ C03 rb"}}
	// the objects often use the SAME bucket keys and the same value patterns
	shared := []uint32{uint32(r.Intn(65536)), uint32(r.Intn(65536)), []uint32{0, 1, 0xFFFF}[r.Intn(3)]}
	ids := []int{0, 1, 2, 3}
	for i := 3; i > 0; i-- {
		j := r.Intn(i + 1)
		ids[i], ids[j] = ids[j], ids[i]
	}
	ids = ids[:n]
	m.subs = make([]*genState, nObjects)
	for _, k := range ids {
		g := &genState{r: r, s: newRef(), hist: map[uint32][]bulkArgs{}}
		for len(g.his) < r.Range(1, 3) {
			h := shared[r.Intn(len(shared))]
			if r.Chance(20) {
				h = uint32(r.Intn(65536))
			}
			if !slices.Contains(g.his, h) {
				g.his = append(g.his, h)
			}
		}
		m.subs[k] = g
	}
	pick := func() int { return ids[r.Intn(n)] }
	dense := false
	events := r.Range(3, 6)
	if thorough {
		events = r.Range(4, 8)
	}
	for ; events > 0; events-- {
		switch r.Pick(4, 4, 3, 2) {
		case 0: // alternating conversions: A to 4096, B to 4096, A converts, B converts, both enumerated
			a, b := pick(), pick()
			if a == b {
				b = ids[(slices.Index(ids, a)+1)%n]
			}
			h := shared[r.Intn(2)]
			sameRun := r.Bool()
			start := r.Intn(60000)
			for _, k := range []int{a, b} {
				m.on(k, func(g *genState) {
					if g.s.conv[h] {
						g.shrinkTo(h, 0)
					}
					if g.s.cnt[h] == 0 && sameRun {
						g.bulk(false, bulkArgs{int(h), start, 4096, 1})
					} else {
						g.growTo(h, 4096)
					}
					if r.Chance(40) {
						g.rep()
					}
				})
			}
			for _, k := range []int{a, b} {
				m.on(k, func(g *genState) {
					if v, ok := g.absent(h, r.Intn(3)); ok {
						g.add(v)
						g.rep()
					}
				})
			}
			for _, k := range []int{a, b, a} {
				m.on(k, func(g *genState) { g.enumAll() })
			}
			dense = true
		case 1: // small traffic, one op group per object in turn
			for rounds := r.Range(2, 6); rounds > 0; rounds-- {
				m.on(pick(), func(g *genState) {
					switch r.Pick(4, 2, 3) {
					case 0:
						g.bulk(false, bulkArgs{int(g.bucketKey()), r.Intn(65536), r.Range(1, 30), steps[r.Intn(len(steps))]})
					case 1:
						g.bulk(true, bulkArgs{int(g.bucketKey()), r.Intn(65536), r.Range(1, 30), steps[r.Intn(len(steps))]})
					case 2:
						g.singles(r.Range(1, 4))
					}
					if r.Chance(60) {
						g.rep()
					}
					g.probe(r.Bool())
				})
			}
		case 2: // handles of one object used after the other object was mutated / used
			a, b := pick(), pick()
			m.on(a, func(g *genState) {
				g.emit("seq 0")
				g.emit("it 0")
				g.emit("itnext 0 %d", r.Range(1, 3))
			})
			m.on(b, func(g *genState) {
				g.emit("it 0")
				g.singles(r.Range(1, 3))
				g.emit("seq 0")
				g.emit("itnext 0 1")
				g.emit("seqrange 0 0")
			})
			m.on(a, func(g *genState) {
				g.emit("itnext 0 %d", r.Range(1, 3))
				g.emit("seqtwice 0 %d", r.Range(1, 3))
				g.emit("pull2 0 0")
				g.emit("itpairs 2")
			})
		case 3: // one object emptied completely while the others keep their content
			m.on(pick(), func(g *genState) {
				for _, h := range g.s.keys() {
					g.shrinkTo(h, 0)
				}
				g.rep()
				g.probe(true)
			})
		}
	}
	for _, k := range []int{0, 1, 2, 3} { // every object (also the never used ones) at the end
		if m.subs[k] == nil {
			m.subs[k] = &genState{r: r, s: newRef(), hist: map[uint32][]bulkArgs{}, his: []uint32{0}}
		}
		m.on(k, func(g *genState) {
			g.emit("len")
			g.rep()
			g.lines = append(g.lines, "iter", "range 0", "all 0")
		})
	}
	tag := "multi"
	if dense {
		tag += "-dense"
	}
	return core.Case{Lines: m.out, Tag: tag}
}

// ---- Extra: parallel-confined ---------------------------------------------------------------

// genConfined: the op list of goroutine g: 2–3 buckets taken across 4096 again and again
// (ascending run of 4090 values, single adds up to 4100, drained to nothing, again), with
// value patterns that differ per goroutine, dumps and enumerations in between.
func genConfined(r *core.Rand, g, cycles int) core.Case {
	lines := []string{"@ C03 rb"}
	nb := r.Range(2, 3)
	var hs []int
	for len(hs) < nb {
		h := r.Intn(65536)
		if r.Chance(50) {
			h = []int{0, 1, 7}[r.Intn(3)] // the same keys in every goroutine
		}
		if !slices.Contains(hs, h) {
			hs = append(hs, h)
		}
	}
	emit := func(f string, a ...any) { lines = append(lines, fmt.Sprintf(f, a...)) }
	for c := 0; c < cycles; c++ {
		for _, h := range hs {
			start := (g*6151 + c*97 + r.Intn(50)) % 56000
			step := []int{1, 1, 1, 3}[r.Intn(4)]
			emit("fill %d %d 4090 %d", h, start, step)
			top := start + 4090*step
			for i := 0; i < 10; i++ { // 4091 … 4100: the conversion is the 7th of these
				emit("add %d", h<<16|((top+i*step)%65536))
			}
			if c%3 == 0 || c == cycles-1 {
				emit("rep")
			}
			if c == cycles-1 {
				break // the last cycle leaves the bucket dense
			}
			emit("drain %d %d 4100 %d", h, start, step)
		}
	}
	lines = append(lines, "len", "rep", "iter", "range 0", "all 0")
	for _, h := range hs {
		emit("has %d", h<<16|(g*6151%56000))
	}
	return core.Case{Lines: lines, Tag: "parallel-confined"}
}

// extraParallel: G goroutines, each owning ONE RoaringBitmap that is never shared (ordinary
// use of a type that is not safe for concurrent use), started together; every goroutine's
// answers are judged afterwards by the same independent oracle as the sequential cases.  No
// state is shared between the objects in correct code, so the verdict cannot depend on timing.
func extraParallel(ctx *core.Ctx) (int, string, []core.ExtraFailure) {
	procs := runtime.GOMAXPROCS(0)
	g := 4
	budget := 2 * time.Second
	if ctx.Tier == "thorough" || ctx.Escalate > 1 {
		g = 8
		budget = 12 * time.Second
	}
	r := ctx.Rand
	t0 := time.Now()
	evals, rounds, convs := 0, 0, 0
	var fails []core.ExtraFailure
	for time.Since(t0) < budget && len(fails) == 0 {
		rounds++
		cases := make([]core.Case, g)
		outs := make([][]string, g)
		for i := range cases {
			cases[i] = genConfined(r.Fork(), i, 6)
		}
		var start, done sync.WaitGroup
		start.Add(1)
		for i := range cases {
			done.Add(1)
			go func(i int) {
				defer done.Done()
				spin := uint64(i + 1)
				start.Wait()
				outs[i] = implPause(cases[i], func() {
					spin = spin*6364136223846793005 + 1
					if spin>>60 == 0 {
						runtime.Gosched()
					}
				})
			}(i)
		}
		start.Done()
		done.Wait()
		// judged after all goroutines have finished (each against its own reference)
		verdicts := make([]*core.Failure, g)
		var jw sync.WaitGroup
		for i := range cases {
			jw.Add(1)
			go func(i int) { defer jw.Done(); verdicts[i] = check(cases[i], outs[i]) }(i)
		}
		jw.Wait()
		for i, f := range verdicts {
			evals++
			convs += 6 * 2
			if f != nil && len(fails) == 0 {
				all := make([][]string, g)
				for k := range cases {
					all[k] = cases[k].Lines
				}
				fails = append(fails, core.ExtraFailure{
					Failure: core.Failure{Key: "parallel-confined", Desc: fmt.Sprintf("goroutine %d of %d (each owning its own RoaringBitmap, never shared): %s [%s]", i, g, f.Desc, f.Key)},
					Payload: map[string]any{"goroutine": i, "inner_key": f.Key, "lines_per_goroutine": all, "impl_out_of_failing_goroutine": clipOut(outs[i])},
				})
			}
		}
	}
	note := fmt.Sprintf("%d rounds of %d goroutines (GOMAXPROCS=%d), one RoaringBitmap per goroutine never shared, ≥ %d conversions across 4096 overlapping in time; every goroutine's answers judged afterwards by the independent oracle against its own reference (objects confined to one goroutine each = ordinary use of a non-thread-safe type; no shared state in correct code, so no timing-dependent verdict)", rounds, g, procs, convs)
	if procs < 2 {
		note += "; GOMAXPROCS is 1: conversions interleave only at preemption points"
	}
	return evals, note, fails
}

func clipOut(out []string) []string {
	o := make([]string, len(out))
	for i, l := range out {
		if len(l) > 200 {
			l = l[:200] + "…"
		}
		o[i] = l
	}
	return o
}
