package c03

import (
	"slices"
)

// Wave-3 streams: LARGE (sizes), HISTORY (repeated phases on the same bitmap) and
// MAGNITUDE (values around every k·65536).  All of them only use the existing ops.

// enumAll runs each of the three full enumerations (All, Range, Iter) and the dump.
func (g *genState) enumAll() {
	g.rep()
	ops := []string{"all 0", "range 0", "iter"}
	for i := len(ops) - 1; i > 0; i-- {
		j := g.r.Intn(i + 1)
		ops[i], ops[j] = ops[j], ops[i]
	}
	g.lines = append(g.lines, ops...)
	if g.r.Chance(40) {
		g.emit("iterk %d", g.pickStop())
		g.emit("iter")
	}
}

// toThreshold takes an array bucket to exactly 4096 with one ascending run.
func (g *genState) toThreshold(h uint32) {
	if g.s.conv[h] {
		return
	}
	g.growTo(h, 4096)
}

// ---- LARGE (a): buckets crossing 4096 several times ------------------------------------

func (g *genState) largeCrossings(thorough bool) {
	r := g.r
	nb := r.Range(2, 3)
	rounds := 2
	if thorough {
		nb = r.Range(2, 4)
		rounds = r.Range(2, 3)
	}
	g.his = g.his[:0]
	for len(g.his) < nb {
		h := uint32(r.Intn(65536))
		if r.Chance(40) {
			h = []uint32{0, 1, 0x7FFF, 0x8000, 0xFFFF}[r.Intn(5)]
		}
		if !slices.Contains(g.his, h) {
			g.his = append(g.his, h)
		}
	}
	for round := 0; round < rounds; round++ {
		for _, h := range g.his {
			// fill to 4096, duplicate, 4097
			g.toThreshold(h)
			g.rep()
			if m, ok := g.member(h); ok {
				g.add(m)
				g.rep()
			}
			if v, ok := g.absent(h, r.Intn(3)); ok {
				g.add(v)
				g.rep()
			}
			g.probe(true)
			// back below 4096: stays a bitmap; refill across 4096 while a bitmap
			g.shrinkTo(h, r.Range(4090, 4096))
			g.rep()
			if r.Bool() {
				g.probe(true)
			}
			g.bulk(false, bulkArgs{int(h), r.Intn(65536), r.Range(20, 400), steps[r.Intn(len(steps))]})
			g.rep()
			g.probe(true)
			// drain to 0, re-create
			g.shrinkTo(h, 0)
			g.rep()
			g.probe(true)
			g.bulk(false, bulkArgs{int(h), r.Intn(65536), r.Range(1, 5), 1})
			g.rep()
		}
	}
	// the last round leaves small arrays; convert one of them once more and finish
	g.convertEvent(g.his[r.Intn(len(g.his))])
}

// ---- LARGE (b): one bucket with 60 000+ members ----------------------------------------

func (g *genState) largeFull() {
	r := g.r
	h := uint32(r.Intn(65536))
	if r.Chance(40) {
		h = []uint32{0, 0xFFFF, 0x8000}[r.Intn(3)]
	}
	g.his = []uint32{h}
	if r.Bool() { // a neighbour bucket on each side
		if h > 0 {
			g.add((h-1)<<16 | 0xFFFF)
		}
		if h < 0xFFFF {
			g.add((h + 1) << 16)
		}
	}
	n := r.Range(60000, 65536)
	if r.Chance(35) {
		n = 65536
	}
	step := []int{1, 1, 3, 7, 65535, 40503}[r.Intn(6)] // all coprime to 65536: n distinct values
	start := r.Intn(65536)
	g.bulk(false, bulkArgs{int(h), start, n, step})
	g.enumAll()
	g.emit("len")
	g.has(h<<16 | uint32(r.Intn(65536)))
	g.emit("range %d", g.pickStop())
	g.emit("all %d", g.pickStop())
	// duplicates over the whole range, then a partial drain, enumerations, the rest
	if r.Chance(40) {
		g.bulk(false, bulkArgs{int(h), r.Intn(65536), r.Range(100, 3000), 1})
		g.rep()
	}
	k := r.Range(1, n-1)
	g.bulk(true, bulkArgs{int(h), start, k, step})
	g.enumAll()
	if r.Chance(60) {
		g.bulk(true, bulkArgs{int(h), (start + k*step) % 65536, n - k, step})
	} else {
		g.bulk(true, bulkArgs{int(h), 0, 65536, 1})
	}
	g.enumAll()
}

// ---- LARGE (c): 300+ buckets emptied in descending / random / ascending order -----------

func (g *genState) largeBuckets(thorough bool) {
	r := g.r
	nb := r.Range(300, 400)
	if thorough && r.Chance(30) {
		nb = r.Range(400, 1200)
	}
	keys := map[uint32]bool{}
	var ks []uint32
	base := uint32(r.Intn(65536 - 2*nb))
	dense := r.Bool() // consecutive keys or scattered ones
	for len(ks) < nb {
		h := uint32(r.Intn(65536))
		if dense {
			h = base + uint32(len(ks))
		}
		if r.Chance(2) {
			h = []uint32{0, 0xFFFF}[r.Intn(2)]
		}
		if !keys[h] {
			keys[h] = true
			ks = append(ks, h)
		}
	}
	// insertion order: ascending, descending or as drawn
	switch r.Intn(3) {
	case 0:
		slices.Sort(ks)
	case 1:
		slices.Sort(ks)
		slices.Reverse(ks)
	}
	for i, h := range ks {
		switch r.Pick(6, 2, 2) {
		case 0:
			g.add(h<<16 | uint32(r.Intn(65536)))
		case 1:
			g.add(h<<16 | []uint32{0, 0xFFFF}[r.Intn(2)])
		case 2:
			g.bulk(false, bulkArgs{int(h), r.Intn(65536), r.Range(2, 3), steps[r.Intn(len(steps))]})
		}
		if i%97 == 96 {
			g.rep()
		}
	}
	g.his = ks[:8]
	g.enumAll()
	// removal order
	order := g.s.keys()
	mode := r.Pick(5, 3, 2) // descending, random, ascending
	switch mode {
	case 0:
		slices.Reverse(order)
	case 1:
		for i := len(order) - 1; i > 0; i-- {
			j := r.Intn(i + 1)
			order[i], order[j] = order[j], order[i]
		}
	}
	every := r.Range(15, 60)
	for i, h := range order {
		for _, v := range append([]uint32{}, g.s.bucket(h)...) {
			g.rm(v)
		}
		if i%every == every-1 || i == len(order)-1 || i == len(order)-2 {
			g.rep()
			switch r.Intn(3) {
			case 0:
				g.emit("iter")
			case 1:
				g.emit("range 0")
			case 2:
				g.emit("all 0")
			}
		}
	}
}

// ---- LARGE (d): dense buckets with long empty word runs and isolated members -----------

// isolatedLows draws low halves that leave most of the 1024 words empty.
func (g *genState) isolatedLows() []uint32 {
	r := g.r
	var ls []uint32
	bit := func() uint32 { return []uint32{0, 63, uint32(r.Intn(64)), 1, 62}[r.Intn(5)] }
	w3 := func() uint32 { return uint32(4*r.Intn(256) + 3) } // word index ≡ 3 mod 4
	switch r.Pick(4, 2, 2, 2, 2, 2) {
	case 0: // a single member whose word index ≡ 3 mod 4, its three lower neighbours empty
		ls = append(ls, w3()<<6|bit())
	case 1: // words 0 and 1023 only
		ls = append(ls, bit(), 1023<<6|bit())
		if r.Bool() {
			ls = append(ls, 63, 1023<<6|63)
		}
	case 2: // low values 64k+63
		for k := r.Range(1, 5); k > 0; k-- {
			ls = append(ls, uint32(r.Intn(1024))<<6|63)
		}
	case 3: // around words 255 / 256 / 257
		for _, w := range []uint32{255, 256, 257} {
			if r.Chance(60) {
				ls = append(ls, w<<6|bit())
			}
		}
		ls = append(ls, 256<<6-1+uint32(r.Intn(3)))
	case 4: // several lone words of every residue, far apart
		for k := r.Range(2, 6); k > 0; k-- {
			ls = append(ls, uint32(r.Intn(1024))<<6|bit())
		}
		ls = append(ls, w3()<<6|bit())
	case 5: // last word of a group of 8 / 16 / 2
		m := []int{2, 8, 16, 32}[r.Intn(4)]
		ls = append(ls, uint32(m*r.Intn(1024/m)+m-1)<<6|bit())
		if r.Bool() {
			ls = append(ls, 1023<<6|63)
		}
	}
	return ls
}

func (g *genState) largeSparseWords(thorough bool) {
	r := g.r
	nb := r.Range(1, 3)
	g.his = g.his[:0]
	for len(g.his) < nb {
		h := uint32(r.Intn(65536))
		if r.Chance(30) {
			h = []uint32{0, 0xFFFF, 1}[r.Intn(3)]
		}
		if !slices.Contains(g.his, h) {
			g.his = append(g.his, h)
		}
	}
	h := g.his[0]
	for _, o := range g.his[1:] { // sparse neighbours
		g.bulk(false, bulkArgs{int(o), r.Intn(65536), r.Range(1, 4), steps[r.Intn(len(steps))]})
	}
	// dense: one run of 4097 somewhere
	start := r.Intn(65536 - 4097)
	g.bulk(false, bulkArgs{int(h), start, 4097, 1})
	g.rep()
	rounds := 1
	if thorough {
		rounds = r.Range(1, 3)
	}
	for ; rounds > 0; rounds-- {
		lows := g.isolatedLows()
		// keep the bucket alive (and a bitmap) while the run goes away
		far := h<<16 | uint32((start+30000)%65536)
		g.add(far)
		g.bulk(true, bulkArgs{int(h), start, 4097, 1})
		for _, l := range lows {
			g.add(h<<16 | l)
		}
		// everything else of this bucket goes
		for _, v := range append([]uint32{}, g.s.bucket(h)...) {
			if !slices.Contains(lows, v&0xFFFF) {
				g.rm(v)
			}
		}
		g.enumAll()
		g.emit("iterk %d", r.Range(1, len(lows)+1))
		// one by one, with all three enumerations in between
		for g.s.cnt[h] > 1 {
			v, _ := g.member(h)
			g.rm(v)
			if r.Chance(70) {
				g.enumAll()
			}
		}
		if rounds > 1 { // next pattern on the same bitmap container
			start = r.Intn(65536 - 4097)
			g.bulk(false, bulkArgs{int(h), start, r.Range(50, 300), 1})
			g.enumAll()
		}
	}
	last, ok := g.member(h)
	if ok && r.Bool() {
		g.rm(last)
		g.enumAll()
	}
}

// ---- HISTORY ---------------------------------------------------------------------------

func (g *genState) historyScript(thorough bool) {
	r := g.r
	nb := r.Range(1, 3)
	g.his = g.his[:0]
	for len(g.his) < nb {
		h := uint32(r.Intn(65536))
		if !slices.Contains(g.his, h) {
			g.his = append(g.his, h)
		}
	}
	h := g.his[0]
	for _, o := range g.his[1:] {
		g.bulk(false, bulkArgs{int(o), r.Intn(65536), r.Range(1, 30), steps[r.Intn(len(steps))]})
	}
	stage := func() { // an iterator created and dropped at every stage
		if r.Chance(75) {
			g.emit("iterk %d", r.Range(0, 6))
		}
		if r.Chance(35) {
			g.rep()
		}
	}
	dense := r.Chance(60)
	if dense {
		g.bulk(false, bulkArgs{int(h), r.Intn(60000), r.Range(4097, 4200), 1})
		g.rep()
	}
	cycles := r.Range(5, 12)
	if thorough {
		cycles = r.Range(5, 20)
	}
	for c := 0; c < cycles; c++ {
		if !dense && thorough && r.Chance(12) { // across the threshold once more
			g.bulk(false, bulkArgs{int(h), r.Intn(60000), r.Range(4097, 4200), 1})
			g.rep()
			dense = g.s.conv[h]
		}
		n := r.Range(1, 60)
		if dense {
			n = r.Range(50, 2500)
		}
		a := bulkArgs{int(h), r.Intn(65536), n, steps[r.Intn(len(steps))]}
		g.bulk(false, a)
		stage()
		if r.Chance(30) {
			g.probe(true)
		}
		switch r.Pick(6, 2, 2) {
		case 0: // drain exactly what was filled (a dense bucket keeps its older members)
			g.bulk(true, a)
		case 1: // the same values from the last to the first
			g.bulk(true, bulkArgs{a.hi, (a.start + (a.n-1)*a.step) % 65536, a.n, (65536 - a.step) % 65536})
		case 2: // down to nothing: the bucket vanishes and is re-created by the next cycle
			g.shrinkTo(h, 0)
		}
		stage()
		if !g.s.conv[h] {
			dense = false
		}
	}
	g.probe(true)
	// the same Add / Remove repeated N times
	for k := r.Range(1, 3); k > 0; k-- {
		v := g.pickVal()
		n := r.Range(3, 12)
		for i := 0; i < n; i++ {
			g.add(v)
		}
		stage()
		for i := 0; i < n; i++ {
			g.rm(v)
		}
		stage()
		if m, ok := g.member(h); ok && r.Bool() {
			for i := r.Range(2, 5); i > 0; i-- {
				g.rm(m)
				g.add(m)
			}
			g.rep()
		}
	}
}

// ---- MAGNITUDE -------------------------------------------------------------------------

var magnitudeKs = []uint32{1, 2, 255, 256, 257, 32767, 32768, 65535}

func (g *genState) magnitudeScript() {
	r := g.r
	var ks []uint32
	for n := r.Range(2, 5); n > 0; n-- {
		k := magnitudeKs[r.Intn(len(magnitudeKs))]
		if r.Chance(35) {
			k = uint32(r.Range(1, 65535))
		}
		ks = append(ks, k)
	}
	g.his = g.his[:0]
	for _, k := range ks {
		for _, h := range []uint32{k - 1, k} {
			if !slices.Contains(g.his, h) {
				g.his = append(g.his, h)
			}
		}
	}
	// one of the buckets involved is made dense first (k or k-1), sometimes none
	if r.Chance(65) {
		h := g.his[r.Intn(len(g.his))]
		g.bulk(false, bulkArgs{int(h), r.Range(2, 60000), r.Range(4097, 4110), 1})
		g.rep()
	}
	var vals []uint32
	for _, k := range ks {
		vals = append(vals, k*65536-1, k*65536, k*65536+1)
	}
	vals = append(vals, 0, 0xFFFF, 0x10000, 0xFFFFFFFF)
	for i := len(vals) - 1; i > 0; i-- {
		j := r.Intn(i + 1)
		vals[i], vals[j] = vals[j], vals[i]
	}
	for _, v := range vals {
		g.has(v)
		g.add(v)
		g.has(v)
		if r.Chance(30) {
			g.add(v)
		}
		if r.Chance(40) {
			g.rep()
		}
	}
	g.enumAll()
	g.emit("range %d", g.pickStop())
	for i := len(vals) - 1; i > 0; i-- {
		j := r.Intn(i + 1)
		vals[i], vals[j] = vals[j], vals[i]
	}
	for i, v := range vals {
		g.rm(v)
		g.has(v)
		if r.Chance(25) {
			g.rm(v)
		}
		if r.Chance(40) {
			g.rep()
		}
		if i%4 == 3 {
			g.probe(true)
		}
	}
}

// w3Stream picks a wave-3 stream (or "" for the older light/heavy ones) and runs it.
func (g *genState) w3Stream(tier string) string {
	r := g.r
	th := tier == "thorough"
	// per mille: crossings, full, buckets, sparse words, history, magnitude
	w := []int{8, 5, 14, 45, 35, 45}
	if th {
		w = []int{15, 10, 20, 70, 45, 50}
	}
	x := r.Intn(1000)
	for i, k := range w {
		if x < k {
			switch i {
			case 0:
				g.largeCrossings(th)
				return "large-crossings"
			case 1:
				g.largeFull()
				return "large-full-bucket"
			case 2:
				g.largeBuckets(th)
				return "large-many-buckets"
			case 3:
				g.largeSparseWords(th)
				return "large-sparse-words"
			case 4:
				g.historyScript(th)
				return "history"
			case 5:
				g.magnitudeScript()
				return "magnitude"
			}
		}
		x -= k
	}
	return ""
}
