package c03

import (
	"slices"
	"sort"
)

// refSet is the reference "set of uint32" of the independent oracle (and the state the
// generator and the classifier track): a Go map, the per-bucket fill level, the
// representation history flag (fill level has exceeded 4096 since the bucket was last
// created), and a sorted copy that is kept up to date across single operations and
// rebuilt lazily after bulk ones.
type refSet struct {
	m      map[uint32]struct{}
	cnt    map[uint32]int
	conv   map[uint32]bool
	sorted []uint32
	clean  bool
	bulk   bool
}

func newRef() *refSet {
	return &refSet{m: map[uint32]struct{}{}, cnt: map[uint32]int{}, conv: map[uint32]bool{}, clean: true}
}

func (s *refSet) has(v uint32) bool { _, ok := s.m[v]; return ok }
func (s *refSet) size() int         { return len(s.m) }

// beginBulk: the following adds/removes do not maintain the sorted copy one by one.
func (s *refSet) beginBulk() { s.bulk = true; s.clean = false }
func (s *refSet) endBulk()   { s.bulk = false }

func (s *refSet) add(v uint32) bool {
	if _, ok := s.m[v]; ok {
		return false
	}
	s.m[v] = struct{}{}
	h := v >> 16
	s.cnt[h]++
	if s.cnt[h] > 4096 {
		s.conv[h] = true
	}
	if s.clean {
		i := sort.Search(len(s.sorted), func(i int) bool { return s.sorted[i] >= v })
		s.sorted = slices.Insert(s.sorted, i, v)
	}
	return true
}

func (s *refSet) rm(v uint32) bool {
	if _, ok := s.m[v]; !ok {
		return false
	}
	delete(s.m, v)
	h := v >> 16
	s.cnt[h]--
	if s.cnt[h] == 0 {
		delete(s.cnt, h)
		delete(s.conv, h)
	}
	if s.clean {
		i := sort.Search(len(s.sorted), func(i int) bool { return s.sorted[i] >= v })
		s.sorted = slices.Delete(s.sorted, i, i+1)
	}
	return true
}

// all returns the members ascending (do not modify).
func (s *refSet) all() []uint32 {
	if !s.clean {
		s.sorted = s.sorted[:0]
		for v := range s.m {
			s.sorted = append(s.sorted, v)
		}
		slices.Sort(s.sorted)
		s.clean = !s.bulk
	}
	return s.sorted
}

// bucket returns the members with high half h, ascending.
func (s *refSet) bucket(h uint32) []uint32 {
	xs := s.all()
	lo := sort.Search(len(xs), func(i int) bool { return xs[i] >= h<<16 })
	hi := sort.Search(len(xs), func(i int) bool { return xs[i] > h<<16|0xFFFF })
	return xs[lo:hi]
}

// keys returns the non-empty buckets ascending.
func (s *refSet) keys() []uint32 {
	ks := make([]uint32, 0, len(s.cnt))
	for h := range s.cnt {
		ks = append(ks, h)
	}
	slices.Sort(ks)
	return ks
}

// applyBulk runs a fill/drain over the reference and returns the number of `true`s;
// each is called for every value before it is applied (may be nil).
func (s *refSet) applyBulk(a bulkArgs, rm bool, each func(v uint32)) int {
	s.beginBulk()
	k := 0
	cur := a.start
	for j := 0; j < a.n; j++ {
		v := uint32(a.hi)<<16 | uint32(cur%65536)
		if each != nil {
			each(v)
		}
		if rm {
			if s.rm(v) {
				k++
			}
		} else if s.add(v) {
			k++
		}
		cur += a.step
	}
	s.endBulk()
	return k
}
