package c03

import (
	"fmt"
	"math/bits"
	"reflect"
	"strconv"
	"strings"
	"time"
	"unsafe"

	"github.com/welllog/golib/setz"
)

// Representation dump of the real RoaringBitmap, read by reflection (read-only):
//
//	len=<r.len> nb=<r.containers.len> then per node of the level-0 chain of r.containers
//	  <key>:a<len(values)>#<hash of values>                          *arrayContainer
//	  <key>:b<length>/<popcount of set>/<len(set)>#<hash of set>      *bitmapContainer
//
// The Lean driver prints the same line from the model state (`rep` in Model/C03.lean).

// hooks reports whether the private fields have the expected names and shapes; when they
// do not, `rep` is never generated and the check is API-only (said in Assumptions).
var hooks = probeHooks()

func fieldKind(t reflect.Type, name string, k reflect.Kind) (reflect.StructField, bool) {
	f, ok := t.FieldByName(name)
	return f, ok && f.Type.Kind() == k
}

func probeHooks() bool {
	if !staticShapes() {
		return false
	}
	// The container types are only visible on live values.  The probe runs the code under
	// test, so it is bounded: when it does not come back the static answer stands (a
	// non-terminating Add is then reported by the check itself, not by package init).
	res := make(chan bool, 1)
	go func() { res <- liveShapes() }()
	select {
	case ok := <-res:
		return ok
	case <-time.After(3 * time.Second):
		return true
	}
}

func staticShapes() bool {
	t := reflect.TypeOf(setz.RoaringBitmap{})
	if _, ok := fieldKind(t, "len", reflect.Int); !ok {
		return false
	}
	cf, ok := fieldKind(t, "containers", reflect.Struct)
	if !ok {
		return false
	}
	if _, ok := fieldKind(cf.Type, "len", reflect.Int); !ok {
		return false
	}
	hf, ok := fieldKind(cf.Type, "head", reflect.Struct)
	if !ok {
		return false
	}
	nf, ok := fieldKind(hf.Type, "next", reflect.Slice)
	if !ok || nf.Type.Elem().Kind() != reflect.Ptr || nf.Type.Elem().Elem() != hf.Type {
		return false
	}
	if _, ok := fieldKind(hf.Type, "key", reflect.Uint16); !ok {
		return false
	}
	_, ok = fieldKind(hf.Type, "val", reflect.Interface)
	return ok
}

// liveShapes: one sparse and one (normally) dense bucket must be readable.  Only
// readability counts: what the dump says is judged by the check, not by the probe.
func liveShapes() (ok bool) {
	defer func() {
		if r := recover(); r != nil {
			ok = false
		}
	}()
	var rb setz.RoaringBitmap
	if s, good := dumpRep(&rb); !good || s != "len=0 nb=0" {
		return false
	}
	for i := 0; i < 6000; i++ {
		rb.Add(uint32(3<<16 | (5 + i)))
	}
	rb.Add(1)
	s, good := dumpRep(&rb)
	if !good {
		return false
	}
	_, perr := parseRep(s)
	return perr == ""
}

func hashU16(xs []uint16) uint64 {
	h := uint64(7)
	for _, v := range xs {
		h = (h*1000003 + uint64(v) + 1) % 2147483647
	}
	return h
}

func hashWords(ws []uint64) uint64 {
	h := uint64(7)
	for _, w := range ws {
		h = (h*1000003 + w%2147483647 + 1) % 2147483647
	}
	return h
}

func popWords(ws []uint64) int {
	n := 0
	for _, w := range ws {
		n += bits.OnesCount64(w)
	}
	return n
}

// dumpRep never writes; good=false when a field is missing or has another shape.
func dumpRep(rb *setz.RoaringBitmap) (s string, good bool) {
	defer func() {
		if r := recover(); r != nil {
			s, good = fmt.Sprintf("rep-unavailable: %v", r), false
		}
	}()
	v := reflect.ValueOf(rb).Elem()
	cs := v.FieldByName("containers")
	var b strings.Builder
	fmt.Fprintf(&b, "len=%d nb=%d", v.FieldByName("len").Int(), cs.FieldByName("len").Int())
	hn := cs.FieldByName("head").FieldByName("next")
	if hn.IsNil() || hn.Len() == 0 {
		return b.String(), true
	}
	p := hn.Index(0)
	for steps := 0; !p.IsNil(); steps++ {
		if steps > 70000 {
			b.WriteString(" cycle")
			return b.String(), true
		}
		node := p.Elem()
		key := node.FieldByName("key").Uint()
		val := node.FieldByName("val")
		switch {
		case val.IsNil():
			fmt.Fprintf(&b, " %d:nil", key)
		default:
			c := val.Elem()
			if c.Kind() != reflect.Ptr || c.IsNil() {
				fmt.Fprintf(&b, " %d:nil", key)
				break
			}
			st := c.Elem()
			switch st.Type().Name() {
			case "arrayContainer":
				f := st.FieldByName("values")
				vals := *(*[]uint16)(unsafe.Pointer(f.UnsafeAddr()))
				fmt.Fprintf(&b, " %d:a%d#%d", key, len(vals), hashU16(vals))
			case "bitmapContainer":
				f := st.FieldByName("Bitmap").FieldByName("set")
				set := *(*[]uint64)(unsafe.Pointer(f.UnsafeAddr()))
				fmt.Fprintf(&b, " %d:b%d/%d/%d#%d", key, st.FieldByName("length").Int(), popWords(set), len(set), hashWords(set))
			default:
				panic("unknown container type " + st.Type().Name())
			}
		}
		nx := node.FieldByName("next")
		if nx.Len() == 0 {
			b.WriteString(" node-without-level0")
			return b.String(), true
		}
		p = nx.Index(0)
	}
	return b.String(), true
}

type repBucket struct {
	key   uint32
	kind  byte // 'a' | 'b'
	n     int  // len(values) | cached length
	pop   int  // bitmap: popcount
	words int  // bitmap: len(set)
	hash  uint64
}

type repDump struct {
	length, nb int
	buckets    []repBucket
}

// parseRep parses a dump line; err names what is malformed (cycle, nil container, …).
func parseRep(s string) (d repDump, err string) {
	t := strings.Fields(s)
	if len(t) < 2 || !strings.HasPrefix(t[0], "len=") || !strings.HasPrefix(t[1], "nb=") {
		return d, "no len=/nb= prefix"
	}
	var e1, e2 error
	d.length, e1 = strconv.Atoi(t[0][4:])
	d.nb, e2 = strconv.Atoi(t[1][3:])
	if e1 != nil || e2 != nil {
		return d, "len/nb not a number"
	}
	for _, x := range t[2:] {
		i := strings.IndexByte(x, ':')
		j := strings.IndexByte(x, '#')
		if i <= 0 || j < i+2 {
			return d, "bucket " + x
		}
		k, e := strconv.ParseUint(x[:i], 10, 16)
		if e != nil {
			return d, "bucket key " + x
		}
		bk := repBucket{key: uint32(k), kind: x[i+1]}
		h, e := strconv.ParseUint(x[j+1:], 10, 64)
		if e != nil {
			return d, "bucket hash " + x
		}
		bk.hash = h
		body := x[i+2 : j]
		switch bk.kind {
		case 'a':
			if bk.n, e = strconv.Atoi(body); e != nil {
				return d, "bucket " + x
			}
		case 'b':
			p := strings.Split(body, "/")
			if len(p) != 3 {
				return d, "bucket " + x
			}
			var ea, eb, ec error
			bk.n, ea = strconv.Atoi(p[0])
			bk.pop, eb = strconv.Atoi(p[1])
			bk.words, ec = strconv.Atoi(p[2])
			if ea != nil || eb != nil || ec != nil {
				return d, "bucket " + x
			}
		default:
			return d, "bucket " + x
		}
		d.buckets = append(d.buckets, bk)
	}
	return d, ""
}
