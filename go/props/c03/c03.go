// Package c03: RoaringBitmap is a set of uint32 with complete ascending enumeration
// (setz/roaring_bitmap.go, setz/iter.go).
package c03

import (
	"fmt"
	"sort"
	"strconv"
	"strings"

	"github.com/welllog/golib/setz"

	"verifharness/internal/core"
)

func init() {
	core.Register(&core.Prop{
		ID:       "C03",
		Title:    "RoaringBitmap behaves as a set of uint32 with complete ascending enumeration",
		Quick:    700,
		Thorough: 8000,
		Gen:      gen,
		Corpus:   corpus,
		Impl:     impl,
		Check:    check,
		NonTrivial: func(c core.Case, out []string) bool {
			// at least one enumeration over ≥ 2 buckets or over a bucket that was converted
			return strings.Contains(c.Tag, "multi") || strings.Contains(c.Tag, "dense")
		},
		Rule:     "op sequences (add/rm/has/len/fill/drain/range/all/iter) on a zero-value RoaringBitmap, values concentrated on 1–4 high-16-bit buckets, bucket fill levels steered around 4094–4099; non-trivial = the sequence enumerates ≥ 2 buckets or a bucket taken across the 4096 threshold; distinct by hash of the op list",
		Classify: classify,
		Facts:    facts,
		Parallel: true,
		Assumptions: []string{
			"Go int treated as unbounded (Len)",
			"no mutation of the bitmap while an enumeration is running",
			"the skip list under RoaringBitmap is modelled through its ordered-map interface (property C02)",
		},
		TrustedBase: []string{
			"the unsafe reinterpretation of the first 8192 bytes of the array container as [1024]uint64 is modelled as a fresh zeroed word array (setZero overwrites it)",
		},
	})
}

func corpus() []core.Case {
	return []core.Case{
		// F2 witness: three buckets
		{Lines: []string{"@ C03 rb", "add 1", "add 70000", "add 140000", "len", "iter", "range 0", "all 0"}, Tag: "corpus-multi"},
		{Lines: []string{"@ C03 rb", "iter", "range 0", "all 0", "len", "has 0", "rm 0"}, Tag: "corpus"},
		// exactly at the conversion threshold, value 0 / 0xFFFF / 0xFFFFFFFF
		{Lines: []string{"@ C03 rb", "fill 0 0 4096 1", "len", "iter", "add 65535", "len", "iter", "range 0", "all 0", "has 65535", "has 4096", "rm 0", "iter", "len"}, Tag: "corpus-dense"},
		{Lines: []string{"@ C03 rb", "fill 65535 65535 4097 65535", "add 4294967295", "has 4294967295", "len", "iter", "range 3", "all 5", "drain 65535 0 65535 1", "len", "iter", "rm 4294967295", "len", "iter", "add 4294967295", "iter"}, Tag: "corpus-dense"},
		{Lines: []string{"@ C03 rb", "fill 1 10 4097 3", "fill 2 0 5 1", "iter", "drain 1 10 4097 3", "iter", "len", "fill 1 7 2 1", "iter", "range 0"}, Tag: "corpus-dense-multi"},
	}
}

var steps = []int{1, 1, 1, 2, 3, 7, 16, 63, 64, 65, 4093, 40503, 65535}

func gen(r *core.Rand, tier string) core.Case {
	lines := []string{"@ C03 rb"}
	nb := r.Range(1, 4)
	pool := []int{0, 1, 2, 3, 0x7FFF, 0x8000, 0xFFFE, 0xFFFF}
	var his []int
	for len(his) < nb {
		h := pool[r.Intn(len(pool))]
		if r.Chance(20) {
			h = r.Intn(65536)
		}
		dup := false
		for _, x := range his {
			dup = dup || x == h
		}
		if !dup {
			his = append(his, h)
		}
	}
	ref := map[uint32]bool{}
	cnt := map[int]int{}
	heavy := r.Chance(12) || (tier == "thorough" && r.Chance(20))
	dense := false
	probe := func() {
		for k := r.Range(1, 3); k > 0; k-- {
			switch r.Pick(3, 3, 3, 2, 3) {
			case 0:
				lines = append(lines, "iter")
			case 1:
				lines = append(lines, fmt.Sprintf("range %d", pickStop(r, len(ref))))
			case 2:
				lines = append(lines, fmt.Sprintf("all %d", pickStop(r, len(ref))))
			case 3:
				lines = append(lines, "len")
			case 4:
				lines = append(lines, fmt.Sprintf("has %d", pickVal(r, his)))
			}
		}
	}
	apply := func(rm bool, hi, start, n, step int) {
		for i := 0; i < n; i++ {
			v := uint32(hi)<<16 | uint32((start+i*step)%65536)
			if rm {
				if ref[v] {
					delete(ref, v)
					cnt[hi]--
				}
			} else if !ref[v] {
				ref[v] = true
				cnt[hi]++
			}
		}
		op := "fill"
		if rm {
			op = "drain"
		}
		lines = append(lines, fmt.Sprintf("%s %d %d %d %d", op, hi, start, n, step))
	}
	phases := r.Range(2, 7)
	for p := 0; p < phases; p++ {
		hi := his[r.Intn(len(his))]
		if heavy {
			switch r.Pick(5, 3, 2, 2) {
			case 0: // steer the bucket's fill level to 4094..4099
				target := r.Range(4094, 4099)
				step := steps[r.Intn(len(steps))]
				if cnt[hi] < target {
					// a fresh arithmetic run adds at most `need` new members
					apply(false, hi, r.Intn(65536), target-cnt[hi], step)
				} else {
					apply(true, hi, r.Intn(65536), r.Range(1, 8), step)
				}
				if cnt[hi] > 4096 {
					dense = true
				}
			case 1: // removals from a (possibly dense) bucket
				apply(true, hi, r.Intn(65536), r.Range(1, 5000), steps[r.Intn(len(steps))])
			case 2: // empty the bucket completely, then refill a little
				apply(true, hi, 0, 65536, 1)
				if r.Bool() {
					apply(false, hi, r.Intn(65536), r.Range(1, 6), steps[r.Intn(len(steps))])
				}
			case 3:
				apply(false, hi, r.Intn(65536), r.Range(1, 6000), steps[r.Intn(len(steps))])
				if cnt[hi] > 4096 {
					dense = true
				}
			}
		} else {
			switch r.Pick(4, 2, 1) {
			case 0:
				apply(false, hi, r.Intn(65536), r.Range(1, 40), steps[r.Intn(len(steps))])
			case 1:
				apply(true, hi, r.Intn(65536), r.Range(1, 40), steps[r.Intn(len(steps))])
			case 2:
				apply(true, hi, 0, 65536, 1)
			}
		}
		// single operations around the edges
		for k := r.Range(0, 6); k > 0; k-- {
			v := pickVal(r, his)
			if r.Chance(55) {
				lines = append(lines, fmt.Sprintf("add %d", v))
				if !ref[uint32(v)] {
					ref[uint32(v)] = true
					cnt[v>>16]++
					if cnt[v>>16] > 4096 {
						dense = true
					}
				}
			} else {
				lines = append(lines, fmt.Sprintf("rm %d", v))
				if ref[uint32(v)] {
					delete(ref, uint32(v))
					cnt[v>>16]--
				}
			}
		}
		probe()
	}
	lines = append(lines, "len", "iter", "range 0", "all 0")
	tag := "light"
	if heavy {
		tag = "heavy"
	}
	if dense {
		tag += "-dense"
	}
	if nb > 1 {
		tag += "-multi"
	}
	return core.Case{Lines: lines, Tag: tag}
}

func pickStop(r *core.Rand, n int) int {
	if r.Chance(60) {
		return 0
	}
	if n > 0 && r.Chance(70) {
		return r.Range(1, n+1)
	}
	return r.Range(1, 5)
}

func pickVal(r *core.Rand, his []int) int {
	hi := his[r.Intn(len(his))]
	if r.Chance(5) {
		hi = r.Intn(65536)
	}
	var lo int
	switch r.Pick(3, 3, 2) {
	case 0:
		lo = []int{0, 1, 63, 64, 65, 4095, 4096, 4097, 0xFFFE, 0xFFFF}[r.Intn(10)]
	case 1:
		lo = r.Intn(65536)
	case 2:
		lo = r.Intn(130)
	}
	return hi<<16 | lo
}

func hashVals(xs []uint32) uint64 {
	h := uint64(7)
	for _, v := range xs {
		h = (h*1000003 + uint64(v) + 1) % 2147483647
	}
	return h
}

func showVals(xs []uint32) string {
	var b strings.Builder
	b.WriteByte('[')
	for i, v := range xs {
		if i > 0 {
			b.WriteByte(' ')
		}
		b.WriteString(strconv.FormatUint(uint64(v), 10))
	}
	b.WriteByte(']')
	return b.String()
}

func summary(xs []uint32) string {
	if len(xs) <= 24 {
		return showVals(xs)
	}
	return fmt.Sprintf("n=%d h=%d first=%s last=%s", len(xs), hashVals(xs), showVals(xs[:4]), showVals(xs[len(xs)-4:]))
}

func parseU32(s string) (uint32, bool) {
	v, err := strconv.ParseUint(s, 10, 32)
	return uint32(v), err == nil
}

type bulkArgs struct{ hi, start, n, step int }

func parseBulk(t []string) (bulkArgs, bool) {
	var a bulkArgs
	if len(t) != 5 {
		return a, false
	}
	var v [4]int
	for i := 0; i < 4; i++ {
		x, err := strconv.Atoi(t[i+1])
		if err != nil || x < 0 {
			return a, false
		}
		v[i] = x
	}
	a = bulkArgs{v[0], v[1], v[2], v[3]}
	if a.hi >= 65536 || a.start >= 65536 || a.step >= 65536 || a.n > 70000 {
		return a, false
	}
	return a, true
}

func impl(c core.Case) []string {
	var rb setz.RoaringBitmap
	return core.RunOps(c,
		func(hdr []string) string {
			if len(hdr) != 1 || hdr[0] != "rb" {
				return "bad-op"
			}
			return "ok"
		},
		func(t []string) string {
			if len(t) == 0 {
				return "bad-op"
			}
			switch t[0] {
			case "add", "rm", "has":
				if len(t) != 2 {
					return "bad-op"
				}
				v, ok := parseU32(t[1])
				if !ok {
					return "bad-op"
				}
				switch t[0] {
				case "add":
					return strconv.FormatBool(rb.Add(v))
				case "rm":
					return strconv.FormatBool(rb.Remove(v))
				}
				return strconv.FormatBool(rb.Contains(v))
			case "len":
				if len(t) != 1 {
					return "bad-op"
				}
				return strconv.Itoa(rb.Len())
			case "fill", "drain":
				a, ok := parseBulk(t)
				if !ok {
					return "bad-op"
				}
				k := 0
				cur := a.start
				for i := 0; i < a.n; i++ {
					v := uint32(a.hi)<<16 | uint32(cur%65536)
					var ok bool
					if t[0] == "fill" {
						ok = rb.Add(v)
					} else {
						ok = rb.Remove(v)
					}
					if ok {
						k++
					}
					cur += a.step
				}
				return strconv.Itoa(k)
			case "range", "all":
				if len(t) != 2 {
					return "bad-op"
				}
				stop, err := strconv.Atoi(t[1])
				if err != nil || stop < 0 {
					return "bad-op"
				}
				var xs []uint32
				fn := func(v uint32) bool {
					xs = append(xs, v)
					return len(xs) != stop
				}
				if t[0] == "range" {
					rb.Range(fn)
				} else {
					rb.All()(fn)
				}
				return summary(xs)
			case "iter":
				if len(t) != 1 {
					return "bad-op"
				}
				it := rb.Iter()
				var xs []uint32
				for it.Next() {
					xs = append(xs, it.Value())
					if len(xs) > rb.Len()+70000 {
						return "iter-does-not-terminate"
					}
				}
				return summary(xs) + " again=" + strconv.FormatBool(it.Next())
			}
			return "bad-op"
		})
}

// check is the property's own predicate: a map[uint32]bool reference plus sort,
// independent of the Lean model.
func check(c core.Case, out []string) *core.Failure {
	ref := map[uint32]bool{}
	sorted := func() []uint32 {
		xs := make([]uint32, 0, len(ref))
		for v := range ref {
			xs = append(xs, v)
		}
		sort.Slice(xs, func(i, j int) bool { return xs[i] < xs[j] })
		return xs
	}
	fail := func(i int, key, want string) *core.Failure {
		return &core.Failure{Key: key, Desc: fmt.Sprintf("op %d %q: implementation answered %q, a set of uint32 with %d members answers %q", i, c.Lines[i], out[i], len(ref), want)}
	}
	for i := 1; i < len(c.Lines); i++ {
		t := core.Toks(c.Lines[i])
		if out[i] == "bad-op" {
			continue
		}
		if out[i] == "panic" {
			return fail(i, "panic", "no panic")
		}
		switch t[0] {
		case "add":
			v, _ := parseU32(t[1])
			want := strconv.FormatBool(!ref[v])
			ref[v] = true
			if out[i] != want {
				return fail(i, "add-result", want)
			}
		case "rm":
			v, _ := parseU32(t[1])
			want := strconv.FormatBool(ref[v])
			delete(ref, v)
			if out[i] != want {
				return fail(i, "remove-result", want)
			}
		case "has":
			v, _ := parseU32(t[1])
			if want := strconv.FormatBool(ref[v]); out[i] != want {
				return fail(i, "contains", want)
			}
		case "len":
			if want := strconv.Itoa(len(ref)); out[i] != want {
				return fail(i, "len", want)
			}
		case "fill", "drain":
			a, _ := parseBulk(t)
			k := 0
			cur := a.start
			for j := 0; j < a.n; j++ {
				v := uint32(a.hi)<<16 | uint32(cur%65536)
				if t[0] == "fill" {
					if !ref[v] {
						k++
						ref[v] = true
					}
				} else if ref[v] {
					k++
					delete(ref, v)
				}
				cur += a.step
			}
			if want := strconv.Itoa(k); out[i] != want {
				return fail(i, t[0]+"-count", want)
			}
		case "range", "all":
			stop, _ := strconv.Atoi(t[1])
			xs := sorted()
			if stop > 0 && stop < len(xs) {
				xs = xs[:stop]
			}
			if want := summary(xs); out[i] != want {
				return fail(i, t[0]+"-enumeration", want)
			}
		case "iter":
			if want := summary(sorted()) + " again=false"; out[i] != want {
				return fail(i, "iter-enumeration", want)
			}
		}
	}
	return nil
}

func classify(c core.Case, out []string) []string {
	var ls []string
	ref := map[uint32]bool{}
	cnt := map[uint32]int{}
	conv := map[uint32]bool{}
	note := func(v uint32, add bool) {
		h := v >> 16
		if add && !ref[v] {
			ref[v] = true
			cnt[h]++
			if cnt[h] == 4097 && !conv[h] {
				conv[h] = true
				ls = append(ls, "array→bitmap conversion")
			}
		} else if !add && ref[v] {
			delete(ref, v)
			cnt[h]--
			if cnt[h] == 0 {
				if conv[h] {
					ls = append(ls, "dense bucket emptied")
				} else {
					ls = append(ls, "sparse bucket emptied")
				}
				delete(conv, h)
			} else if conv[h] {
				ls = append(ls, "remove from dense bucket")
			}
		}
	}
	for i, l := range c.Lines[1:] {
		t := core.Toks(l)
		switch t[0] {
		case "add", "rm":
			v, _ := parseU32(t[1])
			note(v, t[0] == "add")
		case "fill", "drain":
			a, _ := parseBulk(t)
			cur := a.start
			for j := 0; j < a.n; j++ {
				note(uint32(a.hi)<<16|uint32(cur%65536), t[0] == "fill")
				cur += a.step
			}
		case "iter", "range", "all":
			nb := 0
			dense := 0
			for h, n := range cnt {
				if n > 0 {
					nb++
					if conv[h] {
						dense++
					}
				}
			}
			lab := t[0] + " over "
			switch {
			case nb == 0:
				lab += "empty"
			case nb == 1:
				lab += "1 bucket"
			default:
				lab += "≥2 buckets"
			}
			if dense > 0 {
				lab += " (dense present)"
			}
			ls = append(ls, lab)
			if len(t) == 2 && t[1] != "0" {
				ls = append(ls, "early stop")
			}
		}
		if out[i+1] == "panic" {
			ls = append(ls, "panic")
		}
	}
	return ls
}
