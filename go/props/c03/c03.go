// Package c03: RoaringBitmap is a set of uint32 with complete ascending enumeration
// (setz/roaring_bitmap.go, setz/iter.go).
package c03

import (
	"fmt"
	"strconv"
	"strings"

	"verifharness/internal/core"
)

func init() {
	assumptions := []string{
		"Go int treated as unbounded (Len)",
		"no mutation of the bitmap while an enumeration is running (a partly consumed iterator is only ever dropped)",
		"the skip list under RoaringBitmap is modelled through its ordered-map interface (property C02); its random tower heights are not forced here",
	}
	if towerHooks {
		assumptions = append(assumptions, "the tower heights of the skip list inside the RoaringBitmap are forced in a share of the cases through its private rand field (reflect+unsafe, installed after the lazy init of the first Add); its towers and the backing memory of the containers are validated in place by the harness at every rep / conversion (the Lean model has neither towers nor addresses)")
	} else {
		assumptions = append(assumptions, "private fields rand/level of the inner skip list not found: tower heights NOT forced, towers and backing memory not validated")
	}
	assumptions = append(assumptions, "one RoaringBitmap is used by one goroutine at a time (the type is not safe for concurrent use); distinct RoaringBitmaps are independent: used alternately on one goroutine (`obj k`) and, in the Extra parallel-confined, one per goroutine in parallel without ever being shared — concurrent use of ONE bitmap is outside the property")
	if hooks {
		assumptions = append(assumptions, "the representation (len, containers.len, per bucket: container kind, len(values) / cached length, popcount, len(set), content hash) is read from the real RoaringBitmap by reflection after mutations (`rep`) and compared with the model state and with the reference set + representation history")
	} else {
		assumptions = append(assumptions, "private fields len/containers/head/next/key/val/values/length/Bitmap.set NOT found with the expected shapes: the representation is not compared (API results only)")
	}
	core.Register(&core.Prop{
		ID:       "C03",
		Title:    "RoaringBitmap behaves as a set of uint32 with complete ascending enumeration",
		Quick:    600,
		Thorough: 4500,
		Gen:      gen,
		Corpus:   corpus,
		Impl:     impl,
		Check:    check,
		NonTrivial: func(c core.Case, out []string) bool {
			// at least one enumeration over ≥ 2 buckets or over a bucket that was converted
			for _, t := range []string{"multi", "dense", "large", "history", "magnitude", "handles"} {
				if strings.Contains(c.Tag, t) {
					return true
				}
			}
			return false
		},
		Rule:        "op sequences (add/rm/has/len/fill/drain/range/all/iter/iterk/rep) on a zero-value RoaringBitmap over 1–8 high-16-bit buckets; light cases: small fills/drains, bucket removal at the lowest/middle/highest key, boundary values; heavy cases: scripted events (bucket taken to exactly 4095/4096, duplicate there, conversion by one new value below/above/in the middle or inside a bulk fill, dense bucket drained to 1, to 0, re-created, second conversion, absent removals, bulk traffic on dense buckets), each followed by the representation dump and enumerations (k at bucket boundaries, 1, Len, Len+1); wave-3 streams: large (buckets crossing 4096 repeatedly; a bucket with 60000–65536 members; 300–1200 buckets emptied in descending/random/ascending key order; dense buckets with long empty word runs and isolated members, All/Range/Iter each), history (5–20 fill–drain cycles on one bucket, the same add/rm repeated, an iterator created and dropped at every stage), magnitude (k·65536−1, k·65536, k·65536+1 for k ∈ {1,2,255,256,257,32767,32768,65535,random} in sparse and dense buckets); wave-4 stream handles: Seq values from All() held in 4 slots (obtained while empty, before a conversion, before a bucket vanishes / is re-created) and ranged later, twice, nested, by two Pull cursors; 2–4 RoaringBitmapIter values alive and advanced alternately in the same sparse / dense / different buckets, across bucket boundaries; nested Iter (itpairs); wave 5: in ≈ 30 % of the multi-bucket / handles / magnitude cases and 60 % of the many-buckets cases the tower heights of the skip list inside the RoaringBitmap are forced (header `heights=<kind>:<seed>`, kinds tall 8–32 / flat / alternating 1–32; one word per new bucket from an LCG) and at every rep its towers are validated in place (level 1..32, top level non-empty, chains strictly ascending and non-increasing in length, level 0 = all buckets, node height = levels linked); at every conversion and rep the word slice of a bitmap container has len 1024, cap ≥ 1024, shares no memory with the array container it came from and all buckets' backing arrays are pairwise disjoint; wave 6: stream multi (op `obj k`: 4 independent bitmaps per case, 2–4 used alternately with the same bucket keys and value runs, conversions across 4096 alternating between objects, handles of one object used after another was mutated, one object emptied while the others keep their content; each object judged against its own reference), raw random-source words (0, 1, 2^31±1, 2^32−1, 2^32, 2^32+1, 2^63, 2^64−1, low-32-bits-1 words) fed to the inner skip list on bucket creation (header heights=raw:<seed>, and ≈ 10 % of the draws of every forced kind), Extra parallel-confined (one bitmap per goroutine, never shared, conversions overlapping in time, judged afterwards); non-trivial = one of these streams or the sequence enumerates ≥ 2 buckets or a bucket taken across the 4096 threshold; distinct by hash of the op list",
		Classify:    classify,
		Facts:       facts,
		Extras:      []core.Extra{{Name: "parallel-confined", Run: extraParallel}},
		Parallel:    true,
		Assumptions: assumptions,
		TrustedBase: []string{
			"the unsafe reinterpretation of the first 8192 bytes of the array container as [1024]uint64 is modelled as a fresh zeroed word array (setZero overwrites it)",
			"the compiled oracle evaluates bitSet and Inner.next through kernel-checked @[csimp] equalities (bitSet_eq_bitSetFast, Inner.next_eq_nextFast in Model/C03Roaring.lean); the definitions the theorems are about are unchanged",
		},
	})
}

func corpus() []core.Case {
	cs := []core.Case{
		// F2 witness: three buckets
		{Lines: []string{"@ C03 rb", "add 1", "add 70000", "add 140000", "len", "rep", "iter", "range 0", "all 0", "iterk 2", "iter"}, Tag: "corpus-multi"},
		{Lines: []string{"@ C03 rb", "iter", "range 0", "all 0", "len", "has 0", "rm 0", "rep", "iterk 0", "iterk 3"}, Tag: "corpus"},
		// exactly at the conversion threshold, value 0 / 0xFFFF / 0xFFFFFFFF
		{Lines: []string{"@ C03 rb", "fill 0 0 4096 1", "len", "rep", "iter", "add 4095", "rep", "add 65535", "rep", "len", "iter", "range 0", "all 0", "has 65535", "has 4096", "rm 0", "rep", "iter", "len"}, Tag: "corpus-dense"},
		{Lines: []string{"@ C03 rb", "fill 65535 65535 4097 65535", "rep", "add 4294967295", "has 4294967295", "len", "iter", "range 3", "all 5", "drain 65535 0 65535 1", "rep", "len", "iter", "rm 4294967295", "rep", "len", "iter", "add 4294967295", "rep", "iter"}, Tag: "corpus-dense"},
		{Lines: []string{"@ C03 rb", "fill 1 10 4097 3", "fill 2 0 5 1", "rep", "iter", "drain 1 10 4097 3", "rep", "iter", "len", "fill 1 7 2 1", "rep", "iter", "range 0"}, Tag: "corpus-dense-multi"},
		// conversion by a value below all / in the middle; dense bucket between two sparse ones; k at the bucket boundaries
		{Lines: []string{"@ C03 rb", "add 5", "add 196613", "fill 1 100 4096 2", "rep", "add 65537", "rep", "range 1", "range 2", "all 4098", "all 4099", "iterk 4098", "iter", "rm 65537", "rm 65736", "rep", "add 65737", "rep", "iter"}, Tag: "corpus-dense-multi"},
		// a bitmap container reduced to one member in word 3 (words 0–2 empty), then word 1023 too: All, Range, Iter each
		{Lines: []string{"@ C03 rb", "fill 2 1000 4097 1", "add 171072", "drain 2 1000 4097 1", "add 131269", "rm 171072", "rep", "all 0", "range 0", "iter", "iterk 1", "add 196607", "rep", "all 0", "range 0", "iter", "rm 131269", "all 0", "range 0", "iter"}, Tag: "corpus-large-sparse-words-dense"},
		// handle reuse (wave 4): two iterators in one sparse bucket; a Seq obtained while empty and ranged twice; a Seq ranged twice / nested / two Pull cursors
		{Lines: []string{"@ C03 rb", "add 1", "add 2", "it 0", "it 1", "itnext 0 1", "itnext 1 2", "itnext 0 1"}, Tag: "corpus-handles"},
		{Lines: []string{"@ C03 rb", "seq 0", "add 5", "seqrange 0 0", "seqrange 0 0"}, Tag: "corpus-handles"},
		{Lines: []string{"@ C03 rb", "add 1", "add 2", "seq 0", "seqtwice 0 1", "seqnest 0 2", "pull2 0 0"}, Tag: "corpus-handles"},
		{Lines: []string{"@ C03 rb", "seq 2", "it 3", "itnext 3 1", "itpairs 1", "fill 0 10 4096 1", "seq 1", "it 0", "it 1", "itnext 0 64", "itnext 1 1", "itnext 0 2", "add 5", "itnext 0 1", "seqtwice 1 3", "seqnest 2 1", "pull2 1 2", "itpairs 2", "drain 0 0 65536 1", "seqrange 1 0", "seqrange 2 0", "add 70000", "add 9", "pull2 2 1", "it 2", "it 0", "itnext 2 2", "itnext 0 1", "itnext 2 1", "seqrange 3 0", "itnext 1 1"}, Tag: "corpus-handles-dense"},
		// wave 5: forced tall towers in the inner skip list, buckets removed from the highest key down and from the middle
		{Lines: []string{"@ C03 rb heights=tall:7", "add 196611", "add 589833", "add 65537", "add 458759", "add 327685", "add 720907", "add 131074", "add 524296", "add 262148", "add 655370", "add 393222", "add 786444", "add 2621480", "add 1966110", "add 1310740", "add 3276850", "add 2949165", "add 2293795", "add 1638425", "add 983055", "add 3932220", "add 4587590", "add 4259905", "add 3604535", "rep", "rm 4587590", "rm 4259905", "rm 3932220", "rm 3604535", "rm 3276850", "rm 2949165", "rm 2621480", "rm 2293795", "rep", "iter", "rm 65537", "rm 786444", "rm 327685", "rm 1966110", "rm 131074", "rm 1310740", "rm 589833", "rep", "range 0", "add 131074", "add 4587590", "rep", "all 0"}, Tag: "corpus-multi-heights"},
		{Lines: []string{"@ C03 rb heights=alt:3", "add 65536", "add 131072", "add 196608", "add 262144", "add 327680", "rep", "rm 196608", "rep", "rm 327680", "rm 65536", "rep", "iter", "fill 2 0 4096 1", "add 139264", "rep", "all 0"}, Tag: "corpus-dense-multi-heights"},
		// wave 6: raw random-source words on bucket creation (the first draw of heights=raw:1 is the word 1, i.e. k = 1)
		{Lines: []string{"@ C03 rb heights=raw:1", "add 5", "add 65541", "has 65541", "len", "rep", "add 131077", "add 196613", "add 262149", "rep", "iter", "rm 65541", "add 65541", "has 65541", "rep", "range 0"}, Tag: "corpus-multi-heights"},
		{Lines: []string{"@ C03 rb heights=raw:7", "add 1", "add 65537", "add 131073", "add 196609", "add 262145", "add 327681", "add 393217", "add 458753", "add 524289", "rep", "all 0", "len"}, Tag: "corpus-multi-heights"},
		// wave 6: two objects converted alternately, the others untouched
		{Lines: []string{"@ C03 rb", "obj 1", "fill 3 100 4096 1", "obj 2", "fill 3 100 4096 1", "obj 1", "add 196608", "rep", "obj 2", "add 196609", "rep", "obj 1", "all 0", "has 196609", "obj 2", "range 0", "iter", "has 196608", "obj 0", "len", "rep", "iter", "obj 3", "has 5", "obj 1", "len"}, Tag: "corpus-multi-dense"},
	}
	if !hooks {
		for i := range cs {
			var ls []string
			for _, l := range cs[i].Lines {
				if l != "rep" {
					ls = append(ls, l)
				}
			}
			cs[i].Lines = ls
		}
	}
	return cs
}

func hashVals(xs []uint32) uint64 {
	h := uint64(7)
	for _, v := range xs {
		h = (h*1000003 + uint64(v) + 1) % 2147483647
	}
	return h
}

func showVals(xs []uint32) string {
	var b strings.Builder
	b.WriteByte('[')
	for i, v := range xs {
		if i > 0 {
			b.WriteByte(' ')
		}
		b.WriteString(strconv.FormatUint(uint64(v), 10))
	}
	b.WriteByte(']')
	return b.String()
}

func summary(xs []uint32) string {
	if len(xs) <= 24 {
		return showVals(xs)
	}
	return fmt.Sprintf("n=%d h=%d first=%s last=%s", len(xs), hashVals(xs), showVals(xs[:4]), showVals(xs[len(xs)-4:]))
}

func parseU32(s string) (uint32, bool) {
	v, err := strconv.ParseUint(s, 10, 32)
	return uint32(v), err == nil
}

type bulkArgs struct{ hi, start, n, step int }

func parseBulk(t []string) (bulkArgs, bool) {
	var a bulkArgs
	if len(t) != 5 {
		return a, false
	}
	var v [4]int
	for i := 0; i < 4; i++ {
		x, err := strconv.Atoi(t[i+1])
		if err != nil || x < 0 {
			return a, false
		}
		v[i] = x
	}
	a = bulkArgs{v[0], v[1], v[2], v[3]}
	if a.hi >= 65536 || a.start >= 65536 || a.step >= 65536 || a.n > 70000 {
		return a, false
	}
	return a, true
}
