package c03

import (
	"fmt"
	"os"
	"strconv"
	"strings"
	"sync/atomic"
	"time"

	"verifharness/internal/core"
)

// ---- the real code -------------------------------------------------------------------

// hangSeen is set when an operation of the real code did not return within opTimeout.
// The run is a VIOLATION from then on; the remaining cases are not executed (their
// goroutines would spin on every CPU until the process exits).
var hangSeen atomic.Bool

const hangOut = "hang"

// coreHangWord is what core's own per-case timeout writes into every output line; line 0
// carrying it makes core report the case under key "hang" without trying to shrink it
// (every shrinking step would wait for the timeout again).
const coreHangWord = "hang: implementation did not return"

// opTimeout is shorter than core's per-case timeout so that this guard answers first.
func opTimeout() time.Duration {
	d := 30 * time.Second
	if v := os.Getenv("VERIF_CASE_TIMEOUT_S"); v != "" {
		if k, err := strconv.Atoi(v); err == nil && k > 0 {
			d = time.Duration(k) * time.Second
		}
	}
	return d * 2 / 3
}

func impl(c core.Case) []string { return implPause(c, nil) }

// implPause runs a case; pause (may be nil) is called between its lines.
func implPause(c core.Case, pause func()) []string {
	out := make([]string, len(c.Lines))
	if hangSeen.Load() {
		for i := range out {
			out[i] = "not-run-after-hang"
		}
		out[0] = coreHangWord
		return out
	}
	var progress atomic.Int64
	done := make(chan struct{})
	go func() {
		defer close(done)
		res := implInner(c, func(i int, s string) {
			if i < len(out) {
				out[i] = s
				progress.Store(int64(i + 1))
			}
		}, pause)
		copy(out, res)
	}()
	select {
	case <-done:
		return out
	case <-time.After(opTimeout()):
		hangSeen.Store(true)
		p := int(progress.Load())
		res := make([]string, len(c.Lines))
		copy(res, out[:p])
		for i := p; i < len(res); i++ {
			res[i] = "dead"
		}
		if p < len(res) {
			res[p] = hangOut
		}
		res[0] = coreHangWord // ops 1..p-1 keep their answers, op p is the one that did not return
		return res
	}
}

const nObjects = 4

// objArg parses a well-formed `obj k` line.
func objArg(t []string) (int, bool) {
	if len(t) != 2 || t[0] != "obj" {
		return 0, false
	}
	k, err := strconv.Atoi(t[1])
	if err != nil || k < 0 || k >= nObjects || t[1] != strconv.Itoa(k) {
		return 0, false
	}
	return k, true
}

// implInner: FOUR independent RoaringBitmaps per case (each with its own Seq/Iter slots and
// forced-height source); `obj k` makes object k current, every other line acts on the current
// object.  A panic kills the object it happened in only (`dead` from then on).
// pause (may be nil) is called between lines (parallel-confined Extra).
func implInner(c core.Case, put func(i int, s string), pause func()) []string {
	out := make([]string, 0, len(c.Lines))
	rec := func(s string) {
		put(len(out), s)
		out = append(out, s)
	}
	var objs [nObjects]*caseRun
	var dead [nObjects]bool
	for k := range objs {
		objs[k] = &caseRun{cnt: map[uint32]int{}}
	}
	hdr := core.Toks(c.Lines[0])
	if len(hdr) >= 2 {
		hdr = hdr[2:]
	}
	okHdr := false
	switch {
	case len(hdr) == 1 && hdr[0] == "rb":
		okHdr = true
	case len(hdr) == 2 && hdr[0] == "rb" && strings.HasPrefix(hdr[1], "heights="):
		// the tower heights of the inner skip lists are forced (the Lean model has no
		// towers and ignores the token); unknown kinds force nothing
		okHdr = true
		if src, ok := parseHeights(hdr[1]); ok && src.kind != "natural" {
			for k := range objs {
				objs[k].src = src.forObject(k)
			}
		}
	}
	if !okHdr {
		for range c.Lines {
			rec("bad-op")
		}
		return out
	}
	rec("ok")
	cur := 0
	for _, l := range c.Lines[1:] {
		if pause != nil {
			pause()
		}
		t := core.Toks(l)
		if len(t) > 0 && t[0] == "obj" {
			if k, ok := objArg(t); ok {
				cur = k
				rec("ok")
			} else {
				rec("bad-op")
			}
			continue
		}
		if dead[cur] {
			rec("dead")
			continue
		}
		o := core.Guard(func() string { return step(objs[cur], t) })
		if o == "panic" {
			dead[cur] = true
		}
		rec(o)
	}
	return out
}

func step(cr *caseRun, t []string) string {
	if len(t) == 0 {
		return "bad-op"
	}
	cr.alarm = ""
	var o string
	switch {
	case isMutation(t[0]):
		// a RoaringBitmapIter is only valid while the bitmap is not mutated: every
		// well-formed add / rm / fill / drain line empties the Iter slots
		o = stepPlain(cr, t)
		if o != "bad-op" {
			cr.hs.dropIters()
		}
	case isHandleOp(t[0]):
		o = cr.hs.step(&cr.rb, t)
	default:
		o = stepPlain(cr, t)
	}
	return o + cr.alarm
}

func stepPlain(cr *caseRun, t []string) string {
	rb := &cr.rb
	switch t[0] {
	case "add", "rm", "has":
		if len(t) != 2 {
			return "bad-op"
		}
		v, ok := parseU32(t[1])
		if !ok {
			return "bad-op"
		}
		switch t[0] {
		case "add":
			return strconv.FormatBool(cr.add(v))
		case "rm":
			return strconv.FormatBool(cr.remove(v))
		}
		return strconv.FormatBool(rb.Contains(v))
	case "len":
		if len(t) != 1 {
			return "bad-op"
		}
		return strconv.Itoa(rb.Len())
	case "rep":
		if len(t) != 1 {
			return "bad-op"
		}
		s, _ := dumpRep(rb)
		cr.structural()
		return s
	case "fill", "drain":
		a, ok := parseBulk(t)
		if !ok {
			return "bad-op"
		}
		k := 0
		cur := a.start
		for i := 0; i < a.n; i++ {
			v := uint32(a.hi)<<16 | uint32(cur%65536)
			var ok bool
			if t[0] == "fill" {
				ok = cr.add(v)
			} else {
				ok = cr.remove(v)
			}
			if ok {
				k++
			}
			cur += a.step
		}
		return strconv.Itoa(k)
	case "range", "all":
		if len(t) != 2 {
			return "bad-op"
		}
		stop, err := strconv.Atoi(t[1])
		if err != nil || stop < 0 {
			return "bad-op"
		}
		var xs []uint32
		fn := func(v uint32) bool {
			xs = append(xs, v)
			return len(xs) != stop
		}
		if t[0] == "range" {
			rb.Range(fn)
		} else {
			rb.All()(fn)
		}
		return summary(xs)
	case "iter":
		if len(t) != 1 {
			return "bad-op"
		}
		it := rb.Iter()
		var xs []uint32
		for it.Next() {
			xs = append(xs, it.Value())
			if len(xs) > rb.Len()+70000 {
				return "iter-does-not-terminate"
			}
		}
		return summary(xs) + " again=" + strconv.FormatBool(it.Next())
	case "iterk":
		if len(t) != 2 {
			return "bad-op"
		}
		k, err := strconv.Atoi(t[1])
		if err != nil || k < 0 {
			return "bad-op"
		}
		it := rb.Iter()
		var xs []uint32
		end := false
		for n := 0; n < k; n++ {
			if !it.Next() {
				end = true
				break
			}
			xs = append(xs, it.Value())
		}
		return summary(xs) + " end=" + strconv.FormatBool(end)
	}
	return "bad-op"
}

// ---- the independent oracle ----------------------------------------------------------

// check is the property's own predicate: a Go map reference (refSet) with its ascending
// order, plus the structural clauses on the reflected representation (`rep`), evaluated
// without the Lean model.
func check(c core.Case, out []string) *core.Failure {
	var refs [nObjects]*refSet
	var hss [nObjects]*refHandles
	for k := range refs {
		refs[k], hss[k] = newRef(), newRefHandles()
	}
	ref, hs := refs[0], hss[0]
	fail := func(i int, key, want string) *core.Failure {
		return &core.Failure{Key: key, Desc: fmt.Sprintf("op %d %q: implementation answered %q, a set of uint32 with %d members answers %q", i, c.Lines[i], out[i], ref.size(), want)}
	}
	for i := 1; i < len(c.Lines); i++ {
		t := core.Toks(c.Lines[i])
		if rest, key, why := alarmOf(out[i]); key != "" {
			return &core.Failure{Key: key, Desc: fmt.Sprintf("op %d %q (answer %q): in-place validation of the real representation failed: %s", i, c.Lines[i], rest, why)}
		}
		if k, ok := objArg(t); ok { // several independent objects: each is judged against its own reference
			ref, hs = refs[k], hss[k]
			if out[i] != "ok" {
				return fail(i, "object-switch", "ok")
			}
			continue
		}
		switch out[i] {
		case "bad-op":
			continue
		case "panic":
			return fail(i, "panic", "no panic")
		case hangOut:
			return &core.Failure{Key: "hang", Desc: fmt.Sprintf("op %d %q did not return within %s (non-termination); ops before it answered normally", i, c.Lines[i], opTimeout())}
		case "not-run-after-hang":
			return &core.Failure{Key: "hang", Desc: "an earlier case of this run did not return; this case was not executed"}
		}
		if isMutation(t[0]) {
			hs.dropIters()
		}
		if isHandleOp(t[0]) {
			if f := hs.check(i, c, out, ref); f != nil {
				return f
			}
			continue
		}
		switch t[0] {
		case "add":
			v, _ := parseU32(t[1])
			want := strconv.FormatBool(ref.add(v))
			if out[i] != want {
				return fail(i, "add-result", want)
			}
		case "rm":
			v, _ := parseU32(t[1])
			want := strconv.FormatBool(ref.rm(v))
			if out[i] != want {
				return fail(i, "remove-result", want)
			}
		case "has":
			v, _ := parseU32(t[1])
			if want := strconv.FormatBool(ref.has(v)); out[i] != want {
				return fail(i, "contains", want)
			}
		case "len":
			if want := strconv.Itoa(ref.size()); out[i] != want {
				return fail(i, "len", want)
			}
		case "fill", "drain":
			a, _ := parseBulk(t)
			k := ref.applyBulk(a, t[0] == "drain", nil)
			if want := strconv.Itoa(k); out[i] != want {
				return fail(i, t[0]+"-count", want)
			}
		case "range", "all":
			stop, _ := strconv.Atoi(t[1])
			xs := ref.all()
			if stop > 0 && stop < len(xs) {
				xs = xs[:stop]
			}
			if want := summary(xs); out[i] != want {
				return fail(i, t[0]+"-enumeration", want)
			}
		case "iter":
			if want := summary(ref.all()) + " again=false"; out[i] != want {
				return fail(i, "iter-enumeration", want)
			}
		case "iterk":
			k, _ := strconv.Atoi(t[1])
			xs := ref.all()
			end := k > len(xs)
			if k < len(xs) {
				xs = xs[:k]
			}
			if want := summary(xs) + " end=" + strconv.FormatBool(end); out[i] != want {
				return fail(i, "iter-partial", want)
			}
		case "rep":
			if key, why := checkRep(out[i], ref); key != "" {
				return &core.Failure{Key: key, Desc: fmt.Sprintf("op %d (after %q): representation %q: %s", i, c.Lines[i-1], out[i], why)}
			}
		}
	}
	return nil
}

// checkRep evaluates the structural clauses of the representation invariant on a dump,
// against the reference set and the representation history it implies.
func checkRep(dump string, ref *refSet) (key, why string) {
	d, perr := parseRep(dump)
	if perr != "" {
		return "rep-malformed", "not a well-formed bucket chain (" + perr + ")"
	}
	for j := 1; j < len(d.buckets); j++ {
		if d.buckets[j].key <= d.buckets[j-1].key {
			return "rep-key-order", fmt.Sprintf("bucket keys not strictly ascending at %d, %d", d.buckets[j-1].key, d.buckets[j].key)
		}
	}
	if d.nb != len(d.buckets) {
		return "rep-skiplist-len", fmt.Sprintf("containers.len=%d but the level-0 chain has %d nodes", d.nb, len(d.buckets))
	}
	for _, b := range d.buckets {
		if b.n == 0 || (b.kind == 'b' && b.pop == 0) {
			return "rep-empty-bucket", fmt.Sprintf("bucket %d is empty but still linked", b.key)
		}
	}
	keys := ref.keys()
	same := len(keys) == len(d.buckets)
	for j := 0; same && j < len(keys); j++ {
		same = keys[j] == d.buckets[j].key
	}
	if !same {
		return "rep-bucket-set", fmt.Sprintf("buckets present differ from the non-empty high halves of the reference %v", keys)
	}
	sum := 0
	for _, b := range d.buckets {
		mem := ref.bucket(b.key)
		wantDense := ref.conv[b.key]
		switch b.kind {
		case 'a':
			if b.n < 1 || b.n > 4096 {
				return "rep-array-length", fmt.Sprintf("array container %d has %d values (allowed 1..4096)", b.key, b.n)
			}
			if wantDense {
				return "rep-history", fmt.Sprintf("bucket %d is an array container although its fill level has exceeded 4096 since it was created (bitmaps never convert back)", b.key)
			}
			if b.n != len(mem) {
				return "rep-array-length", fmt.Sprintf("array container %d has %d values, the reference has %d members there", b.key, b.n, len(mem))
			}
			lows := make([]uint16, len(mem))
			for k, v := range mem {
				lows[k] = uint16(v)
			}
			if h := hashU16(lows); h != b.hash {
				return "rep-array-values", fmt.Sprintf("values of array container %d are not the strictly ascending member list (hash %d, want %d)", b.key, b.hash, h)
			}
		case 'b':
			if !wantDense {
				return "rep-history", fmt.Sprintf("bucket %d is a bitmap container although its fill level has not exceeded 4096 since it was created (%d members now)", b.key, len(mem))
			}
			if b.words != 1024 {
				return "rep-bitmap-words", fmt.Sprintf("bitmap container %d has %d words (want 1024)", b.key, b.words)
			}
			if b.n != b.pop {
				return "rep-cached-length", fmt.Sprintf("bitmap container %d: cached length %d, popcount %d", b.key, b.n, b.pop)
			}
			if b.pop != len(mem) {
				return "rep-popcount", fmt.Sprintf("bitmap container %d has %d bits set, the reference has %d members there", b.key, b.pop, len(mem))
			}
			var ws [1024]uint64
			for _, v := range mem {
				l := v & 0xFFFF
				ws[l>>6] |= 1 << (l & 63)
			}
			if h := hashWords(ws[:]); h != b.hash {
				return "rep-bitmap-bits", fmt.Sprintf("words of bitmap container %d differ from the member bits (hash %d, want %d)", b.key, b.hash, h)
			}
		}
		sum += b.n
	}
	if sum != d.length {
		return "rep-len-sum", fmt.Sprintf("len field %d, sum of the bucket cardinalities %d", d.length, sum)
	}
	if d.length != ref.size() {
		return "rep-len", fmt.Sprintf("len field %d, the reference has %d members", d.length, ref.size())
	}
	return "", ""
}
