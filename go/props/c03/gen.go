package c03

import (
	"fmt"
	"slices"
	"strings"

	"verifharness/internal/core"
)

var steps = []int{1, 1, 1, 2, 3, 7, 16, 63, 64, 65, 4093, 40503, 65535}

// genState is the generator's view of the case being built: the op lines, the set the ops
// produce (refSet: members, fill level and representation history per bucket), and the
// bulk fills of every bucket since it was created (replayed as drains to empty a bucket
// without a 65536-element sweep).
type genState struct {
	r     *core.Rand
	lines []string
	s     *refSet
	hist  map[uint32][]bulkArgs
	his   []uint32 // bucket keys in play
	dense bool     // a conversion happened
}

func (g *genState) emit(f string, a ...any) { g.lines = append(g.lines, fmt.Sprintf(f, a...)) }

func (g *genState) rep() {
	if hooks {
		g.emit("rep")
	}
}

func (g *genState) vanished(h uint32) {
	if g.s.cnt[h] == 0 {
		delete(g.hist, h)
	}
}

func (g *genState) add(v uint32) {
	g.emit("add %d", v)
	g.s.add(v)
	if g.s.conv[v>>16] {
		g.dense = true
	}
}

func (g *genState) rm(v uint32) {
	g.emit("rm %d", v)
	g.s.rm(v)
	g.vanished(v >> 16)
}

func (g *genState) has(v uint32) { g.emit("has %d", v) }

func (g *genState) bulk(rm bool, a bulkArgs) {
	op := "fill"
	if rm {
		op = "drain"
	}
	g.emit("%s %d %d %d %d", op, a.hi, a.start, a.n, a.step)
	g.s.applyBulk(a, rm, nil)
	h := uint32(a.hi)
	if rm {
		g.vanished(h)
	} else {
		g.hist[h] = append(g.hist[h], a)
		if g.s.conv[h] {
			g.dense = true
		}
	}
}

func (g *genState) bucketKey() uint32 { return g.his[g.r.Intn(len(g.his))] }

// member picks the lowest / a middle / the highest member of bucket h.
func (g *genState) member(h uint32) (uint32, bool) {
	b := g.s.bucket(h)
	if len(b) == 0 {
		return 0, false
	}
	switch g.r.Intn(3) {
	case 0:
		return b[0], true
	case 1:
		return b[len(b)-1], true
	}
	return b[g.r.Intn(len(b))], true
}

// absent picks a value of bucket h that is not a member: below all, above all or in a gap.
func (g *genState) absent(h uint32, pos int) (uint32, bool) {
	b := g.s.bucket(h)
	base := h << 16
	if len(b) == 0 {
		return base | uint32(g.r.Intn(65536)), true
	}
	lo, hi := b[0]&0xFFFF, b[len(b)-1]&0xFFFF
	for try := 0; try < 3; try++ {
		switch (pos + try) % 3 {
		case 0: // below all
			if lo > 0 {
				if g.r.Bool() {
					return base | (lo - 1), true
				}
				return base | uint32(g.r.Intn(int(lo))), true
			}
		case 1: // above all
			if hi < 65535 {
				if g.r.Bool() {
					return base | (hi + 1), true
				}
				return base | (hi + 1 + uint32(g.r.Intn(int(65535-hi)))), true
			}
		case 2: // in a gap between the lowest and the highest
			for k := 0; k < 40 && hi > lo+1; k++ {
				v := base | (lo + 1 + uint32(g.r.Intn(int(hi-lo-1))))
				if !g.s.has(v) {
					return v, true
				}
			}
		}
	}
	return 0, false
}

// growTo brings bucket h up to exactly target members with fresh arithmetic runs.
func (g *genState) growTo(h uint32, target int) {
	for try := 0; g.s.cnt[h] < target && try < 16; try++ {
		need := target - g.s.cnt[h]
		step := steps[g.r.Intn(len(steps))]
		start := g.r.Intn(65536)
		if step == 1 && g.r.Chance(70) && need < 60000 {
			start = 1 + g.r.Intn(65535-need-1) // leaves room below and above
		}
		g.bulk(false, bulkArgs{int(h), start, need, step})
	}
	for g.s.cnt[h] < target {
		v, ok := g.absent(h, g.r.Intn(3))
		if !ok {
			return
		}
		g.add(v)
	}
}

// shrinkTo brings bucket h down to exactly k members: the bucket's fills replayed as
// drains (forwards or backwards, cut where the level would drop below k), then single
// removals for what is left.
func (g *genState) shrinkTo(h uint32, k int) {
	runs := append([]bulkArgs{}, g.hist[h]...)
	for i := len(runs) - 1; i > 0; i-- {
		j := g.r.Intn(i + 1)
		runs[i], runs[j] = runs[j], runs[i]
	}
	for _, a := range runs {
		if g.s.cnt[h] <= k {
			break
		}
		if g.r.Bool() && a.step > 0 { // the same values from the last to the first
			a = bulkArgs{a.hi, (a.start + (a.n-1)*a.step) % 65536, a.n, (65536 - a.step%65536) % 65536}
		}
		removed, n2 := 0, a.n
		seen := map[uint32]bool{}
		cur := a.start
		for i := 0; i < a.n; i++ {
			v := h<<16 | uint32(cur%65536)
			if g.s.has(v) && !seen[v] {
				seen[v] = true
				removed++
				if g.s.cnt[h]-removed == k {
					n2 = i + 1
					break
				}
			}
			cur += a.step
		}
		if removed == 0 {
			continue
		}
		a.n = n2
		g.bulk(true, a)
	}
	if k == 0 && g.s.cnt[h] > 48 { // members that came from single adds only
		g.bulk(true, bulkArgs{int(h), 0, 65536, 1})
	}
	for g.s.cnt[h] > k {
		v, _ := g.member(h)
		g.rm(v)
	}
}

func (g *genState) pickStop() int {
	n := g.s.size()
	switch g.r.Pick(40, 18, 8, 8, 8, 18) {
	case 0:
		return 0
	case 1: // exactly at (or one around) a bucket boundary
		ks := g.s.keys()
		if len(ks) > 0 {
			upto := g.r.Intn(len(ks))
			cum := 0
			for _, h := range ks[:upto+1] {
				cum += g.s.cnt[h]
			}
			cum += []int{0, 0, 0, 1, -1}[g.r.Intn(5)]
			if cum >= 1 {
				return cum
			}
		}
		return 1
	case 2:
		return 1
	case 3:
		if n > 0 {
			return n
		}
		return 1
	case 4:
		return n + 1
	}
	return g.r.Range(1, n+1)
}

func (g *genState) pickVal() uint32 {
	h := g.bucketKey()
	if g.r.Chance(5) {
		h = uint32(g.r.Intn(65536))
	}
	var lo int
	switch g.r.Pick(3, 3, 2) {
	case 0:
		lo = []int{0, 1, 63, 64, 65, 4095, 4096, 4097, 0xFFFE, 0xFFFF}[g.r.Intn(10)]
	case 1:
		lo = g.r.Intn(65536)
	case 2:
		lo = g.r.Intn(130)
	}
	return h<<16 | uint32(lo)
}

// probe emits observations; with must, at least one of them is an enumeration.
func (g *genState) probe(must bool) {
	enum := false
	for k := g.r.Range(1, 3); k > 0 || (must && !enum); k-- {
		switch g.r.Pick(3, 3, 3, 2, 1, 2) {
		case 0:
			g.emit("iter")
			enum = true
		case 1:
			g.emit("range %d", g.pickStop())
			enum = true
		case 2:
			g.emit("all %d", g.pickStop())
			enum = true
		case 3: // a partly consumed iterator is dropped, then a fresh one runs to the end
			k := g.pickStop()
			if g.r.Chance(15) {
				k = 0
			} else if k == 0 {
				k = g.r.Range(1, g.s.size()+1)
			}
			g.emit("iterk %d", k)
			if g.r.Chance(80) {
				g.emit("iter")
			}
			enum = true
		case 4:
			g.emit("len")
		case 5:
			g.has(g.pickVal())
		}
	}
}

// ---- events ----------------------------------------------------------------------------

// convertEvent takes an array bucket to exactly 4096 (sometimes via 4095), tries
// duplicates there (must not convert), then adds one new value below all / above all /
// in the middle: the conversion.  Sometimes the conversion happens inside a bulk fill.
func (g *genState) convertEvent(h uint32) {
	if g.s.conv[h] {
		return
	}
	if g.r.Chance(12) { // conversion in the middle of a bulk op
		g.growTo(h, g.r.Range(4097, 4100))
		g.rep()
		g.probe(true)
		return
	}
	pre := 4096
	if g.r.Chance(35) {
		pre = 4095
	}
	if g.s.cnt[h] > pre {
		g.shrinkTo(h, pre)
	} else {
		g.growTo(h, pre)
	}
	g.rep()
	if g.r.Chance(25) {
		g.probe(true)
	}
	if pre == 4095 {
		if g.r.Chance(60) {
			v, _ := g.member(h)
			g.add(v)
			g.rep()
		}
		if v, ok := g.absent(h, g.r.Intn(3)); ok {
			g.add(v)
			g.rep()
		}
	}
	if g.s.cnt[h] != 4096 {
		return
	}
	if g.r.Chance(70) {
		v, _ := g.member(h)
		g.add(v)
		g.rep()
		if g.r.Chance(30) {
			g.has(v)
		}
	}
	if g.r.Chance(35) {
		g.probe(true) // a completely full array container enumerated
	}
	v, ok := g.absent(h, g.r.Intn(3))
	if !ok {
		return
	}
	g.add(v)
	g.rep()
	g.probe(true)
}

// drainEvent takes a dense bucket down to exactly one member, then to none (the bucket
// vanishes), refills it (an array again) and sometimes across the threshold once more.
func (g *genState) drainEvent(h uint32) {
	if g.s.cnt[h] == 0 {
		return
	}
	if g.r.Chance(40) {
		g.shrinkTo(h, g.r.Range(2, 4))
		g.rep()
	}
	for g.s.cnt[h] > 1 && g.s.cnt[h] <= 4 {
		v, _ := g.member(h)
		g.rm(v)
		g.rep()
	}
	if g.s.cnt[h] > 1 {
		g.shrinkTo(h, 1)
		g.rep()
	}
	g.probe(true)
	last, _ := g.member(h)
	g.rm(last)
	g.rep()
	g.probe(true)
	if g.r.Chance(85) {
		if g.r.Bool() {
			g.add(last)
		} else {
			g.bulk(false, bulkArgs{int(h), g.r.Intn(65536), g.r.Range(1, 6), steps[g.r.Intn(len(steps))]})
		}
		g.rep()
		g.probe(true)
		if g.r.Chance(35) {
			g.convertEvent(h)
		}
	}
}

// removeBucketEvent empties the lowest / a middle / the highest bucket while the others stay.
func (g *genState) removeBucketEvent(pos int) {
	ks := g.s.keys()
	if len(ks) == 0 {
		return
	}
	var h uint32
	switch {
	case pos == 0 || len(ks) == 1:
		h = ks[0]
	case pos == 2 || len(ks) == 2:
		h = ks[len(ks)-1]
	default:
		h = ks[1+g.r.Intn(len(ks)-2)]
	}
	if g.s.cnt[h] > 1 && g.r.Bool() {
		g.shrinkTo(h, 1)
		g.rep()
	}
	g.shrinkTo(h, 0)
	g.rep()
	g.probe(true)
}

func (g *genState) boundaryEvent() {
	for k := g.r.Range(1, 4); k > 0; k-- {
		v := boundaryVals[g.r.Intn(4)]
		switch g.r.Pick(4, 3, 2) {
		case 0:
			g.add(v)
			g.rep()
		case 1:
			g.rm(v)
			g.rep()
		case 2:
			g.has(v)
		}
	}
}

func (g *genState) singles(n int) {
	for ; n > 0; n-- {
		v := g.pickVal()
		if g.r.Chance(55) {
			g.add(v)
		} else {
			g.rm(v)
		}
		if g.r.Chance(70) {
			g.rep()
		}
	}
}

// denseKeys returns the buckets that are bitmaps now.
func (g *genState) denseKeys() []uint32 {
	var ks []uint32
	for h := range g.s.conv {
		ks = append(ks, h)
	}
	slices.Sort(ks)
	return ks
}

func (g *genState) lightScript() {
	r := g.r
	for p := r.Range(2, 7); p > 0; p-- {
		h := g.bucketKey()
		switch r.Pick(8, 4, 2, 3, 2) {
		case 0:
			g.bulk(false, bulkArgs{int(h), r.Intn(65536), r.Range(1, 40), steps[r.Intn(len(steps))]})
			g.rep()
		case 1:
			g.bulk(true, bulkArgs{int(h), r.Intn(65536), r.Range(1, 40), steps[r.Intn(len(steps))]})
			g.rep()
		case 2:
			if r.Chance(25) {
				g.bulk(true, bulkArgs{int(h), 0, 65536, 1})
			} else {
				g.shrinkTo(h, 0)
			}
			g.rep()
		case 3:
			g.removeBucketEvent(r.Intn(3))
		case 4:
			g.boundaryEvent()
		}
		g.singles(r.Range(0, 6))
		g.probe(false)
	}
}

func (g *genState) heavyScript(tier string) {
	r := g.r
	// which buckets become dense, in which order the buckets are built
	order := append([]uint32{}, g.his...)
	for i := len(order) - 1; i > 0; i-- {
		j := r.Intn(i + 1)
		order[i], order[j] = order[j], order[i]
	}
	nd := 1 + r.Pick(72, 23, 5)
	if tier == "thorough" {
		nd = 1 + r.Pick(50, 30, 20)
	}
	if nd > len(order) {
		nd = len(order)
	}
	target := map[uint32]bool{}
	for _, h := range order[:nd] {
		target[h] = true
	}
	for i := len(order) - 1; i > 0; i-- {
		j := r.Intn(i + 1)
		order[i], order[j] = order[j], order[i]
	}
	for _, h := range order {
		if target[h] {
			g.convertEvent(h)
			continue
		}
		n := r.Range(1, 60)
		if r.Chance(12) {
			n = r.Range(200, 1200)
		}
		g.bulk(false, bulkArgs{int(h), r.Intn(65536), n, steps[r.Intn(len(steps))]})
		g.rep()
	}
	for e := r.Range(3, 7); e > 0; e-- {
		dk := g.denseKeys()
		switch r.Pick(3, 3, 3, 3, 1, 1, 2) {
		case 0:
			if len(dk) > 0 {
				g.drainEvent(dk[r.Intn(len(dk))])
			}
		case 1:
			g.removeBucketEvent(r.Intn(3))
		case 2: // absent removals and duplicate adds on a dense bucket
			if len(dk) > 0 {
				h := dk[r.Intn(len(dk))]
				for k := r.Range(1, 3); k > 0; k-- {
					if v, ok := g.absent(h, r.Intn(3)); ok && r.Chance(60) {
						g.rm(v)
					} else if m, ok := g.member(h); ok {
						g.add(m)
					}
					g.rep()
				}
				g.probe(true)
			}
		case 3: // bulk traffic on a dense bucket (or any)
			h := g.bucketKey()
			if len(dk) > 0 && r.Chance(75) {
				h = dk[r.Intn(len(dk))]
			}
			n := r.Range(1, 3000)
			if !g.s.conv[h] {
				n = r.Range(1, 200)
			}
			g.bulk(r.Chance(60), bulkArgs{int(h), r.Intn(65536), n, steps[r.Intn(len(steps))]})
			g.rep()
			g.probe(true)
		case 4:
			g.boundaryEvent()
			g.probe(true)
		case 5: // one more bucket taken to the threshold
			if len(dk) < 3 {
				g.convertEvent(g.bucketKey())
			}
		case 6:
			g.singles(r.Range(1, 6))
			g.probe(true)
		}
	}
}

// gen adds the forced tower heights of the inner skip list (header token
// `heights=<kind>:<seed>`) to a share of the cases of the streams with several buckets.
func gen(r *core.Rand, tier string) core.Case {
	c := genBody(r, tier)
	share := 0
	switch {
	case strings.Contains(c.Tag, "many-buckets"):
		share = 60
	case strings.Contains(c.Tag, "multi"), strings.Contains(c.Tag, "handles"), strings.Contains(c.Tag, "magnitude"):
		share = 30
	}
	if towerHooks && r.Chance(share) {
		kind := heightKinds[1+r.Pick(5, 2, 3, 2)] // tall, flat, alt, raw
		c.Lines[0] = fmt.Sprintf("@ C03 rb heights=%s:%d", kind, r.Intn(1000000))
		c.Tag += "-heights"
	}
	return c
}

func genBody(r *core.Rand, tier string) core.Case {
	if share := map[bool]int{false: 3, true: 6}[tier == "thorough"]; r.Chance(share) {
		return genMulti(r, tier == "thorough")
	}
	g := &genState{r: r, s: newRef(), hist: map[uint32][]bulkArgs{}, lines: []string{"@ C03 rb"}}
	if share := map[bool]int{false: 9, true: 13}[tier == "thorough"]; r.Chance(share) {
		g.handlesScript(tier == "thorough")
		g.emit("len")
		g.rep()
		g.lines = append(g.lines, "iter", "range 0", "all 0")
		tag := "handles"
		if g.dense {
			tag += "-dense"
		}
		return core.Case{Lines: g.lines, Tag: tag}
	}
	if tag := g.w3Stream(tier); tag != "" {
		g.emit("len")
		g.rep()
		g.lines = append(g.lines, "iter", "range 0", "all 0")
		if g.dense {
			tag += "-dense"
		}
		return core.Case{Lines: g.lines, Tag: tag}
	}
	heavy := r.Chance(18)
	if tier == "thorough" {
		heavy = r.Chance(30)
	}
	nb := r.Range(1, 4)
	if r.Chance(30) {
		nb = r.Range(5, 8)
	}
	pool := []uint32{0, 1, 2, 3, 0x7FFF, 0x8000, 0xFFFE, 0xFFFF}
	for len(g.his) < nb {
		h := pool[r.Intn(len(pool))]
		if r.Chance(25) {
			h = uint32(r.Intn(65536))
		}
		if !slices.Contains(g.his, h) {
			g.his = append(g.his, h)
		}
	}
	if heavy {
		g.heavyScript(tier)
	} else {
		g.lightScript()
	}
	g.emit("len")
	g.rep()
	g.lines = append(g.lines, "iter", "range 0", "all 0")
	tag := "light"
	if heavy {
		tag = "heavy"
	}
	if g.dense {
		tag += "-dense"
	}
	if nb > 1 {
		tag += "-multi"
	}
	return core.Case{Lines: g.lines, Tag: tag}
}
