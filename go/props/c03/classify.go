package c03

import (
	"fmt"
	"slices"
	"strconv"

	"verifharness/internal/core"
)

var boundaryVals = []uint32{0, 0xFFFF, 0xFFFF0000, 0xFFFFFFFF}

func isBoundary(v uint32) bool {
	return v == 0 || v == 0xFFFF || v == 0xFFFF0000 || v == 0xFFFFFFFF
}

// keyPos says where bucket h lies among the non-empty buckets (h included or not).
func keyPos(s *refSet, h uint32) string {
	lower, higher := false, false
	for k := range s.cnt {
		if k < h {
			lower = true
		} else if k > h {
			higher = true
		}
	}
	switch {
	case !lower && !higher:
		return "only"
	case !lower:
		return "lowest"
	case !higher:
		return "highest"
	}
	return "middle"
}

// tracker replays a case on a refSet and names the events the property is about.
type tracker struct {
	s         *refSet
	wasDense  map[uint32]bool  // the bucket's previous incarnation was a bitmap when it vanished
	convCount map[uint32]int   // conversions seen per bucket key
	cycles    map[uint32]int   // bulk drains that followed a bulk fill, per bucket
	seqSnap   [nSlots]*seqSnap // what the bitmap looked like when the Seq slot was obtained
	itPos     [nSlots]int      // values delivered by the Iter slot, -1 = empty
	muts      int              // mutation lines so far
	lastBulk  map[uint32]string
	labels    []string
	event     string // last event since the last mutation line
}

func (t *tracker) ev(l string) {
	t.labels = append(t.labels, l)
	t.event = l
}

// note applies one add/remove and labels what it does to the representation.
func (t *tracker) note(v uint32, add, bulk bool) {
	s := t.s
	h := v >> 16
	c := s.cnt[h]
	present := s.has(v)
	dense := s.conv[h]
	how := "add"
	if bulk {
		how = "bulk fill"
	}
	if add {
		switch {
		case c == 0:
			if t.wasDense[h] {
				t.ev("bucket re-created as an array after a dense one vanished")
				delete(t.wasDense, h)
			}
			t.labels = append(t.labels, "bucket created: "+keyPos(s, h))
		case !dense && c == 4096 && present:
			t.ev("duplicate " + how + " at fill 4096 (no conversion)")
		case !dense && c == 4096:
			b := s.bucket(h)
			pos := "in the middle"
			if v < b[0] {
				pos = "below all"
			} else if v > b[len(b)-1] {
				pos = "above all"
			}
			t.labels = append(t.labels, "array→bitmap conversion")
			t.ev("conversion by " + how + ": new value " + pos)
		case !dense && c == 4095 && present:
			t.ev("duplicate " + how + " at fill 4095")
		case !dense && c == 4095:
			t.ev(how + " at fill 4095 (reaches 4096, stays an array)")
		case dense && c == 4096 && !present:
			t.ev("dense bucket refilled across 4096 while a bitmap (" + how + ")")
		case dense && present && !bulk:
			t.ev("duplicate add to a dense bucket")
		case dense && !bulk:
			t.labels = append(t.labels, "add to a dense bucket")
		}
		s.add(v)
		if !dense && s.conv[h] {
			t.convCount[h]++
			if t.convCount[h] > 1 {
				t.ev("second conversion of the same bucket key (dense → vanished → array → dense)")
			}
			if t.convCount[h] > 2 {
				t.labels = append(t.labels, "bucket key converted ≥3 times")
			}
		}
		return
	}
	how = "rm"
	if bulk {
		how = "bulk drain"
	}
	switch {
	case !present && dense:
		if !bulk {
			t.ev("rm of an absent value from a dense bucket")
		}
	case !present && c > 0:
		if !bulk {
			t.labels = append(t.labels, "rm of an absent value from a sparse bucket")
		}
	case !present:
		if !bulk {
			t.labels = append(t.labels, "rm from an absent bucket")
		}
	case c == 1:
		kind := "sparse"
		if dense {
			kind = "dense"
			t.wasDense[h] = true
		}
		t.labels = append(t.labels, kind+" bucket emptied")
		if len(s.cnt) >= 100 {
			t.labels = append(t.labels, "bucket removed with ≥100 buckets present: "+keyPos(s, h))
		}
		t.ev("bucket removed (" + how + "): " + keyPos(s, h) + ", " + kind)
	case c == 2 && dense:
		t.ev("dense bucket drained to exactly 1")
	case dense && !bulk:
		t.labels = append(t.labels, "rm from a dense bucket")
	case c == 4097 && dense:
		t.labels = append(t.labels, "dense bucket back at fill 4096 (stays a bitmap)")
	}
	s.rm(v)
}

type seqSnap struct {
	empty   bool
	keys    []uint32
	dense   map[uint32]bool
	muts    int // mutation count when obtained
	lastUse int // mutation count at the last use (-1: unused)
}

func (t *tracker) lab(l string) { t.labels = append(t.labels, l) }

// bucketOfPos: the key of the bucket in which an iterator that has delivered p values stands.
func (t *tracker) bucketOfPos(p int) (uint32, bool) {
	if p <= 0 {
		return 0, false
	}
	cum := 0
	for _, h := range t.s.keys() {
		cum += t.s.cnt[h]
		if p <= cum {
			return h, true
		}
	}
	return 0, false
}

// handleLabels names what a wave-4 op exercises.
func (t *tracker) handleLabels(tk []string) {
	a, b, ok := handleArgs(tk)
	if !ok {
		return
	}
	s := t.s
	switch tk[0] {
	case "seq":
		sn := &seqSnap{empty: s.size() == 0, keys: s.keys(), dense: map[uint32]bool{}, muts: t.muts, lastUse: -1}
		for h := range s.conv {
			sn.dense[h] = true
		}
		t.seqSnap[a] = sn
		if sn.empty {
			t.lab("seq obtained while the bitmap is empty")
		}
	case "seqrange", "seqtwice", "seqnest", "pull2":
		sn := t.seqSnap[a]
		if sn == nil {
			t.lab(tk[0] + " on an empty slot (none)")
			return
		}
		op := tk[0]
		t.lab(op)
		if len(s.conv) > 0 {
			t.lab(op + " (dense present)")
		}
		if op == "pull2" && b > 0 {
			t.lab("pull2 with cursor 1 stopped early")
		}
		now := s.keys()
		switch {
		case sn.muts == t.muts:
			t.lab(op + " on a Seq obtained with no mutation since")
		default:
			if sn.empty && len(now) > 0 {
				t.lab(op + " on a Seq obtained while empty, bitmap now non-empty")
			}
			conv, vanished, created := false, false, false
			for h := range s.conv {
				if !sn.dense[h] {
					conv = true
				}
			}
			for _, h := range sn.keys {
				if _, ok := s.cnt[h]; !ok {
					vanished = true
				}
			}
			for _, h := range now {
				if !slices.Contains(sn.keys, h) {
					created = true
				}
			}
			if conv {
				t.lab(op + " on a Seq obtained before a conversion")
			}
			if vanished {
				t.lab(op + " on a Seq obtained before a bucket vanished")
			}
			if created && !sn.empty {
				t.lab(op + " on a Seq obtained before a bucket was created")
			}
			if len(sn.keys) > 0 && (len(now) == 0 || now[0] != sn.keys[0]) {
				t.lab(op + " on a Seq obtained before the head bucket changed")
			}
			if !conv && !vanished && !created {
				t.lab(op + " on a Seq obtained before membership-only mutations")
			}
		}
		if sn.lastUse >= 0 && sn.lastUse != t.muts {
			t.lab("same Seq slot used again after further mutations")
		}
		sn.lastUse = t.muts
	case "it":
		t.itPos[a] = 0
	case "itnext":
		p := t.itPos[a]
		if p < 0 {
			t.lab("itnext on an empty slot (none)")
			return
		}
		live := 0
		for _, q := range t.itPos {
			if q >= 0 {
				live++
			}
		}
		t.lab(fmt.Sprintf("itnext with %d iterators alive", live))
		q := min(p+b, s.size())
		hb, okb := t.bucketOfPos(p)
		ha, oka := t.bucketOfPos(q)
		crossed := okb && oka && ha != hb
		for k, o := range t.itPos {
			if k == a || o < 0 {
				continue
			}
			ho, oko := t.bucketOfPos(o)
			switch {
			case !oko || !oka:
				t.lab("itnext while another iterator is not started / this one exhausted")
			case ho == ha && s.conv[ha]:
				t.lab("itnext with another iterator in the same dense bucket")
			case ho == ha:
				t.lab("itnext with another iterator in the same sparse bucket")
			default:
				t.lab("itnext with another iterator in a different bucket")
			}
			if crossed && oko && ho == hb {
				t.lab("itnext crosses a bucket boundary while another iterator stands inside the bucket left")
			}
		}
		if p+b > s.size() {
			t.lab("itnext runs into the end (more=false)")
		}
		t.itPos[a] = q
	case "itpairs":
		kind := "empty"
		switch {
		case len(s.cnt) == 0:
		case len(s.conv) == 0:
			kind = "sparse-only"
		case len(s.conv) == len(s.cnt):
			kind = "dense-only"
		default:
			kind = "mixed"
		}
		t.lab("itpairs on a " + kind + " bitmap")
	}
}

// sizeLabels names the large shapes an enumeration / dump runs over.
func (t *tracker) sizeLabels(op string) {
	s := t.s
	if len(s.cnt) >= 300 {
		t.labels = append(t.labels, op+" over ≥300 buckets")
	}
	for h, n := range s.cnt {
		if n >= 60000 {
			lab := op + " over a bucket with ≥60000 members"
			if n == 65536 {
				lab = op + " over a completely full bucket (65536)"
			}
			t.labels = append(t.labels, lab)
		}
		if !s.conv[h] || n > 64 {
			continue
		}
		// word occupancy of a nearly empty bitmap container
		occ := map[uint32]bool{}
		for _, v := range s.bucket(h) {
			occ[(v&0xFFFF)>>6] = true
		}
		t.labels = append(t.labels, op+" over a dense bucket with ≤64 members (long empty word runs)")
		lone3, only := false, true
		for w := range occ {
			if w%4 == 3 && !occ[w-1] && !occ[w-2] && !occ[w-3] {
				lone3 = true
			}
			if w != 0 && w != 1023 {
				only = false
			}
		}
		if lone3 {
			t.labels = append(t.labels, op+" over a dense bucket: word ≡3 mod 4 occupied, its 3 lower neighbours empty")
		}
		if only && occ[0] && occ[1023] {
			t.labels = append(t.labels, op+" over a dense bucket: members only in words 0 and 1023")
		}
		if len(occ) == 1 {
			t.labels = append(t.labels, op+" over a dense bucket: a single occupied word")
		}
	}
}

func classify(c core.Case, out []string) []string {
	newTracker := func() *tracker {
		return &tracker{s: newRef(), wasDense: map[uint32]bool{}, convCount: map[uint32]int{}, cycles: map[uint32]int{}, lastBulk: map[uint32]string{}, itPos: [nSlots]int{-1, -1, -1, -1}}
	}
	// several objects per case: one tracker each, `obj k` switches
	var ts [nObjects]*tracker
	ts[0] = newTracker()
	t := ts[0]
	cur, lastConvObj, switches := 0, -1, 0
	totalConv := func() int {
		n := 0
		for _, x := range ts {
			if x != nil {
				for _, c := range x.convCount {
					n += c
				}
			}
		}
		return n
	}
	prevLine, repeat := "", 0
	prev := ""
	forced := ""
	if hd := core.Toks(c.Lines[0]); len(hd) == 4 {
		if src, ok := parseHeights(hd[3]); ok {
			forced = src.kind
			t.lab("inner skip list: tower heights forced (" + forced + ")")
		}
	}
	maxB := 0
	for i, l := range c.Lines[1:] {
		tk := core.Toks(l)
		if len(tk) == 0 {
			continue
		}
		if k, ok := objArg(tk); ok {
			if ts[k] == nil {
				ts[k] = newTracker()
			}
			if k != cur {
				switches++
			}
			cur, t = k, ts[k]
			prev = "obj"
			continue
		}
		convBefore := totalConv()
		if isMutation(tk[0]) {
			t.itPos = [nSlots]int{-1, -1, -1, -1}
			t.muts++
		}
		if isHandleOp(tk[0]) {
			t.handleLabels(tk)
			prev = tk[0]
			continue
		}
		switch tk[0] {
		case "add", "rm", "has":
			v, ok := parseU32(tk[1])
			if !ok {
				break
			}
			if isBoundary(v) {
				t.labels = append(t.labels, fmt.Sprintf("boundary value 0x%X (%s)", v, tk[0]))
			}
			if lo := v & 0xFFFF; (lo == 0 || lo == 1 || lo == 0xFFFF) && (lo != 1 || v > 1) {
				where := map[uint32]string{0xFFFF: "k·65536−1", 0: "k·65536", 1: "k·65536+1"}[lo]
				kind := "sparse/absent"
				if t.s.conv[v>>16] {
					kind = "dense"
				}
				t.labels = append(t.labels, "magnitude "+where+" ("+tk[0]+", "+kind+" bucket)")
			}
			if l == prevLine {
				repeat++
				if repeat == 2 {
					t.labels = append(t.labels, "same "+tk[0]+" repeated ≥3 times in a row")
				}
			} else {
				prevLine, repeat = l, 0
			}
			if tk[0] != "has" {
				t.event = ""
				t.note(v, tk[0] == "add", false)
			} else if t.s.conv[v>>16] {
				t.labels = append(t.labels, "has on a dense bucket")
			}
		case "fill", "drain":
			a, ok := parseBulk(tk)
			if !ok {
				break
			}
			t.event = ""
			wasDense := t.s.conv[uint32(a.hi)]
			t.s.beginBulk()
			cur := a.start
			for j := 0; j < a.n; j++ {
				t.note(uint32(a.hi)<<16|uint32(cur%65536), tk[0] == "fill", true)
				cur += a.step
			}
			t.s.endBulk()
			if wasDense {
				t.labels = append(t.labels, "bulk "+tk[0]+" on a dense bucket")
			}
			hk := uint32(a.hi)
			if tk[0] == "drain" && t.lastBulk[hk] == "fill" {
				t.cycles[hk]++
				if n := t.cycles[hk]; n == 5 || n == 10 || n == 15 {
					kind := "sparse"
					if wasDense {
						kind = "dense"
					}
					t.labels = append(t.labels, fmt.Sprintf("fill–drain cycle #%d on the same bucket (%s)", n, kind))
				}
			}
			t.lastBulk[hk] = tk[0]
			if a.n == 65536 && a.step == 1 {
				t.labels = append(t.labels, "full-range drain/fill of a bucket")
			}
		case "rep":
			lab := "rep"
			if len(t.s.conv) > 0 {
				lab += " (dense present)"
			}
			t.labels = append(t.labels, lab)
			t.sizeLabels("rep")
		case "iter", "range", "all", "iterk":
			nb := len(t.s.cnt)
			dense := len(t.s.conv)
			lab := tk[0] + " over "
			switch {
			case nb == 0:
				lab += "empty"
			case nb == 1:
				lab += "1 bucket"
			default:
				lab += "≥2 buckets"
			}
			if dense > 0 {
				lab += " (dense present)"
			}
			t.labels = append(t.labels, lab)
			t.sizeLabels(tk[0])
			if tk[0] == "iterk" && (prev == "add" || prev == "rm" || prev == "fill" || prev == "drain") {
				t.labels = append(t.labels, "iterator created and dropped directly after a mutation")
			}
			if nb >= 5 {
				t.labels = append(t.labels, "enumeration over ≥5 buckets")
			}
			if dense > 0 && nb > dense {
				t.labels = append(t.labels, "enumeration over dense and sparse buckets interleaved")
			}
			if dense >= 2 {
				t.labels = append(t.labels, "enumeration over ≥2 dense buckets")
			}
			if t.event != "" {
				t.labels = append(t.labels, "enum directly after: "+t.event)
			}
			if tk[0] == "iter" && prev == "iterk" {
				t.labels = append(t.labels, "partial iterk then a fresh full iter")
			}
			if len(tk) == 2 && tk[1] != "0" {
				k, _ := strconv.Atoi(tk[1])
				n := t.s.size()
				lab := "early stop: other k"
				switch {
				case k == 1:
					lab = "early stop: k=1"
				case k == n:
					lab = "early stop: k=Len"
				case k == n+1:
					lab = "early stop: k=Len+1"
				case k > n:
					lab = "early stop: k>Len+1"
				default:
					cum := 0
					for _, h := range t.s.keys() {
						cum += t.s.cnt[h]
						if cum == k {
							lab = "early stop: k exactly at a bucket boundary"
						} else if cum+1 == k {
							lab = "early stop: k = bucket boundary+1"
						}
					}
				}
				t.labels = append(t.labels, "early stop", lab)
			}
		}
		if switches > 0 && totalConv() > convBefore {
			if lastConvObj >= 0 && lastConvObj != cur {
				t.lab("multi: conversions alternate between objects")
			}
			lastConvObj = cur
			for k, x := range ts {
				if x == nil || k == cur {
					continue
				}
				for h, n := range x.s.cnt {
					if n == 4096 && !x.s.conv[h] {
						t.lab("multi: conversion while another object's bucket stands at exactly 4096")
					}
				}
			}
		}
		if switches > 0 && (tk[0] == "iter" || tk[0] == "range" || tk[0] == "all") && prev == "obj" {
			t.lab("multi: enumeration directly after switching the object")
		}
		if forced != "" && len(t.s.cnt) > maxB {
			maxB = len(t.s.cnt)
			for _, n := range []int{8, 33, 100, 300} {
				if maxB == n {
					t.lab(fmt.Sprintf("forced heights (%s): %d buckets reached", forced, n))
				}
			}
		}
		if forced != "" && tk[0] == "rep" {
			t.lab("rep with tower validation under forced heights")
		}
		if _, key, _ := alarmOf(out[min(i+1, len(out)-1)]); key != "" {
			t.lab("alarm " + key)
		}
		prev = tk[0]
		if i+1 < len(out) && out[i+1] == "panic" {
			t.labels = append(t.labels, "panic")
		}
	}
	var all []string
	n := 0
	for _, x := range ts {
		if x != nil {
			all = append(all, x.labels...)
			n++
		}
	}
	if n > 1 {
		all = append(all, fmt.Sprintf("multi: %d objects used", n))
		if switches >= 10 {
			all = append(all, "multi: ≥10 object switches")
		}
	}
	return all
}
