package c03

import (
	"fmt"
	"iter"
	"strconv"
	"strings"

	"github.com/welllog/golib/setz"

	"verifharness/internal/core"
)

// Wave 4, class 1 (handle / iterator reuse): held iter.Seq values from rb.All() and held
// RoaringBitmapIter values from rb.Iter().  Op formats: /tmp/work/w4-c03-protocol.md
// (header comment of lean/Golib/Model/C03.lean).

const nSlots = 4

func isMutation(op string) bool { return op == "add" || op == "rm" || op == "fill" || op == "drain" }

func isHandleOp(op string) bool {
	switch op {
	case "seq", "seqrange", "seqtwice", "seqnest", "pull2", "it", "itnext", "itpairs":
		return true
	}
	return false
}

// handleArgs parses `op a [b]` with non-negative integers; slot ops get their slot checked.
func handleArgs(t []string) (a, b int, ok bool) {
	want := map[string]int{"seq": 1, "it": 1, "itpairs": 1, "seqrange": 2, "seqtwice": 2, "seqnest": 2, "pull2": 2, "itnext": 2}[t[0]]
	if len(t) != want+1 {
		return 0, 0, false
	}
	var err error
	if a, err = strconv.Atoi(t[1]); err != nil || a < 0 {
		return 0, 0, false
	}
	if want == 2 {
		if b, err = strconv.Atoi(t[2]); err != nil || b < 0 {
			return 0, 0, false
		}
	}
	switch t[0] {
	case "itpairs":
		return a, 0, a >= 1
	case "seqtwice", "seqnest":
		ok = b >= 1
	case "itnext":
		ok = b >= 1 && b <= 64
	default:
		ok = true
	}
	return a, b, ok && a < nSlots
}

func joinCounts(cs []int) string {
	s := make([]string, len(cs))
	for i, c := range cs {
		s[i] = strconv.Itoa(c)
	}
	return strings.Join(s, ",")
}

// ---- the real code -------------------------------------------------------------------

type handles struct {
	seqs [nSlots]iter.Seq[uint32]
	its  [nSlots]*setz.RoaringBitmapIter
}

func (h *handles) dropIters() { h.its = [nSlots]*setz.RoaringBitmapIter{} }

func (h *handles) step(rb *setz.RoaringBitmap, t []string) string {
	a, b, ok := handleArgs(t)
	if !ok {
		return "bad-op"
	}
	switch t[0] {
	case "seq":
		h.seqs[a] = rb.All()
		return "ok"
	case "it":
		it := rb.Iter()
		h.its[a] = &it
		return "ok"
	case "itnext":
		it := h.its[a]
		if it == nil {
			return "none"
		}
		var xs []uint32
		more := true
		for n := 0; n < b; n++ {
			if !it.Next() {
				more = false
				break
			}
			xs = append(xs, it.Value())
		}
		return showVals(xs) + " more=" + strconv.FormatBool(more)
	case "itpairs":
		var xs []uint32
		var cs []int
		ia := rb.Iter()
		for ia.Next() {
			x := ia.Value()
			ib := rb.Iter()
			c := 0
			for ib.Next() {
				c++
				if c > rb.Len()+70000 {
					return "iter-does-not-terminate"
				}
			}
			xs = append(xs, x)
			cs = append(cs, c)
			if len(xs) == a || len(xs) > rb.Len()+70000 {
				break
			}
		}
		return "outer=" + showVals(xs) + " inner=" + joinCounts(cs)
	}
	seq := h.seqs[a]
	if seq == nil {
		return "none"
	}
	switch t[0] {
	case "seqrange":
		var xs []uint32
		seq(func(v uint32) bool {
			xs = append(xs, v)
			return len(xs) != b
		})
		return summary(xs)
	case "seqtwice":
		var xs1, xs2 []uint32
		for v := range seq {
			xs1 = append(xs1, v)
			if len(xs1) == b {
				break
			}
		}
		for v := range seq {
			xs2 = append(xs2, v)
		}
		return summary(xs1) + " ; " + summary(xs2)
	case "seqnest":
		var as []uint32
		var cs []int
		for v := range seq {
			inner := 0
			for range seq {
				inner++
			}
			as = append(as, v)
			cs = append(cs, inner)
			if len(as) == b {
				break
			}
		}
		return "outer=" + summary(as) + " inner=" + joinCounts(cs)
	case "pull2":
		next1, stop1 := iter.Pull(seq)
		next2, stop2 := iter.Pull(seq)
		defer stop2()
		defer stop1()
		var xs1, xs2 []uint32
		done1, done2 := false, false
		for !done1 || !done2 {
			if !done1 {
				if v, ok := next1(); !ok {
					done1 = true
				} else {
					xs1 = append(xs1, v)
					if b > 0 && len(xs1) == b {
						stop1()
						done1 = true
					}
				}
			}
			if !done2 {
				if v, ok := next2(); !ok {
					done2 = true
				} else {
					xs2 = append(xs2, v)
				}
			}
		}
		return summary(xs1) + " ; " + summary(xs2)
	}
	return "bad-op"
}

// ---- the independent oracle ----------------------------------------------------------

// refHandles is what the property says about held handles: a Seq slot is just "held" (every
// range of it enumerates the members at the time of ranging); an Iter slot is a position
// in the ascending member list (no mutation happens while it is alive).
type refHandles struct {
	seq   [nSlots]bool
	itPos [nSlots]int // -1: empty slot
}

func newRefHandles() *refHandles {
	return &refHandles{itPos: [nSlots]int{-1, -1, -1, -1}}
}

func (h *refHandles) dropIters() { h.itPos = [nSlots]int{-1, -1, -1, -1} }

func firstN(xs []uint32, n int) []uint32 {
	if n > 0 && n < len(xs) {
		return xs[:n]
	}
	return xs
}

// want returns the answer the property demands for a handle op (and advances the slots).
func (h *refHandles) want(t []string, ref *refSet) (want, key string) {
	a, b, ok := handleArgs(t)
	if !ok {
		return "bad-op", "bad-op"
	}
	all := ref.all()
	n := len(all)
	switch t[0] {
	case "seq":
		h.seq[a] = true
		return "ok", "seq-obtain"
	case "it":
		h.itPos[a] = 0
		return "ok", "iter-obtain"
	case "itnext":
		p := h.itPos[a]
		if p < 0 {
			return "none", "iter-slot"
		}
		q := p + b
		more := true
		if q > n {
			q, more = n, false
		}
		h.itPos[a] = q
		return showVals(all[p:q]) + " more=" + strconv.FormatBool(more), "iter-independence"
	case "itpairs":
		xs := firstN(all, a)
		cs := make([]int, len(xs))
		for i := range cs {
			cs[i] = n
		}
		return "outer=" + showVals(xs) + " inner=" + joinCounts(cs), "iter-nested"
	}
	if !h.seq[a] {
		return "none", "seq-slot"
	}
	switch t[0] {
	case "seqrange":
		return summary(firstN(all, b)), "seq-range"
	case "seqtwice":
		return summary(firstN(all, b)) + " ; " + summary(all), "seq-ranged-twice"
	case "seqnest":
		xs := firstN(all, b)
		cs := make([]int, len(xs))
		for i := range cs {
			cs[i] = n
		}
		return "outer=" + summary(xs) + " inner=" + joinCounts(cs), "seq-nested"
	case "pull2":
		return summary(firstN(all, b)) + " ; " + summary(all), "seq-two-pull-cursors"
	}
	return "bad-op", "bad-op"
}

func (h *refHandles) check(i int, c core.Case, out []string, ref *refSet) *core.Failure {
	t := core.Toks(c.Lines[i])
	want, key := h.want(t, ref)
	if out[i] == want {
		return nil
	}
	return &core.Failure{Key: key, Desc: fmt.Sprintf("op %d %q: implementation answered %q; a held handle on a set of uint32 with %d members (enumerated in ascending order at the time of use, independently of other handles) answers %q", i, c.Lines[i], out[i], ref.size(), want)}
}
