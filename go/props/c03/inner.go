package c03

import (
	"fmt"
	"math/rand"
	"reflect"
	"sort"
	"strconv"
	"strings"
	"unsafe"

	"github.com/welllog/golib/setz"
)

// Wave 5: (3) the tower heights of the skip list INSIDE the RoaringBitmap are forced in a
// share of the cases and its towers are validated in place at every `rep`; (4) the memory
// the array→bitmap conversion produces is inspected (length / capacity of the word slice,
// no aliasing with the array container it came from, backing arrays of all buckets
// pairwise disjoint).  The Lean model has neither towers nor addresses: a failed validation
// is appended to the op's answer as ` !<key>:<reason>` (which no model answer contains) and
// reported by the check under <key>.

// ---- forced heights ----------------------------------------------------------------------

// heightSrc is the rand.Source64 installed in place of the inner skip list's private
// source: one word per new node (randomLevel draws exactly one), from an LCG.
type heightSrc struct {
	kind string
	seed uint64
	s    uint64
	n    int
	nraw int
}

// wordForHeight: randomLevel = ((32 - bits.Len64(w & (2^32-1))) & 31) + 1.
func wordForHeight(l int) uint64 { return 1 << (32 - l) }

// rawWords are source words (not heights) whose low 32 bits hit every rare outcome of
// randomLevel: k = 0, k = 1 (also through high bits that the mask drops), the top bit of k
// set, all ones.
var rawWords = []uint64{0, 1, 2, 3, 1<<31 - 1, 1 << 31, 1<<31 + 1, 1<<32 - 1, 1 << 32, 1<<32 + 1,
	1 << 63, 1<<63 | 1, 1<<64 - 1}

// raw: the i-th raw draw of a case with seed s is rawWords[(s+i) mod 14], index 13 standing for
// "low 32 bits = 1, random high bits"; `heights=raw:1` therefore starts with the word 1.
func (h *heightSrc) raw(x uint64) uint64 {
	i := (h.seed + uint64(h.nraw)) % uint64(len(rawWords)+1)
	h.nraw++
	if int(i) == len(rawWords) {
		return x<<32 | 1
	}
	return rawWords[i]
}

func (h *heightSrc) Uint64() uint64 {
	h.s = h.s*6364136223846793005 + 1442695040888963407
	x := h.s >> 20
	h.n++
	if h.kind == "raw" || (h.kind != "natural" && x%10 == 7) { // ≈ 10 % of the draws of every forced kind
		return h.raw(x >> 4)
	}
	switch h.kind {
	case "tall": // 8..32 most of the time: the level climbs to 32 one step per insertion
		if x%8 == 0 {
			return x >> 8 // natural
		}
		return wordForHeight(8 + int((x>>3)%25))
	case "flat":
		return wordForHeight(1)
	case "alt":
		if h.n%2 == 0 {
			return wordForHeight(32)
		}
		return wordForHeight(1)
	}
	return x // natural: geometric heights
}
func (h *heightSrc) Int63() int64 { return int64(h.Uint64() >> 1) }
func (h *heightSrc) Seed(int64)   {}

// forObject derives the source of object k of a multi-object case.
func (h *heightSrc) forObject(k int) *heightSrc {
	return &heightSrc{kind: h.kind, seed: h.seed + uint64(k)*5, s: h.s + uint64(k)*0x9E3779B97F4A7C15}
}

var heightKinds = []string{"natural", "tall", "flat", "alt", "raw"}

// parseHeights parses the header token `heights=<kind>:<seed>`.
func parseHeights(tok string) (*heightSrc, bool) {
	body, ok := strings.CutPrefix(tok, "heights=")
	if !ok {
		return nil, false
	}
	kind, seed, ok := strings.Cut(body, ":")
	if !ok {
		return nil, false
	}
	n, err := strconv.ParseUint(seed, 10, 63)
	if err != nil {
		return nil, false
	}
	for _, k := range heightKinds {
		if k == kind {
			return &heightSrc{kind: kind, seed: n, s: n*2654435761 + 12345}, true
		}
	}
	return nil, false
}

// towerHooks: the private fields the forcing and the tower walk rely on.
var towerHooks = hooks && func() bool {
	t := reflect.TypeOf(setz.RoaringBitmap{})
	cf, ok := t.FieldByName("containers")
	if !ok {
		return false
	}
	rf, ok := cf.Type.FieldByName("rand")
	if !ok || rf.Type != reflect.TypeOf((*rand.Rand)(nil)) {
		return false
	}
	_, ok = fieldKind(cf.Type, "level", reflect.Int)
	return ok
}()

func innerList(rb *setz.RoaringBitmap) reflect.Value {
	return reflect.ValueOf(rb).Elem().FieldByName("containers")
}

// skipListReady: lazyInit has run (it installs a fresh time-seeded source, so the forced one
// must go in after it).
func skipListReady(rb *setz.RoaringBitmap) bool {
	return !innerList(rb).FieldByName("head").FieldByName("next").IsNil()
}

func installHeights(rb *setz.RoaringBitmap, src *heightSrc) {
	f := innerList(rb).FieldByName("rand")
	reflect.NewAt(f.Type(), unsafe.Pointer(f.UnsafeAddr())).Elem().Set(reflect.ValueOf(rand.New(src)))
}

// ---- towers ------------------------------------------------------------------------------

type towerStats struct {
	level int
	lens  []int
}

// checkInner validates the towers of the inner skip list in place; reason == "" when they
// are well-formed: level in 1..32 (0 only before lazy init), nothing linked at or above
// level, the top level non-empty unless level is 1, every chain strictly ascending by key,
// chain lengths non-increasing upwards, level 0 = all buckets, a node is linked in exactly
// len(node.next) levels (the lowest ones).
func checkInner(rb *setz.RoaringBitmap) (st towerStats, reason string) {
	defer func() {
		if r := recover(); r != nil {
			reason = fmt.Sprintf("unreadable-%v", r)
		}
	}()
	cs := innerList(rb)
	level := int(cs.FieldByName("level").Int())
	n := int(cs.FieldByName("len").Int())
	hn := cs.FieldByName("head").FieldByName("next")
	st.level = level
	if hn.IsNil() {
		if level != 0 || n != 0 {
			return st, fmt.Sprintf("uninitialised-list-with-level-%d-len-%d", level, n)
		}
		return st, ""
	}
	if level < 1 || level > 32 || level > hn.Len() {
		return st, fmt.Sprintf("level-%d-out-of-range", level)
	}
	linked := map[unsafe.Pointer]int{}
	for i := 0; i < hn.Len(); i++ {
		p := hn.Index(i)
		cnt := 0
		var prev uint64
		for !p.IsNil() {
			node := p.Elem()
			key := node.FieldByName("key").Uint()
			if cnt > 0 && key <= prev {
				return st, fmt.Sprintf("level-%d-chain-not-ascending-at-key-%d", i, key)
			}
			prev = key
			nx := node.FieldByName("next")
			if i >= nx.Len() {
				return st, fmt.Sprintf("node-%d-linked-at-level-%d-above-its-height-%d", key, i, nx.Len())
			}
			if linked[p.UnsafePointer()] != i {
				return st, fmt.Sprintf("node-%d-linked-at-level-%d-but-not-at-all-lower-levels", key, i)
			}
			linked[p.UnsafePointer()] = i + 1
			cnt++
			if cnt > 70000 {
				return st, fmt.Sprintf("level-%d-chain-cycle", i)
			}
			p = nx.Index(i)
		}
		if i >= level && cnt > 0 {
			return st, fmt.Sprintf("level-%d-linked-above-list-level-%d", i, level)
		}
		if i < level {
			st.lens = append(st.lens, cnt)
		}
	}
	if st.lens[0] != n {
		return st, fmt.Sprintf("level-0-chain-has-%d-nodes-len-field-%d", st.lens[0], n)
	}
	for i := 1; i < len(st.lens); i++ {
		if st.lens[i] > st.lens[i-1] {
			return st, fmt.Sprintf("level-%d-chain-longer-than-level-%d", i, i-1)
		}
	}
	if level > 1 && st.lens[level-1] == 0 {
		return st, fmt.Sprintf("top-level-%d-empty", level)
	}
	// node heights = number of levels linked in
	p := hn.Index(0)
	for !p.IsNil() {
		node := p.Elem()
		if h := node.FieldByName("next").Len(); linked[p.UnsafePointer()] != h {
			return st, fmt.Sprintf("node-%d-has-height-%d-but-is-linked-in-%d-levels", node.FieldByName("key").Uint(), h, linked[p.UnsafePointer()])
		}
		p = node.FieldByName("next").Index(0)
	}
	return st, ""
}

// ---- backing memory ----------------------------------------------------------------------

type bucketMem struct {
	key      uint64
	kind     byte // 'a' | 'b' | 0 (absent)
	data     uintptr
	len, cap int
	bytes    uintptr // cap * element size
}

func (m bucketMem) overlaps(o bucketMem) bool {
	return m.bytes > 0 && o.bytes > 0 && m.data < o.data+o.bytes && o.data < m.data+m.bytes
}

func memOf(key uint64, val reflect.Value) bucketMem {
	m := bucketMem{key: key}
	if val.IsNil() || val.Elem().Kind() != reflect.Ptr || val.Elem().IsNil() {
		return m
	}
	st := val.Elem().Elem()
	switch st.Type().Name() {
	case "arrayContainer":
		f := st.FieldByName("values")
		vals := *(*[]uint16)(unsafe.Pointer(f.UnsafeAddr()))
		m.kind, m.len, m.cap = 'a', len(vals), cap(vals)
		m.data, m.bytes = uintptr(unsafe.Pointer(unsafe.SliceData(vals))), uintptr(cap(vals))*2
	case "bitmapContainer":
		f := st.FieldByName("Bitmap").FieldByName("set")
		set := *(*[]uint64)(unsafe.Pointer(f.UnsafeAddr()))
		m.kind, m.len, m.cap = 'b', len(set), cap(set)
		m.data, m.bytes = uintptr(unsafe.Pointer(unsafe.SliceData(set))), uintptr(cap(set))*8
	}
	return m
}

// allMem walks the level-0 chain; only (when ≥ 0) restricts it to one key.
func allMem(rb *setz.RoaringBitmap, only int64) (ms []bucketMem) {
	defer func() { _ = recover() }()
	hn := innerList(rb).FieldByName("head").FieldByName("next")
	if hn.IsNil() || hn.Len() == 0 {
		return nil
	}
	p := hn.Index(0)
	for steps := 0; !p.IsNil() && steps < 70000; steps++ {
		node := p.Elem()
		key := node.FieldByName("key").Uint()
		if only < 0 || uint64(only) == key {
			ms = append(ms, memOf(key, node.FieldByName("val")))
			if only >= 0 {
				return ms
			}
		}
		nx := node.FieldByName("next")
		if nx.Len() == 0 {
			return ms
		}
		p = nx.Index(0)
	}
	return ms
}

func memOfBucket(rb *setz.RoaringBitmap, h uint32) bucketMem {
	if ms := allMem(rb, int64(h)); len(ms) == 1 {
		return ms[0]
	}
	return bucketMem{key: uint64(h)}
}

// checkMem: every bitmap container has a 1024-word slice with cap ≥ len; the backing
// arrays of all buckets are pairwise disjoint.
func checkMem(rb *setz.RoaringBitmap) (key, reason string) {
	ms := allMem(rb, -1)
	for _, m := range ms {
		if m.kind == 'b' && (m.len != 1024 || m.cap < 1024) {
			return "conversion-words-len", fmt.Sprintf("bucket-%d-set-len-%d-cap-%d", m.key, m.len, m.cap)
		}
	}
	sort.Slice(ms, func(i, j int) bool { return ms[i].data < ms[j].data })
	for i := 1; i < len(ms); i++ {
		if ms[i-1].overlaps(ms[i]) {
			return "conversion-aliasing", fmt.Sprintf("backing-arrays-of-buckets-%d-and-%d-overlap", ms[i-1].key, ms[i].key)
		}
	}
	return "", ""
}

// ---- one case's run of the real code -------------------------------------------------------

// caseRun wraps the RoaringBitmap of a case with the wave-5 instrumentation.
type caseRun struct {
	rb        setz.RoaringBitmap
	hs        handles
	src       *heightSrc
	installed bool
	cnt       map[uint32]int // members per bucket as answered by Add/Remove (only to know when to look)
	alarm     string
}

func (cr *caseRun) raise(key, reason string) {
	if cr.alarm == "" {
		cr.alarm = " !" + key + ":" + reason
	}
}

func (cr *caseRun) add(v uint32) bool {
	h := v >> 16
	watch := towerHooks && cr.cnt[h] == 4096
	var before bucketMem
	if watch {
		before = memOfBucket(&cr.rb, h)
	}
	ok := cr.rb.Add(v)
	if ok {
		cr.cnt[h]++
	}
	if cr.src != nil && !cr.installed && towerHooks && skipListReady(&cr.rb) {
		installHeights(&cr.rb, cr.src)
		cr.installed = true
	}
	if watch && ok {
		after := memOfBucket(&cr.rb, h)
		if after.kind == 'b' {
			if after.len != 1024 || after.cap < 1024 {
				cr.raise("conversion-words-len", fmt.Sprintf("bucket-%d-converted-to-a-set-of-len-%d-cap-%d", h, after.len, after.cap))
			}
			if before.kind == 'a' && before.overlaps(after) {
				cr.raise("conversion-aliasing", fmt.Sprintf("bucket-%d-words-share-memory-with-the-array-container-they-were-converted-from", h))
			}
		}
	}
	return ok
}

func (cr *caseRun) remove(v uint32) bool {
	ok := cr.rb.Remove(v)
	if ok {
		if h := v >> 16; cr.cnt[h] > 0 {
			cr.cnt[h]--
		}
	}
	return ok
}

// structural is evaluated at every `rep`.
func (cr *caseRun) structural() {
	if !towerHooks {
		return
	}
	if _, why := checkInner(&cr.rb); why != "" {
		cr.raise("inner-skiplist-towers", why)
	}
	if key, why := checkMem(&cr.rb); key != "" {
		cr.raise(key, why)
	}
}

// alarmOf splits ` !<key>:<reason>` off an answer.
func alarmOf(out string) (rest, key, reason string) {
	i := strings.Index(out, " !")
	if i < 0 {
		return out, "", ""
	}
	key, reason, _ = strings.Cut(out[i+2:], ":")
	return out[:i], key, reason
}
