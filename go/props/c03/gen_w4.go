package c03

import (
	"slices"
)

// Wave-4 stream "handles": held iter.Seq values (rb.All()) used after structural changes,
// ranged twice / nested / driven by two Pull cursors, and several RoaringBitmapIter values
// alive at the same time in the same or in different buckets.

type handleGen struct {
	g     *genState
	seqs  [nSlots]bool
	itPos [nSlots]int // values delivered so far; -1 = empty slot
}

func (hg *handleGen) dropIters() { hg.itPos = [nSlots]int{-1, -1, -1, -1} }

// mutations go through these so that the Iter slots are known to be empty afterwards
func (hg *handleGen) add(v uint32)             { hg.g.add(v); hg.dropIters() }
func (hg *handleGen) rm(v uint32)              { hg.g.rm(v); hg.dropIters() }
func (hg *handleGen) bulk(rm bool, a bulkArgs) { hg.g.bulk(rm, a); hg.dropIters() }

func (hg *handleGen) seq(k int) {
	hg.g.emit("seq %d", k)
	hg.seqs[k] = true
}

// stopJ picks a small positive count (sometimes around Len).
func (hg *handleGen) stopJ() int {
	n := hg.g.s.size()
	switch hg.g.r.Pick(5, 2, 1, 1) {
	case 0:
		return hg.g.r.Range(1, 4)
	case 1:
		if n > 0 {
			return n
		}
	case 2:
		return n + 1
	}
	return hg.g.r.Range(1, n+2)
}

// useSeq runs the reuse ops on a held slot (mostly all four kinds).
func (hg *handleGen) useSeq(k int, thorough bool) {
	g, r := hg.g, hg.g.r
	if !hg.seqs[k] && r.Chance(90) {
		return
	}
	big := g.s.size() > 3000
	ops := []int{0, 1, 2, 3, 0}
	for i := len(ops) - 1; i > 0; i-- {
		j := r.Intn(i + 1)
		ops[i], ops[j] = ops[j], ops[i]
	}
	n := r.Range(2, 5)
	if big && !thorough {
		n = r.Range(2, 3)
	}
	for _, op := range ops[:n] {
		switch op {
		case 0:
			stop := 0
			if r.Chance(40) {
				stop = g.pickStop()
			}
			g.emit("seqrange %d %d", k, stop)
		case 1:
			g.emit("seqtwice %d %d", k, hg.stopJ())
		case 2:
			j := r.Range(1, 3)
			if big {
				j = r.Range(1, 2)
			}
			g.emit("seqnest %d %d", k, j)
		case 3:
			a := 0
			if r.Chance(50) {
				a = hg.stopJ()
			}
			g.emit("pull2 %d %d", k, a)
		}
	}
}

func (hg *handleGen) it(k int) {
	hg.g.emit("it %d", k)
	hg.itPos[k] = 0
}

func (hg *handleGen) itnext(k, n int) {
	if n < 1 {
		n = 1
	}
	if n > 64 {
		n = 64
	}
	hg.g.emit("itnext %d %d", k, n)
	if hg.itPos[k] >= 0 {
		hg.itPos[k] = min(hg.itPos[k]+n, hg.g.s.size())
	}
}

// toBoundary: the number of Next calls that take slot k just across the end of the bucket
// it stands in (0 when it is exhausted or empty).
func (hg *handleGen) toBoundary(k int) int {
	p := hg.itPos[k]
	if p < 0 {
		return 0
	}
	cum := 0
	for _, h := range hg.g.s.keys() {
		cum += hg.g.s.cnt[h]
		if p < cum || (p == 0 && cum > 0) {
			return cum - p + 1
		}
	}
	return 0
}

// interleave: 2–3 Iter slots obtained (at once or staggered) and advanced alternately.
func (hg *handleGen) interleave() {
	g, r := hg.g, hg.g.r
	ns := r.Range(2, 3)
	if r.Chance(10) {
		ns = 4
	}
	slots := []int{0, 1, 2, 3}
	for i := 3; i > 0; i-- {
		j := r.Intn(i + 1)
		slots[i], slots[j] = slots[j], slots[i]
	}
	slots = slots[:ns]
	staggered := r.Bool()
	for i, k := range slots {
		if !staggered || i == 0 {
			hg.it(k)
		}
	}
	for step := r.Range(4, 10); step > 0; step-- {
		k := slots[r.Intn(ns)]
		if hg.itPos[k] < 0 {
			hg.it(k)
			continue
		}
		switch r.Pick(5, 3, 1, 1) {
		case 0:
			hg.itnext(k, r.Range(1, 3))
		case 1: // across the end of the bucket it stands in, the others stay behind
			if n := hg.toBoundary(k); n >= 1 && n <= 64 {
				hg.itnext(k, n)
			} else {
				hg.itnext(k, 64)
			}
		case 2:
			hg.itnext(k, r.Range(4, 64))
		case 3: // a fresh iterator in a used slot while the others are part-way
			hg.it(k)
		}
	}
	if r.Chance(30) { // run one of them to the end and once more
		k := slots[r.Intn(ns)]
		for i := 0; i < 3 && hg.itPos[k] >= 0 && hg.itPos[k] < g.s.size(); i++ {
			hg.itnext(k, 64)
		}
		hg.itnext(k, 1)
	}
	if r.Chance(40) {
		g.emit("iter")
	}
}

func (g *genState) handlesScript(thorough bool) {
	r := g.r
	hg := &handleGen{g: g}
	hg.dropIters()
	shape := r.Pick(50, 25, 25) // sparse-only, dense-only, mixed
	nb := r.Range(1, 4)
	if shape == 1 {
		nb = r.Range(1, 2)
	}
	g.his = g.his[:0]
	for len(g.his) < nb {
		h := uint32(r.Intn(65536))
		if r.Chance(40) {
			h = []uint32{0, 1, 2, 0x8000, 0xFFFF}[r.Intn(5)]
		}
		if !slices.Contains(g.his, h) {
			g.his = append(g.his, h)
		}
	}
	// Seq obtained while the bitmap is empty, before the first Add
	if r.Chance(60) {
		hg.seq(0)
		if r.Chance(30) {
			g.emit("seqrange 0 0")
			g.emit("pull2 0 0")
		}
	}
	if r.Chance(15) {
		hg.it(3)
		hg.itnext(3, 1)
		g.emit("itpairs 1")
	}
	// build
	denseKeys := map[uint32]bool{}
	for i, h := range g.his {
		dense := shape == 1 || (shape == 2 && i == 0)
		if dense {
			denseKeys[h] = true
			// just below the threshold; a Seq is taken before the conversion
			g.growTo(h, r.Range(4090, 4096))
			hg.dropIters()
			if r.Chance(70) {
				hg.seq(1)
			}
			if r.Chance(30) {
				hg.useSeq(1, thorough)
			}
			for g.s.cnt[h] <= 4096 {
				v, ok := g.absent(h, r.Intn(3))
				if !ok {
					break
				}
				hg.add(v)
			}
			g.rep()
			hg.useSeq(1, thorough)
			hg.useSeq(0, thorough)
			if r.Chance(50) { // a bitmap container with few members: cheap to walk across
				g.shrinkTo(h, r.Range(2, 40))
				hg.dropIters()
				g.rep()
				hg.useSeq(1, thorough)
			}
		} else {
			hg.bulk(false, bulkArgs{int(h), r.Intn(65536), r.Range(2, 12), steps[r.Intn(len(steps))]})
			if i == 0 {
				hg.useSeq(0, thorough)
			}
		}
	}
	events := r.Range(3, 6)
	if thorough {
		events = r.Range(4, 9)
	}
	for ; events > 0; events-- {
		switch r.Pick(4, 3, 3, 2, 2) {
		case 0: // several iterators alive
			hg.interleave()
		case 1: // nested Iter
			g.emit("itpairs %d", r.Range(1, 3))
			if r.Chance(30) {
				// nested all-pairs is quadratic: j outer rounds × Len inner steps, keep the product small
				j := hg.stopJ()
				if n := g.s.size(); j*n > 20000 {
					j = max(1, 20000/max(n, 1))
				}
				g.emit("itpairs %d", j)
			}
		case 2: // a Seq taken now, a bucket vanishes (often the head bucket) or is re-created, then used
			k := r.Range(0, 3)
			hg.seq(k)
			ks := g.s.keys()
			if len(ks) > 0 && r.Chance(70) {
				h := ks[0]
				if r.Chance(40) {
					h = ks[r.Intn(len(ks))]
				}
				if denseKeys[h] && g.s.cnt[h] > 64 && !thorough {
					h = ks[len(ks)-1]
				}
				g.shrinkTo(h, 0)
				hg.dropIters()
				g.rep()
				hg.useSeq(k, thorough)
				if r.Chance(60) {
					hg.bulk(false, bulkArgs{int(h), r.Intn(65536), r.Range(1, 5), steps[r.Intn(len(steps))]})
					hg.useSeq(k, thorough)
				}
			} else {
				h := uint32(r.Intn(65536)) // a new bucket, possibly a new head
				if r.Bool() && len(ks) > 0 && ks[0] > 0 {
					h = uint32(r.Intn(int(ks[0])))
				}
				hg.add(h<<16 | uint32(r.Intn(65536)))
				hg.useSeq(k, thorough)
			}
		case 3: // an older slot again after more mutations
			for n := r.Range(1, 4); n > 0; n-- {
				v := g.pickVal()
				if r.Chance(60) {
					hg.add(v)
				} else {
					hg.rm(v)
				}
			}
			hg.useSeq(r.Range(0, 3), thorough)
		case 4: // iterators, a mutation (slots become empty), iterators again
			hg.it(0)
			hg.it(1)
			hg.itnext(0, r.Range(1, 3))
			if m, ok := g.member(g.bucketKey()); ok && r.Bool() {
				hg.rm(m)
			} else {
				hg.add(g.pickVal())
			}
			hg.itnext(1, 1) // none
			hg.interleave()
		}
	}
	// everything held so far once more at the end
	for k := 0; k < nSlots; k++ {
		if hg.seqs[k] && r.Chance(60) {
			g.emit("seqtwice %d %d", k, hg.stopJ())
		}
	}
}
